//go:build verif

package base

import (
	"encoding/json"
	"fmt"
	"testing"
)

func TestVerifProbeInject(t *testing.T) {
	for _, in := range []string{`{}`, `{ }`, " {\n} ", `{"a":1}`, `{ "a":1 }`} {
		out, err := InjectJSONProperties([]byte(in), KVPair{Key: "_id", Val: "x"})
		var v any
		uerr := json.Unmarshal(out, &v)
		fmt.Printf("PROBE inject in=%q out=%q err=%v validJSON=%v\n", in, out, err, uerr == nil)
	}
}
