//go:build verif

package db

import (
	"fmt"
	"testing"

	"github.com/couchbase/sync_gateway/base"
	"github.com/stretchr/testify/require"
)

func TestVerifProbeSeqLeak2(t *testing.T) {
	opts := DefaultCacheOptions()
	db, ctx := SetupTestDBWithOptions(t, DatabaseContextOptions{AllowConflicts: base.Ptr(true), CacheOptions: &opts})
	defer db.Close(ctx)
	collection, ctx := GetSingleDatabaseCollectionWithUser(ctx, t, db)
	docID := "leak2"
	_, _, err := collection.PutExistingRevWithBody(ctx, docID, Body{"k": 1}, []string{"1-zzz"}, false, ExistingVersionWithUpdateToHLV)
	require.NoError(t, err)
	_, _, err = collection.PutExistingRevWithBody(ctx, docID, Body{"bad": true}, []string{"1-aaa"}, false, ExistingVersionWithUpdateToHLV)
	require.NoError(t, err)
	_, err = collection.UpdateSyncFun(ctx, `function(doc){ if (doc.bad) { throw({forbidden:"bad"}); } channel("A"); }`)
	require.NoError(t, err)
	db.sequences.releaseUnusedSequences(ctx)
	s0, _ := db.sequences.getSequence(ctx)
	// tombstone the winning branch: winner becomes 1-aaa, whose body the new sync function rejects
	_, _, err = collection.PutExistingRevWithBody(ctx, docID, Body{BodyDeleted: true}, []string{"2-del", "1-zzz"}, false, ExistingVersionWithUpdateToHLV)
	fmt.Printf("PROBE leak2 tombstone err=%v\n", err)
	db.sequences.releaseUnusedSequences(ctx)
	s1, _ := db.sequences.getSequence(ctx)
	doc, _ := collection.GetDocument(ctx, docID, DocUnmarshalAll)
	onDoc := map[uint64]bool{doc.Sequence: true}
	for _, s := range doc.RecentSequences {
		onDoc[s] = true
	}
	ms := db.MetadataStore
	for s := s0 + 1; s <= s1; s++ {
		rel := false
		if _, _, err := ms.GetRaw(ctx, db.MetadataKeys.UnusedSeqKey(s)); err == nil {
			rel = true
		}
		for a := s0 + 1; a <= s; a++ {
			for e := s; e <= s1; e++ {
				if _, _, err := ms.GetRaw(ctx, db.MetadataKeys.UnusedSeqRangeKey(a, e)); err == nil {
					rel = true
				}
			}
		}
		fmt.Printf("PROBE leak2 seq %d onDoc=%v released=%v\n", s, onDoc[s], rel)
	}
	fmt.Printf("PROBE leak2 doc winner=%s seq=%d\n", doc.GetRevTreeID(), doc.Sequence)
}
