From Coq Require Import List NArith Bool Lia.
Import ListNotations.
Open Scope N_scope.
Record seqid := mk { trig : N; low : N; seq : N }.

Definition before2 (s s2 : seqid) : bool :=
  if negb (trig s =? 0) then
    if negb (trig s2 =? 0) then
      if trig s =? trig s2 then seq s <? seq s2 else trig s <? trig s2
    else trig s <=? seq s2
  else
    if negb (trig s2 =? 0) then seq s <? trig s2 else seq s <? seq s2.

Definition before (s s2 : seqid) : bool :=
  if negb (low s =? 0) then
    if low s =? low s2 then before2 (mk (trig s) 0 (seq s)) (mk (trig s2) 0 (seq s2))
    else if negb (low s2 =? 0) then low s <? low s2
    else if negb (trig s2 =? 0) then low s <? trig s2
    else low s <? seq s2
  else if negb (trig s =? 0) then
    if negb (low s2 =? 0) then trig s <=? low s2
    else if negb (trig s2 =? 0) then
      if trig s =? trig s2 then seq s <? seq s2 else trig s <? trig s2
    else trig s <=? seq s2
  else
    if negb (low s2 =? 0) then seq s <=? low s2
    else if negb (trig s2 =? 0) then seq s <? trig s2
    else seq s <? seq s2.

Require Import ZifyBool ZifyN.
Ltac brk := repeat match goal with
  | |- context[if ?c then _ else _] => destruct c eqn:?
  | H: context[if ?c then _ else _] |- _ => destruct c eqn:?
  end.
Lemma before_irrefl a : before a a = false.
Proof. destruct a as [t l s]; unfold before, before2; cbn [trig low seq]; brk; lia. Qed.
Lemma before_asym a b : before a b = true -> before b a = false.
Proof. destruct a as [t l s], b as [t2 l2 s2]; unfold before, before2; cbn [trig low seq]; intros H; brk; lia. Qed.
Lemma before_total a b : a <> b -> before a b = true \/ before b a = true.
Proof. destruct a as [t l s], b as [t2 l2 s2]; unfold before, before2; cbn [trig low seq]; intros H;
  assert (t <> t2 \/ l <> l2 \/ s <> s2) by (destruct (N.eq_dec t t2), (N.eq_dec l l2), (N.eq_dec s s2); subst; try tauto; lia);
  brk; lia. Qed.
Lemma before_trans a b c : before a b = true -> before b c = true -> before a c = true.
Proof. destruct a as [t l s], b as [t2 l2 s2], c as [t3 l3 s3]; unfold before, before2; cbn [trig low seq]; intros H1 H2; brk; lia. Qed.
Print Assumptions before_trans.
