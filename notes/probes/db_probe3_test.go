//go:build verif

package db

import (
	"fmt"
	"testing"

	"github.com/couchbase/sync_gateway/base"
	"github.com/stretchr/testify/require"
)

func TestVerifProbeResyncLeaf(t *testing.T) {
	opts := DefaultCacheOptions()
	db, ctx := SetupTestDBWithOptions(t, DatabaseContextOptions{AllowConflicts: base.Ptr(true), CacheOptions: &opts})
	defer db.Close(ctx)
	collection, ctx := GetSingleDatabaseCollectionWithUser(ctx, t, db)
	_, err := collection.UpdateSyncFun(ctx, `function(doc){ channel(doc.c1); }`)
	require.NoError(t, err)
	docID := "conf"
	_, _, err = collection.PutExistingRevWithBody(ctx, docID, Body{"c1": "A", "c2": "A"}, []string{"1-zzz"}, false, ExistingVersionWithUpdateToHLV)
	require.NoError(t, err)
	_, _, err = collection.PutExistingRevWithBody(ctx, docID, Body{"c1": "A", "c2": "B"}, []string{"1-aaa"}, false, ExistingVersionWithUpdateToHLV)
	require.NoError(t, err)
	doc, _ := collection.GetDocument(ctx, docID, DocUnmarshalAll)
	fmt.Printf("PROBE resync before: winner=%s winnerCh=%v loserCh=%v\n", doc.GetRevTreeID(), doc.getCurrentChannels(), doc.History["1-aaa"].Channels)
	_, err = collection.UpdateSyncFun(ctx, `function(doc){ channel(doc.c2); }`)
	require.NoError(t, err)
	err = collection.ResyncDocument(ctx, docID, nil, false)
	fmt.Printf("PROBE resync err=%v\n", err)
	doc, _ = collection.GetDocument(ctx, docID, DocUnmarshalAll)
	fmt.Printf("PROBE resync after: winner=%s winnerCh=%v loserCh=%v (fresh would be loserCh={B})\n", doc.GetRevTreeID(), doc.getCurrentChannels(), doc.History["1-aaa"].Channels)
}
