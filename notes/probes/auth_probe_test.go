//go:build verif

package auth

import (
	"fmt"
	"net/http"
	"net/http/httptest"
	"testing"
	"time"

	"github.com/couchbase/sync_gateway/base"
	"github.com/stretchr/testify/require"
)

func TestVerifProbeDisabledCookie(t *testing.T) {
	ctx := base.TestCtx(t)
	bucket := base.GetTestBucket(t)
	defer bucket.Close(ctx)
	dataStore := bucket.GetSingleDataStore()
	a := NewTestAuthenticator(t, dataStore, nil, DefaultAuthenticatorOptions(ctx))
	user, err := a.NewUser("alice", "pw", nil)
	require.NoError(t, err)
	require.NoError(t, a.Save(user))
	sess, err := a.CreateSession(ctx, user, time.Hour, false)
	require.NoError(t, err)
	user, _ = a.GetUser("alice")
	user.SetDisabled(true)
	require.NoError(t, a.Save(user))
	rq, _ := http.NewRequest("GET", "/db/", nil)
	rq.AddCookie(a.MakeSessionCookie(sess, false, false, http.SameSiteDefaultMode))
	u, err := a.AuthenticateCookie(rq, httptest.NewRecorder())
	fmt.Printf("PROBE disabledCookie user=%v err=%v\n", u != nil, err)
	u2, _ := a.AuthenticateUser("alice", "pw")
	fmt.Printf("PROBE disabledPassword user=%v\n", u2 != nil)
}
