//go:build verif

package db

import (
	"encoding/json"
	"fmt"
	"testing"

	"github.com/couchbase/sync_gateway/base"
	"github.com/stretchr/testify/require"
)

func TestVerifProbeBlankObjectImport(t *testing.T) {
	db, ctx := SetupTestDBWithOptions(t, DatabaseContextOptions{})
	defer db.Close(ctx)
	collection, ctx := GetSingleDatabaseCollectionWithUser(ctx, t, db)
	for _, raw := range []string{`{ }`, "{\n}", `{}`} {
		key := fmt.Sprintf("doc_%d", len(raw)) + fmt.Sprintf("%x", raw)
		_, err := collection.dataStore.WriteCas(ctx, key, 0, 0, []byte(raw), 0)
		require.NoError(t, err)
		doc, err := collection.GetDocument(ctx, key, DocUnmarshalAll)
		require.NoError(t, err)
		rev, err := collection.getRev(ctx, key, "", 0, nil)
		var out []byte
		var err2 error
		if err == nil {
			out, err2 = rev.As1xBytes(ctx, collection, nil, nil, false)
		}
		var v any
		uerr := json.Unmarshal(out, &v)
		b1x, removed, err3 := collection.get1xRevFromDoc(ctx, doc, doc.GetRevTreeID(), false)
		var v2 any
		uerr2 := json.Unmarshal(b1x, &v2)
		fmt.Printf("PROBE blank raw=%q getRevErr=%v as1x=%q err=%v valid=%v | get1x=%q removed=%v err=%v valid=%v\n", raw, err, out, err2, uerr == nil, b1x, removed, err3, uerr2 == nil)
	}
}

func TestVerifProbeSeqLeak(t *testing.T) {
	testBucket := base.GetTestBucket(t)
	leakyBucket := base.NewLeakyBucket(testBucket, base.LeakyBucketConfig{})
	opts := DefaultCacheOptions()
	db, ctx := SetupTestDBForBucketWithOptions(t, leakyBucket, DatabaseContextOptions{AllowConflicts: base.Ptr(true), CacheOptions: &opts})
	defer db.Close(ctx)
	collection, ctx := GetSingleDatabaseCollectionWithUser(ctx, t, db)
	other, _ := GetSingleDatabaseCollectionWithUser(ctx, t, db)
	docID := "leakdoc"
	rev1, _, err := collection.Put(ctx, docID, Body{"v": 0})
	require.NoError(t, err)
	s0, _ := db.sequences.lastSequence(ctx)
	leakyDS, ok := base.AsLeakyDataStore(collection.dataStore)
	require.True(t, ok)
	attempt := 0
	nested := false
	leakyDS.SetUpdateCallback(func(key string) {
		if key != docID || nested {
			return
		}
		nested = true
		defer func() { nested = false }()
		attempt++
		switch attempt {
		case 1, 2:
			// competing conflicting root branch: changes CAS and sequence, rev1 stays a leaf
			_, _, err := other.PutExistingRevWithBody(ctx, docID, Body{"w": attempt}, []string{fmt.Sprintf("1-cafe%d", attempt)}, false, ExistingVersionWithUpdateToHLV)
			fmt.Printf("PROBE competing branch %d err=%v\n", attempt, err)
		}
		if attempt == 2 {
			// also make rev1 a non-leaf so that attempt 3 is rejected with 409
			_, _, err := other.Put(ctx, docID, Body{"v": 99, BodyRev: rev1})
			fmt.Printf("PROBE competing child err=%v\n", err)
		}
	})
	_, _, err = collection.Put(ctx, docID, Body{"v": 1, BodyRev: rev1})
	leakyDS.SetUpdateCallback(nil)
	fmt.Printf("PROBE seqleak put err=%v attempts=%d\n", err, attempt)
	db.sequences.releaseUnusedSequences(ctx)
	s1, _ := db.sequences.getSequence(ctx)
	doc, err := collection.GetDocument(ctx, docID, DocUnmarshalAll)
	require.NoError(t, err)
	onDoc := map[uint64]bool{}
	for _, s := range doc.RecentSequences {
		onDoc[s] = true
	}
	onDoc[doc.Sequence] = true
	ms := db.MetadataStore
	released := map[uint64]bool{}
	for s := s0 + 1; s <= s1; s++ {
		if _, _, err := ms.GetRaw(ctx, db.MetadataKeys.UnusedSeqKey(s)); err == nil {
			released[s] = true
		}
		for e := s; e <= s1; e++ {
			if _, _, err := ms.GetRaw(ctx, db.MetadataKeys.UnusedSeqRangeKey(s, e)); err == nil {
				for x := s; x <= e; x++ {
					released[x] = true
				}
			}
		}
	}
	for s := s0 + 1; s <= s1; s++ {
		fmt.Printf("PROBE seq %d onDoc=%v released=%v\n", s, onDoc[s], released[s])
	}
	fmt.Printf("PROBE doc seq=%d recent=%v unused=%v\n", doc.Sequence, doc.RecentSequences, doc.UnusedSequences)
}
