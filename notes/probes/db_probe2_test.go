//go:build verif

package db

import (
	"context"
	"errors"
	"fmt"
	"strings"
	"testing"

	"github.com/couchbase/sync_gateway/base"
	"github.com/stretchr/testify/require"
)

type faultStore struct {
	base.DataStore
	failAddRawPrefix string
	log              []string
}

func (f *faultStore) AddRaw(ctx context.Context, k string, exp uint32, v []byte) (bool, error) {
	f.log = append(f.log, "AddRaw "+k)
	if f.failAddRawPrefix != "" && strings.HasPrefix(k, f.failAddRawPrefix) {
		return false, errors.New("injected AddRaw failure")
	}
	return f.DataStore.AddRaw(ctx, k, exp, v)
}

func TestVerifProbeSwallowedAddRaw(t *testing.T) {
	opts := DefaultCacheOptions()
	db, ctx := SetupTestDBWithOptions(t, DatabaseContextOptions{AllowConflicts: base.Ptr(true), CacheOptions: &opts})
	defer db.Close(ctx)
	collection, ctx := GetSingleDatabaseCollectionWithUser(ctx, t, db)
	fs := &faultStore{DataStore: collection.dataStore, failAddRawPrefix: base.RevBodyPrefix}
	collection.dataStore = fs
	docID := "bigconflict"
	big := strings.Repeat("x", 400)
	_, _, err := collection.PutExistingRevWithBody(ctx, docID, Body{"k": "winner-" + big}, []string{"1-zzz"}, false, ExistingVersionWithUpdateToHLV)
	require.NoError(t, err)
	// non-winning conflicting root (lower digest) with a large body -> stored externally
	_, rev, err := collection.PutExistingRevWithBody(ctx, docID, Body{"k": "loser-" + big}, []string{"1-aaa"}, false, ExistingVersionWithUpdateToHLV)
	fmt.Printf("PROBE swallowed: put loser rev=%s err=%v ops=%v\n", rev, err, fs.log)
	collection.dataStore = fs.DataStore
	collection.revisionCache.Remove(ctx, docID, "1-aaa")
	body, gerr := collection.Get1xRevBody(ctx, docID, "1-aaa", false, nil)
	fmt.Printf("PROBE swallowed: read loser body=%v err=%v\n", body != nil, gerr)
	doc, _ := collection.GetDocument(ctx, docID, DocUnmarshalAll)
	fmt.Printf("PROBE swallowed: winner=%s loser bodyKey=%q\n", doc.GetRevTreeID(), doc.History["1-aaa"].BodyKey)
}
