From Coq Require Import List NArith Bool Lia.
Import ListNotations.
Open Scope N_scope.
Record seqid := mk { trig : N; low : N; seq : N }.

Definition before2 (s s2 : seqid) : bool :=
  if negb (trig s =? 0) then
    if negb (trig s2 =? 0) then
      if trig s =? trig s2 then seq s <? seq s2 else trig s <? trig s2
    else trig s <=? seq s2
  else
    if negb (trig s2 =? 0) then seq s <? trig s2 else seq s <? seq s2.

Definition before (s s2 : seqid) : bool :=
  if negb (low s =? 0) then
    if low s =? low s2 then before2 (mk (trig s) 0 (seq s)) (mk (trig s2) 0 (seq s2))
    else if negb (low s2 =? 0) then low s <? low s2
    else if negb (trig s2 =? 0) then low s <? trig s2
    else low s <? seq s2
  else if negb (trig s =? 0) then
    if negb (low s2 =? 0) then trig s <=? low s2
    else if negb (trig s2 =? 0) then
      if trig s =? trig s2 then seq s <? seq s2 else trig s <? trig s2
    else trig s <=? seq s2
  else
    if negb (low s2 =? 0) then seq s <=? low s2
    else if negb (trig s2 =? 0) then seq s <? trig s2
    else seq s <? seq s2.

Definition safe (s: seqid) : N := if (0 <? low s) && (low s <? seq s) then low s else seq s.
(* round trip at the form level: what parse(print s) yields *)
Definition rt (s : seqid) : seqid :=
  if (0 <? trig s) && (seq s <? trig s) then
    if (0 <? low s) && (low s <? trig s) then mk (trig s) (low s) (seq s) else mk (trig s) 0 (seq s)
  else if (0 <? low s) && (low s <? seq s) then mk 0 (low s) (seq s)
  else mk 0 0 (seq s).
Definition rng := [0;1;2;3;4].
Definition all := flat_map (fun t => flat_map (fun l => map (fun s => mk t l s) rng) rng) rng.
Definition emitted (s: seqid) := (trig s =? 0) || (seq s <? trig s).
Definition em0 := filter (fun s => emitted s && (low s =? 0)) all.
Definition stamp (L: N) (s: seqid) := mk (trig s) L (seq s).
Definition bad := flat_map (fun L => flat_map (fun a => flat_map (fun b =>
   if before a b && negb (before (rt (stamp L a)) (rt (stamp L b))) then [(L,a,b)] else []) em0) em0) rng.
Eval vm_compute in (length em0, length bad, firstn 5 bad).
Definition badsafe := filter (fun s => negb (safe (rt s) =? safe s)) all.
Eval vm_compute in (length badsafe).
