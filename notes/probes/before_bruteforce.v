From Coq Require Import List NArith Bool Lia.
Import ListNotations.
Open Scope N_scope.
Record seqid := mk { trig : N; low : N; seq : N }.

Definition before2 (s s2 : seqid) : bool :=
  if negb (trig s =? 0) then
    if negb (trig s2 =? 0) then
      if trig s =? trig s2 then seq s <? seq s2 else trig s <? trig s2
    else trig s <=? seq s2
  else
    if negb (trig s2 =? 0) then seq s <? trig s2 else seq s <? seq s2.

Definition before (s s2 : seqid) : bool :=
  if negb (low s =? 0) then
    if low s =? low s2 then before2 (mk (trig s) 0 (seq s)) (mk (trig s2) 0 (seq s2))
    else if negb (low s2 =? 0) then low s <? low s2
    else if negb (trig s2 =? 0) then low s <? trig s2
    else low s <? seq s2
  else if negb (trig s =? 0) then
    if negb (low s2 =? 0) then trig s <=? low s2
    else if negb (trig s2 =? 0) then
      if trig s =? trig s2 then seq s <? seq s2 else trig s <? trig s2
    else trig s <=? seq s2
  else
    if negb (low s2 =? 0) then seq s <=? low s2
    else if negb (trig s2 =? 0) then seq s <? trig s2
    else seq s <? seq s2.

Definition rng := [0;1;2;3].
Definition all := flat_map (fun t => flat_map (fun l => map (fun s => mk t l s) rng) rng) rng.
Definition eqs (a b: seqid) := (trig a =? trig b) && (low a =? low b) && (seq a =? seq b).
Definition irrefl := forallb (fun a => negb (before a a)) all.
Definition asym := forallb (fun a => forallb (fun b => negb (before a b && before b a)) all) all.
Definition total := forallb (fun a => forallb (fun b => eqs a b || before a b || before b a) all) all.
Definition trans := forallb (fun a => forallb (fun b => forallb (fun c => implb (before a b && before b c) (before a c)) all) all) all.
Eval vm_compute in (irrefl, asym, total, trans).
(* counterexamples *)
Definition cex_trans := flat_map (fun a => flat_map (fun b => flat_map (fun c => if before a b && before b c && negb (before a c) then [(a,b,c)] else []) all) all) all.
Eval vm_compute in (length cex_trans, hd_error cex_trans).
Definition cex_total := flat_map (fun a => flat_map (fun b => if eqs a b || before a b || before b a then [] else [(a,b)]) all) all.
Eval vm_compute in (length cex_total, hd_error cex_total).
Definition cex_asym := flat_map (fun a => flat_map (fun b => if before a b && before b a then [(a,b)] else []) all) all.
Eval vm_compute in (length cex_asym, hd_error cex_asym).
