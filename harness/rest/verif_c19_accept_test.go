//go:build verif

package rest

// C19, deepened: every write entry point x hostile request texts (Accept.v) and every read exit on what was
// stored (ReadPath.v).
//
// Streams (Coq cases CAccept / CRead, plus monitors):
//   accept-exhaustive  the entry points not covered by the "reserved" stream (POST, PUT ?new_edits=false,
//                      _bulk_docs new_edits=false) x 19-20 reserved / look-alike keys x 6 value kinds, next to a data member
//   accept-hostile     ALL entry points (PUT, POST, _bulk_docs, PUT new_edits=false, _bulk_docs new_edits=false, BLIP rev,
//                      BLIP rev with deltaSrc, raw write + on-demand import) x a corpus of hostile texts: syntax errors,
//                      arrays / strings / numbers / booleans, null, bytes after the object, duplicate keys (reserved and
//                      not, escaped spelling of one of them), key order, nested reserved names, large numbers
//   accept-random      random entry point x random member lists with duplicates and an optional trailer
//   import-feed        the same texts written raw under a second database with the import feed running
//   read               every accepted document of the streams above is read back through GET, GET ?revs=true,
//                      GET ?show_exp=true, _bulk_get, open_revs, _changes?include_docs, _all_docs?include_docs
//                      (with and without revs) and a BLIP pull; the response members in order, each attributed to the
//                      stored member it carries or to the gateway

import (
	"bytes"
	"encoding/json"
	"fmt"
	"sort"
	"strings"
	"time"

	"github.com/couchbase/go-blip"
	"github.com/couchbase/sync_gateway/base"
)

type c19AMember struct {
	key     string
	kind    string // Coq constructor of vk
	val     string // value text
	escaped bool
}

func (m c19AMember) keyText() string {
	if m.escaped && len(m.key) > 0 {
		return fmt.Sprintf(`\u%04x`, m.key[0]) + m.key[1:]
	}
	return m.key
}

type c19ATop struct {
	shape    string       // invalid | nonobj | null | obj
	text     string       // for the non-object shapes
	ms       []c19AMember // obj: members in text order
	trailing string       // obj: bytes after the closing brace
}

func (t c19ATop) objText() string {
	parts := make([]string, len(t.ms))
	for i, m := range t.ms {
		parts[i] = `"` + m.keyText() + `":` + m.val
	}
	// the blank after the opening brace keeps the text from ever being what json.Marshal would produce, so that
	// "the stored bytes are the request text" can be told from "the body was marshalled again"
	return "{ " + strings.Join(parts, ",") + "}" + t.trailing
}

func (t c19ATop) coq() string {
	switch t.shape {
	case "invalid":
		return "TInvalid"
	case "nonobj":
		return "TNonObj"
	case "null":
		return "TNull"
	}
	items := make([]string, len(t.ms))
	for i, m := range t.ms {
		items[i] = fmt.Sprintf("(%s, %s, %s)", cqStr(m.key), m.kind, cqBool(m.escaped))
	}
	return fmt.Sprintf("(TObj %s %s)", cqList(items), cqBool(t.trailing != ""))
}

func (t c19ATop) hasKey(k string) bool {
	for _, m := range t.ms {
		if m.key == k {
			return true
		}
	}
	return false
}

// the value a decoder sees for a key: the last member wins
func (t c19ATop) last(k string) (c19AMember, bool) {
	for i := len(t.ms) - 1; i >= 0; i-- {
		if t.ms[i].key == k {
			return t.ms[i], true
		}
	}
	return c19AMember{}, false
}

// members of the first JSON object of a text, in order, and whether anything but whitespace follows it
//
// The values are returned in canonical form (c19CanonVal); the compact value texts of the last call are left in
// c19LastRawVals (the harness is single-threaded).
var c19LastRawVals []string

func c19KindOfText(text string) string {
	var v any
	d := json.NewDecoder(strings.NewReader(text))
	d.UseNumber()
	_ = d.Decode(&v)
	return c19KindOf(v)
}

func c19MembersPrefix(text []byte) (ms [][2]string, trailing bool, err error) {
	c19LastRawVals = nil
	dec := json.NewDecoder(bytes.NewReader(text))
	dec.UseNumber()
	tok, err := dec.Token()
	if err != nil {
		return nil, false, err
	}
	if d, ok := tok.(json.Delim); !ok || d != '{' {
		return nil, false, fmt.Errorf("not an object")
	}
	for dec.More() {
		kt, err := dec.Token()
		if err != nil {
			return nil, false, err
		}
		k, ok := kt.(string)
		if !ok {
			return nil, false, fmt.Errorf("key is not a string")
		}
		var raw json.RawMessage
		if err := dec.Decode(&raw); err != nil {
			return nil, false, err
		}
		var c bytes.Buffer
		if err := json.Compact(&c, raw); err != nil {
			return nil, false, err
		}
		ms = append(ms, [2]string{k, c19CanonVal(c.String())})
		c19LastRawVals = append(c19LastRawVals, c.String())
	}
	if _, err := dec.Token(); err != nil {
		return nil, false, err
	}
	off := int(dec.InputOffset())
	trailing = len(bytes.TrimLeft(text[off:], " \t\r\n")) > 0
	return ms, trailing, nil
}

// a value text up to what a JSON decoder / encoder pair may change: member order of nested objects, whitespace,
// escapes; numbers as exact decimals
func c19CanonVal(text string) string {
	v, err := c19Decode([]byte(text))
	if err != nil {
		return "?" + text
	}
	b, err := json.Marshal(c19Norm(v))
	if err != nil {
		return "?" + text
	}
	return string(b)
}

func c19CanonMembers(ms [][2]string) [][2]string {
	out := make([][2]string, len(ms))
	for i, m := range ms {
		out[i] = [2]string{m[0], c19CanonVal(m[1])}
	}
	return out
}

type c19Entry struct {
	name string // Coq constructor
	// returns: status (2xx accepted; 0 with panicked=true), the document id, the text that was sent as the document
	f func(e *c19Env, id string, t c19ATop, text string) (status int, panicked bool, docid string)
}

const c19RevsMember = `"_revisions":{"start":1,"ids":["aaa"]}`

func c19Addressed(text string, members ...string) string {
	// put addressing members in front of the document's own members ("{ " + ...)
	if !strings.HasPrefix(text, "{ ") {
		return text
	}
	rest := text[2:]
	sep := ","
	if strings.HasPrefix(rest, "}") {
		sep = ""
	}
	return "{ " + strings.Join(members, ",") + sep + rest
}

func (e *c19Env) safeAdmin(method, path, body string) (r *TestResponse, panicked bool) {
	defer func() {
		if x := recover(); x != nil {
			panicked = true
		}
	}()
	return e.admin(method, path, body), false
}

func c19BulkStatus(r *TestResponse) int {
	if r.Code != 201 {
		return r.Code
	}
	var rows []struct {
		Status int `json:"status"`
	}
	if err := json.Unmarshal(r.BodyBytes(), &rows); err != nil || len(rows) != 1 {
		return 599
	}
	if rows[0].Status != 0 {
		return rows[0].Status
	}
	return 201
}

func (e *c19Env) blipRevProps(id, rev, body string, props blip.Properties) (status int, panicked bool) {
	rq := e.bt.newRevMessage(id, rev, []byte(body), props)
	e.bt.Send(rq)
	resp := rq.Response()
	if code := resp.Properties["Error-Code"]; code != "" {
		n := 0
		_, _ = fmt.Sscanf(code, "%d", &n)
		if n == 0 {
			n = 597
		}
		rb, _ := resp.Body()
		return n, bytes.HasPrefix(rb, []byte("Panic:"))
	}
	return 201, false
}

var c19Entries = []c19Entry{
	{"EPut", func(e *c19Env, id string, t c19ATop, text string) (int, bool, string) {
		r, p := e.safeAdmin("PUT", "/{{.keyspace}}/"+id, text)
		if p {
			return 0, true, id
		}
		return r.Code, false, id
	}},
	{"EPost", func(e *c19Env, id string, t c19ATop, text string) (int, bool, string) {
		r, p := e.safeAdmin("POST", "/{{.keyspace}}/", text)
		if p {
			return 0, true, id
		}
		var resp struct {
			ID string `json:"id"`
		}
		_ = json.Unmarshal(r.BodyBytes(), &resp)
		if resp.ID != "" {
			id = resp.ID
		}
		return r.Code, false, id
	}},
	{"EBulk", func(e *c19Env, id string, t c19ATop, text string) (int, bool, string) {
		r, p := e.safeAdmin("POST", "/{{.keyspace}}/_bulk_docs", `{"docs":[`+c19Addressed(text, fmt.Sprintf(`"_id":%q`, id))+`]}`)
		if p {
			return 0, true, id
		}
		return c19BulkStatus(r), false, id
	}},
	{"EPutNE", func(e *c19Env, id string, t c19ATop, text string) (int, bool, string) {
		r, p := e.safeAdmin("PUT", "/{{.keyspace}}/"+id+"?new_edits=false", c19Addressed(text, c19RevsMember))
		if p {
			return 0, true, id
		}
		return r.Code, false, id
	}},
	{"EBulkNE", func(e *c19Env, id string, t c19ATop, text string) (int, bool, string) {
		r, p := e.safeAdmin("POST", "/{{.keyspace}}/_bulk_docs", `{"new_edits":false,"docs":[`+c19Addressed(text, fmt.Sprintf(`"_id":%q`, id), c19RevsMember)+`]}`)
		if p {
			return 0, true, id
		}
		return c19BulkStatus(r), false, id
	}},
	{"EBlip", func(e *c19Env, id string, t c19ATop, text string) (int, bool, string) {
		s, p := e.blipRevProps(id, "1-abc", text, blip.Properties{})
		return s, p, id
	}},
	{"EBlipDelta", func(e *c19Env, id string, t c19ATop, text string) (int, bool, string) {
		s, p := e.blipRevProps(id, "2-abc", text, blip.Properties{"deltaSrc": "1-abc"})
		return s, p, id
	}},
	{"EImport", func(e *c19Env, id string, t c19ATop, text string) (int, bool, string) {
		if _, err := e.rt.GetSingleDataStore().AddRaw(e.rt.Context(), id, 0, []byte(text)); err != nil {
			return 598, false, id
		}
		r, p := e.safeAdmin("GET", "/{{.keyspace}}/"+id, "")
		if p {
			return 0, true, id
		}
		return r.Code, false, id
	}},
}

func c19EntryByName(n string) c19Entry {
	for _, en := range c19Entries {
		if en.name == n {
			return en
		}
	}
	panic("no entry " + n)
}

// keys that an addressed entry point uses for addressing and that therefore are not part of the members
func c19EntrySkips(entry, key string) bool {
	switch entry {
	case "EBulk":
		return key == "_id"
	case "EPutNE":
		return key == "_revisions"
	case "EBulkNE":
		return key == "_id" || key == "_revisions"
	}
	return false
}

var c19ReservedEverywhere = []string{"_id", "_rev", "_revisions", "_cv", "_sync", "_purged"}

type c19Accepted struct {
	entry   string
	id      string
	t       c19ATop
	text    string
	raw     []byte
	expSet  bool // the write set an expiry (a numeric _exp was consumed)
	skipRd  bool
	stream  string
	storedM [][2]string
	trail   bool
}

func (e *c19Env) acceptCase(stream string, en c19Entry, t c19ATop) *c19Accepted {
	id := e.newID("a")
	// POST takes its document id from a string _id member: give that member a fresh id as its value
	if en.name == "EPost" {
		for i := range t.ms {
			if t.ms[i].key == "_id" && t.ms[i].kind == "KStr" {
				t.ms[i].val = fmt.Sprintf("%q", e.newID("ap"))
			}
		}
		if m, ok := t.last("_id"); ok && m.kind == "KStr" {
			_ = json.Unmarshal([]byte(m.val), &id)
		}
	}
	text := t.text
	if t.shape == "obj" {
		text = t.objText()
	}
	status, panicked, docid := en.f(e, id, t, text)
	var raw []byte
	if en.name == "EPost" && (panicked || status/100 != 2) {
		raw = nil // nothing to look up: no document id was returned
	} else {
		raw = e.rawBody(docid)
	}
	desc := map[string]any{"entry": en.name, "text": text, "status": status, "panicked": panicked, "doc": docid}
	accepted := !panicked && status/100 == 2
	result := ""
	var storedM [][2]string
	trail := false
	switch {
	case panicked:
		result = "RPanic"
	case !accepted:
		st := status
		result = fmt.Sprintf("(RRej %d)", st)
		e.rec.Err(fmt.Sprintf("%s:%d", en.name, status))
		if raw != nil && en.name != "EImport" {
			e.fail("reserved_rejected", "rejected-but-stored", desc, "refused, but a body is stored: "+c19Short(raw))
		}
	case raw == nil:
		result = "RTombstone"
	default:
		var err error
		storedM, trail, err = c19MembersPrefix(raw)
		if err != nil {
			e.fail("reserved_stored_readable", "stored-body-unreadable", desc, "accepted, but the stored body does not start with a JSON object: "+c19Short(raw))
			return nil
		}
		dec := map[string]string{}
		for i, m := range storedM {
			dec[m[0]] = c19LastRawVals[i]
		}
		keys := make([]string, 0, len(dec))
		for k := range dec {
			keys = append(keys, k)
		}
		sort.Strings(keys)
		var items []string
		for _, k := range keys {
			items = append(items, fmt.Sprintf("(%s, %s)", cqStr(k), c19KindOfText(dec[k])))
		}
		verbatim := string(raw) == text
		result = fmt.Sprintf("(RStored %s %s)", cqList(items), cqBool(verbatim))
		desc["stored"] = string(raw)
	}
	nontriv := t.shape != "obj" || t.trailing != ""
	seen := map[string]bool{}
	for _, m := range t.ms {
		if strings.HasPrefix(m.key, "_") || seen[m.key] {
			nontriv = true
		}
		seen[m.key] = true
	}
	e.rec.Case(stream, "accept_"+en.name, fmt.Sprintf("CAccept %s %s %s", en.name, t.coq(), result), desc, nontriv)

	// ---- monitors ----
	if panicked {
		e.fail("nonobject_refused", "null-body-panic", desc, "the request handler panicked instead of answering with a status")
	}
	if !accepted || raw == nil {
		return nil
	}
	// C19_stored_body_has_no_reserved_keys: no member of the stored text (shadowed duplicates included)
	for _, m := range storedM {
		bad := strings.HasPrefix(m[0], "_sync_")
		for _, r := range c19ReservedEverywhere {
			if m[0] == r {
				bad = true
			}
		}
		if bad && m[0] == "_cv" {
			e.fail("stored_body_has_no_reserved_keys", "stored-cv-clashes-with-injected-cv", desc, fmt.Sprintf("the stored body has the reserved member %q: %s", m[0], c19Short(raw)))
		} else if bad {
			e.fail("stored_body_has_no_reserved_keys", "stored-reserved-key:"+m[0], desc, fmt.Sprintf("the stored body has the reserved member %q: %s", m[0], c19Short(raw)))
		}
	}
	// the gateway must not store a text that is not one JSON object (the import path stores nothing itself)
	if trail && en.name != "EImport" {
		e.fail("stored_body_is_json_object", "blip-trailing-bytes-stored", desc, "the stored body has bytes after the JSON object: "+c19Short(raw))
	}
	// C19_user_keys_preserved: every member whose name does not start with an underscore is stored with its value
	for _, m := range t.ms {
		if strings.HasPrefix(m.key, "_") {
			continue
		}
		w, _ := t.last(m.key)
		found := false
		for i := len(storedM) - 1; i >= 0; i-- {
			if storedM[i][0] == m.key {
				found = storedM[i][1] == c19CanonVal(w.val)
				break
			}
		}
		if !found {
			e.fail("user_keys_preserved", "user-property-dropped", desc, fmt.Sprintf("member %q = %s is not in the stored body %s", m.key, w.val, c19Short(raw)))
		}
	}
	// an _exp that is not an expiry must be refused, not stored
	if w, ok := t.last("_exp"); ok && (w.kind == "KTrue" || w.kind == "KFalse" || w.kind == "KStr" || w.kind == "KObj") && en.name != "EImport" {
		for _, m := range storedM {
			if m[0] == "_exp" {
				e.fail("invalid_exp_refused", "new-edits-false-invalid-exp-stored", desc, fmt.Sprintf("_exp = %s is not a valid expiry; the write was accepted and the member stored: %s", w.val, c19Short(raw)))
				break
			}
		}
	}
	a := &c19Accepted{entry: en.name, id: docid, t: t, text: text, raw: raw, storedM: storedM, trail: trail, stream: stream}
	if w, ok := t.last("_exp"); ok && w.kind == "KNum" {
		a.expSet = true
	}
	for _, m := range t.ms {
		// attachment metadata belongs to C14; a numeric _exp that is shadowed may or may not have set an expiry
		if m.key == "_attachments" && m.kind != "KNull" {
			a.skipRd = true
		}
		if m.key == "_exp" && m.kind == "KNum" && !a.expSet {
			a.skipRd = true
		}
	}
	return a
}

// ---------------------------------------------------------------- reads

type c19Exit struct {
	coq  string
	name string
	get  func(e *c19Env, a *c19Accepted) ([]byte, bool) // the document as returned; false: no usable document
}

func (e *c19Env) getDoc(path string) ([]byte, bool) {
	r := e.adminJSON("GET", path, "")
	if r.Code != 200 {
		return nil, false
	}
	return r.BodyBytes(), true
}

var c19Exits = []c19Exit{
	{"(XGet false false)", "get", func(e *c19Env, a *c19Accepted) ([]byte, bool) { return e.getDoc("/{{.keyspace}}/" + a.id) }},
	{"(XGet true false)", "get_revs", func(e *c19Env, a *c19Accepted) ([]byte, bool) {
		return e.getDoc("/{{.keyspace}}/" + a.id + "?revs=true")
	}},
	{"(XGet false true)", "get_show_exp", func(e *c19Env, a *c19Accepted) ([]byte, bool) {
		return e.getDoc("/{{.keyspace}}/" + a.id + "?show_exp=true")
	}},
	{"XBulkGet", "bulk_get", func(e *c19Env, a *c19Accepted) ([]byte, bool) {
		r := e.admin("POST", "/{{.keyspace}}/_bulk_get", fmt.Sprintf(`{"docs":[{"id":%q}]}`, a.id))
		if r.Code != 200 {
			return nil, false
		}
		part, err := c19FirstPart(r.Header().Get("Content-Type"), r.BodyBytes())
		if err != nil {
			return nil, false
		}
		if m, ok := c19DecodeObj(part); ok {
			if _, isErr := m["error"]; isErr {
				return nil, false
			}
		}
		return part, true
	}},
	{"XOpenRevs", "open_revs", func(e *c19Env, a *c19Accepted) ([]byte, bool) {
		r := e.adminJSON("GET", "/{{.keyspace}}/"+a.id+"?open_revs=all", "")
		var arr []map[string]json.RawMessage
		if r.Code != 200 || json.Unmarshal(r.BodyBytes(), &arr) != nil || len(arr) != 1 || arr[0]["ok"] == nil {
			return nil, false
		}
		return arr[0]["ok"], true
	}},
	{"XChanges", "changes", func(e *c19Env, a *c19Accepted) ([]byte, bool) {
		r := e.admin("POST", "/{{.keyspace}}/_changes", fmt.Sprintf(`{"filter":"_doc_ids","doc_ids":[%q],"include_docs":true}`, a.id))
		d := c19ChangesDoc(r, a.id)
		return d.body, d.err == ""
	}},
	{"(XAllDocs false)", "all_docs", func(e *c19Env, a *c19Accepted) ([]byte, bool) {
		d, _ := e.allDocsBody2(a.id, "")
		return d, d != nil
	}},
	{"(XAllDocs true)", "all_docs_revs", func(e *c19Env, a *c19Accepted) ([]byte, bool) {
		d, _ := e.allDocsBody2(a.id, "&revs=true")
		return d, d != nil
	}},
}

func (e *c19Env) allDocsBody2(id, opts string) (json.RawMessage, string) {
	r := e.admin("POST", "/{{.keyspace}}/_all_docs?include_docs=true"+opts, fmt.Sprintf(`{"keys":[%q]}`, id))
	var ad struct {
		Rows []struct {
			Doc json.RawMessage `json:"doc"`
		} `json:"rows"`
	}
	if err := json.Unmarshal(r.BodyBytes(), &ad); err != nil || len(ad.Rows) != 1 || ad.Rows[0].Doc == nil {
		return nil, c19Short(r.BodyBytes())
	}
	return ad.Rows[0].Doc, ""
}

var c19ReadKeys = map[string]bool{"_id": true, "_rev": true, "_revisions": true, "_exp": true, "_cv": true, "_deleted": true, "_attachments": true}

func (e *c19Env) readCase(a *c19Accepted, coqExit, name string, doc []byte, ok bool, splice bool) {
	meta := fmt.Sprintf("{| m_cv := true; m_deleted := false; m_exp := %s; m_atts := ANil |}", cqBool(a.expSet))
	skeys := make([]string, len(a.storedM))
	for i, m := range a.storedM {
		skeys[i] = cqStr(m[0])
	}
	desc := map[string]any{"entry": a.entry, "exit": name, "written": a.text, "stored": string(a.raw), "doc": a.id}
	obs := "None"
	var outM [][2]string
	if ok {
		var err error
		outM, err = c19Members(doc)
		if err != nil {
			ok = false
			desc["response_doc"] = c19Short(doc)
		}
		outM = c19CanonMembers(outM)
	}
	if ok {
		items := make([]string, len(outM))
		for j, m := range outM {
			idx := -1
			if splice && j < len(a.storedM) && a.storedM[j] == m {
				idx = j
			} else {
				for i := len(a.storedM) - 1; i >= 0; i-- {
					if a.storedM[i] == m {
						idx = i
						break
					}
				}
			}
			if idx >= 0 {
				items[j] = fmt.Sprintf("(%s, Some %d)", cqStr(m[0]), idx)
			} else {
				items[j] = fmt.Sprintf("(%s, None)", cqStr(m[0]))
			}
		}
		obs = "(Some " + cqList(items) + ")"
		desc["response_doc"] = c19Short(doc)
	}
	nontriv := false
	for _, m := range a.storedM {
		if strings.HasPrefix(m[0], "_") {
			nontriv = true
		}
	}
	e.rec.Case("read", "read_"+name, fmt.Sprintf("CRead %s %s %s %s %s", coqExit, meta, cqList(skeys), cqBool(a.trail), obs), desc, nontriv || a.trail || len(a.storedM) > 1)

	// ---- monitor: C19_read_is_stored_plus_metadata ----
	if !ok {
		sig := "read-unavailable:" + name
		if a.trail {
			if a.entry == "EImport" {
				return // the SDK wrote a text that is not JSON; the gateway stored nothing itself
			}
			sig = "blip-trailing-bytes-stored"
		}
		e.fail("read_is_stored_plus_metadata", sig, desc, "an accepted document cannot be read through this exit")
		return
	}
	// what a decoder makes of the stored text and of the response
	stored := map[string]string{}
	for _, m := range a.storedM {
		stored[m[0]] = m[1]
	}
	seen := map[string]int{}
	out := map[string]string{}
	for _, m := range outM {
		seen[m[0]]++
		out[m[0]] = m[1]
	}
	for k, n := range seen {
		if n > 1 {
			if splice && c19CountKey(a.storedM, k) == n {
				continue // the stored text has the name that often (an imported / pushed text with duplicates); nothing was added
			}
			if _, dupInStored := stored[k]; dupInStored && c19ReadKeys[k] {
				e.fail("read_is_stored_plus_metadata", "stored-cv-clashes-with-injected-cv", desc, fmt.Sprintf("the response has the member %q twice: %s", k, c19Short(doc)))
			} else {
				e.fail("read_is_stored_plus_metadata", "read-duplicate-member:"+k, desc, fmt.Sprintf("the response has the member %q %d times: %s", k, n, c19Short(doc)))
			}
		}
	}
	for k, v := range stored {
		got, has := out[k]
		switch {
		case !has:
			e.fail("read_is_stored_plus_metadata", "read-drops-stored-member:"+name, desc, fmt.Sprintf("stored member %q is missing from the response %s", k, c19Short(doc)))
		case got != v && c19ReadKeys[k]:
			if seen[k] == 1 { // (the duplicated form is reported above)
				e.fail("read_is_stored_plus_metadata", "stored-cv-clashes-with-injected-cv", desc, fmt.Sprintf("stored member %q = %s is replaced by %s in the response", k, v, got))
			}
		case got != v:
			e.fail("read_is_stored_plus_metadata", "read-alters-stored-member:"+name, desc, fmt.Sprintf("stored member %q = %s comes back as %s", k, v, got))
		}
	}
	if name != "blip_pull" {
		for _, k := range []string{"_id", "_rev"} {
			if _, has := out[k]; !has {
				e.fail("read_is_stored_plus_metadata", "read-missing-injected:"+k, desc, fmt.Sprintf("the response lacks the reserved property %q: %s", k, c19Short(doc)))
			}
		}
	}
	for k := range out {
		if _, has := stored[k]; !has && !c19ReadKeys[k] {
			e.fail("read_is_stored_plus_metadata", "read-adds-member:"+k, desc, fmt.Sprintf("the response has a member %q that is neither stored nor a documented reserved property", k))
		}
	}
}

func c19CountKey(ms [][2]string, k string) int {
	n := 0
	for _, m := range ms {
		if m[0] == k {
			n++
		}
	}
	return n
}

func (e *c19Env) readAll(a *c19Accepted, all bool) {
	if a == nil || a.skipRd {
		return
	}
	for i, x := range c19Exits {
		if !all && (i == 1 || i == 4 || i == 7) {
			continue
		}
		if x.name == "get_show_exp" && a.entry == "EImport" {
			continue // the expiry of an SDK document is the SDK's
		}
		doc, ok := x.get(e, a)
		e.readCase(a, x.coq, x.name, doc, ok, strings.HasPrefix(x.coq, "XChanges") || strings.HasPrefix(x.coq, "(XAllDocs"))
	}
}

// ---------------------------------------------------------------- corpus

func c19AM(key, kind string, i int) c19AMember {
	val := map[string]string{"KNull": "null", "KTrue": "true", "KFalse": "false", "KNum": fmt.Sprint(1000 + i), "KStr": fmt.Sprintf(`"s%d"`, i), "KObj": "{}"}[kind]
	return c19AMember{key: key, kind: kind, val: val}
}

func c19Obj(trailing string, ms ...c19AMember) c19ATop {
	return c19ATop{shape: "obj", ms: ms, trailing: trailing}
}

func c19Esc(m c19AMember) c19AMember { m.escaped = true; return m }

func c19HostileCorpus() []c19ATop {
	var out []c19ATop
	for _, s := range []string{`{ "a":7,}`, `{ "a" 7}`, `{ a:7}`, "\xef\xbb\xbf{}", `{ "a":tru}`, `{ "a":7,"a"}`, `{ 'a':7}`} {
		out = append(out, c19ATop{shape: "invalid", text: s})
	}
	for _, s := range []string{`[]`, `[{"a":1000}]`, `"s"`, `7`, `true`, `false`, `-1.5e3`, ` [ ] `} {
		out = append(out, c19ATop{shape: "nonobj", text: s})
	}
	for _, s := range []string{`null`, ` null `, "null\n"} {
		out = append(out, c19ATop{shape: "null", text: s})
	}
	a := c19AM("a", "KNum", 0)
	for _, tr := range []string{" x", `{"b":7}`, "]", "}", " {", ",", ` "s"`, " null", "\x00", " }"} {
		out = append(out, c19Obj(tr, a))
		out = append(out, c19Obj(tr, a, c19AM("z", "KStr", 1)))
	}
	out = append(out, c19Obj(" x"))
	// duplicate keys: the decoder keeps the last one
	dup := func(k, k1, k2 string) c19ATop { return c19Obj("", c19AM(k, k1, 1), a, c19AM(k, k2, 2)) }
	out = append(out,
		dup("a", "KStr", "KTrue"), dup("b", "KNum", "KNum"), dup("_id", "KStr", "KNull"), dup("_id", "KNull", "KStr"),
		dup("_deleted", "KTrue", "KFalse"), dup("_deleted", "KFalse", "KTrue"), dup("_exp", "KTrue", "KNull"), dup("_exp", "KNull", "KStr"),
		dup("_removed", "KTrue", "KNull"), dup("_removed", "KNull", "KTrue"), dup("_rev", "KStr", "KNull"), dup("_cv", "KStr", "KNull"),
		dup("_cv", "KNull", "KStr"), dup("_sync", "KObj", "KNull"), dup("_purged", "KTrue", "KNull"), dup("_attachments", "KObj", "KNull"),
		dup("_sync_x", "KNum", "KNull"), dup("_sync", "KStr", "KObj"), dup("_sync", "KNum", "KNull"), dup("_revisions", "KObj", "KNull"), dup("_vv", "KNum", "KStr"), dup("", "KNum", "KStr"),
	)
	out = append(out, c19Obj(" x", c19AM("b", "KNum", 1), a, c19AM("b", "KStr", 2)))
	// one of two spellings escaped
	out = append(out, c19Obj("", c19Esc(c19AM("_id", "KNum", 1)), a, c19AM("_id", "KNull", 2)))
	out = append(out, c19Obj("", c19AM("_cv", "KNull", 1), a, c19Esc(c19AM("_cv", "KStr", 2))))
	out = append(out, c19Obj("", c19Esc(c19AM("_sync", "KObj", 1)), a))
	out = append(out, c19Obj("", c19Esc(c19AM("_rev", "KStr", 1)), a))
	out = append(out, c19Obj("", c19Esc(c19AM("b", "KStr", 1)), a))
	// key order, the empty key, names that merely contain a reserved name
	out = append(out, c19Obj("", c19AM("z", "KNum", 1), c19AM("m", "KStr", 2), a, c19AM("A", "KTrue", 3)))
	out = append(out, c19Obj("", c19AM("my_exp", "KNum", 1), a), c19Obj("", c19AM("_exp_", "KStr", 1), a), c19Obj("", c19AM("x_attachments", "KObj", 1), a))
	out = append(out, c19Obj("", c19AM("_vv", "KObj", 1), c19AM("_mou", "KNum", 2), c19AM("_globalSync", "KStr", 3), a))
	// reserved names one level down are data; numbers that do not fit a float64 or an int64
	nested := c19AMember{key: "n", kind: "KObj", val: `{"_id":"x","_rev":"1-a","_sync":{"rev":"9-z"},"_deleted":true,"_removed":true,"_purged":true,"_revisions":{"start":9}}`}
	big := c19AMember{key: "big", kind: "KNum", val: "123456789012345678901234567890"}
	exp := c19AMember{key: "e", kind: "KNum", val: "1e400"}
	frac := c19AMember{key: "f", kind: "KNum", val: "1.10"}
	negz := c19AMember{key: "z", kind: "KNum", val: "-0"}
	out = append(out, c19Obj("", nested, a), c19Obj("", big, exp, frac, negz), c19Obj("", big, a, c19AMember{key: "big", kind: "KNum", val: "9007199254740993"}))
	out = append(out, c19Obj(""), c19Obj("", a))
	return out
}

func (e *c19Env) acceptStream() {
	sinceSeq := ""
	{
		// the highest sequence so far: the BLIP pull at the end starts there
		e.rt.WaitForPendingChanges()
		var ls struct {
			LastSeq string `json:"last_seq"`
		}
		r := e.admin("GET", "/{{.keyspace}}/_changes?since=0", "")
		if json.Unmarshal(r.BodyBytes(), &ls) == nil {
			sinceSeq = ls.LastSeq
		}
	}
	// BLIP pull of what the streams wrote, in chunks small enough for the channel cache to serve them: the rev
	// messages as a peer receives them
	var pulled []*c19Accepted
	pullNow := func() {
		if sinceSeq == "" || len(pulled) == 0 {
			pulled = nil
			return
		}
		e.rt.WaitForPendingChanges()
		next := sinceSeq
		var ls struct {
			LastSeq string `json:"last_seq"`
		}
		if r := e.admin("GET", "/{{.keyspace}}/_changes?since="+sinceSeq, ""); json.Unmarshal(r.BodyBytes(), &ls) == nil && ls.LastSeq != "" {
			next = ls.LastSeq
		}
		e.blipPull(sinceSeq)
		for _, a := range pulled {
			if !e.docIsCurrent(a) {
				continue
			}
			e.pullMu.Lock()
			body, ok := e.pulled[a.id]
			off := e.offered[a.id]
			e.pullMu.Unlock()
			if !ok && !off && c19BeyondFloat64(a.raw) {
				// Not the gateway: the JavaScript view engine of the test bucket (rosmar) cannot parse a number outside
				// float64 ("Unparseable JSRunner input"), so a view-backed channel query does not list the document.
				e.rec.Err("blip_pull:not-offered:rosmar-view-number-beyond-float64")
				continue
			}
			e.readCase(a, "XBlipCE", "blip_pull", body, ok, false)
		}
		pulled = nil
		sinceSeq = next
	}
	keep := func(a *c19Accepted) {
		if a != nil && !a.skipRd {
			pulled = append(pulled, a)
			if len(pulled) >= 120 {
				pullNow()
			}
		}
	}
	data := c19AM("a", "KNum", 0)
	// (1) exhaustive key x kind for the entry points the "reserved" stream does not drive
	for _, name := range []string{"EPost", "EPutNE", "EBulkNE"} {
		en := c19EntryByName(name)
		for _, k := range c19ResKeys {
			if c19EntrySkips(name, k) {
				continue
			}
			for _, kind := range c19Kinds {
				if k == "_attachments" && kind.name != "KNull" && kind.name != "KObj" {
					continue // malformed attachment metadata belongs to C14
				}
				a := e.acceptCase("accept-exhaustive", en, c19Obj("", c19AM(k, kind.name, 1), data))
				e.readAll(a, false)
				keep(a)
			}
		}
	}
	e.rec.Extra("accept_exhaustive_scope", "POST, PUT ?new_edits=false, _bulk_docs new_edits=false x 20 keys x 6 value kinds next to one data member (addressing members excluded)")
	// (2) every entry point x hostile corpus
	corpus := c19HostileCorpus()
	for _, en := range c19Entries {
		for _, t := range corpus {
			skip := false
			for _, m := range t.ms {
				if c19EntrySkips(en.name, m.key) {
					skip = true
				}
			}
			if skip {
				continue
			}
			a := e.acceptCase("accept-hostile", en, t)
			e.readAll(a, true)
			keep(a)
		}
	}
	e.rec.Extra("accept_hostile_corpus", len(corpus))
	// (3) random member lists with duplicates and an optional trailer
	trailers := []string{"", "", "", " x", "}", `{"q":1}`, "]"}
	for i, n := 0, vBudget(160, 1600); i < n; i++ {
		en := c19Entries[e.rnd.Intn(len(c19Entries))]
		var ms []c19AMember
		for j, m := 0, 1+e.rnd.Intn(4); j < m; j++ {
			k := c19ResKeys[e.rnd.Intn(len(c19ResKeys))]
			if e.rnd.Chance(35) && len(ms) > 0 {
				k = ms[e.rnd.Intn(len(ms))].key // a duplicate
			}
			kind := c19Kinds[e.rnd.Intn(len(c19Kinds))]
			if c19EntrySkips(en.name, k) || (k == "_attachments" && kind.name != "KNull" && kind.name != "KObj") {
				continue
			}
			mm := c19AM(k, kind.name, j+1)
			if strings.HasPrefix(k, "_") && e.rnd.Chance(10) {
				mm.escaped = true
			}
			ms = append(ms, mm)
		}
		if e.rnd.Chance(70) {
			ms = append(ms, data)
		}
		a := e.acceptCase("accept-random", en, c19Obj(trailers[e.rnd.Intn(len(trailers))], ms...))
		e.readAll(a, e.rnd.Chance(30))
		keep(a)
	}
	pullNow()
}

// a stored text with a number literal that float64 cannot hold (encoding/json refuses it without UseNumber)
func c19BeyondFloat64(raw []byte) bool {
	if _, err := c19Decode(raw); err != nil {
		return false
	}
	var v any
	return json.Unmarshal(raw, &v) != nil
}

// the document still holds what the case stored (an expiry of a few seconds may have removed it meanwhile)
func (e *c19Env) docIsCurrent(a *c19Accepted) bool {
	return bytes.Equal(e.rawBody(a.id), a.raw)
}

// ---------------------------------------------------------------- import feed (second database)

func (e *c19Env) importFeedStream(rt2 *RestTester) {
	ds := rt2.GetSingleDataStore()
	type fd struct {
		id string
		t  c19ATop
		tx string
	}
	var docs []fd
	n := 0
	add := func(t c19ATop) {
		n++
		text := t.text
		if t.shape == "obj" {
			text = t.objText()
		}
		id := fmt.Sprintf("feed%d", n)
		if _, err := ds.AddRaw(rt2.Context(), id, 0, []byte(text)); err == nil {
			docs = append(docs, fd{id, t, text})
		}
	}
	data := c19AM("a", "KNum", 0)
	for _, k := range c19ResKeys {
		for _, kind := range c19Kinds {
			if k == "_attachments" && kind.name != "KNull" && kind.name != "KObj" {
				continue
			}
			add(c19Obj("", c19AM(k, kind.name, 1), data))
		}
	}
	for _, t := range c19HostileCorpus() {
		add(t)
	}
	// a marker written last: once it is imported the feed has gone past every document above
	_, _ = ds.AddRaw(rt2.Context(), "feedmarker", 0, []byte(`{"marker":true}`))
	deadline := time.Now().Add(60 * time.Second)
	for time.Now().Before(deadline) {
		if xv, _, err := ds.GetXattrs(rt2.Context(), "feedmarker", []string{base.SyncXattrName}); err == nil && len(xv[base.SyncXattrName]) > 0 {
			break
		}
		time.Sleep(50 * time.Millisecond)
	}
	time.Sleep(200 * time.Millisecond)
	for _, d := range docs {
		xv, _, err := ds.GetXattrs(rt2.Context(), d.id, []string{base.SyncXattrName})
		imported := err == nil && len(xv[base.SyncXattrName]) > 0
		raw, _, _ := ds.GetRaw(rt2.Context(), d.id)
		desc := map[string]any{"entry": "EImportFeed", "text": d.tx, "imported": imported}
		result := "(RRej 0)"
		if imported {
			ms, _, err := c19MembersPrefix(raw)
			if err != nil {
				e.fail("reserved_stored_readable", "stored-body-unreadable", desc, "imported, but the body does not start with a JSON object: "+c19Short(raw))
				continue
			}
			dec := map[string]string{}
			for i, m := range ms {
				dec[m[0]] = c19LastRawVals[i]
			}
			keys := make([]string, 0, len(dec))
			for k := range dec {
				keys = append(keys, k)
			}
			sort.Strings(keys)
			var items []string
			for _, k := range keys {
				items = append(items, fmt.Sprintf("(%s, %s)", cqStr(k), c19KindOfText(dec[k])))
			}
			result = fmt.Sprintf("(RStored %s %s)", cqList(items), cqBool(string(raw) == d.tx))
			for _, m := range ms {
				bad := strings.HasPrefix(m[0], "_sync_")
				for _, r := range c19ReservedEverywhere {
					if m[0] == r {
						bad = true
					}
				}
				if bad && m[0] == "_cv" {
					e.fail("stored_body_has_no_reserved_keys", "stored-cv-clashes-with-injected-cv", desc, fmt.Sprintf("an imported body has the reserved member %q: %s", m[0], c19Short(raw)))
				} else if bad {
					e.fail("stored_body_has_no_reserved_keys", "stored-reserved-key:"+m[0], desc, fmt.Sprintf("an imported body has the reserved member %q: %s", m[0], c19Short(raw)))
				}
			}
		}
		nontriv := d.t.shape != "obj" || d.t.trailing != ""
		for _, m := range d.t.ms {
			if strings.HasPrefix(m.key, "_") {
				nontriv = true
			}
		}
		e.rec.Case("import-feed", "accept_EImportFeed", fmt.Sprintf("CAccept EImportFeed %s %s", d.t.coq(), result), desc, nontriv)
	}
}
