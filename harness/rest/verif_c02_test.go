//go:build verif

package rest

// C02 -- No document content is disclosed outside the reader's channels.
//
// The harness builds "worlds" on a real RestTester (named collection and default collection): users, roles,
// admin and sync-function grants, and documents whose every revision body and attachment carries a unique
// marker string (revisions current / superseded / conflicting / tombstoned / channel-moved).  It then drives
// every read surface as every user, with the revision cache warm and cold:
//
//   monitors (Go side, on RAW response bytes)
//     no_disclosure     a marker (body marker, attachment bytes, base64 of them, digest) of a revision the user may
//                       not see (independent Go specification of the grants) occurs in a response
//     existence_hidden  a listing (_all_docs without keys, _changes, BLIP changes) names a document that never
//                       was in one of the user's channels
//     read_complete     the current revision of a document in one of the user's channels is not delivered
//     flags_stable      two flag combinations of the same (user, revision, surface) disagree on the decision class
//     cache_channels    the revision cache reports channels for a revision that differ from those assigned to it
//   Coq cases
//     CSee / CSeeRole   real auth.User / auth.Role AuthorizeAnyCollectionChannel on channel sets (exhaustive small)
//     CRead             (user, revision as the revision cache reports it, request, surface) -> observed class
//     CAllDocs          (user, current revision, flags) -> observed row
//     CGate             BLIP getAttachment trace on one connection -> served / refused

import (
	"bytes"
	"encoding/base64"
	"encoding/json"
	"fmt"
	"net/http"
	"net/url"
	"os"
	"sort"
	"strings"
	"sync"
	"testing"
	"time"

	"github.com/couchbase/go-blip"
	"github.com/couchbase/sync_gateway/base"
	"github.com/couchbase/sync_gateway/db"
)

// ---------------------------------------------------------------- world description

type c02Att struct {
	name    string
	content string // raw bytes, length a multiple of 3 so that its base64 text is a fixed string
	b64     string
	digest  string // filled from the admin read-back
	id      uint64 // content id (interned)
}

type c02Rev struct {
	doc      *c02Doc
	idx      uint64 // global revision number (content id of the body marker)
	id       string // revision tree id
	cv       string // current version string (known for the current revision only)
	parent   *c02Rev
	chans    []string // channels assigned at write time
	deleted  bool
	marker   string // "" when the body is empty (plain DELETE)
	atts     []*c02Att
	leaf     bool
	current  bool // the winning revision
	conflict bool // written with new_edits=false
	// set when a child of this revision was written while ANOTHER revision was the document's current one:
	// the channels of that other revision (db/crud.go backs the parent's body up with them)
	wrongChans    []string
	hasWrong      bool
	hadChild      bool
	bornNonWinner bool // was not the winning revision right after it was written
}

type c02Doc struct {
	id   string
	revs []*c02Rev
}

type c02Role struct {
	name     string
	explicit []string
	computed []string
}

type c02User struct {
	name          string
	explicit      []string
	computed      []string
	roles         []string // admin-assigned
	computedRoles []string // granted by role() in the sync function
}

type c02World struct {
	e       *c02Env
	tag     string
	named   bool
	rt      *RestTester
	users   []*c02User
	roles   []*c02Role
	docs    []*c02Doc
	revs    []*c02Rev
	attByID map[uint64]*c02Att
	chanIDs map[string]uint64
	attName map[string]uint64
	first   map[string]string // (user|rev|surface|byrev) -> first observed class, for flags_stable
	emitted map[string]bool
	cold    bool
	ee      bool
	// request kinds (verif_c02_kinds_test.go)
	digIDs   map[string]uint64 // revision digest -> number
	negFirst map[string]string // negotiation request -> first observed answer (must not depend on the reader)
	legacy   *c02Legacy
}

type c02Env struct {
	t        *testing.T
	rec      *vRecorder
	rnd      *vRand
	failN    map[string]int
	nreq     int
	dbgN     int
	adminToo map[string]int
	revN     uint64
	attN     uint64
	stubs    int            // stubs checked by removed_stub_has_no_body
	shapeN   map[string]int // revision ids / existence of never-granted documents handed out by point requests
}

func (e *c02Env) fail(monitor, signature string, input any, detail string) {
	e.failN[monitor+"|"+signature]++
	if e.failN[monitor+"|"+signature] <= 2 {
		e.rec.Fail(monitor, signature, input, detail)
	}
}

const c02SyncFn = `function(doc, oldDoc, meta) {
	if (doc.chans) { channel(doc.chans); }
	if (doc.grants) { for (var i = 0; i < doc.grants.length; i++) { access(doc.grants[i].u, doc.grants[i].c); } }
	if (doc.rgrants) { for (var j = 0; j < doc.rgrants.length; j++) { role(doc.rgrants[j].u, doc.rgrants[j].r); } }
}`

// ---------------------------------------------------------------- independent Go specification of the grants

func (w *c02World) role(name string) *c02Role {
	for _, r := range w.roles {
		if r.name == name {
			return r
		}
	}
	return nil
}

func (w *c02World) userRoles(u *c02User) []*c02Role {
	var out []*c02Role
	seen := map[string]bool{}
	for _, n := range append(append([]string{}, u.roles...), u.computedRoles...) {
		if r := w.role(n); r != nil && !seen[n] {
			seen[n] = true
			out = append(out, r)
		}
	}
	return out
}

func (w *c02World) ownSet(u *c02User) map[string]bool {
	s := map[string]bool{"!": true}
	for _, c := range u.explicit {
		s[c] = true
	}
	for _, c := range u.computed {
		s[c] = true
	}
	return s
}

func (w *c02World) effective(u *c02User) map[string]bool {
	s := w.ownSet(u)
	for _, r := range w.userRoles(u) {
		s["!"] = true
		for _, c := range r.explicit {
			s[c] = true
		}
		for _, c := range r.computed {
			s[c] = true
		}
	}
	return s
}

// upper bound: the user may be shown the content of a revision with these channels
func (w *c02World) mayDisclose(u *c02User, chans []string) bool {
	eff := w.effective(u)
	if eff["*"] {
		return true
	}
	for _, c := range chans {
		if eff[c] {
			return true
		}
	}
	return false
}

// lower bound: the revision is in a channel the user holds, or the user holds the wildcard -- directly or through
// a role (since /repo a58a51d also for a document without channels in the default collection)
func (w *c02World) mustSee(u *c02User, chans []string) bool {
	eff := w.effective(u)
	for _, c := range chans {
		if eff[c] {
			return true
		}
	}
	return eff["*"]
}

// the document was at some time in one of the user's channels
func (w *c02World) everVisible(u *c02User, d *c02Doc) bool {
	for _, r := range d.revs {
		if w.mayDisclose(u, r.chans) {
			return true
		}
	}
	return false
}

// ---------------------------------------------------------------- Coq terms

func (w *c02World) chanID(c string) uint64 {
	if v, ok := w.chanIDs[c]; ok {
		return v
	}
	v := uint64(len(w.chanIDs))
	w.chanIDs[c] = v
	return v
}

func (w *c02World) cqChans(cs []string) string {
	ids := make([]uint64, 0, len(cs))
	for _, c := range cs {
		ids = append(ids, w.chanID(c))
	}
	sort.Slice(ids, func(i, j int) bool { return ids[i] < ids[j] })
	return cqNList(ids)
}

func (w *c02World) cqRole(explicit, computed []string) string {
	return "(mkRole " + w.cqChans(explicit) + " " + w.cqChans(computed) + ")"
}

func (w *c02World) cqUser(u *c02User) string {
	var rs []string
	for _, r := range w.userRoles(u) {
		rs = append(rs, w.cqRole(r.explicit, r.computed))
	}
	return "(mkUser " + w.cqRole(u.explicit, u.computed) + " " + cqList(rs) + ")"
}

func (w *c02World) attNameID(n string) uint64 {
	if v, ok := w.attName[n]; ok {
		return v
	}
	v := uint64(len(w.attName) + 1)
	w.attName[n] = v
	return v
}

// ---------------------------------------------------------------- building a world on the real gateway

func (w *c02World) admin(method, path, body string) *TestResponse {
	return w.rt.SendAdminRequestWithHeaders(method, path, body, map[string]string{"Accept": "application/json"})
}

func (w *c02World) newAtt(name string) *c02Att {
	w.e.attN++
	content := fmt.Sprintf("ATT%sn%04dQQ", w.tag, w.e.attN) // 3+2+1+4+2 = 12 bytes
	for len(content)%3 != 0 {
		content += "Q"
	}
	a := &c02Att{name: name, content: content, b64: base64.StdEncoding.EncodeToString([]byte(content)), id: 100000 + w.e.attN}
	w.attByID[a.id] = a
	return a
}

type c02Step struct {
	op    string   // new | upd | del (plain DELETE) | tomb (tombstone with body) | conf (conflicting child of the given parent index)
	chans []string // channels of the new revision
	atts  []string // attachment names carried by the revision; "=name" keeps the parent's content, "name" gets fresh content
	par   int      // conf: index of the parent revision in doc.revs
	hi    bool     // conf: digest sorts high (wins) or low
}

func (w *c02World) bodyJSON(r *c02Rev, extra map[string]any) string {
	m := map[string]any{}
	if r.chans != nil {
		m["chans"] = r.chans
	}
	if r.marker != "" {
		m["m"] = r.marker
		m["k"+r.marker] = 1
	}
	if r.deleted {
		m["_deleted"] = true
	}
	if len(r.atts) > 0 {
		am := map[string]any{}
		for _, a := range r.atts {
			am[a.name] = map[string]any{"data": a.b64, "content_type": "application/octet-stream"}
		}
		m["_attachments"] = am
	}
	for k, v := range extra {
		m[k] = v
	}
	b, _ := json.Marshal(m)
	return string(b)
}

func c02RespRev(b []byte) string {
	var r struct {
		Rev string `json:"rev"`
	}
	_ = json.Unmarshal(b, &r)
	return r.Rev
}

func (w *c02World) currentOf(d *c02Doc) *c02Rev {
	for _, r := range d.revs {
		if r.current {
			return r
		}
	}
	return nil
}

func c02Gen(rev string) int {
	n := 0
	_, _ = fmt.Sscanf(rev, "%d-", &n)
	return n
}

// winner among the leaves: live before deleted, then generation, then digest (Go string order)
func (w *c02World) recomputeFlags(d *c02Doc) {
	children := map[*c02Rev]int{}
	for _, r := range d.revs {
		if r.parent != nil {
			children[r.parent]++
		}
	}
	var win *c02Rev
	for _, r := range d.revs {
		r.leaf = children[r] == 0
		r.current = false
		if !r.leaf {
			continue
		}
		if win == nil {
			win = r
			continue
		}
		better := false
		if r.deleted != win.deleted {
			better = !r.deleted
		} else if c02Gen(r.id) != c02Gen(win.id) {
			better = c02Gen(r.id) > c02Gen(win.id)
		} else {
			better = r.id > win.id
		}
		if better {
			win = r
		}
	}
	if win != nil {
		win.current = true
	}
}

func (w *c02World) resolveAtts(parent *c02Rev, names []string) []*c02Att {
	var out []*c02Att
	for _, n := range names {
		if strings.HasPrefix(n, "=") && parent != nil {
			for _, a := range parent.atts {
				if a.name == n[1:] {
					out = append(out, a)
				}
			}
			continue
		}
		out = append(out, w.newAtt(strings.TrimPrefix(n, "=")))
	}
	return out
}

func (w *c02World) addDoc(steps []c02Step) *c02Doc {
	d := &c02Doc{id: fmt.Sprintf("DOC%sd%03dZ", w.tag, len(w.docs)+1)}
	w.docs = append(w.docs, d)
	for _, st := range steps {
		w.e.revN++
		r := &c02Rev{doc: d, idx: w.e.revN, chans: st.chans}
		r.marker = fmt.Sprintf("MK%sr%04dZ", w.tag, r.idx)
		cur := w.currentOf(d)
		var resp *TestResponse
		switch st.op {
		case "new":
			r.atts = w.resolveAtts(nil, st.atts)
			resp = w.admin("PUT", "/{{.keyspace}}/"+d.id, w.bodyJSON(r, nil))
		case "upd":
			r.parent = cur
			r.atts = w.resolveAtts(cur, st.atts)
			resp = w.admin("PUT", "/{{.keyspace}}/"+d.id+"?rev="+cur.id, w.bodyJSON(r, nil))
		case "del":
			r.parent = cur
			r.deleted = true
			r.marker = ""
			r.chans = nil
			resp = w.admin("DELETE", "/{{.keyspace}}/"+d.id+"?rev="+cur.id, "")
		case "tomb":
			r.parent = cur
			r.deleted = true
			resp = w.admin("PUT", "/{{.keyspace}}/"+d.id+"?rev="+cur.id, w.bodyJSON(r, nil))
		case "delat":
			par := d.revs[st.par]
			r.parent = par
			r.deleted = true
			r.marker = ""
			r.chans = nil
			resp = w.admin("DELETE", "/{{.keyspace}}/"+d.id+"?rev="+par.id, "")
		case "conf":
			par := d.revs[st.par]
			r.parent = par
			r.conflict = true
			r.atts = w.resolveAtts(par, st.atts)
			gen := c02Gen(par.id) + 1
			digest := fmt.Sprintf("00000000000000000000000000%06x", r.idx)
			if st.hi {
				digest = fmt.Sprintf("ffffffffffffffffffffffffff%06x", r.idx)
			}
			ids := []string{digest}
			for p := par; p != nil; p = p.parent {
				ids = append(ids, p.id[strings.Index(p.id, "-")+1:])
			}
			r.id = fmt.Sprintf("%d-%s", gen, digest)
			resp = w.admin("PUT", "/{{.keyspace}}/"+d.id+"?new_edits=false", w.bodyJSON(r, map[string]any{"_revisions": map[string]any{"start": gen, "ids": ids}}))
		}
		if resp.Code != 200 && resp.Code != 201 {
			w.e.t.Fatalf("C02 world %s: %s of %s failed: %d %s", w.tag, st.op, d.id, resp.Code, resp.BodyString())
		}
		if r.id == "" {
			r.id = c02RespRev(resp.BodyBytes())
		}
		if p := r.parent; p != nil && !p.hadChild {
			// the parent's body is backed up when its FIRST child is written (later children only touch the backup)
			p.hadChild = true
			if cur != nil && p != cur {
				p.hasWrong = true
				p.wrongChans = append([]string{}, cur.chans...)
			}
		}
		d.revs = append(d.revs, r)
		w.revs = append(w.revs, r)
		w.recomputeFlags(d)
		r.bornNonWinner = !r.current
		w.stampCase(d, r, cur)
	}
	return d
}

// attachment names on the document's current revision right after a write, against the write-path model
func (w *c02World) stampCase(d *c02Doc, r, prevCur *c02Rev) {
	now := w.currentOf(d)
	if r.parent == nil || prevCur == nil || now == nil || now.deleted || r.deleted {
		return
	}
	// read the document itself: the revision cache entry of the current revision may predate the write
	col, ctx := w.rt.GetSingleTestDatabaseCollection()
	doc, err := col.GetDocument(ctx, d.id, db.DocUnmarshalAll)
	if err != nil || doc == nil {
		return
	}
	m := struct{ Atts db.AttachmentsMeta }{doc.Attachments()}
	ids := func(names []string) string {
		var out []uint64
		for _, n := range names {
			out = append(out, w.attNameID(n))
		}
		sort.Slice(out, func(i, j int) bool { return out[i] < out[j] })
		return cqNList(out)
	}
	names := func(x *c02Rev) []string {
		var out []string
		for _, a := range x.atts {
			out = append(out, a.name)
		}
		return out
	}
	var obs []string
	for n := range m.Atts {
		obs = append(obs, n)
	}
	winner := names(prevCur)
	if r.current {
		winner = names(r)
	}
	coq := fmt.Sprintf("CStamp %s %s %s %s", ids(winner), ids(names(r)), cqBool(r.current), ids(obs))
	w.e.rec.Case("write_path", "stamp_atts", coq, map[string]any{"world": w.tag, "doc": d.id, "new_rev": r.id, "new_rev_wins": r.current, "new_rev_attachments": names(r),
		"winner_attachments": winner, "observed_on_current": obs}, !r.current)
}

// channels the revision cache reports for a superseded revision once it has to be loaded from its backup
func (w *c02World) backupCases() {
	col, ctx := w.rt.GetSingleTestDatabaseCollection()
	for _, r := range w.revs {
		if r.leaf || r.deleted {
			continue
		}
		w.rt.GetDatabase().FlushRevisionCacheForTest()
		dr, err := col.GetRevisionCacheForTest().Get(ctx, r.doc.id, r.id, true)
		if err != nil || dr.BodyBytes == nil || dr.Removed {
			continue
		}
		var obs []string
		for c := range dr.Channels {
			obs = append(obs, c)
		}
		wc := r.chans
		if r.hasWrong {
			wc = r.wrongChans
		}
		coq := fmt.Sprintf("CBackup %s %s %s %s", w.cqChans(wc), w.cqChans(r.chans), cqBool(!r.hasWrong), w.cqChans(obs))
		w.e.rec.Case("write_path", "backup_channels", coq, map[string]any{"world": w.tag, "doc": r.doc.id, "rev": r.id, "rev_channels": r.chans,
			"winner_channels_when_child_written": wc, "parent_was_winner": !r.hasWrong, "observed": obs}, r.hasWrong)
	}
}

// read back digests and the current version as the administrator; cross-check the winner
func (w *c02World) readBack() {
	for _, d := range w.docs {
		for _, r := range d.revs {
			if len(r.atts) == 0 && !r.current {
				continue
			}
			resp := w.admin("GET", "/{{.keyspace}}/"+d.id+"?rev="+r.id, "")
			if resp.Code != 200 {
				continue
			}
			var m map[string]any
			_ = json.Unmarshal(resp.BodyBytes(), &m)
			if r.current {
				r.cv, _ = m["_cv"].(string)
			}
			if am, ok := m["_attachments"].(map[string]any); ok {
				for _, a := range r.atts {
					if meta, ok := am[a.name].(map[string]any); ok {
						if dg, _ := meta["digest"].(string); dg != "" {
							a.digest = dg
						}
					}
				}
			}
		}
		cur := w.currentOf(d)
		if cur != nil && !cur.deleted {
			resp := w.admin("GET", "/{{.keyspace}}/"+d.id, "")
			var m map[string]any
			_ = json.Unmarshal(resp.BodyBytes(), &m)
			if got, _ := m["_rev"].(string); got != cur.id {
				w.e.t.Fatalf("C02 world %s: winner of %s is %q, harness computed %q", w.tag, d.id, got, cur.id)
			}
		}
	}
}

func (w *c02World) setupPrincipals() {
	for _, r := range w.roles {
		w.rt.CreateRole(r.name, r.explicit)
	}
	for _, u := range w.users {
		w.rt.CreateUser(u.name, u.explicit, u.roles...)
	}
	var grants, rgrants []map[string]any
	for _, r := range w.roles {
		if len(r.computed) > 0 {
			grants = append(grants, map[string]any{"u": "role:" + r.name, "c": r.computed})
		}
	}
	for _, u := range w.users {
		if len(u.computed) > 0 {
			grants = append(grants, map[string]any{"u": u.name, "c": u.computed})
		}
		for _, rn := range u.computedRoles {
			rgrants = append(rgrants, map[string]any{"u": u.name, "r": "role:" + rn})
		}
	}
	if len(grants)+len(rgrants) > 0 {
		b, _ := json.Marshal(map[string]any{"chans": []string{"GRANTS"}, "grants": grants, "rgrants": rgrants})
		resp := w.admin("PUT", "/{{.keyspace}}/grantdoc"+w.tag, string(b))
		if resp.Code != 201 {
			w.e.t.Fatalf("C02 world %s: grant document: %d %s", w.tag, resp.Code, resp.BodyString())
		}
	}
}

func c02NewWorld(e *c02Env, tag string, named bool) *c02World {
	w := &c02World{e: e, tag: tag, named: named, attByID: map[uint64]*c02Att{}, chanIDs: map[string]uint64{"*": 0, "!": 1},
		attName: map[string]uint64{}, first: map[string]string{}, emitted: map[string]bool{}, ee: base.IsEnterpriseEdition(),
		digIDs: map[string]uint64{}, negFirst: map[string]string{}}
	cfg := &RestTesterConfig{SyncFn: c02SyncFn, AutoImport: base.Ptr(false)}
	if named {
		w.rt = NewRestTester(e.t, cfg)
	} else {
		w.rt = NewRestTesterDefaultCollection(e.t, cfg)
	}
	_ = w.rt.GetDatabase()
	w.rt.GetDatabase().Options.AllowConflicts = base.Ptr(true)
	return w
}

func (w *c02World) canonical() {
	w.roles = []*c02Role{
		{name: "r1", explicit: []string{"B"}},
		{name: "r2", computed: []string{"E"}},
		{name: "r3", explicit: []string{"*"}},
	}
	w.users = []*c02User{
		{name: "u1", explicit: []string{"A"}},
		{name: "u2", roles: []string{"r1"}},
		{name: "u3", computed: []string{"C"}, computedRoles: []string{"r2"}},
		{name: "u4", explicit: []string{"*"}},
		{name: "u5", roles: []string{"r3"}},
	}
	w.setupPrincipals()
	S := func(c ...string) []string { return append([]string{}, c...) }
	scripts := [][]c02Step{
		{{op: "new", chans: S("A")}},
		{{op: "new", chans: S("B")}},
		{{op: "new", chans: S("C")}},
		{{op: "new", chans: S("D")}},
		{{op: "new", chans: S("E")}},
		{{op: "new", chans: S("!")}},
		{{op: "new", chans: S()}},
		{{op: "new", chans: S("A", "D")}},
		{{op: "new", chans: S("A")}, {op: "upd", chans: S("A")}},
		{{op: "new", chans: S("A")}, {op: "upd", chans: S("B")}},
		{{op: "new", chans: S("A")}, {op: "del"}},
		{{op: "new", chans: S("B")}, {op: "tomb", chans: S("B")}},
		{{op: "new", chans: S("A")}, {op: "conf", par: 0, chans: S("A"), hi: false}, {op: "conf", par: 0, chans: S("B"), hi: true}},
		{{op: "new", chans: S("D")}, {op: "conf", par: 0, chans: S("A"), hi: false}, {op: "conf", par: 0, chans: S("D"), hi: true}},
		{{op: "new", chans: S("A"), atts: S("a.bin")}, {op: "upd", chans: S("A"), atts: S("a.bin", "b.bin")}},
		{{op: "new", chans: S("B"), atts: S("a.bin")}, {op: "upd", chans: S("D"), atts: S("=a.bin")}},
		{{op: "new", chans: S("A")}, {op: "upd", chans: S("D")}, {op: "upd", chans: S("A")}},
		{{op: "new", chans: S("D"), atts: S("a.bin")}},
		{{op: "new", chans: S("C"), atts: S("a.bin")}, {op: "upd", chans: S("C"), atts: S("=a.bin")}, {op: "del"}},
		{{op: "new", chans: S("D")}, {op: "upd", chans: S("E"), atts: S("x.bin")}, {op: "conf", par: 1, chans: S("A"), atts: S("y.bin"), hi: true}},
	}
	// a revision on a losing branch gets a child (conflicting write / tombstone of the losing branch) while the
	// winner sits in another channel; a losing revision carries an attachment of its own
	scripts = append(scripts,
		[]c02Step{{op: "new", chans: S("A")}, {op: "upd", chans: S("A")}, {op: "conf", par: 0, chans: S("D"), hi: false}, {op: "conf", par: 2, chans: S("D"), hi: false}},
		[]c02Step{{op: "new", chans: S("B")}, {op: "upd", chans: S("B")}, {op: "conf", par: 0, chans: S("D"), hi: false}, {op: "delat", par: 2}},
		[]c02Step{{op: "new", chans: S("A")}, {op: "upd", chans: S("A")}, {op: "conf", par: 0, chans: S("D"), atts: S("z.bin"), hi: false}},
	)
	for _, s := range scripts {
		w.addDoc(s)
	}
}

func (w *c02World) random(nUsers, nDocs int) {
	rnd := w.e.rnd
	universe := []string{"A", "B", "C", "D"}
	pick := func(pct, starPct int) []string {
		var out []string
		for _, c := range universe[:3] {
			if rnd.Chance(pct) {
				out = append(out, c)
			}
		}
		if rnd.Chance(starPct) {
			out = append(out, "*")
		}
		return out
	}
	w.roles = []*c02Role{{name: "r1", explicit: pick(35, 8), computed: pick(20, 0)}, {name: "r2", explicit: pick(25, 8), computed: pick(30, 0)}}
	for i := 0; i < nUsers; i++ {
		u := &c02User{name: fmt.Sprintf("u%d", i+1), explicit: pick(30, 6), computed: pick(20, 0)} // access() cannot grant "*" (sync_runner: RemoveStar)
		for _, r := range w.roles {
			switch rnd.Intn(4) {
			case 0:
				u.roles = append(u.roles, r.name)
			case 1:
				u.computedRoles = append(u.computedRoles, r.name)
			}
		}
		w.users = append(w.users, u)
	}
	w.setupPrincipals()
	docChans := func() []string {
		var out []string
		for _, c := range universe {
			if rnd.Chance(30) {
				out = append(out, c)
			}
		}
		if rnd.Chance(6) {
			out = append(out, "!")
		}
		return out
	}
	atts := func(hasParentAtt bool) []string {
		switch rnd.Intn(5) {
		case 0:
			return []string{"a.bin"}
		case 1:
			if hasParentAtt {
				return []string{"=a.bin"}
			}
		}
		return nil
	}
	for i := 0; i < nDocs; i++ {
		steps := []c02Step{{op: "new", chans: docChans(), atts: atts(false)}}
		n := rnd.Intn(4)
		nrevs := 1
		dead := false
		for j := 0; j < n; j++ {
			hasAtt := len(steps[len(steps)-1].atts) > 0
			switch k := rnd.Intn(10); {
			case dead:
				// a tombstoned winner is only extended by a conflicting branch
				steps = append(steps, c02Step{op: "conf", par: rnd.Intn(nrevs), chans: docChans(), hi: rnd.Bool()})
				dead = false
			case k < 5:
				steps = append(steps, c02Step{op: "upd", chans: docChans(), atts: atts(hasAtt)})
			case k < 6:
				steps = append(steps, c02Step{op: "del"})
				dead = true
			case k < 7:
				steps = append(steps, c02Step{op: "tomb", chans: docChans()})
				dead = true
			default:
				steps = append(steps, c02Step{op: "conf", par: rnd.Intn(nrevs), chans: docChans(), atts: atts(false), hi: rnd.Bool()})
			}
			nrevs++
		}
		w.addDoc(steps)
	}
}

// ---------------------------------------------------------------- requests, raw-byte scan, classification

type c02Resp struct {
	code int
	hdr  http.Header
	body []byte
	raw  []byte
}

func (w *c02World) userReq(u *c02User, method, path, body string, hdr map[string]string) *c02Resp {
	if w.cold {
		w.rt.GetDatabase().FlushRevisionCacheForTest()
	}
	h := map[string]string{}
	for k, v := range hdr {
		h[k] = v
	}
	if _, ok := h["Accept"]; !ok {
		h["Accept"] = "application/json"
	}
	resp := w.rt.SendUserRequestWithHeaders(method, path, body, h, u.name, RestTesterDefaultUserPassword)
	w.e.nreq++
	var raw bytes.Buffer
	fmt.Fprintf(&raw, "HTTP %d\n", resp.Code)
	_ = resp.Header().Write(&raw)
	raw.WriteString("\n")
	b := resp.BodyBytes()
	raw.Write(b)
	if dbg := os.Getenv("C02_DEBUG"); dbg != "" && strings.Contains(method+" "+path, dbg) && w.e.dbgN < 12 {
		w.e.dbgN++
		fmt.Printf("C02DEBUG user=%s %s %s %s\n%s\n----\n", u.name, method, path, body, c02Short(raw.Bytes()))
	}
	return &c02Resp{code: resp.Code, hdr: resp.Header(), body: b, raw: raw.Bytes()}
}

func (w *c02World) adminReq(method, path, body string, hdr map[string]string) *c02Resp {
	h := map[string]string{}
	for k, v := range hdr {
		h[k] = v
	}
	if _, ok := h["Accept"]; !ok {
		h["Accept"] = "application/json"
	}
	resp := w.rt.SendAdminRequestWithHeaders(method, path, body, h)
	return &c02Resp{code: resp.Code, hdr: resp.Header(), body: resp.BodyBytes()}
}

type c02Needle struct {
	text []byte
	what string
	rev  *c02Rev
	att  bool
}

// everything that must not occur in a response to this user
func (w *c02World) forbiddenNeedles(u *c02User) (content []c02Needle, docIDs []c02Needle) {
	attOK := map[uint64]bool{}
	for _, r := range w.revs {
		ok := w.mayDisclose(u, r.chans)
		if r.marker != "" && !ok {
			content = append(content, c02Needle{[]byte(r.marker), fmt.Sprintf("body of %s %s chans=%v", r.doc.id, r.id, r.chans), r, false})
		}
		for _, a := range r.atts {
			if ok {
				attOK[a.id] = true
			}
		}
	}
	for _, r := range w.revs {
		for _, a := range r.atts {
			if attOK[a.id] {
				continue
			}
			attOK[a.id] = true // once
			what := fmt.Sprintf("attachment %s of %s %s chans=%v", a.name, r.doc.id, r.id, r.chans)
			content = append(content, c02Needle{[]byte(a.content), what + " (bytes)", r, true}, c02Needle{[]byte(a.b64), what + " (base64)", r, true})
			if a.digest != "" {
				content = append(content, c02Needle{[]byte(a.digest), what + " (digest)", r, true})
			}
		}
	}
	for _, d := range w.docs {
		if !w.everVisible(u, d) {
			docIDs = append(docIDs, c02Needle{[]byte(d.id), "document " + d.id, nil, false})
		}
	}
	return
}

// scan raw bytes of a response (or BLIP message) for anything the user must not be shown
func (w *c02World) scan(u *c02User, surface, flags string, request string, raw []byte, listing bool) {
	content, docIDs := w.forbiddenNeedles(u)
	pass := "warm"
	if w.cold {
		pass = "cold"
	}
	for _, n := range content {
		if bytes.Contains(raw, n.text) {
			sig := surface + ":" + flags
			if !n.att && n.rev.hasWrong && w.mayDisclose(u, n.rev.wrongChans) {
				// one stable signature for the known kind of input, whatever the endpoint
				sig = "superseded-nonwinning-revision-authorised-by-winner-channels"
			} else if n.att && n.rev.bornNonWinner {
				sig = "nonwinning-revision-attachments-stamped-on-current-revision"
			}
			w.e.fail("no_disclosure", sig, map[string]any{"world": w.tag, "named_collection": w.named, "user": u.name, "user_channels": c02Keys(w.effective(u)),
				"request": request, "surface": surface + ":" + flags, "cache": pass, "leaked": n.what}, "response contains "+string(n.text)+": "+c02Short(raw))
		}
	}
	if listing {
		for _, n := range docIDs {
			if bytes.Contains(raw, n.text) {
				w.e.fail("existence_hidden", surface+":"+flags, map[string]any{"world": w.tag, "named_collection": w.named, "user": u.name, "user_channels": c02Keys(w.effective(u)),
					"request": request, "cache": pass, "revealed": n.what}, "listing names "+string(n.text)+": "+c02Short(raw))
			}
		}
	}
}

func c02Keys(m map[string]bool) []string {
	var out []string
	for k := range m {
		out = append(out, k)
	}
	sort.Strings(out)
	return out
}

func c02Short(b []byte) string {
	if len(b) > 600 {
		return string(b[:600]) + "..."
	}
	return string(b)
}

type c02Wire struct {
	status  int
	content bool
	removed bool
	deleted bool
}

func (x c02Wire) String() string {
	return fmt.Sprintf("(mkW %d %s %s %s)", x.status, cqBool(x.content), cqBool(x.removed), cqBool(x.deleted))
}

// classify a response that stands for ONE revision (JSON document, error object, or multipart with them)
func c02Classify(code int, body []byte, needle string) c02Wire {
	has := needle != "" && bytes.Contains(body, []byte(needle))
	switch {
	case code == 200 || code == 0:
		if bytes.Contains(body, []byte(`"error":"forbidden"`)) {
			return c02Wire{status: 1}
		}
		if bytes.Contains(body, []byte(`"error":"not_found"`)) {
			if bytes.Contains(body, []byte(`"reason":"deleted"`)) {
				return c02Wire{status: 3}
			}
			return c02Wire{status: 2}
		}
		return c02Wire{status: 0, content: has, removed: bytes.Contains(body, []byte(`"_removed":true`)),
			deleted: bytes.Contains(body, []byte(`"_deleted":true`))}
	case code == 403:
		return c02Wire{status: 1}
	case code == 404:
		if bytes.Contains(body, []byte(`"reason":"deleted"`)) {
			return c02Wire{status: 3}
		}
		return c02Wire{status: 2}
	}
	return c02Wire{status: 900 + code%100}
}

// the revision as the revision cache hands it to the decision (observed with administrator rights)
func (w *c02World) observeRev(docID, ver string, target *c02Rev) (term string, chansOK bool) {
	col, ctx := w.rt.GetSingleTestDatabaseCollection()
	rc := col.GetRevisionCacheForTest()
	var dr db.DocumentRevision
	var err error
	if ver == "" {
		dr, err = rc.GetActive(ctx, docID)
	} else {
		dr, err = rc.Get(ctx, docID, ver, base.IsRevTreeID(ver))
	}
	chansOK = true
	if err != nil || dr.BodyBytes == nil {
		return fmt.Sprintf("(mkRev [] false false None [])"), true
	}
	var chans []string
	want := map[string]bool{}
	for _, c := range target.chans {
		want[c] = true
	}
	for c := range dr.Channels {
		chans = append(chans, c)
		if !want[c] {
			chansOK = false
		}
	}
	body := "(Some [])"
	if target.marker != "" && bytes.Contains(dr.BodyBytes, []byte(target.marker)) {
		body = fmt.Sprintf("(Some [%d])", target.idx)
	} else if bytes.Contains(dr.BodyBytes, []byte("MK"+w.tag+"r")) {
		w.e.fail("cache_identity", "revision-cache-body", map[string]any{"world": w.tag, "doc": docID, "version": ver}, "revision cache returned another revision's body: "+c02Short(dr.BodyBytes))
	}
	var atts []string
	names := make([]string, 0, len(dr.Attachments))
	for n := range dr.Attachments {
		names = append(names, n)
	}
	sort.Strings(names)
	for _, n := range names {
		meta, _ := dr.Attachments[n].(map[string]any)
		dg, _ := meta["digest"].(string)
		var id uint64 = 999999
		for _, a := range w.attByID {
			if a.digest == dg && dg != "" {
				id = a.id
			}
		}
		atts = append(atts, fmt.Sprintf("(%d, %d)", w.attNameID(n), id))
	}
	return fmt.Sprintf("(mkRev %s %s %s %s %s)", w.cqChans(chans), cqBool(dr.Deleted), cqBool(dr.Removed), body, cqList(atts)), chansOK
}

// record one observed (user, revision, request, surface) decision: Coq case + monitors
func (w *c02World) record(u *c02User, r *c02Rev, ver string, surf, surfName, flags, request string, obs c02Wire, attName string, adminObs ...func() c02Wire) {
	pass := "warm"
	if w.cold {
		pass = "cold"
	}
	kind := surfName
	if ver == "" {
		kind += "_current"
	} else if !base.IsRevTreeID(ver) {
		kind += "_cv"
	}
	key := strings.Join([]string{u.name, r.doc.id, r.id, ver, surfName, attName, pass}, "|")
	in := map[string]any{"world": w.tag, "named_collection": w.named, "user": u.name, "user_channels": c02Keys(w.effective(u)), "doc": r.doc.id, "rev": r.id,
		"rev_channels": r.chans, "rev_deleted": r.deleted, "rev_current": r.current, "rev_leaf": r.leaf, "request": request, "flags": flags, "cache": pass, "observed": obs.String()}
	if prev, ok := w.first[key]; ok && prev != obs.String() {
		w.e.fail("flags_stable", surfName+":"+flags, in, "same (user, revision, surface) decided "+prev+" under other flags")
	} else if !ok {
		w.first[key] = obs.String()
	}
	// completeness: the current live revision of a document in one of the user's channels is delivered
	if r.current && !r.deleted && w.mustSee(u, r.chans) {
		okc := obs.status == 0 && !obs.removed && !obs.deleted && obs.content == (r.marker != "")
		if attName != "" {
			has := false
			for _, a := range r.atts {
				if a.name == attName {
					has = true
				}
			}
			okc = (has && obs.status == 0 && obs.content) || (!has && obs.status == 2)
		}
		if !okc && len(adminObs) > 0 && adminObs[0]() == obs {
			// the administrator gets the same answer: not an access decision (e.g. attachment metadata lost)
			okc = true
			w.e.adminToo[fmt.Sprintf("%s %s -> %s; history=%s", surfName, request, obs, w.describe(r.doc))]++
		}
		if !okc {
			w.e.fail("read_complete", surfName+":"+flags, in, "current revision in a channel of the user was not delivered; history="+w.describe(r.doc))
		}
	}
	term, chansOK := w.observeRev(r.doc.id, ver, r)
	if !chansOK {
		sig := surfName
		if r.hasWrong {
			sig = "superseded-nonwinning-revision-authorised-by-winner-channels"
		}
		w.e.fail("cache_channels", sig, in, "revision cache reports channels beyond those assigned to the revision: "+term+" history="+w.describe(r.doc))
	}
	q := "(mkReq " + cqBool(ver != "") + " false)"
	coq := fmt.Sprintf("CRead %s %s %s %s %s %s", cqBool(w.named), w.cqUser(u), term, q, surf, obs.String())
	if w.emitted[coq] {
		w.e.rec.Count("surfaces", kind, key+"|"+flags, false)
		return
	}
	w.emitted[coq] = true
	nontrivial := !w.mayDisclose(u, r.chans) || !r.current || r.deleted
	w.e.rec.Case("surfaces", kind, coq, in, nontrivial)
}

// ---------------------------------------------------------------- REST surfaces

type c02Flag struct {
	name  string
	query string
	hdr   map[string]string
}

func c02Q(v string) string { return url.QueryEscape(v) }

func (w *c02World) getFlags(d *c02Doc, quick bool) []c02Flag {
	first := d.revs[0].id
	since := c02Q(`["` + first + `"]`)
	fl := []c02Flag{
		{"plain", "", nil},
		{"revs", "revs=true", nil},
		{"attachments", "attachments=true", nil},
		{"revs+attachments+atts_since+show_exp", "revs=true&attachments=true&show_exp=true&atts_since=" + since, nil},
		{"multipart+attachments", "attachments=true", map[string]string{"Accept": "multipart/related"}},
	}
	if !quick {
		fl = append(fl,
			c02Flag{"revs_limit+revs_from+show_cv", "revs=true&revs_limit=2&show_cv=true&revs_from=" + since, nil},
			c02Flag{"atts_since", "attachments=true&atts_since=" + since, nil},
			c02Flag{"multipart", "", map[string]string{"Accept": "multipart/related"}},
		)
	}
	return fl
}

func c02Join(path, q string) string {
	if q == "" {
		return path
	}
	if strings.Contains(path, "?") {
		return path + "&" + q
	}
	return path + "?" + q
}

func (w *c02World) docReads(u *c02User, d *c02Doc, quick bool) {
	cur := w.currentOf(d)
	base0 := "/{{.keyspace}}/" + d.id
	for _, f := range w.getFlags(d, quick) {
		// current revision
		p := c02Join(base0, f.query)
		resp := w.userReq(u, "GET", p, "", f.hdr)
		w.scan(u, "get_current", f.name, "GET "+p, resp.raw, false)
		w.record(u, cur, "", "SGet", "get", f.name, "GET "+p, c02Classify(resp.code, resp.body, cur.marker), "", func() c02Wire {
			a := w.adminReq("GET", p, "", f.hdr)
			return c02Classify(a.code, a.body, cur.marker)
		})
		// every revision by id
		for _, r := range d.revs {
			p := c02Join(base0+"?rev="+r.id, f.query)
			resp := w.userReq(u, "GET", p, "", f.hdr)
			w.scan(u, "get_rev", f.name, "GET "+p, resp.raw, false)
			w.record(u, r, r.id, "SGet", "get", f.name, "GET "+p, c02Classify(resp.code, resp.body, r.marker), "", func() c02Wire {
				a := w.adminReq("GET", p, "", f.hdr)
				return c02Classify(a.code, a.body, r.marker)
			})
		}
		// current revision by version vector entry
		if cur.cv != "" {
			p := c02Join(base0+"?rev="+c02Q(cur.cv), f.query)
			resp := w.userReq(u, "GET", p, "", f.hdr)
			w.scan(u, "get_cv", f.name, "GET "+p, resp.raw, false)
			w.record(u, cur, cur.cv, "SGet", "get", f.name, "GET "+p, c02Classify(resp.code, resp.body, cur.marker), "")
		}
	}
	if w.ee {
		for _, r := range d.revs {
			p := base0 + "?replicator2=true&rev=" + r.id
			resp := w.userReq(u, "GET", p, "", nil)
			w.scan(u, "get_replicator2", "replicator2", "GET "+p, resp.raw, false)
			w.record(u, r, r.id, "SGet", "replicator2", "replicator2", "GET "+p, c02Classify(resp.code, resp.body, r.marker), "")
		}
	}
	// open_revs
	orFlags := []c02Flag{{"json", "", nil}, {"json+revs", "revs=true", nil}, {"multipart", "", map[string]string{"Accept": "multipart/mixed"}}}
	if !quick {
		orFlags = append(orFlags, c02Flag{"multipart+revs+atts_since", "revs=true&atts_since=" + c02Q(`["`+d.revs[0].id+`"]`), map[string]string{"Accept": "multipart/mixed"}})
	}
	var all []string
	for _, r := range d.revs {
		all = append(all, `"`+r.id+`"`)
	}
	for _, f := range orFlags {
		for _, spec := range []string{"all", "[" + strings.Join(all, ",") + "]"} {
			p := c02Join(base0+"?open_revs="+c02Q(spec), f.query)
			resp := w.userReq(u, "GET", p, "", f.hdr)
			w.scan(u, "open_revs", f.name, "GET "+p, resp.raw, false)
		}
		for _, r := range d.revs {
			p := c02Join(base0+"?open_revs="+c02Q(`["`+r.id+`"]`), f.query)
			resp := w.userReq(u, "GET", p, "", f.hdr)
			w.scan(u, "open_revs", f.name, "GET "+p, resp.raw, false)
			obs := c02Classify(resp.code, resp.body, r.marker)
			if resp.code == 200 && bytes.Contains(resp.body, []byte(`"missing"`)) {
				obs = c02Wire{status: 4}
			}
			w.record(u, r, r.id, "SOpenRevs", "open_revs", f.name, "GET "+p, obs, "")
		}
	}
	// _bulk_get, one entry per request (classified)
	mm := map[string]string{"Accept": "multipart/mixed"}
	bgFlags := []c02Flag{{"plain", "", mm}, {"revs+attachments", "revs=true&attachments=true", mm}}
	if !quick {
		bgFlags = append(bgFlags, c02Flag{"revs+revs_limit", "revs=true&revs_limit=1", map[string]string{"Accept": "*/*"}})
	}
	for _, f := range bgFlags {
		p := c02Join("/{{.keyspace}}/_bulk_get", f.query)
		body := fmt.Sprintf(`{"docs":[{"id":%q}]}`, d.id)
		resp := w.userReq(u, "POST", p, body, f.hdr)
		w.scan(u, "bulk_get_current", f.name, "POST "+p+" "+body, resp.raw, false)
		w.record(u, cur, "", "SGet", "bulk_get", f.name, "POST "+p+" "+body, c02Classify(c02BulkCode(resp.code), resp.body, cur.marker), "")
		for _, r := range d.revs {
			body := fmt.Sprintf(`{"docs":[{"id":%q,"rev":%q,"atts_since":[%q]}]}`, d.id, r.id, d.revs[0].id)
			resp := w.userReq(u, "POST", p, body, f.hdr)
			w.scan(u, "bulk_get_rev", f.name, "POST "+p+" "+body, resp.raw, false)
			w.record(u, r, r.id, "SGet", "bulk_get", f.name, "POST "+p+" "+body, c02Classify(c02BulkCode(resp.code), resp.body, r.marker), "")
		}
	}
	// attachments
	names := map[string]bool{}
	for _, r := range d.revs {
		for _, a := range r.atts {
			names[a.name] = true
		}
	}
	for n := range names {
		// own content of the named attachment if the revision has it, else whatever attachment bytes came back
		find := func(r *c02Rev) string {
			for _, a := range r.atts {
				if a.name == n {
					return a.content
				}
			}
			return "ATT" + w.tag + "n"
		}
		for _, f := range []c02Flag{{"plain", "", nil}, {"meta", "meta=true", nil}, {"content_encoding=false", "content_encoding=false", nil}} {
			p := c02Join(base0+"/"+n, f.query)
			resp := w.userReq(u, "GET", p, "", f.hdr)
			w.scan(u, "attachment_current", f.name, "GET "+p, resp.raw, false)
			if f.name != "meta" {
				w.record(u, cur, "", fmt.Sprintf("(SAtt %d)", w.attNameID(n)), "attachment", f.name, "GET "+p, c02Classify(resp.code, resp.body, find(cur)), n, func() c02Wire {
					a := w.adminReq("GET", p, "", f.hdr)
					return c02Classify(a.code, a.body, find(cur))
				})
			}
			for _, r := range d.revs {
				p := c02Join(base0+"/"+n+"?rev="+r.id, f.query)
				resp := w.userReq(u, "GET", p, "", f.hdr)
				w.scan(u, "attachment_rev", f.name, "GET "+p, resp.raw, false)
				if f.name != "meta" {
					w.record(u, r, r.id, fmt.Sprintf("(SAtt %d)", w.attNameID(n)), "attachment", f.name, "GET "+p, c02Classify(resp.code, resp.body, find(r)), n, func() c02Wire {
						a := w.adminReq("GET", p, "", f.hdr)
						return c02Classify(a.code, a.body, find(r))
					})
				}
			}
		}
	}
}

func c02BulkCode(code int) int {
	if code == 200 {
		return 0
	}
	return 500 + code%100
}

// one big _bulk_get over every revision of the world (scan only)
func (w *c02World) bulkAll(u *c02User) {
	var items []string
	for _, r := range w.revs {
		items = append(items, fmt.Sprintf(`{"id":%q,"rev":%q}`, r.doc.id, r.id))
	}
	for _, d := range w.docs {
		items = append(items, fmt.Sprintf(`{"id":%q}`, d.id))
	}
	body := `{"docs":[` + strings.Join(items, ",") + `]}`
	for _, q := range []string{"", "revs=true&attachments=true"} {
		p := c02Join("/{{.keyspace}}/_bulk_get", q)
		resp := w.userReq(u, "POST", p, body, map[string]string{"Accept": "multipart/mixed"})
		w.scan(u, "bulk_get_all", q, "POST "+p+" <every revision>", resp.raw, false)
	}
}

// ---------------------------------------------------------------- _all_docs

type c02Row struct {
	Key    string          `json:"key"`
	ID     string          `json:"id"`
	Doc    json.RawMessage `json:"doc"`
	Status int             `json:"status"`
	Value  *struct {
		Rev      string   `json:"rev"`
		Channels []string `json:"channels"`
	} `json:"value"`
}

func (w *c02World) allDocs(u *c02User, quick bool) {
	// both the view and the GSI query hand a document without channels over with an empty, non-nil list
	nwe := false
	type variant struct {
		name     string
		keys     bool
		post     bool
		include  bool
		channels bool
		extra    string
	}
	vs := []variant{
		{"list", false, false, false, false, ""},
		{"list+include_docs", false, false, true, false, ""},
		{"list+channels", false, false, false, true, ""},
		{"list+include_docs+channels+revs+update_seq", false, false, true, true, "revs=true&update_seq=true&access=true"},
		{"keys-get", true, false, false, false, ""},
		{"keys-post+include_docs+channels", true, true, true, true, ""},
	}
	if !quick {
		vs = append(vs, variant{"keys-get+include_docs+revs", true, false, true, false, "revs=true"}, variant{"keys-post+channels", true, true, false, true, ""})
	}
	var ids []string
	for _, d := range w.docs {
		ids = append(ids, `"`+d.id+`"`)
	}
	keysJSON := "[" + strings.Join(ids, ",") + `,"nosuchdoc"]`
	for _, v := range vs {
		var params []string
		if v.extra != "" {
			params = append(params, v.extra)
		}
		if v.include {
			params = append(params, "include_docs=true")
		}
		if v.channels {
			params = append(params, "channels=true")
		}
		method, body := "GET", ""
		if v.keys && v.post {
			method, body = "POST", `{"keys":`+keysJSON+`}`
		} else if v.keys {
			params = append(params, "keys="+c02Q(keysJSON))
		}
		q := strings.Join(params, "&")
		p := c02Join("/{{.keyspace}}/_all_docs", q)
		resp := w.userReq(u, method, p, body, nil)
		w.scan(u, "all_docs", v.name, method+" "+p+" "+body, resp.raw, !v.keys)
		var parsed struct {
			Rows []c02Row `json:"rows"`
		}
		if err := json.Unmarshal(resp.body, &parsed); err != nil {
			w.e.fail("all_docs_parse", v.name, map[string]any{"user": u.name, "request": p}, "unparsable _all_docs response: "+c02Short(resp.body))
			continue
		}
		rows := map[string]*c02Row{}
		for i := range parsed.Rows {
			rows[parsed.Rows[i].Key] = &parsed.Rows[i]
		}
		for _, d := range w.docs {
			cur := w.currentOf(d)
			if !v.keys && cur.deleted {
				continue // the listing query does not return tombstoned documents
			}
			obsKind, content := 0, false
			var chans *[]string
			if row, ok := rows[d.id]; ok {
				switch {
				case row.Status == 403:
					obsKind = 3
				case row.Status >= 300:
					obsKind = 4
				case row.Doc != nil:
					obsKind = 2
					content = cur.marker != "" && bytes.Contains(row.Doc, []byte(cur.marker))
				default:
					obsKind = 1
				}
				if (obsKind == 1 || obsKind == 2) && v.channels && row.Value != nil {
					cs := append([]string{}, row.Value.Channels...)
					chans = &cs
				}
			}
			chTerm := "None"
			if chans != nil {
				chTerm = "(Some " + w.cqChans(*chans) + ")"
			}
			obs := fmt.Sprintf("(mkRO %d %s %s)", obsKind, cqBool(content), chTerm)
			term, _ := w.observeRev(d.id, "", cur)
			in := map[string]any{"world": w.tag, "named_collection": w.named, "user": u.name, "user_channels": c02Keys(w.effective(u)), "doc": d.id,
				"current_channels": cur.chans, "deleted": cur.deleted, "variant": v.name, "request": method + " " + p, "observed": obs}
			if !cur.deleted && w.mustSee(u, cur.chans) && len(cur.chans) > 0 {
				want := 1
				if v.include {
					want = 2
				}
				if obsKind != want || (want == 2 && !content) {
					w.e.fail("read_complete", "all_docs:"+v.name, in, "current revision in a channel of the user is not listed / not delivered")
				}
			}
			coq := fmt.Sprintf("CAllDocs %s %s %s %s (mkAd %s %s %s) %s", cqBool(w.named), cqBool(nwe), w.cqUser(u), term,
				cqBool(v.keys), cqBool(v.include), cqBool(v.channels), obs)
			key := coq
			if w.emitted[key] {
				w.e.rec.Count("surfaces", "all_docs", key+v.name, false)
				continue
			}
			w.emitted[key] = true
			w.e.rec.Case("surfaces", "all_docs", coq, in, !w.mayDisclose(u, cur.chans) || cur.deleted)
		}
	}
}

func (w *c02World) describe(d *c02Doc) string {
	var sb strings.Builder
	for _, r := range d.revs {
		par := ""
		if r.parent != nil {
			par = r.parent.id
		}
		fmt.Fprintf(&sb, "[%s parent=%s chans=%v deleted=%v leaf=%v current=%v atts=%d] ", r.id, par, r.chans, r.deleted, r.leaf, r.current, len(r.atts))
	}
	return sb.String()
}

// ---------------------------------------------------------------- _changes

type c02Change struct {
	ID      string              `json:"id"`
	Doc     json.RawMessage     `json:"doc"`
	Changes []map[string]string `json:"changes"`
	Deleted bool                `json:"deleted"`
	Removed []string            `json:"removed"`
}

func (w *c02World) changes(u *c02User, quick bool) {
	type variant struct {
		name, method, query, body string
		include                   bool
	}
	vs := []variant{
		{"plain", "GET", "since=0", "", false},
		{"include_docs", "GET", "since=0&include_docs=true", "", true},
		{"include_docs+style=all_docs", "GET", "since=0&include_docs=true&style=all_docs", "", true},
		{"post+include_docs+active_only", "POST", "", `{"since":0,"include_docs":true,"active_only":true}`, true},
		{"bychannel+include_docs", "GET", "since=0&include_docs=true&filter=sync_gateway/bychannel&channels=A,B,C,D,E", "", true},
	}
	if !quick {
		var ids []string
		for _, d := range w.docs {
			ids = append(ids, `"`+d.id+`"`)
		}
		vs = append(vs,
			variant{"doc_ids+include_docs", "GET", "since=0&include_docs=true&filter=_doc_ids&doc_ids=" + c02Q("["+strings.Join(ids, ",")+"]"), "", true},
			variant{"include_docs+revocations", "GET", "since=0&include_docs=true&revocations=true", "", true},
			variant{"include_docs+version_type=cv", "GET", "since=0&include_docs=true&version_type=cv", "", true},
			variant{"bychannel-star", "GET", "since=0&include_docs=true&filter=sync_gateway/bychannel&channels=*", "", true},
		)
	}
	for _, v := range vs {
		p := c02Join("/{{.keyspace}}/_changes", v.query)
		resp := w.userReq(u, v.method, p, v.body, nil)
		w.scan(u, "changes", v.name, v.method+" "+p+" "+v.body, resp.raw, true)
		if resp.code != 200 {
			continue
		}
		var parsed struct {
			Results []c02Change `json:"results"`
		}
		if err := json.Unmarshal(resp.body, &parsed); err != nil {
			w.e.fail("changes_parse", v.name, map[string]any{"user": u.name, "request": p}, "unparsable _changes response: "+c02Short(resp.body))
			continue
		}
		seen := map[string]*c02Change{}
		for i := range parsed.Results {
			ch := &parsed.Results[i]
			seen[ch.ID] = ch
			if !v.include || len(ch.Changes) == 0 {
				continue
			}
			revID := ch.Changes[0]["rev"]
			for _, d := range w.docs {
				if d.id != ch.ID {
					continue
				}
				for _, r := range d.revs {
					if r.id != revID {
						continue
					}
					obs := c02Wire{status: 5}
					if ch.Doc != nil {
						obs = c02Classify(200, ch.Doc, r.marker)
					}
					w.record(u, r, r.id, "SChanges", "changes", v.name, v.method+" "+p+" "+v.body, obs, "")
				}
			}
		}
		if v.name == "plain" || v.name == "include_docs" {
			for _, d := range w.docs {
				cur := w.currentOf(d)
				if cur.deleted || !w.mustSee(u, cur.chans) || len(cur.chans) == 0 {
					continue
				}
				ch := seen[d.id]
				if ch == nil || len(ch.Changes) == 0 || ch.Changes[0]["rev"] != cur.id ||
					(v.include && !bytes.Contains(ch.Doc, []byte(cur.marker))) {
					w.e.fail("read_complete", "changes:"+v.name, map[string]any{"world": w.tag, "user": u.name, "user_channels": c02Keys(w.effective(u)), "doc": d.id, "rev": cur.id, "rev_channels": cur.chans},
						fmt.Sprintf("current revision in a channel of the user missing from the changes feed; entry=%+v history=%s", ch, w.describe(d)))
				}
			}
		}
	}
}

// ---------------------------------------------------------------- BLIP pull (rev / norev / getAttachment)

func c02Wait(wg *sync.WaitGroup, d time.Duration) bool {
	done := make(chan struct{})
	go func() { wg.Wait(); close(done) }()
	select {
	case <-done:
		return true
	case <-time.After(d):
		return false
	}
}

// getAttachment on the connection; served = a non-error response
func (w *c02World) blipGetAtt(bt *BlipTester, u *c02User, docID, digest, why string) (served bool) {
	served, _ = w.blipGetAtt2(bt, u, docID, digest, why)
	return served
}

// obs is the Coq observation: served, refused by the gate (403), or anything else (None: never what the model says)
func (w *c02World) blipGetAtt2(bt *BlipTester, u *c02User, docID, digest, why string) (served bool, obs string) {
	rq := blip.NewRequest()
	rq.SetProfile(db.MessageGetAttachment)
	rq.Properties[db.GetAttachmentDigest] = digest
	if bt.activeSubprotocol >= db.CBMobileReplicationV3 {
		rq.Properties[db.GetAttachmentID] = docID
	}
	bt.addCollectionProperty(rq)
	if !bt.sender.Send(rq) {
		return false, "None"
	}
	w.e.nreq++
	resp := rq.Response()
	body, _ := resp.Body()
	var raw bytes.Buffer
	fmt.Fprintf(&raw, "%v\n", resp.Properties)
	raw.Write(body)
	w.scan(u, "blip_getAttachment", why, fmt.Sprintf("getAttachment docID=%s digest=%s", docID, digest), raw.Bytes(), false)
	served = resp.Type() != blip.ErrorType && resp.Properties["Error-Code"] == ""
	if served && (why == "fresh-connection" || why == "other-document" || why == "after-reply-final") {
		w.e.fail("attachment_gate", why, map[string]any{"world": w.tag, "named_collection": w.named, "user": u.name, "user_channels": c02Keys(w.effective(u)), "docID": docID, "digest": digest},
			"getAttachment served outside the window of a rev message carrying it: "+c02Short(body))
	}
	obs = "Some " + cqBool(served)
	if !served && resp.Properties["Error-Code"] != "403" {
		obs = "None"
		w.e.fail("attachment_gate", "refusal-is-not-403", map[string]any{"world": w.tag, "user": u.name, "docID": docID, "digest": digest, "when": why, "properties": fmt.Sprint(resp.Properties)},
			"getAttachment outside the allow-list was not refused by the gate (403) but answered: "+c02Short(body))
	}
	return served, obs
}

func (w *c02World) attOwner(a *c02Att) *c02Rev {
	for _, r := range w.revs {
		for _, x := range r.atts {
			if x == a {
				return r
			}
		}
	}
	return nil
}

func (w *c02World) blip(u *c02User, quick bool, protocol db.CBMobileSubprotocolVersion) {
	if w.cold {
		w.rt.GetDatabase().FlushRevisionCacheForTest()
	}
	bt, err := createBlipTesterWithSpec(w.rt, BlipTesterSpec{connectingUsername: u.name, blipProtocols: []string{protocol.SubprotocolString()}})
	if err != nil {
		w.e.fail("blip_connect", "connect", map[string]any{"user": u.name}, err.Error())
		return
	}
	bt.avoidRestTesterClose = true
	defer bt.Close()
	proto := protocol.SubprotocolString()

	// nothing was sent on this connection yet: every attachment of the world is refused
	{
		var ops, obs []string
		for _, r := range w.revs {
			for _, a := range r.atts {
				if a.digest == "" {
					continue
				}
				_, o := w.blipGetAtt2(bt, u, r.doc.id, a.digest, "fresh-connection")
				ops = append(ops, fmt.Sprintf("PGet %d", a.id))
				obs = append(obs, o)
			}
		}
		if len(ops) > 0 {
			coq := fmt.Sprintf("CGate %s %s %s %s", cqBool(w.named), w.cqUser(u), cqList(ops), cqList(obs))
			w.e.rec.Case("blip", "gate_fresh", coq, map[string]any{"world": w.tag, "user": u.name, "protocol": proto, "ops": ops, "observed": obs}, true)
		}
	}

	type variant struct {
		name  string
		props map[string]string
	}
	vs := []variant{{"plain", nil}, {"activeOnly", map[string]string{"activeOnly": "true"}}}
	if !quick {
		vs = append(vs, variant{"revocations", map[string]string{"revocations": "true"}},
			variant{"bychannel", map[string]string{"filter": "sync_gateway/bychannel", "channels": "A,B,C,D,E"}})
	}
	for _, v := range vs {
		var changesDone, revsDone sync.WaitGroup
		var mu sync.Mutex
		delivered := map[string]bool{} // doc id of current revisions delivered with content
		ctxb := bt.blipContext
		sig := "blip_" + proto
		ctxb.HandlerForProfile["changes"] = func(request *blip.Message) {
			body, err := request.Body()
			if err != nil || string(body) == "null" {
				changesDone.Done()
				return
			}
			mu.Lock()
			w.scan(u, sig+"_changes", v.name, "subChanges "+fmt.Sprint(v.props), body, true)
			mu.Unlock()
			if !request.NoReply() {
				batch := [][]any{}
				_ = json.Unmarshal(body, &batch)
				resp := [][]any{}
				for range batch {
					resp = append(resp, []any{})
					revsDone.Add(1)
				}
				out, _ := json.Marshal(resp)
				response := request.Response()
				response.SetBody(out)
			}
		}
		ctxb.HandlerForProfile["norev"] = func(request *blip.Message) {
			defer revsDone.Done()
			mu.Lock()
			defer mu.Unlock()
			body, _ := request.Body()
			raw := []byte(fmt.Sprintf("%v\n%s", request.Properties, body))
			w.scan(u, sig+"_norev", v.name, "subChanges "+fmt.Sprint(v.props), raw, false)
			obs := c02Wire{status: 2}
			if request.Properties["error"] == "403" {
				obs = c02Wire{status: 1}
			}
			for _, r := range w.revs {
				if r.doc.id == request.Properties["id"] && r.id == request.Properties["rev"] {
					w.record(u, r, r.id, "SBlip", sig, v.name, "pull "+fmt.Sprint(v.props), obs, "")
				}
			}
		}
		ctxb.HandlerForProfile["rev"] = func(request *blip.Message) {
			defer revsDone.Done()
			mu.Lock()
			defer mu.Unlock()
			body, _ := request.Body()
			raw := []byte(fmt.Sprintf("%v\n%s", request.Properties, body))
			w.scan(u, sig+"_rev", v.name, "subChanges "+fmt.Sprint(v.props), raw, false)
			var rev *c02Rev
			for _, r := range w.revs {
				if r.doc.id == request.Properties["id"] && r.id == request.Properties["rev"] {
					rev = r
				}
			}
			replied := false
			reply := func() {
				if !replied && !request.NoReply() {
					request.Response().SetBody([]byte{})
				}
				replied = true
			}
			if rev == nil {
				reply()
				return
			}
			obs := c02Classify(0, body, rev.marker)
			if request.Properties["deleted"] != "" && request.Properties["deleted"] != "false" {
				obs.deleted = true
			}
			w.record(u, rev, rev.id, "SBlip", sig, v.name, "pull "+fmt.Sprint(v.props), obs, "")
			if rev.current && obs.content {
				delivered[rev.doc.id] = true
			}
			// attachment gate around this rev message
			if len(rev.atts) > 0 && rev.atts[0].digest != "" && v.name == "plain" {
				term, _ := w.observeRev(rev.doc.id, rev.id, rev)
				ops := []string{"PSend " + term}
				var res []string
				res = append(res, "None")
				get := func(a *c02Att, docID, why string) {
					_, o := w.blipGetAtt2(bt, u, docID, a.digest, why)
					ops = append(ops, fmt.Sprintf("PGet %d", a.id))
					res = append(res, o)
				}
				for _, a := range rev.atts {
					get(a, rev.doc.id, "while-rev-outstanding")
				}
				// an attachment of a revision that was not sent
				for _, other := range w.revs {
					if other.doc != rev.doc && len(other.atts) > 0 && other.atts[0].digest != "" && !w.mayDisclose(u, other.chans) {
						get(other.atts[0], other.doc.id, "other-document")
						break
					}
				}
				if !request.NoReply() && obs.status == 0 && !obs.removed && len(body) > 0 && bytes.Contains(body, []byte("_attachments")) {
					// the reply closes the gate: re-ask until refused (the gateway handles the reply asynchronously)
					request.Response().SetBody([]byte{})
					replied = true
					ops = append(ops, "PReply 0")
					res = append(res, "None")
					go func(a *c02Att, docID string, ops, res []string) {
						served, o := true, "None"
						for i := 0; i < 100 && served; i++ {
							time.Sleep(10 * time.Millisecond)
							why := "after-reply"
							if i == 99 {
								why = "after-reply-final"
							}
							mu.Lock()
							served, o = w.blipGetAtt2(bt, u, docID, a.digest, why)
							mu.Unlock()
						}
						mu.Lock()
						defer mu.Unlock()
						ops = append(ops, fmt.Sprintf("PGet %d", a.id))
						res = append(res, o)
						coq := fmt.Sprintf("CGate %s %s %s %s", cqBool(w.named), w.cqUser(u), cqList(ops), cqList(res))
						w.e.rec.Case("blip", "gate_trace", coq, map[string]any{"world": w.tag, "user": u.name, "protocol": proto, "doc": docID, "ops": ops, "observed": res}, true)
						revsDone.Done()
					}(rev.atts[0], rev.doc.id, ops, res)
					revsDone.Add(1)
					return
				}
				coq := fmt.Sprintf("CGate %s %s %s %s", cqBool(w.named), w.cqUser(u), cqList(ops), cqList(res))
				w.e.rec.Case("blip", "gate_trace", coq, map[string]any{"world": w.tag, "user": u.name, "protocol": proto, "doc": rev.doc.id, "ops": ops, "observed": res}, true)
			}
			reply()
		}
		changesDone.Add(1)
		sub := blip.NewRequest()
		sub.SetProfile("subChanges")
		sub.Properties["continuous"] = "false"
		for k, val := range v.props {
			sub.Properties[k] = val
		}
		bt.addCollectionProperty(sub)
		if !bt.sender.Send(sub) {
			w.e.fail("blip_send", "subChanges", map[string]any{"user": u.name}, "cannot send subChanges")
			return
		}
		w.e.nreq++
		if !c02Wait(&changesDone, 120*time.Second) || !c02Wait(&revsDone, 120*time.Second) {
			w.e.fail("blip_timeout", v.name, map[string]any{"world": w.tag, "user": u.name}, "pull did not finish")
			return
		}
		mu.Lock()
		if v.name == "plain" {
			for _, d := range w.docs {
				cur := w.currentOf(d)
				if !cur.deleted && w.mustSee(u, cur.chans) && len(cur.chans) > 0 && !delivered[d.id] {
					w.e.fail("read_complete", sig+":"+v.name, map[string]any{"world": w.tag, "user": u.name, "user_channels": c02Keys(w.effective(u)), "doc": d.id, "rev": cur.id, "rev_channels": cur.chans},
						"current revision in a channel of the user was not delivered by the pull replication")
				}
			}
		}
		mu.Unlock()
		delete(ctxb.HandlerForProfile, "changes")
		delete(ctxb.HandlerForProfile, "rev")
		delete(ctxb.HandlerForProfile, "norev")
	}
}

// ---------------------------------------------------------------- direct channel decisions on the real principals

func (w *c02World) seeStream() {
	col, ctx := w.rt.GetSingleTestDatabaseCollection()
	a := w.rt.GetDatabase().Authenticator(ctx)
	universe := []string{"*", "!", "A", "B", "C", "D", "E"}
	var sets [][]string
	sets = append(sets, []string{})
	for i := range universe {
		sets = append(sets, []string{universe[i]})
		for j := i + 1; j < len(universe); j++ {
			sets = append(sets, []string{universe[i], universe[j]})
		}
	}
	sets = append(sets, []string{"A", "B", "C"}, []string{"D", "E", "!"}, []string{"B", "D", "E"}, []string{"nosuchchannel"})
	for _, u := range w.users {
		user, err := a.GetUser(u.name)
		if err != nil || user == nil {
			w.e.fail("principal_load", "user", map[string]any{"user": u.name}, fmt.Sprint(err))
			continue
		}
		for _, s := range sets {
			obs := user.AuthorizeAnyCollectionChannel(col.ScopeName, col.Name, base.SetFromArray(s)) == nil
			want := w.mayDisclose(u, s)
			if obs && !want {
				w.e.fail("no_disclosure", "authorize_any", map[string]any{"world": w.tag, "user": u.name, "user_channels": c02Keys(w.effective(u)), "channels": s}, "AuthorizeAnyCollectionChannel grants a set the user holds no channel of")
			}
			if !obs && w.mustSee(u, s) {
				w.e.fail("read_complete", "authorize_any", map[string]any{"world": w.tag, "user": u.name, "user_channels": c02Keys(w.effective(u)), "channels": s}, "AuthorizeAnyCollectionChannel refuses a set containing a channel of the user")
			}
			coq := fmt.Sprintf("CSee %s %s %s %s", cqBool(w.named), w.cqUser(u), w.cqChans(s), cqBool(obs))
			w.e.rec.Case("authorize", "user_any", coq, map[string]any{"world": w.tag, "named_collection": w.named, "user": u.name, "user_channels": c02Keys(w.effective(u)), "channels": s, "observed": obs}, len(s) == 0 || !obs)
		}
	}
	for _, r := range w.roles {
		role, err := a.GetRole(r.name)
		if err != nil || role == nil {
			w.e.fail("principal_load", "role", map[string]any{"role": r.name}, fmt.Sprint(err))
			continue
		}
		for _, s := range sets {
			obs := role.AuthorizeAnyCollectionChannel(col.ScopeName, col.Name, base.SetFromArray(s)) == nil
			coq := fmt.Sprintf("CSeeRole %s %s %s", w.cqRole(r.explicit, r.computed), w.cqChans(s), cqBool(obs))
			w.e.rec.Case("authorize", "role_any", coq, map[string]any{"world": w.tag, "role": r.name, "channels": s, "observed": obs}, len(s) == 0 || !obs)
		}
	}
}

// ---------------------------------------------------------------- entry point

func (w *c02World) run(quick bool) {
	w.readBack()
	w.addLegacy()
	_ = w.userReq(w.users[0], "PUT", "/{{.keyspace}}/_local/c02"+w.tag, `{"note":"checkpoint of `+w.users[0].name+`"}`, nil)
	w.rt.WaitForPendingChanges()
	w.seeStream()
	for _, cold := range []bool{false, true} {
		if cold {
			w.backupCases() // flushes the revision cache: after the warm pass
		}
		w.cold = cold
		for _, u := range w.users {
			for _, d := range w.docs {
				w.docReads(u, d, quick)
			}
			w.bulkAll(u)
			w.allDocs(u, quick)
			w.changes(u, quick)
			w.kinds(u, quick)
			w.blip(u, quick, db.CBMobileReplicationV3)
			if !quick {
				w.blip(u, true, db.CBMobileReplicationV2)
			}
		}
	}
	w.cold = false
}

func TestVerifC02(t *testing.T) {
	rec := vNewRecorder(t, "C02", "C02.C02_Corr")
	defer rec.Finish()
	base.SetUpTestLogging(t, base.LevelError, base.KeyNone)
	e := &c02Env{t: t, rec: rec, rnd: vNewRand(vSeed()), failN: map[string]int{}, adminToo: map[string]int{}, shapeN: map[string]int{}}
	thorough := vThorough()
	type plan struct {
		tag       string
		named     bool
		canonical bool
		quick     bool
	}
	plans := []plan{{"w1", true, true, !thorough}, {"w2", false, true, true}}
	nrand := vBudget(1, 6)
	for i := 0; i < nrand; i++ {
		plans = append(plans, plan{fmt.Sprintf("x%d", i+1), i%2 == 1, false, true})
	}
	t0 := time.Now()
	for _, p := range plans {
		w := c02NewWorld(e, p.tag, p.named)
		if p.canonical {
			w.canonical()
		} else {
			w.random(3, vBudget(6, 10))
		}
		w.run(p.quick)
		w.rt.Close()
	}
	rec.Extra("requests", e.nreq)
	{
		var keys []string
		for k := range e.adminToo {
			keys = append(keys, k)
		}
		sort.Strings(keys)
		if len(keys) > 4 {
			keys = keys[:4]
		}
		rec.Extra("current_revision_unreadable_for_admin_too", map[string]any{"count": len(e.adminToo), "samples": keys})
	}
	rec.Extra("worlds", len(plans))
	rec.Extra("stubs_checked", e.stubs)
	rec.Extra("shape_disclosed_by_point_requests", e.shapeN)
	rec.Extra("enterprise_edition", base.IsEnterpriseEdition())
	rec.Extra("harness_seconds", time.Since(t0).Seconds())
	rec.Extra("surfaces", []string{"GET doc (current / rev / cv) x flags", "open_revs (all / list / single; json / multipart)", "_bulk_get (single entries / whole world)",
		"attachment GET (current / rev; meta; content_encoding)", "_all_docs (list / keys x include_docs / channels / revs / update_seq)",
		"_changes (GET / POST; include_docs; style=all_docs; active_only; bychannel; doc_ids; revocations)", "BLIP subChanges -> changes / rev / norev / getAttachment",
		"auth.User / auth.Role AuthorizeAnyCollectionChannel"})
	if !base.IsEnterpriseEdition() {
		rec.Extra("not_exercised", "replicator2 GET and BLIP deltas (enterprise edition only; this build is the community edition)")
	}
}
