//go:build verif

package rest

import (
	"fmt"
	"net/http"
	"sort"
	"strconv"
	"strings"
	"time"

	"github.com/couchbase/sync_gateway/base"
)

// C15, node-local application of loaded configs: three RestTester nodes (persistent config, no background
// polling) share one bucket and one config group.  A writer node changes the persisted configuration through the
// admin REST API (create / replace config / delete); two reader nodes pick the changes up at chosen moments with
// ServerContext.fetchAndLoadConfigs (what ForceDbConfigsReload and the background poll run).  Every poll is emitted
// as a Coq case (running databases before, what GetDatabaseConfigs returns, which "deleted" databases still have a
// config document, running databases after) and evaluated against C15/ConfigApply.v for some application order.

type c15aCfg struct {
	Cas   uint64 `json:"cas"`
	Gen   uint64 `json:"gen"`
	Dig   uint64 `json:"dig"`
	Colls []int  `json:"colls"`
}

type c15aOp struct {
	Kind  string `json:"kind"` // ins, upd, del, pollA, pollB
	DB    int    `json:"db,omitempty"`
	Colls []int  `json:"colls,omitempty"`
}

func (o c15aOp) String() string {
	switch o.Kind {
	case "ins", "upd":
		return fmt.Sprintf("%s(db%d,%v)", o.Kind, o.DB, o.Colls)
	case "del":
		return fmt.Sprintf("del(db%d)", o.DB)
	}
	return o.Kind
}

type c15aEnv struct {
	h       *c15Harness
	tb      *base.TestBucket
	group   string
	w, a, b *RestTester
	scope   string
	colls   []string // collection id (1..3) -> name
	nPolls  int
	nWrites int
}

func c15aParseVer(s string) (uint64, uint64) {
	parts := strings.SplitN(s, "-", 2)
	if len(parts) != 2 {
		return 9999, 9999
	}
	g, err := strconv.ParseUint(parts[0], 10, 64)
	if err != nil {
		return 9999, 9999
	}
	d := parts[1]
	if len(d) > 7 {
		d = d[:7]
	}
	v, err := strconv.ParseUint(d, 16, 64)
	if err != nil {
		v, err = strconv.ParseUint(d, 10, 64)
		if err != nil {
			v = 9998
		}
	}
	return g, v + 2 // keep clear of the sentinel digests 0-0 / 0-1
}

func (e *c15aEnv) collIDs(sc ScopesConfig) []int {
	out := []int{}
	for sn, s := range sc {
		for cn := range s.Collections {
			id := 999
			if sn == base.DefaultScope && cn == base.DefaultCollection {
				id = 0
			} else if sn == e.scope {
				for i, n := range e.colls {
					if n == cn {
						id = i + 1
					}
				}
			}
			out = append(out, id)
		}
	}
	sort.Ints(out)
	return out
}

func (e *c15aEnv) scopes(colls []int) ScopesConfig {
	if len(colls) == 0 {
		return nil
	}
	sc := ScopeConfig{Collections: map[string]*CollectionConfig{}}
	for _, c := range colls {
		sc.Collections[e.colls[c-1]] = &CollectionConfig{}
	}
	return ScopesConfig{e.scope: sc}
}

func (e *c15aEnv) running(rt *RestTester) map[int]c15aCfg {
	sc := rt.ServerContext()
	sc._databasesLock.RLock()
	defer sc._databasesLock.RUnlock()
	out := map[int]c15aCfg{}
	for name, cfg := range sc._dbConfigs {
		d := -2
		if strings.HasPrefix(name, "db") {
			if v, err := strconv.Atoi(name[2:]); err == nil {
				d = v
			}
		}
		g, dig := c15aParseVer(cfg.Version)
		out[d] = c15aCfg{Cas: cfg.cfgCas, Gen: g, Dig: dig, Colls: e.collIDs(cfg.Scopes)}
	}
	return out
}

func (e *c15aEnv) loaded(rt *RestTester) (map[int]c15aCfg, error) {
	sc := rt.ServerContext()
	cfgs, err := sc.BootstrapContext.GetDatabaseConfigs(rt.Context(), e.tb.GetName(), e.group)
	if err != nil {
		return nil, err
	}
	out := map[int]c15aCfg{}
	for _, c := range cfgs {
		d := -2
		if strings.HasPrefix(c.Name, "db") {
			if v, perr := strconv.Atoi(c.Name[2:]); perr == nil {
				d = v
			}
		}
		g, dig := c15aParseVer(c.Version)
		out[d] = c15aCfg{Cas: c.cfgCas, Gen: g, Dig: dig, Colls: e.collIDs(c.Scopes)}
	}
	return out, nil
}

func c15aCq(m map[int]c15aCfg) string {
	items := []string{}
	for _, d := range c15SortedKeys(m) {
		c := m[d]
		items = append(items, fmt.Sprintf("(%d, AC %d (%d,%d) %s)", d, c.Cas, c.Gen, c.Dig, c15CqInts(c.Colls)))
	}
	return cqList(items)
}

func c15aVersions(m map[int]c15aCfg) string {
	parts := []string{}
	for _, d := range c15SortedKeys(m) {
		parts = append(parts, fmt.Sprintf("db%d@%d-%x%v", d, m[d].Gen, m[d].Dig, m[d].Colls))
	}
	return strings.Join(parts, " ")
}

// poll runs one fetchAndLoadConfigs on a reader node; returns the running databases afterwards
func (e *c15aEnv) poll(stream, scen string, which string, history []string) map[int]c15aCfg {
	rt := e.a
	if which == "pollB" {
		rt = e.b
	}
	h := e.h
	before := e.running(rt)
	loaded, lerr := e.loaded(rt)
	desc := map[string]any{"scenario": scen, "node": which, "history": history, "before": c15aVersions(before)}
	if lerr != nil {
		h.rec.Fail("apply_loads", "apply:get-database-configs-failed", desc, lerr.Error())
		return before
	}
	desc["loaded"] = c15aVersions(loaded)
	still := []int{}
	for _, d := range c15SortedKeys(before) {
		if _, ok := loaded[d]; ok {
			continue
		}
		var cfg DatabaseConfig
		if _, err := rt.ServerContext().BootstrapContext.GetConfig(rt.Context(), e.tb.GetName(), e.group, c15DBName(d), &cfg); err == nil {
			still = append(still, d)
		}
	}
	_, err := rt.ServerContext().fetchAndLoadConfigs(rt.Context(), false)
	if err != nil {
		h.rec.Fail("apply_loads", "apply:fetch-and-load-failed", desc, err.Error())
	}
	after := e.running(rt)
	desc["after"] = c15aVersions(after)
	e.nPolls++
	changed := c15aVersions(before) != c15aVersions(after)
	h.rec.Case(stream, "apply", fmt.Sprintf("CApply %s %s %s %s", c15aCq(before), c15aCq(loaded), c15CqInts(still), c15aCq(after)), desc, changed)

	// apply_monotone_cas: never replaced by an older config; what runs is what ran or what was loaded
	for d, o := range before {
		n, ok := after[d]
		if !ok {
			continue
		}
		if n.Cas < o.Cas {
			h.rec.Fail("apply_monotone_cas", "apply:running-config-replaced-by-older", desc, fmt.Sprintf("db%d: cas %d -> %d", d, o.Cas, n.Cas))
		}
		if n.Cas != o.Cas {
			if l, has := loaded[d]; !has || l.Cas != n.Cas {
				h.rec.Fail("apply_monotone_cas", "apply:running-config-not-from-loaded-set", desc, fmt.Sprintf("db%d runs cas %d which was not loaded", d, n.Cas))
			}
		}
	}
	// apply_no_shared_collection
	ks := c15SortedKeys(after)
	for i, x := range ks {
		for _, y := range ks[i+1:] {
			if c15Inter(c15Eff(after[x].Colls), c15Eff(after[y].Colls)) {
				h.rec.Fail("apply_no_shared_collection", "apply:two-running-databases-share-a-collection", desc,
					fmt.Sprintf("db%d %v and db%d %v", x, after[x].Colls, y, after[y].Colls))
			}
		}
	}
	return after
}

func (e *c15aEnv) write(o c15aOp) int {
	e.nWrites++
	name := c15DBName(o.DB)
	switch o.Kind {
	case "ins":
		cfg := e.w.NewDbConfig()
		cfg.Scopes = e.scopes(o.Colls)
		return e.w.CreateDatabase(name, cfg).Code
	case "upd":
		cfg := e.w.NewDbConfig()
		cfg.Scopes = e.scopes(o.Colls)
		return e.w.ReplaceDbConfig(name, cfg).Code
	case "del":
		return e.w.SendAdminRequest(http.MethodDelete, "/"+name+"/", "").Code
	}
	return 0
}

func c15aSame(a, b map[int]c15aCfg) bool { return c15aVersions(a) == c15aVersions(b) }

func (e *c15aEnv) scenario(stream, name string, ops []c15aOp) {
	h := e.h
	history := []string{}
	for _, o := range ops {
		if o.Kind == "pollA" || o.Kind == "pollB" {
			e.poll(stream, name, o.Kind, append([]string{}, history...))
			history = append(history, o.Kind)
			continue
		}
		code := e.write(o)
		history = append(history, fmt.Sprintf("%s=>%d", o, code))
	}
	// quiescent end: three rounds on each reader; apply_converges
	var ra, rb [3]map[int]c15aCfg
	for k := 0; k < 3; k++ {
		ra[k] = e.poll(stream, name, "pollA", append([]string{}, history...))
		history = append(history, "pollA")
	}
	for k := 0; k < 3; k++ {
		rb[k] = e.poll(stream, name, "pollB", append([]string{}, history...))
		history = append(history, "pollB")
	}
	target, err := e.loaded(e.a)
	desc := map[string]any{"scenario": name, "history": history, "A": c15aVersions(ra[2]), "B": c15aVersions(rb[2])}
	if err == nil {
		desc["loaded"] = c15aVersions(target)
		for _, x := range []struct {
			n string
			r [3]map[int]c15aCfg
		}{{"A", ra}, {"B", rb}} {
			if !c15aSame(x.r[2], target) {
				sig := "apply:not-converged-after-three-rounds"
				// the known shape: the node is stuck, and every database that is not at its loaded config wants a
				// collection that another database, itself not at its loaded config, still holds on this node
				stuck := c15aSame(x.r[1], x.r[2])
				for d, want := range target {
					have, runs := x.r[2][d]
					if runs && have.Cas == want.Cas {
						continue
					}
					blocked := false
					for d2, other := range x.r[2] {
						if d2 != d && c15Inter(c15Eff(want.Colls), c15Eff(other.Colls)) && other.Cas != target[d2].Cas {
							blocked = true
						}
					}
					stuck = stuck && blocked
				}
				for d := range x.r[2] {
					if _, listed := target[d]; !listed {
						stuck = false
					}
				}
				if stuck {
					sig = "apply:never-converges-collection-held-by-stale-running-database"
				}
				h.rec.Fail("apply_converges", sig, desc, fmt.Sprintf("node %s runs [%s] but the registry lists [%s] (nothing was written during the last three polls)", x.n, c15aVersions(x.r[2]), c15aVersions(target)))
			}
		}
	}
	// clean up for the next scenario
	for _, d := range c15SortedKeys(target) {
		e.w.SendAdminRequest(http.MethodDelete, "/"+c15DBName(d)+"/", "")
	}
	for k := 0; k < 2; k++ {
		_, _ = e.a.ServerContext().fetchAndLoadConfigs(e.a.Context(), false)
		_, _ = e.b.ServerContext().fetchAndLoadConfigs(e.b.Context(), false)
	}
	if left := len(e.running(e.a)) + len(e.running(e.b)); left != 0 {
		h.rec.Fail("apply_loads", "apply:cleanup-left-databases", desc, fmt.Sprintf("%d databases still running after every database was deleted", left))
	}
}

func (h *c15Harness) applyStream(r *vRand) {
	t := h.t
	if !base.TestsUseNamedCollections() {
		h.rec.Extra("apply_stream", "skipped: no named collections")
		return
	}
	tb := base.GetTestBucket(t)
	defer tb.Close(h.ctx)
	stores := tb.GetNonDefaultDatastoreNames()
	if len(stores) < 3 {
		h.rec.Extra("apply_stream", "skipped: fewer than 3 named collections")
		return
	}
	group := fmt.Sprintf("c15apply%d", time.Now().UnixNano())
	mk := func() *RestTester {
		rt := NewRestTester(t, &RestTesterConfig{GroupID: &group, PersistentConfig: true, CustomTestBucket: tb.NoCloseClone()})
		_ = rt.ServerContext()
		return rt
	}
	e := &c15aEnv{h: h, tb: tb, group: group, scope: stores[0].ScopeName()}
	for i := 0; i < 3; i++ {
		e.colls = append(e.colls, stores[i].CollectionName())
	}
	e.w, e.a, e.b = mk(), mk(), mk()
	defer e.w.Close()
	defer e.a.Close()
	defer e.b.Close()

	I := func(d int, c ...int) c15aOp { return c15aOp{Kind: "ins", DB: d, Colls: c} }
	U := func(d int, c ...int) c15aOp { return c15aOp{Kind: "upd", DB: d, Colls: c} }
	D := func(d int) c15aOp { return c15aOp{Kind: "del", DB: d} }
	A, B := c15aOp{Kind: "pollA"}, c15aOp{Kind: "pollB"}
	corpus := []struct {
		name string
		ops  []c15aOp
	}{
		{"apply/basic", []c15aOp{I(1, 1), A, B, U(1, 1, 2), A, I(2, 3), A, B, D(1), A, B}},
		{"apply/lagging-node-jumps", []c15aOp{I(1, 1), U(1, 1, 2), U(1, 2), I(2, 1), B, D(2), D(1), I(3, 1, 2, 3), B}},
		// a collection moves from db1 to db2 while node B is not polling: one of the two orders refuses db2 once
		{"apply/collection-moves", []c15aOp{I(1, 1, 2), I(2, 3), A, B, U(1, 1), U(2, 2, 3), A, B}},
		{"apply/default-collection", []c15aOp{I(1), I(2, 1), A, B, D(1), I(3), A, B, U(2, 2), B}},
		{"apply/delete-and-recreate", []c15aOp{I(1, 1), A, B, D(1), I(1, 2), B, A}},
		// db1 and db2 swap their collections (through an intermediate version) while node B is not polling
		{"apply/collections-swapped", []c15aOp{I(1, 1), I(2, 2), A, B, U(1, 3), A, U(2, 1), A, U(1, 2), A}},
	}
	for _, c := range corpus {
		e.scenario("corpus", c.name, c.ops)
	}
	N := vBudget(25, 250)
	for it := 0; it < N; it++ {
		ops := []c15aOp{}
		n := 4 + r.Intn(6)
		for k := 0; k < n; k++ {
			d := 1 + r.Intn(3)
			colls := []int{}
			for c := 1; c <= 3; c++ {
				if r.Chance(40) {
					colls = append(colls, c)
				}
			}
			switch r.Intn(10) {
			case 0, 1, 2:
				ops = append(ops, I(d, colls...))
			case 3, 4, 5:
				ops = append(ops, U(d, colls...))
			case 6:
				ops = append(ops, D(d))
			case 7, 8:
				ops = append(ops, A)
			default:
				ops = append(ops, B)
			}
		}
		e.scenario("random", fmt.Sprintf("apply/random/%d", it), ops)
	}
	h.rec.Extra("apply_polls", e.nPolls)
	h.rec.Extra("apply_writes", e.nWrites)
}
