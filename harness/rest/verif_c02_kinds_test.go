//go:build verif

package rest

// C02, request KINDS (coq/theories/C02/Kinds.v): every way a non-administrator can ask about one document.
//
//   Coq cases (stream "kinds"; CKind = (user, document as the revision cache reports it, kind) -> what came back)
//     revs_diff          POST _revs_diff                                   (no authorisation: reader independent)
//     blip_changes_reply reply to a BLIP changes message (rev-tree protocol)   (no authorisation)
//     propose_changes    reply to a BLIP proposeChanges message, with and without conflictIncludesRev
//     open_revs_all / open_revs_list   GET doc?open_revs=all|[...]&revs=true: every entry with its ancestry
//     bulk_get_revs      POST _bulk_get?revs=true: every revision, the current one and an unknown one, with ancestry
//     get_revs           GET doc[?rev=]&revs=true  (thorough tier)
//     delta              DatabaseCollectionWithUser.GetDelta(from, to) as the user (community edition: the diff library is a
//                        stub, so "a delta was computed" is observed as ErrDeltasNotSupported from base.Diff)
//     get_rev            BLIP getRev
//     prove_attachment   CProve: BLIP proveAttachment on a fresh connection / while a rev message is outstanding
//   monitors
//     removed_stub_has_no_body      a stub ({"_removed":true} / a redacted tombstone) carries a property other than
//                                   _id _rev _removed _deleted _revisions _cv
//     negotiation_reader_independent  (recorded, not a failure) -- see shape counters
//     delta_source_authorised       GetDelta computes a delta against a source revision the user is not authorised for
//     prove_attachment_gate         a proof over the bytes of an attachment no revision visible to the user carries
//     channel_names_filtered        a channel name the user does not hold occurs in an _all_docs row / a _changes entry / _session
//     monitor-only surfaces         _local documents, _session, GET /db/, _design/_view, _raw/_revtree on the public port,
//                                   getCollections: raw-byte marker scan
//   shape counters (evidence "shape_disclosed_by_point_requests"): revision ids / existence of documents the user was
//   never granted, handed out by requests that NAME the document (by design of the push protocol; not a failure)

import (
	"bytes"
	"encoding/json"
	"fmt"
	"io"
	"mime"
	"mime/multipart"
	"sort"
	"strings"

	"github.com/couchbase/go-blip"
	"github.com/couchbase/sync_gateway/base"
	"github.com/couchbase/sync_gateway/db"
)

type c02Legacy struct {
	docID   string
	name    string
	content []byte
	digest  string
	id      uint64
	chans   []string
}

// ---------------------------------------------------------------- Coq terms

// (generation, digest) -- the digest is interned; a malformed id has generation 0
func (w *c02World) cqRid(rev string) string {
	gen, dig := 0, rev
	if i := strings.Index(rev, "-"); i > 0 {
		if n := c02Gen(rev); n > 0 {
			gen, dig = n, rev[i+1:]
		}
	}
	id, ok := w.digIDs[dig]
	if !ok {
		id = uint64(len(w.digIDs) + 1)
		w.digIDs[dig] = id
	}
	return fmt.Sprintf("(%d, %d)", gen, id)
}

func (w *c02World) cqRids(revs []string) string {
	out := make([]string, 0, len(revs))
	for _, r := range revs {
		out = append(out, w.cqRid(r))
	}
	return cqList(out)
}

// the document as the revision cache reports it right now (administrator view), with the tree the harness built
func (w *c02World) docTerm(d *c02Doc) string {
	if d == nil {
		return "None"
	}
	var nodes []string
	for _, r := range d.revs {
		par := "None"
		if r.parent != nil {
			par = "(Some " + w.cqRid(r.parent.id) + ")"
		}
		term, _ := w.observeRev(d.id, r.id, r)
		nodes = append(nodes, fmt.Sprintf("(mkNode %s %s %s %s %s)", w.cqRid(r.id), par, cqBool(r.leaf), term, w.cqChans(r.chans)))
	}
	return fmt.Sprintf("(Some (mkDoc %s %s))", cqList(nodes), w.cqRid(w.currentOf(d).id))
}

func (w *c02World) revOf(d *c02Doc, id string) *c02Rev {
	if d == nil {
		return nil
	}
	for _, r := range d.revs {
		if r.id == id {
			return r
		}
	}
	return nil
}

const c02NoView = "(mkAV %d (0, 0) false false false [] [])"

// one revision as it came over the wire (a 1.x JSON document)
func (w *c02World) aview(u *c02User, d *c02Doc, raw []byte, where, request string) string {
	var m map[string]any
	if err := json.Unmarshal(raw, &m); err != nil {
		return fmt.Sprintf(c02NoView, 999)
	}
	rev, _ := m["_rev"].(string)
	removed, _ := m["_removed"].(bool)
	deleted, _ := m["_deleted"].(bool)
	content := false
	target := w.revOf(d, rev)
	if target != nil && target.marker != "" && bytes.Contains(raw, []byte(target.marker)) {
		content = true
	}
	var atts []uint64
	if am, ok := m["_attachments"].(map[string]any); ok {
		for n := range am {
			atts = append(atts, w.attNameID(n))
		}
	}
	sort.Slice(atts, func(i, j int) bool { return atts[i] < atts[j] })
	var hist []string
	if rv, ok := m["_revisions"].(map[string]any); ok {
		start, _ := rv["start"].(float64)
		ids, _ := rv["ids"].([]any)
		for i, x := range ids {
			s, _ := x.(string)
			hist = append(hist, fmt.Sprintf("%d-%s", int(start)-i, s))
		}
	}
	// removal / tombstone shapes: a revision the user is not authorised for must be a bare stub
	if target != nil && !w.mayDisclose(u, target.chans) && !(target.hasWrong && w.mayDisclose(u, target.wrongChans)) {
		allowed := map[string]bool{"_id": true, "_rev": true, "_removed": true, "_deleted": true, "_revisions": true, "_cv": true}
		for k := range m {
			if !allowed[k] {
				w.e.fail("removed_stub_has_no_body", where, map[string]any{"world": w.tag, "named_collection": w.named, "user": u.name, "user_channels": c02Keys(w.effective(u)),
					"doc": d.id, "rev": rev, "rev_channels": target.chans, "request": request, "property": k},
					"a revision the user is not authorised for was answered with more than a bare stub: "+c02Short(raw))
			}
		}
		w.e.stubs++
	}
	return fmt.Sprintf("(mkAV 0 %s %s %s %s %s %s)", w.cqRid(rev), cqBool(content), cqBool(removed), cqBool(deleted), cqNList(atts), w.cqRids(hist))
}

func (w *c02World) kindCase(kind string, u *c02User, d *c02Doc, docID string, k, obs, request string, nontrivial bool, extra map[string]any) {
	user := "(mkUser (mkRole [] []) [])"
	uname := "-"
	if u != nil {
		user, uname = w.cqUser(u), u.name
	}
	coq := fmt.Sprintf("CKind %s %s %s %s %s", cqBool(w.named), user, w.docTerm(d), k, obs)
	pass := "warm"
	if w.cold {
		pass = "cold"
	}
	if w.emitted[coq] {
		w.e.rec.Count("kinds", kind, uname+"|"+docID+"|"+k+"|"+pass, false)
		return
	}
	w.emitted[coq] = true
	in := map[string]any{"world": w.tag, "named_collection": w.named, "user": uname, "doc": docID, "kind": k, "request": request, "cache": pass, "observed": obs}
	if u != nil {
		in["user_channels"] = c02Keys(w.effective(u))
	}
	if d != nil {
		in["history"] = w.describe(d)
	}
	for key, v := range extra {
		in[key] = v
	}
	w.e.rec.Case("kinds", kind, coq, in, nontrivial)
}

// a request that names a document the user was never granted told something about its revision tree
func (w *c02World) shape(u *c02User, d *c02Doc, what string) {
	if d != nil && !w.everVisible(u, d) {
		w.e.shapeN[what]++
	}
}

// answers of a negotiation kind must not depend on who asks
func (w *c02World) sameForAll(kind, key, obs string, u *c02User, request string) {
	pass := "warm"
	if w.cold {
		pass = "cold"
	}
	k := kind + "|" + key + "|" + pass
	if prev, ok := w.negFirst[k]; ok && prev != obs {
		w.e.fail("negotiation_reader_independent", kind, map[string]any{"world": w.tag, "user": u.name, "request": request, "observed": obs, "other_reader_observed": prev},
			"a negotiation request was answered differently for two readers")
	} else if !ok {
		w.negFirst[k] = obs
	}
}

// a revision id that exists nowhere
func c02Fab(gen int, tag string) string {
	return fmt.Sprintf("%d-fab%s%s", gen, tag, strings.Repeat("0", 29-len(tag)))
}

type c02Ask struct {
	name  string
	asked func(d *c02Doc) []string
}

func (w *c02World) askVariants(quick bool) []c02Ask {
	leaves := func(d *c02Doc) []string {
		var out []string
		for _, r := range d.revs {
			if r.leaf {
				out = append(out, r.id)
			}
		}
		return out
	}
	curGen := func(d *c02Doc) int { return c02Gen(w.currentOf(d).id) }
	vs := []c02Ask{
		{"known-current", func(d *c02Doc) []string { return []string{w.currentOf(d).id} }},
		{"next-generation", func(d *c02Doc) []string { return []string{c02Fab(curGen(d)+1, "1")} }},
		{"same-generation", func(d *c02Doc) []string { return []string{c02Fab(curGen(d), "2")} }},
		{"first-generation", func(d *c02Doc) []string { return []string{c02Fab(1, "3")} }},
		{"leaves+next", func(d *c02Doc) []string { return append(leaves(d), c02Fab(curGen(d)+1, "4")) }},
	}
	if !quick {
		vs = append(vs,
			c02Ask{"far-generation", func(d *c02Doc) []string { return []string{c02Fab(curGen(d)+150, "5")} }},
			c02Ask{"root+two-unknown", func(d *c02Doc) []string { return []string{d.revs[0].id, c02Fab(2, "6"), c02Fab(curGen(d)+2, "7")} }},
			c02Ask{"malformed", func(d *c02Doc) []string { return []string{"nonsense", c02Fab(curGen(d)+1, "8")} }},
		)
	}
	return vs
}

// POST _revs_diff: one request per variant covering every document of the world and one that does not exist
func (w *c02World) revsDiff(u *c02User, quick bool) {
	ghost := "NOSUCH" + w.tag + "docZ"
	for _, v := range w.askVariants(quick) {
		req := map[string][]string{ghost: {c02Fab(2, "9")}}
		for _, d := range w.docs {
			req[d.id] = v.asked(d)
		}
		body, _ := json.Marshal(req)
		p := "/{{.keyspace}}/_revs_diff"
		resp := w.userReq(u, "POST", p, string(body), nil)
		w.scan(u, "revs_diff", v.name, "POST "+p+" "+c02Short(body), resp.raw, false)
		if resp.code != 200 {
			w.e.fail("kinds_request", "revs_diff", map[string]any{"user": u.name, "status": resp.code}, "unexpected status: "+c02Short(resp.body))
			continue
		}
		var parsed map[string]struct {
			Missing  []string `json:"missing"`
			Possible []string `json:"possible_ancestors"`
		}
		if err := json.Unmarshal(resp.body, &parsed); err != nil {
			w.e.fail("kinds_request", "revs_diff-parse", map[string]any{"user": u.name}, "unparsable: "+c02Short(resp.body))
			continue
		}
		one := func(d *c02Doc, docID string, asked []string) {
			got := parsed[docID]
			sort.Strings(got.Possible)
			obs := fmt.Sprintf("(ODiff %s %s)", w.cqRids(got.Missing), w.cqRids(got.Possible))
			request := fmt.Sprintf("POST %s {%q: %v}", p, docID, asked)
			w.sameForAll("revs_diff", docID+"|"+v.name, obs, u, request)
			if len(got.Possible) > 0 || (d != nil && len(got.Missing) < len(asked)) {
				w.shape(u, d, "revs_diff: known revisions / possible ancestors of a never-granted document")
			}
			w.kindCase("revs_diff", nil, d, docID, "(KRevsDiff "+w.cqRids(asked)+")", obs, request, d == nil || len(got.Possible) > 0, map[string]any{"asked": asked, "variant": v.name})
		}
		for _, d := range w.docs {
			one(d, d.id, v.asked(d))
		}
		one(nil, ghost, []string{c02Fab(2, "9")})
	}
}

func c02Parts(resp *c02Resp) [][]byte {
	_, params, err := mime.ParseMediaType(resp.hdr.Get("Content-Type"))
	if err != nil || params["boundary"] == "" {
		return nil
	}
	mr := multipart.NewReader(bytes.NewReader(resp.body), params["boundary"])
	var out [][]byte
	for {
		part, err := mr.NextPart()
		if err != nil {
			break
		}
		b, _ := io.ReadAll(part)
		out = append(out, b)
	}
	return out
}

func c02ErrView(raw []byte) string {
	var m struct {
		Status int    `json:"status"`
		Reason string `json:"reason"`
	}
	_ = json.Unmarshal(raw, &m)
	code := m.Status
	if code == 404 && m.Reason == "deleted" {
		code = 410
	}
	return fmt.Sprintf(c02NoView, code)
}

// open_revs (all / the explicit list) and _bulk_get with revs=true: every entry with its ancestry
func (w *c02World) historyReads(u *c02User, d *c02Doc, quick bool) {
	base0 := "/{{.keyspace}}/" + d.id
	var all []string
	for _, r := range d.revs {
		all = append(all, r.id)
	}
	unknown := c02Fab(c02Gen(w.currentOf(d).id)+1, "a")
	specs := []struct {
		name, query, term string
		revs              bool
	}{
		{"open_revs_all", "open_revs=all&revs=true", "(KOpenRevs None true)", true},
	}
	if !quick || !w.cold {
		lj, _ := json.Marshal(append(append([]string{}, all...), unknown))
		specs = append(specs, struct {
			name, query, term string
			revs              bool
		}{"open_revs_list", "open_revs=" + c02Q(string(lj)), "(KOpenRevs (Some " + w.cqRids(append(append([]string{}, all...), unknown)) + ") false)", false})
	}
	for _, sp := range specs {
		p := base0 + "?" + sp.query
		resp := w.userReq(u, "GET", p, "", nil)
		w.scan(u, sp.name, "revs", "GET "+p, resp.raw, false)
		obs := "(OAns None)"
		if resp.code == 200 {
			var entries []map[string]json.RawMessage
			if err := json.Unmarshal(resp.body, &entries); err != nil {
				w.e.fail("kinds_request", sp.name+"-parse", map[string]any{"user": u.name, "request": p}, "unparsable: "+c02Short(resp.body))
				continue
			}
			var vs []string
			for _, e := range entries {
				if ok, has := e["ok"]; has {
					vs = append(vs, w.aview(u, d, ok, sp.name, "GET "+p))
				} else {
					var rev string
					_ = json.Unmarshal(e["missing"], &rev)
					vs = append(vs, fmt.Sprintf("(mkAV 4 %s false false false [] [])", w.cqRid(rev)))
				}
			}
			obs = "(OAns (Some " + cqList(vs) + "))"
			if sp.name == "open_revs_all" {
				w.shape(u, d, "open_revs=all: the leaf revision ids of a never-granted document")
			}
		} else if resp.code != 404 {
			obs = fmt.Sprintf("(OAns (Some [%s]))", fmt.Sprintf(c02NoView, resp.code))
		}
		w.kindCase(sp.name, u, d, d.id, sp.term, obs, "GET "+p, !w.everVisible(u, d) || len(d.revs) > 1, nil)
	}
	if w.cold && quick {
		return
	}
	// _bulk_get?revs=true: every revision by id, an unknown one, and the current one
	type item struct {
		rev  string
		term string
	}
	var items []item
	var docs []string
	for _, r := range append(append([]string{}, all...), unknown) {
		items = append(items, item{r, "(KGet (Some " + w.cqRid(r) + ") true)"})
		docs = append(docs, fmt.Sprintf(`{"id":%q,"rev":%q}`, d.id, r))
	}
	items = append(items, item{"", "(KGet None true)"})
	docs = append(docs, fmt.Sprintf(`{"id":%q}`, d.id))
	body := `{"docs":[` + strings.Join(docs, ",") + `]}`
	p := "/{{.keyspace}}/_bulk_get?revs=true"
	resp := w.userReq(u, "POST", p, body, map[string]string{"Accept": "multipart/mixed"})
	w.scan(u, "bulk_get_revs", "revs", "POST "+p+" "+body, resp.raw, false)
	parts := c02Parts(resp)
	if resp.code != 200 || len(parts) != len(items) {
		w.e.fail("kinds_request", "bulk_get_revs", map[string]any{"user": u.name, "status": resp.code, "parts": len(parts), "entries": len(items)}, "unexpected _bulk_get response: "+c02Short(resp.body))
		return
	}
	for i, it := range items {
		raw := parts[i]
		var v string
		if bytes.Contains(raw, []byte(`"error"`)) && bytes.Contains(raw, []byte(`"status"`)) {
			v = c02ErrView(raw)
		} else {
			v = w.aview(u, d, raw, "bulk_get_revs", "POST "+p+" "+docs[i])
		}
		target := w.revOf(d, it.rev)
		w.kindCase("bulk_get_revs", u, d, d.id, it.term, "(OAns (Some ["+v+"]))", "POST "+p+" "+docs[i], target == nil || !w.mayDisclose(u, target.chans) || !target.current, nil)
	}
	if quick {
		return
	}
	// GET doc[?rev=]&revs=true
	get := func(rev, term string) {
		p := base0 + "?revs=true"
		if rev != "" {
			p += "&rev=" + rev
		}
		resp := w.userReq(u, "GET", p, "", nil)
		w.scan(u, "get_revs", "revs", "GET "+p, resp.raw, false)
		var v string
		switch {
		case resp.code == 200:
			v = w.aview(u, d, resp.body, "get_revs", "GET "+p)
		case resp.code == 404 && bytes.Contains(resp.body, []byte(`"reason":"deleted"`)):
			v = fmt.Sprintf(c02NoView, 410)
		default:
			v = fmt.Sprintf(c02NoView, resp.code)
		}
		w.kindCase("get_revs", u, d, d.id, term, "(OAns (Some ["+v+"]))", "GET "+p, true, nil)
	}
	get("", "(KGet None true)")
	for _, r := range all {
		get(r, "(KGet (Some "+w.cqRid(r)+") true)")
	}
}

// DatabaseCollectionWithUser.GetDelta as the user.  In the community edition base.Diff is a stub returning
// ErrDeltasNotSupported: seeing that error means both bodies were handed to the diff library.
func (w *c02World) deltas(u *c02User, d *c02Doc) {
	if len(d.revs) < 2 {
		return
	}
	col, ctx := w.rt.GetSingleTestDatabaseCollection()
	user, err := w.rt.GetDatabase().Authenticator(ctx).GetUser(u.name)
	if err != nil || user == nil {
		return
	}
	database, err := db.GetDatabase(w.rt.GetDatabase(), user)
	if err != nil {
		return
	}
	cwu, err := database.GetDatabaseCollectionWithUser(col.ScopeName, col.Name)
	if err != nil {
		return
	}
	// GetDelta counts cache hits / misses in the delta-sync statistics, which exist only when delta sync is enabled
	// (it cannot be in this build); give it the counters it would have
	if dbs := w.rt.GetDatabase().DbStats; dbs.DeltaSyncStats == nil {
		if err := dbs.InitDeltaSyncStats(); err != nil {
			return
		}
	}
	for _, to := range d.revs {
		if !to.leaf {
			continue // the target is loaded without its backup: only leaves are dependable
		}
		for _, from := range d.revs {
			if from == to {
				continue
			}
			if w.cold {
				w.rt.GetDatabase().FlushRevisionCacheForTest()
			}
			delta, redacted, err := cwu.GetDelta(ctx, d.id, from.id, to.id)
			w.e.nreq++
			cls := 1
			switch {
			case err == base.ErrDeltasNotSupported:
				cls = 7
			case err == base.ErrDeltaSourceIsTombstone:
				cls = 3
			case err == db.ErrMissing:
				cls = 2
			case err != nil:
				cls = 1
			case redacted != nil && redacted.Deleted:
				cls = 5
			case redacted != nil:
				cls = 4
			case delta != nil && delta.ToDeleted:
				cls = 6
			case delta != nil:
				cls = 7
			default:
				cls = 0
			}
			request := fmt.Sprintf("GetDelta(%s, from=%s, to=%s) as %s", d.id, from.id, to.id, u.name)
			if redacted != nil {
				w.scan(u, "delta", "redacted", request, redacted.BodyBytes, false)
			}
			if delta != nil {
				w.scan(u, "delta", "delta", request, delta.DeltaBytes, false)
			}
			if (cls == 7 || cls == 6) && !w.mayDisclose(u, to.chans) && !(to.hasWrong && w.mayDisclose(u, to.wrongChans)) {
				w.e.fail("delta_target_authorised", "delta-target-revision-not-authorised", map[string]any{"world": w.tag, "named_collection": w.named, "user": u.name,
					"user_channels": c02Keys(w.effective(u)), "doc": d.id, "from": from.id, "to": to.id, "to_channels": to.chans, "history": w.describe(d)},
					"GetDelta produced a delta towards a revision the user is not authorised for")
			}
			if cls == 7 && !w.mayDisclose(u, from.chans) && !(from.hasWrong && w.mayDisclose(u, from.wrongChans)) {
				w.e.fail("delta_source_authorised", "delta-source-revision-not-authorised", map[string]any{"world": w.tag, "named_collection": w.named, "user": u.name,
					"user_channels": c02Keys(w.effective(u)), "doc": d.id, "from": from.id, "from_channels": from.chans, "to": to.id, "to_channels": to.chans, "history": w.describe(d)},
					"GetDelta hands the body of a source revision the user is not authorised for to the diff library (community edition: base.Diff is a stub and "+
						"returns ErrDeltasNotSupported; the enterprise edition returns the delta, which names the properties of the source that the target dropped)")
			}
			w.kindCase("delta", u, d, d.id, fmt.Sprintf("(KDelta %s %s)", w.cqRid(from.id), w.cqRid(to.id)), fmt.Sprintf("(ODelta %d)", cls), request,
				!w.mayDisclose(u, from.chans) || !w.mayDisclose(u, to.chans), map[string]any{"from_channels": from.chans, "to_channels": to.chans})
		}
	}
}

// ---------------------------------------------------------------- BLIP: changes reply, proposeChanges reply, getRev, proveAttachment

func (w *c02World) blipAsk(bt *BlipTester, profile string, props map[string]string, body []byte) (*blip.Message, []byte, bool) {
	rq := blip.NewRequest()
	rq.SetProfile(profile)
	for k, v := range props {
		rq.Properties[k] = v
	}
	bt.addCollectionProperty(rq)
	if body != nil {
		rq.SetBody(body)
	}
	if !bt.sender.Send(rq) {
		return nil, nil, false
	}
	w.e.nreq++
	resp := rq.Response()
	b, _ := resp.Body()
	return resp, b, true
}

func (w *c02World) blipKinds(u *c02User, quick bool) {
	if w.cold {
		w.rt.GetDatabase().FlushRevisionCacheForTest()
	}
	bt, err := createBlipTesterWithSpec(w.rt, BlipTesterSpec{connectingUsername: u.name, blipProtocols: []string{db.CBMobileReplicationV3.SubprotocolString()}})
	if err != nil {
		w.e.fail("blip_connect", "connect", map[string]any{"user": u.name}, err.Error())
		return
	}
	bt.avoidRestTesterClose = true
	defer bt.Close()
	ghost := "NOSUCH" + w.tag + "docZ"

	// changes (the client announces revisions it would push): "0" known, otherwise possible ancestors
	for _, v := range w.askVariants(quick) {
		type ent struct {
			d     *c02Doc
			docID string
			rev   string
		}
		var ents []ent
		var rows [][]any
		for _, d := range w.docs {
			a := v.asked(d)
			ents = append(ents, ent{d, d.id, a[len(a)-1]})
		}
		ents = append(ents, ent{nil, ghost, c02Fab(2, "9")})
		for i, e := range ents {
			rows = append(rows, []any{i + 1, e.docID, e.rev})
		}
		body, _ := json.Marshal(rows)
		resp, rb, ok := w.blipAsk(bt, "changes", nil, body)
		if !ok || resp.Type() == blip.ErrorType {
			w.e.fail("kinds_request", "blip_changes", map[string]any{"user": u.name, "props": fmt.Sprint(resp)}, "changes message refused: "+c02Short(rb))
			break
		}
		w.scan(u, "blip_changes_reply", v.name, "changes "+c02Short(body), rb, false)
		var reply []json.RawMessage
		if err := json.Unmarshal(rb, &reply); err != nil || len(reply) != len(ents) {
			w.e.fail("kinds_request", "blip_changes-parse", map[string]any{"user": u.name}, "unparsable changes reply: "+c02Short(rb))
			continue
		}
		for i, e := range ents {
			obs := "(OReply None)"
			var poss []string
			if string(reply[i]) != "0" {
				_ = json.Unmarshal(reply[i], &poss)
				sort.Strings(poss)
				obs = "(OReply (Some " + w.cqRids(poss) + "))"
			}
			request := fmt.Sprintf("changes [[%d,%q,%q]]", i+1, e.docID, e.rev)
			w.sameForAll("blip_changes_reply", e.docID+"|"+v.name, obs, u, request)
			if len(poss) > 0 || (e.d != nil && string(reply[i]) == "0") {
				w.shape(u, e.d, "changes reply: known revision / possible ancestors of a never-granted document")
			}
			w.kindCase("blip_changes_reply", nil, e.d, e.docID, "(KChangesReply "+w.cqRid(e.rev)+")", obs, request, e.d == nil || len(poss) > 0, map[string]any{"variant": v.name})
		}
	}

	// proposeChanges
	type prop struct {
		name   string
		rev    func(d *c02Doc) string
		parent func(d *c02Doc) string
	}
	cur := func(d *c02Doc) string { return w.currentOf(d).id }
	next := func(d *c02Doc) string { return c02Fab(c02Gen(cur(d))+1, "b") }
	pvs := []prop{
		{"child-of-current", next, cur},
		{"is-current", cur, func(d *c02Doc) string { return "" }},
		{"no-parent", next, func(d *c02Doc) string { return "" }},
		{"stale-parent", next, func(d *c02Doc) string { return d.revs[0].id }},
	}
	for _, incl := range []bool{false, true} {
		for _, v := range pvs {
			type ent struct {
				d                  *c02Doc
				docID, rev, parent string
			}
			var ents []ent
			var rows [][]any
			for _, d := range w.docs {
				ents = append(ents, ent{d, d.id, v.rev(d), v.parent(d)})
			}
			ents = append(ents, ent{nil, ghost, c02Fab(1, "c"), ""})
			for _, e := range ents {
				if e.parent == "" {
					rows = append(rows, []any{e.docID, e.rev})
				} else {
					rows = append(rows, []any{e.docID, e.rev, e.parent})
				}
			}
			body, _ := json.Marshal(rows)
			props := map[string]string{}
			if incl {
				props[db.ProposeChangesConflictsIncludeRev] = "true"
			}
			resp, rb, ok := w.blipAsk(bt, "proposeChanges", props, body)
			if !ok || resp.Type() == blip.ErrorType {
				w.e.fail("kinds_request", "propose_changes", map[string]any{"user": u.name}, "proposeChanges refused: "+c02Short(rb))
				break
			}
			w.scan(u, "propose_changes", v.name, "proposeChanges "+c02Short(body), rb, false)
			var reply []json.RawMessage
			if err := json.Unmarshal(rb, &reply); err != nil {
				w.e.fail("kinds_request", "propose_changes-parse", map[string]any{"user": u.name}, "unparsable proposeChanges reply: "+c02Short(rb))
				continue
			}
			for i, e := range ents {
				status, curRev := 0, ""
				if i < len(reply) {
					var obj struct {
						Status int    `json:"status"`
						Rev    string `json:"rev"`
					}
					if err := json.Unmarshal(reply[i], &obj); err == nil && obj.Status != 0 {
						status, curRev = obj.Status, obj.Rev
					} else {
						_ = json.Unmarshal(reply[i], &status)
					}
				}
				c := "None"
				if curRev != "" {
					c = "(Some " + w.cqRid(curRev) + ")"
				}
				par := "None"
				if e.parent != "" {
					par = "(Some " + w.cqRid(e.parent) + ")"
				}
				obs := fmt.Sprintf("(OStatus %d %s)", status, c)
				request := fmt.Sprintf("proposeChanges [[%q,%q,%q]] conflictIncludesRev=%v", e.docID, e.rev, e.parent, incl)
				w.sameForAll("propose_changes", fmt.Sprintf("%s|%s|%v", e.docID, v.name, incl), obs, u, request)
				if status != 0 {
					w.shape(u, e.d, "proposeChanges reply: existence / current revision id of a never-granted document")
				}
				w.kindCase("propose_changes", nil, e.d, e.docID, fmt.Sprintf("(KPropose %s %s %s)", w.cqRid(e.rev), par, cqBool(incl)), obs, request, status != 0, map[string]any{"variant": v.name})
			}
		}
	}

	// getRev (connected-client read of the current revision)
	for _, d := range w.docs {
		resp, rb, ok := w.blipAsk(bt, db.MessageGetRev, map[string]string{db.GetRevMessageId: d.id}, nil)
		if !ok {
			break
		}
		raw := []byte(fmt.Sprintf("%v\n%s", resp.Properties, rb))
		w.scan(u, "blip_getRev", "plain", "getRev "+d.id, raw, false)
		var v string
		if resp.Type() == blip.ErrorType {
			code := 0
			_, _ = fmt.Sscanf(resp.Properties["Error-Code"], "%d", &code)
			if code == 404 && strings.Contains(string(rb), "eleted") {
				code = 410
			}
			v = fmt.Sprintf(c02NoView, code)
		} else {
			// the body carries no _rev: the revision id travels as a property
			cur := w.currentOf(d)
			var m map[string]any
			_ = json.Unmarshal(rb, &m)
			var atts []uint64
			if am, ok := m["_attachments"].(map[string]any); ok {
				for n := range am {
					atts = append(atts, w.attNameID(n))
				}
			}
			sort.Slice(atts, func(i, j int) bool { return atts[i] < atts[j] })
			v = fmt.Sprintf("(mkAV 0 %s %s false false %s [])", w.cqRid(resp.Properties[db.GetRevRevId]), cqBool(cur.marker != "" && bytes.Contains(rb, []byte(cur.marker))), cqNList(atts))
		}
		w.kindCase("get_rev", u, d, d.id, "KGetRev", "(OAns (Some ["+v+"]))", "getRev "+d.id, !w.mayDisclose(u, w.currentOf(d).chans) || w.currentOf(d).deleted, nil)
	}

	// getCollections: checkpoints only (scan)
	if w.named {
		col, _ := w.rt.GetSingleTestDatabaseCollection()
		body := fmt.Sprintf(`{"checkpoint_ids":["c02"],"collections":["%s.%s"]}`, col.ScopeName, col.Name)
		if resp, rb, ok := w.blipAsk(bt, db.MessageGetCollections, nil, []byte(body)); ok {
			w.scan(u, "blip_getCollections", "plain", "getCollections "+body, []byte(fmt.Sprintf("%v\n%s", resp.Properties, rb)), true)
		}
	}

	// proveAttachment on a connection on which nothing was sent
	w.proveAll(bt, u, true, nil, "fresh-connection")
}

// proveAttachment for every attachment of the world (and the legacy one); pre = the connection's trace so far
func (w *c02World) proveAll(bt *BlipTester, u *c02User, v3 bool, pre []string, when string) {
	_, ctx := w.rt.GetSingleTestDatabaseCollection()
	type cand struct {
		docID, digest, what string
		content             []byte
		id                  uint64
		chans               [][]string
	}
	var cands []cand
	seen := map[uint64]bool{}
	for _, r := range w.revs {
		for _, a := range r.atts {
			if a.digest == "" || seen[a.id] {
				continue
			}
			seen[a.id] = true
			c := cand{docID: r.doc.id, digest: a.digest, what: fmt.Sprintf("attachment %s of %s", a.name, r.doc.id), content: []byte(a.content), id: a.id}
			for _, r2 := range w.revs {
				for _, a2 := range r2.atts {
					if a2 == a {
						c.chans = append(c.chans, r2.chans)
					}
				}
			}
			cands = append(cands, c)
		}
	}
	legacy := "[]"
	if w.legacy != nil {
		legacy = fmt.Sprintf("[%d]", w.legacy.id)
		cands = append(cands, cand{docID: w.legacy.docID, digest: w.legacy.digest, what: "legacy attachment " + w.legacy.name + " of " + w.legacy.docID, content: w.legacy.content, id: w.legacy.id, chans: [][]string{w.legacy.chans}})
	}
	for _, c := range cands {
		nonce := []byte(fmt.Sprintf("nonce-%s-%d", w.tag, c.id))
		resp, rb, ok := w.blipAsk(bt, db.MessageProveAttachment, map[string]string{db.ProveAttachmentDigest: c.digest}, nonce)
		if !ok {
			return
		}
		proof := db.ProveAttachment(ctx, c.content, nonce)
		obs := "None"
		served := resp.Type() != blip.ErrorType && string(rb) == proof
		switch {
		case served:
			obs = "(Some true)"
		case resp.Type() == blip.ErrorType && resp.Properties["Error-Code"] == "404":
			obs = "(Some false)"
		}
		visible := false
		for _, cs := range c.chans {
			if w.mayDisclose(u, cs) {
				visible = true
			}
		}
		if served && !visible {
			sig := "proof-for-attachment-of-no-visible-revision"
			if w.legacy != nil && c.id == w.legacy.id {
				sig = "legacy-attachment-proof-without-visible-revision"
			}
			w.e.fail("prove_attachment_gate", sig, map[string]any{"world": w.tag, "named_collection": w.named, "user": u.name, "user_channels": c02Keys(w.effective(u)),
				"digest": c.digest, "attachment": c.what, "channels_of_revisions_carrying_it": c.chans, "when": when},
				"proveAttachment returned a proof computed over the bytes of an attachment that no revision visible to the user carries (handleProveAttachment "+
					"does not test the allow-list counter and falls back to the collection-wide legacy attachment key)")
		}
		coq := fmt.Sprintf("CProve %s %s %s %s %s %d %s", cqBool(v3), cqBool(w.named), w.cqUser(u), cqList(pre), legacy, c.id, obs)
		if w.emitted[coq] {
			w.e.rec.Count("kinds", "prove_attachment", u.name+"|"+c.digest+"|"+when, false)
			continue
		}
		w.emitted[coq] = true
		w.e.rec.Case("kinds", "prove_attachment", coq, map[string]any{"world": w.tag, "user": u.name, "user_channels": c02Keys(w.effective(u)), "attachment": c.what, "digest": c.digest,
			"when": when, "protocol_v3": v3, "observed": obs}, true)
	}
}

// ---------------------------------------------------------------- monitor-only surfaces

func (w *c02World) otherSurfaces(u *c02User) {
	eff := w.effective(u)
	// _local documents are not in any channel: readable by every user of the database (by design); they must not
	// carry anything of a channel document
	p := "/{{.keyspace}}/_local/c02" + w.tag
	resp := w.userReq(u, "GET", p, "", nil)
	w.scan(u, "local_doc", "get", "GET "+p, resp.raw, true)
	if resp.code == 200 {
		w.e.shapeN["_local document written by another user is readable (not channel data; by design)"]++
	}
	for _, p := range []string{"/{{.db}}/_session", "/{{.db}}/", "/", "/{{.db}}/_design/sync_gateway", "/{{.db}}/_design/sync_gateway/_view/channels",
		"/{{.keyspace}}/_raw/" + w.docs[0].id, "/{{.keyspace}}/_revtree/" + w.docs[0].id, "/{{.db}}/_user/" + w.users[0].name, "/{{.db}}/_role/", "/{{.keyspace}}/_dumpchannel/D"} {
		resp := w.userReq(u, "GET", p, "", nil)
		w.scan(u, "other", p, "GET "+p, resp.raw, true)
		if strings.HasSuffix(p, "_session") && resp.code == 200 {
			var m struct {
				UserCtx struct {
					Channels map[string]any `json:"channels"`
				} `json:"userCtx"`
			}
			_ = json.Unmarshal(resp.body, &m)
			for c := range m.UserCtx.Channels {
				if !eff[c] && !eff["*"] {
					w.e.fail("channel_names_filtered", "session", map[string]any{"world": w.tag, "user": u.name, "user_channels": c02Keys(eff), "channel": c}, "_session names a channel the user does not hold: "+c02Short(resp.body))
				}
			}
		}
		if (strings.Contains(p, "_raw/") || strings.Contains(p, "_revtree/") || strings.Contains(p, "_user/") || strings.Contains(p, "_role/") || strings.Contains(p, "_dumpchannel/") || strings.Contains(p, "_view/")) && resp.code == 200 {
			w.e.fail("no_disclosure", "admin-endpoint-on-public-port", map[string]any{"world": w.tag, "user": u.name, "request": p}, "an administrator-only endpoint answered a user: "+c02Short(resp.body))
		}
	}
	// channel names in a changes feed entry ("removed") are channels of the user
	p = "/{{.keyspace}}/_changes?since=0"
	resp = w.userReq(u, "GET", p, "", nil)
	var parsed struct {
		Results []c02Change `json:"results"`
	}
	if resp.code == 200 && json.Unmarshal(resp.body, &parsed) == nil {
		for _, ch := range parsed.Results {
			for _, c := range ch.Removed {
				if !eff[c] && !eff["*"] {
					w.e.fail("channel_names_filtered", "changes-removed", map[string]any{"world": w.tag, "user": u.name, "user_channels": c02Keys(eff), "doc": ch.ID, "channel": c}, "a changes entry names a channel the user does not hold")
				}
			}
		}
	}
}

// ---------------------------------------------------------------- a document with a legacy (pre-2.5 key) attachment

func (w *c02World) addLegacy() {
	col, ctx := w.rt.GetSingleTestDatabaseCollectionWithUser()
	w.e.attN++
	l := &c02Legacy{docID: "LEG" + w.tag + "docZ", name: "legacy.bin", content: []byte(fmt.Sprintf("LEGACYATT%sn%04dQQQ", w.tag, w.e.attN)), id: 100000 + w.e.attN, chans: []string{"D"}}
	l.digest = db.Sha1DigestKey(l.content)
	CreateLegacyAttachmentDoc(w.e.t, ctx, col, l.docID, []byte(`{"chans":["D"],"legacy":true}`), l.name, l.content)
	w.legacy = l
}

// ---------------------------------------------------------------- per user entry point

func (w *c02World) kinds(u *c02User, quick bool) {
	w.revsDiff(u, quick)
	for _, d := range w.docs {
		w.historyReads(u, d, quick)
		if !w.cold || !quick {
			w.deltas(u, d)
		}
	}
	w.blipKinds(u, quick)
	if !w.cold {
		w.otherSurfaces(u)
	}
}
