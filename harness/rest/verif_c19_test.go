//go:build verif

package rest

// C19 -- Document bodies come back exactly as written on every path.
//
// Streams:
//   inject    base.InjectJSONPropertiesFromBytes / InjectJSONProperties on (text, kv list): corpus,
//             bounded-exhaustive over a small alphabet of object texts x kv lists, seeded random.
//             Coq cases (byte-exact) + monitors (result parses, old members untouched, new appended).
//   strip     db.StripInternalProperties on key sets.  Coq cases + monitor.
//   reserved  every write path x reserved / look-alike key x value kind, end to end.  Coq cases
//             (outcome = rejected(status) | stored(member kinds)) + monitors.
//   fidelity  generated JSON objects x write paths x read paths, monitor only (oracle: same JSON value,
//             numbers as normalised decimals, minus the reserved properties the gateway adds).
//   blank     the end-to-end reproduction of the whitespace-only object defect.

import (
	"bytes"
	"encoding/json"
	"fmt"
	"io"
	"math/big"
	"mime"
	"mime/multipart"
	"reflect"
	"sort"
	"strings"
	"sync"
	"testing"
	"time"

	"github.com/couchbase/go-blip"
	"github.com/couchbase/sync_gateway/base"
	"github.com/couchbase/sync_gateway/db"
)

// ---------------------------------------------------------------- JSON oracle

func c19Decode(text []byte) (any, error) {
	dec := json.NewDecoder(bytes.NewReader(text))
	dec.UseNumber()
	var v any
	if err := dec.Decode(&v); err != nil {
		return nil, err
	}
	var extra any
	if err := dec.Decode(&extra); err != io.EOF {
		return nil, fmt.Errorf("trailing data after JSON value")
	}
	return v, nil
}

// numbers compared as normalised decimals: exact rational value, sign of zero kept
func c19NormNum(s string) string {
	r, ok := new(big.Rat).SetString(s)
	if !ok {
		return "?" + s
	}
	if r.Sign() == 0 {
		if strings.HasPrefix(s, "-") {
			return "#-0"
		}
		return "#0"
	}
	return "#" + r.RatString()
}

func c19Norm(v any) any {
	switch x := v.(type) {
	case map[string]any:
		m := make(map[string]any, len(x))
		for k, e := range x {
			m[k] = c19Norm(e)
		}
		return m
	case []any:
		a := make([]any, len(x))
		for i, e := range x {
			a[i] = c19Norm(e)
		}
		return a
	case json.Number:
		return c19NormNum(string(x))
	default:
		return v
	}
}

// reserved properties the gateway adds to a 1.x style body on read
var c19ReadAdds = []string{"_id", "_rev", "_cv", "_revisions"}

func c19StripAdded(v any) any {
	m, ok := v.(map[string]any)
	if !ok {
		return v
	}
	out := make(map[string]any, len(m))
	for k, e := range m {
		skip := false
		for _, r := range c19ReadAdds {
			if k == r {
				skip = true
			}
		}
		if !skip {
			out[k] = e
		}
	}
	return out
}

func c19DecodeObj(text []byte) (map[string]any, bool) {
	v, err := c19Decode(text)
	if err != nil {
		return nil, false
	}
	m, ok := v.(map[string]any)
	return m, ok
}

func c19Short(b []byte) string {
	if len(b) > 300 {
		return string(b[:300]) + "..."
	}
	return string(b)
}

// ---------------------------------------------------------------- JSON generator

type c19V struct {
	k    byte // n t f # s a o
	lit  string
	arr  []*c19V
	keys []string
	vals []*c19V
}

var c19Numbers = []string{"0", "-0", "1", "-1", "42", "9007199254740991", "9007199254740992", "9007199254740993",
	"-9007199254740993", "9223372036854775807", "9223372036854775808", "-9223372036854775809", "18446744073709551615",
	"18446744073709551616", "1000000000000000000000000000000", "1e400", "-1e400", "1E-7", "1e-7", "0.1", "1.0", "1.10",
	"1e2", "1E+2", "0e0", "0.0", "123456789.123456789012345678901234567890", "2.5e-400", "3.141592653589793238462643383279"}

var c19Strings = []string{``, `a`, `hello world`, `\"`, `\\`, `\/`, `\b\f\n\r\t`, `\u0000`, `x\u0000y`, `\u00e9`, "\u00e9", `\ud83d\ude00`,
	"\U0001F600", `  `, `\u2028\u2029`, "\u2028", `<>&`, `\u003c\u003e\u0026`, "\x7f", `{\"not\":\"json\"}`, `_id`, `_`, `'`,
	strings.Repeat("long", 70), `\uFFFF`, "\uffff", `\u0001\u001f`, `\u00E9\u00e9`, "\u00a0\u3000"}

var c19Keys = []string{"a", "b", "c", "key", "", "_", "_idx", "__proto__", "_syncx", "_attachmentsx", "_deletedx", "_Id", "id", "rev",
	"\u00e9", `a\u0000b`, `k\"q`, "constructor", " sp ace ", `\u00e9x`, "channelsx", "_exp_", "sync", `a\\b`, `a\/b`, "A"}

type c19Gen struct{ r *vRand }

func (g *c19Gen) pick(l []string) string { return l[g.r.Intn(len(l))] }

func (g *c19Gen) value(depth int) *c19V {
	n := 7
	if depth <= 0 {
		n = 5
	}
	switch g.r.Intn(n) {
	case 0:
		return &c19V{k: 'n'}
	case 1:
		if g.r.Bool() {
			return &c19V{k: 't'}
		}
		return &c19V{k: 'f'}
	case 2, 3:
		return &c19V{k: '#', lit: g.pick(c19Numbers)}
	case 4:
		return &c19V{k: 's', lit: g.pick(c19Strings)}
	case 5:
		v := &c19V{k: 'a'}
		for i, m := 0, g.r.Intn(4); i < m; i++ {
			v.arr = append(v.arr, g.value(depth-1))
		}
		return v
	}
	return g.object(depth-1, g.r.Intn(4), false)
}

func (g *c19Gen) object(depth, members int, top bool) *c19V {
	v := &c19V{k: 'o'}
	seen := map[string]bool{}
	for i := 0; i < members; i++ {
		k := g.pick(c19Keys)
		if seen[k] && !g.r.Chance(10) { // duplicates are allowed, rarely
			continue
		}
		seen[k] = true
		v.keys = append(v.keys, k)
		v.vals = append(v.vals, g.value(depth))
	}
	return v
}

// ws styles: 0 compact, 1 random JSON whitespace, 2 one space
func (g *c19Gen) ws(style int) string {
	switch style {
	case 1:
		s := ""
		for i, m := 0, g.r.Intn(3); i < m; i++ {
			s += string(" \t\n\r"[g.r.Intn(4)])
		}
		return s
	case 2:
		return " "
	}
	return ""
}

func (g *c19Gen) render(v *c19V, style int, sb *strings.Builder) {
	switch v.k {
	case 'n':
		sb.WriteString("null")
	case 't':
		sb.WriteString("true")
	case 'f':
		sb.WriteString("false")
	case '#':
		sb.WriteString(v.lit)
	case 's':
		sb.WriteString(`"` + v.lit + `"`)
	case 'a':
		sb.WriteString("[")
		sb.WriteString(g.ws(style))
		for i, e := range v.arr {
			if i > 0 {
				sb.WriteString(",")
				sb.WriteString(g.ws(style))
			}
			g.render(e, style, sb)
			sb.WriteString(g.ws(style))
		}
		sb.WriteString("]")
	case 'o':
		sb.WriteString("{")
		sb.WriteString(g.ws(style))
		for i := range v.keys {
			if i > 0 {
				sb.WriteString(",")
				sb.WriteString(g.ws(style))
			}
			sb.WriteString(`"` + v.keys[i] + `"`)
			sb.WriteString(g.ws(style))
			sb.WriteString(":")
			sb.WriteString(g.ws(style))
			g.render(v.vals[i], style, sb)
			sb.WriteString(g.ws(style))
		}
		sb.WriteString("}")
	}
}

func (g *c19Gen) text(v *c19V, style int) string {
	var sb strings.Builder
	sb.WriteString(g.ws(style))
	g.render(v, style, &sb)
	sb.WriteString(g.ws(style))
	return sb.String()
}

// a copy of the object with an extra leading member (raw key, raw value text)
func c19WithMember(v *c19V, key string, val *c19V, front bool) *c19V {
	o := &c19V{k: 'o'}
	if front {
		o.keys = append(o.keys, key)
		o.vals = append(o.vals, val)
	}
	o.keys = append(o.keys, v.keys...)
	o.vals = append(o.vals, v.vals...)
	if !front {
		o.keys = append(o.keys, key)
		o.vals = append(o.vals, val)
	}
	return o
}

func c19IsBlankObject(text string) bool {
	t := strings.Trim(text, " \t\r\n")
	if len(t) < 3 || t[0] != '{' || t[len(t)-1] != '}' {
		return false
	}
	return strings.Trim(t[1:len(t)-1], " \t\r\n") == ""
}

// ---------------------------------------------------------------- environment

type c19Env struct {
	t       *testing.T
	rt      *RestTester
	bt      *BlipTester
	rec     *vRecorder
	rnd     *vRand
	gen     *c19Gen
	docN    int
	pullMu  sync.Mutex
	pulled  map[string][]byte // docid -> body of the rev message received by the BLIP puller
	pullErr map[string]string
	offered map[string]bool // docid -> the puller was offered the document in a changes message
	failN   map[string]int
}

// at most three reports per (monitor, signature): the recorder keeps 50 failures in all, and one noisy
// kind must not crowd the others out
func (e *c19Env) fail(monitor, signature string, input any, detail string) {
	if e.failN == nil {
		e.failN = map[string]int{}
	}
	e.failN[monitor+"|"+signature]++
	if e.failN[monitor+"|"+signature] <= 3 {
		e.rec.Fail(monitor, signature, input, detail)
	}
}

func (e *c19Env) newID(prefix string) string {
	e.docN++
	return fmt.Sprintf("%s%d", prefix, e.docN)
}

func (e *c19Env) admin(method, path, body string) *TestResponse {
	return e.rt.SendAdminRequest(method, path, body)
}
func (e *c19Env) adminJSON(method, path, body string) *TestResponse {
	return e.rt.SendAdminRequestWithHeaders(method, path, body, map[string]string{"Accept": "application/json"})
}

// raw stored body of a document (xattr mode: the document value is exactly the body)
func (e *c19Env) rawBody(id string) []byte {
	raw, _, err := e.rt.GetSingleDataStore().GetRaw(e.rt.Context(), id)
	if err != nil {
		return nil
	}
	return raw
}

func c19RespRev(b []byte) string {
	var r struct {
		Rev string `json:"rev"`
		ID  string `json:"id"`
	}
	_ = json.Unmarshal(b, &r)
	return r.Rev
}

// ---------- write paths: each returns (HTTP-like status, docid, revid); status 2xx = accepted
type c19Write struct {
	name string
	f    func(e *c19Env, id string, obj *c19V, style int, text string) (status int, docid string, rev string, written string)
}

func c19ID(id string) *c19V { return &c19V{k: 's', lit: id} }

var c19WritePaths = []c19Write{
	{"put", func(e *c19Env, id string, obj *c19V, style int, text string) (int, string, string, string) {
		r := e.admin("PUT", "/{{.keyspace}}/"+id, text)
		return r.Code, id, c19RespRev(r.BodyBytes()), text
	}},
	{"post", func(e *c19Env, id string, obj *c19V, style int, _ string) (int, string, string, string) {
		text := e.gen.text(c19WithMember(obj, "_id", c19ID(id), e.rnd.Bool()), style)
		r := e.admin("POST", "/{{.keyspace}}/", text)
		return r.Code, id, c19RespRev(r.BodyBytes()), text
	}},
	{"bulk_docs", func(e *c19Env, id string, obj *c19V, style int, _ string) (int, string, string, string) {
		text := e.gen.text(c19WithMember(obj, "_id", c19ID(id), e.rnd.Bool()), style)
		r := e.admin("POST", "/{{.keyspace}}/_bulk_docs", `{"docs":[`+text+`]}`)
		if r.Code != 201 {
			return r.Code, id, "", text
		}
		var rows []struct {
			Rev    string `json:"rev"`
			Status int    `json:"status"`
		}
		if err := json.Unmarshal(r.BodyBytes(), &rows); err != nil || len(rows) != 1 {
			return 599, id, "", text
		}
		if rows[0].Status != 0 {
			return rows[0].Status, id, "", text
		}
		return 201, id, rows[0].Rev, text
	}},
	{"put_new_edits_false", func(e *c19Env, id string, obj *c19V, style int, _ string) (int, string, string, string) {
		revs := &c19V{k: 'o', keys: []string{"start", "ids"}, vals: []*c19V{{k: '#', lit: "1"}, {k: 'a', arr: []*c19V{{k: 's', lit: "aaa"}}}}}
		text := e.gen.text(c19WithMember(obj, "_revisions", revs, e.rnd.Bool()), style)
		r := e.admin("PUT", "/{{.keyspace}}/"+id+"?new_edits=false", text)
		return r.Code, id, "1-aaa", text
	}},
	{"blip_rev", func(e *c19Env, id string, obj *c19V, style int, text string) (int, string, string, string) {
		return e.blipRev(id, "1-abc", text), id, "1-abc", text
	}},
	{"import", func(e *c19Env, id string, obj *c19V, style int, text string) (int, string, string, string) {
		_, err := e.rt.GetSingleDataStore().AddRaw(e.rt.Context(), id, 0, []byte(text))
		if err != nil {
			return 598, id, "", text
		}
		// on-demand import, triggered by the first read through the gateway
		r := e.admin("GET", "/{{.keyspace}}/"+id+"?show_exp=false", "")
		rev := ""
		if m, ok := c19DecodeObj(r.BodyBytes()); ok {
			rev, _ = m["_rev"].(string)
		}
		return r.Code, id, rev, text
	}},
}

func (e *c19Env) blipRev(id, rev, body string) int {
	rq := e.bt.newRevMessage(id, rev, []byte(body), blip.Properties{})
	e.bt.Send(rq)
	resp := rq.Response()
	if code := resp.Properties["Error-Code"]; code != "" {
		n := 0
		_, _ = fmt.Sscanf(code, "%d", &n)
		if n == 0 {
			n = 597
		}
		return n
	}
	return 201
}

// ---------- BLIP pull of everything since 0: bodies of the rev messages, as a peer would receive them
func (e *c19Env) blipPull(since string) {
	e.pullMu.Lock()
	e.pulled = map[string][]byte{}
	e.pullErr = map[string]string{}
	e.offered = map[string]bool{}
	e.pullMu.Unlock()
	var changesDone, revsDone sync.WaitGroup
	ctxb := e.bt.blipContext
	defer func() {
		delete(ctxb.HandlerForProfile, "changes")
		delete(ctxb.HandlerForProfile, "rev")
		delete(ctxb.HandlerForProfile, "norev")
	}()
	ctxb.HandlerForProfile["changes"] = func(request *blip.Message) {
		body, err := request.Body()
		if err != nil || string(body) == "null" {
			changesDone.Done()
			return
		}
		if !request.NoReply() {
			batch := [][]any{}
			_ = json.Unmarshal(body, &batch)
			resp := [][]any{}
			for _, entry := range batch {
				resp = append(resp, []any{})
				revsDone.Add(1)
				if len(entry) > 1 {
					if id, ok := entry[1].(string); ok {
						e.pullMu.Lock()
						e.offered[id] = true
						e.pullMu.Unlock()
					}
				}
			}
			out, _ := json.Marshal(resp)
			response := request.Response()
			response.SetBody(out)
		}
	}
	ctxb.HandlerForProfile["norev"] = func(request *blip.Message) {
		defer revsDone.Done()
		e.pullMu.Lock()
		e.pullErr[request.Properties["id"]] = "norev " + request.Properties["error"] + " " + request.Properties["reason"]
		e.pullMu.Unlock()
	}
	ctxb.HandlerForProfile["rev"] = func(request *blip.Message) {
		defer revsDone.Done()
		body, err := request.Body()
		e.pullMu.Lock()
		if err != nil {
			e.pullErr[request.Properties["id"]] = err.Error()
		} else {
			e.pulled[request.Properties["id"]] = body
		}
		e.pullMu.Unlock()
		if !request.NoReply() {
			request.Response().SetBody([]byte{})
		}
	}
	changesDone.Add(1)
	sub := blip.NewRequest()
	sub.SetProfile("subChanges")
	sub.Properties["continuous"] = "false"
	sub.Properties["batch"] = "200"
	if since != "0" {
		sub.Properties["since"] = since
	}
	e.bt.addCollectionProperty(sub)
	e.bt.Send(sub)
	c19Wait(&changesDone, 120*time.Second)
	c19Wait(&revsDone, 120*time.Second)
}

func c19Wait(wg *sync.WaitGroup, d time.Duration) bool {
	ch := make(chan struct{})
	go func() { wg.Wait(); close(ch) }()
	select {
	case <-ch:
		return true
	case <-time.After(d):
		return false
	}
}

// ---------- read paths for one document: name -> (body bytes of the document as returned, error text)
type c19Read struct {
	body []byte
	err  string
}

func c19FirstPart(ct string, body []byte) ([]byte, error) {
	mt, params, err := mime.ParseMediaType(ct)
	if err != nil || !strings.HasPrefix(mt, "multipart/") {
		return nil, fmt.Errorf("not multipart: %q", ct)
	}
	mr := multipart.NewReader(bytes.NewReader(body), params["boundary"])
	p, err := mr.NextPart()
	if err != nil {
		return nil, err
	}
	return io.ReadAll(p)
}

func (e *c19Env) readPaths(id, rev string) map[string]c19Read {
	out := map[string]c19Read{}
	ks := "/{{.keyspace}}/"
	get := func(name, path string) {
		r := e.adminJSON("GET", path, "")
		if r.Code != 200 {
			out[name] = c19Read{err: fmt.Sprintf("status %d %s", r.Code, c19Short(r.BodyBytes()))}
			return
		}
		out[name] = c19Read{body: r.BodyBytes()}
	}
	get("get", ks+id)
	get("get_revs", ks+id+"?revs=true")
	if rev != "" {
		get("get_rev", ks+id+"?rev="+rev)
	}
	// open_revs=all, JSON form: [{"ok": doc}]
	{
		r := e.adminJSON("GET", ks+id+"?open_revs=all", "")
		if r.Code != 200 {
			out["open_revs"] = c19Read{err: fmt.Sprintf("status %d", r.Code)}
		} else {
			var arr []map[string]json.RawMessage
			if err := json.Unmarshal(r.BodyBytes(), &arr); err != nil {
				out["open_revs"] = c19Read{err: "unparseable response: " + c19Short(r.BodyBytes())}
			} else {
				found := false
				for _, el := range arr {
					if ok, has := el["ok"]; has {
						if m, isObj := c19DecodeObj(ok); isObj && (rev == "" || m["_rev"] == rev) {
							out["open_revs"] = c19Read{body: ok}
							found = true
						}
					}
				}
				if !found {
					out["open_revs"] = c19Read{err: "revision not among open revisions: " + c19Short(r.BodyBytes())}
				}
			}
		}
	}
	// _bulk_get (multipart)
	{
		rq := fmt.Sprintf(`{"docs":[{"id":%q,"rev":%q}]}`, id, rev)
		if rev == "" {
			rq = fmt.Sprintf(`{"docs":[{"id":%q}]}`, id)
		}
		r := e.admin("POST", ks+"_bulk_get", rq)
		if r.Code != 200 {
			out["bulk_get"] = c19Read{err: fmt.Sprintf("status %d", r.Code)}
		} else if part, err := c19FirstPart(r.Header().Get("Content-Type"), r.BodyBytes()); err != nil {
			out["bulk_get"] = c19Read{err: err.Error()}
		} else {
			out["bulk_get"] = c19Read{body: part}
		}
	}
	// _all_docs?include_docs with explicit key
	{
		r := e.admin("POST", ks+"_all_docs?include_docs=true", fmt.Sprintf(`{"keys":[%q]}`, id))
		var resp struct {
			Rows []struct {
				Doc    json.RawMessage `json:"doc"`
				Error  string          `json:"error"`
				Reason string          `json:"reason"`
			} `json:"rows"`
		}
		if r.Code != 200 {
			out["all_docs"] = c19Read{err: fmt.Sprintf("status %d", r.Code)}
		} else if err := json.Unmarshal(r.BodyBytes(), &resp); err != nil {
			out["all_docs"] = c19Read{err: "unparseable response: " + c19Short(r.BodyBytes())}
		} else if len(resp.Rows) != 1 || resp.Rows[0].Doc == nil {
			out["all_docs"] = c19Read{err: "no doc in row: " + c19Short(r.BodyBytes())}
		} else {
			out["all_docs"] = c19Read{body: resp.Rows[0].Doc}
		}
	}
	// _changes?include_docs restricted to the document
	{
		r := e.admin("POST", ks+"_changes", fmt.Sprintf(`{"filter":"_doc_ids","doc_ids":[%q],"include_docs":true}`, id))
		out["changes_docids"] = c19ChangesDoc(r, id)
	}
	return out
}

func c19ChangesDoc(r *TestResponse, id string) c19Read {
	var resp struct {
		Results []struct {
			ID  string          `json:"id"`
			Doc json.RawMessage `json:"doc"`
		} `json:"results"`
	}
	if r.Code != 200 {
		return c19Read{err: fmt.Sprintf("status %d", r.Code)}
	}
	if err := json.Unmarshal(r.BodyBytes(), &resp); err != nil {
		return c19Read{err: "unparseable response: " + c19Short(r.BodyBytes())}
	}
	for _, row := range resp.Results {
		if row.ID == id {
			if row.Doc == nil {
				return c19Read{err: "row without doc"}
			}
			return c19Read{body: row.Doc}
		}
	}
	return c19Read{err: "no row for document"}
}

// the regular changes feed since a sequence, parsed row by row so that one broken row is attributed to
// its document instead of spoiling the batch
func (e *c19Env) changesFeed(since string) (docs map[string][]byte, whole bool, raw []byte) {
	e.rt.WaitForPendingChanges()
	r := e.admin("GET", "/{{.keyspace}}/_changes?include_docs=true&since="+since, "")
	raw = r.BodyBytes()
	docs = map[string][]byte{}
	var resp struct {
		Results []struct {
			ID  string          `json:"id"`
			Doc json.RawMessage `json:"doc"`
		} `json:"results"`
	}
	if err := json.Unmarshal(raw, &resp); err == nil {
		for _, row := range resp.Results {
			if row.Doc != nil {
				docs[row.ID] = row.Doc
			}
		}
		return docs, true, raw
	}
	for _, line := range bytes.Split(raw, []byte("\n")) {
		line = bytes.TrimSpace(line)
		line = bytes.TrimLeft(line, ",")
		var row struct {
			ID  string          `json:"id"`
			Doc json.RawMessage `json:"doc"`
		}
		if json.Unmarshal(line, &row) == nil && row.ID != "" && row.Doc != nil {
			docs[row.ID] = row.Doc
		}
	}
	return docs, false, raw
}

// ---------------------------------------------------------------- the fidelity monitor

type c19Doc struct {
	write   string
	id      string
	rev     string
	text    string // the object text as generated (without members added for the write path)
	written string // what was sent
	want    any    // normalised expected value
	sig     string // overrides the failure signature (promoted conflict bodies)
}

func (e *c19Env) failFidelity(d c19Doc, read string, detail string, got []byte) {
	sig := "fidelity:" + d.write + ":" + read
	if c19IsBlankObject(d.text) && (d.write == "blip_rev" || d.write == "import") {
		sig = "inject-blank-object"
	}
	if d.sig != "" {
		sig = d.sig
	}
	e.fail("body_fidelity", sig, map[string]any{"write_path": d.write, "read_path": read, "body": d.text, "sent": d.written, "doc": d.id},
		detail+" got="+c19Short(got))
}

func (e *c19Env) checkRead(d c19Doc, read string, r c19Read) {
	nontriv := len(d.text) > 12
	e.rec.Count("fidelity", d.write+">"+read, d.text, nontriv)
	if r.err != "" {
		e.rec.Err("read:" + read)
		e.failFidelity(d, read, "read failed: "+r.err, nil)
		return
	}
	v, err := c19Decode(r.body)
	if err != nil {
		e.failFidelity(d, read, "response is not valid JSON: "+err.Error(), r.body)
		return
	}
	got := c19Norm(c19StripAdded(v))
	if !reflect.DeepEqual(got, d.want) {
		e.failFidelity(d, read, "value differs from what was written", r.body)
	}
}

// the expected value: what was written, decoded by the reference decoder (duplicates: last wins)
func c19Want(text string) (any, bool) {
	v, err := c19Decode([]byte(text))
	if err != nil {
		return nil, false
	}
	return c19Norm(v), true
}

func (e *c19Env) fidelity(n int) {
	since := "0"
	var batch []c19Doc
	var later []func()
	var promote []c19Doc // documents whose adversarial body is the LOSING leaf 1-aaa next to 1-zzz
	flush := func() {
		if len(batch) == 0 {
			return
		}
		feed, whole, raw := e.changesFeed(since)
		e.blipPull(since)
		if !whole {
			e.rec.Err("changes_feed_unparseable")
		} else {
			var ls struct {
				LastSeq string `json:"last_seq"`
			}
			if json.Unmarshal(raw, &ls) == nil && ls.LastSeq != "" {
				since = ls.LastSeq
			}
		}
		for _, d := range batch {
			if body, ok := feed[d.id]; ok {
				e.checkRead(d, "changes_feed", c19Read{body: body})
			} else if !whole {
				e.checkRead(d, "changes_feed", c19Read{err: "row for the document is missing or unparseable in the feed response: " + c19Short(raw)})
			} else {
				e.checkRead(d, "changes_feed", c19Read{err: "no row"})
			}
			e.pullMu.Lock()
			body, ok := e.pulled[d.id]
			perr := e.pullErr[d.id]
			e.pullMu.Unlock()
			if ok {
				e.checkRead(d, "blip_pull", c19Read{body: body})
			} else {
				e.checkRead(d, "blip_pull", c19Read{err: "not received: " + perr})
			}
		}
		batch = nil
		// reads of superseded revisions come last: they update the documents
		for _, f := range later {
			f()
		}
		later = nil
		// then the losing leaves are promoted (their winning branch is tombstoned) and read from the bucket
		if len(promote) > 0 {
			var promoted []c19Doc
			for _, d := range promote {
				if pd, ok := e.promoteLoser(d); ok {
					promoted = append(promoted, pd)
				}
			}
			promote = nil
			e.rt.GetDatabase().FlushRevisionCacheForTest()
			feed, whole, raw := e.changesFeed(since)
			e.blipPull(since)
			if whole {
				var ls struct {
					LastSeq string `json:"last_seq"`
				}
				if json.Unmarshal(raw, &ls) == nil && ls.LastSeq != "" {
					since = ls.LastSeq
				}
			}
			for _, d := range promoted {
				if body, ok := feed[d.id]; ok {
					e.checkRead(d, "promoted_changes_feed", c19Read{body: body})
				} else {
					e.checkRead(d, "promoted_changes_feed", c19Read{err: "no usable row in the feed response: " + c19Short(raw)})
				}
				e.pullMu.Lock()
				body, ok := e.pulled[d.id]
				perr := e.pullErr[d.id]
				e.pullMu.Unlock()
				if ok {
					e.checkRead(d, "promoted_blip_pull", c19Read{body: body})
				} else {
					e.checkRead(d, "promoted_blip_pull", c19Read{err: "not received: " + perr})
				}
			}
		}
	}
	for i := 0; i < n; i++ {
		members := e.rnd.Intn(5)
		if e.rnd.Chance(12) {
			members = 0 // empty and blank objects
		}
		obj := e.gen.object(3, members, true)
		style := e.rnd.Intn(3)
		if members == 0 && e.rnd.Chance(60) {
			style = 1 + e.rnd.Intn(2)
		}
		w := c19WritePaths[i%len(c19WritePaths)]
		if w.name == "put_new_edits_false" && e.rnd.Chance(40) {
			// longer than MaximumInlineBodySize: as a non-winning revision it is stored out of line (_sync:rb:)
			obj = c19WithMember(obj, "pad", &c19V{k: 's', lit: strings.Repeat("0123456789", 30)}, e.rnd.Bool())
		}
		id := e.newID("f" + w.name[:2])
		text := e.gen.text(obj, style)
		want, ok := c19Want(text)
		if !ok {
			e.t.Fatalf("generator produced invalid JSON: %q", text)
		}
		status, docid, rev, written := w.f(e, id, obj, style, text)
		e.rec.Size(fmt.Sprintf("members=%d", members))
		if status/100 != 2 {
			e.rec.Err(fmt.Sprintf("write:%s:%d", w.name, status))
			e.fail("body_accepted", "write-rejected:"+w.name, map[string]any{"write_path": w.name, "body": written},
				fmt.Sprintf("a body without reserved properties was rejected with status %d", status))
			continue
		}
		d := c19Doc{write: w.name, id: docid, rev: rev, text: text, written: written, want: want}
		for name, r := range e.readPaths(docid, rev) {
			e.checkRead(d, name, r)
		}
		batch = append(batch, d)
		if i%3 == 0 && w.name != "put_new_edits_false" && rev != "" {
			later = append(later, func() { e.oldRevision(d) })
		}
		if w.name == "put_new_edits_false" {
			// order A: the adversarial body is current first and becomes the loser when 1-zzz arrives
			later = append(later, func() {
				if e.conflictingRevision(d) {
					promote = append(promote, d)
				}
			})
			// order B: the winner exists first, the adversarial body arrives as a non-winning revision
			if d2, ok := e.loserSecond(obj, style, text, want); ok {
				promote = append(promote, d2)
			}
		}
		if len(batch) >= 40 {
			flush()
		}
	}
	flush()
}

// update the document, then read the previous revision (revision cache first, then after a cache flush)
func (e *c19Env) oldRevision(d c19Doc) {
	r := e.admin("PUT", "/{{.keyspace}}/"+d.id+"?rev="+d.rev, `{"updated":true}`)
	if r.Code != 201 {
		e.rec.Err(fmt.Sprintf("old_rev_update:%d", r.Code))
		return
	}
	g := e.adminJSON("GET", "/{{.keyspace}}/"+d.id+"?rev="+d.rev, "")
	if g.Code == 200 {
		e.checkRead(d, "old_rev_cached", c19Read{body: g.BodyBytes()})
	} else {
		e.rec.Err(fmt.Sprintf("old_rev_cached:%d", g.Code))
	}
	e.rt.GetDatabase().FlushRevisionCacheForTest()
	g = e.adminJSON("GET", "/{{.keyspace}}/"+d.id+"?rev="+d.rev, "")
	if g.Code == 200 {
		e.checkRead(d, "old_rev_backup", c19Read{body: g.BodyBytes()})
	} else {
		e.rec.Err(fmt.Sprintf("old_rev_backup:%d", g.Code))
	}
}

// add a conflicting, winning revision 1-zzz next to 1-aaa, then read the losing one
func (e *c19Env) conflictingRevision(d c19Doc) bool {
	r := e.admin("PUT", "/{{.keyspace}}/"+d.id+"?new_edits=false", `{"winner":true,"_revisions":{"start":1,"ids":["zzz"]}}`)
	if r.Code != 201 {
		e.rec.Err(fmt.Sprintf("conflict_write:%d", r.Code))
		return false
	}
	e.losingLeafReads(d)
	return true
}

// order B: 1-zzz first, then the adversarial body as the non-winning revision 1-aaa
func (e *c19Env) loserSecond(obj *c19V, style int, text string, want any) (c19Doc, bool) {
	id := e.newID("fls")
	r := e.admin("PUT", "/{{.keyspace}}/"+id+"?new_edits=false", `{"winner":true,"_revisions":{"start":1,"ids":["zzz"]}}`)
	if r.Code != 201 {
		e.rec.Err(fmt.Sprintf("loser_second_winner:%d", r.Code))
		return c19Doc{}, false
	}
	revs := &c19V{k: 'o', keys: []string{"start", "ids"}, vals: []*c19V{{k: '#', lit: "1"}, {k: 'a', arr: []*c19V{{k: 's', lit: "aaa"}}}}}
	written := e.gen.text(c19WithMember(obj, "_revisions", revs, e.rnd.Bool()), style)
	r = e.admin("PUT", "/{{.keyspace}}/"+id+"?new_edits=false", written)
	d := c19Doc{write: "put_new_edits_false_as_loser", id: id, rev: "1-aaa", text: text, written: written, want: want}
	if r.Code != 201 {
		e.rec.Err(fmt.Sprintf("write:%s:%d", d.write, r.Code))
		e.fail("body_accepted", "write-rejected:"+d.write, map[string]any{"write_path": d.write, "body": written},
			fmt.Sprintf("a body without reserved properties was rejected with status %d", r.Code))
		return c19Doc{}, false
	}
	g := e.adminJSON("GET", "/{{.keyspace}}/"+id+"?rev=1-aaa", "")
	if g.Code == 200 {
		e.checkRead(d, "conflicting_rev_cached", c19Read{body: g.BodyBytes()})
	} else {
		e.checkRead(d, "conflicting_rev_cached", c19Read{err: fmt.Sprintf("status %d %s", g.Code, c19Short(g.BodyBytes()))})
	}
	e.losingLeafReads(d)
	return d, true
}

// tombstone the winning branch so that the losing leaf 1-aaa becomes the current revision; then read it from
// the bucket (revision cache flushed) through every per-document read path
func (e *c19Env) promoteLoser(d c19Doc) (c19Doc, bool) {
	r := e.admin("PUT", "/{{.keyspace}}/"+d.id+"?new_edits=false", `{"_deleted":true,"_revisions":{"start":2,"ids":["del","zzz"]}}`)
	if r.Code != 201 {
		e.rec.Err(fmt.Sprintf("promote_tombstone:%d", r.Code))
		return d, false
	}
	d.sig = "fidelity:promoted-conflict-body"
	d.write = d.write + "+promoted"
	e.rt.GetDatabase().FlushRevisionCacheForTest()
	for name, rd := range e.readPaths(d.id, "1-aaa") {
		e.checkRead(d, "promoted_"+name, rd)
	}
	// and once more without naming the revision: it must be the current one now
	g := e.adminJSON("GET", "/{{.keyspace}}/"+d.id, "")
	if g.Code != 200 {
		e.checkRead(d, "promoted_get_current", c19Read{err: fmt.Sprintf("status %d %s", g.Code, c19Short(g.BodyBytes()))})
	} else if m, ok := c19DecodeObj(g.BodyBytes()); !ok || m["_rev"] != "1-aaa" {
		e.checkRead(d, "promoted_get_current", c19Read{err: "the losing leaf was not promoted: " + c19Short(g.BodyBytes())})
	}
	return d, true
}

// the non-promoted losing leaf, read from the bucket after a revision cache flush
func (e *c19Env) losingLeafReads(d c19Doc) {
	e.rt.GetDatabase().FlushRevisionCacheForTest()
	g := e.adminJSON("GET", "/{{.keyspace}}/"+d.id+"?rev=1-aaa", "")
	if g.Code == 200 {
		e.checkRead(d, "conflicting_rev", c19Read{body: g.BodyBytes()})
	} else {
		e.checkRead(d, "conflicting_rev", c19Read{err: fmt.Sprintf("status %d %s", g.Code, c19Short(g.BodyBytes()))})
	}
	bg := e.admin("POST", "/{{.keyspace}}/_bulk_get", fmt.Sprintf(`{"docs":[{"id":%q,"rev":"1-aaa"}]}`, d.id))
	if part, err := c19FirstPart(bg.Header().Get("Content-Type"), bg.BodyBytes()); bg.Code != 200 || err != nil {
		e.checkRead(d, "conflicting_bulk_get", c19Read{err: fmt.Sprintf("status %d %v", bg.Code, err)})
	} else {
		e.checkRead(d, "conflicting_bulk_get", c19Read{body: part})
	}
	o := e.adminJSON("GET", "/{{.keyspace}}/"+d.id+"?open_revs=all", "")
	var arr []map[string]json.RawMessage
	if o.Code != 200 || json.Unmarshal(o.BodyBytes(), &arr) != nil {
		e.checkRead(d, "conflicting_open_revs", c19Read{err: "unparseable open_revs response: " + c19Short(o.BodyBytes())})
		return
	}
	for _, el := range arr {
		if ok, has := el["ok"]; has {
			if m, isObj := c19DecodeObj(ok); isObj && m["_rev"] == "1-aaa" {
				e.checkRead(d, "conflicting_open_revs", c19Read{body: ok})
				return
			}
		}
	}
	e.checkRead(d, "conflicting_open_revs", c19Read{err: "losing revision not listed: " + c19Short(o.BodyBytes())})
}

// ---------------------------------------------------------------- blank object, end to end

func (e *c19Env) allDocsBody(id string) (json.RawMessage, string) {
	r := e.admin("POST", "/{{.keyspace}}/_all_docs?include_docs=true", fmt.Sprintf(`{"keys":[%q]}`, id))
	var ad struct {
		Rows []struct {
			Doc json.RawMessage `json:"doc"`
		} `json:"rows"`
	}
	if err := json.Unmarshal(r.BodyBytes(), &ad); err != nil || len(ad.Rows) != 1 || ad.Rows[0].Doc == nil {
		return nil, c19Short(r.BodyBytes())
	}
	return ad.Rows[0].Doc, ""
}

func (e *c19Env) blankObjectEndToEnd() {
	// control: the same steps with the two-byte empty object; if that fails too the splice is broken in general
	ctl := e.newID("blankctl")
	_, _ = e.rt.GetSingleDataStore().AddRaw(e.rt.Context(), ctl, 0, []byte("{}"))
	_ = e.admin("GET", "/{{.keyspace}}/"+ctl, "")
	sig := "inject-blank-object"
	if doc, _ := e.allDocsBody(ctl); doc == nil {
		sig = "include-docs-broken"
	} else if v, err := c19Decode(doc); err != nil || !reflect.DeepEqual(c19Norm(c19StripAdded(v)), map[string]any{}) {
		sig = "include-docs-broken"
	}
	for i, raw := range []string{"{ }", "{\n}", "{\t \r\n}", " { } "} {
		id := e.newID("blank")
		if _, err := e.rt.GetSingleDataStore().AddRaw(e.rt.Context(), id, 0, []byte(raw)); err != nil {
			e.t.Fatalf("raw write: %v", err)
		}
		g := e.admin("GET", "/{{.keyspace}}/"+id, "") // on-demand import
		input := map[string]any{"raw_bucket_write": raw, "doc": id, "steps": "raw bucket write; GET (on-demand import); _changes?include_docs / _all_docs?include_docs"}
		e.rec.Count("blank", "blank_e2e", raw, true)
		if g.Code != 200 {
			e.fail("body_fidelity", "blank-import-rejected", input, fmt.Sprintf("import of a whitespace-only object failed: %d", g.Code))
			continue
		}
		if i == 0 {
			e.rt.WaitForPendingChanges()
			c := e.admin("GET", "/{{.keyspace}}/_changes?include_docs=true", "")
			if _, err := c19Decode(c.BodyBytes()); err != nil {
				e.fail("body_fidelity", sig, input, "the whole _changes?include_docs response is invalid JSON ("+err.Error()+"): "+c19Short(c.BodyBytes()))
			}
		}
		doc, bad := e.allDocsBody(id)
		if doc == nil {
			e.fail("body_fidelity", sig, input, "_all_docs?include_docs cannot return the document: "+bad)
		} else if v, err := c19Decode(doc); err != nil || !reflect.DeepEqual(c19Norm(c19StripAdded(v)), map[string]any{}) {
			e.fail("body_fidelity", sig, input, "_all_docs?include_docs returns a different body: "+c19Short(doc))
		}
	}
}

// ---------------------------------------------------------------- inject stream

func c19KVCoq(kvs []base.KVPairBytes) string {
	items := make([]string, len(kvs))
	for i, kv := range kvs {
		items[i] = "(" + cqStr(kv.Key) + ", " + cqBytes(kv.Val) + ")"
	}
	return cqList(items)
}

func c19OptBytes(b []byte, err error) string {
	if err != nil {
		return "None"
	}
	return "(Some " + cqBytes(b) + ")"
}

// members of an object text in order, as (key, raw value) pairs, using the reference tokenizer
func c19Members(text []byte) ([][2]string, error) {
	dec := json.NewDecoder(bytes.NewReader(text))
	dec.UseNumber()
	tok, err := dec.Token()
	if err != nil {
		return nil, err
	}
	if d, ok := tok.(json.Delim); !ok || d != '{' {
		return nil, fmt.Errorf("not an object")
	}
	var out [][2]string
	for dec.More() {
		kt, err := dec.Token()
		if err != nil {
			return nil, err
		}
		k, ok := kt.(string)
		if !ok {
			return nil, fmt.Errorf("key is not a string")
		}
		var raw json.RawMessage
		if err := dec.Decode(&raw); err != nil {
			return nil, err
		}
		var c bytes.Buffer
		if err := json.Compact(&c, raw); err != nil {
			return nil, err
		}
		out = append(out, [2]string{k, c.String()})
	}
	if _, err := dec.Token(); err != nil {
		return nil, err
	}
	if _, err := dec.Token(); err != io.EOF {
		return nil, fmt.Errorf("trailing data")
	}
	return out, nil
}

func (e *c19Env) injectCase(stream string, b []byte, kvs []base.KVPairBytes) {
	in := append([]byte(nil), b...)
	out, err := base.InjectJSONPropertiesFromBytes(in, kvs...)
	if !bytes.Equal(in, b) {
		e.fail("inject_input_untouched", "inject-mutates-input", map[string]any{"body": string(b)}, "the input slice was modified")
	}
	inMembers, inErr := c19Members(b)
	validIn := inErr == nil
	valsOK := true
	for _, kv := range kvs {
		if !json.Valid(kv.Val) {
			valsOK = false
		}
		if kb, _ := json.Marshal(kv.Key); string(kb) != `"`+kv.Key+`"` {
			valsOK = false
		}
	}
	nontriv := validIn && len(kvs) > 0
	desc := map[string]any{"body": string(b), "kvs": fmt.Sprintf("%q", kvs)}
	e.rec.Case(stream, "inject", fmt.Sprintf("CInject %s %s %s", cqBytes(b), c19KVCoq(kvs), c19OptBytes(out, err)), desc, nontriv)
	if err != nil {
		e.rec.Err("inject:not-an-object")
		if validIn {
			e.fail("inject_correct", "inject-rejects-object", desc, "a valid JSON object was rejected: "+err.Error())
		}
		return
	}
	if !(validIn && valsOK) {
		return
	}
	// monitor: the result renders a JSON object whose members are the old ones, untouched, then the new ones
	sig := "inject-invalid-result"
	if c19IsBlankObject(string(b)) {
		sig = "inject-blank-object"
	}
	outMembers, oerr := c19Members(out)
	if oerr != nil {
		e.fail("inject_correct", sig, desc, "result is not a JSON object: "+oerr.Error()+" result="+c19Short(out))
		return
	}
	want := append([][2]string(nil), inMembers...)
	for _, kv := range kvs {
		var c bytes.Buffer
		_ = json.Compact(&c, kv.Val)
		want = append(want, [2]string{kv.Key, c.String()})
	}
	if !reflect.DeepEqual(outMembers, want) {
		e.fail("inject_correct", sig, desc, fmt.Sprintf("members differ: got %q want %q", outMembers, want))
	}
}

func (e *c19Env) injectStream() {
	kvPool := []base.KVPairBytes{
		{Key: "_id", Val: []byte(`"doc1"`)}, {Key: "_rev", Val: []byte(`"1-abc"`)}, {Key: "_deleted", Val: []byte(`true`)},
		{Key: "_attachments", Val: []byte(`{"a":{"stub":true,"revpos":1}}`)}, {Key: "_revisions", Val: []byte(`{"start":2,"ids":["b","a"]}`)},
		{Key: "_cv", Val: []byte(`"18d7@src"`)}, {Key: "n", Val: []byte(`18446744073709551616`)}, {Key: "e", Val: []byte(`{}`)},
		{Key: "", Val: []byte(`null`)}, {Key: "k", Val: []byte(` [1, 2] `)}, {Key: "_exp", Val: []byte(`"2030-01-01T00:00:00Z"`)},
	}
	// (a) corpus
	corpus := []string{`{}`, `{ }`, "{\n}", " {\t} ", `{"a":1}`, `{ "a":1 }`, ` {"a":1} `, "\n{\"a\":{\"b\":[1,2,{}]},\"c\":\"}\"}\r\n", `{"a":"{"}`,
		`[]`, `[{}]`, `"{}"`, `{`, `}`, ``, ` `, `{}x`, `x{}`, `{"a":1}}`, `{{}`, "\x0b{}\x0c", " {} ", " {\"a\":1}\u3000", "\u0085{}", "{}\u00a0",
		"\xc2{}", "{}\xa0", "\xe2\x80{}", "{}\xe2\x80", "{\u00a0}", "{\x0b}", `null`, `{"a":1,}`, `{,}`, `{"_id":"old"}`, "\u200b{}", "{}\u200b", "\u202f{}\u205f",
		"\u1680{}\u2000", "\u200a{}\u2028", "\u2029 {}", "{}\xe2\x80\x80\x80", "\xe2\xc2\x85{}", "{}\x85", "{}\xc2",
		// duplicate names (kept, the injected ones follow), injected names already present, blanks and bytes after the object
		`{"a":1,"a":2}`, `{"_id":"u","a":1,"_id":"v"}`, `{"_rev":"9-z","_deleted":false}`, "{\"a\":1} \n\t\r ", "{\"a\":1}\n\n", `{"a":1} x`, `{"a":1}{"b":2}`,
		`{"a":1}}`, `{"a":1}]`, `{"a":1} {`, `{"a":1},`, "{\"a\":1}\x00", `{"a":1} }`, `{ } }`, `{}{}`}
	for _, c := range corpus {
		for _, kvs := range [][]base.KVPairBytes{nil, kvPool[:1], kvPool[:3], {kvPool[6], kvPool[7]}} {
			e.injectCase("corpus", []byte(c), kvs)
		}
	}
	// (b) bounded-exhaustive: every text of length <= 5 over an alphabet that contains the structural bytes,
	//     with one and with two properties
	alphabet := []byte{'{', '}', ' ', '\n', '"', 'a', ':', '1', ','}
	limit := 5
	if vThorough() {
		limit = 6
	}
	var rec func(prefix []byte)
	count := 0
	rec = func(prefix []byte) {
		// only texts that the code accepts or nearly accepts are worth a Coq case: starts (after blanks) with { or ends with }
		t := bytes.Trim(prefix, " \n")
		braced := len(t) >= 2 && t[0] == '{' && t[len(t)-1] == '}'
		if braced || (len(prefix) <= 3 && len(t) > 0 && (t[0] == '{' || t[len(t)-1] == '}')) {
			e.injectCase("exhaustive", prefix, kvPool[:1])
			if braced && len(prefix) <= 4 {
				e.injectCase("exhaustive", prefix, kvPool[1:3])
			}
			count++
		}
		if len(prefix) == limit {
			return
		}
		for _, c := range alphabet {
			rec(append(append([]byte(nil), prefix...), c))
		}
	}
	rec(nil)
	e.rec.Extra("inject_exhaustive_texts", count)
	e.rec.Extra("inject_exhaustive_scope", fmt.Sprintf("all texts of length <= %d over %q that are enclosed in braces after trimming blanks, and all of length <= 3 that start with '{' or end with '}'", limit, alphabet))
	// (c) random: generated objects (all whitespace styles) and mutated texts, random kv lists
	n := vBudget(500, 4000)
	for i := 0; i < n; i++ {
		members := e.rnd.Intn(4)
		if e.rnd.Chance(25) {
			members = 0
		}
		text := []byte(e.gen.text(e.gen.object(2, members, true), e.rnd.Intn(3)))
		stream := "random"
		if e.rnd.Chance(25) && len(text) > 0 {
			stream = "adversarial"
			switch e.rnd.Intn(4) {
			case 0:
				text[e.rnd.Intn(len(text))] = "{}[], \"\n:"[e.rnd.Intn(9)]
			case 1:
				p := e.rnd.Intn(len(text) + 1)
				ins := []string{"\x0b", "\u00a0", " ", "\xc2", "\u0085", "}", "{", "\u3000", "\xe2\x80\xa8"}[e.rnd.Intn(9)]
				text = append(append(append([]byte(nil), text[:p]...), ins...), text[p:]...)
			case 2:
				text = text[:e.rnd.Intn(len(text)+1)]
			case 3:
				text = text[e.rnd.Intn(len(text)):]
			}
		}
		var kvs []base.KVPairBytes
		for j, m := 0, 1+e.rnd.Intn(3); j < m; j++ {
			kvs = append(kvs, kvPool[e.rnd.Intn(len(kvPool))])
		}
		e.injectCase(stream, text, kvs)
	}
	// (d) the typed entry point: values marshalled by the function itself
	typed := [][]base.KVPair{
		{{Key: "_id", Val: "doc"}, {Key: "_rev", Val: "1-abc"}},
		{{Key: "_deleted", Val: true}},
		{{Key: "i", Val: -7}, {Key: "u", Val: uint64(18446744073709551615)}, {Key: "i64", Val: int64(-9223372036854775808)}},
		{{Key: "_attachments", Val: map[string]any{"x": map[string]any{"stub": true}}}},
		{{Key: "s", Val: "quote\" backslash\\ <tag> \u2028 \u00e9"}},
	}
	for _, body := range []string{`{}`, ` { } `, `{"a":1}`, "{\"a\" : [1, 2]\n}", `[]`} {
		for _, kvs := range typed {
			var bkv []base.KVPairBytes
			for _, kv := range kvs {
				vb, err := base.JSONMarshal(kv.Val)
				if err != nil {
					e.t.Fatalf("marshal: %v", err)
				}
				bkv = append(bkv, base.KVPairBytes{Key: kv.Key, Val: vb})
			}
			out, err := base.InjectJSONProperties([]byte(body), kvs...)
			want, werr := base.InjectJSONPropertiesFromBytes([]byte(body), bkv...)
			e.rec.Count("typed", "inject_typed", body+fmt.Sprint(kvs), true)
			if (err == nil) != (werr == nil) || !bytes.Equal(out, want) {
				e.fail("inject_typed_agrees", "inject-typed-differs", map[string]any{"body": body, "kvs": fmt.Sprint(kvs)},
					fmt.Sprintf("InjectJSONProperties=%q (%v) but marshal+InjectJSONPropertiesFromBytes=%q (%v)", out, err, want, werr))
			}
		}
	}
}

// ---------------------------------------------------------------- strip stream

var c19StripKeys = []string{"", "a", "_", "_id", "_rev", "_cv", "_revisions", "_exp", "_purged", "_removed", "_sync", "_sync_", "_sync_x",
	"_syncx", "_attachments", "_deleted", "_attachmentsx", "_idx", "__proto__", "_Id", "id", "sync", "_sync_cookies", "_deletedx", "x_id", "_ id"}

func c19IsInternal(k string) bool {
	switch k {
	case "_sync", "_id", "_rev", "_cv", "_revisions", "_exp", "_purged", "_removed":
		return true
	}
	return strings.HasPrefix(k, "_sync_")
}

func (e *c19Env) stripCase(stream string, keys []string) {
	body := db.Body{}
	for i, k := range keys {
		body[k] = fmt.Sprintf("v%d", i)
	}
	before := fmt.Sprint(body)
	out, found := db.StripInternalProperties(body)
	if fmt.Sprint(body) != before {
		e.fail("strip_only_reserved", "strip-mutates-input", map[string]any{"keys": keys}, "the input body was modified")
	}
	var inKeys, kept []string
	for k := range body {
		inKeys = append(inKeys, k)
	}
	for k := range out {
		kept = append(kept, k)
	}
	sort.Strings(inKeys)
	sort.Strings(kept)
	coq := func(l []string) string {
		it := make([]string, len(l))
		for i, s := range l {
			it[i] = cqStr(s)
		}
		return cqList(it)
	}
	nontriv := false
	for _, k := range inKeys {
		if strings.HasPrefix(k, "_") {
			nontriv = true
		}
	}
	e.rec.Case(stream, "strip", fmt.Sprintf("CStrip %s %s %s", coq(inKeys), coq(kept), cqBool(found)), map[string]any{"keys": inKeys, "kept": kept}, nontriv)
	// monitor: exactly the internal keys go, every other member stays with its value
	for _, k := range inKeys {
		v, has := out[k]
		if c19IsInternal(k) == has {
			e.fail("strip_only_reserved", "strip-wrong-key:"+k, map[string]any{"keys": inKeys}, fmt.Sprintf("key %q kept=%v", k, has))
		} else if has && v != body[k] {
			e.fail("strip_only_reserved", "strip-alters-value", map[string]any{"keys": inKeys}, fmt.Sprintf("value of %q changed", k))
		}
	}
	again, foundAgain := db.StripInternalProperties(out)
	if foundAgain || !reflect.DeepEqual(again, out) {
		e.fail("strip_idempotent", "strip-not-idempotent", map[string]any{"keys": inKeys}, "stripping the stripped body changes it")
	}
}

func (e *c19Env) stripStream() {
	e.stripCase("corpus", nil)
	for _, k := range c19StripKeys {
		e.stripCase("exhaustive", []string{k})
	}
	for i, a := range c19StripKeys {
		for _, b := range c19StripKeys[i+1:] {
			e.stripCase("exhaustive", []string{a, b})
		}
	}
	for i, n := 0, vBudget(150, 1500); i < n; i++ {
		var ks []string
		for j, m := 0, 1+e.rnd.Intn(6); j < m; j++ {
			k := c19StripKeys[e.rnd.Intn(len(c19StripKeys))]
			if e.rnd.Chance(20) {
				k += string("x_ s"[e.rnd.Intn(4)])
			}
			if e.rnd.Chance(10) && len(k) > 1 {
				k = k[:len(k)-1]
			}
			ks = append(ks, k)
		}
		e.stripCase("random", ks)
	}
}

// ---------------------------------------------------------------- reserved-property classification, end to end

type c19Kind struct {
	name string // Coq constructor
	text string
}

var c19Kinds = []c19Kind{{"KNull", "null"}, {"KTrue", "true"}, {"KFalse", "false"}, {"KNum", "7"}, {"KStr", `"s"`}, {"KObj", "{}"}}

var c19ResKeys = []string{"_id", "_rev", "_cv", "_exp", "_revisions", "_attachments", "_deleted", "_removed", "_purged", "_sync", "_sync_x", "_sync_",
	"_syncx", "_", "_idx", "__proto__", "_attachmentsx", "_deletedx", "_Id", "id"}

type c19Member struct {
	key     string
	kind    c19Kind
	escaped bool // the first byte of the key is written as a \u00XX escape in the text
}

func (m c19Member) keyText() string {
	if m.escaped && len(m.key) > 0 {
		return fmt.Sprintf(`\u%04x`, m.key[0]) + m.key[1:]
	}
	return m.key
}

func c19KindOf(v any) string {
	switch x := v.(type) {
	case nil:
		return "KNull"
	case bool:
		if x {
			return "KTrue"
		}
		return "KFalse"
	case json.Number, float64:
		return "KNum"
	case string:
		return "KStr"
	case map[string]any:
		return "KObj"
	}
	return "KOther"
}

type c19ResPath struct {
	name string // Coq constructor
	f    func(e *c19Env, id string, text string) int
}

var c19ResPaths = []c19ResPath{
	{"PPut", func(e *c19Env, id, text string) int { return e.admin("PUT", "/{{.keyspace}}/"+id, text).Code }},
	{"PBulk", func(e *c19Env, id, text string) int {
		// the document id travels as the _id member, as the API requires
		r := e.admin("POST", "/{{.keyspace}}/_bulk_docs", `{"docs":[`+text+`]}`)
		if r.Code != 201 {
			return r.Code
		}
		var rows []struct {
			Status int `json:"status"`
		}
		if err := json.Unmarshal(r.BodyBytes(), &rows); err != nil || len(rows) != 1 {
			return 599
		}
		if rows[0].Status != 0 {
			return rows[0].Status
		}
		return 201
	}},
	{"PBlip", func(e *c19Env, id, text string) int { return e.blipRev(id, "1-abc", text) }},
	{"PImport", func(e *c19Env, id, text string) int {
		if _, err := e.rt.GetSingleDataStore().AddRaw(e.rt.Context(), id, 0, []byte(text)); err != nil {
			return 598
		}
		return e.admin("GET", "/{{.keyspace}}/"+id, "").Code
	}},
}

// what the property text calls "reserved properties that a client must not set", per write path, as the
// theorem C19_validate_rejects_reserved states it
func c19MustNotSet(path string, m c19Member) bool {
	k := m.key
	if k == "_removed" && m.kind.name != "KNull" {
		return true
	}
	if k == "_purged" || strings.HasPrefix(k, "_sync_") {
		return true
	}
	switch path {
	case "PPut", "PBulk":
		return k == "_sync"
	case "PBlip":
		return k == "_sync" || k == "_id" || k == "_rev" || k == "_cv" || k == "_deleted" || k == "_revisions"
	case "PImport":
		return k == "_id" || k == "_rev" || k == "_cv" || k == "_exp" || k == "_revisions" || k == "_sync"
	}
	return false
}

func (e *c19Env) reservedCase(stream string, p c19ResPath, ms []c19Member) {
	id := e.newID("r")
	var parts []string
	if p.name == "PBulk" {
		parts = append(parts, fmt.Sprintf(`"_id":%q`, id))
	}
	var coqMs []string
	for _, m := range ms {
		parts = append(parts, `"`+m.keyText()+`":`+m.kind.text)
		coqMs = append(coqMs, fmt.Sprintf("(%s, %s, %s)", cqStr(m.key), m.kind.name, cqBool(m.escaped)))
	}
	text := "{" + strings.Join(parts, ",") + "}"
	status := p.f(e, id, text)
	raw := e.rawBody(id)
	desc := map[string]any{"write_path": p.name, "body": text, "status": status}
	outcome := ""
	stored := map[string]any{}
	if status/100 == 2 && raw == nil {
		outcome = "ODeleted" // accepted as a tombstone: no body is kept
	} else if status/100 == 2 {
		v, err := c19Decode(raw)
		m, ok := v.(map[string]any)
		if err != nil || !ok {
			e.fail("reserved_stored_readable", "stored-body-unreadable", desc, "accepted, but the stored body is not a JSON object: "+c19Short(raw))
			return
		}
		stored = m
		keys := make([]string, 0, len(m))
		for k := range m {
			keys = append(keys, k)
		}
		sort.Strings(keys)
		var items []string
		for _, k := range keys {
			items = append(items, fmt.Sprintf("(%s, %s)", cqStr(k), c19KindOf(m[k])))
		}
		outcome = "(OStored " + cqList(items) + ")"
		desc["stored"] = string(raw)
	} else {
		outcome = fmt.Sprintf("(ORej %d)", status)
		e.rec.Err(fmt.Sprintf("%s:%d", p.name, status))
		if raw != nil && p.name != "PImport" { // (the import path starts from a stored body)
			e.fail("reserved_rejected", "rejected-but-stored", desc, "the write was rejected but a body is stored: "+c19Short(raw))
		}
	}
	nontriv := false
	for _, m := range ms {
		if strings.HasPrefix(m.key, "_") {
			nontriv = true
		}
	}
	e.rec.Case(stream, "write_"+p.name, fmt.Sprintf("CWrite %s %s %s", p.name, cqList(coqMs), outcome), desc, nontriv)
	// monitors
	for _, m := range ms {
		if c19MustNotSet(p.name, m) && status/100 == 2 {
			sig := "reserved-accepted:" + p.name + ":" + m.key
			if m.key == "_cv" {
				sig = "stored-cv-clashes-with-injected-cv" // the defect repaired by d51088e, whatever the spelling
			} else if m.escaped {
				sig = "blip-escaped-reserved-key"
				if p.name != "PBlip" {
					sig = "escaped-reserved-key:" + p.name
				}
			}
			e.fail("validate_rejects_reserved", sig, desc, fmt.Sprintf("property %q (written as %q) must be rejected on this path, but the write was accepted; stored body: %s", m.key, m.keyText(), c19Short(raw)))
		}
		if status/100 == 2 && raw != nil {
			if v, has := stored[m.key]; has && c19KindOf(v) != m.kind.name {
				e.fail("strip_only_reserved", "stored-value-altered", desc, fmt.Sprintf("value of %q was altered in the stored body", m.key))
			}
			if _, has := stored[m.key]; !has && !strings.HasPrefix(m.key, "_") {
				e.fail("strip_only_reserved", "user-property-dropped", desc, fmt.Sprintf("user property %q is missing from the stored body", m.key))
			}
		}
	}
}

func (e *c19Env) reservedStream() {
	data := c19Member{key: "a", kind: c19Kinds[3]}
	// exhaustive: path x key x kind (x plain/escaped), one reserved-looking member next to a data member
	for _, p := range c19ResPaths {
		for _, k := range c19ResKeys {
			for _, kind := range c19Kinds {
				if p.name == "PBulk" && k == "_id" {
					continue // _id is the addressing member of this path
				}
				if (p.name == "PImport" || p.name == "PBlip" || p.name == "PPut" || p.name == "PBulk") && k == "_attachments" && kind.name != "KNull" && kind.name != "KObj" {
					continue // malformed attachment metadata belongs to C14
				}
				e.reservedCase("exhaustive", p, []c19Member{{key: k, kind: kind}, data})
				if strings.HasPrefix(k, "_") {
					e.reservedCase("exhaustive", p, []c19Member{data, {key: k, kind: kind, escaped: true}})
				}
			}
		}
		e.reservedCase("exhaustive", p, []c19Member{data})
		e.reservedCase("exhaustive", p, nil)
	}
	e.rec.Extra("reserved_exhaustive_scope", "4 write paths x 20 keys x 6 value kinds x {plain, first byte escaped}, next to one data member")
	// random: two or three reserved-looking members together (order of the checks matters for the status)
	for i, n := 0, vBudget(120, 1200); i < n; i++ {
		p := c19ResPaths[e.rnd.Intn(len(c19ResPaths))]
		var ms []c19Member
		seen := map[string]bool{}
		for j, m := 0, 2+e.rnd.Intn(2); j < m; j++ {
			k := c19ResKeys[e.rnd.Intn(len(c19ResKeys))]
			kind := c19Kinds[e.rnd.Intn(len(c19Kinds))]
			if seen[k] || (p.name == "PBulk" && k == "_id") || (k == "_attachments" && kind.name != "KNull" && kind.name != "KObj") {
				continue
			}
			seen[k] = true
			ms = append(ms, c19Member{key: k, kind: kind, escaped: strings.HasPrefix(k, "_") && e.rnd.Chance(20)})
		}
		if e.rnd.Bool() {
			ms = append(ms, data)
		}
		e.reservedCase("random", p, ms)
	}
}

// ---------------------------------------------------------------- entry point

func TestVerifC19(t *testing.T) {
	rec := vNewRecorder(t, "C19", "C19.C19_Corr")
	defer rec.Finish()
	base.SetUpTestLogging(t, base.LevelError, base.KeyNone)
	rnd := vNewRand(vSeed())
	rt := NewRestTester(t, &RestTesterConfig{GuestEnabled: true, AutoImport: base.Ptr(false)})
	defer rt.Close()
	_ = rt.GetDatabase()
	// conflicting revisions are written with new_edits=false; the database option is switched on after start-up
	// because the configuration layer no longer offers it
	rt.GetDatabase().Options.AllowConflicts = base.Ptr(true)
	bt := NewBlipTesterFromSpecWithRT(rt, nil)
	defer bt.Close()
	e := &c19Env{t: t, rt: rt, bt: bt, rec: rec, rnd: rnd, gen: &c19Gen{r: rnd}}

	e.blankObjectEndToEnd() // first: the database is still empty, so the whole-feed read shows the damage
	e.injectStream()
	e.stripStream()
	e.reservedStream()
	e.fidelity(vBudget(240, 2400))
	e.acceptStream()
	{
		rt2 := NewRestTester(t, &RestTesterConfig{GuestEnabled: true, AutoImport: base.Ptr(true)})
		_ = rt2.GetDatabase()
		e.importFeedStream(rt2)
		rt2.Close()
	}
	rec.Extra("entry_points", []string{"EPut", "EPost", "EBulk", "EPutNE", "EBulkNE", "EBlip", "EBlipDelta", "EImport", "EImportFeed"})
	rec.Extra("read_exits", []string{"get", "get_revs", "get_show_exp", "bulk_get", "open_revs", "changes", "all_docs", "all_docs_revs", "blip_pull"})
	rec.Extra("write_paths", []string{"put", "post", "bulk_docs", "put_new_edits_false", "blip_rev", "import"})
	rec.Extra("read_paths", []string{"get", "get_revs", "get_rev", "open_revs", "bulk_get", "all_docs", "changes_docids", "changes_feed", "blip_pull", "old_rev_cached", "old_rev_backup", "conflicting_rev", "conflicting_rev_cached", "conflicting_bulk_get", "conflicting_open_revs",
		"promoted_{get,get_revs,get_rev,open_revs,bulk_get,all_docs,changes_docids,get_current,changes_feed,blip_pull}"})
	rec.Extra("conflict_paths", "losing leaf 1-aaa next to 1-zzz, written first (demoted) or second (arrives as non-winning), 40% of them > 250 bytes (out of line); read from the bucket after a cache flush; then the winning branch is tombstoned, the loser promoted and read through every read path")
}
