//go:build verif

package rest

// C06, deepening round: custom conflict resolvers, the three-peer chain A <-> B <-> C, re-delivery.
//
// Streams (all run real replications between RestTesters; the replications that carry a non-default resolver are
// db.ActiveReplicator instances built directly -- the REST API refuses non-default resolvers in a community build):
//
//   custom      revision-tree protocol (v3), Coq cases CScen whose pulls are PullP (rt_fun <resolver>) d:
//               JavaScript resolvers returning the local document, the remote document, a merged body, null, and
//               "mix" (the larger body number wins, equal numbers merge); localWins / remoteWins; the new corpus
//               shapes of the model (resurrection on a dead branch after a lost delete).
//   custom-vv   version-vector protocol (v4), Coq cases CG (model VVG.v): the same resolvers incl. merge (new
//               current version with both candidates as merge versions) and null; the stale-merge-version shape.
//   chain-vv    three databases, B passive towards A and C, resolvers on A and C; every step compared with VVG.v;
//               final catch-up A-pull, A-push, C-pull, C-push, A-pull must leave all three equal, the last pull
//               must not run a resolver (chain_merge_not_reconflicted), a re-run transfers nothing.
//   redeliver   the revision a pull delivered is delivered AGAIN straight to the write path
//               (PutExistingCurrentVersion / PutExistingRevWithConflictResolution, the options of the BLIP rev
//               handler) -- once immediately, once after later writes; and a finished replication is reset
//               (checkpoint rollback) and run again.  Nothing may change (redelivery_noop, checkpoint_reset_noop).
//
// Monitors added here: peers_converged (with the new structural causes), chain_converged,
// chain_merge_not_reconflicted, live_pull_keeps_document (a pull between two LIVE copies never leaves a tombstone),
// redelivery_noop, checkpoint_reset_noop, caught_up_no_transfer.

import (
	"encoding/json"
	"fmt"
	"net/http"
	"net/url"
	"sort"
	"strings"
	"sync/atomic"
	"testing"
	"time"

	"github.com/couchbase/sync_gateway/base"
	"github.com/couchbase/sync_gateway/channels"
	"github.com/couchbase/sync_gateway/db"
)

// ---------------------------------------------------------------- resolvers

type c06RS struct {
	Kind string // "default" | "local" | "remote" | "localjs" | "remotejs" | "merge" | "nil" | "mix"
	B    int    // merged body number for "merge"
}

func (r c06RS) String() string {
	if r.Kind == "merge" {
		return fmt.Sprintf("merge%d", r.B)
	}
	return r.Kind
}

// the Coq term (VVG.rspec)
func (r c06RS) coq() string {
	switch r.Kind {
	case "local", "localjs":
		return "RSLocal"
	case "remote", "remotejs":
		return "RSRemote"
	case "merge":
		return fmt.Sprintf("(RSMerge %d)", r.B)
	case "nil":
		return "RSNil"
	case "mix":
		return "RSMix"
	}
	return "RSDefault"
}

const c06MixJS = `function(conflict) {
	var l = conflict.LocalDocument, r = conflict.RemoteDocument;
	var lk = (l.k ? parseInt(l.k.substring(1)) : 0), rk = (r.k ? parseInt(r.k.substring(1)) : 0);
	if (lk > rk) { return l; }
	if (rk > lk) { return r; }
	return {k: "v" + (lk + 10)};
}`

// the built-in default policy is protocol specific (an ActiveReplicatorConfig without resolver functions does not
// resolve at all: that is what the replication manager fills in for conflict_resolution_type "default")
func (r c06RS) fn(rt *RestTester, v4 bool) (db.ConflictResolverFunc, error) {
	ctx := rt.Context()
	tmo := rt.GetDatabase().Options.JavascriptTimeout
	switch r.Kind {
	case "local":
		return db.LocalWinsConflictResolver, nil
	case "remote":
		return db.RemoteWinsConflictResolver, nil
	case "localjs":
		return db.NewCustomConflictResolver(ctx, `function(conflict) { return conflict.LocalDocument; }`, tmo)
	case "remotejs":
		return db.NewCustomConflictResolver(ctx, `function(conflict) { return conflict.RemoteDocument; }`, tmo)
	case "merge":
		return db.NewCustomConflictResolver(ctx, fmt.Sprintf(`function(conflict) { return {k: "v%d"}; }`, r.B), tmo)
	case "nil":
		return db.NewCustomConflictResolver(ctx, `function(conflict) { return null; }`, tmo)
	case "mix":
		return db.NewCustomConflictResolver(ctx, c06MixJS, tmo)
	}
	if v4 {
		return db.DefaultLWWConflictResolutionType, nil
	}
	return db.DefaultConflictResolver, nil
}

var c06xReplN atomic.Int64

// a one-shot replication of database rt with the passive database, run to completion, with its own resolver
func (e *c06Env) oneShotRS(rt *RestTester, dir db.ActiveReplicatorDirection, rs c06RS) (db.ReplicationStatus, bool) {
	for s := 0; s < 3; s++ {
		if e.rt(s) != nil && !e.waitVisible(s) {
			return db.ReplicationStatus{}, false
		}
	}
	id := fmt.Sprintf("c06x%d", c06xReplN.Add(1))
	ctx := rt.Context()
	fn, err := rs.fn(rt, e.v4)
	if err != nil {
		e.fail("resolver %s: %v", rs, err)
		return db.ReplicationStatus{}, false
	}
	sgw, err := base.SyncGatewayStats.NewDBStats(id, false, false, false, false, nil, nil)
	if err != nil {
		e.fail("replication stats: %v", err)
		return db.ReplicationStatus{}, false
	}
	rstats, err := sgw.DBReplicatorStats(id)
	if err != nil {
		e.fail("replication stats: %v", err)
		return db.ReplicationStatus{}, false
	}
	proto := db.CBMobileReplicationV3.SubprotocolString()
	if e.v4 {
		proto = db.CBMobileReplicationV4.SubprotocolString()
	}
	u, err := url.Parse(e.url)
	if err != nil {
		e.fail("passive url: %v", err)
		return db.ReplicationStatus{}, false
	}
	ar, err := db.NewActiveReplicator(ctx, &db.ActiveReplicatorConfig{ID: id, Direction: dir, RemoteDBURL: u,
		ActiveDB: &db.Database{DatabaseContext: rt.GetDatabase()}, ChangesBatchSize: 200, Continuous: false,
		ReplicationStatsMap: rstats, ConflictResolverFunc: fn, ConflictResolverFuncForHLV: fn,
		CollectionsEnabled: !rt.GetDatabase().OnlyDefaultCollection(), SupportedBLIPProtocols: []string{proto}})
	if err != nil {
		e.fail("new replicator: %v", err)
		return db.ReplicationStatus{}, false
	}
	if err := ar.Start(ctx); err != nil {
		e.fail("start replicator: %v", err)
		return db.ReplicationStatus{}, false
	}
	var st *db.ReplicationStatus
	ok := false
	deadline := time.Now().Add(90 * time.Second)
	for time.Now().Before(deadline) {
		st = ar.GetStatus(ctx)
		if st.Status == db.ReplicationStateStopped || st.Status == db.ReplicationStateError {
			ok = st.Status == db.ReplicationStateStopped
			break
		}
		time.Sleep(10 * time.Millisecond)
	}
	if err := ar.Stop(); err != nil {
		e.fail("stop replicator: %v", err)
		ok = false
	}
	if !ok {
		e.fail("one-shot replication %s did not complete (status %q %s)", id, st.Status, st.ErrorMessage)
	}
	e.lastResolved = rstats.ConflictResolvedLocalCount.Value() + rstats.ConflictResolvedRemoteCount.Value() + rstats.ConflictResolvedMergedCount.Value()
	return *st, ok
}

// a third database: a second ACTIVE peer of the same passive database
func c06AddThird(t *testing.T, e *c06Env) {
	ctx := base.TestCtx(t)
	tb := base.GetTestBucket(t)
	t.Cleanup(func() { tb.Close(ctx) })
	rt := NewRestTester(t, &RestTesterConfig{
		DatabaseConfig:     &DatabaseConfig{DbConfig: DbConfig{Name: "activedb2"}},
		SgReplicateEnabled: true,
		SyncFn:             channels.DocChannelsSyncFunction,
		CustomTestBucket:   tb.NoCloseClone(),
	})
	t.Cleanup(rt.Close)
	_ = rt.Bucket()
	e.act2 = rt
	e.src3 = rt.GetDatabase().EncodedSourceID
}

// ---------------------------------------------------------------- v3 scenarios with per-pull resolvers (stream custom)

func c06PullR(rs c06RS) c06Step { return c06Step{Kind: "pullr", RS: &rs} }

func c06CorpusCustom() []c06Scenario {
	A, B := 0, 1
	push := c06Step{Kind: "push"}
	L, R, M, MX := c06RS{Kind: "localjs"}, c06RS{Kind: "remotejs"}, c06RS{Kind: "merge", B: 9}, c06RS{Kind: "mix"}
	return []c06Scenario{
		// every answer of a JavaScript resolver on an equal-generation conflict (doc 0), a longer local branch (doc 1), a longer remote branch (doc 2)
		{"js-local", []c06Step{c06W(A, 0, c06Edit, 2), c06W(B, 0, c06Edit, 3), c06W(A, 1, c06Edit, 2), c06W(A, 1, c06Edit, 4), c06W(B, 1, c06Edit, 5),
			c06W(A, 2, c06Edit, 2), c06W(B, 2, c06Edit, 3), c06W(B, 2, c06Edit, 4), c06PullR(L), push}},
		{"js-remote", []c06Step{c06W(A, 0, c06Edit, 2), c06W(B, 0, c06Edit, 3), c06W(A, 1, c06Edit, 2), c06W(A, 1, c06Edit, 4), c06W(B, 1, c06Edit, 5),
			c06W(A, 2, c06Edit, 2), c06W(B, 2, c06Edit, 3), c06W(B, 2, c06Edit, 4), c06PullR(R), push}},
		{"js-merge", []c06Step{c06W(A, 0, c06Edit, 2), c06W(B, 0, c06Edit, 3), c06W(A, 1, c06Edit, 2), c06W(A, 1, c06Edit, 4), c06W(B, 1, c06Edit, 5),
			c06PullR(M), push, c06W(B, 0, c06Edit, 4), c06W(A, 0, c06Edit, 5), c06PullR(M), push}},
		// the built-in policies, a merge followed by local-wins and remote-wins on the merged revision
		{"builtin-local-remote", []c06Step{c06W(A, 0, c06Edit, 2), c06W(B, 0, c06Edit, 3), c06W(A, 1, c06Edit, 3), c06W(B, 1, c06Edit, 2),
			c06PullR(c06RS{Kind: "local"}), c06W(B, 1, c06Edit, 4), c06PullR(c06RS{Kind: "remote"}), push}},
		{"merge-then-local-then-remote", []c06Step{c06W(A, 0, c06Edit, 2), c06W(B, 0, c06Edit, 3), c06PullR(M), c06W(B, 0, c06Edit, 4), c06PullR(L), push,
			c06W(A, 0, c06Edit, 5), c06W(B, 0, c06Edit, 2), c06PullR(R), push}},
		// mix: larger body number wins, equal numbers merge; a tombstone counts as 0
		{"mix", []c06Step{c06W(A, 0, c06Edit, 3), c06W(B, 0, c06Edit, 2), c06W(A, 1, c06Edit, 2), c06W(B, 1, c06Edit, 3), c06W(A, 2, c06Edit, 4), c06W(B, 2, c06Edit, 5), c06W(B, 2, c06Edit, 4),
			c06PullR(MX), push, c06W(A, 0, c06Edit, 4), c06W(B, 0, c06Delete, 0), c06W(B, 1, c06Edit, 5), c06W(A, 1, c06Delete, 0), c06PullR(MX), push}},
		// the divergence the model predicts beyond the recorded ones: a resurrection on the dead branch after a lost delete
		{"resurrect-after-lost-delete", []c06Step{c06W(A, 0, c06Edit, 2), c06W(A, 0, c06Edit, 3), c06W(A, 0, c06Edit, 4), c06W(B, 0, c06Edit, 5),
			c06PullR(c06RS{Kind: "default"}), push, c06W(A, 0, c06Delete, 0), c06W(A, 0, c06Resurrect, 6)}},
		// a resolver that answers null
		{"js-null", []c06Step{c06W(A, 0, c06Edit, 2), c06W(B, 0, c06Edit, 3), c06PullR(c06RS{Kind: "nil"}), push}},
	}
}

// random plans: the shape of c06Plan with a resolver drawn for every pull
func c06PlanCustom(rng *vRand, n int, ndocs int) []c06Step {
	kinds := []c06RS{{Kind: "localjs"}, {Kind: "remotejs"}, {Kind: "merge", B: 9}, {Kind: "mix"}, {Kind: "local"}, {Kind: "remote"}, {Kind: "default"}, {Kind: "merge", B: 8}}
	var plan []c06Step
	for len(plan) < n {
		x := rng.Intn(100)
		switch {
		case x < 60:
			plan = append(plan, c06Step{Kind: "w", Side: rng.Intn(2), Doc: rng.Intn(ndocs), W: rng.Intn(100), Body: 2 + rng.Intn(4)})
		case x < 82:
			plan = append(plan, c06PullR(kinds[rng.Intn(len(kinds))]))
		default:
			plan = append(plan, c06Step{Kind: "push"})
		}
	}
	return plan
}

// ---------------------------------------------------------------- v4 scenarios on the general model (streams custom-vv, chain-vv)

type c06GStep struct {
	Kind string // "w" | "pull" | "push"
	Side int    // writer / the active database that replicates: 0 = A, 2 = C
	Doc  int
	W    int
	Body int
	RS   c06RS
}

func (s c06GStep) String() string {
	nm := map[int]string{0: "A", 1: "B", 2: "C"}[s.Side]
	switch s.Kind {
	case "w":
		return fmt.Sprintf("%s%s d%d b%d", map[int]string{c06Edit: "edit", c06Delete: "delete", c06Resurrect: "resurrect"}[s.W], nm, s.Doc, s.Body)
	case "pull":
		return fmt.Sprintf("pull%s:%s", nm, s.RS)
	}
	return "push" + nm
}

func c06GW(side, doc, kind, body int) c06GStep {
	return c06GStep{Kind: "w", Side: side, Doc: doc, W: kind, Body: body}
}
func c06GPull(side int, rs c06RS) c06GStep { return c06GStep{Kind: "pull", Side: side, RS: rs} }
func c06GPush(side int) c06GStep           { return c06GStep{Kind: "push", Side: side} }

type c06GScenario struct {
	name  string
	chain bool
	plan  []c06GStep
	final c06RS // the resolver of the catch-up pulls
}

type c06GRunner struct {
	e     *c06Env
	npeer int
	steps []string // GSt terms
	descs []string
	djs   []any
	abort bool
}

func (r *c06GRunner) snapshot() (string, []map[string]any, bool) {
	var items []string
	var js []map[string]any
	ok := true
	for i, d := range r.e.docs {
		row := map[string]any{"doc": i}
		for p := 0; p < r.npeer; p++ {
			o := r.e.observe(p, d)
			so, okp := r.e.vObs(o)
			ok = ok && okp
			items = append(items, fmt.Sprintf("(%d, %d, %s)", p+1, i, so))
			row[map[int]string{0: "A", 1: "B", 2: "C"}[p]] = []any{o.CV, o.Deleted, o.Body}
		}
		js = append(js, row)
	}
	return cqList(items), js, ok
}

func (r *c06GRunner) record(desc string, ops []string, counts string) {
	after, js, ok := r.snapshot()
	if !ok {
		r.e.fail("unexpected document body or version after %s", desc)
		r.abort = true
	}
	r.steps = append(r.steps, fmt.Sprintf("GSt %s %s %s", cqList(ops), counts, after))
	r.descs = append(r.descs, desc)
	r.djs = append(r.djs, map[string]any{"step": desc, "after": js})
}

// a pull of database `side` from the passive one: one model transfer per document; a merge supplies the version the
// implementation generated as the model's clock reading; merged documents are listed in the order of their versions
func (r *c06GRunner) pull(s c06GStep) (db.ReplicationStatus, bool) {
	e := r.e
	before := make([]c06Obs, len(e.docs))
	for i, d := range e.docs {
		before[i] = e.observe(s.Side, d)
	}
	st, ok := e.oneShotRS(e.rt(s.Side), db.ActiveReplicatorTypePull, s.RS)
	if !ok {
		return st, false
	}
	type po struct {
		doc  int
		phys uint64
	}
	var plain, merged []po
	mySrc := e.rt(s.Side).GetDatabase().EncodedSourceID
	for i, d := range e.docs {
		a := e.observe(s.Side, d)
		if a.Exists && a.Src == mySrc && a.CV != before[i].CV {
			merged = append(merged, po{i, a.Ver})
		} else {
			plain = append(plain, po{i, 0})
		}
	}
	sort.Slice(merged, func(i, j int) bool { return merged[i].phys < merged[j].phys })
	var ops []string
	for _, p := range append(plain, merged...) {
		ops = append(ops, fmt.Sprintf("hpull %d 2 %s %d %d", s.Side+1, s.RS.coq(), p.doc, p.phys))
	}
	r.record(s.String(), ops, fmt.Sprintf("(Some (%d, %d))", st.DocsRead, st.RejectedLocal))
	return st, !r.abort
}

func (r *c06GRunner) push(s c06GStep) (db.ReplicationStatus, bool) {
	e := r.e
	st, ok := e.oneShotRS(e.rt(s.Side), db.ActiveReplicatorTypePush, c06RS{Kind: "default"})
	if !ok {
		return st, false
	}
	var ops []string
	for i := range e.docs {
		ops = append(ops, fmt.Sprintf("hpush %d 2 %d", s.Side+1, i))
	}
	r.record(s.String(), ops, fmt.Sprintf("(Some (%d, %d))", st.DocsWritten, st.DocWriteConflict))
	return st, !r.abort
}

func (r *c06GRunner) do(s c06GStep) bool {
	e := r.e
	switch s.Kind {
	case "w":
		cur := e.observe(s.Side, e.docs[s.Doc])
		kind := s.W
		switch {
		case !cur.Exists:
			kind = c06Edit
		case cur.Deleted:
			kind = c06Resurrect
		case kind == c06Resurrect:
			kind = c06Edit
		}
		if !e.write(s.Side, e.docs[s.Doc], kind, c06BodyText(s.Body)) {
			return false
		}
		if !e.wcvOK || e.wcv.SourceID != e.rt(s.Side).GetDatabase().EncodedSourceID {
			e.fail("write on side %d did not report a current version of its own source", s.Side)
			return false
		}
		op := fmt.Sprintf("GEdit %d %d %d %d", s.Side+1, s.Doc, s.Body, e.wcv.Value)
		if kind == c06Delete {
			op = fmt.Sprintf("GDelete %d %d %d", s.Side+1, s.Doc, e.wcv.Value)
		}
		s.W = kind
		r.record(s.String(), []string{op}, "None")
		return !r.abort
	case "pull":
		_, ok := r.pull(s)
		return ok
	case "push":
		_, ok := r.push(s)
		return ok
	}
	return false
}

func c06CorpusGVV() []c06GScenario {
	A, B, C := 0, 1, 2
	L, R, M, MX, N, D := c06RS{Kind: "localjs"}, c06RS{Kind: "remotejs"}, c06RS{Kind: "merge", B: 9}, c06RS{Kind: "mix"}, c06RS{Kind: "nil"}, c06RS{Kind: "default"}
	return []c06GScenario{
		// two peers, every answer of a JavaScript resolver; merges that are pushed, edited on, and merged again
		{"js-local-remote", false, []c06GStep{c06GW(A, 0, c06Edit, 2), c06GW(B, 0, c06Edit, 3), c06GW(B, 1, c06Edit, 2), c06GW(A, 1, c06Edit, 3),
			c06GPull(A, L), c06GPush(A), c06GW(A, 1, c06Edit, 4), c06GW(B, 1, c06Edit, 5), c06GPull(A, R), c06GPush(A)}, D},
		{"js-merge", false, []c06GStep{c06GW(A, 0, c06Edit, 2), c06GW(B, 0, c06Edit, 3), c06GW(A, 1, c06Edit, 2), c06GW(B, 1, c06Edit, 2), c06GPull(A, M), c06GPush(A),
			c06GW(B, 0, c06Edit, 4), c06GW(A, 0, c06Edit, 5), c06GPull(A, M), c06GW(A, 0, c06Edit, 2), c06GPush(A)}, M},
		{"builtin-local-remote", false, []c06GStep{c06GW(A, 0, c06Edit, 2), c06GW(B, 0, c06Edit, 3), c06GW(B, 1, c06Edit, 3), c06GW(A, 1, c06Edit, 2),
			c06GPull(A, c06RS{Kind: "local"}), c06GW(B, 1, c06Edit, 4), c06GPull(A, c06RS{Kind: "remote"}), c06GPush(A)}, D},
		{"mix-with-tombstones", false, []c06GStep{c06GW(A, 0, c06Edit, 3), c06GW(B, 0, c06Edit, 2), c06GW(A, 1, c06Edit, 4), c06GW(B, 1, c06Edit, 4), c06GPull(A, MX), c06GPush(A),
			c06GW(A, 0, c06Edit, 4), c06GW(B, 0, c06Delete, 0), c06GW(B, 1, c06Edit, 5), c06GW(A, 1, c06Delete, 0), c06GPull(A, MX), c06GPush(A)}, MX},
		// a merged revision whose merge version of the passive source is OLDER than the passive side's next write,
		// resolved as "local wins": the shape C06_Refuted.C06_stale_merge_version_diverges
		{"merge-then-local-stale-mv", false, []c06GStep{c06GW(A, 0, c06Edit, 2), c06GW(B, 0, c06Edit, 3), c06GPull(A, M), c06GW(B, 0, c06Edit, 4),
			c06GPull(A, L), c06GPush(A), c06GPull(A, L), c06GPush(A)}, L},
		// the local document kept against a remote TOMBSTONE, and a local tombstone kept against a remote edit
		{"js-local-vs-tombstones", false, []c06GStep{c06GW(A, 0, c06Edit, 2), c06GW(B, 1, c06Edit, 2), c06GPush(A), c06GPull(A, D), c06GW(B, 0, c06Edit, 3), c06GW(B, 0, c06Delete, 0), c06GW(A, 0, c06Edit, 5), c06GW(A, 0, c06Edit, 4),
			c06GW(A, 1, c06Delete, 0), c06GW(B, 1, c06Edit, 3), c06GPull(A, L), c06GPush(A)}, L},
		// a resolver that answers null
		{"js-null", false, []c06GStep{c06GW(A, 0, c06Edit, 2), c06GW(B, 0, c06Edit, 3), c06GPull(A, N), c06GPush(A)}, N},
		// the chain: a merge made by A reaches C through B; C merges again; A accepts C's merge without a conflict
		{"chain-merge", true, []c06GStep{c06GW(A, 0, c06Edit, 2), c06GW(B, 0, c06Edit, 3), c06GW(C, 0, c06Edit, 4), c06GPull(A, M), c06GPush(A), c06GPull(C, c06RS{Kind: "merge", B: 8}), c06GPush(C)}, D},
		{"chain-local-remote", true, []c06GStep{c06GW(A, 0, c06Edit, 2), c06GW(C, 0, c06Edit, 3), c06GW(B, 1, c06Edit, 2), c06GPush(A), c06GPull(C, L), c06GPull(A, R),
			c06GW(A, 1, c06Edit, 3), c06GW(C, 1, c06Edit, 4), c06GPull(A, D), c06GPush(A), c06GPull(C, R), c06GPush(C), c06GW(A, 0, c06Delete, 0), c06GW(C, 0, c06Edit, 5)}, D},
		{"chain-mix", true, []c06GStep{c06GW(A, 0, c06Edit, 3), c06GW(B, 0, c06Edit, 3), c06GW(C, 0, c06Edit, 5), c06GPull(A, MX), c06GPull(C, MX), c06GPush(C), c06GPush(A),
			c06GW(B, 0, c06Edit, 2), c06GW(A, 0, c06Delete, 0)}, MX},
	}
}

func c06PlanG(rng *vRand, n, ndocs int, chain bool) []c06GStep {
	kinds := []c06RS{{Kind: "localjs"}, {Kind: "remotejs"}, {Kind: "merge", B: 9}, {Kind: "mix"}, {Kind: "default"}, {Kind: "remote"}, {Kind: "merge", B: 8}, {Kind: "default"}}
	sides := []int{0, 1}
	acts := []int{0}
	if chain {
		sides, acts = []int{0, 1, 2}, []int{0, 2}
	}
	var plan []c06GStep
	for len(plan) < n {
		x := rng.Intn(100)
		switch {
		case x < 55:
			w := c06Edit
			if rng.Chance(25) {
				w = c06Delete
			}
			plan = append(plan, c06GW(sides[rng.Intn(len(sides))], rng.Intn(ndocs), w, 2+rng.Intn(4)))
		case x < 80:
			plan = append(plan, c06GPull(acts[rng.Intn(len(acts))], kinds[rng.Intn(len(kinds))]))
		default:
			plan = append(plan, c06GPush(acts[rng.Intn(len(acts))]))
		}
	}
	return plan
}

// the stale-merge-version shape read off the stored vectors: the active side's vector lists the passive side's
// source among its merge versions with a value below the passive side's current version
func (e *c06Env) staleMergeVersion(docID string) bool {
	collA, ctxA := e.act.GetSingleTestDatabaseCollectionWithUser()
	collB, ctxB := e.pas.GetSingleTestDatabaseCollectionWithUser()
	a, errA := collA.GetDocument(ctxA, docID, db.DocUnmarshalAll)
	b, errB := collB.GetDocument(ctxB, docID, db.DocUnmarshalAll)
	if errA != nil || errB != nil || a == nil || b == nil || a.HLV == nil || b.HLV == nil {
		return false
	}
	mv, ok := a.HLV.MergeVersions[b.HLV.SourceID]
	return ok && mv < b.HLV.Version
}

func c06RawBody(e *c06Env, side int, docID string) string {
	coll, ctx := e.rt(side).GetSingleTestDatabaseCollectionWithUser()
	doc, err := coll.GetDocument(ctx, docID, db.DocUnmarshalAll)
	if err != nil || doc == nil {
		return ""
	}
	bb, _ := doc.BodyBytes(ctx)
	return string(bb)
}

// the signature of a divergence between the active database (side) and the passive one under a custom resolver
func c06CustomSig(e *c06Env, side int, docID string, a, b c06Obs) string {
	prefix := "rt:"
	if e.v4 {
		prefix = "vv:"
	}
	if a.state() == "live" && c06RawBody(e, side, docID) == db.DeletedDocument {
		return prefix + "diverged:null-merge-stored-live"
	}
	if e.v4 && side == 0 && e.staleMergeVersion(docID) {
		return "vv:diverged:local-wins-on-stale-merge-version"
	}
	return c06StateSig(e.v4, a, b)
}

func c06RunG(t *testing.T, rec *vRecorder, stream string, sc c06GScenario) {
	e := c06NewEnv(t, true, 2, "g")
	npeer := 2
	if sc.chain {
		c06AddThird(t, e)
		npeer = 3
	}
	r := &c06GRunner{e: e, npeer: npeer}
	nontrivial := false
	for _, s := range sc.plan {
		if s.Kind == "pull" && s.RS.Kind != "default" {
			nontrivial = true
		}
		// a pull between two live copies must leave a live document
		var liveBefore []bool
		if s.Kind == "pull" && s.RS.Kind != "nil" { // a resolver that answers null ASKS for a delete
			for _, d := range e.docs {
				x, y := e.observe(s.Side, d), e.observe(1, d)
				liveBefore = append(liveBefore, x.Exists && !x.Deleted && y.Exists && !y.Deleted)
			}
		}
		if !r.do(s) {
			break
		}
		if s.Kind == "pull" && liveBefore != nil {
			for i, d := range e.docs {
				if x := e.observe(s.Side, d); liveBefore[i] && (!x.Exists || x.Deleted) {
					rec.Fail("live_pull_keeps_document", "vv:live-live-pull-left-tombstone", map[string]any{"protocol": c06Proto(true), "scenario": sc.name, "steps": append([]string{}, r.descs...)},
						fmt.Sprintf("doc %d: both copies were live before %s; afterwards the pulling side shows {rev %s cv %s deleted %v}", i, s, x.Rev, x.CV, x.Deleted))
				}
			}
		}
	}
	if len(e.infra) == 0 && !r.abort {
		// catch up
		seq := []c06GStep{c06GPull(0, sc.final), c06GPush(0)}
		if sc.chain {
			seq = append(seq, c06GPull(2, sc.final), c06GPush(2), c06GPull(0, sc.final))
		}
		ok := true
		var lastPullResolved int64
		for _, s := range seq {
			if ok = r.do(s); !ok {
				break
			}
			lastPullResolved = e.lastResolved
		}
		if ok {
			input := map[string]any{"protocol": c06Proto(true), "scenario": sc.name, "steps": append([]string{}, r.descs...)}
			diverged := false
			for i, d := range e.docs {
				a, b := e.observe(0, d), e.observe(1, d)
				same := func(x, y c06Obs) bool {
					return x.Exists == y.Exists && x.Deleted == y.Deleted && x.Body == y.Body && x.CV == y.CV
				}
				if !same(a, b) {
					diverged = true
					mon := "peers_converged"
					if sc.chain {
						mon = "chain_converged"
					}
					rec.Fail(mon, c06CustomSig(e, 0, d, a, b), input, fmt.Sprintf("doc %d after the catch-up: A {rev %s cv %s deleted %v body %s} B {rev %s cv %s deleted %v body %s}",
						i, a.Rev, a.CV, a.Deleted, a.Body, b.Rev, b.CV, b.Deleted, b.Body))
				}
				if sc.chain {
					c := e.observe(2, d)
					if !same(c, b) {
						diverged = true
						rec.Fail("chain_converged", strings.Replace(c06CustomSig(e, 2, d, c, b), "active=", "third=", 1), input,
							fmt.Sprintf("doc %d after the catch-up: C {rev %s cv %s deleted %v body %s} B {rev %s cv %s deleted %v body %s}", i, c.Rev, c.CV, c.Deleted, c.Body, b.Rev, b.CV, b.Deleted, b.Body))
					}
				}
			}
			if sc.chain && lastPullResolved != 0 {
				rec.Fail("chain_merge_not_reconflicted", "vv:chain:last-pull-ran-a-resolver", input,
					fmt.Sprintf("the closing pull of A, after C's resolution was pushed to B, ran the resolver %d time(s)", lastPullResolved))
			}
			// re-run (of a catch-up that converged): nothing is transferred
			p2, ok1 := e.oneShotRS(e.act, db.ActiveReplicatorTypePull, sc.final)
			q2, ok2 := e.oneShotRS(e.act, db.ActiveReplicatorTypePush, c06RS{Kind: "default"})
			if ok1 && ok2 && !diverged && (p2.DocsRead != 0 || q2.DocsWritten != 0) {
				rec.Fail("caught_up_no_transfer", "rerun-transfers-documents", input, fmt.Sprintf("re-running the caught-up replication read %d and wrote %d documents", p2.DocsRead, q2.DocsWritten))
			}
			rec.Case(stream, "g-scenario", "CG\n    "+cqList(r.steps), map[string]any{"scenario": sc.name, "protocol": c06Proto(true), "steps": r.djs}, nontrivial)
			for _, d := range r.descs {
				rec.Size(strings.Fields(d)[0])
			}
		}
	}
	for _, m := range e.infra {
		rec.Err("infrastructure: " + strings.SplitN(m, ":", 2)[0])
		t.Logf("C06 %s/%s abandoned: %s", stream, sc.name, m)
	}
}

// ---------------------------------------------------------------- re-delivery

type c06Snap struct {
	o   c06Obs
	hlv string
	vec *db.HybridLogicalVector
}

func (e *c06Env) snap(side int, docID string) c06Snap {
	o := e.observe(side, docID)
	coll, ctx := e.rt(side).GetSingleTestDatabaseCollectionWithUser()
	doc, err := coll.GetDocument(ctx, docID, db.DocUnmarshalAll)
	h := ""
	if err == nil && doc != nil && doc.HLV != nil {
		b, _ := json.Marshal([]any{doc.HLV.SourceID, doc.HLV.Version, doc.HLV.MergeVersions, doc.HLV.PreviousVersions})
		h = string(b)
		return c06Snap{o: o, hlv: h, vec: doc.HLV.Copy()}
	}
	return c06Snap{o: o, hlv: h}
}

func (s c06Snap) same(t c06Snap) bool {
	if s.o.Exists != t.o.Exists || s.o.Rev != t.o.Rev || s.o.CV != t.o.CV || s.o.Deleted != t.o.Deleted || s.o.Body != t.o.Body || s.o.Seq != t.o.Seq || s.hlv != t.hlv {
		return false
	}
	if len(s.o.Tree) != len(t.o.Tree) {
		return false
	}
	for i := range s.o.Tree {
		if s.o.Tree[i] != t.o.Tree[i] {
			return false
		}
	}
	return true
}

// what a replication delivers for a document: the sender's current revision with its ancestry (and vector)
type c06Msg struct {
	ok      bool
	docID   string
	rev     string
	deleted bool
	body    string
	history []string
	hlv     *db.HybridLogicalVector
}

func (e *c06Env) message(side int, docID string) c06Msg {
	coll, ctx := e.rt(side).GetSingleTestDatabaseCollectionWithUser()
	doc, err := coll.GetDocument(ctx, docID, db.DocUnmarshalAll)
	if err != nil || doc == nil {
		return c06Msg{}
	}
	m := c06Msg{ok: true, docID: docID, rev: doc.GetRevTreeID(), deleted: doc.IsDeleted()}
	bb, _ := doc.BodyBytes(ctx)
	m.body = string(bb)
	for id := m.rev; id != ""; id = doc.History[id].Parent {
		m.history = append(m.history, id)
		if len(m.history) > 1000 {
			break
		}
	}
	if doc.HLV != nil {
		m.hlv = doc.HLV.Copy()
	}
	return m
}

// deliver the message to the write path of a database the way the BLIP rev handler of an inter-Sync-Gateway
// replication does (db/blip_handler.go processRev); resolver != nil on the active side
func (e *c06Env) deliver(side int, m c06Msg, rs *c06RS) error {
	rt := e.rt(side)
	coll, ctx := rt.GetSingleTestDatabaseCollectionWithUser()
	newDoc := &db.Document{ID: m.docID, Deleted: m.deleted}
	var body db.Body
	if err := body.Unmarshal([]byte(m.body)); err != nil {
		return err
	}
	newDoc.UpdateBody(body)
	var resolver *db.ConflictResolver
	if rs != nil {
		fn, err := rs.fn(rt, e.v4)
		if err != nil {
			return err
		}
		resolver = db.NewConflictResolver(fn, nil)
	}
	if e.v4 {
		opts := db.PutDocOptions{NewDoc: newDoc, RevTreeHistory: m.history, ForceAllowConflictingTombstone: m.deleted,
			NewDocHLV: m.hlv.Copy(), ConflictResolver: resolver, ISGRWrite: true}
		_, _, _, err := coll.PutExistingCurrentVersion(ctx, opts)
		return err
	}
	newDoc.RevID = m.rev
	opts := db.PutDocOptions{NewDoc: newDoc, RevTreeHistory: m.history, ForceAllowConflictingTombstone: m.deleted,
		DocUpdateEvent: db.ExistingVersionWithUpdateToHLV, ConflictResolver: resolver, NoConflicts: true}
	_, _, err := coll.PutExistingRevWithConflictResolution(ctx, opts)
	return err
}

// redeliver: run a conflict scenario; after every pull (push) deliver the SAME revision again to the active (passive)
// write path: nothing may change, whether the revision was stored, lost the resolution, or won it; then more writes
// on the receiving side, and the old revision once more
func c06RunRedeliver(t *testing.T, rec *vRecorder, rng *vRand, v4 bool, idx int) {
	e := c06NewEnv(t, v4, 3, "r")
	kinds := []c06RS{{Kind: "default"}, {Kind: "localjs"}, {Kind: "remotejs"}, {Kind: "merge", B: 9}, {Kind: "mix"}}
	rs := kinds[(idx+int(rng.Intn(2)))%len(kinds)]
	var descs []string
	write := func(side, doc, kind, body int) bool {
		cur := e.observe(side, e.docs[doc])
		switch {
		case !cur.Exists:
			kind = c06Edit
		case cur.Deleted:
			kind = c06Resurrect
		case kind == c06Resurrect:
			kind = c06Edit
		}
		descs = append(descs, c06Step{Kind: "w", Side: side, Doc: doc, W: kind, Body: body}.String())
		return e.write(side, e.docs[doc], kind, c06BodyText(body))
	}
	replays := 0
	check := func(side int, msgs []c06Msg, rsp *c06RS, when string) {
		for i, m := range msgs {
			if !m.ok {
				continue
			}
			before := e.snap(side, e.docs[i])
			err := e.deliver(side, m, rsp)
			after := e.snap(side, e.docs[i])
			replays++
			if !before.same(after) {
				proto := "rt:"
				if v4 {
					proto = "vv:"
				}
				sig := proto + "redelivery-changed-document"
				if !before.o.Deleted && after.o.Deleted {
					sig = proto + "redelivery-deleted-document"
				}
				// ROOT CAUSE of the recorded finding, and nothing broader: PutExistingCurrentVersion, incoming tombstone onto a
				// stored tombstone (allowConflictingTombstone) skips IsInConflict, hence the "already present" answer, and
				// runs doc.HLV.UpdateWithIncomingHLV(incoming) although the stored vector ALREADY KNOWS the incoming current
				// version.  Effect: the document is written again with the INCOMING current version -- the same one when the
				// stored tombstone carried it (new sequence, the vector may gain history, the sender's tombstone revision
				// is added to the tree), an OLDER one when the stored tombstone is newer (a merge / a later delete): the
				// stored current version is then replaced by a version it had already superseded.
				if v4 && m.deleted && m.hlv != nil && before.o.Deleted && after.o.Deleted && before.vec != nil &&
					before.vec.DominatesSource(db.Version{SourceID: m.hlv.SourceID, Value: m.hlv.Version}) &&
					after.o.Src == m.hlv.SourceID && after.o.Ver == m.hlv.Version && before.o.Body == after.o.Body {
					sig = proto + "redelivered-tombstone-rewritten"
				}
				rec.Fail("redelivery_noop", sig, map[string]any{"protocol": c06Proto(v4), "scenario": fmt.Sprintf("redeliver-%d", idx), "resolver": rs.String(), "steps": append([]string{}, descs...),
					"redelivered": map[string]any{"doc": i, "to_side": side, "rev": m.rev, "deleted": m.deleted, "when": when}},
					fmt.Sprintf("doc %d: re-delivery (%s) of revision %s to side %d (err %v) changed the stored document: before {rev %s cv %s deleted %v body %s seq %d hlv %s} after {rev %s cv %s deleted %v body %s seq %d hlv %s}",
						i, when, m.rev, side, err, before.o.Rev, before.o.CV, before.o.Deleted, before.o.Body, before.o.Seq, before.hlv, after.o.Rev, after.o.CV, after.o.Deleted, after.o.Body, after.o.Seq, after.hlv))
			}
		}
	}
	collect := func(side int) []c06Msg {
		var ms []c06Msg
		for _, d := range e.docs {
			ms = append(ms, e.message(side, d))
		}
		return ms
	}
	ok := true
	// conflicts of every kind on the three documents
	for d := range e.docs {
		shape := (idx + d) % 4
		if shape >= 1 {
			ok = ok && write(d%2, d, c06Edit, 2)
			_, ok1 := e.oneShotRS(e.act, db.ActiveReplicatorTypePushAndPull, c06RS{Kind: "default"})
			descs = append(descs, "sync")
			ok = ok && ok1
		}
		for k := 0; k < 1+rng.Intn(2) && ok; k++ {
			ok = write(1, d, c06Edit, 3+rng.Intn(3))
		}
		if shape == 2 && ok {
			ok = write(1, d, c06Delete, 0)
		}
		for k := 0; k < 1+rng.Intn(2) && ok; k++ {
			ok = write(0, d, c06Edit, 3+rng.Intn(3))
		}
		if shape == 3 && ok {
			ok = write(0, d, c06Delete, 0)
		}
	}
	if !ok || len(e.infra) > 0 {
		rec.Err("infrastructure: redeliver setup")
		return
	}
	fromB := collect(1)
	_, ok = e.oneShotRS(e.act, db.ActiveReplicatorTypePull, rs)
	descs = append(descs, "pull:"+rs.String())
	if !ok {
		rec.Err("infrastructure: redeliver pull")
		return
	}
	check(0, fromB, &rs, "right after the pull that delivered it")
	fromA := collect(0)
	_, ok = e.oneShotRS(e.act, db.ActiveReplicatorTypePush, c06RS{Kind: "default"})
	descs = append(descs, "push")
	if !ok {
		rec.Err("infrastructure: redeliver push")
		return
	}
	check(1, fromA, nil, "right after the push that delivered it")
	// later writes on both sides, then the old revisions once more
	for d := range e.docs {
		if rng.Chance(60) {
			ok = ok && write(0, d, c06Edit, 2+rng.Intn(4))
		}
		if rng.Chance(40) {
			ok = ok && write(1, d, c06Edit, 2+rng.Intn(4))
		}
	}
	if ok {
		check(0, fromB, &rs, "after later writes")
		check(1, fromA, nil, "after later writes")
	}
	rec.Count("redeliver", "redeliver", fmt.Sprintf("%v-%d-%s", v4, idx, strings.Join(descs, ";")), replays > 0)
	rec.Extra(fmt.Sprintf("redeliver_%v_%d_replays", v4, idx), replays)
	for _, m := range e.infra {
		rec.Err("infrastructure: " + strings.SplitN(m, ":", 2)[0])
	}
}

// checkpoint rollback: a continuous push-and-pull replication runs to quiescence over conflicting documents, is
// stopped, RESET (its checkpoints are removed) and started again: every change is offered again, nothing may be
// transferred or changed
func c06RunCheckpointReset(t *testing.T, rec *vRecorder, rng *vRand, v4 bool, idx int) {
	e := c06NewEnv(t, v4, 3, "k")
	var descs []string
	ok := true
	for d := range e.docs {
		for k := 0; k < 1+rng.Intn(2) && ok; k++ {
			side := (d + k + idx) % 2
			cur := e.observe(side, e.docs[d])
			kind := c06Edit
			if cur.Exists && rng.Chance(25) {
				kind = c06Delete
			}
			if cur.Exists && cur.Deleted {
				kind = c06Resurrect
			}
			body := 2 + rng.Intn(4)
			descs = append(descs, c06Step{Kind: "w", Side: side, Doc: d, W: kind, Body: body}.String())
			ok = e.write(side, e.docs[d], kind, c06BodyText(body))
		}
		for side := 0; side < 2 && ok && d != 1; side++ {
			body := 2 + rng.Intn(4)
			cur := e.observe(side, e.docs[d])
			kind := c06Edit
			if cur.Exists && cur.Deleted {
				kind = c06Resurrect
			}
			descs = append(descs, c06Step{Kind: "w", Side: side, Doc: d, W: kind, Body: body}.String())
			ok = e.write(side, e.docs[d], kind, c06BodyText(body))
		}
	}
	if !ok {
		rec.Err("infrastructure: checkpoint-reset setup")
		return
	}
	descs = append(descs, "start:both")
	if !e.sessionStart("both") || !e.waitQuiescent() || !e.sessionStop() {
		rec.Err("infrastructure: checkpoint-reset session")
		return
	}
	var before [][2]c06Snap
	for _, d := range e.docs {
		before = append(before, [2]c06Snap{e.snap(0, d), e.snap(1, d)})
	}
	r := e.act.SendAdminRequest(http.MethodPut, "/{{.db}}/_replicationStatus/"+e.sess+"?action=reset", "")
	if r.Code != 200 {
		rec.Err("infrastructure: checkpoint reset refused")
		t.Logf("C06 checkpoint-reset: reset -> %d %s", r.Code, r.BodyString())
		return
	}
	descs = append(descs, "stop", "reset", "start:both")
	// the reset completes asynchronously: "Replication cannot be started until reset is complete"
	started := false
	for dl := time.Now().Add(20 * time.Second); time.Now().Before(dl); time.Sleep(20 * time.Millisecond) {
		if q := e.act.SendAdminRequest(http.MethodPut, "/{{.db}}/_replicationStatus/"+e.sess+"?action=start", ""); q.Code == 200 {
			started = true
			break
		}
	}
	if _, okR := e.waitStatus(e.sess, db.ReplicationStateRunning, 60*time.Second); !started || !okR {
		rec.Err("infrastructure: checkpoint-reset restart")
		return
	}
	e.srun = true
	if !e.waitQuiescent() {
		rec.Err("infrastructure: checkpoint-reset restart")
		return
	}
	st, okS := e.replStatus(e.sess)
	if !e.sessionStop() || !okS {
		rec.Err("infrastructure: checkpoint-reset stop")
		return
	}
	input := map[string]any{"protocol": c06Proto(v4), "scenario": fmt.Sprintf("checkpoint-reset-%d", idx), "steps": descs}
	changed := false
	for i, d := range e.docs {
		for side := 0; side < 2; side++ {
			if now := e.snap(side, d); !before[i][side].same(now) {
				changed = true
				rec.Fail("checkpoint_reset_noop", "checkpoint-reset-changed-document", input, fmt.Sprintf("doc %d side %d: before {rev %s cv %s deleted %v seq %d} after the reset run {rev %s cv %s deleted %v seq %d}",
					i, side, before[i][side].o.Rev, before[i][side].o.CV, before[i][side].o.Deleted, before[i][side].o.Seq, now.o.Rev, now.o.CV, now.o.Deleted, now.o.Seq))
			}
		}
	}
	if !changed && (st.DocsRead != 0 || st.DocsWritten != 0) {
		rec.Fail("checkpoint_reset_noop", "checkpoint-reset-retransfers", input, fmt.Sprintf("after the reset the replication read %d and wrote %d documents (checked %d / %d)", st.DocsRead, st.DocsWritten, st.DocsCheckedPull, st.DocsCheckedPush))
	}
	rec.Count("redeliver", "checkpoint-reset", fmt.Sprintf("%v-%d-%s", v4, idx, strings.Join(descs, ";")), st.DocsCheckedPull+st.DocsCheckedPush > 0)
	rec.Extra(fmt.Sprintf("checkpoint_reset_%v_%d_checked", v4, idx), st.DocsCheckedPull+st.DocsCheckedPush)
	for _, m := range e.infra {
		rec.Err("infrastructure: " + strings.SplitN(m, ":", 2)[0])
	}
}

// ---------------------------------------------------------------- entry point of the deepening streams

func c06RunDeepening(t *testing.T, rec *vRecorder) {
	rng := vNewRand(vSeed()*15485863 + 66)
	// revision-tree protocol, custom resolvers
	for _, sc := range c06CorpusCustom() {
		sc := sc
		t.Run("custom-"+sc.name, func(t *testing.T) { c06RunScenario(t, rec, "custom", sc, false, true) })
	}
	for i := 0; i < vBudget(2, 30); i++ {
		sc := c06Scenario{name: fmt.Sprintf("custom-random-%d-%d", vSeed(), i), plan: c06PlanCustom(rng, 5+rng.Intn(6), 3)}
		t.Run(sc.name, func(t *testing.T) { c06RunScenario(t, rec, "custom", sc, false, true) })
	}
	// version-vector protocol, custom resolvers and the chain
	if base.GTestBucketPool.NumUsableBuckets() < 3 {
		rec.Err("infrastructure: fewer than 3 test buckets, chain scenarios skipped")
	}
	for _, sc := range c06CorpusGVV() {
		sc := sc
		if sc.chain && base.GTestBucketPool.NumUsableBuckets() < 3 {
			continue
		}
		stream := "custom-vv"
		if sc.chain {
			stream = "chain-vv"
		}
		t.Run(stream+"-"+sc.name, func(t *testing.T) { c06RunG(t, rec, stream, sc) })
	}
	for i := 0; i < vBudget(2, 20); i++ {
		sc := c06GScenario{name: fmt.Sprintf("custom-vv-random-%d-%d", vSeed(), i), plan: c06PlanG(rng, 5+rng.Intn(6), 2, false), final: c06RS{Kind: "default"}}
		t.Run(sc.name, func(t *testing.T) { c06RunG(t, rec, "custom-vv", sc) })
	}
	for i := 0; i < vBudget(2, 20) && base.GTestBucketPool.NumUsableBuckets() >= 3; i++ {
		sc := c06GScenario{name: fmt.Sprintf("chain-vv-random-%d-%d", vSeed(), i), chain: true, plan: c06PlanG(rng, 6+rng.Intn(6), 2, true), final: c06RS{Kind: "default"}}
		t.Run(sc.name, func(t *testing.T) { c06RunG(t, rec, "chain-vv", sc) })
	}
	// re-delivery
	for i := 0; i < vBudget(2, 10); i++ {
		i := i
		t.Run(fmt.Sprintf("redeliver-rt-%d", i), func(t *testing.T) { c06RunRedeliver(t, rec, rng, false, i) })
		t.Run(fmt.Sprintf("redeliver-vv-%d", i), func(t *testing.T) { c06RunRedeliver(t, rec, rng, true, i) })
	}
	for i := 0; i < vBudget(1, 6); i++ {
		i := i
		t.Run(fmt.Sprintf("checkpoint-reset-rt-%d", i), func(t *testing.T) { c06RunCheckpointReset(t, rec, rng, false, i) })
		t.Run(fmt.Sprintf("checkpoint-reset-vv-%d", i), func(t *testing.T) { c06RunCheckpointReset(t, rec, rng, true, i) })
	}
}
