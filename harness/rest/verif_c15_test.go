//go:build verif

package rest

import (
	"context"
	"encoding/json"
	"errors"
	"fmt"
	"net/http"
	"os"
	"sort"
	"strconv"
	"strings"
	"sync/atomic"
	"testing"
	"time"

	"github.com/couchbase/sync_gateway/base"
	"github.com/couchbaselabs/rosmar"
)

// C15: the registry / config two-document protocol.  The real bootstrapContext (InsertConfig, UpdateConfig,
// DeleteConfig, GetDatabaseConfigs) is driven over a rosmar cluster connection wrapped in a decorator that
//   - hands control to a scheduler before EVERY storage call (so any interleaving of several nodes' storage
//     calls can be forced, step by step), and
//   - crashes a node at a chosen call: that call returns an error without being performed and every later
//     write of the node fails ("the node performs no further writes").
// Each scenario (operations + schedule) is emitted as a Coq case with the projected observables (node results,
// final registry, final config documents) and checked by Go-side monitors.

const (
	c15Group   = "vg"
	c15Insert  = 0
	c15Update  = 1
	c15Delete  = 2
	c15Load    = 3
	c15MaxStep = 400
)

type c15Op struct {
	Kind    int   `json:"kind"`
	DB      int   `json:"db,omitempty"`
	Dig     int   `json:"dig,omitempty"`
	Colls   []int `json:"colls,omitempty"`
	Patient bool  `json:"patient,omitempty"` // long configRetryTimeout: never gives up waiting within a scenario
	Hex     bool  `json:"hex,omitempty"`     // the version id this operation stamps has a 32-hex-digit digest
}

func (o c15Op) String() string {
	switch o.Kind {
	case c15Insert:
		return fmt.Sprintf("insert(db%d,1-%d,%v)", o.DB, o.Dig, o.Colls)
	case c15Update:
		return fmt.Sprintf("update(db%d,+1-%d,%v)", o.DB, o.Dig, o.Colls)
	case c15Delete:
		return fmt.Sprintf("delete(db%d)", o.DB)
	}
	return "load"
}

// a directive of a scenario: run node N for Steps storage calls (Steps<0: to completion), or crash it
type c15Dir struct {
	Node  int  `json:"node"`
	Steps int  `json:"steps,omitempty"`
	Crash bool `json:"crash,omitempty"`
}

type c15Ev struct {
	Node  int
	Crash bool
	call  int // index of the storage call executed by this step in the node's trace (-1: stutter)
}

type c15Call struct {
	Kind  string
	DB    int // >0: config document of that database; 0: registry; -1: legacy config key
	Write bool
	Err   string
}

type c15Ver struct{ Gen, Dig uint64 }

// a database stored before the scenario starts (stream "gen"): registry entry and config document at version
// "<Gen>-<Dig as 32 hex digits>" (the shape of GenerateDatabaseConfigVersionID), written directly to the bucket
type c15Preset struct {
	DB    int   `json:"db"`
	Gen   int   `json:"gen"`
	Dig   int   `json:"dig"`
	Colls []int `json:"colls"`
}

// version id as the REST layer produces it: decimal generation, '-', 32 hex digits
func c15HexVer(gen uint64, dig int) string { return fmt.Sprintf("%d-%032x", gen, dig) }

func (v c15Ver) String() string { return fmt.Sprintf("%d-%d", v.Gen, v.Dig) }

type c15RVer struct {
	Ver   c15Ver
	Colls []int
}
type c15Entry struct {
	Cur  c15RVer
	Prev *c15RVer
}
type c15Cfg struct {
	Ver   c15Ver
	Colls []int
}

type c15Result struct {
	Done   bool
	Kind   string // "ok", "loaded", or an error kind
	Loaded map[int]c15Cfg
	Raw    string
}

type c15Node struct {
	id      int
	op      c15Op
	sig     chan int // 1 = arrived at a storage call, 2 = finished
	gate    chan struct{}
	crashed atomic.Bool
	started bool
	atGate  bool
	done    bool
	calls   []c15Call
	lastReg map[int]c15Entry // registry as last read by this node (nil: never read)
	adopted bool             // performed a roll-back that adopted a config document (no previous version recorded)
	res     c15Result
}

const (
	c15SigArrived  = 1
	c15SigFinished = 2
)

// ---------- decorated connection ----------
type c15Conn struct {
	base.BootstrapConnection
	n *c15Node
}

var c15ErrCrashed = errors.New("c15: node crashed (injected storage failure)")

func c15KeyDB(key string) int {
	if key == base.SGRegistryKey {
		return 0
	}
	// _sync:dbconfig:<db>:<group>
	rest := strings.TrimPrefix(key, base.PersistentConfigPrefixWithoutGroupID)
	if rest == c15Group {
		return -1
	}
	name := strings.TrimSuffix(rest, ":"+c15Group)
	if strings.HasPrefix(name, "db") {
		if v, err := strconv.Atoi(name[2:]); err == nil {
			return v
		}
	}
	return -2
}

// enter is called before every storage call; false = the call must fail without being performed
func (c *c15Conn) enter(kind, key string, write bool) bool {
	n := c.n
	if n.crashed.Load() {
		return !write
	}
	n.calls = append(n.calls, c15Call{Kind: kind, DB: c15KeyDB(key), Write: write})
	n.sig <- c15SigArrived
	<-n.gate
	if n.crashed.Load() {
		n.calls[len(n.calls)-1].Err = "crash"
		return false
	}
	return true
}
func (c *c15Conn) leave(err error) {
	if err != nil && !c.n.crashed.Load() && len(c.n.calls) > 0 {
		c.n.calls[len(c.n.calls)-1].Err = err.Error()
	}
}

func (c *c15Conn) GetMetadataDocument(ctx context.Context, bucket, key string, valuePtr any) (uint64, error) {
	if !c.enter("get", key, false) {
		return 0, c15ErrCrashed
	}
	cas, err := c.BootstrapConnection.GetMetadataDocument(ctx, bucket, key, valuePtr)
	if key == base.SGRegistryKey && !c.n.crashed.Load() {
		if err == nil {
			if reg, ok := valuePtr.(*GatewayRegistry); ok {
				c.n.lastReg = c15RegistryEntries(reg)
			}
		} else if base.IsDocNotFoundError(err) {
			c.n.lastReg = map[int]c15Entry{}
		}
	}
	if !base.IsDocNotFoundError(err) {
		c.leave(err)
	}
	return cas, err
}
func (c *c15Conn) InsertMetadataDocument(ctx context.Context, bucket, key string, value any) (uint64, error) {
	if !c.enter("insert", key, true) {
		return 0, c15ErrCrashed
	}
	cas, err := c.BootstrapConnection.InsertMetadataDocument(ctx, bucket, key, value)
	c.leave(err)
	return cas, err
}
func (c *c15Conn) WriteMetadataDocument(ctx context.Context, bucket, key string, cas uint64, value any) (uint64, error) {
	if !c.enter("write", key, true) {
		return 0, c15ErrCrashed
	}
	casOut, err := c.BootstrapConnection.WriteMetadataDocument(ctx, bucket, key, cas, value)
	c.leave(err)
	return casOut, err
}
func (c *c15Conn) TouchMetadataDocument(ctx context.Context, bucket, key string, property, value string, cas uint64) (uint64, error) {
	if !c.enter("touch", key, true) {
		return 0, c15ErrCrashed
	}
	casOut, err := c.BootstrapConnection.TouchMetadataDocument(ctx, bucket, key, property, value, cas)
	if err == nil && c.n.lastReg != nil {
		// a roll-back of an entry that records no previous version adopts the config document itself
		if en, ok := c.n.lastReg[c15KeyDB(key)]; ok && en.Prev == nil {
			c.n.adopted = true
		}
	}
	c.leave(err)
	return casOut, err
}
func (c *c15Conn) DeleteMetadataDocument(ctx context.Context, bucket, key string, cas uint64) error {
	if !c.enter("delete", key, true) {
		return c15ErrCrashed
	}
	err := c.BootstrapConnection.DeleteMetadataDocument(ctx, bucket, key, cas)
	c.leave(err)
	return err
}
func (c *c15Conn) UpdateMetadataDocument(ctx context.Context, bucket, key string, cb func([]byte, uint64) ([]byte, error)) (uint64, error) {
	if !c.enter("update", key, true) {
		return 0, c15ErrCrashed
	}
	cas, err := c.BootstrapConnection.UpdateMetadataDocument(ctx, bucket, key, cb)
	c.leave(err)
	return cas, err
}

// ---------- naming ----------
func c15DBName(d int) string { return fmt.Sprintf("db%d", d) }
func c15Scopes(colls []int) ScopesConfig {
	if len(colls) == 0 {
		return nil
	}
	sc := ScopesConfig{}
	for _, c := range colls {
		scope, coll := "vs", fmt.Sprintf("c%d", c)
		if c == 0 {
			scope, coll = base.DefaultScope, base.DefaultCollection
		}
		s, ok := sc[scope]
		if !ok {
			s = ScopeConfig{Collections: map[string]*CollectionConfig{}}
		}
		s.Collections[coll] = &CollectionConfig{}
		sc[scope] = s
	}
	return sc
}
func c15CollID(scope, coll string) int {
	if scope == base.DefaultScope && coll == base.DefaultCollection {
		return 0
	}
	if scope == "vs" && strings.HasPrefix(coll, "c") {
		if v, err := strconv.Atoi(coll[1:]); err == nil {
			return v
		}
	}
	return 999
}
func c15ParseVer(s string) c15Ver {
	parts := strings.SplitN(s, "-", 2)
	if len(parts) != 2 {
		return c15Ver{Gen: 9999, Dig: 9999}
	}
	g, err1 := strconv.ParseUint(parts[0], 10, 64)
	d, err2 := strconv.ParseUint(parts[1], 10, 64)
	if len(parts[1]) == 32 { // GenerateDatabaseConfigVersionID shape: 32 hex digits
		d, err2 = strconv.ParseUint(parts[1], 16, 64)
	}
	if strconv.FormatUint(g, 10) != parts[0] { // the generation must be in canonical decimal form
		err1 = errors.New("non-canonical generation")
	}
	if err1 != nil || err2 != nil {
		return c15Ver{Gen: 9999, Dig: 9999}
	}
	return c15Ver{Gen: g, Dig: d}
}
func c15RegScopes(rs RegistryScopes) []int {
	out := []int{}
	for sn, s := range rs {
		for _, c := range s.Collections {
			out = append(out, c15CollID(sn, c))
		}
	}
	sort.Ints(out)
	return out
}
func c15CfgScopes(sc ScopesConfig) []int {
	out := []int{}
	for sn, s := range sc {
		for c := range s.Collections {
			out = append(out, c15CollID(sn, c))
		}
	}
	sort.Ints(out)
	return out
}
func c15RegistryEntries(reg *GatewayRegistry) map[int]c15Entry {
	out := map[int]c15Entry{}
	for g, cg := range reg.ConfigGroups {
		if g != c15Group {
			out[-1] = c15Entry{}
			continue
		}
		for name, rdb := range cg.Databases {
			d := -2
			if strings.HasPrefix(name, "db") {
				if v, err := strconv.Atoi(name[2:]); err == nil {
					d = v
				}
			}
			e := c15Entry{Cur: c15RVer{Ver: c15ParseVer(rdb.Version), Colls: c15RegScopes(rdb.Scopes)}}
			if rdb.PreviousVersion != nil {
				e.Prev = &c15RVer{Ver: c15ParseVer(rdb.PreviousVersion.Version), Colls: c15RegScopes(rdb.PreviousVersion.Scopes)}
			}
			out[d] = e
		}
	}
	return out
}

// ---------- environment: one bucket, several nodes, a scheduler ----------
type c15Env struct {
	t       *testing.T
	ctx     context.Context
	cluster *base.RosmarCluster
	bucket  string
	handle  *rosmar.Bucket
	nodes   []*c15Node
	events  []c15Ev
	maxDB   int
	pre     []c15Preset
}

var c15BucketSeq int

func c15NewEnv(t *testing.T, ctx context.Context, cluster *base.RosmarCluster, ops []c15Op) *c15Env {
	c15BucketSeq++
	e := &c15Env{t: t, ctx: ctx, cluster: cluster, bucket: fmt.Sprintf("c15b%d", c15BucketSeq)}
	h, err := rosmar.OpenBucketIn(rosmar.InMemoryURL, e.bucket, rosmar.CreateOrOpen)
	if err != nil {
		t.Fatalf("open bucket: %v", err)
	}
	e.handle = h
	for i, o := range ops {
		e.nodes = append(e.nodes, &c15Node{id: i, op: o, sig: make(chan int, 1), gate: make(chan struct{})})
		if o.DB > e.maxDB {
			e.maxDB = o.DB
		}
	}
	return e
}

// preset stores databases at chosen versions without running the operations that would lead there: the registry is
// built by the real upsertDatabaseConfig and written by the real setGatewayRegistry through the undecorated connection
func (e *c15Env) preset(pre []c15Preset) {
	if len(pre) == 0 {
		return
	}
	bc := &bootstrapContext{Connection: e.cluster, sgVersion: *base.ProductVersion}
	reg := NewGatewayRegistry(*base.ProductVersion)
	for _, p := range pre {
		name := c15DBName(p.DB)
		cfg := &DatabaseConfig{Version: c15HexVer(uint64(p.Gen), p.Dig), MetadataID: name,
			DbConfig: DbConfig{Name: name, BucketConfig: BucketConfig{Bucket: &e.bucket}, Scopes: c15Scopes(p.Colls)}}
		if _, err := reg.upsertDatabaseConfig(e.ctx, c15Group, cfg); err != nil {
			e.t.Fatalf("c15 preset: upsert %s: %v", name, err)
		}
		if _, err := e.cluster.InsertMetadataDocument(e.ctx, e.bucket, PersistentConfigKey(e.ctx, c15Group, name), cfg); err != nil {
			e.t.Fatalf("c15 preset: config %s: %v", name, err)
		}
		if p.DB > e.maxDB {
			e.maxDB = p.DB
		}
	}
	if err := bc.setGatewayRegistry(e.ctx, e.bucket, reg); err != nil {
		e.t.Fatalf("c15 preset: registry: %v", err)
	}
}

func (e *c15Env) close() {
	// crash whatever is still waiting at a gate, then drop the bucket
	for _, n := range e.nodes {
		if n.started && !n.done {
			e.crash(n)
		}
	}
	_ = e.handle.CloseAndDelete(e.ctx)
}

func (e *c15Env) runOp(n *c15Node) {
	timeout := time.Nanosecond
	if n.op.Patient {
		timeout = 60 * time.Second
	}
	bc := &bootstrapContext{Connection: &c15Conn{BootstrapConnection: e.cluster, n: n}, configRetryTimeout: timeout, sgVersion: *base.ProductVersion}
	var err error
	var loaded []*DatabaseConfig
	name := c15DBName(n.op.DB)
	switch n.op.Kind {
	case c15Insert:
		version := fmt.Sprintf("1-%d", n.op.Dig)
		if n.op.Hex {
			version = c15HexVer(1, n.op.Dig)
		}
		cfg := &DatabaseConfig{Version: version, MetadataID: name,
			DbConfig: DbConfig{Name: name, BucketConfig: BucketConfig{Bucket: &e.bucket}, Scopes: c15Scopes(n.op.Colls)}}
		_, err = bc.InsertConfig(e.ctx, e.bucket, c15Group, cfg)
	case c15Update:
		_, err = bc.UpdateConfig(e.ctx, e.bucket, c15Group, name, func(cur *DatabaseConfig) (*DatabaseConfig, error) {
			v := c15ParseVer(cur.Version)
			cur.Version = fmt.Sprintf("%d-%d", v.Gen+1, n.op.Dig)
			if n.op.Hex {
				cur.Version = c15HexVer(v.Gen+1, n.op.Dig)
			}
			cur.Scopes = c15Scopes(n.op.Colls)
			return cur, nil
		})
	case c15Delete:
		err = bc.DeleteConfig(e.ctx, e.bucket, c15Group, name)
	case c15Load:
		loaded, err = bc.GetDatabaseConfigs(e.ctx, e.bucket, c15Group)
	}
	r := c15Result{Done: true}
	if err != nil {
		r.Kind = c15ErrKind(err)
		r.Raw = err.Error()
	} else if n.op.Kind == c15Load {
		r.Kind = "loaded"
		r.Loaded = map[int]c15Cfg{}
		for _, c := range loaded {
			d := -2
			if strings.HasPrefix(c.Name, "db") {
				if v, perr := strconv.Atoi(c.Name[2:]); perr == nil {
					d = v
				}
			}
			r.Loaded[d] = c15Cfg{Ver: c15ParseVer(c.Version), Colls: c15CfgScopes(c.Scopes)}
		}
	} else {
		r.Kind = "ok"
	}
	n.res = r
	n.sig <- c15SigFinished
}

func c15ErrKind(err error) string {
	msg := err.Error()
	switch {
	case errors.Is(err, c15ErrCrashed) || strings.Contains(msg, c15ErrCrashed.Error()):
		return "crashed"
	case err == base.ErrNotFound:
		return "ENotFound"
	case err == base.ErrAlreadyExists:
		return "EExists"
	case err == base.ErrConfigRegistryReloadRequired:
		return "EReload"
	case err == base.ErrConfigVersionMismatch:
		return "ENewer"
	case strings.Contains(msg, "failed to persist") || strings.Contains(msg, "failed to finalize"):
		return "ECasRetries"
	case strings.Contains(msg, "registry reload limit reached"):
		return "ELimit"
	case strings.Contains(msg, "Rollback cancelled"):
		return "ECancelled"
	case strings.Contains(msg, "Attempted to remove database") || strings.Contains(msg, "Unable to roll back registry"):
		return "ERegMissing"
	}
	if status, _ := base.ErrorAsHTTPStatus(err); status == http.StatusConflict && strings.Contains(msg, "Cannot update config") {
		return "EConflict"
	}
	if base.IsCasMismatch(err) || base.IsDocNotFoundError(err) || strings.Contains(msg, "Error writing") {
		return "EDocWrite"
	}
	return "other:" + msg
}

func (e *c15Env) wait(n *c15Node) {
	select {
	case s := <-n.sig:
		if s == c15SigArrived {
			n.atGate = true
		} else {
			n.atGate = false
			n.done = true
		}
	case <-time.After(90 * time.Second):
		e.t.Fatalf("c15: node %d (%s) did not reach its next storage call", n.id, n.op)
	}
}

// step runs one storage call of node i (starting it if necessary); returns false when the node had finished
func (e *c15Env) step(i int) bool {
	n := e.nodes[i]
	if n.crashed.Load() || n.done {
		e.events = append(e.events, c15Ev{Node: i, call: -1})
		return false
	}
	if !n.started {
		n.started = true
		go e.runOp(n)
		e.wait(n)
		if n.done { // finished without any storage call (cannot happen)
			e.events = append(e.events, c15Ev{Node: i, call: -1})
			return false
		}
	}
	e.events = append(e.events, c15Ev{Node: i, call: len(n.calls) - 1})
	n.gate <- struct{}{}
	e.wait(n)
	return true
}

func (e *c15Env) crash(n *c15Node) {
	if n.crashed.Load() || n.done {
		n.crashed.Store(true)
		return
	}
	n.crashed.Store(true)
	if n.started {
		if n.atGate {
			n.gate <- struct{}{}
		}
		for !n.done {
			e.wait(n)
			if n.atGate { // cannot happen: a crashed node no longer stops at gates
				n.gate <- struct{}{}
			}
		}
	}
}

// run executes the directives; returns false if a step budget was exhausted
func (e *c15Env) run(dirs []c15Dir) bool {
	for _, d := range dirs {
		n := e.nodes[d.Node]
		if d.Crash {
			if n.done {
				continue // nothing left to crash: the operation completed
			}
			e.events = append(e.events, c15Ev{Node: d.Node, Crash: true})
			e.crash(n)
			continue
		}
		if d.Steps < 0 {
			cnt := 0
			for !n.done && !n.crashed.Load() {
				e.step(d.Node)
				cnt++
				if cnt > c15MaxStep {
					return false
				}
			}
			continue
		}
		for k := 0; k < d.Steps; k++ {
			e.step(d.Node)
		}
	}
	return true
}

// ---------- observation through the undecorated connection ----------
type c15Final struct {
	RegExists bool
	Reg       map[int]c15Entry
	Cfgs      map[int]c15Cfg
}

func (e *c15Env) observe() c15Final {
	f := c15Final{Reg: map[int]c15Entry{}, Cfgs: map[int]c15Cfg{}}
	reg := &GatewayRegistry{}
	_, err := e.cluster.GetMetadataDocument(e.ctx, e.bucket, base.SGRegistryKey, reg)
	if err == nil {
		f.RegExists = true
		f.Reg = c15RegistryEntries(reg)
	} else if !base.IsDocNotFoundError(err) {
		e.t.Fatalf("observe registry: %v", err)
	}
	for d := 1; d <= e.maxDB; d++ {
		var cfg DatabaseConfig
		_, err := e.cluster.GetMetadataDocument(e.ctx, e.bucket, PersistentConfigKey(e.ctx, c15Group, c15DBName(d)), &cfg)
		if err == nil {
			f.Cfgs[d] = c15Cfg{Ver: c15ParseVer(cfg.Version), Colls: c15CfgScopes(cfg.Scopes)}
		} else if !base.IsDocNotFoundError(err) {
			e.t.Fatalf("observe config: %v", err)
		}
	}
	return f
}

// ---------- Coq emission ----------
func c15CqInts(v []int) string {
	parts := make([]string, len(v))
	for i, x := range v {
		parts[i] = strconv.Itoa(x)
	}
	return "[" + strings.Join(parts, ";") + "]"
}
func c15CqVer(v c15Ver) string { return fmt.Sprintf("(%d,%d)", v.Gen, v.Dig) }
func c15CqOp(o c15Op) string {
	switch o.Kind {
	case c15Insert:
		return fmt.Sprintf("OInsert %d %d %s", o.DB, o.Dig, c15CqInts(o.Colls))
	case c15Update:
		return fmt.Sprintf("OUpdate %d %d %s", o.DB, o.Dig, c15CqInts(o.Colls))
	case c15Delete:
		return fmt.Sprintf("ODelete %d", o.DB)
	}
	return "OLoad"
}
func c15SortedKeys[V any](m map[int]V) []int {
	ks := make([]int, 0, len(m))
	for k := range m {
		ks = append(ks, k)
	}
	sort.Ints(ks)
	return ks
}
func c15CqCfgs(m map[int]c15Cfg) string {
	items := []string{}
	for _, d := range c15SortedKeys(m) {
		items = append(items, fmt.Sprintf("(%d, CF %s %s)", d, c15CqVer(m[d].Ver), c15CqInts(m[d].Colls)))
	}
	return cqList(items)
}
func c15CqResult(n *c15Node) string {
	if n.crashed.Load() || !n.done {
		return "None"
	}
	switch n.res.Kind {
	case "ok":
		return "(Some ROk)"
	case "loaded":
		return "(Some (RLoaded " + c15CqCfgs(n.res.Loaded) + "))"
	}
	if strings.HasPrefix(n.res.Kind, "E") {
		return "(Some (RErr " + n.res.Kind + "))"
	}
	return "(Some (RErr ERegMissing))" // unclassified errors are reported by a monitor as well
}

func (e *c15Env) coqOpsEvs() (string, string) {
	ops := make([]string, len(e.nodes))
	for i, n := range e.nodes {
		ops[i] = c15CqOp(n.op)
	}
	evs := make([]string, len(e.events))
	for i, ev := range e.events {
		if ev.Crash {
			evs[i] = strconv.Itoa(1 + 32*ev.Node)
			continue
		}
		n := e.nodes[ev.Node]
		pick := 0
		if ev.call >= 0 && ev.call+1 < len(n.calls) && n.calls[ev.call+1].DB > 0 {
			pick = n.calls[ev.call+1].DB
		}
		expired := 1
		if n.op.Patient {
			expired = 0
		}
		evs[i] = strconv.Itoa(2 * (expired + 2*(pick+8*ev.Node)))
	}
	return cqList(ops), "[" + strings.Join(evs, ";") + "]"
}

func c15CqPresets(pre []c15Preset) string {
	items := make([]string, len(pre))
	for i, p := range pre {
		items[i] = fmt.Sprintf("(%d, (%d,%d), %s)", p.DB, p.Gen, p.Dig, c15CqInts(p.Colls))
	}
	return cqList(items)
}

func (e *c15Env) coqCase(f c15Final) string {
	opsS, evsS := e.coqOpsEvs()
	res := make([]string, len(e.nodes))
	for i, n := range e.nodes {
		res[i] = c15CqResult(n)
	}
	regItems := []string{}
	for _, d := range c15SortedKeys(f.Reg) {
		en := f.Reg[d]
		prev := "None"
		if en.Prev != nil {
			prev = fmt.Sprintf("(Some (%s, %s))", c15CqVer(en.Prev.Ver), c15CqInts(en.Prev.Colls))
		}
		regItems = append(regItems, fmt.Sprintf("(%d, E %s %s %s)", d, c15CqVer(en.Cur.Ver), c15CqInts(en.Cur.Colls), prev))
	}
	if len(e.pre) > 0 {
		return fmt.Sprintf("CRunFrom %s %s %s %s (Fin %s %s %s)", c15CqPresets(e.pre), opsS, evsS, cqList(res),
			cqBool(f.RegExists), cqList(regItems), c15CqCfgs(f.Cfgs))
	}
	return fmt.Sprintf("CRun %s %s %s (Fin %s %s %s)", opsS, evsS, cqList(res),
		cqBool(f.RegExists), cqList(regItems), c15CqCfgs(f.Cfgs))
}

// ---------- monitors (Go-side reflections of the theorem statements) ----------
func c15Live(v c15Ver) bool    { return v.Gen >= 1 }
func c15Deleted(v c15Ver) bool { return v.Gen == 0 && v.Dig == 0 }
func c15Invalid(v c15Ver) bool { return v.Gen == 0 && v.Dig == 1 }
func c15Eff(c []int) []int {
	if len(c) == 0 {
		return []int{0}
	}
	return c
}
func c15SameInts(a, b []int) bool {
	if len(a) != len(b) {
		return false
	}
	for i := range a {
		if a[i] != b[i] {
			return false
		}
	}
	return true
}
func c15Inter(a, b []int) bool {
	for _, x := range a {
		for _, y := range b {
			if x == y {
				return true
			}
		}
	}
	return false
}

// registry_ownership: no two databases (not marked invalid) own the same collection -- current sets, and
// current / in-flight previous sets
func c15MonOwnership(reg map[int]c15Entry) (string, bool) {
	held := func(r c15RVer) []int {
		if c15Invalid(r.Ver) {
			return nil
		}
		return r.Colls
	}
	ks := c15SortedKeys(reg)
	for i, a := range ks {
		for _, b := range ks[i+1:] {
			ea, eb := reg[a], reg[b]
			if c15Inter(held(ea.Cur), held(eb.Cur)) {
				return fmt.Sprintf("db%d and db%d both own a collection: %v / %v", a, b, ea.Cur.Colls, eb.Cur.Colls), false
			}
			oa, ob := held(ea.Cur), held(eb.Cur)
			if ea.Prev != nil {
				oa = append(append([]int{}, oa...), held(*ea.Prev)...)
			}
			if eb.Prev != nil {
				ob = append(append([]int{}, ob...), held(*eb.Prev)...)
			}
			if c15Inter(oa, ob) {
				return fmt.Sprintf("db%d and db%d hold a common collection (current or in-flight previous): %v / %v", a, b, oa, ob), false
			}
		}
	}
	return "", true
}

// version_linkage (the classification proved for crash-sequential runs)
func c15MonLinkage(f c15Final) (string, bool) {
	seen := map[int]bool{}
	for d, en := range f.Reg {
		seen[d] = true
		cfg, has := f.Cfgs[d]
		if !has {
			insertInFlight := c15Live(en.Cur.Ver) && (en.Prev == nil || c15Deleted(en.Prev.Ver))
			deleteInFlight := c15Deleted(en.Cur.Ver) && en.Prev != nil && c15Live(en.Prev.Ver)
			if !insertInFlight && !deleteInFlight {
				return fmt.Sprintf("db%d: registry %v/%v without a config document", d, en.Cur, en.Prev), false
			}
			continue
		}
		steady := en.Cur.Ver == cfg.Ver && c15SameInts(en.Cur.Colls, c15Eff(cfg.Colls)) && c15Live(cfg.Ver)
		updating := en.Prev != nil && en.Prev.Ver == cfg.Ver && c15SameInts(en.Prev.Colls, c15Eff(cfg.Colls)) && c15Live(en.Cur.Ver) && en.Cur.Ver.Gen == cfg.Ver.Gen+1
		deleting := c15Deleted(en.Cur.Ver) && en.Prev != nil && en.Prev.Ver == cfg.Ver
		if !steady && !updating && !deleting {
			return fmt.Sprintf("db%d: registry %v/%v does not link to config %v", d, en.Cur, en.Prev, cfg), false
		}
	}
	for d, cfg := range f.Cfgs {
		if !seen[d] {
			return fmt.Sprintf("db%d: config document %v without a registry entry", d, cfg), false
		}
	}
	return "", true
}

// load_consistent: every config returned by a completed GetDatabaseConfigs carries exactly the version the
// registry (as last read by that node) records for the database, the entry is not marked deleted, and the
// collections are those of that registry entry
func c15MonLoad(n *c15Node) (string, bool) {
	if n.op.Kind != c15Load || !n.done || n.crashed.Load() || n.res.Kind != "loaded" {
		return "", true
	}
	if n.lastReg == nil {
		return "load completed without reading the registry", false
	}
	for d, cfg := range n.res.Loaded {
		en, ok := n.lastReg[d]
		if !ok {
			return fmt.Sprintf("loaded db%d which the registry read does not list", d), false
		}
		if c15Deleted(en.Cur.Ver) {
			return fmt.Sprintf("loaded db%d although the registry marks it deleted", d), false
		}
		if en.Cur.Ver != cfg.Ver {
			return fmt.Sprintf("loaded db%d with version %v, registry read says %v", d, cfg.Ver, en.Cur.Ver), false
		}
		if !c15Invalid(cfg.Ver) && !c15SameInts(en.Cur.Colls, c15Eff(cfg.Colls)) {
			return fmt.Sprintf("loaded db%d %v with collections %v, registry entry has %v (half-applied pair)", d, cfg.Ver, cfg.Colls, en.Cur.Colls), false
		}
	}
	for d, en := range n.lastReg {
		if _, ok := n.res.Loaded[d]; !ok && !c15Deleted(en.Cur.Ver) {
			return fmt.Sprintf("load omitted db%d (registry version %v)", d, en.Cur.Ver), false
		}
	}
	return "", true
}

func c15FinalEq(a, b c15Final) bool {
	ja, _ := json.Marshal(a)
	jb, _ := json.Marshal(b)
	return string(ja) == string(jb)
}

// ---------- scenarios ----------
type c15Scenario struct {
	Name string      `json:"name"`
	Ops  []c15Op     `json:"ops"`
	Dirs []c15Dir    `json:"dirs"`
	Seq  bool        `json:"sequential"`       // at most one live node at any time (crash-sequential run)
	Pre  []c15Preset `json:"preset,omitempty"` // databases stored before the first operation starts
}

type c15Outcome struct {
	env   *c15Env
	start c15Final   // store before the first directive (empty unless the scenario has presets)
	obs   []c15Final // store after each directive
	final c15Final
	ok    bool
	desc  map[string]any
}

type c15Harness struct {
	t         *testing.T
	ctx       context.Context
	rec       *vRecorder
	cluster   *base.RosmarCluster
	nScen     int
	nCalls    int
	nUnlinked int // racing scenarios whose final store violates version_linkage (all must violate a schedule condition)
}

func c15OpStrings(ops []c15Op) []string {
	out := make([]string, len(ops))
	for i, o := range ops {
		out[i] = o.String()
		if o.Hex {
			out[i] += "[hex]"
		}
		if o.Patient {
			out[i] += "[patient]"
		}
	}
	return out
}

func c15Ins(d, dig int, colls ...int) c15Op {
	return c15Op{Kind: c15Insert, DB: d, Dig: dig, Colls: colls}
}
func c15Upd(d, dig int, colls ...int) c15Op {
	return c15Op{Kind: c15Update, DB: d, Dig: dig, Colls: colls}
}
func c15Del(d int) c15Op { return c15Op{Kind: c15Delete, DB: d} }
func c15Ld() c15Op       { return c15Op{Kind: c15Load} }

func c15Rejected(kind string) bool {
	return kind == "EConflict" || kind == "EExists" || kind == "ENotFound"
}

func c15Steady(f c15Final, d int) bool {
	en, ok := f.Reg[d]
	cfg, has := f.Cfgs[d]
	return ok && has && en.Prev == nil && en.Cur.Ver == cfg.Ver && c15Live(cfg.Ver) && c15SameInts(en.Cur.Colls, c15Eff(cfg.Colls))
}
func c15Absent(f c15Final, d int) bool {
	_, ok := f.Reg[d]
	_, has := f.Cfgs[d]
	return !ok && !has
}
func c15SameDB(a, b c15Final, d int) bool {
	ja, _ := json.Marshal([]any{a.Reg[d], a.Cfgs[d]})
	jb, _ := json.Marshal([]any{b.Reg[d], b.Cfgs[d]})
	_, oa := a.Reg[d]
	_, ob := b.Reg[d]
	_, ca := a.Cfgs[d]
	_, cb := b.Cfgs[d]
	return string(ja) == string(jb) && oa == ob && ca == cb
}

func (h *c15Harness) runScenario(stream string, sc c15Scenario) *c15Outcome {
	env := c15NewEnv(h.t, h.ctx, h.cluster, sc.Ops)
	defer env.close()
	env.pre = sc.Pre
	env.preset(sc.Pre)
	out := &c15Outcome{env: env, ok: true, start: env.observe()}
	out.desc = map[string]any{"scenario": sc.Name, "ops": c15OpStrings(sc.Ops), "dirs": sc.Dirs}
	if len(sc.Pre) > 0 {
		out.desc["preset"] = sc.Pre
	}
	desc := out.desc
	for _, d := range sc.Dirs {
		if !env.run([]c15Dir{d}) {
			out.ok = false
			break
		}
		out.obs = append(out.obs, env.observe())
	}
	f := env.observe()
	out.final = f
	h.nScen++
	if !out.ok {
		h.rec.Fail("scenario_terminates", "step-budget", desc, "an operation did not finish within the step budget")
		return out
	}
	nontrivial := false
	traces := []string{}
	for _, n := range env.nodes {
		parts := []string{}
		for _, c := range n.calls {
			e := ""
			if c.Err != "" {
				e = "!" + c.Err
				if len(e) > 24 {
					e = e[:24]
				}
			}
			parts = append(parts, fmt.Sprintf("%s:%d%s", c.Kind, c.DB, e))
		}
		traces = append(traces, fmt.Sprintf("%d %s => %s %s | %s", n.id, n.op, n.res.Kind, n.res.Raw, strings.Join(parts, " ")))
	}
	desc["trace"] = traces
	for _, n := range env.nodes {
		h.nCalls += len(n.calls)
		if n.crashed.Load() && n.started {
			nontrivial = true
		}
		if n.done && !n.crashed.Load() {
			h.rec.Err(n.res.Kind)
			if strings.HasPrefix(n.res.Kind, "other:") {
				h.rec.Fail("error_classified", "unclassified-error", desc, fmt.Sprintf("node %d (%s): %s", n.id, n.op, n.res.Raw))
			}
		}
		for _, c := range n.calls {
			if c.Kind == "touch" || (c.Write && c.Err != "" && c.Err != "crash") {
				nontrivial = true
			}
		}
	}
	kind := "seq"
	if !sc.Seq {
		kind = "race"
	}
	h.rec.Size(fmt.Sprintf("events=%03d+", (len(env.events)/10)*10))
	h.rec.Case(stream, kind, env.coqCase(f), desc, nontrivial)
	if !sc.Seq {
		// the racing theorems on the real outcome: whenever the schedule satisfies the four conditions of ProtoRace.v
		// (evaluated in Coq), the store the real code ended in must satisfy version_linkage
		_, linkOK := c15MonLinkage(f)
		opsS, evsS := env.coqOpsEvs()
		h.rec.Case(stream, "hyp", fmt.Sprintf("CHyp %s %s %s", opsS, evsS, cqBool(linkOK)), desc, !linkOK)
		if !linkOK {
			h.nUnlinked++
		}
	}

	// ----- monitors -----
	adopted := false
	for _, n := range env.nodes {
		adopted = adopted || n.adopted
	}
	for di, o := range out.obs {
		if msg, good := c15MonOwnership(o.Reg); !good {
			sig := "ownership:two-databases-own-a-collection"
			if adopted {
				sig = "ownership:rollback-adopted-config-held-by-in-flight-previous-version"
			}
			h.rec.Fail("registry_ownership", sig, desc, fmt.Sprintf("after directive %d: %s", di, msg))
			break
		}
	}
	for _, n := range env.nodes {
		if msg, good := c15MonLoad(n); !good {
			h.rec.Fail("load_consistent", "load:returned-config-does-not-match-registry", desc, fmt.Sprintf("node %d: %s", n.id, msg))
		}
	}
	if sc.Seq {
		h.seqMonitors(sc, out)
	}
	return out
}

// monitors for crash-sequential scenarios (each node's directives are contiguous; at most one live node)
func (h *c15Harness) seqMonitors(sc c15Scenario, out *c15Outcome) {
	desc := out.desc
	for di, o := range out.obs {
		if msg, good := c15MonLinkage(o); !good {
			h.rec.Fail("version_linkage", "linkage:registry-and-config-disagree", desc, fmt.Sprintf("after directive %d: %s", di, msg))
			break
		}
	}
	first := map[int]int{}
	last := map[int]int{}
	for di, d := range sc.Dirs {
		if _, ok := first[d.Node]; !ok {
			first[d.Node] = di
		}
		last[d.Node] = di
	}
	before := func(node int) c15Final {
		if first[node] == 0 {
			return out.start
		}
		return out.obs[first[node]-1]
	}
	loadSinceCrash := false
	for ni, n := range out.env.nodes {
		if _, ok := last[ni]; !ok {
			continue
		}
		pre, post := before(ni), out.obs[last[ni]]
		if n.crashed.Load() {
			if n.started {
				loadSinceCrash = false
			}
			continue
		}
		if !n.done {
			continue
		}
		d := n.op.DB
		h.rollbackMonitor(ni, n, pre, post, desc)
		switch {
		case n.op.Kind == c15Load:
			if n.res.Kind == "loaded" {
				loadSinceCrash = true
			} else {
				h.rec.Fail("progress_after_crash", "progress:load-fails:"+n.res.Kind, desc, fmt.Sprintf("node %d: GetDatabaseConfigs run alone returned %s (%s)", ni, n.res.Kind, n.res.Raw))
			}
		case c15Rejected(n.res.Kind):
			// rejected_no_change: whatever was in a steady (or absent) state is untouched
			for db := 1; db <= out.env.maxDB; db++ {
				if (c15Steady(pre, db) || c15Absent(pre, db)) && !c15SameDB(pre, post, db) {
					h.rec.Fail("rejected_no_change", "rejected:store-changed", desc, fmt.Sprintf("node %d (%s) was rejected with %s but db%d changed: %v/%v -> %v/%v", ni, n.op, n.res.Kind, db, pre.Reg[db], pre.Cfgs[db], post.Reg[db], post.Cfgs[db]))
				}
			}
			// progress: a create whose collections no live database currently owns must not be refused
			if n.op.Kind == c15Insert && n.res.Kind == "EConflict" {
				ownedByLive := false
				stalePrevious := false // a finished update left previous_version behind (versions match, nothing repairs it)
				staleDeleted := false  // a deleted marker whose empty scopes count as the default collection
				for od, en := range pre.Reg {
					if od == d {
						continue
					}
					if c15Live(en.Cur.Ver) && c15Inter(c15Eff(n.op.Colls), en.Cur.Colls) {
						ownedByLive = true
					}
					if c15Live(en.Cur.Ver) && en.Prev != nil && pre.Cfgs[od].Ver == en.Cur.Ver && c15Inter(c15Eff(n.op.Colls), c15Eff(en.Prev.Colls)) {
						stalePrevious = true
					}
					if c15Deleted(en.Cur.Ver) && c15Inter(c15Eff(n.op.Colls), []int{0}) {
						staleDeleted = true
					}
				}
				if !ownedByLive && loadSinceCrash {
					sig := "progress:create-refused-without-owner"
					if stalePrevious {
						sig = "progress:create-refused-by-stale-previous-version"
					} else if staleDeleted {
						sig = "progress:create-refused-by-stale-deleted-entry"
					}
					h.rec.Fail("progress_after_crash", sig, desc, fmt.Sprintf("node %d (%s) got 409 although no live database owns %v; registry before: %v", ni, n.op, c15Eff(n.op.Colls), pre.Reg))
				}
			}
		case n.res.Kind == "ok":
			// acked_not_lost (immediately): the acknowledged change is what the registry and the config show
			switch n.op.Kind {
			case c15Insert, c15Update:
				want := c15Ver{Gen: 1, Dig: uint64(n.op.Dig)}
				if n.op.Kind == c15Update {
					if c15Invalid(pre.Reg[d].Cur.Ver) {
						want.Gen = 1
					} else {
						want.Gen = pre.Cfgs[d].Ver.Gen + 1
					}
				}
				en, cfg := post.Reg[d], post.Cfgs[d]
				if en.Cur.Ver != want || cfg.Ver != want || !c15SameInts(en.Cur.Colls, c15Eff(n.op.Colls)) || !c15SameInts(c15Eff(cfg.Colls), c15Eff(n.op.Colls)) {
					h.rec.Fail("acked_not_lost", "acked:change-not-in-store", desc, fmt.Sprintf("node %d (%s) acknowledged, but registry %v / config %v", ni, n.op, en, cfg))
				}
				if n.op.Kind == c15Update && post.Reg[d].Prev != nil {
					h.rec.Fail("acked_not_lost", "acked:update-left-previous-version", desc, fmt.Sprintf("node %d (%s) acknowledged, but the registry still records an in-flight previous version: %v", ni, n.op, post.Reg[d]))
				}
			case c15Delete:
				if !c15Absent(post, d) {
					h.rec.Fail("acked_not_lost", "acked:delete-not-in-store", desc, fmt.Sprintf("node %d (%s) acknowledged, but registry %v / config %v", ni, n.op, post.Reg[d], post.Cfgs[d]))
				}
			}
			// ... and it stays until the next change of the same database starts
			for nj := ni + 1; nj < len(out.env.nodes); nj++ {
				if _, ok := last[nj]; !ok {
					continue
				}
				o2 := out.env.nodes[nj].op
				if o2.Kind != c15Load && o2.DB == d {
					break
				}
				if !c15SameDB(post, out.obs[last[nj]], d) {
					h.rec.Fail("acked_not_lost", "acked:lost-to-unrelated-operation", desc, fmt.Sprintf("acknowledged %s changed by node %d (%s)", n.op, nj, o2))
					break
				}
			}
		default:
			// an operation run alone after recovery failed with a non-rejection error
			if loadSinceCrash {
				h.rec.Fail("progress_after_crash", "progress:operation-fails:"+n.res.Kind, desc, fmt.Sprintf("node %d (%s) run alone returned %s (%s)", ni, n.op, n.res.Kind, n.res.Raw))
			}
		}
	}
}

// interrupted_update_rolled_back (C15/ProtoGen.v): the store shows an update of db interrupted between the registry
// write and the config-document write (registry: version vnew with previous version vold, document still at vold,
// gen vold < gen vnew -- WHATEVER the generations are).  A node that gives up waiting and runs alone, and reads that
// document (GetDatabaseConfigs, or an update / delete of the same database), classifies the document as OLDER than the
// registry (generations compared as numbers), fences it and rolls the registry back to (vold, previous collections):
// a load returns db at vold, and afterwards the in-flight marker is gone.
func (h *c15Harness) rollbackMonitor(ni int, n *c15Node, pre, post c15Final, desc map[string]any) {
	if n.op.Patient {
		return
	}
	for db := 1; db <= h.maxDBOf(pre); db++ {
		en, ok := pre.Reg[db]
		cfg, has := pre.Cfgs[db]
		if !ok || !has || en.Prev == nil || !c15Live(en.Cur.Ver) || cfg.Ver != en.Prev.Ver || en.Prev.Ver.Gen >= en.Cur.Ver.Gen {
			continue
		}
		if n.op.Kind != c15Load && n.op.DB != db {
			continue
		}
		input := map[string]any{"scenario": desc, "db": db, "registry_version": en.Cur.Ver.String(), "previous_version": en.Prev.Ver.String(),
			"config_document_version": cfg.Ver.String(), "recovering_operation": n.op.String()}
		sig := "recovery:interrupted-update-not-rolled-back"
		if n.res.Kind == "ENewer" {
			h.rec.Fail("interrupted_update_rolled_back", sig, input, fmt.Sprintf("node %d (%s) run alone: the config document of db%d (%s) is one generation BEHIND the registry (%s, previous %s) but was classified as newer: %s", ni, n.op, db, cfg.Ver, en.Cur.Ver, en.Prev.Ver, n.res.Raw))
			continue
		}
		if n.op.Kind == c15Load {
			got, loaded := n.res.Loaded[db]
			if n.res.Kind != "loaded" || !loaded || got.Ver != en.Prev.Ver {
				h.rec.Fail("interrupted_update_rolled_back", sig, input, fmt.Sprintf("node %d: GetDatabaseConfigs run alone returned %s %v for db%d, expected the previous configuration %s", ni, n.res.Kind, n.res.Loaded[db], db, en.Prev.Ver))
				continue
			}
			pe := post.Reg[db]
			if !c15Steady(post, db) || pe.Cur.Ver != en.Prev.Ver || !c15SameInts(pe.Cur.Colls, c15Eff(en.Prev.Colls)) {
				h.rec.Fail("interrupted_update_rolled_back", sig, input, fmt.Sprintf("node %d: after GetDatabaseConfigs the registry entry of db%d is %v (config %v), expected %s with no previous version", ni, db, pe, post.Cfgs[db], en.Prev.Ver))
			}
			continue
		}
		if pe, still := post.Reg[db]; still && pe.Prev != nil && pe.Cur.Ver == en.Cur.Ver && pe.Prev.Ver == en.Prev.Ver && post.Cfgs[db].Ver == cfg.Ver {
			h.rec.Fail("interrupted_update_rolled_back", sig, input, fmt.Sprintf("node %d (%s) => %s: the interrupted update of db%d is still in flight afterwards (registry %v, config %v)", ni, n.op, n.res.Kind, db, pe, post.Cfgs[db]))
		}
	}
}

func (h *c15Harness) maxDBOf(f c15Final) int {
	m := 0
	for d := range f.Reg {
		if d > m {
			m = d
		}
	}
	for d := range f.Cfgs {
		if d > m {
			m = d
		}
	}
	return m
}

// stream "gen": the protocol at EVERY generation, in particular where the decimal generation gains a digit.
// Databases are stored at generation g (version ids of the GenerateDatabaseConfigVersionID shape, written directly
// instead of running g-1 real updates); an update (to g+1) or a delete of db1 is crashed at every storage call, then
// recovered by a load, by another update, or by a load and a delete; a final load.  g spans 1..12 and 98..101
// (thorough: also 999, 1000 and 2^32).
func (h *c15Harness) generations() {
	gens := []int{1, 2, 3, 4, 5, 6, 7, 8, 9, 10, 11, 12, 98, 99, 100, 101}
	if vThorough() {
		gens = append(gens, 999, 1000, 9999, 4294967295)
	}
	hex := func(o c15Op) c15Op { o.Hex = true; return o }
	targets := []c15Op{hex(c15Upd(1, 6, 1)), c15Del(1), hex(c15Upd(1, 6, 1, 3))}
	recoveries := [][]c15Op{
		{c15Ld()},
		{hex(c15Upd(1, 7, 2))},
		{c15Ld(), c15Del(1)},
	}
	n := 0
	for gi, g := range gens {
		pres := [][]c15Preset{
			{{DB: 1, Gen: g, Dig: 161, Colls: []int{1, 2}}},
			{{DB: 1, Gen: g, Dig: 161, Colls: []int{1, 2}}, {DB: 2, Gen: gens[(gi+5)%len(gens)], Dig: 162, Colls: []int{4}}},
		}
		for ti, tgt := range targets {
			if ti == 2 && !vThorough() && g != 9 && g != 99 && g != 3 {
				continue
			}
			pre := pres[(gi+ti)%2]
			for k := 1; k <= 40; k++ {
				finished := false
				for ri, rcv := range recoveries {
					if !vThorough() && (gi+ti+k+ri)%3 != 0 {
						continue
					}
					ops := append(append([]c15Op{tgt}, rcv...), c15Ld())
					sc := c15SeqScenario(fmt.Sprintf("gen/g%d/%s/k%d/rec%d", g, tgt, k, ri), ops, 0, k)
					sc.Pre = pre
					out := h.runScenario("gen", sc)
					n++
					tn := out.env.nodes[0]
					if tn.done && !tn.crashed.Load() {
						finished = true
					}
				}
				if finished {
					break
				}
			}
		}
	}
	h.rec.Extra("generation_scenarios", n)
	h.rec.Extra("generations", gens)
}

// sequential scenario: node i runs to completion, except [crashNode] which is crashed at its k-th storage call
func c15SeqScenario(name string, ops []c15Op, crashNode, k int) c15Scenario {
	sc := c15Scenario{Name: name, Ops: ops, Seq: true}
	for i := range ops {
		if i == crashNode {
			sc.Dirs = append(sc.Dirs, c15Dir{Node: i, Steps: k - 1}, c15Dir{Node: i, Crash: true})
		} else {
			sc.Dirs = append(sc.Dirs, c15Dir{Node: i, Steps: -1})
		}
	}
	return sc
}

func (h *c15Harness) crashEnumeration() {
	pres := [][]c15Op{
		{},
		{c15Ins(1, 1, 1, 2)},
		{c15Ins(1, 1, 1, 2), c15Ins(2, 2, 3)},
		{c15Ins(1, 1, 1), c15Upd(1, 2, 1, 2)},
		{c15Ins(1, 1, 0), c15Ins(2, 2, 1)},
		{c15Ins(1, 1, 1, 2), c15Ins(2, 2, 3), c15Del(2)},
	}
	targets := []c15Op{
		c15Ins(3, 5, 3), c15Ins(2, 5, 2, 3), c15Ins(3, 5, 0, 4), c15Upd(1, 6, 1), c15Upd(1, 6, 1, 3),
		c15Upd(2, 6, 3, 4), c15Del(1), c15Del(2),
	}
	recoveries := [][]c15Op{
		{c15Ld()},
		{c15Ld(), c15Ins(3, 7, 2)},
		{c15Ld(), c15Upd(1, 7, 1, 2)},
		{c15Ld(), c15Del(1)},
		{c15Ins(2, 7, 2)},
		{c15Upd(1, 7, 2)},
		{c15Del(1)},
		{c15Ins(3, 7, 0)},
		{c15Ld(), c15Upd(2, 7, 3, 5), c15Ins(3, 8, 4)},
		{c15Ld(), c15Ins(3, 7, 0)},
	}
	// the quick tier runs every crash point with the plain load recovery and a rotating third of the others
	exhaustive := true
	n := 0
	for pi, pre := range pres {
		for ti, tgt := range targets {
			for k := 1; k <= 40; k++ {
				finished := false
				for ri, rcv := range recoveries {
					if !vThorough() && (pi+ti+k+ri)%3 != 0 && ri != 0 {
						continue
					}
					ops := append(append(append([]c15Op{}, pre...), tgt), rcv...)
					ops = append(ops, c15Ld())
					sc := c15SeqScenario(fmt.Sprintf("crash/pre%d/%s/k%d/rec%d", pi, tgt, k, ri), ops, len(pre), k)
					out := h.runScenario("exhaustive", sc)
					n++
					tn := out.env.nodes[len(pre)]
					if tn.done && !tn.crashed.Load() {
						finished = true // the target completed in fewer than k calls: this was the crash-free run
					}
				}
				if finished {
					break
				}
				if k == 40 {
					exhaustive = false
				}
			}
		}
	}
	h.rec.Extra("crash_scenarios", n)
	h.rec.Extra("exhaustive", exhaustive)
}

// ---------- races: forced schedules ----------
func c15RaceScenario(name string, pre []c15Op, racers []c15Op, sched []int, crashAfter map[int]bool) c15Scenario {
	ops := append(append([]c15Op{}, pre...), racers...)
	ops = append(ops, c15Ld())
	sc := c15Scenario{Name: name, Ops: ops}
	for i := range pre {
		sc.Dirs = append(sc.Dirs, c15Dir{Node: i, Steps: -1})
	}
	for _, r := range sched {
		sc.Dirs = append(sc.Dirs, c15Dir{Node: len(pre) + r, Steps: 1})
	}
	for r := range racers {
		if crashAfter[r] {
			sc.Dirs = append(sc.Dirs, c15Dir{Node: len(pre) + r, Crash: true})
		} else {
			sc.Dirs = append(sc.Dirs, c15Dir{Node: len(pre) + r, Steps: -1})
		}
	}
	sc.Dirs = append(sc.Dirs, c15Dir{Node: len(ops) - 1, Steps: -1})
	return sc
}

func (h *c15Harness) raceMonitors(out *c15Outcome) {
	// after everything finished or crashed, a fresh GetDatabaseConfigs (the last node) must succeed
	n := out.env.nodes[len(out.env.nodes)-1]
	if n.done && !n.crashed.Load() && n.res.Kind != "loaded" {
		h.rec.Fail("progress_after_crash", "progress:load-fails-after-race:"+n.res.Kind, out.desc, fmt.Sprintf("final GetDatabaseConfigs returned %s (%s)", n.res.Kind, n.res.Raw))
	}
}

func (h *c15Harness) races() {
	pre1 := []c15Op{c15Ins(1, 1, 1, 2)}
	pairs := []struct {
		name   string
		pre    []c15Op
		racers []c15Op
	}{
		{"upd-upd", pre1, []c15Op{c15Upd(1, 3, 1, 3), c15Upd(1, 4, 1, 4)}},
		{"upd-load", pre1, []c15Op{c15Upd(1, 3, 1), c15Ld()}},
		{"ins-load", pre1, []c15Op{c15Ins(2, 3, 3), c15Ld()}},
		{"del-upd", pre1, []c15Op{c15Del(1), c15Upd(1, 3, 1, 2, 3)}},
		{"ins-ins-overlap", pre1, []c15Op{c15Ins(2, 3, 3), c15Ins(3, 4, 3, 4)}},
		{"del-load", pre1, []c15Op{c15Del(1), c15Ld()}},
		{"upd-ins-released", pre1, []c15Op{c15Upd(1, 3, 1), c15Ins(2, 4, 2)}},
		{"ins-ins-same", nil, []c15Op{c15Ins(1, 3, 1), c15Ins(1, 4, 2)}},
		{"del-ins-same", pre1, []c15Op{c15Del(1), c15Ins(1, 4, 3)}},
		{"del-del", pre1, []c15Op{c15Del(1), c15Del(1)}},
	}
	L := vBudget(5, 9)
	n := 0
	for _, p := range pairs {
		for bits := 0; bits < 1<<L; bits++ {
			sched := make([]int, L)
			for i := 0; i < L; i++ {
				sched[i] = (bits >> i) & 1
			}
			crash := map[int]bool{}
			// a third of the schedules crash the first racer after the forced prefix
			if bits%3 == 1 {
				crash[0] = true
			}
			sc := c15RaceScenario(fmt.Sprintf("race/%s/%0*b", p.name, L, bits), p.pre, p.racers, sched, crash)
			out := h.runScenario("exhaustive", sc)
			h.raceMonitors(out)
			n++
		}
	}
	h.rec.Extra("race_scenarios", n)
}

// ---------- random schedules ----------
func (h *c15Harness) random(r *vRand) {
	N := vBudget(150, 2500)
	for it := 0; it < N; it++ {
		nOps := 3 + r.Intn(4)
		ops := []c15Op{}
		for i := 0; i < nOps; i++ {
			d := 1 + r.Intn(3)
			colls := []int{}
			for c := 0; c <= 4; c++ {
				if r.Chance(35) {
					colls = append(colls, c)
				}
			}
			if len(colls) == 0 && r.Chance(70) {
				colls = []int{1 + r.Intn(4)}
			}
			switch r.Intn(10) {
			case 0, 1, 2, 3:
				ops = append(ops, c15Ins(d, 10+i, colls...))
			case 4, 5, 6:
				ops = append(ops, c15Upd(d, 10+i, colls...))
			case 7, 8:
				ops = append(ops, c15Del(d))
			default:
				ops = append(ops, c15Ld())
			}
		}
		ops = append(ops, c15Ld())
		sc := c15Scenario{Name: fmt.Sprintf("random/%d", it), Ops: ops}
		sequential := r.Chance(40)
		sc.Seq = sequential
		if sequential {
			for i := 0; i < nOps; i++ {
				if r.Chance(35) {
					sc.Dirs = append(sc.Dirs, c15Dir{Node: i, Steps: r.Intn(7)}, c15Dir{Node: i, Crash: true})
				} else {
					sc.Dirs = append(sc.Dirs, c15Dir{Node: i, Steps: -1})
				}
			}
		} else {
			steps := 8 + r.Intn(30)
			for s := 0; s < steps; s++ {
				i := r.Intn(nOps)
				if r.Chance(6) {
					sc.Dirs = append(sc.Dirs, c15Dir{Node: i, Crash: true})
				} else {
					sc.Dirs = append(sc.Dirs, c15Dir{Node: i, Steps: 1})
				}
			}
			for i := 0; i < nOps; i++ {
				sc.Dirs = append(sc.Dirs, c15Dir{Node: i, Steps: -1})
			}
		}
		sc.Dirs = append(sc.Dirs, c15Dir{Node: nOps, Steps: -1})
		out := h.runScenario("random", sc)
		if !sequential {
			h.raceMonitors(out)
		}
	}
}

// ---------- corpus: hand-written schedules ----------
func (h *c15Harness) corpus() {
	S := func(n, k int) c15Dir { return c15Dir{Node: n, Steps: k} }
	E := func(n int) c15Dir { return c15Dir{Node: n, Steps: -1} }
	X := func(n int) c15Dir { return c15Dir{Node: n, Crash: true} }
	scs := []c15Scenario{
		// a slow creator loses its registry entry to a loader that gave up waiting, then writes its config:
		// the create is acknowledged, the database is invisible, and the next access removes the orphan document
		{Name: "corpus/slow-insert-orphan", Ops: []c15Op{c15Ins(1, 1, 1), c15Ld(), c15Ld(), c15Upd(1, 2, 1), c15Ld()},
			Dirs: []c15Dir{S(0, 3), E(1), E(0), E(2), E(3), E(4)}},
		// a slow updater is fenced by the touch of the rolling-back loader
		{Name: "corpus/slow-update-fenced", Ops: []c15Op{c15Ins(1, 1, 1, 2), c15Upd(1, 2, 1), c15Ld(), c15Ld()},
			Dirs: []c15Dir{E(0), S(1, 3), E(2), E(1), E(3)}},
		// a patient loader waits for a slow updater instead of rolling it back
		{Name: "corpus/patient-load-waits", Ops: []c15Op{c15Ins(1, 1, 1, 2), c15Upd(1, 2, 1), {Kind: c15Load, Patient: true}, c15Ld()},
			Dirs: []c15Dir{E(0), S(1, 3), S(2, 4), E(1), E(2), E(3)}},
		// a patient creator waits for an in-flight delete of the same name
		{Name: "corpus/patient-insert-waits-for-delete", Ops: []c15Op{c15Ins(1, 1, 1), c15Del(1), {Kind: c15Insert, DB: 1, Dig: 3, Colls: []int{2}, Patient: true}, c15Ld()},
			Dirs: []c15Dir{E(0), S(1, 3), S(2, 3), E(1), E(2), E(3)}},
		// the invalid marker: an orphan config is adopted by a roll-back although another database now owns its collection
		{Name: "corpus/rollback-marks-invalid", Ops: []c15Op{c15Ins(1, 1, 1), c15Ld(), c15Ins(2, 2, 1), c15Ins(1, 3, 3), c15Ld(), c15Ld(), c15Upd(1, 4, 4), c15Ld()},
			Dirs: []c15Dir{S(0, 3), E(1), E(2), S(3, 2), E(0), E(3), E(4), E(5), E(6), E(7)}},
		// the roll-back adopts an orphan config whose collection is held by another database's in-flight previous
		// version; when that update is rolled back too, two databases own collection 1
		{Name: "corpus/rollback-adopts-against-previous", Ops: []c15Op{c15Ins(1, 1, 1), c15Ld(), c15Ins(2, 2, 1), c15Upd(2, 3, 2), c15Ins(1, 4, 3), c15Ld(), c15Ld(), c15Ld()},
			Dirs: []c15Dir{S(0, 3), E(1), E(2), S(3, 3), X(3), S(4, 2), E(0), E(4), E(5), E(6), E(7)}},
	}
	for _, sc := range scs {
		out := h.runScenario("corpus", sc)
		h.raceMonitors(out)
	}
	// races that need NO stalled node (C15_Refuted.v 4b: unchanged code; 4c: repaired by cd27b43) and the late fence (4d)
	P := func(o c15Op) c15Op { o.Patient = true; return o }
	stall := []c15Scenario{
		// node 0 (create db1) reads the registry; node 1 creates db1 completely; node 0's waitForConfigDelete("")
		// times out and deletes the config document of the acknowledged create
		{Name: "corpus/stale-wait-deletes-acked-create", Ops: []c15Op{c15Ins(1, 1, 1), c15Ins(1, 2, 1), c15Ld()},
			Dirs: []c15Dir{S(0, 1), E(1), E(0), E(2)}},
		// the same with an update request for a database that does not exist yet
		{Name: "corpus/stale-wait-update-deletes-acked-create", Ops: []c15Op{c15Upd(1, 1, 1), c15Ins(1, 2, 1), c15Ld()},
			Dirs: []c15Dir{S(0, 1), E(1), E(0), E(2)}},
		// node 1 deletes db1 (config document gone), node 2 creates db1 and is acknowledged, then node 1 finalizes:
		// before the repair cd27b43 the finalize removed the new registry entry (nobody waits, nobody times out: all
		// nodes patient); the repaired finalize leaves an entry that is not marked deleted
		{Name: "corpus/delete-finalize-removes-acked-create", Ops: []c15Op{c15Ins(1, 1, 1), P(c15Del(1)), P(c15Ins(1, 2, 2)), P(c15Ld()), c15Ld()},
			Dirs: []c15Dir{E(0), S(1, 4), E(2), E(1), E(3), E(4)}},
		// a loader writes its roll-back fence long after its decision (stalled): the creator that re-attempts an
		// interrupted delete has its error swallowed and writes a registry entry over the old config document
		{Name: "corpus/late-fence-wedges-database", Ops: []c15Op{c15Ins(1, 1, 1), c15Upd(1, 2, 1), c15Ld(), c15Ld(), c15Del(1), c15Ins(1, 3, 1), c15Ld()},
			Dirs: []c15Dir{E(0), S(1, 3), X(1), S(3, 2), S(2, 4), S(3, 1), E(2), S(4, 3), X(4), S(5, 2), S(3, 1), E(5), E(3), E(6)}},
	}
	for _, sc := range stall {
		out := h.runScenario("corpus", sc)
		if !strings.Contains(sc.Name, "late-fence") {
			h.ackedRaceMonitor(out)
		}
	}
}

// acked_not_lost for the hand-written races above: every acknowledged create must be what the store shows when all
// nodes have finished, unless a LATER acknowledged change of the same database replaced it -- and two creates of the
// same database must not both be acknowledged
func (h *c15Harness) ackedRaceMonitor(out *c15Outcome) {
	if !out.ok {
		return
	}
	f := out.final
	acked := map[int][]*c15Node{}
	for _, n := range out.env.nodes {
		if n.done && !n.crashed.Load() && n.res.Kind == "ok" && n.op.Kind == c15Insert {
			acked[n.op.DB] = append(acked[n.op.DB], n)
		}
	}
	deleted := map[int]bool{}
	for _, n := range out.env.nodes {
		if n.op.Kind == c15Delete {
			deleted[n.op.DB] = true
		}
	}
	for d, ns := range acked {
		if len(ns) > 1 && !deleted[d] {
			h.rec.Fail("acked_not_lost_racing", "acked:create-lost-to-stale-wait-for-config-delete", out.desc,
				fmt.Sprintf("%d creates of db%d were acknowledged (no delete in between): %s and %s; the store holds config %v", len(ns), d, ns[0].op, ns[1].op, f.Cfgs[d]))
			continue
		}
		n := ns[len(ns)-1]
		want := c15Ver{Gen: 1, Dig: uint64(n.op.Dig)}
		en, hasReg := f.Reg[d]
		cfg, hasCfg := f.Cfgs[d]
		switch {
		case hasReg && hasCfg && en.Cur.Ver == want && cfg.Ver == want:
		case deleted[d] && !hasReg && hasCfg && cfg.Ver == want:
			h.rec.Fail("acked_not_lost_racing", "acked:create-lost-to-concurrent-delete-finalize", out.desc,
				fmt.Sprintf("%s was acknowledged, all nodes have finished, but its registry entry is gone and the config document %v is an orphan", n.op, cfg))
		case !deleted[d]:
			h.rec.Fail("acked_not_lost_racing", "acked:create-lost-to-stale-wait-for-config-delete", out.desc,
				fmt.Sprintf("%s was acknowledged, all nodes have finished, but the store shows registry %v (present=%v) / config %v (present=%v)", n.op, en, hasReg, cfg, hasCfg))
		}
	}
}

func TestVerifC15(t *testing.T) {
	base.SetUpTestLogging(t, base.LevelError, base.KeyNone)
	rec := vNewRecorder(t, "C15", "C15.C15_Corr")
	rec.shardSize = 160 // scenario terms are large: more, smaller shards evaluate in parallel
	defer rec.Finish()
	ctx := base.TestCtx(t)
	cluster, err := base.NewRosmarCluster(rosmar.InMemoryURL, false)
	if err != nil {
		t.Fatalf("cluster: %v", err)
	}
	defer cluster.Close()
	h := &c15Harness{t: t, ctx: ctx, rec: rec, cluster: cluster}

	if os.Getenv("VERIF_C15_ONLY") == "gen" { // development aid: the generation stream alone
		h.generations()
		return
	}
	t0 := time.Now()
	h.corpus()
	t1 := time.Now()
	h.crashEnumeration()
	t2 := time.Now()
	h.races()
	t3 := time.Now()
	h.random(vNewRand(vSeed()))
	h.generations()
	t4 := time.Now()
	h.applyStream(vNewRand(vSeed() + 15))
	rec.Extra("apply_seconds", time.Since(t4).Seconds())
	rec.Extra("racing_scenarios_ending_unlinked", h.nUnlinked)
	rec.Extra("scenarios", h.nScen)
	rec.Extra("storage_calls", h.nCalls)
	rec.Extra("seconds", map[string]float64{"corpus": t1.Sub(t0).Seconds(), "crash": t2.Sub(t1).Seconds(), "races": t3.Sub(t2).Seconds(), "random": t4.Sub(t3).Seconds()})
}
