//go:build verif

package rest

// C06 probe (temporary): drive explicit scenarios through ISGR and print what both peers hold.

import (
	"encoding/json"
	"fmt"
	"net/http"
	"os"
	"sort"
	"strings"
	"testing"
	"time"

	"github.com/couchbase/sync_gateway/base"
	"github.com/couchbase/sync_gateway/db"
)

type c06Env struct {
	t       *testing.T
	act     *RestTester
	pas     *RestTester
	url     string
	nrepl   int
	infra   []string
	started time.Time
}

func c06NewEnv(t *testing.T, v4 bool) *c06Env {
	proto := db.CBMobileReplicationV3.SubprotocolString()
	if v4 {
		proto = db.CBMobileReplicationV4.SubprotocolString()
	}
	peers := SetupISGRPeersWithOpts(t, TestISGRPeerOpts{ActivePeerSupportedBLIPSubProtocols: []string{proto}})
	return &c06Env{t: t, act: peers.ActiveRT, pas: peers.PassiveRT, url: peers.PassiveDBURL, started: time.Now()}
}

func (e *c06Env) rt(side int) *RestTester {
	if side == 0 {
		return e.act
	}
	return e.pas
}

type c06Obs struct {
	Exists  bool
	Rev     string
	Deleted bool
	Body    string
	Tree    []string // "id<parent{d}" sorted
}

func (e *c06Env) observe(side int, docID string) c06Obs {
	rt := e.rt(side)
	coll, ctx := rt.GetSingleTestDatabaseCollectionWithUser()
	doc, err := coll.GetDocument(ctx, docID, db.DocUnmarshalAll)
	if err != nil || doc == nil {
		return c06Obs{}
	}
	o := c06Obs{Exists: true, Rev: doc.GetRevTreeID(), Deleted: doc.IsDeleted()}
	bb, _ := doc.BodyBytes(ctx)
	o.Body = string(bb)
	for id, ri := range doc.History {
		s := id + "<" + ri.Parent
		if ri.Deleted {
			s += "{d}"
		}
		o.Tree = append(o.Tree, s)
	}
	sort.Strings(o.Tree)
	return o
}

// write: PUT (create / update / resurrect) or DELETE on the current revision
func (e *c06Env) write(side int, docID string, body string, del bool) (int, string) {
	rt := e.rt(side)
	cur := e.observe(side, docID)
	path := "/" + rt.GetSingleKeyspace() + "/" + docID
	var resp *TestResponse
	if del {
		resp = rt.SendAdminRequest(http.MethodDelete, path+"?rev="+cur.Rev, "")
	} else if cur.Exists && !cur.Deleted {
		resp = rt.SendAdminRequest(http.MethodPut, path+"?rev="+cur.Rev, body)
	} else {
		resp = rt.SendAdminRequest(http.MethodPut, path, body)
	}
	var r struct {
		Rev string `json:"rev"`
	}
	_ = json.Unmarshal(resp.BodyBytes(), &r)
	return resp.Code, r.Rev
}

func (e *c06Env) oneShot(dir db.ActiveReplicatorDirection) (db.ReplicationStatus, bool) {
	e.nrepl++
	id := fmt.Sprintf("c06r%d", e.nrepl)
	cfg := &db.ReplicationConfig{ID: id, Direction: dir, Remote: e.url, Continuous: false,
		ConflictResolutionType: db.ConflictResolverDefault, CollectionsEnabled: base.TestsUseNamedCollections()}
	payload, _ := json.Marshal(cfg)
	resp := e.act.SendAdminRequest(http.MethodPost, "/{{.db}}/_replication/", string(payload))
	if resp.Code != http.StatusCreated {
		e.infra = append(e.infra, fmt.Sprintf("create replication: %d %s", resp.Code, resp.BodyString()))
		return db.ReplicationStatus{}, false
	}
	var st db.ReplicationStatus
	deadline := time.Now().Add(60 * time.Second)
	for time.Now().Before(deadline) {
		r := e.act.SendAdminRequest(http.MethodGet, "/{{.db}}/_replicationStatus/"+id, "")
		if r.Code == 200 {
			_ = json.Unmarshal(r.BodyBytes(), &st)
			if st.Status == db.ReplicationStateStopped {
				return st, true
			}
		}
		time.Sleep(20 * time.Millisecond)
	}
	e.infra = append(e.infra, "one-shot replication did not stop: "+st.Status+" "+st.ErrorMessage)
	return st, false
}

func TestVerifC06(t *testing.T) {
	base.RequireNumTestBuckets(t, 2)
	scen := [][]string{
		{"wA:a", "dA", "wB:b", "pull", "dA", "pull", "push"},
		{"wB:a", "wA:b", "dB", "push", "dA", "pull", "push", "wA:c", "pull", "push"},
		{"wA:a", "wA:a", "wB:b", "pull", "dA", "pull", "push"},
		{"wA:a", "wA:a", "wB:a", "dB", "pull", "wA:c", "pull", "push"},
	}
	v4 := os.Getenv("C06_V4") != ""
	scen = scen[2:]
	for i, sc := range scen {
	  t.Run(fmt.Sprintf("s%d", i), func(t *testing.T) {
		t0 := time.Now()
		e := c06NewEnv(t, v4)
		t.Logf("scenario %d setup %.2fs", i, time.Since(t0).Seconds())
		doc := "doc1"
		for _, op := range sc {
			t1 := time.Now()
			var info string
			switch {
			case strings.HasPrefix(op, "wA:"), strings.HasPrefix(op, "wB:"):
				side := 0
				if op[1] == 'B' {
					side = 1
				}
				c, r := e.write(side, doc, `{"k":"`+op[3:]+`"}`, false)
				info = fmt.Sprintf("%d %s", c, r)
			case op == "dA" || op == "dB":
				side := 0
				if op[1] == 'B' {
					side = 1
				}
				c, r := e.write(side, doc, "", true)
				info = fmt.Sprintf("%d %s", c, r)
			case op == "pull":
				st, ok := e.oneShot(db.ActiveReplicatorTypePull)
				info = fmt.Sprintf("ok=%v read=%d checked=%d rejected=%d", ok, st.DocsRead, st.DocsCheckedPull, st.RejectedLocal)
			case op == "push":
				st, ok := e.oneShot(db.ActiveReplicatorTypePush)
				info = fmt.Sprintf("ok=%v written=%d checked=%d fail=%d conflict=%d rejected=%d", ok, st.DocsWritten, st.DocsCheckedPush, st.DocWriteFailures, st.DocWriteConflict, st.RejectedRemote)
			}
			a, b := e.observe(0, doc), e.observe(1, doc)
			t.Logf("  %-6s %-60s (%.2fs)\n      A: %s del=%v body=%s tree=%v\n      B: %s del=%v body=%s tree=%v", op, info, time.Since(t1).Seconds(),
				a.Rev, a.Deleted, a.Body, a.Tree, b.Rev, b.Deleted, b.Body, b.Tree)
		}
		t.Logf("infra: %v", e.infra)
	  })
	}
}
