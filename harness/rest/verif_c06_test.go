//go:build verif

package rest

// C06 -- Replicating peers converge to the same documents.
//
// Two real Sync Gateway databases (RestTesters on separate buckets) joined by inter-Sync-Gateway
// replication; the active side owns the replication and the default conflict resolver.
//
// Streams:
//   corpus / random (revision-tree sub-protocol, Coq cases): scenarios of <= 10 steps over 3 documents:
//       edits, deletes, resurrections on both sides; one-shot pull / push replications (fresh id);
//       continuous push-and-pull and pull sessions that are started, stopped and restarted, every write
//       made while a session runs being followed by a wait for quiescence.  After every step the current
//       revision / tombstone flag / body of every document on both sides is recorded; at the end the
//       replication is run to completion (pull, then push), then run AGAIN (must transfer nothing), and
//       the complete revision trees are recorded.  The Coq side re-runs the model on the same steps.
//   burst (revision-tree, monitors only): writes on both sides WITHOUT waiting while a continuous
//       push-and-pull replication runs; only quiescent observables are compared.
//   vv (version-vector sub-protocol, monitors only): the same scenario shapes under the default (v4) protocol.
//   lwread-vv (version-vector, monitors only): local-wins conflicts under push-and-pull with the active side's
//       revision read by current version while the resolution write is in flight (data-store update callback).
//   resolver (Coq cases + monitor): db.DefaultConflictResolver on pairs of (deleted, revision id), both
//       orientations.
//
//   deepening round (verif_c06_custom_test.go): custom (v3, per-pull resolvers: JavaScript local / remote / merge / null /
//       mix, localWins, remoteWins -- Coq cases with PullP), custom-vv and chain-vv (v4, any resolver, three peers --
//       Coq cases CG on the model VVG.v), redeliver (re-delivery to the write path, checkpoint reset -- monitors);
//       the vv stream is evaluated on the faithful transfer VVF.v (revision-tree clash scenarios revclash-*).
//
// Monitors (boolean reflections of the property, evaluated on what the implementation did):
//   peers_converged         after the final pull;push every document has the same current revision id
//                           (current version under vv), body and tombstone flag on both admin APIs
//   caught_up_no_transfer   re-running the caught-up replication reads / writes zero documents
//   resolver_symmetric      both orientations of DefaultConflictResolver keep the same revision
//   resolver_policy         DefaultConflictResolver keeps the revision that is highest by (deleted, generation, digest)
//   admin_api_consistent    the admin REST view of a document equals the stored document
//   live_pull_keeps_document  a one-shot pull between two LIVE copies leaves a live document on the pulling side
//   (and, in verif_c06_custom_test.go: chain_converged, chain_merge_not_reconflicted, redelivery_noop, checkpoint_reset_noop)

import (
	"encoding/json"
	"fmt"
	"math/big"
	"net/http"
	"sort"
	"strconv"
	"strings"
	"sync"
	"sync/atomic"
	"testing"
	"time"

	"github.com/couchbase/sync_gateway/base"
	"github.com/couchbase/sync_gateway/db"
)

// ---------------------------------------------------------------- environment

type c06Env struct {
	t     *testing.T
	act   *RestTester
	pas   *RestTester
	url   string
	v4    bool
	nrepl int
	infra []string
	docs  []string // document ids, index = model document number
	sess  string   // id of the continuous replication, "" if none was created
	sdir  string   // "both" | "pull"
	srun  bool
	src   [2]string  // encoded source id of the active / passive database
	wcv   db.Version // current version reported by the last successful local write
	wcvOK bool
	// deepening round: the resolver of every replication this environment creates (default policy when empty) and,
	// for the chain topology A <-> B <-> C, a second active database replicating with the same passive one
	rtype db.ConflictResolverType
	rfn   string
	act2  *RestTester
	src3  string // encoded source id of the third database
	// conflicts resolved (local + remote + merged) by the last replication run through oneShotRS
	lastResolved int64
}

func c06NewEnv(t *testing.T, v4 bool, ndocs int, tag string) *c06Env {
	proto := db.CBMobileReplicationV3.SubprotocolString()
	if v4 {
		proto = db.CBMobileReplicationV4.SubprotocolString()
	}
	peers := SetupISGRPeersWithOpts(t, TestISGRPeerOpts{ActivePeerSupportedBLIPSubProtocols: []string{proto}})
	e := &c06Env{t: t, act: peers.ActiveRT, pas: peers.PassiveRT, url: peers.PassiveDBURL, v4: v4}
	e.src = [2]string{peers.ActiveRT.GetDatabase().EncodedSourceID, peers.PassiveRT.GetDatabase().EncodedSourceID}
	for i := 0; i < ndocs; i++ {
		e.docs = append(e.docs, fmt.Sprintf("c06%s_d%d", tag, i))
	}
	return e
}

func (e *c06Env) rt(side int) *RestTester {
	switch side {
	case 0:
		return e.act
	case 2:
		return e.act2
	}
	return e.pas
}

func (e *c06Env) fail(format string, args ...any) {
	e.infra = append(e.infra, fmt.Sprintf(format, args...))
}

type c06Node struct {
	ID, Parent string
	Deleted    bool
}

type c06Obs struct {
	Exists  bool
	Rev     string
	CV      string
	Deleted bool
	Body    string
	Seq     uint64
	Tree    []c06Node
	Src     string // current version: source
	Ver     uint64 // current version: value
}

func (o c06Obs) state() string {
	if !o.Exists {
		return "absent"
	}
	if o.Deleted {
		return "deleted"
	}
	return "live"
}

func (e *c06Env) observe(side int, docID string) c06Obs {
	rt := e.rt(side)
	coll, ctx := rt.GetSingleTestDatabaseCollectionWithUser()
	doc, err := coll.GetDocument(ctx, docID, db.DocUnmarshalAll)
	if err != nil || doc == nil {
		return c06Obs{}
	}
	o := c06Obs{Exists: true, Rev: doc.GetRevTreeID(), Deleted: doc.IsDeleted(), Seq: doc.Sequence}
	if doc.HLV != nil {
		o.CV = doc.HLV.GetCurrentVersionString()
		o.Src, o.Ver = doc.HLV.GetCurrentVersion()
	}
	bb, _ := doc.BodyBytes(ctx)
	o.Body = string(bb)
	for id, ri := range doc.History {
		o.Tree = append(o.Tree, c06Node{ID: id, Parent: ri.Parent, Deleted: ri.Deleted})
	}
	sort.Slice(o.Tree, func(i, j int) bool { return o.Tree[i].ID < o.Tree[j].ID })
	return o
}

// the admin REST view of a document: (status, rev, cv, body without the underscore properties)
func (e *c06Env) adminView(side int, docID string) (int, string, string, string) {
	rt := e.rt(side)
	resp := rt.SendAdminRequest(http.MethodGet, "/"+rt.GetSingleKeyspace()+"/"+docID+"?show_cv=true", "")
	if resp.Code != 200 {
		return resp.Code, "", "", resp.BodyString()
	}
	var m map[string]any
	if err := json.Unmarshal(resp.BodyBytes(), &m); err != nil {
		return resp.Code, "", "", "unparsable"
	}
	rev, _ := m["_rev"].(string)
	cv, _ := m["_cv"].(string)
	for k := range m {
		if strings.HasPrefix(k, "_") {
			delete(m, k)
		}
	}
	b, _ := json.Marshal(m)
	return 200, rev, cv, string(b)
}

const (
	c06Edit = iota
	c06Delete
	c06Resurrect
)

// a local write through the admin REST API, always on the current revision
func (e *c06Env) write(side int, docID string, kind int, body string) bool {
	rt := e.rt(side)
	cur := e.observe(side, docID)
	path := "/" + rt.GetSingleKeyspace() + "/" + docID
	var resp *TestResponse
	switch kind {
	case c06Delete:
		resp = rt.SendAdminRequest(http.MethodDelete, path+"?rev="+cur.Rev, "")
	case c06Edit:
		if cur.Exists {
			resp = rt.SendAdminRequest(http.MethodPut, path+"?rev="+cur.Rev, body)
		} else {
			resp = rt.SendAdminRequest(http.MethodPut, path, body)
		}
	default:
		resp = rt.SendAdminRequest(http.MethodPut, path, body)
	}
	if resp.Code != 200 && resp.Code != 201 {
		e.fail("write kind=%d on %s side %d: %d %s", kind, docID, side, resp.Code, resp.BodyString())
		return false
	}
	// the version the write generated (the document may have moved on by the time it is observed)
	var wr struct {
		CV string `json:"cv"`
	}
	e.wcvOK = false
	if json.Unmarshal(resp.BodyBytes(), &wr) == nil && wr.CV != "" {
		if v, err := db.ParseVersion(wr.CV); err == nil {
			e.wcv, e.wcvOK = v, true
		}
	}
	return e.waitVisible(side)
}

// wait until the changes feed of a side (what a replication reads) shows the current revision of every
// document: a write is acknowledged before the change cache has seen its sequence
func (e *c06Env) waitVisible(side int) bool {
	rt := e.rt(side)
	deadline := time.Now().Add(30 * time.Second)
	for {
		resp := rt.SendAdminRequest(http.MethodGet, "/"+rt.GetSingleKeyspace()+"/_changes?since=0", "")
		var feed struct {
			Results []struct {
				ID      string              `json:"id"`
				Changes []map[string]string `json:"changes"`
			} `json:"results"`
		}
		ok := resp.Code == 200 && json.Unmarshal(resp.BodyBytes(), &feed) == nil
		if ok {
			seen := map[string]string{}
			for _, r := range feed.Results {
				if len(r.Changes) > 0 {
					seen[r.ID] = r.Changes[0]["rev"]
				}
			}
			for _, d := range e.docs {
				if o := e.observe(side, d); o.Exists && seen[d] != o.Rev {
					ok = false
				}
			}
		}
		if ok {
			return true
		}
		if time.Now().After(deadline) {
			e.fail("changes feed of side %d did not catch up with the documents within 30s", side)
			return false
		}
		time.Sleep(10 * time.Millisecond)
	}
}

func (e *c06Env) replStatus(id string) (db.ReplicationStatus, bool) {
	var st db.ReplicationStatus
	r := e.act.SendAdminRequest(http.MethodGet, "/{{.db}}/_replicationStatus/"+id, "")
	if r.Code != 200 {
		return st, false
	}
	if err := json.Unmarshal(r.BodyBytes(), &st); err != nil {
		return st, false
	}
	return st, true
}

func (e *c06Env) createRepl(id string, dir db.ActiveReplicatorDirection, continuous bool) bool {
	return e.createReplOn(e.act, id, dir, continuous)
}

func (e *c06Env) createReplOn(rt *RestTester, id string, dir db.ActiveReplicatorDirection, continuous bool) bool {
	cfg := &db.ReplicationConfig{ID: id, Direction: dir, Remote: e.url, Continuous: continuous,
		ConflictResolutionType: db.ConflictResolverDefault, CollectionsEnabled: base.TestsUseNamedCollections()}
	if e.rtype != "" {
		cfg.ConflictResolutionType = e.rtype
		if e.rtype == db.ConflictResolverCustom {
			cfg.ConflictResolutionFn = e.rfn
		}
	}
	payload, _ := json.Marshal(cfg)
	resp := rt.SendAdminRequest(http.MethodPost, "/{{.db}}/_replication/", string(payload))
	if resp.Code != http.StatusCreated {
		e.fail("create replication %s: %d %s", id, resp.Code, resp.BodyString())
		return false
	}
	return true
}

func (e *c06Env) waitStatus(id, want string, timeout time.Duration) (db.ReplicationStatus, bool) {
	var st db.ReplicationStatus
	deadline := time.Now().Add(timeout)
	for time.Now().Before(deadline) {
		var ok bool
		st, ok = e.replStatus(id)
		if ok && st.Status == want {
			return st, true
		}
		time.Sleep(15 * time.Millisecond)
	}
	e.fail("replication %s did not reach %q (status %q %s)", id, want, st.Status, st.ErrorMessage)
	return st, false
}

// a one-shot replication with a fresh id (no checkpoint is reused), run to completion
func (e *c06Env) oneShot(dir db.ActiveReplicatorDirection) (db.ReplicationStatus, bool) {
	if !e.waitVisible(0) || !e.waitVisible(1) {
		return db.ReplicationStatus{}, false
	}
	e.nrepl++
	id := fmt.Sprintf("c06one%d", e.nrepl)
	if !e.createRepl(id, dir, false) {
		return db.ReplicationStatus{}, false
	}
	st, ok := e.waitStatus(id, db.ReplicationStateStopped, 90*time.Second)
	_ = e.act.SendAdminRequest(http.MethodDelete, "/{{.db}}/_replication/"+id, "")
	return st, ok
}

func c06Dir(sdir string) db.ActiveReplicatorDirection {
	if sdir == "pull" {
		return db.ActiveReplicatorTypePull
	}
	return db.ActiveReplicatorTypePushAndPull
}

func (e *c06Env) sessionStart(sdir string) bool {
	if e.sess == "" {
		e.sess = "c06sess"
		e.sdir = sdir
		if !e.createRepl(e.sess, c06Dir(sdir), true) {
			return false
		}
	} else {
		r := e.act.SendAdminRequest(http.MethodPut, "/{{.db}}/_replicationStatus/"+e.sess+"?action=start", "")
		if r.Code != 200 {
			e.fail("start session: %d %s", r.Code, r.BodyString())
			return false
		}
	}
	_, ok := e.waitStatus(e.sess, db.ReplicationStateRunning, 60*time.Second)
	e.srun = ok
	return ok
}

func (e *c06Env) sessionStop() bool {
	r := e.act.SendAdminRequest(http.MethodPut, "/{{.db}}/_replicationStatus/"+e.sess+"?action=stop", "")
	if r.Code != 200 {
		e.fail("stop session: %d %s", r.Code, r.BodyString())
		return false
	}
	_, ok := e.waitStatus(e.sess, db.ReplicationStateStopped, 60*time.Second)
	e.srun = false
	return ok
}

func c06SeqOf(s string) uint64 {
	if s == "" {
		return 0
	}
	id, err := db.ParsePlainSequenceID(s)
	if err != nil {
		return 0
	}
	return id.Seq
}

// quiescence of a running continuous session: the replicator has processed the latest change of every
// document in each direction it serves, and nothing (replication counters, sequences, documents) has
// moved for a while.  Never fails on time alone: a timeout is recorded as an infrastructure problem and
// the scenario is abandoned.
func (e *c06Env) waitQuiescent() bool {
	fingerprint := func() (string, bool) {
		st, ok := e.replStatus(e.sess)
		if !ok {
			return "", false
		}
		ctxA, ctxB := e.act.Context(), e.pas.Context()
		la, _ := e.act.GetDatabase().LastSequence(ctxA)
		lb, _ := e.pas.GetDatabase().LastSequence(ctxB)
		caught := true
		var sb strings.Builder
		fmt.Fprintf(&sb, "%d/%d/%d/%d/%d/%d/%d/%s/%s/%d/%d|", st.DocsRead, st.DocsCheckedPull, st.RejectedLocal, st.DocsWritten,
			st.DocsCheckedPush, st.DocWriteFailures, st.DocWriteConflict, st.LastSeqPull, st.LastSeqPush, la, lb)
		for _, d := range e.docs {
			a, b := e.observe(0, d), e.observe(1, d)
			fmt.Fprintf(&sb, "%s,%s;", a.Rev+a.CV, b.Rev+b.CV)
			if e.sdir == "both" && a.Exists && c06SeqOf(st.LastSeqPush) < a.Seq {
				caught = false
			}
			if b.Exists && c06SeqOf(st.LastSeqPull) < b.Seq {
				caught = false
			}
		}
		return sb.String(), caught && st.Status == db.ReplicationStateRunning
	}
	start := time.Now()
	last, since := "", time.Now()
	for time.Since(start) < 60*time.Second {
		fp, caught := fingerprint()
		if fp != last {
			last, since = fp, time.Now()
		}
		stable := time.Since(since)
		if caught && stable > 200*time.Millisecond {
			return true
		}
		if !caught && stable > 5*time.Second {
			// the status' last sequences did not reach the documents although nothing moves any more
			// (e.g. a sequence skipped on the feed): accept on stability alone
			return true
		}
		time.Sleep(20 * time.Millisecond)
	}
	e.fail("continuous replication did not become quiescent within 60s: %s", last)
	return false
}

// ---------------------------------------------------------------- scenarios

type c06Step struct {
	Kind string // "w" | "pull" | "push" | "start" | "stop" | "restart"
	Side int
	Doc  int
	W    int // c06Edit / c06Delete / c06Resurrect
	Body int // body key >= 2
	Dir  string
	RS   *c06RS // "pullr": a one-shot pull with this resolver
}

func (s c06Step) String() string {
	switch s.Kind {
	case "w":
		return fmt.Sprintf("%s%s d%d b%d", map[int]string{c06Edit: "edit", c06Delete: "delete", c06Resurrect: "resurrect"}[s.W], map[int]string{0: "A", 1: "B"}[s.Side], s.Doc, s.Body)
	case "start":
		return "start:" + s.Dir
	case "pullr":
		return "pull:" + s.RS.String()
	}
	return s.Kind
}

func c06BodyText(key int) string {
	switch key {
	case 0:
		return `{}`
	case 1:
		return db.DeletedDocument
	}
	return fmt.Sprintf(`{"k":"v%d"}`, key)
}

func c06BodyKey(text string) (int, bool) {
	switch text {
	case `{}`, "":
		return 0, true
	case db.DeletedDocument:
		return 1, true
	}
	var m map[string]string
	if json.Unmarshal([]byte(text), &m) == nil && len(m) == 1 && strings.HasPrefix(m["k"], "v") {
		if n, err := strconv.Atoi(m["k"][1:]); err == nil {
			return n, true
		}
	}
	return 0, false
}

// ---- Coq emission
func c06Rev(id string) string {
	i := strings.IndexByte(id, '-')
	if i < 0 {
		return "(I 0 [])"
	}
	n, ok := new(big.Int).SetString(id[i+1:], 16)
	if !ok {
		return "(I 0 [])"
	}
	return "(I " + id[:i] + " [" + n.String() + "])"
}
func c06OptRev(id string) string {
	if id == "" {
		return "None"
	}
	return "(Some " + c06Rev(id) + ")"
}
func c06PObs(o c06Obs) (string, bool) {
	if !o.Exists {
		return "(PO None false None)", true
	}
	k, ok := c06BodyKey(o.Body)
	return fmt.Sprintf("(PO %s %s (Some %d))", c06OptRev(o.Rev), cqBool(o.Deleted), k), ok
}
// version-vector streams: the observation is (current version, tombstone flag, body); sources are interned
// (1 = the active database, 2 = the passive database, 9 = anything else)
func (e *c06Env) srcN(src string) int {
	switch src {
	case e.src[0]:
		return 1
	case e.src[1]:
		return 2
	}
	if e.src3 != "" && src == e.src3 {
		return 3
	}
	return 9
}
func (e *c06Env) vObs(o c06Obs) (string, bool) {
	if !o.Exists {
		return "(VO None false None)", true
	}
	k, ok := c06BodyKey(o.Body)
	if o.Src == "" {
		return fmt.Sprintf("(VO None %s (Some %d))", cqBool(o.Deleted), k), false
	}
	return fmt.Sprintf("(VO (Some (%d, %d)) %s (Some %d))", e.srcN(o.Src), o.Ver, cqBool(o.Deleted), k), ok
}
func c06Tree(t []c06Node) string {
	items := make([]string, len(t))
	for i, n := range t {
		items[i] = fmt.Sprintf("R %s %s %s", c06Rev(n.ID), c06OptRev(n.Parent), cqBool(n.Deleted))
	}
	return cqList(items)
}

type c06Recorded struct {
	ops    []string // Coq op terms
	counts string
	after  string
	desc   map[string]any
	// a step made while the continuous session runs (or its start): the model applies the operations and then what
	// a change-driven session transfers (C06_Corr.StS / VStS); fresh = the session has no checkpoint yet
	sess, fresh, both bool
}

// the Coq term of a recorded step
func (s c06Recorded) term(v4 bool, ndocs int) string {
	pre := ""
	if v4 {
		pre = "V"
	}
	if !s.sess {
		return fmt.Sprintf("%sSt %s %s %s", pre, cqList(s.ops), s.counts, s.after)
	}
	docs := make([]string, ndocs)
	for i := range docs {
		docs[i] = strconv.Itoa(i)
	}
	return fmt.Sprintf("%sStS %s %s %s %s %s", pre, cqList(s.ops), cqBool(s.fresh), cqBool(s.both), cqList(docs), s.after)
}

type c06Runner struct {
	e      *c06Env
	steps  []c06Recorded
	descs  []string
	bodies map[int]bool
	nConf  int // conflicts the passive side reported in the last one-shot push
	abort  bool
}

func (r *c06Runner) snapshot() (string, []map[string]any, bool) {
	items := []string{}
	var js []map[string]any
	ok := true
	for i, d := range r.e.docs {
		a, b := r.e.observe(0, d), r.e.observe(1, d)
		sa, oka := c06PObs(a)
		sb, okb := c06PObs(b)
		if r.e.v4 {
			sa, oka = r.e.vObs(a)
			sb, okb = r.e.vObs(b)
		}
		ok = ok && oka && okb
		items = append(items, fmt.Sprintf("(%d, %s, %s)", i, sa, sb))
		if r.e.v4 {
			js = append(js, map[string]any{"doc": i, "A": []any{a.CV, a.Deleted, a.Body}, "B": []any{b.CV, b.Deleted, b.Body}})
			continue
		}
		js = append(js, map[string]any{"doc": i, "A": []any{a.Rev, a.Deleted, a.Body}, "B": []any{b.Rev, b.Deleted, b.Body}})
	}
	return cqList(items), js, ok
}

// a step whose effect includes what the running continuous session transfers
func (r *c06Runner) recordSess(step c06Step, ops []string, fresh bool) {
	r.record(step, ops, "None")
	last := &r.steps[len(r.steps)-1]
	last.sess, last.fresh, last.both = true, fresh, r.e.sdir != "pull"
}

func (r *c06Runner) record(step c06Step, ops []string, counts string) {
	after, js, ok := r.snapshot()
	if !ok {
		r.e.fail("unexpected document body after %s", step)
		r.abort = true
	}
	r.steps = append(r.steps, c06Recorded{ops: ops, counts: counts, after: after,
		desc: map[string]any{"step": step.String(), "after": js}})
	r.descs = append(r.descs, step.String())
}

func c06Side(s int) string {
	if s == 0 {
		return "Act"
	}
	return "Pas"
}

func c06VSide(s int) string {
	if s == 0 {
		return "VA"
	}
	return "VB"
}

func (r *c06Runner) syncOps() []string {
	var ops []string
	pull, push := "Pull", "Push"
	if r.e.v4 {
		pull, push = "VPull", "VPush"
	}
	for i := range r.e.docs {
		if r.e.sdir == "pull" {
			ops = append(ops, fmt.Sprintf("%s %d", pull, i))
		} else {
			ops = append(ops, fmt.Sprintf("%s %d", pull, i), fmt.Sprintf("%s %d", push, i), fmt.Sprintf("%s %d", pull, i), fmt.Sprintf("%s %d", push, i))
		}
	}
	return ops
}

func (r *c06Runner) allDocs(op string) []string {
	var ops []string
	if r.e.v4 {
		op = "V" + op
	}
	for i := range r.e.docs {
		ops = append(ops, fmt.Sprintf("%s %d", op, i))
	}
	return ops
}

// run one step on the implementation; returns false when the scenario has to be abandoned
func (r *c06Runner) do(s c06Step) bool {
	e := r.e
	switch s.Kind {
	case "w":
		if !e.write(s.Side, e.docs[s.Doc], s.W, c06BodyText(s.Body)) {
			return false
		}
		var op string
		switch {
		case e.v4:
			// the model's clock reading is the value the implementation generated for this write
			if !e.wcvOK || e.wcv.SourceID != e.src[s.Side] {
				e.fail("write on side %d did not report a current version of its own source", s.Side)
				return false
			}
			if s.W == c06Delete {
				op = fmt.Sprintf("VDelete %s %d %d", c06VSide(s.Side), s.Doc, e.wcv.Value)
			} else {
				op = fmt.Sprintf("VEdit %s %d %d %d", c06VSide(s.Side), s.Doc, s.Body, e.wcv.Value)
				r.bodies[s.Body] = true
			}
		case s.W == c06Edit:
			op = fmt.Sprintf("Edit %s %d %d", c06Side(s.Side), s.Doc, s.Body)
			r.bodies[s.Body] = true
		case s.W == c06Delete:
			op = fmt.Sprintf("Delete %s %d", c06Side(s.Side), s.Doc)
		default:
			op = fmt.Sprintf("Resurrect %s %d %d", c06Side(s.Side), s.Doc, s.Body)
			r.bodies[s.Body] = true
		}
		ops := []string{op}
		if e.srun {
			if !e.waitQuiescent() {
				return false
			}
			r.recordSess(s, ops, false)
		} else {
			r.record(s, ops, "None")
		}
	case "pull":
		st, ok := e.oneShot(db.ActiveReplicatorTypePull)
		if !ok {
			return false
		}
		r.record(s, r.allDocs("Pull"), fmt.Sprintf("(Some (%d, %d))", st.DocsRead, st.RejectedLocal))
	case "pullr":
		// a one-shot pull with its own resolver (model: PullP (rt_fun <resolver>) d)
		st, ok := e.oneShotRS(e.act, db.ActiveReplicatorTypePull, *s.RS)
		if !ok {
			return false
		}
		var ops []string
		for i := range e.docs {
			ops = append(ops, fmt.Sprintf("PullP (rt_fun %s) %d", s.RS.coq(), i))
		}
		if s.RS.Kind == "merge" {
			r.bodies[s.RS.B] = true
		}
		if s.RS.Kind == "mix" {
			for k := 12; k <= 15; k++ {
				r.bodies[k] = true
			}
		}
		r.record(s, ops, fmt.Sprintf("(Some (%d, %d))", st.DocsRead, st.RejectedLocal))
	case "push":
		st, ok := e.oneShot(db.ActiveReplicatorTypePush)
		if !ok {
			return false
		}
		r.nConf = int(st.DocWriteConflict)
		r.record(s, r.allDocs("Push"), fmt.Sprintf("(Some (%d, %d))", st.DocsWritten, st.DocWriteConflict))
	case "start", "restart":
		if s.Kind == "restart" {
			if !e.sessionStop() {
				return false
			}
		}
		fresh := e.sess == ""
		if !e.sessionStart(s.Dir) || !e.waitQuiescent() {
			return false
		}
		r.recordSess(s, nil, fresh)
	case "stop":
		if !e.sessionStop() {
			return false
		}
		r.record(s, nil, "None")
	}
	return !r.abort
}

// the digest table: every revision of the final trees explained as md5(parent, one of the bodies in play)
func (r *c06Runner) digestTable(trees [][2]c06Obs) (string, bool) {
	keys := []int{}
	for k := 0; k <= 30; k++ { // every body a write or a resolver of the harness can produce
		keys = append(keys, k)
	}
	for k := range r.bodies {
		if k > 30 {
			keys = append(keys, k)
		}
	}
	sort.Ints(keys)
	seen := map[string]bool{}
	var items []string
	ok := true
	for _, pair := range trees {
		for _, o := range pair {
			for _, n := range o.Tree {
				if seen[n.ID] {
					continue
				}
				seen[n.ID] = true
				gen, _ := db.ParseRevID(r.e.act.Context(), n.ID)
				found := false
				for _, k := range keys {
					if db.CreateRevIDWithBytes(gen, n.Parent, []byte(c06BodyText(k))) == n.ID {
						i := strings.IndexByte(n.ID, '-')
						v, _ := new(big.Int).SetString(n.ID[i+1:], 16)
						items = append(items, fmt.Sprintf("(%s, %d, %s)", c06OptRev(n.Parent), k, v.String()))
						found = true
						break
					}
				}
				if !found {
					ok = false
					r.e.fail("revision %s (parent %q) is not the digest of any body in play", n.ID, n.Parent)
				}
			}
		}
	}
	sort.Strings(items)
	return cqList(items), ok
}

func c06Plan(rng *vRand, n int, ndocs int) []c06Step {
	// only the shape is planned here; the write kind is decided at run time from the document's state
	var plan []c06Step
	sess, running := "", false
	for len(plan) < n {
		x := rng.Intn(100)
		switch {
		case x < 62:
			plan = append(plan, c06Step{Kind: "w", Side: rng.Intn(2), Doc: rng.Intn(ndocs), W: rng.Intn(100), Body: 2 + rng.Intn(4)})
		case x < 72 && !running:
			plan = append(plan, c06Step{Kind: "pull"})
		case x < 82 && !running:
			plan = append(plan, c06Step{Kind: "push"})
		case x >= 82 && x < 94:
			if !running {
				if sess == "" {
					sess = []string{"both", "both", "pull"}[rng.Intn(3)]
				}
				plan = append(plan, c06Step{Kind: "start", Dir: sess})
				running = true
			} else if rng.Bool() {
				plan = append(plan, c06Step{Kind: "stop"})
				running = false
			} else {
				plan = append(plan, c06Step{Kind: "restart", Dir: sess})
			}
		}
	}
	return plan
}

// decide the write kind from what the side holds now: W is a percentage drawn by the planner
func (r *c06Runner) concretise(s c06Step) c06Step {
	if s.Kind != "w" {
		return s
	}
	if s.W < 0 {
		s.W = -s.W - 1
		return s
	}
	cur := r.e.observe(s.Side, r.e.docs[s.Doc])
	switch {
	case !cur.Exists:
		s.W = c06Edit
	case cur.Deleted:
		s.W = c06Resurrect
	case s.W < 30:
		s.W = c06Delete
	default:
		s.W = c06Edit
	}
	return s
}

// corpus steps use explicit kinds, encoded as negative W so that concretise leaves them alone
func c06W(side, doc, kind, body int) c06Step {
	return c06Step{Kind: "w", Side: side, Doc: doc, W: -kind - 1, Body: body}
}

type c06Scenario struct {
	name string
	plan []c06Step
}

func c06Corpus() []c06Scenario {
	A, B := 0, 1
	pull, push := c06Step{Kind: "pull"}, c06Step{Kind: "push"}
	return []c06Scenario{
		// plain transfers, both directions, three documents
		{"ff", []c06Step{c06W(A, 0, c06Edit, 2), c06W(B, 1, c06Edit, 3), c06W(A, 0, c06Edit, 3), push, pull, c06W(B, 0, c06Edit, 4), c06W(A, 1, c06Delete, 0), pull, push}},
		// equal-generation conflict, both outcomes of the digest tie-break (doc 0 / doc 1), longer local branch (doc 2)
		{"conflict", []c06Step{c06W(A, 0, c06Edit, 2), c06W(B, 0, c06Edit, 3), c06W(A, 1, c06Edit, 3), c06W(B, 1, c06Edit, 2),
			c06W(A, 2, c06Edit, 2), c06W(A, 2, c06Edit, 4), c06W(B, 2, c06Edit, 5), pull, push}},
		// tombstone against edit, both ways; tombstone against tombstone
		{"tombstones", []c06Step{c06W(A, 0, c06Edit, 2), c06W(A, 1, c06Edit, 2), c06W(A, 2, c06Edit, 2), push,
			c06W(A, 0, c06Delete, 0), c06W(B, 0, c06Edit, 3), c06W(B, 1, c06Delete, 0), c06W(A, 1, c06Edit, 3),
			c06W(A, 2, c06Delete, 0), c06W(B, 2, c06Edit, 4), c06W(B, 2, c06Delete, 0), pull, push}},
		// local tombstone longer than the remote branch: filler revisions
		{"fillers", []c06Step{c06W(A, 0, c06Edit, 2), push, c06W(A, 0, c06Edit, 3), c06W(A, 0, c06Edit, 4), c06W(A, 0, c06Delete, 0),
			c06W(B, 0, c06Edit, 5), pull, push}},
		// the two divergences the model exposes (see C06_Refuted.v)
		{"delete-after-local-wins", []c06Step{c06W(A, 0, c06Edit, 2), c06W(A, 0, c06Edit, 2), c06W(B, 0, c06Edit, 4), pull, c06W(A, 0, c06Delete, 0)}},
		{"delete-after-disjoint-pull", []c06Step{c06W(A, 0, c06Edit, 2), c06W(A, 0, c06Delete, 0), c06W(B, 0, c06Edit, 4), pull, c06W(A, 0, c06Delete, 0)}},
		{"resurrect-after-remote-delete", []c06Step{c06W(A, 0, c06Edit, 2), c06W(A, 0, c06Edit, 2), c06W(B, 0, c06Edit, 2), c06W(B, 0, c06Delete, 0), pull, c06W(A, 0, c06Resurrect, 4)}},
		// continuous sessions: start, write on both sides, stop, write, restart
		{"session-both", []c06Step{c06W(A, 0, c06Edit, 2), c06W(B, 1, c06Edit, 3), {Kind: "start", Dir: "both"}, c06W(B, 0, c06Edit, 3), c06W(A, 1, c06Edit, 4),
			{Kind: "stop"}, c06W(A, 0, c06Edit, 5), c06W(B, 0, c06Edit, 4), c06W(B, 1, c06Delete, 0), {Kind: "start", Dir: "both"}, c06W(A, 2, c06Edit, 2)}},
		{"session-pull", []c06Step{c06W(B, 0, c06Edit, 2), {Kind: "start", Dir: "pull"}, c06W(A, 0, c06Edit, 3), c06W(B, 0, c06Edit, 4), {Kind: "restart", Dir: "pull"}, c06W(B, 1, c06Edit, 2), c06W(A, 1, c06Edit, 3)}},
	}
}

// stable identification of a divergence: protocol, what each side shows, and -- for the two shapes the
// model predicts (C06_Refuted.v) -- the structural cause read off the active side's revision tree
func c06CorpusVV() []c06Scenario {
	A, B := 0, 1
	pull, push := c06Step{Kind: "pull"}, c06Step{Kind: "push"}
	var out []c06Scenario
	// every revision-tree corpus scenario is also run under the version-vector protocol
	for _, sc := range c06Corpus() {
		out = append(out, c06Scenario{name: "v3corpus-" + sc.name, plan: sc.plan})
	}
	return append(out, []c06Scenario{
		// LWW decided for the active side (its write is the later one), for the passive side, and a push before the pull
		// (refused with 409 by the passive side, which has no resolver)
		{"lww-local-remote-push-first", []c06Step{c06W(B, 0, c06Edit, 2), c06W(A, 0, c06Edit, 3), c06W(A, 1, c06Edit, 2), c06W(B, 1, c06Edit, 3),
			c06W(B, 2, c06Edit, 4), c06W(A, 2, c06Edit, 5), push, pull, push}},
		// an older tombstone beats a newer edit, whichever side holds it; resurrection after the resolution
		{"lww-tombstone-beats-newer-edit", []c06Step{c06W(A, 0, c06Edit, 2), c06W(B, 1, c06Edit, 2), push, pull,
			c06W(A, 0, c06Delete, 0), c06W(B, 0, c06Edit, 3), c06W(B, 1, c06Delete, 0), c06W(A, 1, c06Edit, 4), pull,
			c06W(A, 0, c06Resurrect, 5), c06W(A, 1, c06Resurrect, 5), push}},
		// a conflict resolved on the active side and edited again on the passive side before the resolution is pushed
		{"lww-second-conflict-before-push", []c06Step{c06W(B, 0, c06Edit, 2), c06W(A, 0, c06Edit, 3), pull, c06W(B, 0, c06Edit, 4), pull, push,
			c06W(A, 0, c06Edit, 5), c06W(B, 0, c06Delete, 0), pull, push}},
		// the same document created independently on both sides (same revision-tree id, different versions);
		// doc 1: created on both sides with different bodies
		{"same-body-both-sides", []c06Step{c06W(A, 0, c06Edit, 3), c06W(B, 0, c06Edit, 3), c06W(A, 1, c06Edit, 2), c06W(B, 1, c06Edit, 3), pull}},
		{"same-body-both-sides-reversed", []c06Step{c06W(B, 0, c06Edit, 3), c06W(A, 0, c06Edit, 3), pull}},
		// deepening round: the revision-tree id a resolution is about to write already exists on the local branch
		// (model VVF.v).  The same first revision on both sides, then edits on the active side before the first sync:
		// doc 0 -- the active side's write is the later one (local wins, the rewritten revision IS the local revision);
		// doc 1 -- ... is an ancestor of the local revision (the local branch returned to an earlier body)
		{"revclash-local-wins", []c06Step{c06W(B, 0, c06Edit, 3), c06W(B, 1, c06Edit, 3), c06W(A, 0, c06Edit, 3), c06W(A, 0, c06Edit, 4),
			c06W(A, 1, c06Edit, 3), c06W(A, 1, c06Edit, 4), c06W(A, 1, c06Edit, 5), c06W(A, 1, c06Edit, 4), pull, push}},
		// the passive side's write is the later one (remote wins, the pulled revision is an ancestor of the local one)
		{"revclash-remote-wins", []c06Step{c06W(A, 0, c06Edit, 3), c06W(A, 0, c06Edit, 4), c06W(A, 1, c06Edit, 2), c06W(A, 1, c06Edit, 3), c06W(A, 1, c06Edit, 4),
			c06W(B, 0, c06Edit, 3), c06W(B, 1, c06Edit, 2), pull, push}},
	}...)
}

func c06StateSig(v4 bool, a, b c06Obs) string {
	return c06StateSigBW(v4, a, b, -1)
}

// bw: 1 = the history contains a delete / resurrection on the active side made while its revision tree had more
// than one leaf (the only histories in which the revision-tree model diverges), 0 = it does not, -1 = not tracked
func c06StateSigBW(v4 bool, a, b c06Obs, bw int) string {
	s := "rt:"
	if v4 {
		s = "vv:"
	}
	s += "diverged:active=" + a.state() + ",passive=" + b.state()
	parent := map[string]string{}
	deleted := map[string]bool{}
	isParent := map[string]bool{}
	for _, n := range a.Tree {
		parent[n.ID] = n.Parent
		deleted[n.ID] = n.Deleted
		if n.Parent != "" {
			isParent[n.Parent] = true
		}
	}
	descends := func(x, anc string) bool {
		for i := 0; x != "" && i < 1000; i++ {
			if x == anc {
				return true
			}
			x = parent[x]
		}
		return false
	}
	// the shapes predicted by the model keep the bare signature; anything else is marked unexplained
	cause := ":unexplained"
	switch {
	case a.state() == "deleted" && b.state() == "deleted":
		cause = ",different-revision"
	case v4 && a.state() == "deleted" && b.state() == "live" && parent[a.Rev] == b.Rev && a.CV == b.CV:
		// the active side tombstoned its own copy of the very revision it pulled (same revision-tree id created
		// independently on both sides), and carries the passive side's current version on the tombstone
		cause = ":pulled-revision-tombstoned"
	case v4 && a.state() == "deleted" && b.state() == "live" && a.CV == b.CV && descends(a.Rev, b.Rev):
		// the pulled revision-tree id was an ANCESTOR of the local revision: "remote wins" tombstoned the local
		// revision and had nothing to add (C06_Refuted.C06_remote_wins_ancestor_diverges)
		cause = ":pulled-ancestor-revision-tombstoned"
	case a.state() == "deleted" && b.state() == "live":
		// the delete of the passive side's revision exists on the active side but is not its current revision
		for id := range parent {
			if deleted[id] && !isParent[id] && id != a.Rev && descends(id, b.Rev) && !descends(a.Rev, b.Rev) {
				cause = ""
			}
		}
	case a.state() == "live" && b.state() == "deleted":
		// the active side's live revision extends one of its own tombstones
		for x := parent[a.Rev]; x != ""; x = parent[x] {
			if deleted[x] {
				cause = ""
			}
		}
	case a.state() == "live" && b.state() == "live":
		// a resurrection on a dead branch of the active side after a delete that was never replicated
		// (C06_Refuted.C06_resurrection_on_dead_branch_refuted): the active side's live revision extends one of its
		// own tombstones and does not descend from the passive side's revision
		for x := parent[a.Rev]; x != ""; x = parent[x] {
			if deleted[x] && !descends(a.Rev, b.Rev) {
				cause = ""
			}
		}
	}
	if v4 && cause == "" {
		cause = ":unexplained" // the revision-tree shapes are not expected under the version-vector protocol
	}
	if !v4 && bw == 0 && !strings.HasSuffix(cause, ":unexplained") {
		// no delete / resurrection on a branched active tree in the history: outside every shape the model diverges on
		cause += ":unexplained"
	}
	return s + cause
}

func c06Proto(v4 bool) string {
	if v4 {
		return "version-vector(v4)"
	}
	return "revtree(v3)"
}

// run a scenario; emits one Coq case (revision-tree streams) and evaluates the monitors
func c06RunScenario(t *testing.T, rec *vRecorder, stream string, sc c06Scenario, v4 bool, coq bool) {
	e := c06NewEnv(t, v4, 3, "")
	r := &c06Runner{e: e, bodies: map[int]bool{}}
	hasDelete, hasConflictShape := false, false
	// per document: a delete / resurrection was made on the ACTIVE side while its revision tree had more than one leaf
	branchedWrite := make([]int, len(e.docs))
	leafCount := func(o c06Obs) int {
		isParent := map[string]bool{}
		for _, n := range o.Tree {
			isParent[n.Parent] = true
		}
		k := 0
		for _, n := range o.Tree {
			if !isParent[n.ID] {
				k++
			}
		}
		return k
	}
	for _, s := range sc.plan {
		s = r.concretise(s)
		if s.Kind == "w" && s.W != c06Edit {
			hasDelete = true
			if s.Side == 0 && leafCount(e.observe(0, e.docs[s.Doc])) > 1 {
				branchedWrite[s.Doc] = 1
			}
		}
		// a one-shot pull between two LIVE copies of a document must leave a live document on the pulling side
		var liveBefore []bool
		// (a resolver that answers null ASKS for a delete)
		if s.Kind == "pull" || (s.Kind == "pullr" && s.RS.Kind != "nil") {
			for _, d := range e.docs {
				x, y := e.observe(0, d), e.observe(1, d)
				liveBefore = append(liveBefore, x.Exists && !x.Deleted && y.Exists && !y.Deleted)
			}
		}
		if !r.do(s) {
			break
		}
		for i, d := range e.docs {
			if liveBefore == nil {
				break
			}
			if x := e.observe(0, d); liveBefore[i] && (!x.Exists || x.Deleted) {
				proto := "rt:"
				if v4 {
					proto = "vv:"
				}
				rec.Fail("live_pull_keeps_document", proto+"live-live-pull-left-tombstone", map[string]any{"protocol": c06Proto(v4), "scenario": sc.name, "steps": append([]string{}, r.descs...)},
					fmt.Sprintf("doc %d: both copies were live before the step %q; afterwards the active side shows {rev %s cv %s deleted %v}", i, s, x.Rev, x.CV, x.Deleted))
			}
		}
	}
	if len(e.infra) == 0 && e.srun {
		if e.sessionStop() {
			r.record(c06Step{Kind: "stop"}, nil, "None")
		}
	}
	// catch up: pull, then push; then both again, which must transfer nothing
	var again [2]db.ReplicationStatus
	if len(e.infra) == 0 {
		ok := r.do(c06Step{Kind: "pull"}) && r.do(c06Step{Kind: "push"})
		pushConflicts := r.nConf
		if ok {
			var ok1, ok2 bool
			again[0], ok1 = e.oneShot(db.ActiveReplicatorTypePull)
			if ok1 {
				r.record(c06Step{Kind: "pull"}, r.allDocs("Pull"), fmt.Sprintf("(Some (%d, %d))", again[0].DocsRead, again[0].RejectedLocal))
				again[1], ok2 = e.oneShot(db.ActiveReplicatorTypePush)
				if ok2 {
					r.record(c06Step{Kind: "push"}, r.allDocs("Push"), fmt.Sprintf("(Some (%d, %d))", again[1].DocsWritten, again[1].DocWriteConflict))
				}
			}
			ok = ok1 && ok2
		}
		if ok && len(e.infra) == 0 {
			input := map[string]any{"protocol": c06Proto(v4), "scenario": sc.name, "steps": r.descs}
			var finals [][2]c06Obs
			for i, d := range e.docs {
				a, b := e.observe(0, d), e.observe(1, d)
				finals = append(finals, [2]c06Obs{a, b})
				hasConflictShape = hasConflictShape || (len(a.Tree) > 1 && len(a.Tree) != len(b.Tree))
				same := a.Exists == b.Exists && a.Deleted == b.Deleted && a.Body == b.Body
				if v4 {
					same = same && a.CV == b.CV
				} else {
					same = same && a.Rev == b.Rev
				}
				if !same {
					sig := c06StateSigBW(v4, a, b, branchedWrite[i])
					if a.state() == "live" && c06RawBody(e, 0, d) == db.DeletedDocument {
						sig = strings.SplitN(sig, "diverged", 2)[0] + "diverged:null-merge-stored-live"
					}
					rec.Fail("peers_converged", sig, input,
						fmt.Sprintf("doc %d after the final pull;push: active {rev %s cv %s deleted %v body %s} passive {rev %s cv %s deleted %v body %s}; push reported %d conflict(s)",
							i, a.Rev, a.CV, a.Deleted, a.Body, b.Rev, b.CV, b.Deleted, b.Body, pushConflicts))
				}
				// the admin REST API shows the same thing as the stored document
				for side, o := range []c06Obs{a, b} {
					code, rev, _, body := e.adminView(side, d)
					want := 200
					if !o.Exists || o.Deleted {
						want = 404
					}
					if o.Exists && !o.Deleted && o.Body == db.DeletedDocument {
						continue // what a resolver answering null leaves behind; reported by peers_converged
					}
					if code != want || (code == 200 && (rev != o.Rev || body != o.Body)) {
						rec.Fail("admin_api_consistent", "admin-get-differs", input, fmt.Sprintf("doc %d side %d: GET -> %d rev %s body %s; stored rev %s deleted %v body %s", i, side, code, rev, body, o.Rev, o.Deleted, o.Body))
					}
				}
			}
			if stuck := strings.Contains(sc.name, "js-null"); !stuck && (again[0].DocsRead != 0 || again[1].DocsWritten != 0) {
				rec.Fail("caught_up_no_transfer", "rerun-transfers-documents", input,
					fmt.Sprintf("re-running the caught-up replication read %d and wrote %d documents (checked %d/%d)", again[0].DocsRead, again[1].DocsWritten, again[0].DocsCheckedPull, again[1].DocsCheckedPush))
			}
			nontrivial := hasConflictShape || hasDelete
			if coq && v4 {
				// the version-vector model is re-run in Coq on the same steps (C06/VV.v)
				var steps []string
				var descSteps []any
				for _, s := range r.steps {
					steps = append(steps, s.term(true, len(e.docs)))
					descSteps = append(descSteps, s.desc)
				}
				rec.Case(stream, "vv-scenario", "CVV\n    "+cqList(steps), map[string]any{"scenario": sc.name, "protocol": c06Proto(true), "steps": descSteps}, nontrivial)
			}
			if coq && !v4 {
				// db.RevDiff on both stored trees: every revision id of either side plus one nobody has
				for i, f := range finals {
					var ids []string
					seen := map[string]bool{}
					for _, o := range f {
						for _, n := range o.Tree {
							if !seen[n.ID] {
								seen[n.ID] = true
								ids = append(ids, n.ID)
							}
						}
					}
					sort.Strings(ids)
					ids = append(ids, "7-00000000000000000000000000000bad")
					for side, o := range f {
						if !o.Exists {
							continue
						}
						coll, ctx := e.rt(side).GetSingleTestDatabaseCollectionWithUser()
						missing, _ := coll.RevDiff(ctx, e.docs[i], ids)
						term := func(l []string) string {
							items := make([]string, len(l))
							for k, id := range l {
								items[k] = c06Rev(id)
							}
							return cqList(items)
						}
						rec.Case(stream, "revdiff", fmt.Sprintf("CRevDiff %s %s %s", c06Tree(o.Tree), term(ids), term(missing)),
							map[string]any{"scenario": sc.name, "doc": i, "side": side, "ids": ids, "missing": missing}, len(missing) > 1)
					}
				}
			}
			if coq && !v4 {
				tbl, okT := r.digestTable(finals)
				if okT {
					var steps, fin []string
					var descSteps []any
					for _, s := range r.steps {
						steps = append(steps, s.term(false, len(e.docs)))
						descSteps = append(descSteps, s.desc)
					}
					for i, f := range finals {
						fin = append(fin, fmt.Sprintf("(%d, %s, %s)", i, c06Tree(f[0].Tree), c06Tree(f[1].Tree)))
					}
					term := fmt.Sprintf("CScen %s\n    %s\n    %s", tbl, cqList(steps), cqList(fin))
					rec.Case(stream, "scenario", term, map[string]any{"scenario": sc.name, "steps": descSteps}, nontrivial)
				}
			} else if !coq {
				rec.Count(stream, "scenario", sc.name+strings.Join(r.descs, ";"), nontrivial)
			}
			for _, d := range r.descs {
				rec.Size(strings.Fields(d)[0])
			}
		}
	}
	for _, m := range e.infra {
		rec.Err("infrastructure: " + strings.SplitN(m, ":", 2)[0])
		t.Logf("C06 %s/%s abandoned: %s", stream, sc.name, m)
	}
}

// burst: writes on both sides without waiting while a continuous push-and-pull replication runs
func c06RunBurst(t *testing.T, rec *vRecorder, rng *vRand, v4 bool, idx int) {
	e := c06NewEnv(t, v4, 2, "")
	stream := "burst"
	if v4 {
		stream = "burst-vv"
	}
	var descs []string
	if !e.sessionStart("both") {
		rec.Err("infrastructure: burst start")
		return
	}
	n := 4 + rng.Intn(5)
	for i := 0; i < n; i++ {
		side, doc := rng.Intn(2), rng.Intn(len(e.docs))
		cur := e.observe(side, e.docs[doc])
		kind := c06Edit
		if cur.Exists && cur.Deleted {
			kind = c06Resurrect
		} else if cur.Exists && rng.Chance(20) {
			kind = c06Delete
		}
		body := 2 + rng.Intn(4)
		// a write may lose a race against the replicator (409): that is not a failure, retry on the new state
		rt := e.rt(side)
		path := "/" + rt.GetSingleKeyspace() + "/" + e.docs[doc]
		for attempt := 0; attempt < 3; attempt++ {
			cur = e.observe(side, e.docs[doc])
			var resp *TestResponse
			switch {
			case kind == c06Delete && cur.Exists && !cur.Deleted:
				resp = rt.SendAdminRequest(http.MethodDelete, path+"?rev="+cur.Rev, "")
			case cur.Exists && !cur.Deleted:
				resp = rt.SendAdminRequest(http.MethodPut, path+"?rev="+cur.Rev, c06BodyText(body))
			default:
				resp = rt.SendAdminRequest(http.MethodPut, path, c06BodyText(body))
			}
			if resp.Code == 200 || resp.Code == 201 {
				break
			}
		}
		descs = append(descs, c06Step{Kind: "w", Side: side, Doc: doc, W: kind, Body: body}.String())
		if rng.Chance(30) {
			time.Sleep(time.Duration(rng.Intn(30)) * time.Millisecond)
		}
	}
	if !e.waitQuiescent() || !e.sessionStop() {
		rec.Err("infrastructure: burst quiescence")
		return
	}
	// catch up once more with one-shot runs, then re-run
	_, ok1 := e.oneShot(db.ActiveReplicatorTypePull)
	q1, ok2 := e.oneShot(db.ActiveReplicatorTypePush)
	p2, ok3 := e.oneShot(db.ActiveReplicatorTypePull)
	q2, ok4 := e.oneShot(db.ActiveReplicatorTypePush)
	if !(ok1 && ok2 && ok3 && ok4) {
		rec.Err("infrastructure: burst catch-up")
		return
	}
	input := map[string]any{"protocol": c06Proto(v4), "scenario": fmt.Sprintf("burst-%d", idx), "steps": descs, "mode": "continuous pushAndPull, writes not awaited"}
	for i, d := range e.docs {
		a, b := e.observe(0, d), e.observe(1, d)
		same := a.Exists == b.Exists && a.Deleted == b.Deleted && a.Body == b.Body
		if v4 {
			same = same && a.CV == b.CV
		} else {
			same = same && a.Rev == b.Rev
		}
		if !same {
			rec.Fail("peers_converged", c06StateSig(v4, a, b), input,
				fmt.Sprintf("doc %d at quiescence: active {rev %s cv %s deleted %v body %s} passive {rev %s cv %s deleted %v body %s}; the catch-up push reported %d conflict(s)", i, a.Rev, a.CV, a.Deleted, a.Body, b.Rev, b.CV, b.Deleted, b.Body, q1.DocWriteConflict))
		}
	}
	if p2.DocsRead != 0 || q2.DocsWritten != 0 {
		rec.Fail("caught_up_no_transfer", "rerun-transfers-documents", input, fmt.Sprintf("re-running the caught-up replication read %d and wrote %d documents", p2.DocsRead, q2.DocsWritten))
	}
	rec.Count(stream, "burst", strings.Join(descs, ";"), true)
	for _, m := range e.infra {
		rec.Err("infrastructure: " + strings.SplitN(m, ":", 2)[0])
	}
}

// ---------------------------------------------------------------- local wins under the version-vector protocol

// lwread: version-vector push-and-pull, a conflict the LWW resolver decides for the ACTIVE side (its write is
// the later one), and a read of the active side's revision BY CURRENT VERSION while the resolution write is in
// flight, forced from an update callback of the active side's data store (after the resolver evicted the
// revision from the revision cache, before the document is written).  The resolution changes the revision-tree
// id and the version history but keeps the current version, so a cached copy loaded at that moment is stale;
// what the push half then sends must still be the resolved revision.
func c06RunLocalWinsRead(t *testing.T, rec *vRecorder, rng *vRand, idx int) {
	e := c06NewEnv(t, true, 2, "")
	coll, cctx := e.act.GetSingleTestDatabaseCollectionWithUser()
	lds, ok := base.AsLeakyDataStore(coll.GetCollectionDatastore())
	if !ok {
		rec.Err("infrastructure: active data store is not leaky")
		t.Logf("C06 lwread: active data store is %T", coll.GetCollectionDatastore())
		return
	}
	var descs []string
	write := func(side, doc, kind, body int) bool {
		descs = append(descs, c06Step{Kind: "w", Side: side, Doc: doc, W: kind, Body: body}.String())
		return e.write(side, e.docs[doc], kind, c06BodyText(body))
	}
	// shape: 0 = both sides create the document; 1 = created on one side and synced, then both edit;
	// the passive side always writes first, the active side last (so the active side's version is the LWW winner)
	ok = true
	for d := range e.docs {
		shape := (idx + d) % 2
		if shape == 1 {
			ok = ok && write(d%2, d, c06Edit, 2)
			_, ok1 := e.oneShot(db.ActiveReplicatorTypePushAndPull)
			_, ok2 := e.oneShot(db.ActiveReplicatorTypePushAndPull)
			descs = append(descs, "sync", "sync")
			ok = ok && ok1 && ok2
		}
		for k := 0; k < 1+rng.Intn(2) && ok; k++ {
			ok = write(1, d, c06Edit, 3+rng.Intn(2))
		}
		time.Sleep(2 * time.Millisecond)
		for k := 0; k < 1+rng.Intn(2) && ok; k++ {
			ok = write(0, d, c06Edit, 5+k)
		}
	}
	if !ok {
		rec.Err("infrastructure: lwread setup")
		return
	}
	want := map[string]c06Obs{}
	for _, d := range e.docs {
		want[d] = e.observe(0, d)
	}
	// read by current version from inside the resolution write
	var reads atomic.Int32
	var busy sync.Map // per document: the read itself must not re-enter
	useREST := idx%2 == 1
	lds.SetUpdateCallback(func(key string) {
		w, mine := want[key]
		if !mine {
			return
		}
		if _, again := busy.LoadOrStore(key, true); again {
			return
		}
		defer busy.Delete(key)
		if useREST {
			_ = e.act.SendAdminRequest(http.MethodGet, "/"+e.act.GetSingleKeyspace()+"/"+key+"?rev="+strings.ReplaceAll(w.CV, "@", "%40"), "")
		} else {
			_, _ = coll.GetRev(cctx, key, w.CV, false, nil)
		}
		reads.Add(1)
	})
	descs = append(descs, "start:both (active side's revision read by cv inside every write of the document)")
	if !e.sessionStart("both") || !e.waitQuiescent() || !e.sessionStop() {
		lds.SetUpdateCallback(nil)
		rec.Err("infrastructure: lwread session")
		return
	}
	lds.SetUpdateCallback(nil)
	_, ok1 := e.oneShot(db.ActiveReplicatorTypePull)
	q1, ok2 := e.oneShot(db.ActiveReplicatorTypePush)
	p2, ok3 := e.oneShot(db.ActiveReplicatorTypePull)
	q2, ok4 := e.oneShot(db.ActiveReplicatorTypePush)
	if !(ok1 && ok2 && ok3 && ok4) {
		rec.Err("infrastructure: lwread catch-up")
		return
	}
	input := map[string]any{"protocol": c06Proto(true), "scenario": fmt.Sprintf("lwread-%d", idx), "steps": descs,
		"read": map[bool]string{true: "GET ?rev=<cv>", false: "db.GetRev(cv)"}[useREST], "reads_in_flight": reads.Load()}
	for i, d := range e.docs {
		a, b := e.observe(0, d), e.observe(1, d)
		if a.Exists == b.Exists && a.Deleted == b.Deleted && a.Body == b.Body && a.CV == b.CV {
			continue
		}
		sig := c06StateSig(true, a, b)
		if a.state() == "live" && b.state() == "live" && a.CV == want[d].CV && b.CV != a.CV {
			sig = "vv:diverged:local-wins-stale-revcache-entry"
		}
		rec.Fail("peers_converged", sig, input,
			fmt.Sprintf("doc %d at quiescence: active {rev %s cv %s body %s} passive {rev %s cv %s body %s}; the catch-up push reported %d conflict(s), %d read(s) by cv happened inside writes",
				i, a.Rev, a.CV, a.Body, b.Rev, b.CV, b.Body, q1.DocWriteConflict, reads.Load()))
	}
	if p2.DocsRead != 0 || q2.DocsWritten != 0 {
		rec.Fail("caught_up_no_transfer", "rerun-transfers-documents", input, fmt.Sprintf("re-running the caught-up replication read %d and wrote %d documents", p2.DocsRead, q2.DocsWritten))
	}
	rec.Count("lwread-vv", "lwread", strings.Join(descs, ";")+fmt.Sprint(idx), reads.Load() > 0)
	rec.Extra(fmt.Sprintf("lwread_%d_reads_in_flight", idx), reads.Load())
	for _, m := range e.infra {
		rec.Err("infrastructure: " + strings.SplitN(m, ":", 2)[0])
	}
}

// ---------------------------------------------------------------- local-wins resolution losing its CAS (version-vector)

// lwretry: version-vector continuous push-and-pull; every pulled document is in a conflict the LWW resolver decides
// for the ACTIVE side (its write is the later one) or becomes so; between the update callback of the pull's write and
// its CAS write a LOCAL PUT of the same document lands on the active side (update callback of the active side's data
// store, re-entrancy guarded), so the write loses its CAS and the callback is re-run on the updated document against
// the SAME incoming revision and vector.  The model step is [VPullRetry d body v; VPull d; VPush d; ...]: re-running the
// callback must be indistinguishable from pulling after the local edit.  The session runs to quiescence, is stopped and
// started AGAIN (same replication id, so its checkpoint is reused: a revision dropped by the retry stays dropped), then
// peers_converged; then fresh one-shot pull; push; pull; push, re-run transfers nothing.  The whole scenario is also a
// Coq case of the version-vector model.
func c06RunLocalWinsRetry(t *testing.T, rec *vRecorder, rng *vRand, idx int) {
	e := c06NewEnv(t, true, 2, "")
	coll, _ := e.act.GetSingleTestDatabaseCollectionWithUser()
	lds, ok := base.AsLeakyDataStore(coll.GetCollectionDatastore())
	if !ok {
		rec.Err("infrastructure: active data store is not leaky")
		return
	}
	r := &c06Runner{e: e, bodies: map[int]bool{}}
	do := func(s c06Step) bool { return r.do(r.concretise(s)) }
	ok = true
	// shape 0: both sides create the document; shape 1: created on one side and synced, then both edit; shape 2: the
	// passive side's write is the LATER one (remote wins without the interposed edit).  Passive first, active last.
	for d := range e.docs {
		shape := (idx + d) % 3
		if shape == 1 {
			ok = ok && do(c06W(d%2, d, c06Edit, 2)) && do(c06Step{Kind: "push"}) && do(c06Step{Kind: "pull"})
		}
		if shape == 2 {
			ok = ok && do(c06W(0, d, c06Edit, 2+rng.Intn(2)))
			time.Sleep(2 * time.Millisecond)
		}
		for k := 0; k < 1+rng.Intn(2) && ok; k++ {
			ok = do(c06W(1, d, c06Edit, 3+rng.Intn(2)))
		}
		time.Sleep(2 * time.Millisecond)
		if shape != 2 {
			for k := 0; k < 1+rng.Intn(2) && ok; k++ {
				ok = do(c06W(0, d, c06Edit, 5+k))
			}
		}
	}
	if !ok || len(e.infra) > 0 {
		rec.Err("infrastructure: lwretry setup")
		return
	}
	// the interposed local PUT: once per document, from inside the first write of the document made by the pull
	type injected struct {
		doc, body int
		ver       uint64
		ok        bool
	}
	var mu sync.Mutex
	fired := map[string]bool{}
	var inj []injected
	docIdx := map[string]int{}
	for i, d := range e.docs {
		docIdx[d] = i
	}
	lds.SetUpdateCallback(func(key string) {
		i, mine := docIdx[key]
		if !mine {
			return
		}
		mu.Lock()
		if fired[key] {
			mu.Unlock()
			return
		}
		fired[key] = true
		mu.Unlock()
		body := 6 + i
		// a plain PUT on the current revision through the admin API; the nested write re-enters this callback (guarded)
		rt := e.act
		cur := e.observe(0, key)
		path := "/" + rt.GetSingleKeyspace() + "/" + key
		var resp *TestResponse
		if cur.Exists && !cur.Deleted {
			resp = rt.SendAdminRequest(http.MethodPut, path+"?rev="+cur.Rev, c06BodyText(body))
		} else {
			resp = rt.SendAdminRequest(http.MethodPut, path, c06BodyText(body))
		}
		in := injected{doc: i, body: body}
		var wr struct {
			CV string `json:"cv"`
		}
		if (resp.Code == 200 || resp.Code == 201) && json.Unmarshal(resp.BodyBytes(), &wr) == nil {
			if v, err := db.ParseVersion(wr.CV); err == nil && v.SourceID == e.src[0] {
				in.ver, in.ok = v.Value, true
			}
		}
		mu.Lock()
		inj = append(inj, in)
		mu.Unlock()
	})
	// a continuous push-and-pull session runs to quiescence with the callback armed
	okSess := e.sessionStart("both") && e.waitQuiescent()
	lds.SetUpdateCallback(nil)
	if !okSess {
		rec.Err("infrastructure: lwretry session")
		return
	}
	mu.Lock()
	sort.Slice(inj, func(a, b int) bool { return inj[a].ver < inj[b].ver })
	var ops []string
	desc := "start:both with a local PUT of"
	injectedCV := map[int]uint64{}
	for _, in := range inj {
		if !in.ok {
			mu.Unlock()
			rec.Err("infrastructure: lwretry interposed write failed")
			return
		}
		// the pull whose write lost its CAS to this PUT (model: VPullRetry = the pull made after the PUT)
		ops = append(ops, fmt.Sprintf("VPullRetry %d %d %d", in.doc, in.body, in.ver))
		r.bodies[in.body] = true
		injectedCV[in.doc] = in.ver
		desc += fmt.Sprintf(" d%d(b%d)", in.doc, in.body)
	}
	nInj := len(inj)
	mu.Unlock()
	desc += " between the update callback and the CAS write of the pull's write"
	after, js, okS := r.snapshot()
	if !okS {
		rec.Err("infrastructure: lwretry unexpected body")
		return
	}
	r.steps = append(r.steps, c06Recorded{ops: ops, counts: "None", after: after, desc: map[string]any{"step": desc, "after": js}, sess: true, fresh: true, both: true})
	r.descs = append(r.descs, desc)
	// stop, and run the SAME replication again (its checkpoint is reused): whatever it dropped stays dropped
	if !(do(c06Step{Kind: "stop"}) && do(c06Step{Kind: "start", Dir: "both"}) && do(c06Step{Kind: "stop"})) {
		rec.Err("infrastructure: lwretry restart")
		return
	}
	input := map[string]any{"protocol": c06Proto(true), "scenario": fmt.Sprintf("lwretry-%d", idx), "steps": append([]string{}, r.descs...), "interposed_writes": nInj}
	for i, d := range e.docs {
		a, b := e.observe(0, d), e.observe(1, d)
		if a.Exists == b.Exists && a.Deleted == b.Deleted && a.Body == b.Body && a.CV == b.CV {
			continue
		}
		sig := c06StateSig(true, a, b)
		if v, was := injectedCV[i]; was && a.state() == "live" && b.state() == "live" && a.Src == e.src[0] && a.Ver >= v && b.CV != a.CV {
			// the active side shows its own (interposed or later) write, the passive side never received it
			sig = "vv:diverged:local-wins-cas-retry-drops-remote-version"
		}
		rec.Fail("peers_converged", sig, input,
			fmt.Sprintf("doc %d after the continuous push-and-pull replication became quiescent, was stopped, restarted and became quiescent again: active {rev %s cv %s deleted %v body %s} passive {rev %s cv %s deleted %v body %s}; %d local PUT(s) were interposed",
				i, a.Rev, a.CV, a.Deleted, a.Body, b.Rev, b.CV, b.Deleted, b.Body, nInj))
	}
	// fresh one-shot runs (no checkpoint): catch up, then re-run
	if !(do(c06Step{Kind: "pull"}) && do(c06Step{Kind: "push"})) {
		rec.Err("infrastructure: lwretry catch-up")
		return
	}
	p2, ok3 := e.oneShot(db.ActiveReplicatorTypePull)
	if ok3 {
		r.record(c06Step{Kind: "pull"}, r.allDocs("Pull"), fmt.Sprintf("(Some (%d, %d))", p2.DocsRead, p2.RejectedLocal))
	}
	q2, ok4 := e.oneShot(db.ActiveReplicatorTypePush)
	if ok4 {
		r.record(c06Step{Kind: "push"}, r.allDocs("Push"), fmt.Sprintf("(Some (%d, %d))", q2.DocsWritten, q2.DocWriteConflict))
	}
	if !(ok3 && ok4) || len(e.infra) > 0 || r.abort {
		rec.Err("infrastructure: lwretry re-run")
		for _, m := range e.infra {
			t.Logf("C06 lwretry-%d abandoned: %s", idx, m)
		}
		return
	}
	input["steps"] = r.descs
	if p2.DocsRead != 0 || q2.DocsWritten != 0 {
		rec.Fail("caught_up_no_transfer", "rerun-transfers-documents", input, fmt.Sprintf("re-running the caught-up replication read %d and wrote %d documents", p2.DocsRead, q2.DocsWritten))
	}
	var steps []string
	var descSteps []any
	for _, s := range r.steps {
		steps = append(steps, s.term(true, len(e.docs)))
		descSteps = append(descSteps, s.desc)
	}
	rec.Case("lwretry-vv", "vv-scenario", "CVV\n    "+cqList(steps), map[string]any{"scenario": fmt.Sprintf("lwretry-%d", idx), "protocol": c06Proto(true), "steps": descSteps}, nInj > 0)
	rec.Extra(fmt.Sprintf("lwretry_%d_interposed_writes", idx), nInj)
}

// ---------------------------------------------------------------- resolver stream

func c06ResolverStream(t *testing.T, rec *vRecorder, rng *vRand) {
	ctx := base.TestCtx(t)
	digs := []string{"0a", "a0", "a00", "b", "ff", "7f3c", "7f3d"}
	mk := func() (bool, string) {
		return rng.Chance(35), fmt.Sprintf("%d-%s", 1+rng.Intn(4), digs[rng.Intn(len(digs))])
	}
	rev := func(id string) string {
		i := strings.IndexByte(id, '-')
		return "(I " + id[:i] + " " + cqStr(id[i+1:]) + ")"
	}
	n := vBudget(300, 3000)
	for i := 0; i < n; i++ {
		ld, l := mk()
		rd, r := mk()
		run := func(ld bool, l string, rd bool, r string) (string, bool) {
			c := db.Conflict{LocalDocument: db.Body{db.BodyRev: l, db.BodyDeleted: ld, "side": "local"},
				RemoteDocument: db.Body{db.BodyRev: r, db.BodyDeleted: rd, "side": "remote"}}
			w, err := db.DefaultConflictResolver(ctx, c)
			if err != nil || w == nil {
				return "error", false
			}
			return w[db.BodyRev].(string), w["side"] == "local"
		}
		w1, localWon := run(ld, l, rd, r)
		w2, _ := run(rd, r, ld, l)
		rec.Case("resolver", "resolver", fmt.Sprintf("CResolver %s %s %s %s %s", cqBool(ld), rev(l), cqBool(rd), rev(r), cqBool(localWon)),
			map[string]any{"local": []any{ld, l}, "remote": []any{rd, r}, "local_won": localWon}, ld != rd || l[:1] == r[:1])
		// the documented policy: the revision whose (deleted, generation, digest) compares highest; local on a tie
		genOf := func(id string) int { g, _ := strconv.Atoi(id[:strings.IndexByte(id, '-')]); return g }
		digOf := func(id string) string { return id[strings.IndexByte(id, '-')+1:] }
		wantLocal := true
		switch {
		case ld != rd:
			wantLocal = ld
		case genOf(l) != genOf(r):
			wantLocal = genOf(l) > genOf(r)
		default:
			wantLocal = digOf(l) >= digOf(r)
		}
		if localWon != wantLocal {
			rec.Fail("resolver_policy", "resolver-not-highest-deleted-generation-digest", map[string]any{"local": []any{ld, l}, "remote": []any{rd, r}},
				fmt.Sprintf("DefaultConflictResolver kept %s; the (deleted, generation, digest) order keeps the %s revision", w1, map[bool]string{true: "local", false: "remote"}[wantLocal]))
		}
		if l != r && w1 != w2 {
			rec.Fail("resolver_symmetric", "resolver-choice-depends-on-side", map[string]any{"x": []any{ld, l}, "y": []any{rd, r}},
				fmt.Sprintf("local=x remote=y keeps %s, local=y remote=x keeps %s", w1, w2))
		}
	}
}

// ---------------------------------------------------------------- LWW resolver stream (version-vector protocol)

// db.DefaultLWWConflictResolutionType on (tombstone flag, current version value) pairs, both orientations:
// one Coq case per pair (C06/VV.v lww_remote_wins) and two monitors
//
//	lww_policy     a tombstone beats a live document; otherwise the remote wins iff its value is strictly greater
//	lww_symmetric  unless both the flags and the values are equal, the same document wins whichever side is local
func c06LWWStream(t *testing.T, rec *vRecorder, rng *vRand) {
	ctx := base.TestCtx(t)
	vals := []uint64{1, 2, 3, 1790000000000000000, 1790000000000000001, 1790000000000065536, 1 << 62, 1<<63 - 1}
	n := vBudget(200, 2000)
	for i := 0; i < n; i++ {
		ld, lv := rng.Chance(35), vals[rng.Intn(len(vals))]
		rd, rv := rng.Chance(35), vals[rng.Intn(len(vals))]
		run := func(ld bool, lv uint64, rd bool, rv uint64) (string, bool) {
			c := db.Conflict{LocalDocument: db.Body{db.BodyDeleted: ld, "side": "local"},
				RemoteDocument: db.Body{db.BodyDeleted: rd, "side": "remote"},
				LocalHLV:       &db.HybridLogicalVector{SourceID: "s1", Version: lv},
				RemoteHLV:      &db.HybridLogicalVector{SourceID: "s2", Version: rv}}
			w, err := db.DefaultLWWConflictResolutionType(ctx, c)
			if err != nil || w == nil {
				return "error", false
			}
			side, _ := w["side"].(string)
			return side, side == "local"
		}
		w1, localWon := run(ld, lv, rd, rv)
		w2, localWon2 := run(rd, rv, ld, lv)
		input := map[string]any{"local": []any{ld, lv}, "remote": []any{rd, rv}}
		if w1 == "error" || w2 == "error" {
			rec.Fail("lww_policy", "lww-resolver-error", input, "DefaultLWWConflictResolutionType returned an error")
			continue
		}
		rec.Case("lww", "lww", fmt.Sprintf("CLww %s %d %s %d %s", cqBool(ld), lv, cqBool(rd), rv, cqBool(localWon)),
			map[string]any{"local": []any{ld, lv}, "remote": []any{rd, rv}, "local_won": localWon}, ld != rd || lv == rv)
		wantLocal := true
		switch {
		case ld != rd:
			wantLocal = ld
		default:
			wantLocal = !(rv > lv)
		}
		if localWon != wantLocal {
			rec.Fail("lww_policy", "lww-not-tombstone-then-greater-value", input,
				fmt.Sprintf("DefaultLWWConflictResolutionType kept the %s document; tombstone-first, then strictly greater value keeps the %s one", w1, map[bool]string{true: "local", false: "remote"}[wantLocal]))
		}
		if (ld != rd || lv != rv) && localWon == localWon2 {
			// x local / y remote keeps x  <->  y local / x remote must keep x too, i.e. the remote one
			rec.Fail("lww_symmetric", "lww-choice-depends-on-side", map[string]any{"x": []any{ld, lv}, "y": []any{rd, rv}},
				fmt.Sprintf("local=x remote=y keeps the %s document, local=y remote=x keeps the %s document", w1, w2))
		}
	}
}

// ---------------------------------------------------------------- entry point

func TestVerifC06(t *testing.T) {
	base.RequireNumTestBuckets(t, 2)
	rec := vNewRecorder(t, "C06", "C06.C06_Corr")
	defer rec.Finish()
	rng := vNewRand(vSeed()*7919 + 6)
	start := time.Now()

	c06ResolverStream(t, rec, rng)
	c06LWWStream(t, rec, vNewRand(vSeed()*104729+606))

	for _, sc := range c06Corpus() {
		sc := sc
		t.Run("corpus-"+sc.name, func(t *testing.T) { c06RunScenario(t, rec, "corpus", sc, false, true) })
	}
	nRandom := vBudget(5, 80)
	for i := 0; i < nRandom; i++ {
		sc := c06Scenario{name: fmt.Sprintf("random-%d-%d", vSeed(), i), plan: c06Plan(rng, 5+rng.Intn(6), 3)}
		t.Run(sc.name, func(t *testing.T) { c06RunScenario(t, rec, "random", sc, false, true) })
	}
	nBurst := vBudget(2, 24)
	for i := 0; i < nBurst; i++ {
		i := i
		t.Run(fmt.Sprintf("burst-%d", i), func(t *testing.T) { c06RunBurst(t, rec, rng, false, i) })
	}
	// version-vector protocol: same shapes, monitors only
	for _, sc := range c06CorpusVV() {
		sc := sc
		t.Run("vv-corpus-"+sc.name, func(t *testing.T) { c06RunScenario(t, rec, "vv", sc, true, true) })
	}
	nVV := vBudget(2, 24)
	for i := 0; i < nVV; i++ {
		sc := c06Scenario{name: fmt.Sprintf("vv-%d-%d", vSeed(), i), plan: c06Plan(rng, 5+rng.Intn(6), 3)}
		t.Run(sc.name, func(t *testing.T) { c06RunScenario(t, rec, "vv", sc, true, true) })
	}
	for i := 0; i < vBudget(1, 8); i++ {
		i := i
		t.Run(fmt.Sprintf("burst-vv-%d", i), func(t *testing.T) { c06RunBurst(t, rec, rng, true, i) })
	}
	for i := 0; i < vBudget(2, 12); i++ {
		i := i
		t.Run(fmt.Sprintf("lwread-vv-%d", i), func(t *testing.T) { c06RunLocalWinsRead(t, rec, rng, i) })
	}
	for i := 0; i < vBudget(2, 12); i++ {
		i := i
		t.Run(fmt.Sprintf("lwretry-vv-%d", i), func(t *testing.T) { c06RunLocalWinsRetry(t, rec, rng, i) })
	}
	// deepening round: custom resolvers, the chain A <-> B <-> C, re-delivery (verif_c06_custom_test.go)
	c06RunDeepening(t, rec)
	rec.Extra("wall_s", time.Since(start).Seconds())
	rec.Extra("exhaustive", false)
}
