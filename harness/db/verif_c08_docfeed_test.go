//go:build verif

package db

import (
	"fmt"
	"sort"
	"strings"
	"testing"
	"time"

	sgbucket "github.com/couchbase/sg-bucket"
	"github.com/couchbase/sync_gateway/base"
	"github.com/couchbase/sync_gateway/channels"
)

// C08, second part: feeds of REAL events through changeListener.ProcessFeedEvent -> changeCache.DocChanged.
//
// A document item is written to the bucket with its sync metadata (sequence, unused_sequences, recent_sequences,
// channel map with removals) in the _sync xattr, read back with its CAS, and handed to the real listener as the
// xattr-only mutation event the caching feed delivers (key, CAS, datatype JSON|XATTR, value = encoded xattrs).  A
// principal item is a principal document written to the metadata store (DocChanged fetches it back and compares the
// CAS).  Unused-sequence documents and ranges arrive under their keys.  After every event the state of the change
// cache is projected exactly as in the first part and compared with DocFeed.dstep in Coq (case DCase).

type c08Item struct {
	Typ     string   `json:"item"` // D document, P principal, F raw operation of the first part
	Doc     string   `json:"doc,omitempty"`
	Seq     uint64   `json:"seq,omitempty"`
	Unused  []uint64 `json:"unused_sequences,omitempty"`
	Recent  []uint64 `json:"recent_sequences,omitempty"`
	Removed []uint64 `json:"channel_removal_at,omitempty"`
	Aged    bool     `json:"aged,omitempty"`
	Op      *c08Op   `json:"op,omitempty"`
}

func (it c08Item) coq() string {
	switch it.Typ {
	case "D":
		return fmt.Sprintf("FDoc %d %s %s %s %s", it.Seq, cqNList(it.Unused), cqNList(it.Recent), cqNList(it.Removed), cqBool(it.Aged))
	case "P":
		return fmt.Sprintf("FPrinc %d %s", it.Seq, cqBool(it.Aged))
	}
	return "FOp (" + it.Op.coq() + ")"
}

func (it c08Item) String() string {
	a := ""
	if it.Aged {
		a = "!"
	}
	switch it.Typ {
	case "D":
		s := fmt.Sprintf("%s@%d%s", it.Doc, it.Seq, a)
		if len(it.Unused) > 0 {
			s += fmt.Sprintf("u%v", it.Unused)
		}
		if len(it.Recent) > 0 {
			s += fmt.Sprintf("r%v", it.Recent)
		}
		if len(it.Removed) > 0 {
			s += fmt.Sprintf("x%v", it.Removed)
		}
		return s
	case "P":
		return fmt.Sprintf("p%d%s", it.Seq, a)
	}
	return it.Op.String()
}

func c08ItemsString(items []c08Item) string {
	p := make([]string, len(items))
	for i, it := range items {
		p[i] = it.String()
	}
	return strings.Join(p, " ")
}

// texpand of DocFeed.v: the arrivals an event stands for; own = the event's own business (false: a mention in recent_sequences)
func (it c08Item) expand(initial uint64) (ops []c08Op, own []bool) {
	switch it.Typ {
	case "D":
		if it.Seq <= initial {
			return nil, nil
		}
		for _, u := range it.Unused {
			ops, own = append(ops, c08Op{Typ: "A", Kind: c08Unused, S: u, Aged: it.Aged}), append(own, true)
		}
		cur := it.Seq
		if len(it.Unused) > 0 {
			cur = it.Unused[0]
		}
		for _, r := range it.Recent {
			if r < cur {
				k := c08Unused
				if c08Has(it.Removed, r) {
					k = c08Doc
				}
				ops, own = append(ops, c08Op{Typ: "A", Kind: k, S: r, Aged: it.Aged}), append(own, false)
			}
		}
		ops, own = append(ops, c08Op{Typ: "A", Kind: c08Doc, S: it.Seq, Aged: it.Aged}), append(own, true)
	case "P":
		if it.Seq > initial {
			ops, own = append(ops, c08Op{Typ: "A", Kind: c08Princ, S: it.Seq, Aged: it.Aged}), append(own, true)
		}
	default:
		ops, own = append(ops, *it.Op), append(own, true)
	}
	return
}

// the real feed plumbing of one change cache instance
type c08Feed struct {
	in       *c08Inst
	listener *changeListener
	coll     *DatabaseCollection
	prefix   string
	cas      map[string]uint64
	sent     map[string]sgbucket.FeedEvent
	gen      map[string]int
}

var c08FeedCounter int

func (e *c08Env) newFeed(in *c08Inst) *c08Feed {
	l, err := newChangeListener("c08", "", e.dbc)
	if err != nil {
		e.t.Fatalf("newChangeListener: %v", err)
	}
	l.ctx = e.ctx
	l.OnChangeCallback = in.cc.DocChanged
	c08FeedCounter++
	return &c08Feed{in: in, listener: l, coll: GetSingleDatabaseCollection(e.t, e.dbc), prefix: fmt.Sprintf("c08f%d_", c08FeedCounter),
		cas: map[string]uint64{}, sent: map[string]sgbucket.FeedEvent{}, gen: map[string]int{}}
}

func c08EventTime(aged bool) time.Time {
	if aged {
		return time.Now().Add(-2 * c08MaxWait)
	}
	return time.Now()
}

func c08SyncDataFor(it c08Item, gen int) *SyncData {
	rev := fmt.Sprintf("%d-abc", gen)
	chanMap := c08ChanMap(it.Seq)
	chanSet := base.Set{}
	for ch := range chanMap {
		chanSet[ch] = struct{}{}
	}
	for _, r := range it.Removed {
		chanMap[fmt.Sprintf("c08rm%d", r)] = &channels.ChannelRemoval{Seq: r, Rev: channels.RevAndVersion{RevTreeID: "1-rm"}}
	}
	return &SyncData{
		RevAndVersion:   channels.RevAndVersion{RevTreeID: rev},
		Sequence:        it.Seq,
		UnusedSequences: it.Unused,
		RecentSequences: it.Recent,
		Channels:        chanMap,
		TimeSaved:       time.Now(),
		History:         RevTree{rev: &RevInfo{ID: rev, Channels: chanSet}},
	}
}

// writes the document / principal and returns the mutation event the caching feed (xattr-only content) delivers for it
func (f *c08Feed) event(it c08Item) sgbucket.FeedEvent {
	t, ctx := f.in.env.t, f.in.env.ctx
	id := fmt.Sprintf("%s|%d|%v|%v|%v", it.Doc, it.Seq, it.Unused, it.Recent, it.Removed)
	if ev, ok := f.sent[id]; ok { // the same mutation delivered again
		return ev
	}
	var ev sgbucket.FeedEvent
	switch it.Typ {
	case "D":
		key := f.prefix + it.Doc
		f.gen[key]++
		body := []byte(fmt.Sprintf(`{"key": %q, "gen": %d}`, key, f.gen[key]))
		opts := &sgbucket.MutateInOptions{MacroExpansion: macroExpandSpec(base.SyncXattrName)}
		xattrs := map[string][]byte{base.SyncXattrName: base.MustJSONMarshal(t, c08SyncDataFor(it, f.gen[key]))}
		if _, err := f.coll.dataStore.WriteWithXattrs(ctx, key, 0, f.cas[key], body, xattrs, nil, opts); err != nil {
			t.Fatalf("c08: WriteWithXattrs(%s): %v", key, err)
		}
		_, xv, cas, err := f.coll.dataStore.GetWithXattrs(ctx, key, []string{base.SyncXattrName})
		if err != nil {
			t.Fatalf("c08: GetWithXattrs(%s): %v", key, err)
		}
		f.cas[key] = cas
		ev = sgbucket.FeedEvent{Opcode: sgbucket.FeedOpMutation, Key: []byte(key), Cas: cas, CollectionID: f.coll.GetCollectionID(), Synchronous: true,
			DataType: base.MemcachedDataTypeJSON | base.MemcachedDataTypeXattr,
			Value:    sgbucket.EncodeValueWithXattrs(nil, sgbucket.Xattr{Name: base.SyncXattrName, Value: xv[base.SyncXattrName]})}
	case "P":
		name := f.prefix + it.Doc
		key := f.in.cc.metaKeys.UserKey(name)
		if strings.HasPrefix(it.Doc, "r") {
			key = f.in.cc.metaKeys.RoleKey(name)
		}
		body := []byte(fmt.Sprintf(`{"name": %q, "sequence": %d}`, name, it.Seq))
		if err := f.in.env.dbc.MetadataStore.SetRaw(ctx, key, 0, nil, body); err != nil {
			t.Fatalf("c08: SetRaw(%s): %v", key, err)
		}
		_, cas, err := f.in.env.dbc.MetadataStore.GetRaw(ctx, key)
		if err != nil {
			t.Fatalf("c08: GetRaw(%s): %v", key, err)
		}
		ev = sgbucket.FeedEvent{Opcode: sgbucket.FeedOpMutation, Key: []byte(key), Cas: cas, Synchronous: true, DataType: base.MemcachedDataTypeJSON}
	}
	f.sent[id] = ev
	return ev
}

func (f *c08Feed) deliver(it c08Item) {
	switch it.Typ {
	case "D", "P":
		ev := f.event(it)
		ev.TimeReceived = c08EventTime(it.Aged)
		f.listener.ProcessFeedEvent(ev)
	default:
		op := *it.Op
		switch {
		case op.Typ == "A" && op.Kind == c08Unused:
			f.listener.ProcessFeedEvent(sgbucket.FeedEvent{Opcode: sgbucket.FeedOpMutation, Key: []byte(f.in.cc.metaKeys.UnusedSeqKey(op.S)), TimeReceived: c08EventTime(op.Aged)})
		case op.Typ == "R" && !op.Aged: // processUnusedSequenceRange stamps the entry with the current time
			f.listener.ProcessFeedEvent(sgbucket.FeedEvent{Opcode: sgbucket.FeedOpMutation, Key: []byte(f.in.cc.metaKeys.UnusedSeqRangeKey(op.S, op.Hi)), TimeReceived: time.Now()})
		default:
			f.in.apply(op)
		}
	}
}

type c08ItemResult struct {
	obs        []c08Obs
	late       []uint64
	nontrivial bool
	mattered   bool // the expansion of unused_sequences / recent_sequences produced a delivery or a buffered entry
	presetLate bool // a recent sequence was delivered late through the preset Skipped flag
}

func (e *c08Env) runItems(rec *vRecorder, stream string, maxp int, initial uint64, items []c08Item, consistent bool) c08ItemResult {
	in := e.newInst(maxp, initial)
	defer in.close()
	feed := e.newFeed(in)
	m := &c08Mon{rec: rec, stream: stream, maxp: maxp, initial: initial, consistent: consistent, prevNext: initial + 1, docMode: true}
	var res c08ItemResult
	var delivered []c08Item
	// documents carry the id of the collection they were written to: the "*" channel cache of that collection, with a
	// late-sequence client registered on it
	starChan := in.chans[0]
	if id := feed.coll.GetCollectionID(); id != base.DefaultCollectionID {
		sc, ok := in.chc.addChannelCache(e.ctx, channels.NewID(channels.UserStarChannel, id))
		if !ok {
			e.t.Fatalf("cannot create the star channel cache of collection %d", id)
		}
		starChan = &c08Chan{id: 0, sc: sc, reg: sc.RegisterLateSequenceClient()}
	}
	m.input = func() any {
		return map[string]any{"stream": stream, "maxp": maxp, "initial": initial, "items": delivered, "trace": c08ItemsString(delivered), "expanded": c08OpsString(m.hist)}
	}
	fail := m.fail
	for _, it := range items {
		feed.deliver(it)
		o := in.observe()
		delivered = append(delivered, it)
		ops, _ := it.expand(initial)
		if it.Typ == "F" {
			m.hist = append(m.hist, *it.Op)
			m.after(*it.Op, o)
		} else {
			for _, h := range m.hist {
				for _, op := range ops {
					if h.Typ == "A" && h.S == op.S {
						m.dupAny = true
					}
				}
			}
			m.hist = append(m.hist, ops...)
			m.deliveries(o)
			m.state(o)
			cur := it.Seq
			if len(it.Unused) > 0 {
				cur = it.Unused[0]
			}
			for _, d := range o.Dl {
				if d.Seq != it.Seq && (c08Has(it.Unused, d.Seq) || (c08Has(it.Recent, d.Seq) && d.Seq < cur)) {
					res.mattered = true
					if d.Late && c08Has(it.Recent, d.Seq) {
						res.presetLate = true
					}
				}
				// docfeed_expansion: an unused sequence is forwarded as such, a recent sequence as a document exactly when a
				// channel removal is recorded at it
				if it.Typ == "D" && it.Seq > initial && d.Seq != it.Seq && d.End == 0 {
					want, mine := c08Unused, false
					if c08Has(it.Unused, d.Seq) {
						mine = true
					} else if c08Has(it.Recent, d.Seq) && d.Seq < cur {
						mine = true
						if c08Has(it.Removed, d.Seq) {
							want = c08Doc
						}
					}
					was := false
					for _, p := range m.prevPend {
						if p[0] == d.Seq {
							was = true
						}
					}
					if mine && !was && d.Kind != want {
						fail("docfeed_expansion", "wrong-kind-forwarded", fmt.Sprintf("event %s made the cache forward %+v; expected kind %s", it, d, want.coq()))
					}
				}
				// docfeed_expansion: what one event makes the cache forward is one of its own numbers or something that was buffered
				if it.Typ == "D" && it.Seq > initial && d.End == 0 && !c08Has(it.Unused, d.Seq) && !c08Has(it.Recent, d.Seq) && d.Seq != it.Seq {
					was := false
					for _, p := range m.prevPend {
						if p[0] == d.Seq {
							was = true
						}
					}
					if !was {
						fail("docfeed_expansion", "foreign-sequence-forwarded", fmt.Sprintf("event %s made the cache forward %+v, which is neither one of its numbers nor was buffered", it, d))
					}
				}
			}
			// a document at or below the initial sequence is ignored as a whole
			if it.Seq <= initial && (len(o.Dl) > 0 || o.Next != m.prevNext) {
				fail("docfeed_expansion", "old-document-processed", fmt.Sprintf("event %s is at or below the initial sequence %d and changed the cache", it, initial))
			}
			m.prevNext, m.prevSkip, m.prevRecv = o.Next, o.Skip, o.Recv
		}
		m.prevPend = o.Pend
		// docfeed_documents_not_lost, on consistent feeds: every document / principal delivered so far is forwarded, buffered or abandoned
		if consistent {
			for _, d := range delivered {
				if d.Typ == "D" && d.Seq > initial {
					m.mustBeAccountedFor(c08Doc, d.Seq, o)
				}
				if d.Typ == "P" && d.Seq > initial {
					m.mustBeAccountedFor(c08Princ, d.Seq, o)
				}
			}
		}
		res.obs = append(res.obs, o)
	}
	star := starChan.contents()
	var lates []uint64
	for _, d := range m.all {
		if d.Kind == c08Doc && d.Late {
			lates = append(lates, d.Seq)
		}
	}
	if fmt.Sprint(lates) != fmt.Sprint(star.Late) {
		fail("seqbuf_star_cache", "late-log-differs", fmt.Sprintf("late documents forwarded %v, star late log holds %v", lates, star.Late))
	}
	res.late = star.Late
	res.nontrivial = m.buffered && (m.skippedAny || m.dupAny) && res.mattered
	return res
}

func (e *c08Env) doItems(rec *vRecorder, stream, kind string, maxp int, initial uint64, items []c08Item, consistent bool) c08ItemResult {
	res := e.runItems(rec, stream, maxp, initial, items, consistent)
	steps := make([]string, len(items))
	for i, it := range items {
		steps[i] = "(" + it.coq() + ", " + res.obs[i].coq() + ")"
		rec.Err("item:" + it.Typ)
	}
	rec.Size(fmt.Sprintf("items%02d", len(items)))
	term := fmt.Sprintf("DCase %d %d %s %s %s", maxp, initial, cqList(steps), cqNList(res.late), cqBool(consistent))
	desc := map[string]any{"maxp": maxp, "initial": initial, "consistent": consistent, "trace": c08ItemsString(items), "final": res.obs[len(res.obs)-1]}
	rec.Case(stream, kind, term, desc, res.nontrivial)
	return res
}

// ---------- generators ----------

// a consistent feed of documents (what C07 / C05 guarantee): sequences are handed out in order to revisions of a few
// documents (sometimes after wasting one or two, which end up in unused_sequences), principals, unused-sequence
// documents and ranges, or to nobody; recent_sequences lists the document's last revisions; DCP deduplicates some
// mutations away; per document the feed is ordered, across documents it is not; mutations are re-delivered.
func c08GenDocFeed(rnd *vRand, initial uint64, abandon func() c08Op) []c08Item {
	nDocs := 2 + rnd.Intn(3)
	docSeqs := make([][]uint64, nDocs)
	docRemoved := make([][]uint64, nDocs)
	queues := make([][]c08Item, nDocs)
	s := initial + 1
	end := initial + uint64(8+rnd.Intn(9))
	if initial > 2 && rnd.Chance(30) { // a document last written before the cache started
		queues = append(queues, []c08Item{{Typ: "D", Doc: "old", Seq: initial - 1, Recent: []uint64{initial - 2, initial - 1}}})
	}
	for s <= end {
		switch r := rnd.Intn(20); {
		case r < 11:
			j := rnd.Intn(nDocs)
			var unused []uint64
			if rnd.Chance(25) {
				for k := 1 + rnd.Intn(2); k > 0; k-- {
					unused = append(unused, s)
					s++
				}
			}
			seq := s
			s++
			if n := len(docSeqs[j]); n > 0 && rnd.Chance(30) {
				docRemoved[j] = append(docRemoved[j], docSeqs[j][n-1]) // the previous revision took the document out of a channel
			}
			docSeqs[j] = append(docSeqs[j], seq)
			recent := docSeqs[j]
			if len(recent) > 4 {
				recent = recent[len(recent)-4:]
			}
			var removed []uint64
			for _, x := range docRemoved[j] {
				if c08Has(recent, x) {
					removed = append(removed, x)
				}
			}
			queues[j] = append(queues[j], c08Item{Typ: "D", Doc: fmt.Sprintf("d%d", j), Seq: seq, Unused: unused,
				Recent: append([]uint64(nil), recent...), Removed: removed})
		case r < 13:
			name := fmt.Sprintf("u%d", s)
			if rnd.Chance(30) {
				name = fmt.Sprintf("r%d", s)
			}
			queues = append(queues, []c08Item{{Typ: "P", Doc: name, Seq: s}})
			s++
		case r < 15:
			queues = append(queues, []c08Item{{Typ: "F", Op: &c08Op{Typ: "A", Kind: c08Unused, S: s}}})
			s++
		case r < 17:
			l := uint64(1 + rnd.Intn(3))
			queues = append(queues, []c08Item{{Typ: "F", Op: &c08Op{Typ: "R", S: s, Hi: s + l}}})
			s += l + 1
		default:
			s++
		}
	}
	// DCP deduplication: a mutation that is not the document's last one may never be delivered
	for j := 0; j < nDocs; j++ {
		var kept []c08Item
		for k, it := range queues[j] {
			if k < len(queues[j])-1 && rnd.Chance(35) {
				continue
			}
			kept = append(kept, it)
		}
		queues[j] = kept
	}
	// some streams stall: their remaining events arrive at the very end (late arrivals)
	tails := make([][]c08Item, len(queues))
	for j := range queues {
		if len(queues[j]) > 0 && rnd.Chance(18) {
			cut := rnd.Intn(len(queues[j]))
			tails[j] = queues[j][cut:]
			queues[j] = queues[j][:cut]
		}
	}
	agedPct := []int{0, 15, 50}[rnd.Intn(3)]
	H := c08Item{Typ: "F", Op: &c08Op{Typ: "H"}}
	var out []c08Item
	var emitted []c08Item
	drain := func(qs [][]c08Item) {
		for {
			var live []int
			best := -1
			for j := range qs {
				if len(qs[j]) == 0 {
					continue
				}
				live = append(live, j)
				seqOf := func(it c08Item) uint64 {
					if it.Typ == "F" {
						return it.Op.S
					}
					return it.Seq
				}
				if best < 0 || seqOf(qs[j][0]) < seqOf(qs[best][0]) {
					best = j
				}
			}
			if len(live) == 0 {
				return
			}
			j := best
			if rnd.Chance(40) {
				j = live[rnd.Intn(len(live))]
			}
			it := qs[j][0]
			qs[j] = qs[j][1:]
			if it.Typ == "F" {
				op := *it.Op
				op.Aged = rnd.Chance(agedPct)
				it.Op = &op
			} else {
				it.Aged = rnd.Chance(agedPct)
			}
			out = append(out, it)
			emitted = append(emitted, it)
			if rnd.Chance(10) { // a mutation delivered again
				again := emitted[rnd.Intn(len(emitted))]
				if again.Typ != "F" {
					again.Aged = rnd.Chance(agedPct)
				}
				out = append(out, again)
			}
			if rnd.Chance(12) {
				out = append(out, H)
			}
			if rnd.Chance(4) {
				op := abandon()
				out = append(out, c08Item{Typ: "F", Op: &op})
			}
		}
	}
	drain(queues)
	out = append(out, H)
	if rnd.Chance(25) {
		op := abandon()
		out = append(out, c08Item{Typ: "F", Op: &op})
	}
	drain(tails)
	out = append(out, H)
	return out
}

// arbitrary events: sequences, unused and recent lists that overlap, repeat, exceed the document's sequence, lie at or
// below the initial sequence; no raw ranges (so that no two different pending entries can share a start sequence)
func c08GenAdversarialItems(rnd *vRand, abandon func() c08Op) []c08Item {
	n := 4 + rnd.Intn(10)
	var out []c08Item
	pick := func(k int) []uint64 {
		var l []uint64
		for ; k > 0; k-- {
			l = append(l, uint64(rnd.Intn(16)))
		}
		return l
	}
	for i := 0; i < n; i++ {
		switch r := rnd.Intn(20); {
		case r < 11:
			it := c08Item{Typ: "D", Doc: fmt.Sprintf("d%d", rnd.Intn(3)), Seq: uint64(rnd.Intn(16)), Unused: pick(rnd.Intn(3)), Recent: pick(rnd.Intn(5)), Aged: rnd.Chance(25)}
			for _, x := range it.Recent {
				if rnd.Chance(30) && !c08Has(it.Removed, x) {
					it.Removed = append(it.Removed, x)
				}
			}
			out = append(out, it)
		case r < 13:
			s := uint64(rnd.Intn(16))
			out = append(out, c08Item{Typ: "P", Doc: fmt.Sprintf("u%d", s), Seq: s, Aged: rnd.Chance(25)})
		case r < 16:
			out = append(out, c08Item{Typ: "F", Op: &c08Op{Typ: "A", Kind: c08Unused, S: uint64(rnd.Intn(16)), Aged: rnd.Chance(25)}})
		case r < 19:
			out = append(out, c08Item{Typ: "F", Op: &c08Op{Typ: "H"}})
		default:
			op := abandon()
			out = append(out, c08Item{Typ: "F", Op: &op})
		}
	}
	return out
}

// ---------- system level: the real rosmar DCP feed delivers what the harness writes ----------

// A consistent feed of documents (with unused_sequences / recent_sequences), principals and unused-sequence
// documents is WRITTEN to the bucket of a real database in delivery order; its own caching feed hands the mutations
// to its own change cache (5 ms pending wait, so gaps are skipped by the background task).  Once a marker document
// above everything has been processed: the skipped list must be exactly the set of sequences nobody accounted for,
// nothing may have been forwarded twice and the last revision of every document must be in the "*" channel cache.
func c08DocSystemScenario(t *testing.T, rec *vRecorder, rnd *vRand) bool {
	opts := shortWaitCache()
	db, ctx := setupTestDBWithCacheOptions(t, opts)
	defer db.Close(ctx)
	collection := GetSingleDatabaseCollection(t, db.DatabaseContext)
	cc := &db.changeCache
	initial := cc.initialSequence
	items := c08GenDocFeed(rnd, initial, func() c08Op { return c08Op{Typ: "H"} })
	inp := map[string]any{"stream": "docfeed-system", "initial": initial, "items": items, "trace": c08ItemsString(items)}
	cas := map[string]uint64{}
	gen := map[string]int{}
	written := map[string]bool{}
	covered := map[uint64]bool{}
	lastRev := map[string]uint64{}
	top := initial
	usedDocs := 0
	for _, it := range items {
		id := fmt.Sprintf("%s|%d", it.Doc, it.Seq)
		ops, _ := it.expand(initial)
		switch it.Typ {
		case "D":
			if written[id] {
				continue // a re-delivery cannot be provoked on the real feed
			}
			written[id] = true
			key := "c08sys_" + it.Doc
			gen[key]++
			xattrs := map[string][]byte{base.SyncXattrName: base.MustJSONMarshal(t, c08SyncDataFor(it, gen[key]))}
			mo := &sgbucket.MutateInOptions{MacroExpansion: macroExpandSpec(base.SyncXattrName)}
			c, err := collection.dataStore.WriteWithXattrs(ctx, key, 0, cas[key], []byte(fmt.Sprintf(`{"gen": %d}`, gen[key])), xattrs, nil, mo)
			if err != nil {
				t.Fatalf("c08 system: WriteWithXattrs(%s): %v", key, err)
			}
			cas[key] = c
			if it.Seq > initial {
				lastRev[key] = it.Seq
				usedDocs++
			}
		case "P":
			if written[id] {
				continue
			}
			written[id] = true
			name := "c08sys" + it.Doc
			key := db.MetadataKeys.UserKey(name)
			if err := db.MetadataStore.SetRaw(ctx, key, 0, nil, []byte(fmt.Sprintf(`{"name": %q, "sequence": %d}`, name, it.Seq))); err != nil {
				t.Fatalf("c08 system: SetRaw(%s): %v", key, err)
			}
		default:
			op := *it.Op
			var key string
			switch op.Typ {
			case "A":
				key = db.MetadataKeys.UnusedSeqKey(op.S)
			case "R":
				key = db.MetadataKeys.UnusedSeqRangeKey(op.S, op.Hi)
			default:
				continue
			}
			if written[key] {
				continue
			}
			written[key] = true
			if err := db.MetadataStore.SetRaw(ctx, key, 0, nil, []byte("{}")); err != nil {
				t.Fatalf("c08 system: SetRaw(%s): %v", key, err)
			}
		}
		for _, op := range ops {
			lo, hi := op.S, op.S
			if op.Typ == "R" {
				hi = op.Hi
			}
			if op.Typ != "A" && op.Typ != "R" {
				continue
			}
			for s := lo; s <= hi; s++ {
				covered[s] = true
			}
			if hi > top {
				top = hi
			}
		}
	}
	marker := top + 2
	WriteDirect(t, collection, []string{c08ChanName(1)}, marker)
	deadline := time.Now().Add(45 * time.Second)
	for cc.getNextSequence() <= marker && time.Now().Before(deadline) {
		time.Sleep(5 * time.Millisecond)
	}
	if cc.getNextSequence() <= marker {
		rec.Fail("docfeed_system", "docfeed-system-stalled", inp, fmt.Sprintf("nextSequence %d never passed the marker %d", cc.getNextSequence(), marker))
		return false
	}
	ok := true
	var want, got []uint64
	for s := initial + 1; s < marker; s++ {
		if !covered[s] {
			want = append(want, s)
		}
	}
	for e := cc.skippedSeqs.list.Front(); e != nil; e = e.Next() {
		for s := e.Key().Start; s <= e.Key().End; s++ {
			got = append(got, s)
		}
	}
	if fmt.Sprint(want) != fmt.Sprint(got) {
		ok = false
		rec.Fail("docfeed_skipped_exact", "system-skipped-set-differs", inp, fmt.Sprintf("sequences nobody accounted for %v, skipped list %v", want, got))
	}
	entries, err := cc.GetChanges(ctx, channels.NewID(channels.UserStarChannel, collection.GetCollectionID()), getChangesOptionsWithZeroSeq(t))
	if err != nil {
		t.Fatalf("c08 system: GetChanges: %v", err)
	}
	seen := map[uint64]int{}
	for _, le := range entries {
		seen[le.Sequence]++
	}
	var keys []string
	for k := range lastRev {
		keys = append(keys, k)
	}
	sort.Strings(keys)
	for _, k := range keys {
		if seen[lastRev[k]] != 1 {
			ok = false
			rec.Fail("docfeed_documents_not_lost", "system-last-revision-missing", inp, fmt.Sprintf("document %s: its last revision %d is in the star channel %d times (entries %v)", k, lastRev[k], seen[lastRev[k]], seen))
		}
	}
	rec.Count("docfeed-system", "docfeed-system", c08ItemsString(items), len(want) > 0 && usedDocs > 2)
	return ok
}

// ---------- entry point, called from TestVerifC08 ----------

func c08DocFeedStreams(t *testing.T, rec *vRecorder, rnd *vRand, env *c08Env, abandon func() c08Op) {
	D := func(doc string, seq uint64, unused, recent, removed []uint64, aged bool) c08Item {
		return c08Item{Typ: "D", Doc: doc, Seq: seq, Unused: unused, Recent: recent, Removed: removed, Aged: aged}
	}
	P := func(seq uint64, aged bool) c08Item { return c08Item{Typ: "P", Doc: fmt.Sprintf("u%d", seq), Seq: seq, Aged: aged} }
	F := func(op c08Op) c08Item { return c08Item{Typ: "F", Op: &op} }
	H := F(c08Op{Typ: "H"})
	U := func(l ...uint64) []uint64 { return l }

	// ---- (f) corpus of real feed events ----
	corpus := []struct {
		maxp       int
		initial    uint64
		consistent bool
		items      []c08Item
	}{
		// the feed of C08_docfeed_nonvacuous
		{100, 10, true, []c08Item{D("a", 11, nil, U(11), nil, false), D("b", 17, nil, U(17), nil, true), H, P(15, false),
			D("a", 14, U(13), U(11, 12, 14), U(12), false), F(c08Op{Typ: "R", S: 19, Hi: 20, Aged: true}), D("c", 22, nil, U(22), nil, true), H,
			F(c08Op{Typ: "Y", Bits: []bool{false, true, true}}), D("a", 14, U(13), U(11, 12, 14), U(12), false)}},
		// unused_sequences close the gap in front of the document
		{100, 10, true, []c08Item{D("a", 13, U(11, 12), U(13), nil, false), D("b", 14, nil, U(14), nil, false)}},
		// a deduplicated revision (11) is announced by recent_sequences while 12 waits for it: snapshot <= 11 < current
		{100, 10, true, []c08Item{D("b", 12, nil, U(12), nil, false), D("a", 13, nil, U(11, 13), nil, false)}},
		// ... and after it was skipped: delivered late with the flag preset, as a document when a channel removal is recorded at it
		{100, 10, true, []c08Item{D("b", 13, nil, U(13), nil, true), H, D("a", 14, nil, U(11, 12, 14), U(12), false), P(16, true), H}},
		// recent sequences that have been processed are dropped without a call; the document's own sequence in the list is not a mention
		{1, 10, true, []c08Item{D("a", 11, nil, U(11), nil, false), D("a", 12, nil, U(11, 12), nil, false), D("a", 15, U(13, 14), U(11, 12, 15), nil, false), D("a", 15, U(13, 14), U(11, 12, 15), nil, true)}},
		// documents and principals from before the cache started are ignored, with everything they carry
		{100, 10, true, []c08Item{D("old", 9, U(8), U(5, 9), nil, false), P(7, false), P(10, false), D("a", 11, nil, U(10, 11), nil, false), P(12, false)}},
		// several recent sequences above the snapshot: nextSequence moves during the loop, the snapshot does not
		{100, 10, true, []c08Item{D("b", 15, nil, U(15), nil, false), D("a", 14, nil, U(11, 12, 13, 14), U(12), false)}},
		// NOT consistent: a revision announced by recent_sequences before its own mutation arrives is then ignored as a duplicate
		{100, 10, false, []c08Item{D("a", 12, nil, U(11, 12), nil, false), D("a", 11, nil, U(11), nil, false), D("b", 13, nil, U(13), nil, false)}},
		// NOT consistent: unused list above the document's sequence, recent list above it, a number used twice
		{2, 0, false, []c08Item{D("a", 3, U(5), U(4, 9, 3), U(4), false), D("b", 5, nil, U(5), nil, false), D("c", 3, nil, nil, nil, true), P(4, false), H}},
	}
	for _, c := range corpus {
		env.doItems(rec, "docfeed-corpus", "docfeed-corpus", c.maxp, c.initial, c.items, c.consistent)
	}

	// the race recorded in C08_Refuted.stale_skipped_flag_delivers_twice: processEntry called with change.Skipped preset for
	// a sequence that is no longer in the skipped list (monitors off: the double delivery is the point)
	{
		in := env.newInst(100, 10)
		pre := []c08Op{{Typ: "A", Kind: c08Doc, S: 12, Aged: true}, {Typ: "H"}, {Typ: "A", Kind: c08Doc, S: 11}}
		var steps []string
		for _, op := range pre {
			in.apply(op)
			in.observe()
			steps = append(steps, op.coq())
		}
		in.cc.processEntry(env.ctx, &LogEntry{Sequence: 11, UnusedSequence: true, Skipped: true, TimeReceived: c08Stamp(false)})
		o := in.observe()
		twice := len(o.Dl) == 1 && o.Dl[0].Seq == 11 && o.Dl[0].Late && !o.Dl[0].InSkip
		rec.Case("docfeed-corpus", "stale-preset-flag", fmt.Sprintf("PCase 100 10 %s KUnused 11 false (%s)", cqList(steps), o.coq()),
			map[string]any{"pre": c08OpsString(pre), "then": "processEntry(seq 11, Skipped=true)", "forwarded_again": twice, "obs": o}, twice)
		rec.Extra("stale_preset_flag_forwards_twice", twice)
		in.close()
	}

	// ---- (g) random consistent feeds of documents ----
	pickMaxp := func() int { return []int{0, 1, 2, 3, 100}[rnd.Intn(5)] }
	nDoc := vBudget(400, 5000)
	mattered, preset := 0, 0
	for i := 0; i < nDoc; i++ {
		initial := []uint64{0, 1, 7, 1000}[rnd.Intn(4)]
		items := c08GenDocFeed(rnd, initial, abandon)
		res := env.doItems(rec, "docfeed-consistent", "docfeed-random", pickMaxp(), initial, items, true)
		if res.mattered {
			mattered++
		}
		if res.presetLate {
			preset++
		}
	}
	rec.Extra("docfeed_traces_where_the_expansion_delivered_something", mattered)
	rec.Extra("docfeed_traces_with_a_recent_sequence_delivered_late_by_preset_flag", preset)

	// ---- (h) adversarial events ----
	nAdv := vBudget(250, 4000)
	for i := 0; i < nAdv; i++ {
		env.doItems(rec, "docfeed-adversarial", "docfeed-adversarial", pickMaxp(), []uint64{0, 3, 6}[rnd.Intn(3)], c08GenAdversarialItems(rnd, abandon), false)
	}

	// ---- (i) the real caching feed delivers ----
	nSys := vBudget(5, 40)
	bad := 0
	for i := 0; i < nSys && bad < 2; i++ {
		if !c08DocSystemScenario(t, rec, rnd) {
			bad++
		}
	}
	rec.Extra("docfeed_system_scenarios_failed", bad)
}
