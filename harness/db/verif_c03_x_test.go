//go:build verif

package db

import (
	"encoding/json"
	"fmt"
	"sort"
	"strconv"
	"strings"
	"testing"

	"github.com/couchbase/sync_gateway/auth"
	"github.com/couchbase/sync_gateway/base"
	"github.com/couchbase/sync_gateway/channels"
)

// C03, extended streams (model coq/theories/C03/AccessX.v + Effective.v):
//   who   document writes made WITH A USER CONTEXT through PutExistingRevWithBody; the sync function branches on
//         requireAdmin / requireUser / requireRole / requireAccess; grants are checked after every write
//   time  the sequence at which every grant was made: user.CollectionChannels / RoleNames / ChannelHistory /
//         RoleHistory after a load, and the stored principal document (admin grants, all_channels, channel_inval_seq,
//         history) read raw, after every operation
//   ask   CanSeeCollectionChannel / AuthorizeAnyCollectionChannel / FilterToAvailableCollectionChannels /
//         InheritedCollectionChannels on the loaded user object, with "*", "!" and roles
// Every operation carries the sequence the implementation allocated for it (document sequence, principal sequence).

const c03xSyncFn = `function(doc, oldDoc) {
	if (doc.req) {
		if (doc.req.k == "admin") { requireAdmin(); }
		else if (doc.req.k == "user") { requireUser(doc.req.v); }
		else if (doc.req.k == "role") { requireRole(doc.req.v); }
		else if (doc.req.k == "access") { requireAccess(doc.req.v); }
	}
	if (doc.reject) { throw({forbidden: "c03 reject"}); }
	if (doc.chans) { channel(doc.chans); }
	if (doc.acc) { for (var i = 0; i < doc.acc.length; i++) { access(doc.acc[i].to, doc.acc[i].v); } }
	if (doc.rol) { for (var i = 0; i < doc.rol.length; i++) { role(doc.rol[i].to, doc.rol[i].v); } }
}`

const c03xStar = 99 // number of the "*" channel in the model (Effective.star)

func c03xChanName(i int) string {
	if i == c03xStar {
		return "*"
	}
	return c03ChanNames[i]
}

func c03xChanIdx(n string) (int, bool) {
	if n == "*" {
		return c03xStar, true
	}
	for i, c := range c03ChanNames {
		if c == n {
			return i, true
		}
	}
	return 0, false
}

type c03xReq struct {
	K string `json:"k"` // admin | user | role | access
	V []int  `json:"v,omitempty"`
}

type c03xOp struct {
	c03Op
	As   *int     `json:"as,omitempty"`  // put: index of the writing user (nil = admin)
	Req  *c03xReq `json:"req,omitempty"` // put: what the body makes the sync function require
	Univ []int    `json:"univ,omitempty"`
	Qs   [][]int  `json:"qs,omitempty"`
	Seq  uint64   `json:"seq,omitempty"` // filled when run: the sequence given to the model
}

type c03xPair struct {
	N int    `json:"n"`
	S uint64 `json:"s"`
}
type c03xHist struct {
	N int    `json:"n"`
	A uint64 `json:"a"`
	B uint64 `json:"b"`
}
type c03xGC struct {
	X    []c03xPair `json:"x"`
	C    []c03xPair `json:"c"`
	Inv  uint64     `json:"inv"`
	Hist []c03xHist `json:"hist"`
}
type c03xDocGrant struct {
	Role bool       `json:"to_role,omitempty"`
	To   int        `json:"to"`
	V    []c03xPair `json:"v"`
}
type c03xAns struct {
	Auth     bool       `json:"auth"`
	Filtered []c03xPair `json:"filtered"`
	Removed  []int      `json:"removed"`
}
type c03xOut struct {
	Kind    string         `json:"kind"` // status | user | role | peeku | peekr | ask
	Ok      bool           `json:"ok"`
	Exists  bool           `json:"exists"`
	Deleted bool           `json:"deleted,omitempty"`
	Inh     []c03xPair     `json:"inh,omitempty"`
	Ro      []c03xPair     `json:"ro,omitempty"`
	Ch      []c03xPair     `json:"ch,omitempty"`
	Hist    []c03xHist     `json:"hist,omitempty"`
	RHist   []c03xHist     `json:"rhist,omitempty"`
	GCh     *c03xGC        `json:"gch,omitempty"`
	GRo     *c03xGC        `json:"gro,omitempty"`
	DAcc    []c03xDocGrant `json:"dacc,omitempty"`
	DRol    []c03xDocGrant `json:"drol,omitempty"`
	CanSee  []bool         `json:"cansee,omitempty"`
	Ans     []c03xAns      `json:"ans,omitempty"`
	// the effective set recomputed from the parts of the user object (monitor only)
	eff map[int]bool
}

func c03xNewEnv(t *testing.T, defaultCollection bool) *c03Env {
	opts := DatabaseContextOptions{AllowConflicts: base.Ptr(true), BcryptCost: 4, ClientPartitionWindow: base.DefaultClientPartitionWindow}
	if defaultCollection {
		opts.Scopes = GetScopesOptionsDefaultCollectionOnly(t)
	}
	db, ctx := SetupTestDBWithOptions(t, opts)
	db.DatabaseContext.AllowEmptyPassword = true
	col, cctx := GetSingleDatabaseCollectionWithUser(ctx, t, db)
	col.ChannelMapper = channels.NewChannelMapper(cctx, c03xSyncFn, db.Options.JavascriptTimeout)
	e := &c03Env{t: t, db: db, ctx: cctx, col: col, scope: col.ScopeName, coll: col.Name}
	e.isDefault = base.IsDefaultCollection(e.scope, e.coll)
	return e
}

// ---------- conversions ----------
func (e *c03Env) xChanPairs(ts channels.TimedSet) ([]c03xPair, error) {
	res := make([]c03xPair, 0, len(ts))
	for n, s := range ts {
		i, ok := c03xChanIdx(n)
		if !ok {
			return nil, fmt.Errorf("unknown channel %q", n)
		}
		res = append(res, c03xPair{N: i, S: s.Sequence})
	}
	sort.Slice(res, func(a, b int) bool { return res[a].N < res[b].N })
	return res, nil
}

func (e *c03Env) xRoleIdx(n string) (int, bool) {
	pre := fmt.Sprintf("h%dr", e.histNo)
	if strings.HasPrefix(n, pre) {
		if i, err := strconv.Atoi(n[len(pre):]); err == nil {
			return i, true
		}
	}
	return 0, false
}

func (e *c03Env) xRolePairs(ts channels.TimedSet) ([]c03xPair, error) {
	res := make([]c03xPair, 0, len(ts))
	for n, s := range ts {
		i, ok := e.xRoleIdx(n)
		if !ok {
			return nil, fmt.Errorf("unknown role %q", n)
		}
		res = append(res, c03xPair{N: i, S: s.Sequence})
	}
	sort.Slice(res, func(a, b int) bool { return res[a].N < res[b].N })
	return res, nil
}

func (e *c03Env) xHist(h auth.TimedSetHistory, roles bool) ([]c03xHist, error) {
	var res []c03xHist
	names := make([]string, 0, len(h))
	for n := range h {
		names = append(names, n)
	}
	sort.Strings(names)
	for _, n := range names {
		var i int
		var ok bool
		if roles {
			i, ok = e.xRoleIdx(n)
		} else {
			i, ok = c03xChanIdx(n)
		}
		if !ok {
			return nil, fmt.Errorf("unknown name %q in history", n)
		}
		for _, en := range h[n].Entries {
			res = append(res, c03xHist{N: i, A: en.StartSeq, B: en.EndSeq})
		}
	}
	return res, nil
}

// the stored principal document, read raw (no rebuild)
func (e *c03Env) xPeek(docID string, user bool) (found, deleted bool, gch, gro *c03xGC, err error) {
	raw, _, gerr := e.db.DatabaseContext.MetadataStore.GetRaw(e.ctx, docID)
	if gerr != nil {
		if base.IsDocNotFoundError(gerr) {
			return false, false, nil, nil, nil
		}
		return false, false, nil, nil, gerr
	}
	var top map[string]json.RawMessage
	if err = json.Unmarshal(raw, &top); err != nil {
		return
	}
	found = true
	if d, ok := top["deleted"]; ok {
		_ = json.Unmarshal(d, &deleted)
	}
	src := top
	if !e.isDefault {
		src = map[string]json.RawMessage{}
		var ca map[string]map[string]map[string]json.RawMessage
		if c, ok := top["collection_access"]; ok {
			if err = json.Unmarshal(c, &ca); err != nil {
				return
			}
			if m := ca[e.scope][e.coll]; m != nil {
				src = m
			}
		}
	}
	parseTS := func(m map[string]json.RawMessage, key string) (channels.TimedSet, error) {
		ts := channels.TimedSet{}
		if v, ok := m[key]; ok && string(v) != "null" {
			if err := json.Unmarshal(v, &ts); err != nil {
				return nil, err
			}
		}
		return ts, nil
	}
	parseHist := func(m map[string]json.RawMessage, key string) (auth.TimedSetHistory, error) {
		h := auth.TimedSetHistory{}
		if v, ok := m[key]; ok && string(v) != "null" {
			if err := json.Unmarshal(v, &h); err != nil {
				return nil, err
			}
		}
		return h, nil
	}
	parseN := func(m map[string]json.RawMessage, key string) uint64 {
		var n uint64
		if v, ok := m[key]; ok {
			_ = json.Unmarshal(v, &n)
		}
		return n
	}
	gch = &c03xGC{}
	var ts channels.TimedSet
	var h auth.TimedSetHistory
	if ts, err = parseTS(src, "admin_channels"); err != nil {
		return
	}
	if gch.X, err = e.xChanPairs(ts); err != nil {
		return
	}
	if ts, err = parseTS(src, "all_channels"); err != nil {
		return
	}
	if gch.C, err = e.xChanPairs(ts); err != nil {
		return
	}
	gch.Inv = parseN(src, "channel_inval_seq")
	if h, err = parseHist(src, "channel_history"); err != nil {
		return
	}
	if gch.Hist, err = e.xHist(h, false); err != nil {
		return
	}
	if user {
		gro = &c03xGC{}
		if ts, err = parseTS(top, "explicit_roles"); err != nil {
			return
		}
		if gro.X, err = e.xRolePairs(ts); err != nil {
			return
		}
		if ts, err = parseTS(top, "rolesSince"); err != nil {
			return
		}
		if gro.C, err = e.xRolePairs(ts); err != nil {
			return
		}
		gro.Inv = parseN(top, "role_inval_seq")
		if h, err = parseHist(top, "role_history"); err != nil {
			return
		}
		if gro.Hist, err = e.xHist(h, true); err != nil {
			return
		}
	}
	return
}

func (e *c03Env) xChanSet(cs []int) base.Set {
	set := base.Set{}
	for _, c := range cs {
		set[c03xChanName(c)] = struct{}{}
	}
	return set
}

// run one operation on the real code; seq = the sequence the operation allocated (0 = none observed)
func (e *c03Env) xDo(op *c03xOp) (out c03xOut, seq uint64, err error) {
	a := e.db.Authenticator(e.ctx)
	switch op.Kind {
	case "put":
		body := Body{}
		switch op.Body {
		case "tomb":
			body[BodyDeleted] = true
		case "reject":
			body["reject"] = true
		}
		if op.Body != "tomb" {
			body["chans"] = []any{"A"}
			if len(op.Acc) > 0 {
				body["acc"] = e.grantsJSON(op.Acc, false)
			}
			if len(op.Rol) > 0 {
				body["rol"] = e.grantsJSON(op.Rol, true)
			}
			if op.Req != nil {
				vs := []any{}
				for _, v := range op.Req.V {
					switch op.Req.K {
					case "user":
						vs = append(vs, e.uname(v))
					case "role":
						vs = append(vs, e.rname(v))
					default:
						vs = append(vs, c03xChanName(v))
					}
				}
				body["req"] = map[string]any{"k": op.Req.K, "v": vs}
			}
		}
		if op.As != nil {
			u, gerr := a.GetUser(e.uname(*op.As))
			if gerr != nil {
				return c03xOut{Kind: "status"}, 0, gerr
			}
			if u == nil {
				return c03xOut{Kind: "status", Ok: false}, 0, nil
			}
			e.col.user = u
			defer func() { e.col.user = nil }()
		}
		hist := []string{op.Rev.String()}
		if op.Parent != nil {
			hist = append(hist, op.Parent.String())
		}
		doc, _, perr := e.col.PutExistingRevWithBody(e.ctx, e.dname(op.Doc), body, hist, false, ExistingVersionWithUpdateToHLV)
		if perr != nil {
			if st, _ := base.ErrorAsHTTPStatus(perr); st == 403 {
				return c03xOut{Kind: "status", Ok: false}, 0, nil
			}
			return c03xOut{Kind: "status", Ok: false}, 0, perr
		}
		if doc != nil {
			seq = doc.Sequence
		}
		return c03xOut{Kind: "status", Ok: true}, seq, nil
	case "setprinc":
		name := e.rname(op.Who)
		if op.User {
			name = e.uname(op.Who)
		}
		cfg := &auth.PrincipalConfig{Name: &name}
		if op.SetCh {
			set := e.xChanSet(op.Chans)
			if e.isDefault {
				cfg.ExplicitChannels = set
			} else {
				cfg.CollectionAccess = map[string]map[string]*auth.CollectionAccessConfig{e.scope: {e.coll: {ExplicitChannels_: set}}}
			}
		}
		if op.SetRo && op.User {
			set := base.Set{}
			for _, r := range op.Roles {
				set[e.rname(r)] = struct{}{}
			}
			cfg.ExplicitRoleNames = set
		}
		_, p, uerr := e.db.DatabaseContext.UpdatePrincipal(e.ctx, cfg, op.User, true)
		if uerr == nil && p != nil {
			seq = p.Sequence()
		}
		return c03xOut{Kind: "status", Ok: uerr == nil}, seq, uerr
	case "delrole":
		o, derr := e.do(nil, op.c03Op)
		if derr != nil {
			return c03xOut{Kind: "status", Ok: o.Ok}, 0, derr
		}
		if o.Ok && !op.Purge {
			r, gerr := a.GetRoleIncDeleted(e.rname(op.Who))
			if gerr != nil || r == nil {
				return c03xOut{Kind: "status", Ok: o.Ok}, 0, fmt.Errorf("deleted role not readable: %v", gerr)
			}
			seq = r.Sequence()
		}
		return c03xOut{Kind: "status", Ok: o.Ok}, seq, nil
	case "deluser":
		o, derr := e.do(nil, op.c03Op)
		return c03xOut{Kind: "status", Ok: o.Ok}, 0, derr
	case "loaduser", "ask":
		u, gerr := a.GetUser(e.uname(op.Who))
		if gerr != nil {
			return c03xOut{Kind: op.Kind}, 0, gerr
		}
		kind := "user"
		if op.Kind == "ask" {
			kind = "ask"
		}
		if u == nil {
			return c03xOut{Kind: kind, Exists: false}, 0, nil
		}
		out = c03xOut{Kind: kind, Exists: true}
		inh, ierr := u.InheritedCollectionChannels(e.scope, e.coll)
		if ierr != nil {
			return out, 0, ierr
		}
		if out.Inh, err = e.xChanPairs(inh); err != nil {
			return
		}
		if out.Ro, err = e.xRolePairs(u.RoleNames()); err != nil {
			return
		}
		own := u.CollectionChannels(e.scope, e.coll)
		if own == nil {
			return out, 0, fmt.Errorf("user channels nil (invalidated) after GetUser")
		}
		if out.Ch, err = e.xChanPairs(own); err != nil {
			return
		}
		if out.Hist, err = e.xHist(u.CollectionChannelHistory(e.scope, e.coll), false); err != nil {
			return
		}
		if out.RHist, err = e.xHist(u.RoleHistory(), true); err != nil {
			return
		}
		// the effective set from the parts of the object: own channels + channels of every role GetRoles returns
		out.eff = map[int]bool{}
		for _, p := range out.Ch {
			out.eff[p.N] = true
		}
		roles, rerr := u.GetRoles()
		if rerr != nil {
			return out, 0, rerr
		}
		for _, r := range roles {
			for n := range r.CollectionChannels(e.scope, e.coll) {
				if i, ok := c03xChanIdx(n); ok {
					out.eff[i] = true
				}
			}
		}
		if op.Kind == "ask" {
			for _, c := range op.Univ {
				cs, cerr := u.CanSeeCollectionChannel(e.scope, e.coll, c03xChanName(c))
				if cerr != nil {
					return out, 0, cerr
				}
				out.CanSee = append(out.CanSee, cs)
			}
			for _, q := range op.Qs {
				ans := c03xAns{Removed: []int{}}
				ans.Auth = u.AuthorizeAnyCollectionChannel(e.scope, e.coll, e.xChanSet(q)) == nil
				f, rem, ferr := u.FilterToAvailableCollectionChannels(e.scope, e.coll, e.xChanSet(q))
				if ferr != nil {
					return out, 0, ferr
				}
				if ans.Filtered, err = e.xChanPairs(f); err != nil {
					return
				}
				for _, n := range rem {
					if i, ok := c03xChanIdx(n); ok {
						ans.Removed = append(ans.Removed, i)
					}
				}
				sort.Ints(ans.Removed)
				out.Ans = append(out.Ans, ans)
			}
		}
		return out, 0, nil
	case "loadrole":
		r, gerr := a.GetRole(e.rname(op.Who))
		if gerr != nil {
			return c03xOut{Kind: "role"}, 0, gerr
		}
		if r == nil {
			return c03xOut{Kind: "role", Exists: false}, 0, nil
		}
		out = c03xOut{Kind: "role", Exists: true}
		ts := r.CollectionChannels(e.scope, e.coll)
		if ts == nil {
			return out, 0, fmt.Errorf("role channels nil (invalidated) after GetRole")
		}
		if out.Ch, err = e.xChanPairs(ts); err != nil {
			return
		}
		out.Hist, err = e.xHist(r.CollectionChannelHistory(e.scope, e.coll), false)
		return out, 0, err
	case "peekdoc":
		out = c03xOut{Kind: "doc", Exists: true}
		doc, gerr := e.col.GetDocument(e.ctx, e.dname(op.Doc), DocUnmarshalSync)
		if gerr != nil {
			if base.IsDocNotFoundError(gerr) {
				return out, 0, nil
			}
			return out, 0, gerr
		}
		upre := fmt.Sprintf("h%du", e.histNo)
		for k, ts := range doc.Access {
			g := c03xDocGrant{}
			if name, isRole := channels.AccessNameToPrincipalName(k); isRole {
				i, ok := e.xRoleIdx(name)
				if !ok {
					return out, 0, fmt.Errorf("unknown access key %q", k)
				}
				g.Role, g.To = true, i
			} else {
				i, cerr := strconv.Atoi(strings.TrimPrefix(k, upre))
				if cerr != nil || !strings.HasPrefix(k, upre) {
					return out, 0, fmt.Errorf("unknown access key %q", k)
				}
				g.To = i
			}
			if g.V, err = e.xChanPairs(ts); err != nil {
				return
			}
			out.DAcc = append(out.DAcc, g)
		}
		for k, ts := range doc.RoleAccess {
			i, cerr := strconv.Atoi(strings.TrimPrefix(k, upre))
			if cerr != nil || !strings.HasPrefix(k, upre) {
				return out, 0, fmt.Errorf("unknown role access key %q", k)
			}
			g := c03xDocGrant{To: i}
			if g.V, err = e.xRolePairs(ts); err != nil {
				return
			}
			out.DRol = append(out.DRol, g)
		}
		less := func(gs []c03xDocGrant) func(a, b int) bool {
			return func(a, b int) bool {
				if gs[a].Role != gs[b].Role {
					return !gs[a].Role
				}
				return gs[a].To < gs[b].To
			}
		}
		sort.Slice(out.DAcc, less(out.DAcc))
		sort.Slice(out.DRol, less(out.DRol))
		return out, 0, nil
	case "peekuser":
		found, _, gch, gro, perr := e.xPeek(a.DocIDForUser(e.uname(op.Who)), true)
		return c03xOut{Kind: "peeku", Exists: found, GCh: gch, GRo: gro}, 0, perr
	case "peekrole":
		found, del, gch, _, perr := e.xPeek(a.DocIDForRole(e.rname(op.Who)), false)
		return c03xOut{Kind: "peekr", Exists: found, Deleted: del, GCh: gch}, 0, perr
	}
	return c03xOut{}, 0, fmt.Errorf("unknown op kind %q", op.Kind)
}

// ---------- Coq emission ----------
func c03xPairsCoq(ps []c03xPair) string {
	parts := make([]string, len(ps))
	for i, p := range ps {
		parts[i] = "(" + cqI(p.N) + "," + cqN(p.S) + ")"
	}
	return "[" + strings.Join(parts, ";") + "]"
}

func c03xHistCoq(hs []c03xHist) string {
	parts := make([]string, len(hs))
	for i, h := range hs {
		parts[i] = "(" + cqI(h.N) + ",(" + cqN(h.A) + "," + cqN(h.B) + "))"
	}
	return "[" + strings.Join(parts, ";") + "]"
}

func c03xGCCoq(g *c03xGC) string {
	return "(mkG " + c03xPairsCoq(g.X) + " " + c03xPairsCoq(g.C) + " " + cqN(g.Inv) + " " + c03xHistCoq(g.Hist) + ")"
}

func c03xOpCoq(op c03xOp) string {
	optList := func(set bool, v []int) string {
		if !set {
			return "None"
		}
		return "(Some " + c03IntList(v) + ")"
	}
	switch op.Kind {
	case "put":
		par := "None"
		if op.Parent != nil {
			par = "(Some " + op.Parent.coq() + ")"
		}
		prefix := "Put " + cqI(op.Doc) + " " + par + " " + op.Rev.coq() + " "
		body := strings.TrimPrefix(c03OpCoq(op.c03Op), prefix) // BLive .. | BTomb | BReject
		who := "None"
		if op.As != nil {
			who = "(Some " + cqI(*op.As) + ")"
		}
		q := "RNone"
		if op.Req != nil && op.Body != "tomb" {
			switch op.Req.K {
			case "admin":
				q = "RAdmin"
			case "user":
				q = "(RUser " + c03IntList(op.Req.V) + ")"
			case "role":
				q = "(RRole " + c03IntList(op.Req.V) + ")"
			case "access":
				q = "(RAccess " + c03IntList(op.Req.V) + ")"
			}
		}
		return "XPut " + who + " " + cqI(op.Doc) + " " + par + " " + op.Rev.coq() + " " + q + " " + body + " " + cqN(op.Seq)
	case "setprinc":
		if op.User {
			return "XSetUser " + cqI(op.Who) + " " + optList(op.SetCh, op.Chans) + " " + optList(op.SetRo, op.Roles) + " " + cqN(op.Seq)
		}
		return "XSetRole " + cqI(op.Who) + " " + optList(op.SetCh, op.Chans) + " " + cqN(op.Seq)
	case "delrole":
		return "XDelRole " + cqI(op.Who) + " " + cqBool(op.Purge) + " " + cqN(op.Seq)
	case "deluser":
		return "XDelUser " + cqI(op.Who)
	case "loaduser":
		return "XLoadUser " + cqI(op.Who)
	case "loadrole":
		return "XLoadRole " + cqI(op.Who)
	case "peekuser":
		return "XPeekUser " + cqI(op.Who)
	case "peekrole":
		return "XPeekRole " + cqI(op.Who)
	case "peekdoc":
		return "XPeekDoc " + cqI(op.Doc)
	case "ask":
		qs := make([]string, len(op.Qs))
		for i, q := range op.Qs {
			qs[i] = c03IntList(q)
		}
		return "XAsk " + cqI(op.Who) + " " + c03IntList(op.Univ) + " " + cqList(qs)
	}
	return "XLoadUser 0"
}

func c03xOutCoq(o c03xOut) string {
	switch o.Kind {
	case "status":
		return "XStatus " + cqBool(o.Ok)
	case "user":
		if !o.Exists {
			return "XUser None"
		}
		return "XUser (Some (" + c03xPairsCoq(o.Inh) + "," + c03xPairsCoq(o.Ro) + "," + c03xPairsCoq(o.Ch) + "," + c03xHistCoq(o.Hist) + "," + c03xHistCoq(o.RHist) + "))"
	case "role":
		if !o.Exists {
			return "XRole None"
		}
		return "XRole (Some (" + c03xPairsCoq(o.Ch) + "," + c03xHistCoq(o.Hist) + "))"
	case "peeku":
		if !o.Exists {
			return "XPeekU None"
		}
		return "XPeekU (Some (" + c03xGCCoq(o.GCh) + "," + c03xGCCoq(o.GRo) + "))"
	case "peekr":
		if !o.Exists {
			return "XPeekR None"
		}
		return "XPeekR (Some (" + cqBool(o.Deleted) + "," + c03xGCCoq(o.GCh) + "))"
	case "doc":
		conv := func(gs []c03xDocGrant, withKind bool) string {
			parts := make([]string, len(gs))
			for i, g := range gs {
				k := cqI(g.To)
				if withKind {
					k = "PU " + k
					if g.Role {
						k = "PR " + cqI(g.To)
					}
				}
				parts[i] = "(" + k + "," + c03xPairsCoq(g.V) + ")"
			}
			return cqList(parts)
		}
		return "XDoc " + conv(o.DAcc, true) + " " + conv(o.DRol, false)
	case "ask":
		if !o.Exists {
			return "XQuery None"
		}
		cs := make([]string, len(o.CanSee))
		for i, b := range o.CanSee {
			cs[i] = cqBool(b)
		}
		as := make([]string, len(o.Ans))
		for i, a := range o.Ans {
			as[i] = "(" + cqBool(a.Auth) + ",(" + c03xPairsCoq(a.Filtered) + "," + c03IntList(a.Removed) + "))"
		}
		return "XQuery (Some (" + cqList(cs) + "," + cqList(as) + "))"
	}
	return "XStatus false"
}

// ---------- the specification side: ground truth with grant sequences ----------
type c03xTruth struct {
	*c03Truth
	leafReq map[int]map[c03Rev]*c03xReq
	dacc    map[int]map[string]map[int]uint64 // document -> access key -> channel -> sequence (stored access map)
	drol    map[int]map[int]map[int]uint64    // document -> user -> role -> sequence
	xch     map[string]map[int]uint64         // principal key -> admin channel -> sequence
	xro     map[int]map[int]uint64            // user -> admin role -> sequence
	last    uint64
}

func c03xNewTruth() *c03xTruth {
	return &c03xTruth{c03Truth: c03NewTruth(), leafReq: map[int]map[c03Rev]*c03xReq{}, dacc: map[int]map[string]map[int]uint64{},
		drol: map[int]map[int]map[int]uint64{}, xch: map[string]map[int]uint64{}, xro: map[int]map[int]uint64{}}
}

func c03xKey(role bool, who int) string {
	if role {
		return "r" + strconv.Itoa(who)
	}
	return "u" + strconv.Itoa(who)
}

func c03xReqOK(q *c03xReq, u int, chs, ros map[int]bool) bool {
	if q == nil {
		return true
	}
	switch q.K {
	case "admin":
		return false
	case "user":
		for _, v := range q.V {
			if v == u {
				return true
			}
		}
		return false
	case "role":
		for _, v := range q.V {
			if ros[v] {
				return true
			}
		}
		return false
	case "access":
		for _, v := range q.V {
			if chs[v] {
				return true
			}
		}
		return false
	}
	return true
}

// should the sync function(s) accept the write made by user `as` (nil = admin)?
func (tr *c03xTruth) accepts(op *c03xOp) bool {
	if op.Body == "reject" {
		return false
	}
	if op.As == nil {
		return true
	}
	chs, ros := tr.specUser(*op.As)
	if chs == nil {
		return false
	}
	if op.Body == "live" && !c03xReqOK(op.Req, *op.As, chs, ros) {
		return false
	}
	// a promoted older leaf is re-evaluated with the context of the writer
	before := c03Winner(tr.docs[op.Doc])
	shadow := &c03Truth{docs: map[int][]c03Leaf{op.Doc: append([]c03Leaf{}, tr.docs[op.Doc]...)}, users: tr.users, roles: tr.roles}
	shadow.apply(op.c03Op)
	after := c03Winner(shadow.docs[op.Doc])
	if after != nil && (before == nil || before.rev != after.rev) && after.rev != *op.Rev && !after.tomb {
		if !c03xReqOK(tr.leafReq[op.Doc][after.rev], *op.As, chs, ros) {
			return false
		}
	}
	return true
}

func c03xRestamp(old map[int]uint64, now []int, seq uint64) map[int]uint64 {
	res := map[int]uint64{}
	for _, c := range now {
		if s, ok := old[c]; ok {
			res[c] = s
		} else if _, dup := res[c]; !dup {
			res[c] = seq
		}
	}
	return res
}

// apply an ACCEPTED operation to the ground truth (seq = the sequence it used)
func (tr *c03xTruth) xapply(op *c03xOp, seq uint64) {
	switch op.Kind {
	case "put":
		for _, l := range tr.docs[op.Doc] {
			if l.rev == *op.Rev {
				return
			}
		}
		before := c03Winner(tr.docs[op.Doc])
		var brev *c03Rev
		if before != nil {
			r := before.rev
			brev = &r
		}
		tr.apply(op.c03Op)
		if tr.leafReq[op.Doc] == nil {
			tr.leafReq[op.Doc] = map[c03Rev]*c03xReq{}
		}
		if op.Body == "live" {
			tr.leafReq[op.Doc][*op.Rev] = op.Req
		}
		after := c03Winner(tr.docs[op.Doc])
		if after == nil || (brev != nil && *brev == after.rev) {
			return
		}
		var acc, rol []c03Grant
		if !after.tomb {
			acc, rol = after.acc, after.rol
		}
		nacc := map[string][]int{}
		for _, g := range acc {
			k := c03xKey(g.Role, g.To)
			nacc[k] = append(nacc[k], g.V...)
		}
		oldA := tr.dacc[op.Doc]
		newA := map[string]map[int]uint64{}
		for k, cs := range nacc {
			if m := c03xRestamp(oldA[k], cs, seq); len(m) > 0 {
				newA[k] = m
			}
		}
		tr.dacc[op.Doc] = newA
		nrol := map[int][]int{}
		for _, g := range rol {
			nrol[g.To] = append(nrol[g.To], g.V...)
		}
		oldR := tr.drol[op.Doc]
		newR := map[int]map[int]uint64{}
		for u, rs := range nrol {
			if m := c03xRestamp(oldR[u], rs, seq); len(m) > 0 {
				newR[u] = m
			}
		}
		tr.drol[op.Doc] = newR
	case "setprinc":
		m := tr.roles
		if op.User {
			m = tr.users
		}
		p := m[op.Who]
		k := c03xKey(!op.User, op.Who)
		if p == nil || !p.exists || p.deleted {
			delete(tr.xch, k)
			if op.User {
				delete(tr.xro, op.Who)
			}
		}
		tr.apply(op.c03Op)
		if op.SetCh {
			tr.xch[k] = c03xRestamp(tr.xch[k], op.Chans, seq)
		}
		if op.SetRo && op.User {
			tr.xro[op.Who] = c03xRestamp(tr.xro[op.Who], op.Roles, seq)
		}
	default:
		tr.apply(op.c03Op)
	}
}

func c03xMin(a, b uint64) uint64 {
	if a == 0 {
		return b
	}
	if b == 0 || a < b {
		return a
	}
	return b
}

// the sequence of the earliest currently-live grant source of channel c for a principal (0 = none)
func (tr *c03xTruth) ownSince(role bool, who, c int) uint64 {
	k := c03xKey(role, who)
	s := tr.xch[k][c]
	for _, m := range tr.dacc {
		s = c03xMin(s, m[k][c])
	}
	if c == 0 {
		s = c03xMin(s, 1)
	}
	return s
}

func (tr *c03xTruth) roleSince(u, r int) uint64 {
	s := tr.xro[u][r]
	for _, m := range tr.drol {
		s = c03xMin(s, m[u][r])
	}
	return s
}

// ---------- running a history ----------
func c03xPairMap(ps []c03xPair) map[int]uint64 {
	m := map[int]uint64{}
	for _, p := range ps {
		m[p.N] = p.S
	}
	return m
}

func c03xRun(e *c03Env, rec *vRecorder, ops []c03xOp) ([]c03xOut, *c03Failure) {
	e.histNo++
	tr := c03xNewTruth()
	outs := make([]c03xOut, 0, len(ops))
	var fail *c03Failure
	afterRejected := false
	setFail := func(i int, mon, sig, detail string) {
		if fail == nil {
			if afterRejected && (strings.HasSuffix(sig, "-extra") || strings.HasSuffix(sig, "-missing")) {
				mon, sig = "rejected_write_grants_nothing", "rejected-write-changed-grants"
			}
			fail = &c03Failure{monitor: mon, sig: sig, detail: detail, at: i}
		}
	}
	prevU := map[int]map[int]uint64{} // own channels (with since) at the previous load of the user
	prevR := map[int]map[int]uint64{}
	// what happened since that load to every channel it showed: 0 still granted, 1 revoked, 2 revoked and granted again
	stU := map[int]map[int]int{}
	stR := map[int]map[int]int{}
	track := func() {
		upd := func(role bool, prev map[int]map[int]uint64, st map[int]map[int]int) {
			for who, m := range prev {
				if st[who] == nil {
					st[who] = map[int]int{}
				}
				for c := range m {
					live := tr.ownSince(role, who, c) != 0
					switch {
					case st[who][c] == 0 && !live:
						st[who][c] = 1
					case st[who][c] == 1 && live:
						st[who][c] = 2
					}
				}
			}
		}
		upd(false, prevU, stU)
		upd(true, prevR, stR)
	}
	chanNums := []int{0, 1, 2, 3, 4, c03xStar}
	for i := range ops {
		op := &ops[i]
		out, seq, err := e.xDo(op)
		if err != nil {
			setFail(i, "operation_succeeds", "op-error:"+op.Kind, fmt.Sprintf("op %d (%s): %v", i, op.Kind, err))
		}
		if seq > tr.last {
			op.Seq = seq
			tr.last = seq
		} else {
			op.Seq = tr.last + 1
			seq = 0
		}
		outs = append(outs, out)
		switch op.Kind {
		case "put":
			want := tr.accepts(op)
			if out.Ok != want && err == nil {
				sig := "put-status"
				if op.As != nil {
					sig = "user-put-accepted-despite-requirement"
					if !out.Ok {
						sig = "user-put-rejected-despite-requirement-met"
					}
				}
				setFail(i, "put_status", sig, fmt.Sprintf("op %d: put as %v accepted=%v, expected %v", i, op.As, out.Ok, want))
			}
			if want {
				if seq == 0 && err == nil && out.Ok {
					dup := false
					for _, l := range tr.docs[op.Doc] {
						dup = dup || l.rev == *op.Rev
					}
					if !dup {
						setFail(i, "sequences", "put-without-new-sequence", fmt.Sprintf("op %d: accepted put did not get a new sequence", i))
					}
				}
				tr.xapply(op, op.Seq)
				track()
				afterRejected = false
			} else if op.As != nil {
				afterRejected = true
			}
		case "setprinc", "delrole", "deluser":
			if op.Kind == "deluser" {
				delete(prevU, op.Who)
				delete(stU, op.Who)
			}
			if op.Kind == "delrole" {
				delete(prevR, op.Who)
				delete(stR, op.Who)
			}
			if op.Kind == "setprinc" {
				m := tr.roles
				if op.User {
					m = tr.users
				}
				if p := m[op.Who]; p == nil || !p.exists || p.deleted {
					if op.User {
						delete(prevU, op.Who)
						delete(stU, op.Who)
					} else {
						delete(prevR, op.Who)
						delete(stR, op.Who)
					}
				}
			}
			tr.xapply(op, op.Seq)
			track()
			afterRejected = false
		case "loaduser", "ask":
			chs, ros := tr.specUser(op.Who)
			if (chs != nil) != out.Exists {
				setFail(i, "access_spec", "user-existence", fmt.Sprintf("op %d: user exists=%v, spec %v", i, out.Exists, chs != nil))
				break
			}
			if chs == nil {
				break
			}
			inh, own, rol := c03xPairMap(out.Inh), c03xPairMap(out.Ch), c03xPairMap(out.Ro)
			inhKeys := []int{}
			for c := range inh {
				inhKeys = append(inhKeys, c)
			}
			if extra, missing := c03SameSet(inhKeys, chs); len(extra)+len(missing) > 0 {
				sig := "user-channels-missing"
				if len(extra) > 0 {
					sig = "user-channels-extra"
				}
				setFail(i, "access_spec", sig, fmt.Sprintf("op %d: user %d channels %v, spec %v", i, op.Who, inhKeys, c03Keys(chs)))
			}
			roKeys := []int{}
			for r := range rol {
				roKeys = append(roKeys, r)
			}
			if extra, missing := c03SameSet(roKeys, ros); len(extra)+len(missing) > 0 {
				sig := "user-roles-missing"
				if len(extra) > 0 {
					sig = "user-roles-extra"
				}
				setFail(i, "access_spec", sig, fmt.Sprintf("op %d: user %d roles %v, spec %v", i, op.Who, roKeys, c03Keys(ros)))
			}
			// granted_since_is_first_grant_seq: own channels, roles, inherited channels
			for c, s := range own {
				if want := tr.ownSince(false, op.Who, c); s != want {
					setFail(i, "granted_since", "since-not-first-grant-seq", fmt.Sprintf("op %d: user %d channel %d since %d, earliest live grant source %d", i, op.Who, c, s, want))
				}
			}
			for r, s := range rol {
				if want := tr.roleSince(op.Who, r); s != want {
					setFail(i, "granted_since", "role-since-not-first-grant-seq", fmt.Sprintf("op %d: user %d role %d since %d, earliest live grant source %d", i, op.Who, r, s, want))
				}
			}
			for c, s := range inh {
				want := tr.ownSince(false, op.Who, c)
				for r := range ros {
					if rp := tr.roles[r]; rp != nil && rp.exists && !rp.deleted {
						if rs := tr.ownSince(true, r, c); rs != 0 {
							if us := tr.roleSince(op.Who, r); us > rs {
								rs = us
							}
							want = c03xMin(want, rs)
						}
					}
				}
				if s != want {
					setFail(i, "granted_since", "inherited-since", fmt.Sprintf("op %d: user %d inherited channel %d since %d, expected %d", i, op.Who, c, s, want))
				}
			}
			// a channel that was there at the previous load, was revoked and not granted again: the history records
			// a closed interval that starts at (or after) the since value seen; granted again: since has moved forward
			if prev := prevU[op.Who]; prev != nil {
				c03xHistoryMonitor(i, "user", op.Who, prev, stU[op.Who], own, out.Hist, tr.last, setFail)
			}
			delete(stU, op.Who)
			prevU[op.Who] = own
			if op.Kind == "ask" {
				c03xAskMonitor(e, i, op, out, inh, setFail)
			}
		case "loadrole":
			chs := tr.specRole(op.Who)
			if (chs != nil) != out.Exists {
				setFail(i, "role_spec", "role-existence", fmt.Sprintf("op %d: role exists=%v, spec %v", i, out.Exists, chs != nil))
				break
			}
			if chs == nil {
				break
			}
			own := c03xPairMap(out.Ch)
			keys := []int{}
			for c := range own {
				keys = append(keys, c)
			}
			if extra, missing := c03SameSet(keys, chs); len(extra)+len(missing) > 0 {
				sig := "role-channels-missing"
				if len(extra) > 0 {
					sig = "role-channels-extra"
				}
				setFail(i, "role_spec", sig, fmt.Sprintf("op %d: role %d channels %v, spec %v", i, op.Who, keys, c03Keys(chs)))
			}
			for c, s := range own {
				if want := tr.ownSince(true, op.Who, c); s != want {
					setFail(i, "granted_since", "since-not-first-grant-seq", fmt.Sprintf("op %d: role %d channel %d since %d, earliest live grant source %d", i, op.Who, c, s, want))
				}
			}
			if prev := prevR[op.Who]; prev != nil {
				c03xHistoryMonitor(i, "role", op.Who, prev, stR[op.Who], own, out.Hist, tr.last, setFail)
			}
			delete(stR, op.Who)
			prevR[op.Who] = own
		case "peekdoc":
			// the stored access maps: exactly the verdict on the winning revision, every grant at the sequence of the
			// write that made the document start granting it
			got := map[string]uint64{}
			for _, g := range out.DAcc {
				for _, p := range g.V {
					got[fmt.Sprintf("%s c%d", c03xKey(g.Role, g.To), p.N)] = p.S
				}
			}
			for _, g := range out.DRol {
				for _, p := range g.V {
					got[fmt.Sprintf("u%d r%d", g.To, p.N)] = p.S
				}
			}
			want := map[string]uint64{}
			for k, m := range tr.dacc[op.Doc] {
				for c, s := range m {
					want[fmt.Sprintf("%s c%d", k, c)] = s
				}
			}
			for u, m := range tr.drol[op.Doc] {
				for r, s := range m {
					want[fmt.Sprintf("u%d r%d", u, r)] = s
				}
			}
			if fmt.Sprint(got) != fmt.Sprint(want) {
				setFail(i, "granted_since", "doc-grant-seq", fmt.Sprintf("op %d: document %d stored grants %v, expected %v", i, op.Doc, got, want))
			}
		case "peekuser", "peekrole":
			// the stored document: an invalidation sequence is one of the sequences used so far, admin grants carry the
			// sequence of the edit that added them
			if out.Exists && out.GCh != nil {
				if out.GCh.Inv > tr.last {
					setFail(i, "granted_since", "inval-seq-in-the-future", fmt.Sprintf("op %d: channel_inval_seq %d > last sequence %d", i, out.GCh.Inv, tr.last))
				}
				role := op.Kind == "peekrole"
				if !(role && out.Deleted) {
					for _, p := range out.GCh.X {
						if want := tr.xch[c03xKey(role, op.Who)][p.N]; want != p.S {
							setFail(i, "granted_since", "admin-grant-seq", fmt.Sprintf("op %d: admin channel %d at %d, expected %d", i, p.N, p.S, want))
						}
					}
				}
			}
		}
		_ = chanNums
	}
	return outs, fail
}

func c03xHistoryMonitor(i int, what string, who int, prev map[int]uint64, st map[int]int, own map[int]uint64, hist []c03xHist, last uint64, setFail func(int, string, string, string)) {
	for c, s0 := range prev {
		s1, still := own[c]
		switch {
		case st[c] == 1 && !still:
			n, found := 0, false
			for _, h := range hist {
				if h.N == c {
					n++
					if h.A >= s0 && h.A < h.B && h.B <= last {
						found = true
					}
				}
			}
			if !found && n < 10 {
				setFail(i, "granted_since", "history-interval", fmt.Sprintf("op %d: %s %d lost channel %d (since %d): no history entry [a, e] with %d <= a < e <= %d in %v", i, what, who, c, s0, s0, last, hist))
			}
		case st[c] == 2 && still && s1 <= s0:
			setFail(i, "granted_since", "since-not-moved-forward", fmt.Sprintf("op %d: %s %d channel %d was revoked and granted again: since %d, before the revocation %d", i, what, who, c, s1, s0))
		case still && s1 < s0:
			// the earliest live source can only go away: a since value never moves backwards
			setFail(i, "granted_since", "since-moved-backwards", fmt.Sprintf("op %d: %s %d channel %d since %d, was %d", i, what, who, c, s1, s0))
		}
	}
}

// effective-set laws on the user object (monitor; the same laws are theorems about Effective.v)
func c03xAskMonitor(e *c03Env, i int, op *c03xOp, out c03xOut, inh map[int]uint64, setFail func(int, string, string, string)) {
	eff := out.eff
	canSee := func(c int) bool { return eff[c] || eff[c03xStar] }
	for j, c := range op.Univ {
		if out.CanSee[j] != canSee(c) {
			setFail(i, "effective_set", "can-see-not-effective", fmt.Sprintf("op %d: CanSeeCollectionChannel(%s)=%v, effective set %v", i, c03xChanName(c), out.CanSee[j], c03Keys(eff)))
		}
	}
	inhKeys := map[int]bool{}
	for c := range inh {
		inhKeys[c] = true
	}
	effKeys := []int{}
	for c := range eff {
		effKeys = append(effKeys, c)
	}
	if extra, missing := c03SameSet(effKeys, inhKeys); len(extra)+len(missing) > 0 {
		setFail(i, "effective_set", "inherited-not-effective", fmt.Sprintf("op %d: InheritedCollectionChannels %v, effective set %v", i, c03Keys(inhKeys), c03Keys(eff)))
	}
	for j, q := range op.Qs {
		ans := out.Ans[j]
		hasStar := false
		for _, c := range q {
			hasStar = hasStar || c == c03xStar
		}
		f := c03xPairMap(ans.Filtered)
		if hasStar {
			// wildcard_expands_to_effective
			fk := []int{}
			for c := range f {
				fk = append(fk, c)
			}
			if extra, missing := c03SameSet(fk, eff); len(extra)+len(missing) > 0 || len(ans.Removed) > 0 {
				setFail(i, "effective_set", "wildcard-not-effective", fmt.Sprintf("op %d: filter %v -> %v removed %v, effective set %v", i, q, ans.Filtered, ans.Removed, c03Keys(eff)))
			}
			for c, s := range f {
				if inh[c] != s {
					setFail(i, "effective_set", "wildcard-since", fmt.Sprintf("op %d: filter %v: channel %d since %d, inherited %d", i, q, c, s, inh[c]))
				}
			}
		} else {
			// filter_is_intersection
			want := map[int]bool{}
			wantRemoved := map[int]bool{}
			for _, c := range q {
				if canSee(c) {
					want[c] = true
				} else {
					wantRemoved[c] = true
				}
			}
			fk := []int{}
			for c := range f {
				fk = append(fk, c)
			}
			e1, m1 := c03SameSet(fk, want)
			e2, m2 := c03SameSet(ans.Removed, wantRemoved)
			if len(e1)+len(m1)+len(e2)+len(m2) > 0 {
				setFail(i, "effective_set", "filter-not-intersection", fmt.Sprintf("op %d: filter %v -> %v removed %v, effective set %v", i, q, ans.Filtered, ans.Removed, c03Keys(eff)))
			}
		}
		// AuthorizeAny agrees with the effective set
		want := false
		if len(q) == 0 {
			want = eff[c03xStar]
		}
		for _, c := range q {
			want = want || canSee(c)
		}
		if ans.Auth != want {
			sig := "authorize-any-not-effective"
			if len(q) == 0 {
				sig = "authorize-any-empty-set-ignores-role-star" // the defect repaired by a58a51d
			}
			setFail(i, "effective_set", sig, fmt.Sprintf("op %d: AuthorizeAnyCollectionChannel(%v)=%v, effective set %v (default collection=%v)", i, q, ans.Auth, c03Keys(eff), e.isDefault))
		}
	}
}

func c03xCase(def bool, ops []c03xOp, outs []c03xOut) string {
	os_ := make([]string, len(ops))
	for i, op := range ops {
		os_[i] = c03xOpCoq(op)
	}
	us := make([]string, len(outs))
	for i, o := range outs {
		us[i] = c03xOutCoq(o)
	}
	return "XCase " + cqBool(def) + " " + cqList(os_) + " " + cqList(us)
}

// non-trivial (extended streams): the history shows at least one of
//   - a user-context write accepted AND a user-context write rejected by a requirement of the sync function,
//   - a load whose channel or role history records a revocation interval,
//   - an access query on a user who holds a channel only through a role, or holds "*".
func c03xNontrivial(ops []c03xOp, outs []c03xOut) bool {
	acc, rej := false, false
	for i, op := range ops {
		o := outs[i]
		switch op.Kind {
		case "put":
			if op.As != nil && op.Body != "reject" {
				if o.Ok {
					acc = true
				} else if op.Req != nil {
					rej = true
				}
			}
		case "loaduser", "loadrole":
			if o.Exists && (len(o.Hist) > 0 || len(o.RHist) > 0) {
				return true
			}
		case "ask":
			if o.Exists {
				own := c03xPairMap(o.Ch)
				for c := range o.eff {
					if _, ok := own[c]; !ok || c == c03xStar {
						return true
					}
				}
			}
		}
	}
	return acc && rej
}

func c03xShrink(e *c03Env, rec *vRecorder, ops []c03xOp, f *c03Failure) ([]c03xOp, *c03Failure) {
	cur := append([]c03xOp{}, ops[:f.at+1]...)
	curF := f
	budget := 80
	for changed := true; changed && budget > 0; {
		changed = false
		for i := len(cur) - 2; i >= 0 && budget > 0; i-- {
			cand := append(append([]c03xOp{}, cur[:i]...), cur[i+1:]...)
			budget--
			_, f2 := c03xRun(e, rec, cand)
			if f2 != nil && f2.sig == curF.sig {
				cur = cand[:f2.at+1]
				curF = f2
				changed = true
				if i > len(cur)-1 {
					i = len(cur) - 1
				}
			}
		}
	}
	return cur, curF
}

func c03xHistory(e *c03Env, rec *vRecorder, stream, kind string, ops []c03xOp) {
	ops = append([]c03xOp{}, ops...)
	outs, f := c03xRun(e, rec, ops)
	nt := c03xNontrivial(ops, outs)
	desc := map[string]any{"ops": ops, "outs": outs, "default_collection": e.isDefault}
	rec.Case(stream, kind, c03xCase(e.isDefault, ops, outs), desc, nt)
	rec.Size(fmt.Sprintf("xlen%02d", (len(ops)/10)*10))
	for i, op := range ops {
		k := op.Kind
		if k == "put" && op.As != nil {
			k = "put_as_user"
			if !outs[i].Ok {
				rec.Err("user_put_rejected")
				if op.Req != nil {
					rec.hist["user_put_rejected_req_"+op.Req.K]++
				}
			}
		}
		rec.hist["xop_"+k]++
		if op.Kind == "ask" && outs[i].Exists {
			// observation (C03_Refuted.v, C03_filter_since_is_not_inherited_since): the since value reported by
			// FilterToAvailableCollectionChannels is older than the one of InheritedCollectionChannels
			inh := c03xPairMap(outs[i].Inh)
			for j, q := range op.Qs {
				star := false
				for _, c := range q {
					star = star || c == c03xStar
				}
				if star {
					continue
				}
				for _, f := range outs[i].Ans[j].Filtered {
					if s, ok := inh[f.N]; ok && f.S < s {
						rec.hist["ask_filter_since_older_than_inherited_since"]++
					}
				}
			}
		}
		if (op.Kind == "loaduser" || op.Kind == "loadrole") && len(outs[i].Hist) > 0 {
			rec.hist["load_with_channel_history"]++
		}
		if op.Kind == "loaduser" && len(outs[i].RHist) > 0 {
			rec.hist["load_with_role_history"]++
		}
	}
	if f != nil {
		input := map[string]any{"ops": ops[:f.at+1], "default_collection": e.isDefault}
		detail := f.detail
		if !c03Shrunk["x:"+f.sig] {
			c03Shrunk["x:"+f.sig] = true
			sops, sf := c03xShrink(e, rec, ops, f)
			input = map[string]any{"ops": sops, "default_collection": e.isDefault, "shrunk_from_ops": len(ops)}
			detail = sf.detail
		}
		rec.Fail(f.monitor, f.sig, input, detail)
	}
}

// ---------- generators ----------
type c03xGen struct {
	c03Gen
	xtr  *c03xTruth
	mode string // who | time | ask
	seq  uint64
}

func c03xAllChans() []int { return []int{0, 1, 2, 3, 4, c03xStar} }

func (g *c03xGen) req() *c03xReq {
	k := g.rnd.Intn(100)
	switch {
	case k < 10:
		return &c03xReq{K: "admin"}
	case k < 35:
		return &c03xReq{K: "user", V: g.subset(g.nU, 45)}
	case k < 65:
		return &c03xReq{K: "role", V: g.subset(g.nR, 55)}
	}
	v := g.chanSubset(35)
	if g.rnd.Chance(15) {
		v = append(v, 0)
	}
	return &c03xReq{K: "access", V: v}
}

func (g *c03xGen) xput() c03xOp {
	op := c03xOp{c03Op: g.put()}
	asPct := map[string]int{"who": 60, "time": 0, "ask": 15}[g.mode]
	if g.rnd.Chance(asPct) {
		u := g.rnd.Intn(g.nU)
		op.As = &u
	}
	if op.Body != "tomb" && g.rnd.Chance(map[string]int{"who": 70, "time": 10, "ask": 20}[g.mode]) {
		op.Req = g.req()
	}
	return op
}

func (g *c03xGen) xsetprinc() c03xOp {
	op := c03xOp{c03Op: g.setprinc()}
	if op.SetCh && g.rnd.Chance(map[string]int{"who": 8, "time": 8, "ask": 30}[g.mode]) {
		op.Chans = append(op.Chans, c03xStar)
	}
	return op
}

func (g *c03xGen) ask(u int) c03xOp {
	qs := [][]int{{}, {1}, {1, 2}, {c03xStar}, {c03xStar, 3}, {4}, {0}}
	qs = append(qs, g.chanSubset(50))
	return c03xOp{c03Op: c03Op{Kind: "ask", Who: u}, Univ: c03xAllChans(), Qs: qs}
}

func (g *c03xGen) next() c03xOp {
	w := map[string][]int{ // put setprinc delrole deluser loaduser loadrole peekuser peekrole ask
		"who":  {46, 16, 4, 2, 16, 6, 2, 1, 7},
		"time": {36, 24, 6, 2, 12, 6, 9, 5, 0},
		"ask":  {28, 28, 5, 1, 6, 2, 0, 0, 30},
	}[g.mode]
	kinds := []string{"put", "setprinc", "delrole", "deluser", "loaduser", "loadrole", "peekuser", "peekrole", "ask"}
	k := g.rnd.Intn(100)
	acc := 0
	kind := "put"
	for i, x := range w {
		acc += x
		if k < acc {
			kind = kinds[i]
			break
		}
	}
	switch kind {
	case "put":
		return g.xput()
	case "setprinc":
		return g.xsetprinc()
	case "delrole":
		return c03xOp{c03Op: c03Op{Kind: "delrole", Who: g.rnd.Intn(g.nR), Purge: g.rnd.Chance(35)}}
	case "deluser":
		return c03xOp{c03Op: c03Op{Kind: "deluser", Who: g.rnd.Intn(g.nU)}}
	case "loaduser", "peekuser":
		return c03xOp{c03Op: c03Op{Kind: kind, Who: g.rnd.Intn(g.nU)}}
	case "ask":
		return g.ask(g.rnd.Intn(g.nU))
	}
	return c03xOp{c03Op: c03Op{Kind: kind, Who: g.rnd.Intn(g.nR)}}
}

func c03xObserveAll(g *c03xGen, peek, ask bool) []c03xOp {
	var res []c03xOp
	if peek {
		for d := 0; d < g.nD; d++ {
			res = append(res, c03xOp{c03Op: c03Op{Kind: "peekdoc", Doc: d}})
		}
	}
	for r := 0; r < g.nR; r++ {
		if peek {
			res = append(res, c03xOp{c03Op: c03Op{Kind: "peekrole", Who: r}})
		}
		res = append(res, c03xOp{c03Op: c03Op{Kind: "loadrole", Who: r}})
	}
	for u := 0; u < g.nU; u++ {
		if peek {
			res = append(res, c03xOp{c03Op: c03Op{Kind: "peekuser", Who: u}})
		}
		if ask {
			res = append(res, g.ask(u))
		} else {
			res = append(res, c03xOp{c03Op: c03Op{Kind: "loaduser", Who: u}})
		}
	}
	return res
}

func c03xRandomHistory(rnd *vRand, mode string) []c03xOp {
	g := &c03xGen{c03Gen: c03Gen{rnd: rnd, nU: 3, nR: 2, nD: 3}, xtr: c03xNewTruth(), mode: mode}
	if mode == "time" {
		g.nU, g.nR, g.nD = 2, 2, 2 // concentrate: the same grants are revoked and made again
	}
	g.tr = g.xtr.c03Truth
	n := 10 + rnd.Intn(26)
	observeAll := rnd.Chance(map[string]int{"who": 25, "time": 50, "ask": 30}[mode])
	var ops []c03xOp
	push := func(op c03xOp) {
		ops = append(ops, op)
		switch op.Kind {
		case "put":
			if g.xtr.accepts(&op) {
				g.seq++
				g.xtr.xapply(&op, g.seq)
			}
		case "setprinc", "delrole", "deluser":
			g.seq++
			g.xtr.xapply(&op, g.seq)
		}
	}
	if rnd.Chance(60) {
		for u := 0; u < g.nU; u++ {
			push(c03xOp{c03Op: c03Op{Kind: "setprinc", User: true, Who: u}})
		}
		for r := 0; r < g.nR; r++ {
			push(c03xOp{c03Op: c03Op{Kind: "setprinc", Who: r}})
		}
	}
	for len(ops) < n {
		op := g.next()
		push(op)
		mut := op.Kind == "put" || op.Kind == "setprinc" || op.Kind == "delrole" || op.Kind == "deluser"
		if mut && (observeAll || (op.Kind == "put" && op.As != nil)) {
			// grants are checked after each write made with a user context
			for _, l := range c03xObserveAll(g, mode == "time", mode == "ask") {
				push(l)
			}
		}
	}
	for u := 0; u < g.nU; u++ {
		if p := g.tr.users[u]; p == nil {
			push(c03xOp{c03Op: c03Op{Kind: "setprinc", User: true, Who: u}})
		}
	}
	for _, l := range c03xObserveAll(g, mode == "time", mode != "time") {
		push(l)
	}
	return ops
}

// ---------- corpus ----------
func c03xCorpus() map[string][]c03xOp {
	r := func(g int, d uint64) *c03Rev { return &c03Rev{Gen: g, Dig: d} }
	ip := func(i int) *int { return &i }
	mkU := func(u int) c03xOp { return c03xOp{c03Op: c03Op{Kind: "setprinc", User: true, Who: u}} }
	mkR := func(x int) c03xOp { return c03xOp{c03Op: c03Op{Kind: "setprinc", Who: x}} }
	setU := func(u int, ch []int, ro []int, sc, sr bool) c03xOp {
		return c03xOp{c03Op: c03Op{Kind: "setprinc", User: true, Who: u, SetCh: sc, Chans: ch, SetRo: sr, Roles: ro}}
	}
	setR := func(x int, ch []int) c03xOp {
		return c03xOp{c03Op: c03Op{Kind: "setprinc", Who: x, SetCh: true, Chans: ch}}
	}
	lu := func(u int) c03xOp { return c03xOp{c03Op: c03Op{Kind: "loaduser", Who: u}} }
	lr := func(x int) c03xOp { return c03xOp{c03Op: c03Op{Kind: "loadrole", Who: x}} }
	pu := func(u int) c03xOp { return c03xOp{c03Op: c03Op{Kind: "peekuser", Who: u}} }
	pr := func(x int) c03xOp { return c03xOp{c03Op: c03Op{Kind: "peekrole", Who: x}} }
	pd := func(d int) c03xOp { return c03xOp{c03Op: c03Op{Kind: "peekdoc", Doc: d}} }
	ask := func(u int, qs ...[]int) c03xOp {
		return c03xOp{c03Op: c03Op{Kind: "ask", Who: u}, Univ: c03xAllChans(), Qs: append([][]int{{}, {1}, {c03xStar}, {1, 2}, {c03xStar, 2}}, qs...)}
	}
	put := func(as *int, q *c03xReq, d int, par, rev *c03Rev, acc, rol []c03Grant) c03xOp {
		return c03xOp{c03Op: c03Op{Kind: "put", Doc: d, Parent: par, Rev: rev, Body: "live", Acc: acc, Rol: rol}, As: as, Req: q}
	}
	tomb := func(as *int, d int, par, rev *c03Rev) c03xOp {
		return c03xOp{c03Op: c03Op{Kind: "put", Doc: d, Parent: par, Rev: rev, Body: "tomb"}, As: as}
	}
	aU := func(u int, cs ...int) c03Grant { return c03Grant{To: u, V: cs} }
	aR := func(x int, cs ...int) c03Grant { return c03Grant{Role: true, To: x, V: cs} }
	access := func(cs ...int) *c03xReq { return &c03xReq{K: "access", V: cs} }
	role := func(rs ...int) *c03xReq { return &c03xReq{K: "role", V: rs} }
	user := func(us ...int) *c03xReq { return &c03xReq{K: "user", V: us} }
	admin := &c03xReq{K: "admin"}
	delR := func(x int, purge bool) c03xOp { return c03xOp{c03Op: c03Op{Kind: "delrole", Who: x, Purge: purge}} }

	res := map[string][]c03xOp{
		// (1) WHO: each require* both ways; a rejected write grants nothing
		"who_require_access": {mkU(0), mkU(1), setU(0, []int{1}, nil, true, false),
			put(ip(1), access(1), 0, nil, r(1, 5), []c03Grant{aU(1, 2)}, nil), lu(1), lu(0),
			put(ip(0), access(1), 0, nil, r(1, 6), []c03Grant{aU(1, 2)}, nil), lu(1), lu(0)},
		"who_require_access_public_and_star": {mkU(0), mkU(1), setU(1, []int{c03xStar}, nil, true, false),
			put(ip(0), access(0), 0, nil, r(1, 5), []c03Grant{aU(0, 3)}, nil), lu(0),
			// "*" in the user's channels does not satisfy requireAccess("A")
			put(ip(1), access(1), 1, nil, r(1, 6), []c03Grant{aU(1, 4)}, nil), lu(1),
			put(ip(1), access(c03xStar), 1, nil, r(1, 7), []c03Grant{aU(1, 4)}, nil), lu(1)},
		"who_require_user": {mkU(0), mkU(1),
			put(ip(0), user(1), 0, nil, r(1, 5), []c03Grant{aU(0, 1)}, nil), lu(0),
			put(ip(1), user(1, 2), 0, nil, r(1, 6), []c03Grant{aU(0, 1)}, nil), lu(0),
			put(ip(1), user(), 1, nil, r(1, 7), []c03Grant{aU(0, 2)}, nil), lu(0)},
		"who_require_role_admin_and_granted": {mkU(0), mkR(0), mkR(1),
			put(ip(0), role(0), 0, nil, r(1, 5), []c03Grant{aU(0, 1)}, nil), lu(0),
			setU(0, nil, []int{0}, false, true),
			put(ip(0), role(0, 1), 0, nil, r(1, 6), []c03Grant{aU(0, 1)}, nil), lu(0),
			// a role granted by a document counts too; the grant is revoked by the user's own write
			put(nil, nil, 1, nil, r(1, 7), nil, []c03Grant{aU(0, 1)}),
			put(ip(0), role(1), 2, nil, r(1, 8), []c03Grant{aU(0, 2)}, nil), lu(0),
			put(ip(0), role(1), 1, r(1, 7), r(2, 7), nil, nil), lu(0),
			put(ip(0), role(1), 2, r(1, 8), r(2, 8), []c03Grant{aU(0, 3)}, nil), lu(0)},
		"who_require_role_deleted_or_missing_role_still_named": {mkU(0), mkR(0), setU(0, nil, []int{0, 1}, false, true),
			put(ip(0), role(1), 0, nil, r(1, 5), []c03Grant{aU(0, 1)}, nil), lu(0),
			delR(0, false),
			put(ip(0), role(0), 1, nil, r(1, 6), []c03Grant{aU(0, 2)}, nil), lu(0)},
		"who_require_admin": {mkU(0),
			put(ip(0), admin, 0, nil, r(1, 5), []c03Grant{aU(0, 1)}, nil), lu(0),
			put(nil, admin, 0, nil, r(1, 6), []c03Grant{aU(0, 1)}, nil), lu(0),
			// an update by the user of the admin's document, without requirement, is fine
			put(ip(0), nil, 0, r(1, 6), r(2, 6), []c03Grant{aU(0, 2)}, nil), lu(0)},
		"who_user_grants_itself_access_then_uses_it": {mkU(0),
			put(ip(0), access(2), 0, nil, r(1, 5), nil, nil), lu(0),
			put(ip(0), nil, 1, nil, r(1, 6), []c03Grant{aU(0, 2)}, nil), lu(0),
			put(ip(0), access(2), 0, nil, r(1, 7), []c03Grant{aU(0, 3)}, nil), lu(0)},
		"who_access_through_role": {mkU(0), mkR(0), setR(0, []int{3}), setU(0, nil, []int{0}, false, true),
			put(ip(0), access(3), 0, nil, r(1, 5), []c03Grant{aR(0, 4)}, nil), lu(0), lr(0),
			delR(0, false),
			put(ip(0), access(3, 4), 0, r(1, 5), r(2, 5), []c03Grant{aU(0, 1)}, nil), lu(0)},
		// tombstoning the winning branch promotes an older leaf whose body requires admin: the sync function of the
		// PROMOTED revision runs with the context of the user who wrote the tombstone
		"who_promoted_leaf_is_reevaluated_for_the_writer": {mkU(0), mkU(1),
			put(nil, admin, 0, nil, r(1, 3), []c03Grant{aU(1, 1)}, nil),
			put(nil, nil, 0, nil, r(1, 9), []c03Grant{aU(0, 2)}, nil), lu(0), lu(1),
			tomb(ip(0), 0, r(1, 9), r(2, 9)), lu(0), lu(1),
			tomb(nil, 0, r(1, 9), r(2, 8)), lu(0), lu(1)},
		"who_promoted_leaf_requirement_met": {mkU(0), mkU(1),
			put(nil, user(0), 0, nil, r(1, 3), []c03Grant{aU(1, 1)}, nil),
			put(nil, nil, 0, nil, r(1, 9), []c03Grant{aU(0, 2)}, nil),
			tomb(ip(1), 0, r(1, 9), r(2, 7)), lu(0), lu(1),
			tomb(ip(0), 0, r(1, 9), r(2, 9)), lu(0), lu(1)},
		"who_write_revokes_writers_own_access": {mkU(0), mkR(0), setR(0, []int{1}),
			put(nil, nil, 0, nil, r(1, 5), []c03Grant{aU(0, 2)}, []c03Grant{aU(0, 0)}), lu(0),
			put(ip(0), access(2), 0, r(1, 5), r(2, 5), nil, nil), pu(0), lu(0),
			put(ip(0), access(2), 0, r(2, 5), r(3, 5), []c03Grant{aU(0, 2)}, nil), lu(0)},
		"who_missing_user_cannot_write": {put(ip(0), nil, 0, nil, r(1, 5), []c03Grant{aU(0, 1)}, nil), mkU(0), lu(0)},

		// (2) TIME
		"time_first_grant_seq_is_kept_across_updates": {mkU(0), put(nil, nil, 0, nil, r(1, 5), []c03Grant{aU(0, 1)}, nil), lu(0),
			put(nil, nil, 0, r(1, 5), r(2, 5), []c03Grant{aU(0, 1, 2)}, nil), pd(0), pu(0), lu(0),
			put(nil, nil, 1, nil, r(1, 6), []c03Grant{aU(0, 2)}, nil), pd(1), lu(0),
			// the earlier source goes: since moves to the remaining (later) source
			put(nil, nil, 0, r(2, 5), r(3, 5), []c03Grant{aU(0, 1)}, nil), pd(0), pu(0), lu(0),
			// a losing branch changes nothing; tombstoning the winner promotes it: its grants start at THAT sequence
			put(nil, nil, 0, nil, r(1, 1), []c03Grant{aU(0, 1, 3)}, []c03Grant{aU(0, 0)}), pd(0),
			tomb(nil, 0, r(3, 5), r(4, 5)), pd(0), lu(0)},
		"time_revoke_regrant_history_interval": {mkU(0), put(nil, nil, 0, nil, r(1, 5), []c03Grant{aU(0, 1)}, nil), lu(0),
			put(nil, nil, 0, r(1, 5), r(2, 5), nil, nil), pu(0), lu(0),
			put(nil, nil, 0, r(2, 5), r(3, 5), []c03Grant{aU(0, 1)}, nil), pu(0), lu(0),
			tomb(nil, 0, r(3, 5), r(4, 5)), lu(0), pu(0)},
		"time_invalidated_twice_keeps_first_inval_seq": {mkU(0), put(nil, nil, 0, nil, r(1, 5), []c03Grant{aU(0, 1)}, nil), lu(0),
			put(nil, nil, 1, nil, r(1, 6), []c03Grant{aU(0, 2)}, nil), pu(0),
			put(nil, nil, 0, r(1, 5), r(2, 5), nil, nil), pu(0), lu(0), pu(0)},
		"time_revoke_and_regrant_between_loads_no_history": {mkU(0), put(nil, nil, 0, nil, r(1, 5), []c03Grant{aU(0, 1)}, nil), lu(0),
			put(nil, nil, 0, r(1, 5), r(2, 5), nil, nil), put(nil, nil, 0, r(2, 5), r(3, 5), []c03Grant{aU(0, 1)}, nil), pu(0), lu(0)},
		"time_admin_channels_edit": {mkU(0), setU(0, []int{1, 2}, nil, true, false), pu(0), lu(0),
			setU(0, []int{2, 3}, nil, true, false), pu(0), lu(0), setU(0, []int{3, 2}, nil, true, false), pu(0),
			setU(0, []int{}, nil, true, false), pu(0), lu(0), setU(0, []int{2}, nil, true, false), lu(0)},
		"time_roles_since_and_role_history": {mkU(0), mkR(0), mkR(1), setR(0, []int{1}), setR(1, []int{2}),
			setU(0, nil, []int{0}, false, true), lu(0),
			put(nil, nil, 0, nil, r(1, 5), nil, []c03Grant{aU(0, 0, 1)}), pu(0), lu(0),
			setU(0, nil, []int{}, false, true), pu(0), lu(0),
			put(nil, nil, 0, r(1, 5), r(2, 5), nil, nil), pu(0), lu(0),
			setU(0, nil, []int{1}, false, true), lu(0)},
		"time_role_channels_and_deleted_role": {mkU(0), mkR(0), setR(0, []int{1}), setU(0, nil, []int{0}, false, true),
			put(nil, nil, 0, nil, r(1, 5), []c03Grant{aR(0, 2)}, nil), pr(0), lr(0), lu(0),
			put(nil, nil, 0, r(1, 5), r(2, 5), nil, nil), pr(0), lr(0), lu(0),
			delR(0, false), pr(0), lu(0), mkR(0), pr(0), lr(0), lu(0),
			delR(0, true), pr(0), setR(0, []int{3}), pr(0), lr(0), lu(0)},
		"time_user_deleted_and_recreated": {mkU(0), setU(0, []int{1}, nil, true, false),
			put(nil, nil, 0, nil, r(1, 5), []c03Grant{aU(0, 2)}, nil), lu(0),
			c03xOp{c03Op: c03Op{Kind: "deluser", Who: 0}}, pu(0), mkU(0), pu(0), lu(0)},
		"time_principal_created_after_document": {put(nil, nil, 0, nil, r(1, 5), []c03Grant{aU(0, 1), aR(0, 2)}, []c03Grant{aU(0, 0)}),
			put(nil, nil, 1, nil, r(1, 6), []c03Grant{aU(0, 1)}, nil), mkU(0), pu(0), lu(0), mkR(0), pr(0), lu(0)},

		// (3) the access API
		"ask_star_admin_grant": {mkU(0), setU(0, []int{c03xStar}, nil, true, false), ask(0), setU(0, []int{1}, nil, true, false), ask(0)},
		"ask_public_only":      {mkU(0), ask(0, []int{0}, []int{0, 1})},
		"ask_through_roles": {mkU(0), mkR(0), mkR(1), setR(0, []int{1}), setR(1, []int{2}),
			setU(0, []int{3}, []int{0}, true, true), ask(0, []int{3}, []int{2, 4}),
			put(nil, nil, 0, nil, r(1, 5), nil, []c03Grant{aU(0, 1)}), ask(0, []int{2}),
			delR(0, false), ask(0, []int{1}), mkR(0), ask(0)},
		// the star channel held only through a role
		"ask_star_through_role": {mkU(0), mkR(0), setR(0, []int{c03xStar}), ask(0),
			setU(0, nil, []int{0}, false, true), ask(0, []int{4}), lu(0)},
		// a role granted late: the channels of the role are inherited from the sequence of the role grant
		"ask_role_granted_later_than_its_channels": {mkR(0), setR(0, []int{1}), mkU(0),
			put(nil, nil, 0, nil, r(1, 5), nil, nil), put(nil, nil, 0, r(1, 5), r(2, 5), nil, nil),
			setU(0, nil, []int{0}, false, true), ask(0, []int{1}), lu(0)},
	}
	// many revoke / re-grant cycles of the same channel: more than 10 history entries are compacted
	cyc := []c03xOp{mkU(0)}
	var parent *c03Rev
	for i := 1; i <= 25; i++ {
		var acc []c03Grant
		if i%2 == 1 {
			acc = []c03Grant{aU(0, 1)}
		}
		rev := r(i, 5)
		cyc = append(cyc, put(nil, nil, 0, parent, rev, acc, nil), lu(0))
		parent = rev
	}
	cyc = append(cyc, pu(0))
	res["time_many_cycles_history_compaction"] = cyc
	return res
}

// the extended streams, called from TestVerifC03
func c03xStreams(t *testing.T, rec *vRecorder, rnd *vRand) {
	envs := map[bool]*c03Env{}
	used := map[bool]int{}
	env := func(def bool) *c03Env {
		if e := envs[def]; e != nil && used[def] < 40 {
			used[def]++
			return e
		}
		if e := envs[def]; e != nil {
			e.close()
		}
		e := c03xNewEnv(t, def)
		envs[def] = e
		used[def] = 1
		return e
	}
	defer func() {
		for _, e := range envs {
			if e != nil {
				e.close()
			}
		}
	}()
	corpus := c03xCorpus()
	names := make([]string, 0, len(corpus))
	for n := range corpus {
		names = append(names, n)
	}
	sort.Strings(names)
	for _, n := range names {
		stream := n[:strings.Index(n, "_")]
		for _, def := range []bool{true, false} {
			c03xHistory(env(def), rec, stream, "x_corpus_"+n, corpus[n])
		}
	}
	counts := map[string]int{}
	for _, mode := range []string{"who", "time", "ask"} {
		n := vBudget(70, 700)
		counts[mode] = n + 2*len(corpus)/3
		for i := 0; i < n; i++ {
			c03xHistory(env(i%2 == 0), rec, mode, "x_random_"+mode, c03xRandomHistory(rnd, mode))
		}
	}
	if b, err := json.Marshal(counts); err == nil {
		rec.Extra("x_histories", string(b))
	}
}
