//go:build verif

package db

import (
	"context"
	"encoding/json"
	"fmt"
	"sort"
	"strings"
	"testing"

	"github.com/couchbase/sync_gateway/base"
)

// C16, third harness file: cache coherence across writers (RevCacheCoherence.v, case CCoh).
// Two database contexts ("nodes") on ONE bucket, each with its own revision cache.  Mutations are made through
// one node (ordinary write, import of an SDK body write, import of a user-xattr-only change, ISGR conflict
// resolved as local wins); both nodes then process their caching feed (changeCache.DocChanged); before and
// after, Gets by revTreeID and by CV are issued on both nodes.  Every Get result is compared with the model
// inside Coq; the monitor (reflection of C16_cache_coherent_after_feed) compares every Get of a CURRENT key,
// after the feed was processed, with a fresh load through BypassRevisionCache on the same node.

type c16hNode struct {
	idx    int
	name   string
	db     *Database
	ctx    context.Context
	col    *DatabaseCollectionWithUser
	bypass *BypassRevisionCache
	iow    bool
}

// everything a peer or client can learn from a served revision (the sequential streams' projection + revID, CV, HLV history)
func c16hProject(rev DocumentRevision) string {
	p, _ := c16Project(rev)
	cv := ""
	if rev.CV != nil {
		cv = rev.CV.String()
	}
	return fmt.Sprintf("%s|rev=%s|cv=%s|hlv=%s", p, rev.RevID, cv, c16hCanonHLV(rev.HlvHistory))
}

// the HLV history string lists merge versions and previous versions in map-iteration order: sort within each section
func c16hCanonHLV(h string) string {
	secs := strings.Split(h, ";")
	for i, sec := range secs {
		vs := strings.Split(sec, ",")
		for j := range vs {
			vs[j] = strings.TrimSpace(vs[j])
		}
		sort.Strings(vs)
		secs[i] = strings.Join(vs, ",")
	}
	return strings.Join(secs, ";")
}

type c16hDoc struct {
	id       string
	num      uint64
	revs     map[string]uint64 // revTreeID -> interned id
	cvs      map[string]uint64
	curRev   string
	curCV    string
	history  []string // mutations so far
	lastKind string
}

func (d *c16hDoc) revN(r string) uint64 {
	if _, ok := d.revs[r]; !ok {
		d.revs[r] = uint64(len(d.revs) + 1)
	}
	return d.revs[r]
}
func (d *c16hDoc) cvN(c string) uint64 {
	if _, ok := d.cvs[c]; !ok {
		d.cvs[c] = uint64(len(d.cvs) + 1)
	}
	return d.cvs[c]
}

type c16hRun struct {
	r      *c16Runner
	t      *testing.T
	nodes  []*c16hNode
	intern map[string]uint64
	ops    []string
	descr  []string
	served int
	stale  int
}

func (h *c16hRun) content(p string) uint64 {
	if _, ok := h.intern[p]; !ok {
		h.intern[p] = uint64(len(h.intern) + 1)
	}
	return h.intern[p]
}

func (h *c16hRun) input(extra map[string]any) map[string]any {
	m := map[string]any{"history": append([]string{}, h.descr...)}
	for k, v := range extra {
		m[k] = v
	}
	return m
}

// Get through node n's revision cache; byCV selects the kind of key
func (h *c16hRun) get(n *c16hNode, d *c16hDoc, byCV bool, version string, afterFeed bool) {
	cached, cerr := n.col.revisionCache.Get(n.ctx, d.id, version, RevCacheDontLoadBackupRev)
	kid, kind := uint64(0), "revTreeID"
	if byCV {
		kid, kind = d.cvN(version), "CV"
	} else {
		kid = d.revN(version)
	}
	obs := "None"
	if cerr == nil {
		obs = "(Some " + cqN(h.content(c16hProject(cached))) + ")"
	}
	h.ops = append(h.ops, fmt.Sprintf("(OGet %d (mkK %d %v %d) %s, %s)", n.idx, d.num, byCV, kid, obs, obs))
	h.descr = append(h.descr, fmt.Sprintf("node %s: Get %s by %s %s", n.name, d.id, kind, version))
	h.r.rec.Count("coherence", "coh-get", "", false)
	current := (byCV && version == d.curCV) || (!byCV && version == d.curRev)
	if !afterFeed || !current {
		return
	}
	// ---- monitor: a current key, after the feed was processed, must be served as the bucket holds it ----
	h.served++
	fresh, _, ferr := n.bypass.Get(n.ctx, d.id, version, n.col.GetCollectionID(), RevCacheDontLoadBackupRev)
	sig := "coherence-stale-after-feed:" + d.lastKind + ":" + kind
	in := h.input(map[string]any{"node": n.name, "doc": d.id, "key": kind + " " + version, "last_mutation": d.lastKind})
	if (cerr != nil) != (ferr != nil) {
		h.stale++
		h.r.rec.Fail("cache_coherent_after_feed", sig, in, fmt.Sprintf("cache err=%v, load from the bucket err=%v", cerr, ferr))
		return
	}
	if cerr == nil {
		if pc, pf := c16hProject(cached), c16hProject(fresh); pc != pf {
			h.stale++
			h.r.rec.Fail("cache_coherent_after_feed", sig, in, fmt.Sprintf("node %s serves %s, a load from the bucket returns %s", n.name, pc, pf))
		}
	}
}

// both nodes process the feed up to the document's sequence; one event per node and mutation
func (h *c16hRun) deliver(d *c16hDoc, order []int) {
	doc, err := h.nodes[0].col.GetDocument(h.nodes[0].ctx, d.id, DocUnmarshalSync)
	if err != nil {
		h.t.Fatalf("c16 coherence: reading %s: %v", d.id, err)
	}
	for _, i := range order {
		h.nodes[i].db.WaitForSequence(h.t, doc.Sequence)
		h.ops = append(h.ops, fmt.Sprintf("(ODeliver %d, None)", i))
	}
	h.descr = append(h.descr, "both nodes process their feed")
}

// after a mutation: read the bucket (current revTreeID, CV, and what a load of either key returns now), emit the op
func (h *c16hRun) recordMutation(w *c16hNode, d *c16hDoc, kind string) {
	doc, err := w.col.GetDocument(w.ctx, d.id, DocUnmarshalSync)
	if err != nil {
		h.t.Fatalf("c16 coherence: reading %s after %s: %v", d.id, kind, err)
	}
	newRev, newCV := doc.GetRevTreeID(), doc.HLV.GetCurrentVersionString()
	load := func(version string) uint64 {
		fr, _, err := w.bypass.Get(w.ctx, d.id, version, w.col.GetCollectionID(), RevCacheDontLoadBackupRev)
		if err != nil {
			h.t.Fatalf("c16 coherence: load of the current version %s of %s fails: %v", version, d.id, err)
		}
		return h.content(c16hProject(fr))
	}
	mr, mc := load(newRev), load(newCV)
	revChanged, cvChanged := newRev != d.curRev, newCV != d.curCV
	var m string
	switch {
	case kind == "localwins" && revChanged && !cvChanged:
		m = fmt.Sprintf("MLocalWins %d %d %d %d", d.num, d.revN(newRev), mr, mc)
	case kind == "xattr" && !revChanged && cvChanged:
		m = fmt.Sprintf("MXattr %d %d %d %d", d.num, d.cvN(newCV), mr, mc)
	case kind == "import" && revChanged && cvChanged:
		m = fmt.Sprintf("MImport %d %d %d %d %d", d.num, d.revN(newRev), d.cvN(newCV), mr, mc)
	case (kind == "write" || kind == "create") && revChanged && cvChanged:
		m = fmt.Sprintf("MWrite %d %d %d %d %d", d.num, d.revN(newRev), d.cvN(newCV), mr, mc)
	default:
		h.r.rec.Fail("harness", "coherence-mutation-shape-unexpected", h.input(map[string]any{"doc": d.id, "mutation": kind}),
			fmt.Sprintf("%s: revTreeID %s -> %s, CV %s -> %s", kind, d.curRev, newRev, d.curCV, newCV))
		m = fmt.Sprintf("MWrite %d %d %d %d %d", d.num, d.revN(newRev), d.cvN(newCV), mr, mc)
	}
	h.ops = append(h.ops, fmt.Sprintf("(OMut %d %v (%s), None)", w.idx, w.iow, m))
	h.descr = append(h.descr, fmt.Sprintf("node %s: %s of %s -> revTreeID %s, CV %s", w.name, kind, d.id, newRev, newCV))
	d.curRev, d.curCV, d.lastKind = newRev, newCV, kind
	d.history = append(d.history, kind)
	h.r.rec.Count("coherence", "coh-mut:"+kind, "", false)
}

func (h *c16hRun) mutate(w *c16hNode, d *c16hDoc, kind string, n int) {
	const xattrKey = "channels"
	switch kind {
	case "create":
		if _, _, err := w.col.Put(w.ctx, d.id, Body{"n": n}); err != nil {
			h.t.Fatalf("c16 coherence: create: %v", err)
		}
	case "write":
		if _, _, err := w.col.Put(w.ctx, d.id, Body{BodyRev: d.curRev, "n": n, "by": w.name}); err != nil {
			h.t.Fatalf("c16 coherence: update on %s: %v", w.name, err)
		}
	case "xattr": // user-xattr-only change by an SDK; node A (the importing node) re-runs the sync function, no new revision
		a := h.nodes[0]
		ds := a.col.dataStore
		cas, err := ds.Get(a.ctx, d.id, nil)
		if err != nil {
			h.t.Fatalf("c16 coherence: cas: %v", err)
		}
		val, _ := json.Marshal(fmt.Sprintf("CH%d", n))
		if _, err = ds.UpdateXattrs(a.ctx, d.id, 0, cas, map[string][]byte{xattrKey: val}, nil); err != nil {
			h.t.Fatalf("c16 coherence: xattr: %v", err)
		}
		if _, err := a.col.GetDocument(a.ctx, d.id, DocUnmarshalAll); err != nil { // on demand if the feed import has not run yet
			h.t.Fatalf("c16 coherence: import after xattr: %v", err)
		}
		w = a
	case "import": // SDK body write, imported by node A
		a := h.nodes[0]
		if err := a.col.dataStore.SetRaw(a.ctx, d.id, 0, nil, []byte(fmt.Sprintf(`{"n":%d,"sdk":true}`, n))); err != nil {
			h.t.Fatalf("c16 coherence: sdk write: %v", err)
		}
		if _, err := a.col.GetDocument(a.ctx, d.id, DocUnmarshalAll); err != nil {
			h.t.Fatalf("c16 coherence: import: %v", err)
		}
		w = a
	case "localwins": // a concurrent revision of a remote peer arrives by ISGR pull on w; the resolver picks the local one
		remoteHLV := &HybridLogicalVector{SourceID: EncodeSource(fmt.Sprintf("peer%d", n)), Version: uint64(0x1000 + n)}
		newDoc := CreateTestDocument(d.id, fmt.Sprintf("1-r%d", n), Body{"who": "remote", "n": n}, false, 0)
		newDoc.HLV = remoteHLV
		_, cv, _, err := w.col.PutExistingCurrentVersion(w.ctx, PutDocOptions{
			NewDoc: newDoc, NewDocHLV: remoteHLV, RevTreeHistory: []string{fmt.Sprintf("1-r%d", n)},
			ConflictResolver: NewConflictResolver(LocalWinsConflictResolver, nil), ISGRWrite: true,
		})
		if err != nil || cv == nil {
			h.t.Fatalf("c16 coherence: local-wins resolution on %s: %v", w.name, err)
		}
	}
	h.recordMutation(w, d, kind)
}

func (h *c16hRun) flush(stream string, nontrivial bool) {
	coq := "CCoh " + cqList(h.ops)
	h.r.rec.Case(stream, "coherence", coq, map[string]any{"history": append([]string{}, h.descr...)}, nontrivial)
	h.ops, h.descr = nil, nil
}

func c16Coherence(r *c16Runner, rnd *vRand) {
	t := r.t
	defer SuspendSequenceBatching()()
	tb := base.GetTestBucket(t)
	defer tb.Close(base.TestCtx(t))
	const xattrKey = "channels"
	syncFn := `function (doc, oldDoc, meta){ if (meta.xattrs.channels !== undefined){ channel(meta.xattrs.channels); } else { channel("none"); } }`
	mk := func(idx int, name string, iow bool, importing bool) *c16hNode {
		opts := DatabaseContextOptions{UserXattrKey: xattrKey,
			RevisionCacheOptions: &RevisionCacheOptions{MaxItemCount: 5000, ShardCount: 2, InsertOnWrite: iow}}
		var db *Database
		var ctx context.Context
		if importing {
			db, ctx = setupTestDBWithOptionsAndImport(t, tb.NoCloseClone(), opts)
		} else {
			db, ctx = SetupTestDBForBucketWithOptions(t, tb.NoCloseClone(), opts)
		}
		col, ctx := GetSingleDatabaseCollectionWithUser(ctx, t, db)
		if _, err := col.UpdateSyncFun(ctx, syncFn); err != nil {
			t.Fatalf("sync fn: %v", err)
		}
		bs := map[uint32]RevisionCacheBackingStore{col.GetCollectionID(): col.DatabaseCollection}
		return &c16hNode{idx: idx, name: name, db: db, ctx: ctx, col: col, iow: iow, bypass: NewBypassRevisionCache(bs, &base.SgwIntStat{})}
	}
	a, b := mk(0, "A", true, true), mk(1, "B", false, false)
	defer a.db.Close(a.ctx)
	defer b.db.Close(b.ctx)
	h := &c16hRun{r: r, t: t, nodes: []*c16hNode{a, b}, intern: map[string]uint64{}}
	nDocs := 0
	newDoc := func() *c16hDoc {
		nDocs++
		return &c16hDoc{id: fmt.Sprintf("c16coh%d", nDocs), num: uint64(nDocs), revs: map[string]uint64{}, cvs: map[string]uint64{}}
	}
	// Gets of every key the document ever had, on the given nodes
	getAll := func(d *c16hDoc, nodes []*c16hNode, which string, afterFeed bool) {
		var revs, cvs []string
		for r := range d.revs {
			revs = append(revs, r)
		}
		for c := range d.cvs {
			cvs = append(cvs, c)
		}
		sort.Strings(revs)
		sort.Strings(cvs)
		for _, n := range nodes {
			if which != "cv" {
				for _, r := range revs {
					h.get(n, d, false, r, afterFeed)
				}
			}
			if which != "rev" {
				for _, c := range cvs {
					h.get(n, d, true, c, afterFeed)
				}
			}
		}
	}
	both := []*c16hNode{a, b}
	// one scenario: create on A, pre-cache on the passive node(s), mutate, feed, read everything
	scenario := func(stream string, writer *c16hNode, kinds []string, precache string, order []int) {
		d := newDoc()
		h.mutate(a, d, "create", 0)
		h.deliver(d, []int{0, 1})
		if precache != "none" {
			getAll(d, both, precache, true)
		}
		for i, kind := range kinds {
			h.mutate(writer, d, kind, i+1)
			h.deliver(d, order)
			getAll(d, both, "both", true)
		}
		h.flush(stream, true)
	}
	kinds := []string{"write", "xattr", "localwins", "import"}
	// ---- corpus: each kind of mutation x entry pre-cached by revTreeID / by CV / both / not at all ----
	for _, kind := range kinds {
		for _, pre := range []string{"rev", "cv", "both", "none"} {
			scenario("coherence-corpus", a, []string{kind}, pre, []int{0, 1})
		}
	}
	// ordinary update and local-wins resolution made through the OTHER node (B writes, A is the passive one)
	for _, kind := range []string{"write", "localwins"} {
		for _, pre := range []string{"rev", "cv", "both"} {
			scenario("coherence-corpus", b, []string{kind}, pre, []int{1, 0})
		}
	}
	// ---- all ordered pairs of mutations, entry pre-cached both ways ----
	for _, k1 := range kinds {
		for _, k2 := range kinds {
			scenario("coherence-pairs", a, []string{k1, k2}, "both", []int{0, 1})
		}
	}
	// ---- random histories, random writer for the kinds either node can make ----
	for i := vBudget(10, 80); i > 0; i-- {
		d := newDoc()
		h.mutate(a, d, "create", 0)
		h.deliver(d, []int{0, 1})
		getAll(d, both, []string{"rev", "cv", "both"}[rnd.Intn(3)], true)
		for j, n := 0, 2+rnd.Intn(4); j < n; j++ {
			kind := kinds[rnd.Intn(len(kinds))]
			w := a
			if (kind == "write" || kind == "localwins") && rnd.Chance(50) {
				w = b
			}
			h.mutate(w, d, kind, j+1)
			order := []int{0, 1}
			if rnd.Chance(50) {
				order = []int{1, 0}
			}
			h.deliver(d, order)
			if rnd.Chance(80) {
				getAll(d, both, []string{"rev", "cv", "both"}[rnd.Intn(3)], true)
			}
		}
		getAll(d, both, "both", true)
		h.flush("coherence-random", true)
	}
	r.rec.Extra("coherence_gets_of_current_keys_after_feed", h.served)
	r.rec.Extra("coherence_stale", h.stale)
}
