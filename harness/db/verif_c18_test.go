//go:build verif

package db

import (
	"context"
	"fmt"
	"os"
	"sort"
	"strings"
	"testing"

	"github.com/couchbase/sync_gateway/base"
	"github.com/couchbase/sync_gateway/channels"
)

// C18 correspondence + monitors.  Every case runs TWO real databases: one written under sync function f1,
// switched to f2 and resynced through the real ResyncManager (DCP run loop, ResyncDocument,
// invalidatePrincipals), resynced a second time; and one written under f2 from the start with the same
// revisions (PutExistingRevWithBody, so revision ids coincide).  Projected observables: per document the
// current revision, active channels, access / role grants, every leaf's channelsForRevTreeID, sequence and
// recent_sequences; per user the effective channels, roles, and the documents / leaves authorizeDoc lets
// the user read.

// ---------- names <-> numbers (the model sees interned names only) ----------
func c18Chan(s string) uint64 {
	if s == "K" {
		return 100
	}
	if len(s) == 1 && s[0] >= 'A' && s[0] <= 'Z' {
		return uint64(s[0]-'A') + 1
	}
	return 900
}
func c18Idx(s string) uint64 { // "u2" / "r1" -> 2 / 1
	if len(s) == 2 && s[1] >= '0' && s[1] <= '9' {
		return uint64(s[1] - '0')
	}
	return 900
}
func c18Rev(rev string) (uint64, uint64) { // "2-ccc" -> (2, 3)
	var g uint64
	i := 0
	for i < len(rev) && rev[i] != '-' {
		g = g*10 + uint64(rev[i]-'0')
		i++
	}
	if i+1 < len(rev) && rev[i+1] >= 'a' && rev[i+1] <= 'z' {
		return g, uint64(rev[i+1]-'a') + 1
	}
	return g, 900
}
func c18RevStr(g, d int) string {
	return fmt.Sprintf("%d-%s", g, strings.Repeat(string(rune('a'+d-1)), 3))
}
func c18CqRev(rev string) string {
	g, d := c18Rev(rev)
	return "(" + cqN(g) + "," + cqN(d) + ")"
}
func c18Opt(s string, f func(string) uint64) string {
	if s == "" {
		return "None"
	}
	return "(Some " + cqN(f(s)) + ")"
}
func c18Set(ss []string, f func(string) uint64) string {
	v := make([]uint64, 0, len(ss))
	for _, s := range ss {
		v = append(v, f(s))
	}
	sort.Slice(v, func(i, j int) bool { return v[i] < v[j] })
	return cqNList(v)
}

// ---------- the family of sync functions ----------
type c18F struct {
	CA, CB, CK bool
	G, RG, R   int
	KG         bool
	Rej        int // 0: never rejects; 1: throws first thing when doc.x; 2: throws after all channel/access/role calls
}

func (f c18F) js() string {
	var b strings.Builder
	b.WriteString("function(doc, oldDoc){\n")
	if f.Rej == 1 {
		b.WriteString(" if (doc.x) { throw({forbidden: \"x\"}); }\n")
	}
	if f.CA {
		b.WriteString(" if (doc.a) { channel(doc.a); }\n")
	}
	if f.CB {
		b.WriteString(" if (doc.b) { channel(doc.b); }\n")
	}
	if f.CK {
		b.WriteString(" channel(\"K\");\n")
	}
	fld := func(n int) string { return map[int]string{1: "ga", 2: "gb"}[n] }
	if f.G == 1 || f.G == 2 {
		fmt.Fprintf(&b, " if (doc.u && doc.%s) { access(doc.u, doc.%s); }\n", fld(f.G), fld(f.G))
	}
	if f.RG == 1 || f.RG == 2 {
		fmt.Fprintf(&b, " if (doc.tr && doc.%s) { access(\"role:\" + doc.tr, doc.%s); }\n", fld(f.RG), fld(f.RG))
	}
	rf := func(n int) string { return map[int]string{1: "ra", 2: "rb"}[n] }
	if f.R == 1 || f.R == 2 {
		fmt.Fprintf(&b, " if (doc.r && doc.%s) { role(doc.r, \"role:\" + doc.%s); }\n", rf(f.R), rf(f.R))
	}
	if f.KG {
		b.WriteString(" access(\"u0\", \"K\");\n")
	}
	if f.Rej == 2 {
		b.WriteString(" if (doc.x) { throw({forbidden: \"x\"}); }\n")
	}
	b.WriteString("}")
	return b.String()
}
func (f c18F) coq() string {
	return fmt.Sprintf("(mkF %s %s %s %d %d %d %s %d)", cqBool(f.CA), cqBool(f.CB), cqBool(f.CK), f.G, f.RG, f.R, cqBool(f.KG), f.Rej)
}

// ---------- bodies and write operations ----------
type c18B struct {
	A, B, U, GA, GB, TR, R, RA, RB string
	X                              bool
}

func (b c18B) body(deleted bool) Body {
	m := Body{}
	set := func(k, v string) {
		if v != "" {
			m[k] = v
		}
	}
	set("a", b.A)
	set("b", b.B)
	set("u", b.U)
	set("ga", b.GA)
	set("gb", b.GB)
	set("tr", b.TR)
	set("r", b.R)
	set("ra", b.RA)
	set("rb", b.RB)
	if b.X {
		m["x"] = true
	}
	if deleted {
		m[BodyDeleted] = true
	}
	return m
}
func (b c18B) coq() string {
	return "(mkB " + strings.Join([]string{c18Opt(b.A, c18Chan), c18Opt(b.B, c18Chan), c18Opt(b.U, c18Idx), c18Opt(b.GA, c18Chan),
		c18Opt(b.GB, c18Chan), c18Opt(b.TR, c18Idx), c18Opt(b.R, c18Idx), c18Opt(b.RA, c18Idx), c18Opt(b.RB, c18Idx), cqBool(b.X)}, " ") + ")"
}

type c18W struct {
	Doc    int
	Rev    string
	Hist   []string // Rev, parent, grandparent, ...
	Body   c18B
	Del    bool
	Second bool // written after the switch to f2 (before the resync)
	// users loaded (GetUser + inherited channels, which loads the roles they hold) immediately BEFORE this write
	LoadBefore []string
}

func (w c18W) coq() string {
	g, d := c18Rev(w.Rev)
	var anc []string
	for _, h := range w.Hist[1:] {
		anc = append(anc, c18CqRev(h))
	}
	return fmt.Sprintf("(W %d %d %d %s %s %s)", w.Doc, g, d, cqList(anc), w.Body.coq(), cqBool(w.Del))
}
func c18LoadsCoq(names []string) []string {
	var out []string
	for _, n := range names {
		out = append(out, "(L "+cqN(c18Idx(n))+")")
	}
	return out
}
func c18DocID(i int) string { return fmt.Sprintf("d%d", i) }

type c18User struct {
	Name  string
	Ch    []string
	Roles []string
}
type c18Role struct {
	Name string
	Ch   []string
}
type c18Case struct {
	F1, F2 c18F
	Regen  bool
	// LoadEnd: users loaded after the last write (and the function switch), before the resync.  A user is
	// created with its computed channels / roles stored; a write invalidates the computed channels of the
	// principals whose access() grants it changes and the computed roles of the users whose role() grants it
	// changes; a load rebuilds what is invalidated.  Users not in LoadEnd reach the resync with whatever
	// invalidations are pending and are first loaded AFTER it (by the observation).
	LoadEnd []string
	Ws      []c18W
	Users   []c18User
	Roles   []c18Role
}

// ---------- observations ----------
type c18Leaf struct {
	Rev string
	Del bool
	Ch  []string
}
type c18Doc struct {
	ID     int
	Cur    string
	Del    bool
	Ch     []string
	Access []string // "u1>C" / "role:r0>D"
	Roles  []string // "u1>r0"
	Seq    uint64
	Recent []uint64
	Leaves []c18Leaf
}
type c18UserObs struct {
	Name    string
	Ch      []string
	Roles   []string
	Vis     []int
	VisLeaf []string // "3|1-aaa"
}
type c18Obs struct {
	Docs  []c18Doc
	Users []c18UserObs
}

func c18Sorted(s []string) []string {
	o := append([]string{}, s...)
	sort.Strings(o)
	return o
}
func c18Grants(m UserAccessMap) []string {
	var out []string
	for name, ts := range m {
		for ch := range ts {
			out = append(out, name+">"+ch)
		}
	}
	sort.Strings(out)
	return out
}
func c18GrantCoq(gs []string) string {
	var it []string
	for _, g := range gs {
		p := strings.SplitN(g, ">", 2)
		if strings.HasPrefix(p[0], "role:") {
			it = append(it, "(PR "+cqN(c18Idx(strings.TrimPrefix(p[0], "role:")))+", "+cqN(c18Chan(p[1]))+")")
		} else {
			it = append(it, "(PU "+cqN(c18Idx(p[0]))+", "+cqN(c18Chan(p[1]))+")")
		}
	}
	return cqList(it)
}
func c18RoleGrantCoq(gs []string) string {
	var it []string
	for _, g := range gs {
		p := strings.SplitN(g, ">", 2)
		it = append(it, "("+cqN(c18Idx(p[0]))+", "+cqN(c18Idx(p[1]))+")")
	}
	return cqList(it)
}
func (d c18Doc) coq() string {
	var ls []string
	for _, l := range d.Leaves {
		ls = append(ls, "("+c18CqRev(l.Rev)+", "+cqBool(l.Del)+", "+c18Set(l.Ch, c18Chan)+")")
	}
	return fmt.Sprintf("(mkOD %d %s %s %s %s %s %d %s %s)", d.ID, c18CqRev(d.Cur), cqBool(d.Del), c18Set(d.Ch, c18Chan),
		c18GrantCoq(d.Access), c18RoleGrantCoq(d.Roles), d.Seq, cqNList(d.Recent), cqList(ls))
}
func (u c18UserObs) coq() string {
	vis := make([]uint64, 0, len(u.Vis))
	for _, v := range u.Vis {
		vis = append(vis, uint64(v))
	}
	var vl []string
	for _, s := range u.VisLeaf {
		p := strings.SplitN(s, "|", 2)
		vl = append(vl, "("+p[0]+", "+c18CqRev(p[1])+")")
	}
	return fmt.Sprintf("(mkOU %d %s %s %s %s)", c18Idx(u.Name), c18Set(u.Ch, c18Chan), c18Set(u.Roles, c18Idx), cqNList(vis), cqList(vl))
}
func (o c18Obs) coq() string {
	var ds, us []string
	for _, d := range o.Docs {
		ds = append(ds, d.coq())
	}
	for _, u := range o.Users {
		us = append(us, u.coq())
	}
	return "(mkODB " + cqList(ds) + " " + cqList(us) + ")"
}

// ---------- one real database ----------
type c18Env struct {
	t   *testing.T
	db  *Database
	ctx context.Context
	col *DatabaseCollectionWithUser
}

func c18NewEnv(t *testing.T, f c18F, c c18Case) *c18Env {
	opts := DefaultCacheOptions()
	db, ctx := SetupTestDBWithOptions(t, DatabaseContextOptions{AllowConflicts: base.Ptr(true), CacheOptions: &opts, BcryptCost: 4})
	col, ctx := GetSingleDatabaseCollectionWithUser(ctx, t, db)
	e := &c18Env{t: t, db: db, ctx: ctx, col: col}
	e.setFn(f)
	a := db.Authenticator(ctx)
	for _, r := range c.Roles {
		role, err := a.NewRole(r.Name, base.SetFromArray(r.Ch))
		if err == nil {
			err = a.Save(role)
		}
		if err != nil {
			t.Fatalf("c18 role %s: %v", r.Name, err)
		}
	}
	for _, u := range c.Users {
		user, err := a.NewUser(u.Name, "pass", base.SetFromArray(u.Ch))
		if err == nil {
			if len(u.Roles) > 0 {
				user.SetExplicitRoles(channels.AtSequence(base.SetFromArray(u.Roles), 1), 1)
			}
			err = a.Save(user)
		}
		if err != nil {
			t.Fatalf("c18 user %s: %v", u.Name, err)
		}
	}
	return e
}
func (e *c18Env) close() { e.db.Close(e.ctx) }
func (e *c18Env) setFn(f c18F) {
	if _, err := e.col.UpdateSyncFun(e.ctx, f.js()); err != nil {
		e.t.Fatalf("c18 sync function: %v", err)
	}
}
func (e *c18Env) put(w c18W) error {
	_, _, err := e.col.PutExistingRevWithBody(e.ctx, c18DocID(w.Doc), w.Body.body(w.Del), w.Hist, false, ExistingVersionWithUpdateToHLV)
	return err
}
func (e *c18Env) loadUsers(names []string) {
	a := e.db.Authenticator(e.ctx)
	for _, n := range names {
		if user, err := a.GetUser(n); err == nil && user != nil {
			_, _ = user.InheritedCollectionChannels(e.col.ScopeName, e.col.Name)
		}
	}
}

// pending invalidations of a user as stored in its document (read raw, without loading the user)
func (e *c18Env) pending(name string) (channels bool, roles bool) {
	var m map[string]any
	if _, err := e.db.MetadataStore.Get(e.ctx, e.db.MetadataKeys.UserKey(name), &m); err != nil {
		return false, false
	}
	var walk func(v any) bool
	walk = func(v any) bool {
		switch x := v.(type) {
		case map[string]any:
			for k, y := range x {
				if k == "channel_inval_seq" {
					if f, ok := y.(float64); ok && f != 0 {
						return true
					}
				}
				if walk(y) {
					return true
				}
			}
		}
		return false
	}
	if f, ok := m["role_inval_seq"].(float64); ok && f != 0 {
		roles = true
	}
	return walk(m), roles
}
func (e *c18Env) resync(regen bool) int64 {
	if err := e.db.ResyncManager.Start(e.ctx, ResyncOptions{Collections: base.NewCollectionNames(), RegenerateSequences: regen}); err != nil {
		e.t.Fatalf("c18 resync start: %v", err)
	}
	RequireBackgroundManagerState(e.t, e.db.ResyncManager, BackgroundProcessStateCompleted)
	var resp ResyncManagerResponseDCP
	raw, err := e.db.ResyncManager.GetStatus(e.ctx)
	if err == nil {
		err = base.JSONUnmarshal(raw, &resp)
	}
	if err != nil {
		e.t.Fatalf("c18 resync status: %v", err)
	}
	return resp.DocsChanged
}
func (e *c18Env) observe(c c18Case, ndocs int, withUsers bool) c18Obs {
	var o c18Obs
	docs := map[int]*Document{}
	for i := 0; i < ndocs; i++ {
		doc, err := e.col.GetDocument(e.ctx, c18DocID(i), DocUnmarshalAll)
		if err != nil || doc == nil {
			continue
		}
		docs[i] = doc
		od := c18Doc{ID: i, Cur: doc.GetRevTreeID(), Del: doc.IsDeleted(), Ch: c18Sorted(doc.getCurrentChannels().ToArray()),
			Access: c18Grants(doc.Access), Roles: c18Grants(doc.RoleAccess), Seq: doc.Sequence, Recent: append([]uint64{}, doc.RecentSequences...)}
		leaves := doc.History.GetLeaves()
		sort.Strings(leaves)
		for _, l := range leaves {
			ch, _ := doc.channelsForRevTreeID(l)
			od.Leaves = append(od.Leaves, c18Leaf{Rev: l, Del: doc.History[l].Deleted, Ch: c18Sorted(ch.ToArray())})
		}
		o.Docs = append(o.Docs, od)
	}
	if !withUsers {
		return o
	}
	a := e.db.Authenticator(e.ctx)
	for _, u := range c.Users {
		user, err := a.GetUser(u.Name)
		if err != nil || user == nil {
			e.t.Fatalf("c18 get user %s: %v", u.Name, err)
		}
		uo := c18UserObs{Name: u.Name}
		chs, err := user.InheritedCollectionChannels(e.col.ScopeName, e.col.Name)
		if err != nil {
			e.t.Fatalf("c18 channels of %s: %v", u.Name, err)
		}
		for _, k := range chs.AllKeys() {
			if k != channels.DocumentPublicChannel {
				uo.Ch = append(uo.Ch, k)
			}
		}
		sort.Strings(uo.Ch)
		uo.Roles = c18Sorted(user.RoleNames().AllKeys())
		ucol := &DatabaseCollectionWithUser{DatabaseCollection: e.col.DatabaseCollection, user: user}
		for i := 0; i < ndocs; i++ {
			doc := docs[i]
			if doc == nil {
				continue
			}
			if !doc.IsDeleted() && ucol.authorizeDoc(doc, "") == nil {
				uo.Vis = append(uo.Vis, i)
			}
			leaves := doc.History.GetLeaves()
			sort.Strings(leaves)
			for _, l := range leaves {
				if ucol.authorizeDoc(doc, l) == nil {
					uo.VisLeaf = append(uo.VisLeaf, fmt.Sprintf("%d|%s", i, l))
				}
			}
		}
		o.Users = append(o.Users, uo)
	}
	return o
}

// channels the CURRENT sync function of this database produces for the STORED body of a leaf (the real
// JS engine on the body the read path returns; a tombstone that was once current has lost its fields)
func (e *c18Env) evalLeafChannels(doc *Document, rev string) ([]string, bool) {
	bodyBytes, _, _, err := e.col.getRevision(e.ctx, doc, rev)
	if err != nil {
		return nil, false
	}
	var body Body
	if err := body.Unmarshal(bodyBytes); err != nil {
		return nil, false
	}
	body[BodyId] = doc.ID
	body[BodyRev] = rev
	if doc.History[rev].Deleted {
		body[BodyDeleted] = true
	}
	out, err := e.col.ChannelMapper.MapToChannelsAndAccess(e.ctx, body, "", nil, nil)
	if err != nil || out == nil {
		return nil, false
	}
	if out.Rejection != nil {
		return nil, true
	}
	return c18Sorted(out.Channels.ToArray()), true
}

// at most three recorded failures per signature, so that a known finding cannot crowd a new one out of the
// recorder's bounded list
type c18Failer struct {
	rec *vRecorder
	n   map[string]int
}

func (f *c18Failer) Fail(monitor, signature string, input any, detail string) {
	f.n[signature]++
	if f.n[signature] <= 3 {
		f.rec.Fail(monitor, signature, input, detail)
	}
}

func c18Eq(a, b []string) bool  { return strings.Join(a, ",") == strings.Join(b, ",") }
func c18EqU(a, b []uint64) bool { return fmt.Sprint(a) == fmt.Sprint(b) }
func c18EqI(a, b []int) bool    { return fmt.Sprint(a) == fmt.Sprint(b) }

// ---------- one case ----------
func c18Run(t *testing.T, rec *vRecorder, fl *c18Failer, stream string, c c18Case) {
	ndocs := 0
	for _, w := range c.Ws {
		if w.Doc+1 > ndocs {
			ndocs = w.Doc + 1
		}
	}
	desc := map[string]any{"f1": c.F1.js(), "f2": c.F2.js(), "regenerate_sequences": c.Regen, "users_loaded_before_resync": c.LoadEnd,
		"writes": c.Ws, "users": c.Users, "roles": c.Roles}

	// database 1: written under f1, switched to f2, resynced
	e1 := c18NewEnv(t, c.F1, c)
	okOld := map[int]bool{}
	docBad := map[int]bool{}
	switched := false
	for i, w := range c.Ws {
		if w.Second && !switched {
			e1.setFn(c.F2)
			switched = true
		}
		e1.loadUsers(w.LoadBefore)
		if len(w.LoadBefore) > 0 {
			rec.Err("load_between_writes")
		}
		if err := e1.put(w); err != nil {
			docBad[w.Doc] = true
			rec.Err("put_old:rejected")
		} else {
			okOld[i] = true
			rec.Err("put_old:ok")
		}
	}
	if !switched {
		e1.setFn(c.F2)
	}
	e1.loadUsers(c.LoadEnd)
	before := e1.observe(c, ndocs, false)
	pendCh, pendRl := map[string]bool{}, map[string]bool{}
	for _, u := range c.Users {
		pendCh[u.Name], pendRl[u.Name] = e1.pending(u.Name)
		rec.Err(fmt.Sprintf("pre_resync_user:channels_pending=%v,roles_pending=%v", pendCh[u.Name], pendRl[u.Name]))
	}
	changed1 := e1.resync(c.Regen)
	e1.db.FlushRevisionCacheForTest()
	after1 := e1.observe(c, ndocs, true)
	changed2 := e1.resync(false)
	after2 := e1.observe(c, ndocs, true)
	// what the new function produces for every stored leaf (real JS engine of database 1, now running f2)
	leafWant := map[string][]string{}
	leafW := map[string]c18W{}
	for _, w := range c.Ws {
		leafW[fmt.Sprintf("%d|%s", w.Doc, w.Rev)] = w
	}
	for _, d := range after1.Docs {
		doc, err := e1.col.GetDocument(e1.ctx, c18DocID(d.ID), DocUnmarshalAll)
		if err != nil {
			continue
		}
		for _, l := range d.Leaves {
			if want, ok := e1.evalLeafChannels(doc, l.Rev); ok {
				leafWant[fmt.Sprintf("%d|%s", d.ID, l.Rev)] = want
			}
		}
	}
	e1.close()

	// database 2: the same revisions under f2 from the start
	e2 := c18NewEnv(t, c.F2, c)
	for _, w := range c.Ws {
		if err := e2.put(w); err != nil {
			docBad[w.Doc] = true
			rec.Err("put_fresh:rejected")
		} else {
			rec.Err("put_fresh:ok")
		}
	}
	fresh := e2.observe(c, ndocs, true)
	e2.close()

	// ---------------- Coq case ----------------
	var ws1, ws2, us, rs []string
	for _, w := range c.Ws {
		if w.Second {
			ws2 = append(append(ws2, c18LoadsCoq(w.LoadBefore)...), w.coq())
		} else {
			ws1 = append(append(ws1, c18LoadsCoq(w.LoadBefore)...), w.coq())
		}
	}
	ws2 = append(ws2, c18LoadsCoq(c.LoadEnd)...)
	for _, u := range c.Users {
		us = append(us, "("+cqN(c18Idx(u.Name))+", "+c18Set(u.Ch, c18Chan)+", "+c18Set(u.Roles, c18Idx)+")")
	}
	for _, r := range c.Roles {
		rs = append(rs, "("+cqN(c18Idx(r.Name))+", "+c18Set(r.Ch, c18Chan)+")")
	}
	coq := fmt.Sprintf("CResync %s %s %s %s %s %s %s %s %d %s %d %s %s", c.F1.coq(), c.F2.coq(), cqBool(c.Regen), cqList(ws1), cqList(ws2),
		cqList(us), cqList(rs), before.coq(), changed1, after1.coq(), changed2, after2.coq(), fresh.coq())

	// ---------------- monitors (reflections of the theorem statements on the implementation's outputs) ----------------
	find := func(o c18Obs, id int) *c18Doc {
		for i := range o.Docs {
			if o.Docs[i].ID == id {
				return &o.Docs[i]
			}
		}
		return nil
	}
	nontrivial := false
	conflicted := false
	tombDiverged := false
	allOK := len(docBad) == 0
	for _, d := range after1.Docs {
		b := find(before, d.ID)
		if b != nil && (!c18Eq(b.Ch, d.Ch) || !c18Eq(b.Access, d.Access) || !c18Eq(b.Roles, d.Roles)) {
			nontrivial = true
		}
		if len(d.Leaves) > 1 {
			conflicted = true
		}
		f := find(fresh, d.ID)
		in := map[string]any{"case": desc, "doc": c18DocID(d.ID), "resynced": d, "fresh": f}
		if !docBad[d.ID] && f != nil {
			if d.Cur != f.Cur || d.Del != f.Del {
				fl.Fail("harness_sanity", "c18-harness-trees-differ", in, "the two databases do not hold the same revision tree")
			} else if !d.Del {
				// resync_winner_channels_eq_fresh / resync_access_eq_fresh
				if !c18Eq(d.Ch, f.Ch) {
					fl.Fail("resync_winner_channels_eq_fresh", "resync-winner-channels", in, fmt.Sprintf("channels after resync %v, fresh database %v", d.Ch, f.Ch))
				}
				if !c18Eq(d.Access, f.Access) || !c18Eq(d.Roles, f.Roles) {
					fl.Fail("resync_access_eq_fresh", "resync-doc-grants", in, fmt.Sprintf("grants after resync %v %v, fresh database %v %v", d.Access, d.Roles, f.Access, f.Roles))
				}
			} else if !c18Eq(d.Ch, f.Ch) || !c18Eq(d.Access, f.Access) || !c18Eq(d.Roles, f.Roles) {
				// tomb_agree does not hold for this pair of functions: resync never visits a tombstoned document
				tombDiverged = true
				fl.Fail("resync_tombstone_eq_fresh", "resync-tombstone-not-revisited", in,
					fmt.Sprintf("tombstoned document keeps the old function's channels %v / grants %v %v; fresh database has %v / %v %v", d.Ch, d.Access, d.Roles, f.Ch, f.Access, f.Roles))
			}
		}
		if !d.Del {
			// resync_leaf_channels_eq_fresh: every non-winning leaf carries what the new function produces for it
			for _, l := range d.Leaves {
				want, known := leafWant[fmt.Sprintf("%d|%s", d.ID, l.Rev)]
				if l.Rev == d.Cur || !known {
					continue
				}
				if !c18Eq(l.Ch, want) {
					fl.Fail("resync_leaf_channels_eq_fresh", "resync-nonwinning-leaf-channels", in,
						fmt.Sprintf("leaf %s has channels %v after resync; the new function produces %v", l.Rev, l.Ch, want))
				}
			}
			// a winner rejected by the new function ends with no channels and no grants
			if w, ok := leafW[fmt.Sprintf("%d|%s", d.ID, d.Cur)]; ok && c.F2.Rej != 0 && w.Body.X && (len(d.Ch) > 0 || len(d.Access) > 0 || len(d.Roles) > 0) {
				fl.Fail("resync_rejected_hidden", "resync-rejected-doc-keeps-grants", in,
					fmt.Sprintf("document rejected by the new function keeps channels %v / grants %v %v", d.Ch, d.Access, d.Roles))
			}
		}
		// resync_regen_sequences_increase
		if b != nil {
			if c.Regen && !d.Del {
				inRecent := false
				for _, s := range d.Recent {
					if s == d.Seq {
						inRecent = true
					}
				}
				sub := true
				for _, s := range b.Recent {
					ok := false
					for _, s2 := range d.Recent {
						if s2 == s {
							ok = true
						}
					}
					sub = sub && ok
				}
				if d.Seq <= b.Seq || !inRecent || !sub {
					fl.Fail("resync_regen_sequences_increase", "resync-regen-sequences", in, fmt.Sprintf("sequence %d -> %d, recent %v -> %v", b.Seq, d.Seq, b.Recent, d.Recent))
				}
				for _, d2 := range before.Docs {
					if d2.Seq >= d.Seq {
						fl.Fail("resync_regen_sequences_increase", "resync-regen-sequences", in, fmt.Sprintf("regenerated sequence %d not above existing sequence %d", d.Seq, d2.Seq))
					}
				}
			} else if d.Seq != b.Seq || !c18EqU(d.Recent, b.Recent) {
				fl.Fail("resync_regen_sequences_increase", "resync-sequence-changed", in, fmt.Sprintf("sequence changed without regenerate_sequences (or on a tombstone): %d -> %d", b.Seq, d.Seq))
			}
		}
	}
	if c.Regen {
		seen := map[uint64]bool{}
		for _, d := range after1.Docs {
			if !d.Del {
				if seen[d.Seq] {
					fl.Fail("resync_regen_sequences_increase", "resync-regen-sequences", map[string]any{"case": desc}, fmt.Sprintf("sequence %d assigned twice", d.Seq))
				}
				seen[d.Seq] = true
			}
		}
	}
	// resync_idempotent
	if changed2 != 0 || after1.coq() != after2.coq() {
		fl.Fail("resync_idempotent", "resync-not-idempotent", map[string]any{"case": desc, "docs_changed_second_run": changed2, "after_first": after1, "after_second": after2},
			"the second resync run changed something")
	}
	// resync_principals_eq_fresh / resync_visible_eq_fresh (hypotheses: every write accepted by both functions, tomb_agree)
	if allOK && !tombDiverged {
		for i, u := range after1.Users {
			f := fresh.Users[i]
			in := map[string]any{"case": desc, "user": u.Name, "resynced": u, "fresh": f}
			sig := "resync-principals-stale"
			if c.Regen {
				sig = "resync-regen-principals-not-invalidated"
			}
			if pendCh[u.Name] && !pendRl[u.Name] && !c18Eq(u.Roles, f.Roles) {
				// the user reached the resync with its computed channels already invalidated (an access() write
				// after its last load) and its computed roles still valid; it was first loaded after the resync
				sig = "resync-stale-role-grants-after-pending-channel-invalidation"
			}
			in["channels_pending_before_resync"] = pendCh[u.Name]
			in["roles_pending_before_resync"] = pendRl[u.Name]
			if !c18Eq(u.Ch, f.Ch) || !c18Eq(u.Roles, f.Roles) {
				fl.Fail("resync_principals_eq_fresh", sig, in, fmt.Sprintf("effective channels %v roles %v after resync; fresh database %v %v", u.Ch, u.Roles, f.Ch, f.Roles))
			} else if !c18EqI(u.Vis, f.Vis) {
				fl.Fail("resync_visible_eq_fresh", "resync-visible-set", in, fmt.Sprintf("visible documents %v after resync; fresh database %v", u.Vis, f.Vis))
			}
		}
	}
	rec.Size(fmt.Sprintf("docs=%d", len(after1.Docs)))
	rec.Case(stream, "resync", coq, desc, nontrivial || conflicted)
}

// ---------- generators ----------
func c18GenBody(r *vRand, rich bool) c18B {
	pick := func(opts []string, pctEmpty int) string {
		if r.Chance(pctEmpty) {
			return ""
		}
		return opts[r.Intn(len(opts))]
	}
	chs := []string{"A", "B", "C", "D"}
	gch := []string{"C", "D", "E", "F"}
	us := []string{"u0", "u1", "u2"}
	rl := []string{"r0", "r1"}
	b := c18B{A: pick(chs, 15), B: pick(chs, 15)}
	if rich || r.Chance(50) {
		b.U, b.GA, b.GB = pick(us, 20), pick(gch, 10), pick(gch, 10)
	}
	if rich || r.Chance(35) {
		b.R, b.RA, b.RB = pick(us, 20), pick(rl, 10), pick(rl, 10)
	}
	if r.Chance(30) {
		b.TR = pick(rl, 0)
		if b.GA == "" {
			b.GA = pick(gch, 0)
		}
	}
	b.X = r.Chance(15)
	return b
}
func c18GenF(r *vRand, allowRej, allowConst bool) c18F {
	f := c18F{CA: r.Chance(60), CB: r.Chance(50), G: r.Intn(3), RG: r.Intn(3), R: r.Intn(3)}
	if r.Chance(30) {
		f.RG = 0
	}
	if allowConst {
		f.CK = r.Chance(15)
		f.KG = r.Chance(15)
	}
	if allowRej && r.Chance(40) {
		f.Rej = 1 + r.Intn(2)
	}
	return f
}

type c18Node struct {
	rev    string
	parent int // index, -1 for a root
	leaf   bool
	del    bool
}

// a random history of one document: roots, children, branches, tombstones, resurrections
func c18GenDoc(r *vRand, doc, steps int, tombBodies bool, second func() bool) []c18W {
	var nodes []c18Node
	used := map[string]bool{}
	var out []c18W
	hist := func(i int) []string {
		var h []string
		for i >= 0 {
			h = append(h, nodes[i].rev)
			i = nodes[i].parent
		}
		return h
	}
	gen := func(i int) int {
		g, _ := c18Rev(nodes[i].rev)
		return int(g)
	}
	add := func(parent int, del bool) {
		g := 1
		if parent >= 0 {
			g = gen(parent) + 1
		}
		rev := ""
		for k := 0; k < 20; k++ {
			rev = c18RevStr(g, 1+r.Intn(5))
			if !used[rev] {
				break
			}
		}
		if used[rev] {
			return
		}
		used[rev] = true
		if parent >= 0 {
			nodes[parent].leaf = false
		}
		nodes = append(nodes, c18Node{rev: rev, parent: parent, leaf: true, del: del})
		b := c18GenBody(r, false)
		if del && !(tombBodies && r.Chance(50)) {
			b = c18B{}
		}
		out = append(out, c18W{Doc: doc, Rev: rev, Hist: hist(len(nodes) - 1), Body: b, Del: del, Second: second()})
	}
	add(-1, false)
	for s := 1; s < steps; s++ {
		var leaves, inner []int
		for i, n := range nodes {
			if n.leaf {
				leaves = append(leaves, i)
			} else {
				inner = append(inner, i)
			}
		}
		switch k := r.Intn(10); {
		case k < 4: // child of a leaf (possibly a tombstone, possibly a resurrection of a deleted leaf)
			add(leaves[r.Intn(len(leaves))], r.Chance(30))
		case k < 6 && len(inner) > 0 && len(leaves) < 3: // new branch from an interior revision
			add(inner[r.Intn(len(inner))], r.Chance(15))
		case k < 8 && len(leaves) < 3: // conflicting root
			add(-1, false)
		default:
			add(leaves[r.Intn(len(leaves))], r.Chance(50))
		}
	}
	return out
}

func c18GenPrincipals(r *vRand) ([]c18User, []c18Role) {
	all := []string{"A", "B", "C", "D", "E", "F"}
	sub := func(n int) []string {
		var o []string
		for _, c := range all {
			if r.Intn(6) < n {
				o = append(o, c)
			}
		}
		return o
	}
	var us []c18User
	for i := 0; i < 3; i++ {
		u := c18User{Name: fmt.Sprintf("u%d", i), Ch: sub(1)}
		for j := 0; j < 2; j++ {
			if r.Chance(25) {
				u.Roles = append(u.Roles, fmt.Sprintf("r%d", j))
			}
		}
		us = append(us, u)
	}
	rs := []c18Role{{Name: "r0", Ch: sub(1)}, {Name: "r1", Ch: sub(1)}}
	return us, rs
}

func c18GenCase(r *vRand, adversarial bool) c18Case {
	c := c18Case{F1: c18GenF(r, adversarial, adversarial), F2: c18GenF(r, adversarial, adversarial), Regen: r.Chance(40)}
	c.Users, c.Roles = c18GenPrincipals(r)
	ndocs := 1 + r.Intn(6)
	if r.Chance(20) {
		ndocs = 7 + r.Intn(2)
	}
	late := r.Chance(30)
	for d := 0; d < ndocs; d++ {
		steps := 1 + r.Intn(4)
		seenSecond := false
		ws := c18GenDoc(r, d, steps, adversarial, func() bool {
			// once a write of this document is after the switch, all later ones are too (histories stay in order)
			if late && (seenSecond || r.Chance(25)) {
				seenSecond = true
			}
			return seenSecond
		})
		c.Ws = append(c.Ws, ws...)
	}
	// writes after the switch come after every write before it
	sort.SliceStable(c.Ws, func(i, j int) bool { return !c.Ws[i].Second && c.Ws[j].Second })
	// user loads: between writes, and (for all / some / none of the users) after the last write
	for i := range c.Ws {
		if r.Chance(20) {
			c.Ws[i].LoadBefore = []string{fmt.Sprintf("u%d", r.Intn(3))}
		}
	}
	switch k := r.Intn(10); {
	case k < 5:
		c.LoadEnd = []string{"u0", "u1", "u2"}
	case k < 8:
		for i := 0; i < 3; i++ {
			if r.Chance(50) {
				c.LoadEnd = append(c.LoadEnd, fmt.Sprintf("u%d", i))
			}
		}
	}
	return c
}

// the pending-invalidation scenario: a role() grant for user [who] exists and the user is loaded; then a
// document grants the user access() (computed channels invalidated, computed roles still valid); the function
// changes so that the role() grant changes; the resync runs WITHOUT the user being loaded in between; the
// user is first loaded afterwards.
func c18PendingCase(r *vRand, who int, regen bool, variant int) c18Case {
	u := fmt.Sprintf("u%d", who)
	c := c18Case{F1: c18F{CA: true, G: 1, R: 1}, F2: c18F{CB: true, G: 2, R: 2}, Regen: regen}
	c.Users = []c18User{{Name: "u0", Ch: []string{"A"}}, {Name: "u1"}, {Name: "u2", Ch: []string{"B"}, Roles: []string{"r1"}}}
	c.Roles = []c18Role{{Name: "r0", Ch: []string{"E"}}, {Name: "r1", Ch: []string{"F"}}}
	roleDoc := c18W1(0, []string{"1-aaa"}, c18B{A: "A", B: "B", R: u, RA: "r0", RB: "r1"}, false)
	accDoc := c18W1(1, []string{"1-aaa"}, c18B{A: "A", B: "C", U: u, GA: "C", GB: "D"}, false)
	accDoc.LoadBefore = []string{u}
	c.Ws = []c18W{roleDoc, accDoc}
	switch variant {
	case 1: // more documents around, other users loaded before the resync
		c.Ws = append(c.Ws, c18GenDoc(r, 2, 1+r.Intn(3), false, func() bool { return false })...)
		for i := 0; i < 3; i++ {
			if i != who {
				c.LoadEnd = append(c.LoadEnd, fmt.Sprintf("u%d", i))
			}
		}
	case 2: // the access() grant is a later revision of the document that carries the role() grant
		acc2 := c18W1(0, []string{"2-bbb", "1-aaa"}, c18B{A: "A", B: "B", R: u, RA: "r0", RB: "r1", U: u, GA: "C", GB: "D"}, false)
		acc2.LoadBefore = []string{u}
		c.Ws = []c18W{roleDoc, acc2}
	case 3: // both computed sets pending: the role() grant is also written after the last load
		c.Ws = []c18W{accDoc, roleDoc}
	}
	return c
}

func c18W1(doc int, hist []string, b c18B, del bool) c18W {
	return c18W{Doc: doc, Rev: hist[0], Hist: hist, Body: b, Del: del}
}

// the fixed small corpus of the exhaustive stream: one document of every shape the property names
func c18ShapeCorpus() []c18W {
	return []c18W{
		c18W1(0, []string{"1-ccc"}, c18B{A: "A", B: "A"}, false), // conflict, winner written first
		c18W1(0, []string{"1-aaa"}, c18B{A: "A", B: "B"}, false),
		c18W1(1, []string{"1-aaa"}, c18B{A: "A", B: "B"}, false), // conflict, winner written last
		c18W1(1, []string{"1-ccc"}, c18B{A: "A", B: "A"}, false),
		c18W1(2, []string{"1-aaa"}, c18B{A: "A", B: "B", U: "u1", GA: "C", GB: "D", R: "u1", RA: "r0", RB: "r1", TR: "r0"}, false), // grants
		c18W1(3, []string{"1-aaa"}, c18B{A: "A", B: "B", U: "u2", GA: "E", GB: "F"}, false),                                        // deleted later (plain tombstone)
		c18W1(3, []string{"2-aaa", "1-aaa"}, c18B{}, true),
		c18W1(4, []string{"1-aaa"}, c18B{A: "C", B: "D", X: true, U: "u0", GA: "C", GB: "D", R: "u2", RA: "r0", RB: "r1"}, false), // rejected by the rejecting function
		c18W1(5, []string{"1-aaa"}, c18B{A: "A"}, false),                                                                          // two generations, one branch tombstoned: an old leaf becomes current
		c18W1(5, []string{"2-bbb", "1-aaa"}, c18B{A: "B", B: "C"}, false),
		c18W1(5, []string{"2-aaa", "1-aaa"}, c18B{A: "D", B: "A", U: "u0", GA: "E", GB: "F"}, false),
		c18W1(5, []string{"3-bbb", "2-bbb", "1-aaa"}, c18B{A: "C", B: "D"}, true),
	}
}

func TestVerifC18(t *testing.T) {
	rec := vNewRecorder(t, "C18", "C18.C18_Corr")
	defer rec.Finish()
	rnd := vNewRand(vSeed())
	fl := &c18Failer{rec: rec, n: map[string]int{}}
	defer func() { rec.Extra("monitor_failures_by_signature", fl.n) }()
	if os.Getenv("VERIF_C18_ONLY") == "run" { // development aid: only the streams of verif_c18_run_test.go
		c18RunStreams(t, rec, fl, rnd)
		return
	}
	allUsers := []string{"u0", "u1", "u2"}
	users := []c18User{{Name: "u0", Ch: []string{"A"}, Roles: []string{"r1"}}, {Name: "u1"}, {Name: "u2", Ch: []string{"B"}}}
	roles := []c18Role{{Name: "r0", Ch: []string{"E"}}, {Name: "r1", Ch: []string{"F"}}}

	// ---- (a) corpus: the recorded defect (DESIGN section 6 item 4) and the shapes found while building C18 ----
	fa := c18F{CA: true, G: 1, R: 1}
	fb := c18F{CB: true, G: 2, R: 2}
	leafOnly := []c18W{c18W1(0, []string{"1-zzz"}, c18B{A: "A", B: "A"}, false), c18W1(0, []string{"1-aaa"}, c18B{A: "A", B: "B"}, false)}
	c18Run(t, rec, fl, "corpus", c18Case{F1: c18F{CA: true}, F2: c18F{CB: true}, LoadEnd: allUsers, Ws: leafOnly, Users: users, Roles: roles})
	c18Run(t, rec, fl, "corpus", c18Case{F1: fa, F2: fb, Regen: true, LoadEnd: allUsers, Ws: c18ShapeCorpus(), Users: users, Roles: roles})
	c18Run(t, rec, fl, "corpus", c18Case{F1: fa, F2: fb, Regen: false, LoadEnd: allUsers, Ws: c18ShapeCorpus(), Users: users, Roles: roles})
	c18Run(t, rec, fl, "corpus", c18Case{F1: fa, F2: fa, Regen: false, LoadEnd: allUsers, Ws: c18ShapeCorpus(), Users: users, Roles: roles}) // unchanged function

	// ---- (b) bounded-exhaustive: all ordered pairs of a small function set x regenerate_sequences on the shape corpus ----
	fset := []c18F{fa, fb, {CA: true, CB: true, RG: 1}, {CB: true, G: 2, R: 2, Rej: 2}}
	pairs := 0
	for i, f1 := range fset {
		for j, f2 := range fset {
			if i == j {
				continue
			}
			for _, regen := range []bool{false, true} {
				if !vThorough() && uint64(i*4+j+map[bool]int{false: 0, true: 1}[regen])%2 != vSeed()%2 {
					continue // quick tier: half of the pairs per run (the other half with the other seed parity)
				}
				loadEnd := allUsers
				if (i+j)%2 == 1 {
					loadEnd = nil // nobody loaded between the writes and the end of the resync
				}
				c18Run(t, rec, fl, "exhaustive", c18Case{F1: f1, F2: f2, Regen: regen, LoadEnd: loadEnd, Ws: c18ShapeCorpus(), Users: users, Roles: roles})
				pairs++
			}
		}
	}
	rec.Extra("function_pairs_on_shape_corpus", pairs)

	// ---- (b') pending invalidations: every user x regenerate on/off x four variants of the scenario ----
	for who := 0; who < 3; who++ {
		for _, regen := range []bool{false, true} {
			for variant := 0; variant < 4; variant++ {
				if !vThorough() && uint64(who+variant+map[bool]int{false: 0, true: 1}[regen])%2 != vSeed()%2 && variant != 0 {
					continue // quick tier: variant 0 always, half of the others per seed parity
				}
				c18Run(t, rec, fl, "pending", c18PendingCase(rnd, who, regen, variant))
			}
		}
	}

	// ---- (c) random: structured stream (no rejections, plain tombstones) and adversarial stream ----
	n := vBudget(52, 1000)
	for i := 0; i < n; i++ {
		c18Run(t, rec, fl, "random", c18GenCase(rnd, false))
	}
	m := vBudget(24, 400)
	for i := 0; i < m; i++ {
		c18Run(t, rec, fl, "adversarial", c18GenCase(rnd, true))
	}

	// ---- (d) the run as an interruptible process: verif_c18_run_test.go ----
	c18RunStreams(t, rec, fl, rnd)
}
