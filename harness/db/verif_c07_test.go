//go:build verif

package db

import (
	"context"
	"encoding/binary"
	"fmt"
	"math"
	"sort"
	"strconv"
	"strings"
	"sync"
	"testing"
	"time"

	"github.com/couchbase/sync_gateway/base"
)

// C07 correspondence + monitors on real sequenceAllocators (1..3) sharing one rosmar datastore.
//
// An op of the Coq model (coq/theories/C07/Allocator.v) is executed on the real allocator:
//   Next i f          al[i].nextSequence
//   NextDiscard i f   al[i].nextSequence then al[i].releaseSequence(that number)
//   GTBegin i x f     go al[i].nextSequenceGreaterThan(x); the call either returns, or parks inside its
//                     getSequence (the allocator's datastore is a decorator whose counter read blocks
//                     AFTER the read was done) -- the allocator's mutex is then held
//   GTEnd i f         let the parked call continue to its Incr and return
//   ReleaseIdle i     al[i].releaseUnusedSequences (what the idle timer calls; the timer itself is
//                     disabled by a 24h releaseSequenceWait)
//   Stop i            al[i].Stop
//   EnvIncr k         a direct Incr of the counter document
// [fast] is made real by setting MaxSequenceIncrFrequency to an hour (every reserve after the first is
// "too frequent") or to zero (never).  Ops of other allocators issued between GTBegin and GTEnd really run
// between the read and the increment of the parked call.

type c07Op struct {
	Kind string `json:"op"` // next disc gtb gte idle stop env
	I    int    `json:"i"`
	X    uint64 `json:"x,omitempty"`
	Fast bool   `json:"fast,omitempty"`
	K    uint64 `json:"k,omitempty"`
}

func (o c07Op) coq() string {
	i := cqI(o.I)
	f := cqBool(o.Fast)
	switch o.Kind {
	case "next":
		return "Next " + i + " " + f
	case "disc":
		return "NextDiscard " + i + " " + f
	case "gtb":
		return "GTBegin " + i + " " + cqN(o.X) + " " + f
	case "gte":
		return "GTEnd " + i + " " + f
	case "idle":
		return "ReleaseIdle " + i
	case "stop":
		return "Stop " + i
	case "env":
		return "EnvIncr " + cqN(o.K)
	}
	panic("c07: bad op " + o.Kind)
}
func (o c07Op) String() string {
	switch o.Kind {
	case "gtb":
		return fmt.Sprintf("gtb(%d,%d,%v)", o.I, o.X, o.Fast)
	case "env":
		return fmt.Sprintf("env(%d)", o.K)
	case "idle", "stop":
		return fmt.Sprintf("%s(%d)", o.Kind, o.I)
	}
	return fmt.Sprintf("%s(%d,%v)", o.Kind, o.I, o.Fast)
}

type c07Obs struct {
	Hand    *uint64     `json:"hand,omitempty"`
	Err     bool        `json:"err,omitempty"`
	Ranges  [][2]uint64 `json:"ranges,omitempty"`
	Ones    []uint64    `json:"ones,omitempty"`
	Counter uint64      `json:"counter"`
	Parked  bool        `json:"parked,omitempty"`
}

func (o c07Obs) coq() string {
	var rs []string
	for _, r := range o.Ranges {
		rs = append(rs, "("+cqN(r[0])+","+cqN(r[1])+")")
	}
	return "OB " + cqOptN(o.Hand) + " " + cqBool(o.Err) + " " + cqList(rs) + " " + cqNList(o.Ones) + " " + cqN(o.Counter) + " " + cqBool(o.Parked)
}

type c07Write struct {
	key   string
	body  []byte
	added bool
	err   error
}

// datastore decorator given to allocator id
type c07Store struct {
	base.DataStore
	w  *c07World
	id int
}

func (s *c07Store) Incr(ctx context.Context, k string, amt, def uint64, exp uint32) (uint64, error) {
	v, err := s.DataStore.Incr(ctx, k, amt, def, exp)
	if amt == 0 && k == s.w.keys.SyncSeqKey() {
		s.w.mu.Lock()
		armed := s.w.armed[s.id]
		s.w.mu.Unlock()
		if armed {
			s.w.parkedCh[s.id] <- struct{}{}
			<-s.w.resume[s.id]
		}
	}
	return v, err
}

func (s *c07Store) AddRaw(ctx context.Context, k string, exp uint32, v []byte) (bool, error) {
	added, err := s.DataStore.AddRaw(ctx, k, exp, v)
	s.w.mu.Lock()
	s.w.writes = append(s.w.writes, c07Write{key: k, body: append([]byte(nil), v...), added: added, err: err})
	s.w.mu.Unlock()
	return added, err
}

type c07Res struct {
	seq uint64
	err error
}

type c07Claim struct {
	lo, hi uint64
	what   string
	step   int
}

type c07World struct {
	t        *testing.T
	rec      *vRecorder
	ctx      context.Context
	under    base.DataStore
	keys     *base.MetadataKeys
	stats    *base.DatabaseStats
	n        int
	al       []*sequenceAllocator
	mu       sync.Mutex
	writes   []c07Write
	armed    []bool
	parkedCh []chan struct{}
	resume   []chan struct{}
	done     []chan c07Res
	parked   []bool
	parkedX  []uint64
	stopped  []bool
	// history
	ops      []c07Op
	obs      []c07Obs
	allKeys  []string
	claims   []c07Claim
	lastHand []uint64
	reserved bool
	released bool
	failed   bool
	stream   string
	// principal world: several attempts of one UpdatePrincipal call are observed together
	deferAccounting bool
}

var c07CaseNo int
var c07Seen = map[string]bool{}

func c07NewWorld(t *testing.T, rec *vRecorder, ctx context.Context, under base.DataStore, stats *base.DatabaseStats, n int, stream string) *c07World {
	c07CaseNo++
	w := &c07World{t: t, rec: rec, ctx: ctx, under: under, stats: stats, n: n, stream: stream,
		keys: base.NewMetadataKeys(fmt.Sprintf("c07v%d", c07CaseNo))}
	w.armed = make([]bool, n)
	w.parked = make([]bool, n)
	w.parkedX = make([]uint64, n)
	w.stopped = make([]bool, n)
	w.lastHand = make([]uint64, n)
	for i := 0; i < n; i++ {
		w.parkedCh = append(w.parkedCh, make(chan struct{}))
		w.resume = append(w.resume, make(chan struct{}))
		w.done = append(w.done, make(chan c07Res, 1))
		a, err := newSequenceAllocator(ctx, &c07Store{DataStore: under, w: w, id: i}, stats, w.keys)
		if err != nil {
			t.Fatalf("c07: newSequenceAllocator: %v", err)
		}
		// the idle-release timer must never fire during a run: the release is an explicit op
		a.releaseSequenceWait = 24 * time.Hour
		w.al = append(w.al, a)
	}
	return w
}

func (w *c07World) counter() uint64 {
	v, err := w.under.Incr(w.ctx, w.keys.SyncSeqKey(), 0, 0, 0)
	if err != nil {
		w.t.Fatalf("c07: read counter: %v", err)
	}
	return v
}

func (w *c07World) window(i int) (last, max, batch uint64) {
	a := w.al[i]
	if w.parked[i] {
		// mutex is held by the parked call, which does not touch the fields while parked
		return a.last, a.max, a.sequenceBatchSize
	}
	a.mutex.Lock()
	defer a.mutex.Unlock()
	return a.last, a.max, a.sequenceBatchSize
}

func (w *c07World) valid(o c07Op) bool {
	if o.Kind == "env" {
		return true
	}
	if o.I < 0 || o.I >= w.n || w.stopped[o.I] {
		return false
	}
	if o.Kind == "gte" {
		return w.parked[o.I]
	}
	return !w.parked[o.I]
}

func c07SetFast(f bool) {
	if f {
		MaxSequenceIncrFrequency = time.Hour
	} else {
		MaxSequenceIncrFrequency = 0
	}
}

func (w *c07World) input() any {
	var s []string
	for _, o := range w.ops {
		s = append(s, o.String())
	}
	return map[string]any{"allocators": w.n, "ops": s, "ops_json": w.ops}
}

func (w *c07World) fail(monitor, sig, detail string) {
	w.failed = true
	w.rec.Fail(monitor, sig, w.input(), detail)
}

// decode an unused-sequence document: from its key (what the change cache reads) and from its body
func (w *c07World) decode(wr c07Write) (lo, hi uint64, single bool, ok bool) {
	if rest, found := strings.CutPrefix(wr.key, w.keys.UnusedSeqRangePrefix()); found {
		parts := strings.Split(rest, ":")
		if len(parts) != 2 {
			return 0, 0, false, false
		}
		a, e1 := strconv.ParseUint(parts[0], 10, 64)
		b, e2 := strconv.ParseUint(parts[1], 10, 64)
		if e1 != nil || e2 != nil {
			return 0, 0, false, false
		}
		if len(wr.body) != 16 || binary.LittleEndian.Uint64(wr.body[:8]) != a || binary.LittleEndian.Uint64(wr.body[8:]) != b {
			w.fail("release_doc_body", "release-doc-body", fmt.Sprintf("key %s does not agree with its body %v", wr.key, wr.body))
		}
		return a, b, false, true
	}
	if rest, found := strings.CutPrefix(wr.key, w.keys.UnusedSeqPrefix()); found {
		a, e1 := strconv.ParseUint(rest, 10, 64)
		if e1 != nil {
			return 0, 0, false, false
		}
		if len(wr.body) != 8 || binary.LittleEndian.Uint64(wr.body) != a {
			w.fail("release_doc_body", "release-doc-body", fmt.Sprintf("key %s does not agree with its body %v", wr.key, wr.body))
		}
		return a, a, true, true
	}
	return 0, 0, false, false
}

func (w *c07World) claim(lo, hi uint64, what string) {
	step := len(w.ops) - 1
	for _, c := range w.claims {
		if lo <= c.hi && c.lo <= hi {
			w.fail("alloc_unique", "overlap:"+c07Kind(c.what)+"/"+c07Kind(what),
				fmt.Sprintf("step %d: %s [%d,%d] overlaps %s [%d,%d] of step %d", step, what, lo, hi, c.what, c.lo, c.hi, c.step))
		}
	}
	w.claims = append(w.claims, c07Claim{lo, hi, what, step})
}
func c07Kind(what string) string { return strings.SplitN(what, " ", 2)[0] }

// exec runs one op on the implementation, observes, and evaluates the per-step monitors
func (w *c07World) exec(o c07Op) c07Obs {
	w.mu.Lock()
	w.writes = nil
	w.mu.Unlock()
	var res *c07Res
	var envBefore uint64
	a := (*sequenceAllocator)(nil)
	if o.Kind != "env" {
		a = w.al[o.I]
	}
	switch o.Kind {
	case "next", "disc":
		c07SetFast(o.Fast)
		s, err := a.nextSequence(w.ctx)
		res = &c07Res{s, err}
		if err == nil && o.Kind == "disc" {
			if rerr := a.releaseSequence(w.ctx, s); rerr != nil {
				w.ops = append(w.ops, o)
				w.fail("release_error", "release-error", fmt.Sprintf("releaseSequence(%d): %v", s, rerr))
				w.ops = w.ops[:len(w.ops)-1]
			}
		}
	case "gtb":
		c07SetFast(o.Fast)
		w.mu.Lock()
		w.armed[o.I] = true
		w.mu.Unlock()
		go func(i int, x uint64) {
			s, _, err := w.al[i].nextSequenceGreaterThan(w.ctx, x)
			w.done[i] <- c07Res{s, err}
		}(o.I, o.X)
		select {
		case <-w.parkedCh[o.I]:
			w.parked[o.I] = true
			w.parkedX[o.I] = o.X
		case r := <-w.done[o.I]:
			res = &r
		}
		w.mu.Lock()
		w.armed[o.I] = false
		w.mu.Unlock()
	case "gte":
		c07SetFast(o.Fast)
		w.resume[o.I] <- struct{}{}
		r := <-w.done[o.I]
		res = &r
		w.parked[o.I] = false
	case "idle":
		a.releaseUnusedSequences(w.ctx)
	case "stop":
		a.Stop(w.ctx)
		w.stopped[o.I] = true
	case "env":
		envBefore = w.counter()
		if o.K > 0 {
			if _, err := w.under.Incr(w.ctx, w.keys.SyncSeqKey(), o.K, o.K, 0); err != nil {
				w.t.Fatalf("c07: env incr: %v", err)
			}
		}
	}
	w.mu.Lock()
	writes := w.writes
	w.writes = nil
	w.mu.Unlock()
	return w.observe(o, res, w.counter(), writes, envBefore)
}

// observe records what one op did (res: what the call returned, counter: _sync:seq after it, writes: the
// unused-sequence documents it wrote) and evaluates the per-step monitors
func (w *c07World) observe(o c07Op, res *c07Res, counter uint64, writes []c07Write, envBefore uint64) c07Obs {
	w.ops = append(w.ops, o)
	step := len(w.ops) - 1
	var ob c07Obs
	ob.Counter = counter
	if o.Kind != "env" {
		ob.Parked = w.parked[o.I]
	}
	for _, wr := range writes {
		lo, hi, single, ok := w.decode(wr)
		if !ok {
			w.fail("release_doc_key", "release-doc-key", "AddRaw of an unexpected key "+wr.key)
			continue
		}
		if wr.err != nil {
			w.fail("release_error", "release-error", fmt.Sprintf("AddRaw %s: %v", wr.key, wr.err))
			continue
		}
		if !wr.added {
			w.fail("alloc_unique", "released-twice", fmt.Sprintf("step %d: unused-sequence document %s already existed", step, wr.key))
		}
		w.allKeys = append(w.allKeys, wr.key)
		w.released = true
		if single {
			ob.Ones = append(ob.Ones, lo)
			// a single release is legitimate only for the number this very op obtained and discarded
			if !(o.Kind == "disc" && res != nil && res.err == nil && res.seq == lo) {
				w.fail("alloc_unique", "single-release-of-foreign-number", fmt.Sprintf("step %d: released single %d", step, lo))
			}
		} else {
			ob.Ranges = append(ob.Ranges, [2]uint64{lo, hi})
			if lo > hi || lo == 0 {
				w.fail("alloc_unique", "empty-range", fmt.Sprintf("step %d: released range [%d,%d]", step, lo, hi))
			} else {
				w.claim(lo, hi, "released range")
			}
		}
	}
	if o.Kind == "env" && o.K > 0 {
		w.claim(envBefore+1, envBefore+o.K, "foreign reservation")
	}
	if res != nil {
		if res.err != nil {
			ob.Err = true
			w.rec.Err("error")
		} else {
			s := res.seq
			ob.Hand = &s
			w.reserved = true
			w.claim(s, s, fmt.Sprintf("handed by allocator %d", o.I))
			// monitor: per-allocator monotonicity
			if s <= w.lastHand[o.I] {
				w.fail("alloc_monotone_per_node", "not-increasing", fmt.Sprintf("step %d: allocator %d returned %d after %d", step, o.I, s, w.lastHand[o.I]))
			}
			w.lastHand[o.I] = s
			// monitor: next-greater-than returns a number above its floor
			floor, isGT := uint64(0), false
			if o.Kind == "gtb" {
				floor, isGT = o.X, true
			} else if o.Kind == "gte" {
				floor, isGT = w.parkedX[o.I], true
			}
			if isGT && floor < math.MaxUint64 && s <= floor {
				w.fail("next_gt_above", "not-above-floor", fmt.Sprintf("step %d: nextSequenceGreaterThan(%d) returned %d", step, floor, s))
			}
			if s > ob.Counter {
				w.fail("alloc_accounted", "above-counter", fmt.Sprintf("step %d: returned %d above the counter %d", step, s, ob.Counter))
			}
		}
	}
	w.obs = append(w.obs, ob)
	if !w.deferAccounting {
		w.accounting(step, false)
	}
	return ob
}

// monitor: (0, counter] = handed + released + foreign + live windows, as a partition
func (w *c07World) accounting(step int, final bool) {
	if w.failed {
		return
	}
	type iv struct {
		lo, hi uint64
		what   string
	}
	var ivs []iv
	for _, c := range w.claims {
		ivs = append(ivs, iv{c.lo, c.hi, c.what})
	}
	for i := 0; i < w.n; i++ {
		last, max, batch := w.window(i)
		if last > max {
			w.fail("window_wellformed", "last-above-max", fmt.Sprintf("step %d: allocator %d last=%d max=%d", step, i, last, max))
			return
		}
		if batch < 1 || batch > maxBatchSize {
			w.fail("window_wellformed", "batch-size", fmt.Sprintf("step %d: allocator %d batch=%d", step, i, batch))
		}
		if last < max {
			if w.stopped[i] {
				w.fail("all_stopped_fully_accounted", "stopped-holds", fmt.Sprintf("step %d: stopped allocator %d still holds (%d,%d]", step, i, last, max))
			}
			ivs = append(ivs, iv{last + 1, max, fmt.Sprintf("window of allocator %d", i)})
		}
	}
	sort.Slice(ivs, func(a, b int) bool { return ivs[a].lo < ivs[b].lo })
	ctr := w.obs[len(w.obs)-1].Counter
	next := uint64(1)
	for _, v := range ivs {
		if v.lo > next {
			w.fail("alloc_accounted", "gap", fmt.Sprintf("step %d: numbers [%d,%d] are below the counter %d but neither handed, released nor held", step, next, v.lo-1, ctr))
			return
		}
		if v.lo < next {
			w.fail("alloc_unique", "overlap:window", fmt.Sprintf("step %d: %s [%d,%d] overlaps a number already disposed of", step, v.what, v.lo, v.hi))
			return
		}
		next = v.hi + 1
	}
	if next != ctr+1 {
		if next <= ctr {
			w.fail("alloc_accounted", "gap", fmt.Sprintf("step %d: numbers [%d,%d] are below the counter but neither handed, released nor held", step, next, ctr))
		} else {
			w.fail("alloc_accounted", "above-counter", fmt.Sprintf("step %d: numbers up to %d disposed of but the counter is %d", step, next-1, ctr))
		}
	}
}

// finish ends parked calls, stops every allocator, reads the bucket, emits the case
func (w *c07World) finish(kind string) {
	for i := 0; i < w.n; i++ {
		if w.parked[i] {
			w.exec(c07Op{Kind: "gte", I: i, Fast: true})
		}
	}
	for i := 0; i < w.n; i++ {
		if !w.stopped[i] {
			w.exec(c07Op{Kind: "stop", I: i})
		}
	}
	// the documents really present in the bucket, in the order they were written
	var dr []string
	var d1 []uint64
	for _, k := range w.allKeys {
		body, _, err := w.under.GetRaw(w.ctx, k)
		if err != nil {
			w.fail("release_doc_missing", "release-doc-missing", fmt.Sprintf("unused-sequence document %s: %v", k, err))
			continue
		}
		lo, hi, single, ok := w.decode(c07Write{key: k, body: body})
		if !ok {
			continue
		}
		if single {
			d1 = append(d1, lo)
		} else {
			dr = append(dr, "("+cqN(lo)+","+cqN(hi)+")")
		}
	}
	var steps []string
	var desc []string
	for i, o := range w.ops {
		steps = append(steps, "("+o.coq()+", "+w.obs[i].coq()+")")
		desc = append(desc, o.String())
		w.rec.Count(w.stream, "op_"+o.Kind, "", false)
	}
	w.rec.Size(fmt.Sprintf("len_%02d", (len(w.ops)/10)*10))
	term := "CRun " + cqList(steps) + " " + cqList(dr) + " " + cqNList(d1)
	if c07Seen[term] {
		// the same concrete op list with the same observations was already emitted (different symbols of
		// the exhaustive alphabet can resolve to the same floor): monitored above, not re-evaluated in Coq
		w.rec.Count(w.stream, "duplicate_case", "", false)
		return
	}
	c07Seen[term] = true
	w.rec.Case(w.stream, kind, term, map[string]any{"allocators": w.n, "ops": strings.Join(desc, " "), "obs": w.obs}, w.reserved && w.released)
}

// ---------- generators ----------

// relative choices of the floor of nextSequenceGreaterThan, resolved against the allocator's window
const (
	c07RelLastM1 = iota
	c07RelLast
	c07RelLastP2
	c07RelMax
	c07RelMaxP1
	c07RelCtrP3
	c07RelCount
)

func (w *c07World) floor(i, rel int) uint64 {
	last, max, _ := w.window(i)
	switch rel {
	case c07RelLastM1:
		if last == 0 {
			return 0
		}
		return last - 1
	case c07RelLast:
		return last
	case c07RelLastP2:
		return last + 2
	case c07RelMax:
		return max
	case c07RelMaxP1:
		return max + 1
	}
	return w.counter() + 3
}

// a symbol of the exhaustive alphabet
type c07Sym struct {
	kind   string // next disc gt gtb gte idle stop env
	i      int
	rel    int
	fast   bool
	atomic bool
}

func (w *c07World) play(s c07Sym) bool {
	o := c07Op{Kind: s.kind, I: s.i, Fast: s.fast}
	switch s.kind {
	case "gt":
		o.Kind = "gtb"
		if !w.valid(o) {
			return false
		}
		o.X = w.floor(s.i, s.rel)
		if w.exec(o).Parked && s.atomic {
			w.exec(c07Op{Kind: "gte", I: s.i, Fast: s.fast})
		}
		return true
	case "env":
		o.K = 2
	}
	if !w.valid(o) {
		return false
	}
	w.exec(o)
	return true
}

func TestVerifC07(t *testing.T) {
	rec := vNewRecorder(t, "C07", "C07.C07_Corr")
	defer rec.Finish()
	rnd := vNewRand(vSeed())
	ctx := base.TestCtx(t)
	bucket := base.GetTestBucket(t)
	defer bucket.Close(ctx)
	under := bucket.GetSingleDataStore()
	sgw, err := base.NewSyncGatewayStats()
	if err != nil {
		t.Fatalf("stats: %v", err)
	}
	dbstats, err := sgw.NewDBStats("c07verif", false, false, false, false, nil, nil)
	if err != nil {
		t.Fatalf("dbstats: %v", err)
	}
	stats := dbstats.Database()
	oldFreq := MaxSequenceIncrFrequency
	defer func() { MaxSequenceIncrFrequency = oldFreq }()
	newWorld := func(n int, stream string) *c07World { return c07NewWorld(t, rec, ctx, under, stats, n, stream) }

	// ---- (a) corpus ----
	corpus := [][]c07Op{
		// the sequence of db/sequence_allocator_test.go TestSequenceAllocator
		{{Kind: "next", I: 0, Fast: true}, {Kind: "next", I: 0, Fast: true}, {Kind: "next", I: 0, Fast: true}, {Kind: "next", I: 0, Fast: true}, {Kind: "idle", I: 0}, {Kind: "next", I: 0, Fast: true}},
		// nextSequenceGreaterThan in each branch
		{{Kind: "next", I: 0, Fast: true}, {Kind: "next", I: 0, Fast: true}, {Kind: "next", I: 0, Fast: true}, {Kind: "next", I: 0, Fast: true}, {Kind: "gtb", I: 0, X: 2, Fast: true}, {Kind: "gtb", I: 0, X: 5, Fast: true}, {Kind: "gtb", I: 0, X: 7, Fast: true}, {Kind: "gtb", I: 0, X: 20, Fast: true}},
		// another node moves the counter between the read and the increment
		{{Kind: "next", I: 0}, {Kind: "next", I: 1, Fast: true}, {Kind: "next", I: 0, Fast: true}, {Kind: "gtb", I: 0, X: 9}, {Kind: "next", I: 1, Fast: true}, {Kind: "env", K: 2}, {Kind: "gte", I: 0, Fast: true}, {Kind: "next", I: 0, Fast: true}},
		// the counter passes the target while the call is parked
		{{Kind: "next", I: 0}, {Kind: "gtb", I: 0, X: 3}, {Kind: "env", K: 7}, {Kind: "gte", I: 0, Fast: true}},
		// principal update with two lost CAS races on a third node
		{{Kind: "next", I: 0}, {Kind: "disc", I: 2}, {Kind: "disc", I: 2, Fast: true}, {Kind: "next", I: 2, Fast: true}, {Kind: "gtb", I: 1, X: 4, Fast: true}},
		// limits of the jump
		{{Kind: "next", I: 0}, {Kind: "gtb", I: 0, X: 1 + MaxSequencesToRelease}, {Kind: "gtb", I: 0, X: 1 + MaxSequencesToRelease + 1}, {Kind: "gtb", I: 0, X: math.MaxUint64}, {Kind: "gtb", I: 0, X: math.MaxUint64 - 1}, {Kind: "gtb", I: 0, X: 1 << 63}},
	}
	for _, ops := range corpus {
		w := newWorld(3, "corpus")
		for _, o := range ops {
			if o.Kind != "env" && o.Kind != "gte" && w.parked[o.I] {
				w.exec(c07Op{Kind: "gte", I: o.I, Fast: true})
			}
			if w.valid(o) {
				w.exec(o)
			}
		}
		w.finish("corpus")
	}

	// ---- (b) bounded exhaustive: every sequence of length <= L over the alphabet, 2 allocators ----
	var alpha []c07Sym
	for i := 0; i < 2; i++ {
		alpha = append(alpha,
			c07Sym{kind: "next", i: i, fast: true}, c07Sym{kind: "next", i: i, fast: false},
			c07Sym{kind: "disc", i: i, fast: true},
			c07Sym{kind: "idle", i: i}, c07Sym{kind: "gte", i: i, fast: true})
		for rel := 0; rel < c07RelCount; rel++ {
			alpha = append(alpha, c07Sym{kind: "gt", i: i, rel: rel, fast: true, atomic: true})
		}
		alpha = append(alpha, c07Sym{kind: "gt", i: i, rel: c07RelMaxP1, fast: true}, c07Sym{kind: "gt", i: i, rel: c07RelCtrP3, fast: false})
	}
	alpha = append(alpha, c07Sym{kind: "env"}, c07Sym{kind: "stop", i: 0})
	exhaustive := 0
	var enum func(alpha []c07Sym, n int, prefix []int, depth int)
	enum = func(alpha []c07Sym, n int, prefix []int, depth int) {
		if len(prefix) > 0 {
			w := newWorld(n, "exhaustive")
			ok := true
			for _, k := range prefix {
				if !w.play(alpha[k]) {
					ok = false
					break
				}
			}
			if ok {
				w.finish("exhaustive")
				exhaustive++
			} else {
				// a symbol not executable in this state (stopped / parked / nothing parked): the
				// sequence and all its extensions are outside the op language; close the world quietly
				for i := 0; i < w.n; i++ {
					if w.parked[i] {
						w.resume[i] <- struct{}{}
						<-w.done[i]
						w.parked[i] = false
					}
					if !w.stopped[i] {
						w.al[i].Stop(ctx)
					}
				}
				return
			}
		}
		if depth == 0 {
			return
		}
		for k := range alpha {
			// symmetry: the first op is on allocator 0 (or the environment)
			if len(prefix) == 0 && alpha[k].i == 1 {
				continue
			}
			enum(alpha, n, append(append([]int(nil), prefix...), k), depth-1)
		}
	}
	enum(alpha, 2, nil, 3)
	scope := fmt.Sprintf("all executable op sequences of length <= 3 over %d symbols (2 allocators, first op on allocator 0): %d sequences", len(alpha), exhaustive)
	if vThorough() {
		// one allocator, one more step: the symbols of allocator 0 plus the environment and stop
		var alpha1 []c07Sym
		for _, s := range alpha {
			if s.i == 0 {
				alpha1 = append(alpha1, s)
			}
		}
		before := exhaustive
		enum(alpha1, 1, nil, 4)
		scope += fmt.Sprintf("; length <= 4 over %d symbols (1 allocator): %d sequences", len(alpha1), exhaustive-before)
	}
	rec.Extra("exhaustive", true)
	rec.Extra("exhaustive_scope", scope)

	// ---- (c) random streams, 1..3 allocators ----
	pickFloor := func(w *c07World, i int, adversarial bool) uint64 {
		last, max, _ := w.window(i)
		ctr := w.counter()
		if adversarial {
			switch rnd.Intn(8) {
			case 0:
				return math.MaxUint64
			case 1:
				return math.MaxUint64 - 1
			case 2:
				return 1 << 63
			case 3:
				return ctr + MaxSequencesToRelease
			case 4:
				return ctr + MaxSequencesToRelease + 1
			case 5:
				return ctr + MaxSequencesToRelease - 1
			case 6:
				return 0
			}
			return rnd.U64()
		}
		switch rnd.Intn(10) {
		case 0:
			return w.floor(i, c07RelLastM1)
		case 1:
			return last
		case 2:
			return last + uint64(rnd.Intn(4))
		case 3:
			return max
		case 4:
			return max + 1
		case 5:
			return max + uint64(rnd.Intn(12))
		case 6:
			return ctr
		case 7:
			return ctr + uint64(rnd.Intn(30))
		case 8:
			return uint64(rnd.Intn(int(ctr + 5)))
		}
		return ctr + 3
	}
	randomCase := func(stream string, length int, adversarial bool) {
		n := 1 + rnd.Intn(3)
		w := newWorld(n, stream)
		growth := rnd.Intn(3) // 0: batch growth off, 1: on, 2: mixed
		fast := func() bool {
			switch growth {
			case 0:
				return false
			case 1:
				return true
			}
			return rnd.Bool()
		}
		for len(w.ops) < length {
			i := rnd.Intn(n)
			if w.stopped[i] {
				all := true
				for _, s := range w.stopped {
					all = all && s
				}
				if all {
					break
				}
				continue
			}
			if w.parked[i] {
				if rnd.Chance(40) {
					w.exec(c07Op{Kind: "gte", I: i, Fast: fast()})
				}
				continue
			}
			r := rnd.Intn(100)
			switch {
			case r < 34:
				w.exec(c07Op{Kind: "next", I: i, Fast: fast()})
			case r < 42:
				w.exec(c07Op{Kind: "disc", I: i, Fast: fast()})
			case r < 62: // atomic nextSequenceGreaterThan
				if w.exec(c07Op{Kind: "gtb", I: i, X: pickFloor(w, i, adversarial && rnd.Chance(50)), Fast: fast()}).Parked {
					w.exec(c07Op{Kind: "gte", I: i, Fast: fast()})
				}
			case r < 74: // nextSequenceGreaterThan left parked: other nodes run before its increment
				w.exec(c07Op{Kind: "gtb", I: i, X: pickFloor(w, i, adversarial && rnd.Chance(30)), Fast: fast()})
			case r < 82:
				w.exec(c07Op{Kind: "idle", I: i})
			case r < 87:
				w.exec(c07Op{Kind: "env", K: uint64(rnd.Intn(4))})
			case r < 92: // UpdatePrincipal: k lost CAS races, then a saved attempt
				for k := rnd.Intn(4); k > 0; k-- {
					w.exec(c07Op{Kind: "disc", I: i, Fast: fast()})
				}
				w.exec(c07Op{Kind: "next", I: i, Fast: fast()})
			case r < 97: // assignSequence on a document whose sequence is at or above the next number
				x := pickFloor(w, i, false)
				ob := w.exec(c07Op{Kind: "next", I: i, Fast: fast()})
				_ = ob
				if w.exec(c07Op{Kind: "gtb", I: i, X: x, Fast: fast()}).Parked && rnd.Chance(60) {
					w.exec(c07Op{Kind: "gte", I: i, Fast: fast()})
				}
			default:
				if n > 1 || len(w.ops) > length/2 {
					w.exec(c07Op{Kind: "stop", I: i})
				}
			}
		}
		w.finish(stream)
	}
	for k := vBudget(260, 2600); k > 0; k-- {
		randomCase("random", 20+rnd.Intn(45), false)
	}
	for k := vBudget(90, 900); k > 0; k-- {
		randomCase("adversarial", 10+rnd.Intn(30), true)
	}

	// ---- (d) the real UpdatePrincipal on a database whose allocator is observed ----
	c07Principals(t, rec, rnd)

	// ---- (e) the cluster model: explicit-turn scheduler, adversarial batch sizes, crashes, rollback of the counter ----
	c07Cluster(t, rec, rnd, ctx, under, stats)
}
