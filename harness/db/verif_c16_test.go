//go:build verif

package db

import (
	"context"
	"encoding/json"
	"fmt"
	"sort"
	"strings"
	"sync"
	"testing"
	"time"

	sgbucket "github.com/couchbase/sg-bucket"
	"github.com/couchbase/sync_gateway/base"
)

// C16 correspondence + monitors on the real LRURevisionCache / RevisionCacheOrchestrator /
// ShardedLRURevisionCache, with a scripted backing store (the repository's testBackingStore pattern).

// ---------------------------------------------------------------------------------------------
// scripted backing store
// ---------------------------------------------------------------------------------------------
type c16Rev struct {
	body     []byte
	channels []string
	err      error
}

type c16Doc struct {
	getErr  error // GetDocument fails
	nilDoc  bool  // GetDocument returns (nil, nil)
	cur     string
	cvVal   uint64
	parents map[string]string  // revision tree: rev -> parent
	revs    map[string]*c16Rev // getRevision by revid
	cvs     map[string]*c16Rev // getCurrentVersion by cv string
}

type c16Store struct {
	mu   sync.Mutex
	docs map[string]*c16Doc
	hook func(docid string) // called on entry of GetDocument, before the scripted answer is read
}

func (s *c16Store) GetDocument(ctx context.Context, docid string, unmarshalLevel DocumentUnmarshalLevel) (*Document, error) {
	s.mu.Lock()
	h := s.hook
	s.mu.Unlock()
	if h != nil {
		h(docid)
	}
	s.mu.Lock()
	defer s.mu.Unlock()
	d := s.docs[docid]
	if d == nil {
		return nil, ErrMissing
	}
	if d.getErr != nil {
		return nil, d.getErr
	}
	if d.nilDoc {
		return nil, nil
	}
	doc := NewDocument(docid)
	doc.SetRevTreeID(d.cur)
	for rev, parent := range d.parents {
		doc.History[rev] = &RevInfo{ID: rev, Parent: parent}
	}
	doc.HLV = &HybridLogicalVector{SourceID: "s", Version: d.cvVal}
	return doc, nil
}

func (s *c16Store) getRevision(ctx context.Context, doc *Document, revid string) ([]byte, AttachmentsMeta, base.Set, error) {
	s.mu.Lock()
	defer s.mu.Unlock()
	d := s.docs[doc.ID]
	if d == nil || d.revs[revid] == nil {
		return nil, nil, nil, ErrMissing
	}
	r := d.revs[revid]
	if r.err != nil {
		return nil, nil, nil, r.err
	}
	return r.body, nil, base.SetOf(r.channels...), nil
}

func (s *c16Store) getCurrentVersion(ctx context.Context, doc *Document, cv Version, loadBackup bool) ([]byte, AttachmentsMeta, base.Set, bool, error) {
	s.mu.Lock()
	defer s.mu.Unlock()
	d := s.docs[doc.ID]
	if d == nil || d.cvs[cv.String()] == nil {
		return nil, nil, nil, false, ErrMissing
	}
	r := d.cvs[cv.String()]
	if r.err != nil {
		return nil, nil, nil, false, r.err
	}
	return r.body, nil, base.SetOf(r.channels...), false, nil
}

// ---------------------------------------------------------------------------------------------
// key universe: doc i in 0..2 (+ doc 3 = "GetDocument returns nil"), kinds
//   1 current revision by revID   2 current revision by CV   3 old revision by revID
//   4 unknown revID               5 a CV that storage does not hold (a write in flight)
// ---------------------------------------------------------------------------------------------
type c16Key struct{ doc, kind int }

func (k c16Key) num() uint64   { return uint64((k.doc+1)*10 + k.kind) }
func (k c16Key) docID() string { return fmt.Sprintf("d%d", k.doc) }
func c16CV(doc int, other bool) Version {
	v := uint64(0x100 + doc)
	if other {
		v = uint64(0x900 + doc)
	}
	return Version{Value: v, SourceID: "s"}
}
func (k c16Key) version() string {
	switch k.kind {
	case 1:
		return "2-b"
	case 2:
		return c16CV(k.doc, false).String()
	case 3:
		return "1-a"
	case 4:
		return "7-zz"
	}
	return c16CV(k.doc, true).String()
}

const c16NDocs = 3

func c16AllKeys() []c16Key {
	var ks []c16Key
	for d := 0; d < c16NDocs; d++ {
		for kind := 1; kind <= 5; kind++ {
			ks = append(ks, c16Key{d, kind})
		}
	}
	return ks
}

func c16Status(err error) uint64 {
	st, _ := base.ErrorAsHTTPStatus(err)
	return uint64(st)
}

// ---------------------------------------------------------------------------------------------
// world = store + bypass loader ("fresh load") + interning of revision contents
// ---------------------------------------------------------------------------------------------
type c16Content struct {
	id, size uint64
	rev      DocumentRevision
}

func (c *c16Content) coq() string { return "(C " + cqN(c.id) + " " + cqN(c.size) + ")" }

type c16Fresh struct {
	ok   *c16Content
	errK uint64
}

func (f c16Fresh) coqL() string {
	if f.ok != nil {
		return "(LOk " + f.ok.coq() + ")"
	}
	return "(LErr " + cqN(f.errK) + ")"
}
func (f c16Fresh) same(g c16Fresh) bool {
	if (f.ok == nil) != (g.ok == nil) {
		return false
	}
	if f.ok != nil {
		return f.ok.id == g.ok.id && f.ok.size == g.ok.size
	}
	return f.errK == g.errK
}

type c16World struct {
	ctx    context.Context
	store  *c16Store
	bypass *BypassRevisionCache
	intern map[string]uint64
	fresh  map[uint64]c16Fresh // by key number
	active map[int]string      // by doc: coq ares term
}

var c16Intern = map[string]uint64{} // stable across the run: same projection -> same id

// projection of a DocumentRevision onto what the property talks about + an independent size computation
func c16Project(rev DocumentRevision) (string, uint64) {
	var chans []string
	size := 0
	for ch := range rev.Channels {
		chans = append(chans, ch)
		size += len(ch)
	}
	sort.Strings(chans)
	hist, _ := json.Marshal(rev.History)
	atts, _ := json.Marshal(rev.Attachments)
	if ids, ok := rev.History[RevisionsIds]; ok {
		switch t := ids.(type) {
		case []string:
			size += 32 * len(t)
		case []any:
			size += 32 * len(t)
		}
	}
	size += len(rev.BodyBytes)
	return fmt.Sprintf("%q|%s|%s|%v|%v|%s", rev.BodyBytes, hist, strings.Join(chans, ","), rev.Deleted, rev.Removed, atts), uint64(size)
}

func c16ContentOf(rev DocumentRevision) *c16Content {
	p, sz := c16Project(rev)
	id, ok := c16Intern[p]
	if !ok {
		id = uint64(len(c16Intern) + 1)
		c16Intern[p] = id
	}
	return &c16Content{id: id, size: sz, rev: rev}
}

func c16NewWorld(ctx context.Context) *c16World {
	st := &c16Store{docs: map[string]*c16Doc{}}
	for d := 0; d < c16NDocs; d++ {
		body := []byte(fmt.Sprintf(`{"doc":%d,"pad":"%s"}`, d, strings.Repeat("x", 3*d)))
		old := []byte(fmt.Sprintf(`{"doc":%d,"old":true}`, d))
		chans := []string{"A"}
		if d == 1 {
			chans = []string{"A", "BB"}
		}
		cv := c16CV(d, false)
		st.docs[fmt.Sprintf("d%d", d)] = &c16Doc{cur: "2-b", cvVal: cv.Value,
			parents: map[string]string{"2-b": "1-a", "1-a": ""},
			revs:    map[string]*c16Rev{"2-b": {body: body, channels: chans}, "1-a": {body: old, channels: []string{"OLD"}}},
			cvs:     map[string]*c16Rev{cv.String(): {body: body, channels: chans}}}
	}
	st.docs["d3"] = &c16Doc{nilDoc: true}
	bs := CreateTestSingleBackingStoreMap(st, testCollectionID)
	w := &c16World{ctx: ctx, store: st, bypass: NewBypassRevisionCache(bs, &base.SgwIntStat{}), fresh: map[uint64]c16Fresh{}, active: map[int]string{}}
	for _, k := range c16AllKeys() {
		w.fresh[k.num()] = w.load(k)
	}
	for d := 0; d <= c16NDocs; d++ {
		w.active[d] = w.loadActive(d)
	}
	return w
}

// what a fresh load of the key returns now (the bypass cache runs the same loader functions)
func (w *c16World) load(k c16Key) c16Fresh {
	rev, _, err := w.bypass.Get(w.ctx, k.docID(), k.version(), testCollectionID, RevCacheDontLoadBackupRev)
	if err != nil {
		return c16Fresh{errK: c16Status(err)}
	}
	return c16Fresh{ok: c16ContentOf(rev)}
}

func (w *c16World) loadActive(d int) string {
	doc, err := w.store.GetDocument(w.ctx, fmt.Sprintf("d%d", d), DocUnmarshalSync)
	if err != nil {
		return "(AErr " + cqN(c16Status(err)) + ")"
	}
	if doc == nil {
		return "ANil"
	}
	return "(ADoc " + cqN(c16Key{d, 1}.num()) + ")"
}

// store mutations; every one is followed by refresh(d) which reports the keys whose fresh load changed
func (w *c16World) mutate(d int, what int) string {
	doc := w.store.docs[fmt.Sprintf("d%d", d)]
	w.store.mu.Lock()
	defer w.store.mu.Unlock()
	cv := c16CV(d, false).String()
	switch what {
	case 0: // metadata-only channel change of the current revision, same total channel-name length
		nc := []string{"Z"}
		if len(doc.revs["2-b"].channels) == 2 {
			nc = []string{"Q", "RR"}
		}
		if doc.revs["2-b"].channels[0] == nc[0] {
			nc[0] = "Y"
		}
		doc.revs["2-b"].channels, doc.cvs[cv].channels = nc, nc
		return "chan-same-size"
	case 1: // channel change that also changes the accounted size
		nc := append([]string{}, doc.revs["2-b"].channels...)
		nc = append(nc, "extra")
		if len(nc) > 3 {
			nc = nc[:1]
		}
		doc.revs["2-b"].channels, doc.cvs[cv].channels = nc, nc
		return "chan-resize"
	case 2:
		if doc.getErr == nil {
			doc.getErr = ErrMissing
		} else {
			doc.getErr = nil
		}
		return "toggle-doc-404"
	case 3:
		if doc.getErr == nil {
			doc.getErr = base.HTTPErrorf(503, "scripted outage")
		} else {
			doc.getErr = nil
		}
		return "toggle-doc-503"
	case 4:
		if doc.revs["1-a"].err == nil {
			doc.revs["1-a"].err = base.HTTPErrorf(500, "scripted body failure")
		} else {
			doc.revs["1-a"].err = nil
		}
		return "toggle-oldrev-500"
	default: // the in-flight CV becomes loadable (the write reached the bucket) / disappears again
		ocv := c16CV(d, true).String()
		if doc.cvs[ocv] == nil {
			doc.cvs[ocv] = &c16Rev{body: []byte(fmt.Sprintf(`{"doc":%d,"new":1}`, d)), channels: []string{"A"}}
		} else {
			delete(doc.cvs, ocv)
		}
		return "toggle-inflight-cv"
	}
}

// ---------------------------------------------------------------------------------------------
// the cache under test
// ---------------------------------------------------------------------------------------------
type c16Cfg struct {
	variant string // "lru" | "orch" | "sharded"
	cap     uint32
	maxb    int64
	shards  uint16
}

type c16Target struct {
	cfg        c16Cfg
	rc         RevisionCache
	shards     []*LRURevisionCache
	ctrls      []*CacheMemoryController
	sharded    *ShardedLRURevisionCache
	items, mem base.SgwIntStat
	hits, miss base.SgwIntStat
	// variant "orchd": orchestrator with its delta cache (verif_c16_sched_test.go)
	delta  *LRUDeltaCache
	orch   *RevisionCacheOrchestrator
	ditems base.SgwIntStat
}

func c16NewTarget(cfg c16Cfg, st RevisionCacheBackingStore) *c16Target {
	t := &c16Target{cfg: cfg}
	stats := revisionCacheStats{cacheHitStat: &t.hits, cacheMissStat: &t.miss, cacheNumItemsStat: &t.items, cacheMemoryStat: &t.mem}
	bs := CreateTestSingleBackingStoreMap(st, testCollectionID)
	opts := &RevisionCacheOptions{MaxItemCount: cfg.cap, MaxBytes: cfg.maxb, ShardCount: cfg.shards}
	switch cfg.variant {
	case "lru":
		mc := newCacheMemoryController(cfg.maxb, stats.cacheMemoryStat)
		l := NewLRURevisionCache(opts, bs, stats, mc)
		t.rc, t.shards, t.ctrls = l, []*LRURevisionCache{l}, []*CacheMemoryController{mc}
	case "orch":
		o := NewRevisionCacheOrchestrator(opts, bs, stats, nil, false)
		t.rc, t.shards, t.ctrls = o, []*LRURevisionCache{o.revisionCache}, []*CacheMemoryController{o.memoryController}
	case "orchd":
		o := NewRevisionCacheOrchestrator(opts, bs, stats, &base.DeltaSyncStats{DeltaCacheNumItems: &t.ditems}, true)
		t.rc, t.shards, t.ctrls = o, []*LRURevisionCache{o.revisionCache}, []*CacheMemoryController{o.memoryController}
		t.delta, t.orch = o.deltaCache, o
	default:
		s := NewShardedLRURevisionCache(opts, bs, stats, nil, false)
		t.rc, t.sharded = s, s
		for _, o := range s.caches {
			t.shards = append(t.shards, o.revisionCache)
			t.ctrls = append(t.ctrls, o.memoryController)
		}
	}
	return t
}

func (t *c16Target) coqCfgs() string {
	var cs []string
	for i, l := range t.shards {
		cs = append(cs, fmt.Sprintf("mkCfg %d %d %v", l.capacity, t.ctrls[i].capacity, t.cfg.variant != "lru"))
	}
	return cqList(cs)
}

func (t *c16Target) shardOf(docID string) int {
	if t.sharded == nil {
		return 0
	}
	return int(sgbucket.VBHash(docID, t.sharded.numShards))
}

type c16Snap struct {
	n, mapN    int
	sized      int64
	allSized   bool
	keys       []uint64
	itemBytes  map[uint64]int64
	overCap    bool
	ctrlBytes  int64
	ctrlOver   bool
	shardBytes []int64
}

var c16KeyNums = func() map[string]uint64 {
	m := map[string]uint64{}
	for d := 0; d <= c16NDocs; d++ {
		for kind := 1; kind <= 5; kind++ {
			k := c16Key{d, kind}
			m[k.docID()+"|"+k.version()] = k.num()
		}
	}
	return m
}()

// recount of the real structures (in-package): list, map, per-value accounting state
func (t *c16Target) snapshot() (c16Snap, []string) {
	s := c16Snap{allSized: true, itemBytes: map[uint64]int64{}}
	var perShard []string
	for i, l := range t.shards {
		l.lock.Lock()
		var ks []uint64
		for e := l.lruList.Front(); e != nil; e = e.Next() {
			v := e.Value.(*revCacheValue)
			kn, ok := c16KeyNums[v.itemKey.docID+"|"+v.itemKey.docVersion]
			if !ok {
				kn = 9999
			}
			ks = append(ks, kn)
			if v.memState.Load() == memStateSized {
				s.sized += v.getItemBytes()
			} else {
				s.allSized = false
			}
			s.itemBytes[kn] = v.getItemBytes()
		}
		s.n += l.lruList.Len()
		s.mapN += len(l.cache)
		if l.lruList.Len() > int(l.capacity) {
			s.overCap = true
		}
		l.lock.Unlock()
		s.keys = append(s.keys, ks...)
		perShard = append(perShard, cqNList(ks))
		cb := t.ctrls[i].bytesInUseForShard.Load()
		s.ctrlBytes += cb
		s.shardBytes = append(s.shardBytes, cb)
		if t.ctrls[i].capacity > 0 && cb > t.ctrls[i].capacity {
			s.ctrlOver = true
		}
	}
	return s, perShard
}

// ---------------------------------------------------------------------------------------------
// ops
// ---------------------------------------------------------------------------------------------
type c16Op struct {
	kind    string // get getactive put upsert remove peek mutate
	key     c16Key
	doc     int
	content *c16Content // put / upsert
	mut     int
	adv     bool // put/upsert of something storage does not hold
}

func (o c16Op) String() string {
	switch o.kind {
	case "getactive":
		return fmt.Sprintf("getactive d%d", o.doc)
	case "mutate":
		return fmt.Sprintf("mutate d%d #%d", o.doc, o.mut)
	case "put", "upsert":
		return fmt.Sprintf("%s k%d size=%d adv=%v", o.kind, o.key.num(), o.content.size, o.adv)
	}
	return fmt.Sprintf("%s k%d", o.kind, o.key.num())
}

func c16ResCoq(rev DocumentRevision, err error, empty bool) (string, *c16Content) {
	if err != nil {
		return "(RErr " + cqN(c16Status(err)) + ")", nil
	}
	if empty {
		return "REmpty", nil
	}
	c := c16ContentOf(rev)
	return "(ROk " + c.coq() + ")", c
}

// an adversarial revision for a CV key: not what storage holds
func c16AdvContent(k c16Key, variant int) *c16Content {
	cv := c16CV(k.doc, k.kind == 5)
	rev := DocumentRevision{DocID: k.docID(), RevID: "3-c", CV: &cv,
		History:   Revisions{RevisionsStart: 3, RevisionsIds: []string{"c", "b", "a"}},
		BodyBytes: []byte(fmt.Sprintf(`{"doc":%d,"adv":"%s"}`, k.doc, strings.Repeat("y", 5*variant))),
		Channels:  base.SetOf("A")}
	return c16ContentOf(rev)
}

// ---------------------------------------------------------------------------------------------
// one case: run an op list on a fresh cache, emit the Coq case, run the monitors
// ---------------------------------------------------------------------------------------------
type c16Runner struct {
	t   *testing.T
	rec *vRecorder
	ctx context.Context
}

// opGen returns the next op given the world/target (nil = stop)
func (r *c16Runner) runCase(stream string, cfg c16Cfg, emit bool, gen func(step int, w *c16World, t *c16Target) *c16Op) {
	w := c16NewWorld(r.ctx)
	t := c16NewTarget(cfg, w.store)
	var ldt, actt []string
	for _, k := range c16AllKeys() {
		if f := w.fresh[k.num()]; f.ok != nil || f.errK != 404 { // absent = 404 in the model's table
			ldt = append(ldt, "("+cqN(k.num())+", "+f.coqL()+")")
		}
	}
	for d := 0; d <= c16NDocs; d++ {
		actt = append(actt, "("+cqN(uint64(d))+", "+w.active[d]+")")
	}
	var coqOps, coqObs, descr []string
	pending := map[uint64]bool{} // storage changed under the key and no Remove since
	resized := false             // a Put hit a cached value accounted with another size (hypothesis put_ok violated)
	nontrivial := false
	evictions := 0
	input := func() map[string]any {
		return map[string]any{"config": fmt.Sprintf("%+v", cfg), "ops": append([]string{}, descr...)}
	}
	observe := func(shard int, opCoq string, resCoq string, flag bool) {
		snap, perShard := t.snapshot()
		if emit {
			coqOps = append(coqOps, "("+cqI(shard)+", "+opCoq+")")
			coqObs = append(coqObs, fmt.Sprintf("Ob %s %v (%d) (%d) %s", resCoq, flag, t.items.Value(), t.mem.Value(), cqList(perShard)))
		}
		// ---- monitors: Go-side reflections of the theorems, on the real structures ----
		if snap.overCap {
			r.rec.Fail("capacity_bound", "capacity-exceeded", input(), fmt.Sprintf("a shard holds more items than its capacity (total %d)", snap.n))
		}
		if snap.mapN != snap.n {
			r.rec.Fail("items_gauge_exact", "map-list-diverge", input(), fmt.Sprintf("cache map has %d entries, LRU list %d", snap.mapN, snap.n))
		}
		if t.items.Value() != int64(snap.n) {
			r.rec.Fail("items_gauge_exact", "items-gauge-drift", input(), fmt.Sprintf("RevisionCacheNumItems=%d but %d items are cached", t.items.Value(), snap.n))
		}
		if !resized {
			if t.mem.Value() != snap.sized || !snap.allSized {
				r.rec.Fail("bytes_gauge_exact", "bytes-gauge-drift", input(), fmt.Sprintf("RevisionCacheTotalMemory=%d, cached Sized values sum to %d, allSized=%v", t.mem.Value(), snap.sized, snap.allSized))
			}
			if t.mem.Value() != snap.ctrlBytes {
				r.rec.Fail("bytes_gauge_exact", "controller-gauge-diverge", input(), fmt.Sprintf("stat=%d controllers=%d", t.mem.Value(), snap.ctrlBytes))
			}
			if snap.n == 0 && (t.mem.Value() != 0 || t.items.Value() != 0) {
				r.rec.Fail("emptied_gauges_zero", "gauge-nonzero-when-empty", input(), fmt.Sprintf("empty cache: items=%d bytes=%d", t.items.Value(), t.mem.Value()))
			}
			if cfg.variant != "lru" && snap.ctrlOver {
				r.rec.Fail("memory_bound", "over-byte-limit-at-rest", input(), fmt.Sprintf("a shard stays above its byte limit: %v", snap.shardBytes))
			}
		}
	}
	for step := 0; ; step++ {
		op := gen(step, w, t)
		if op == nil {
			break
		}
		descr = append(descr, op.String())
		r.rec.Count(stream, "op:"+op.kind, "", false)
		before := t.items.Value()
		switch op.kind {
		case "get":
			rev, flag, err := t.rc.Get(r.ctx, op.key.docID(), op.key.version(), testCollectionID, RevCacheDontLoadBackupRev)
			resCoq, c := c16ResCoq(rev, err, false)
			fr := w.fresh[op.key.num()]
			if err != nil {
				r.rec.Err(fmt.Sprintf("get:%d", c16Status(err)))
				if !c16Absent(t, op.key) {
					r.rec.Fail("failed_load_not_cached", "failed-load-left-in-cache", input(), "Get returned an error but the key is still in the cache map")
				}
				nontrivial = true
			} else {
				r.rec.Err("get:ok")
			}
			observe(t.shardOf(op.key.docID()), "Get "+cqN(op.key.num()), resCoq, flag)
			if !pending[op.key.num()] {
				got := c16Fresh{ok: c, errK: 0}
				if err != nil {
					got = c16Fresh{errK: c16Status(err)}
				}
				if !got.same(fr) {
					r.rec.Fail("get_equals_fresh_load", "served-differs-from-storage", input(), fmt.Sprintf("Get k%d returned %s, a fresh load returns %s", op.key.num(), resCoq, fr.coqL()))
				}
			}
		case "getactive":
			docID := fmt.Sprintf("d%d", op.doc)
			rev, flag, err := t.rc.GetActive(r.ctx, docID, testCollectionID)
			empty := err == nil && rev.DocID == "" && rev.BodyBytes == nil
			resCoq, c := c16ResCoq(rev, err, empty)
			observe(t.shardOf(docID), "GetActive "+cqN(uint64(op.doc)), resCoq, flag)
			k := c16Key{op.doc, 1}
			if err != nil {
				r.rec.Err(fmt.Sprintf("getactive:%d", c16Status(err)))
				if strings.HasPrefix(w.active[op.doc], "(ADoc") && !c16Absent(t, k) {
					r.rec.Fail("failed_load_not_cached", "failed-load-left-in-cache", input(), "GetActive returned an error but the key is still in the cache map")
				}
			} else if !empty && !pending[k.num()] && op.doc < c16NDocs {
				if fr := w.fresh[k.num()]; !(c16Fresh{ok: c}).same(fr) {
					r.rec.Fail("get_equals_fresh_load", "served-differs-from-storage", input(), fmt.Sprintf("GetActive d%d returned %s, a fresh load returns %s", op.doc, resCoq, fr.coqL()))
				}
			}
		case "put", "upsert":
			if op.kind == "put" {
				if ib, ok := c16CachedBytes(t, op.key); ok && ib != int64(op.content.size) {
					resized = true
				}
			}
			var err error
			if op.kind == "put" {
				err = t.rc.Put(r.ctx, op.content.rev, testCollectionID)
			} else {
				err = t.rc.Upsert(r.ctx, op.content.rev, testCollectionID)
			}
			if err != nil {
				r.rec.Fail("harness", "put-rejected", input(), err.Error())
			}
			name := map[string]string{"put": "Put", "upsert": "Upsert"}[op.kind]
			observe(t.shardOf(op.key.docID()), name+" "+cqN(op.key.num())+" "+op.content.coq(), "RUnit", false)
			if op.adv {
				pending[op.key.num()] = true // not what storage holds: outside the write-through hypothesis
			}
		case "remove":
			t.rc.Remove(r.ctx, op.key.docID(), op.key.version(), testCollectionID)
			observe(t.shardOf(op.key.docID()), "Remove "+cqN(op.key.num()), "RUnit", false)
			delete(pending, op.key.num())
			if !c16Absent(t, op.key) {
				r.rec.Fail("remove_removes", "remove-left-key", input(), "key still cached after Remove")
			}
		case "peek":
			rev, found := t.rc.Peek(r.ctx, op.key.docID(), op.key.version(), testCollectionID)
			resCoq, _ := c16ResCoq(rev, nil, !found)
			observe(t.shardOf(op.key.docID()), "Peek "+cqN(op.key.num()), resCoq, false)
		case "mutate":
			what := w.mutate(op.doc, op.mut)
			descr[len(descr)-1] += " (" + what + ")"
			for kind := 1; kind <= 5; kind++ {
				k := c16Key{op.doc, kind}
				nf := w.load(k)
				if !nf.same(w.fresh[k.num()]) {
					w.fresh[k.num()] = nf
					pending[k.num()] = true
					observe(0, "SetLoad "+cqN(k.num())+" "+nf.coqL(), "RUnit", false)
				}
			}
			if na := w.loadActive(op.doc); na != w.active[op.doc] {
				w.active[op.doc] = na
				observe(0, "SetActive "+cqN(uint64(op.doc))+" "+na, "RUnit", false)
			}
			nontrivial = true
		}
		if t.items.Value() < before || (op.kind != "remove" && t.items.Value() == before && (op.kind == "put" || op.kind == "upsert")) {
			evictions++
		}
	}
	if evictions > 0 {
		nontrivial = true
	}
	if emit {
		coq := "CSeq " + t.coqCfgs() + " " + cqList(ldt) + " " + cqList(actt) + " " + cqList(coqOps) + " " + cqList(coqObs)
		r.rec.Case(stream, "seq:"+cfg.variant, coq, input(), nontrivial)
		r.rec.Size(fmt.Sprintf("len<=%d", ((len(coqOps)+9)/10)*10))
	} else {
		r.rec.Count(stream, "seq-monitored:"+cfg.variant, strings.Join(descr, ";")+fmt.Sprintf("%+v", cfg), nontrivial)
	}
}

func c16Absent(t *c16Target, k c16Key) bool {
	_, ok := c16CachedBytes(t, k)
	return !ok
}

func c16CachedBytes(t *c16Target, k c16Key) (int64, bool) {
	l := t.shards[t.shardOf(k.docID())]
	l.lock.Lock()
	defer l.lock.Unlock()
	e, ok := l.cache[CreateRevisionCacheKey(k.docID(), k.version(), testCollectionID)]
	if !ok || e == nil {
		return 0, false
	}
	return e.Value.(*revCacheValue).getItemBytes(), true
}

// drain: Remove everything that is cached, front to back (the "emptied" clause)
func c16Drain(t *c16Target) []c16Key {
	var ks []c16Key
	for _, l := range t.shards {
		l.lock.Lock()
		for e := l.lruList.Front(); e != nil; e = e.Next() {
			v := e.Value.(*revCacheValue)
			if kn, ok := c16KeyNums[v.itemKey.docID+"|"+v.itemKey.docVersion]; ok {
				ks = append(ks, c16Key{int(kn/10) - 1, int(kn % 10)})
			}
		}
		l.lock.Unlock()
	}
	return ks
}

// write-through content of a CV key: exactly what a fresh load returns now (nil when storage has nothing)
func (w *c16World) writeThrough(k c16Key) *c16Content {
	if f := w.fresh[k.num()]; f.ok != nil {
		if rev := f.ok.rev; rev.Validate() != nil { // e.g. a non-current CV loads without a revID: Put would reject it
			return nil
		}
		return f.ok
	}
	return nil
}

// ---------------------------------------------------------------------------------------------
// the small alphabet used by the exhaustive streams
// ---------------------------------------------------------------------------------------------
func c16Alphabet(w *c16World) []c16Op {
	k01, k02, k11, k12, k04, k03 := c16Key{0, 1}, c16Key{0, 2}, c16Key{1, 1}, c16Key{1, 2}, c16Key{0, 4}, c16Key{0, 3}
	_ = k11
	ops := []c16Op{
		{kind: "get", key: k02}, {kind: "get", key: k12}, {kind: "get", key: k04}, {kind: "get", key: k03},
		{kind: "getactive", doc: 0},
		{kind: "remove", key: k02}, {kind: "remove", key: k01}, {kind: "peek", key: k02}, {kind: "peek", key: k12},
	}
	if c := w.writeThrough(k02); c != nil {
		ops = append(ops, c16Op{kind: "put", key: k02, content: c}, c16Op{kind: "upsert", key: k02, content: c})
	}
	if c := w.writeThrough(k12); c != nil {
		ops = append(ops, c16Op{kind: "upsert", key: k12, content: c})
	}
	return ops
}

// c16Between, when set, is called after every exhaustive case that is emitted to Coq: the random cases are
// spread between them so that the case shards (evaluated in parallel) have similar sizes
var c16Between func(idx int)

func c16Exhaustive(r *c16Runner, stream string, cfg c16Cfg, length int, emit bool, drain bool) int {
	w0 := c16NewWorld(r.ctx)
	alpha := c16Alphabet(w0)
	n := 1
	for i := 0; i < length; i++ {
		n *= len(alpha)
	}
	for idx := 0; idx < n; idx++ {
		seq := make([]int, length)
		x := idx
		for i := 0; i < length; i++ {
			seq[i] = x % len(alpha)
			x /= len(alpha)
		}
		var tail []c16Key
		r.runCase(stream, cfg, emit, func(step int, w *c16World, t *c16Target) *c16Op {
			if step < length {
				op := alpha[seq[step]]
				return &op
			}
			if !drain {
				return nil
			}
			if step == length {
				tail = c16Drain(t)
			}
			if j := step - length; j < len(tail) {
				return &c16Op{kind: "remove", key: tail[j]}
			}
			return nil
		})
		if emit && c16Between != nil {
			c16Between(idx)
		}
	}
	return n
}

// ---------------------------------------------------------------------------------------------
// random streams
// ---------------------------------------------------------------------------------------------
func c16RandomCase(r *c16Runner, rnd *vRand, stream string, adversarial bool) {
	cfg := c16Cfg{variant: []string{"lru", "orch", "orch", "sharded"}[rnd.Intn(4)], cap: uint32(1 + rnd.Intn(4)), shards: 1}
	switch rnd.Intn(3) {
	case 1:
		cfg.maxb = int64(100 + rnd.Intn(120))
	case 2:
		cfg.maxb = int64(200 + rnd.Intn(300))
	}
	if cfg.variant == "lru" {
		cfg.maxb = 0
		if adversarial && rnd.Chance(25) {
			cfg.cap = 0 // only reachable by constructing the LRU cache directly
		}
	}
	if cfg.variant == "sharded" {
		cfg.shards = []uint16{2, 4}[rnd.Intn(2)]
		cfg.cap = uint32(2 + rnd.Intn(8))
		cfg.maxb *= 2
	}
	length := 5 + rnd.Intn(36)
	keys := c16AllKeys()
	var tail []c16Key
	started := -1
	r.runCase(stream, cfg, true, func(step int, w *c16World, t *c16Target) *c16Op {
		if step >= length {
			if started < 0 {
				started = step
				tail = c16Drain(t)
			}
			if j := step - started; j < len(tail) {
				return &c16Op{kind: "remove", key: tail[j]}
			}
			return nil
		}
		pickKey := func() c16Key {
			if rnd.Chance(70) { // concentrate on the loadable keys of two documents
				return c16Key{rnd.Intn(2), []int{1, 2, 2, 3}[rnd.Intn(4)]}
			}
			return keys[rnd.Intn(len(keys))]
		}
		cvKey := func() c16Key {
			kind := 2
			if rnd.Chance(25) {
				kind = 5
			}
			return c16Key{rnd.Intn(c16NDocs), kind}
		}
		x := rnd.Intn(100)
		mutPct, advPct := 6, 0
		if adversarial {
			mutPct, advPct = 14, 35
		}
		switch {
		case x < 34:
			return &c16Op{kind: "get", key: pickKey()}
		case x < 42:
			return &c16Op{kind: "getactive", doc: rnd.Intn(c16NDocs + 1)}
		case x < 60:
			k := cvKey()
			kind := "put"
			if rnd.Chance(45) {
				kind = "upsert"
			}
			c := w.writeThrough(k)
			adv := false
			if c == nil || rnd.Chance(advPct) {
				c, adv = c16AdvContent(k, rnd.Intn(3)), true
			}
			return &c16Op{kind: kind, key: k, content: c, adv: adv}
		case x < 74:
			return &c16Op{kind: "remove", key: pickKey()}
		case x < 100-mutPct:
			return &c16Op{kind: "peek", key: pickKey()}
		default:
			return &c16Op{kind: "mutate", doc: rnd.Intn(c16NDocs), mut: rnd.Intn(6)}
		}
	})
}

// ---------------------------------------------------------------------------------------------
// scheduled overlaps on the real code: a Get whose loader is held open while other calls run
// ---------------------------------------------------------------------------------------------
type c16Sched struct {
	between []string // calls issued while the first Get sits in its loader: put upsert remove get evictnum peek evictmem
	loadOK  bool     // the held load succeeds / fails with 404
}

func (s c16Sched) String() string {
	return fmt.Sprintf("Get(k) enters loader; %s; loader returns ok=%v", strings.Join(s.between, "; "), s.loadOK)
}

func c16RunSched(r *c16Runner, s c16Sched, variant string) {
	w := c16NewWorld(r.ctx)
	k := c16Key{0, 2}
	content := w.fresh[k.num()].ok // what storage holds (and what the writer puts): sizes agree by construction
	other := w.fresh[c16Key{1, 2}.num()].ok
	cfg := c16Cfg{variant: variant, cap: 2, shards: 1}
	if variant == "orch" {
		cfg.cap = 3                                   // "evictnum" then evicts by bytes instead of by count
		cfg.maxb = int64(content.size + other.size/2) // one item fits, two do not
	}
	t := c16NewTarget(cfg, w.store)
	entered, release := make(chan struct{}, 8), make(chan struct{})
	var armed sync.Once
	w.store.hook = func(docid string) {
		first := false
		armed.Do(func() { first = true })
		if first {
			entered <- struct{}{}
			<-release
		}
	}
	if !s.loadOK {
		w.store.mu.Lock()
		w.store.docs["d0"].getErr = ErrMissing
		w.store.mu.Unlock()
	}
	var wg sync.WaitGroup
	wg.Add(1)
	go func() {
		defer wg.Done()
		_, _, _ = t.rc.Get(r.ctx, k.docID(), k.version(), testCollectionID, RevCacheDontLoadBackupRev)
	}()
	<-entered
	settle := func(done chan struct{}) {
		select {
		case <-done:
		case <-time.After(15 * time.Millisecond): // blocked on the value lock held by the loader: leave it pending
		}
	}
	for _, b := range s.between {
		done := make(chan struct{})
		wg.Add(1)
		b := b
		go func() {
			defer wg.Done()
			defer close(done)
			switch b {
			case "put":
				_ = t.rc.Put(r.ctx, content.rev, testCollectionID)
			case "upsert":
				_ = t.rc.Upsert(r.ctx, content.rev, testCollectionID)
			case "remove":
				t.rc.Remove(r.ctx, k.docID(), k.version(), testCollectionID)
			case "get":
				_, _, _ = t.rc.Get(r.ctx, k.docID(), k.version(), testCollectionID, RevCacheDontLoadBackupRev)
			case "peek":
				_, _ = t.rc.Peek(r.ctx, k.docID(), k.version(), testCollectionID)
			case "evictnum": // two other keys push the placeholder out of a capacity-2 list
				_ = t.rc.Upsert(r.ctx, other.rev, testCollectionID)
				_ = t.rc.Upsert(r.ctx, w.fresh[c16Key{2, 2}.num()].ok.rev, testCollectionID)
			case "evictmem":
				_ = t.rc.Upsert(r.ctx, other.rev, testCollectionID)
			}
		}()
		settle(done)
	}
	close(release)
	wg.Wait()
	snap, _ := t.snapshot()
	key := variant + "|" + s.String()
	r.rec.Count("scheduled", "overlap:"+variant, key, true)
	in := map[string]any{"variant": variant, "schedule": s.String(), "key": "d0 @ current CV", "put_size": content.size}
	bad := ""
	if t.items.Value() != int64(snap.n) || snap.mapN != snap.n {
		bad = fmt.Sprintf("items gauge %d, list %d, map %d", t.items.Value(), snap.n, snap.mapN)
	}
	if t.mem.Value() != snap.sized || !snap.allSized {
		bad += fmt.Sprintf(" bytes gauge %d but cached Sized values sum to %d (allSized=%v, cached=%d)", t.mem.Value(), snap.sized, snap.allSized, snap.n)
	}
	if bad != "" {
		sig := "scheduled-overlap-gauge-drift"
		if len(s.between) == 1 && s.between[0] == "put" && !s.loadOK && variant == "lru" {
			sig = "failed-load-put-race-leak" // the minimal schedule of the defect found in the unchanged tree
		}
		r.rec.Fail("accounting_all_interleavings", sig, in, "at quiescence:"+bad)
	}
}

func c16Scheduled(r *c16Runner) {
	// the minimal schedule first, so that it is the one reported
	c16RunSched(r, c16Sched{between: []string{"put"}, loadOK: false}, "lru")
	calls := []string{"put", "upsert", "remove", "get", "peek", "evictnum", "evictmem"}
	for _, variant := range []string{"lru", "orch"} {
		for _, ok := range []bool{false, true} {
			c16RunSched(r, c16Sched{loadOK: ok}, variant)
			for _, a := range calls {
				c16RunSched(r, c16Sched{between: []string{a}, loadOK: ok}, variant)
				if variant == "orch" && !vThorough() {
					continue
				}
				for _, b := range calls {
					if a == "get" && b == "get" {
						continue
					}
					c16RunSched(r, c16Sched{between: []string{a, b}, loadOK: ok}, variant)
				}
			}
		}
	}
}

// ---------------------------------------------------------------------------------------------
// unscheduled stress: many goroutines, shared keys, loader with delays and failures; recount at rest
// ---------------------------------------------------------------------------------------------
func c16Stress(r *c16Runner, seed uint64, variant string) {
	w := c16NewWorld(r.ctx)
	cfg := c16Cfg{variant: variant, cap: 3, shards: 1}
	if variant != "lru" {
		cfg.maxb = 170
	}
	if variant == "sharded" {
		cfg.shards, cfg.cap, cfg.maxb = 2, 5, 340
	}
	t := c16NewTarget(cfg, w.store)
	var hookRnd sync.Mutex
	hr := vNewRand(seed ^ 0xabcdef)
	w.store.hook = func(docid string) {
		hookRnd.Lock()
		d := hr.Intn(4)
		flip := hr.Chance(8)
		hookRnd.Unlock()
		if flip { // transient outage of one document
			w.store.mu.Lock()
			doc := w.store.docs[docid]
			if doc != nil && !doc.nilDoc {
				if doc.getErr == nil {
					doc.getErr = ErrMissing
				} else {
					doc.getErr = nil
				}
			}
			w.store.mu.Unlock()
		}
		if d > 0 {
			time.Sleep(time.Duration(d*30) * time.Microsecond)
		}
	}
	var wg sync.WaitGroup
	nG, nOps := 16, vBudget(150, 600)
	for g := 0; g < nG; g++ {
		wg.Add(1)
		rg := vNewRand(seed*1000 + uint64(g))
		go func() {
			defer wg.Done()
			for i := 0; i < nOps; i++ {
				k := c16Key{rg.Intn(c16NDocs), 2}
				if rg.Chance(20) {
					k.kind = 1
				}
				switch x := rg.Intn(100); {
				case x < 40:
					_, _, _ = t.rc.Get(r.ctx, k.docID(), k.version(), testCollectionID, RevCacheDontLoadBackupRev)
				case x < 48:
					_, _, _ = t.rc.GetActive(r.ctx, k.docID(), testCollectionID)
				case x < 62:
					k.kind = 2
					_ = t.rc.Put(r.ctx, w.fresh[k.num()].ok.rev, testCollectionID)
				case x < 72:
					k.kind = 2
					_ = t.rc.Upsert(r.ctx, w.fresh[k.num()].ok.rev, testCollectionID)
				case x < 90:
					t.rc.Remove(r.ctx, k.docID(), k.version(), testCollectionID)
				default:
					_, _ = t.rc.Peek(r.ctx, k.docID(), k.version(), testCollectionID)
				}
			}
		}()
	}
	wg.Wait()
	snap, _ := t.snapshot()
	r.rec.Count("stress", "stress:"+variant, fmt.Sprintf("%d|%s", seed, variant), true)
	in := map[string]any{"variant": variant, "seed": seed, "goroutines": nG, "ops_each": nOps}
	if t.items.Value() != int64(snap.n) || snap.mapN != snap.n || snap.overCap {
		r.rec.Fail("items_gauge_exact", "concurrent-items-drift", in, fmt.Sprintf("at rest: items gauge %d, list %d, map %d, overCap=%v", t.items.Value(), snap.n, snap.mapN, snap.overCap))
	}
	if t.mem.Value() != snap.sized || !snap.allSized {
		r.rec.Fail("accounting_all_interleavings", "concurrent-gauge-drift", in, fmt.Sprintf("at rest: bytes gauge %d, cached Sized values sum to %d, allSized=%v", t.mem.Value(), snap.sized, snap.allSized))
	}
	// emptied clause
	for _, k := range c16Drain(t) {
		t.rc.Remove(r.ctx, k.docID(), k.version(), testCollectionID)
	}
	if t.items.Value() != 0 || t.mem.Value() != 0 {
		r.rec.Fail("emptied_gauges_zero", "concurrent-gauge-nonzero-when-empty", in, fmt.Sprintf("after removing everything: items=%d bytes=%d", t.items.Value(), t.mem.Value()))
	}
}

// hammer: many goroutines on ONE key with an instant loader, so that Remove / eviction land inside the
// few-instruction windows between itemBytes.Store, the CAS and the increment
func c16Hammer(r *c16Runner, seed uint64, variant string) {
	w := c16NewWorld(r.ctx)
	cfg := c16Cfg{variant: variant, cap: 2, shards: 1}
	if variant == "orch" {
		cfg.maxb = 150
	}
	t := c16NewTarget(cfg, w.store)
	k := c16Key{0, 2}
	k2 := c16Key{1, 2}
	content, content2 := w.fresh[k.num()].ok, w.fresh[k2.num()].ok
	var wg sync.WaitGroup
	nG, nOps := 8, vBudget(12000, 40000)
	for g := 0; g < nG; g++ {
		wg.Add(1)
		rg := vNewRand(seed*7919 + uint64(g))
		go func() {
			defer wg.Done()
			for i := 0; i < nOps; i++ {
				switch x := rg.Intn(100); {
				case x < 30:
					_ = t.rc.Put(r.ctx, content.rev, testCollectionID)
				case x < 60:
					t.rc.Remove(r.ctx, k.docID(), k.version(), testCollectionID)
				case x < 80:
					_, _, _ = t.rc.Get(r.ctx, k.docID(), k.version(), testCollectionID, RevCacheDontLoadBackupRev)
				case x < 88:
					_ = t.rc.Upsert(r.ctx, content.rev, testCollectionID)
				case x < 94:
					_ = t.rc.Put(r.ctx, content2.rev, testCollectionID)
				default:
					t.rc.Remove(r.ctx, k2.docID(), k2.version(), testCollectionID)
				}
			}
		}()
	}
	wg.Wait()
	snap, _ := t.snapshot()
	r.rec.Count("stress", "hammer:"+variant, fmt.Sprintf("%d|%s", seed, variant), true)
	in := map[string]any{"variant": variant, "seed": seed, "goroutines": nG, "ops_each": nOps, "keys": "d0@cv, d1@cv"}
	if t.items.Value() != int64(snap.n) || snap.mapN != snap.n || snap.overCap {
		r.rec.Fail("items_gauge_exact", "concurrent-items-drift", in, fmt.Sprintf("at rest: items gauge %d, list %d, map %d, overCap=%v", t.items.Value(), snap.n, snap.mapN, snap.overCap))
	}
	if t.mem.Value() != snap.sized || !snap.allSized {
		r.rec.Fail("accounting_all_interleavings", "concurrent-gauge-drift", in, fmt.Sprintf("at rest: bytes gauge %d, cached Sized values sum to %d, allSized=%v", t.mem.Value(), snap.sized, snap.allSized))
	}
}

// ---------------------------------------------------------------------------------------------
// system level: two database contexts ("nodes") on one bucket with tiny revision caches; real writes and
// reads; every revision served from a node's cache is compared with the bypass loader on that node's own
// collection; a metadata-only channel change (user xattr, no new revision) must stop being served stale on
// BOTH nodes once the mutation feed has delivered it (node A: write path, node B: only DocChanged).
// Also measures the size hypothesis: itemBytes of every cached value vs CalculateBytes of a fresh load.
// ---------------------------------------------------------------------------------------------
type c16Node struct {
	name   string
	db     *Database
	ctx    context.Context
	col    *DatabaseCollectionWithUser
	bypass *BypassRevisionCache
}

func c16System(r *c16Runner) {
	t := r.t
	defer SuspendSequenceBatching()()
	tb := base.GetTestBucket(t)
	defer tb.Close(base.TestCtx(t))
	const xattrKey = "channels"
	syncFn := `function (doc, oldDoc, meta){ if (meta.xattrs.channels !== undefined){ channel(meta.xattrs.channels); } else { channel("none"); } }`
	mk := func(name string, insertOnWrite bool, importing bool) *c16Node {
		opts := DatabaseContextOptions{UserXattrKey: xattrKey,
			RevisionCacheOptions: &RevisionCacheOptions{MaxItemCount: 5, ShardCount: 1, MaxBytes: 900, InsertOnWrite: insertOnWrite}}
		var db *Database
		var ctx context.Context
		if importing {
			db, ctx = setupTestDBWithOptionsAndImport(t, tb.NoCloseClone(), opts)
		} else { // a node without import: its cache learns of the change only through DocChanged on the feed
			db, ctx = SetupTestDBForBucketWithOptions(t, tb.NoCloseClone(), opts)
		}
		col, ctx := GetSingleDatabaseCollectionWithUser(ctx, t, db)
		if _, err := col.UpdateSyncFun(ctx, syncFn); err != nil {
			t.Fatalf("sync fn: %v", err)
		}
		bs := map[uint32]RevisionCacheBackingStore{col.GetCollectionID(): col.DatabaseCollection}
		return &c16Node{name: name, db: db, ctx: ctx, col: col, bypass: NewBypassRevisionCache(bs, &base.SgwIntStat{})}
	}
	a, b := mk("A", true, true), mk("B", false, false)
	defer a.db.Close(a.ctx)
	defer b.db.Close(b.ctx)
	nodes := []*c16Node{a, b}
	served, stale, sizeChecked, sizeMismatch, channelChanges := 0, 0, 0, 0, 0

	// compare what the node's cache serves with a fresh load on the same node
	compare := func(n *c16Node, docID, version, when string) {
		cached, cerr := n.col.revisionCache.Get(n.ctx, docID, version, RevCacheDontLoadBackupRev)
		fresh, _, ferr := n.bypass.Get(n.ctx, docID, version, n.col.GetCollectionID(), RevCacheDontLoadBackupRev)
		served++
		in := map[string]any{"node": n.name, "doc": docID, "version": version, "when": when}
		r.rec.Count("system", "system-get", fmt.Sprintf("%s|%s|%s|%s", n.name, docID, version, when), strings.Contains(when, "xattr"))
		if (cerr != nil) != (ferr != nil) {
			r.rec.Fail("get_equals_fresh_load", "system-served-differs-from-storage", in, fmt.Sprintf("cache err=%v, fresh load err=%v", cerr, ferr))
			return
		}
		if cerr != nil {
			return
		}
		pc, _ := c16Project(cached)
		pf, _ := c16Project(fresh)
		if pc != pf {
			stale++
			r.rec.Fail("stale_dropped_after_feed", "system-served-differs-from-storage", in, fmt.Sprintf("cache serves %s, a fresh load returns %s", pc, pf))
		}
	}
	active := func(n *c16Node, docID, when string) {
		cached, cerr := n.col.revisionCache.GetActive(n.ctx, docID)
		fresh, _, ferr := n.bypass.GetActive(n.ctx, docID, n.col.GetCollectionID())
		served++
		r.rec.Count("system", "system-getactive", fmt.Sprintf("%s|%s|%s", n.name, docID, when), strings.Contains(when, "xattr"))
		if (cerr != nil) != (ferr != nil) {
			r.rec.Fail("get_equals_fresh_load", "system-served-differs-from-storage", map[string]any{"node": n.name, "doc": docID, "when": when}, fmt.Sprintf("GetActive: cache err=%v, fresh err=%v", cerr, ferr))
			return
		}
		if cerr == nil {
			pc, _ := c16Project(cached)
			pf, _ := c16Project(fresh)
			if pc != pf {
				r.rec.Fail("stale_dropped_after_feed", "system-served-differs-from-storage", map[string]any{"node": n.name, "doc": docID, "when": when}, fmt.Sprintf("GetActive serves %s, fresh %s", pc, pf))
			}
		}
	}
	// recount of a node's cache + size hypothesis
	audit := func(n *c16Node, when string) {
		o, ok := n.db.revisionCache.(*RevisionCacheOrchestrator)
		if !ok {
			return
		}
		l := o.revisionCache
		stats := n.db.DbStats.Cache()
		l.lock.Lock()
		var sized int64
		allSized := true
		type kv struct {
			doc, ver string
			bytes    int64
		}
		var vals []kv
		for e := l.lruList.Front(); e != nil; e = e.Next() {
			v := e.Value.(*revCacheValue)
			if v.memState.Load() == memStateSized {
				sized += v.getItemBytes()
			} else {
				allSized = false
			}
			vals = append(vals, kv{v.itemKey.docID, v.itemKey.docVersion, v.getItemBytes()})
		}
		n1, n2, cap := l.lruList.Len(), len(l.cache), int(l.capacity)
		l.lock.Unlock()
		in := map[string]any{"node": n.name, "when": when}
		if n1 > cap {
			r.rec.Fail("capacity_bound", "system-capacity-exceeded", in, fmt.Sprintf("%d items, capacity %d", n1, cap))
		}
		if stats.RevisionCacheNumItems.Value() != int64(n1) || n1 != n2 {
			r.rec.Fail("items_gauge_exact", "system-items-gauge-drift", in, fmt.Sprintf("gauge %d list %d map %d", stats.RevisionCacheNumItems.Value(), n1, n2))
		}
		if stats.RevisionCacheTotalMemory.Value() != sized || !allSized {
			r.rec.Fail("bytes_gauge_exact", "system-bytes-gauge-drift", in, fmt.Sprintf("gauge %d, cached Sized values sum to %d, allSized=%v", stats.RevisionCacheTotalMemory.Value(), sized, allSized))
		}
		if o.memoryController.capacity > 0 && stats.RevisionCacheTotalMemory.Value() > o.memoryController.capacity {
			r.rec.Fail("memory_bound", "system-over-byte-limit-at-rest", in, fmt.Sprintf("gauge %d limit %d", stats.RevisionCacheTotalMemory.Value(), o.memoryController.capacity))
		}
		for _, x := range vals { // the hypothesis of the byte theorem, measured: accounted size = size of a fresh load
			fresh, _, err := n.bypass.Get(n.ctx, x.doc, x.ver, n.col.GetCollectionID(), RevCacheDontLoadBackupRev)
			if err != nil {
				continue
			}
			fresh.CalculateBytes()
			sizeChecked++
			if fresh.MemoryBytes != x.bytes {
				sizeMismatch++
				r.rec.Sample(map[string]any{"size_hypothesis_mismatch": fmt.Sprintf("node %s %s@%s accounted %d, fresh load %d (%s)", n.name, x.doc, x.ver, x.bytes, fresh.MemoryBytes, when)})
			}
		}
	}
	wait := func() {
		for _, n := range nodes {
			n.db.WaitForPendingChanges(t)
		}
	}

	// ---- writes on A (write path Puts into A's cache), reads on both ----
	type docInfo struct{ id, rev, cv string }
	var docs []docInfo
	for i := 0; i < 7; i++ {
		id := fmt.Sprintf("c16sys%d", i)
		rev, doc, err := a.col.Put(a.ctx, id, Body{"n": i, "pad": strings.Repeat("p", 10*i)})
		if err != nil {
			t.Fatalf("put: %v", err)
		}
		docs = append(docs, docInfo{id, rev, doc.HLV.GetCurrentVersionString()})
	}
	wait()
	for _, n := range nodes {
		for _, d := range docs {
			compare(n, d.id, d.rev, "after write")
			compare(n, d.id, d.cv, "after write")
		}
		for _, d := range docs[:3] {
			active(n, d.id, "after write")
		}
		audit(n, "after write")
	}
	// a second revision of some documents (old revision ids / CVs remain requestable)
	for i := 0; i < 3; i++ {
		d := docs[i]
		rev2, doc2, err := a.col.Put(a.ctx, d.id, Body{BodyRev: d.rev, "n": i, "v": 2})
		if err != nil {
			t.Fatalf("put2: %v", err)
		}
		wait()
		for _, n := range nodes {
			compare(n, d.id, rev2, "after update")
			compare(n, d.id, doc2.HLV.GetCurrentVersionString(), "after update")
			active(n, d.id, "after update")
		}
		docs[i] = docInfo{d.id, rev2, doc2.HLV.GetCurrentVersionString()}
	}
	// ---- metadata-only channel change: cache the current revision on both nodes, change the user xattr ----
	ds := a.col.dataStore
	for round, ch := range []string{"DEF", "GHI"} {
		for i := 2; i < 6; i++ {
			d := docs[i]
			for _, n := range nodes { // make sure the revision is resident (by revID) on both nodes
				_, _ = n.col.revisionCache.Get(n.ctx, d.id, d.rev, RevCacheDontLoadBackupRev)
			}
			cas, err := ds.Get(a.ctx, d.id, nil)
			if err != nil {
				t.Fatalf("get cas: %v", err)
			}
			val, _ := json.Marshal(fmt.Sprintf("%s%d", ch, i))
			if _, err = ds.UpdateXattrs(a.ctx, d.id, 0, cas, map[string][]byte{xattrKey: val}, nil); err != nil {
				t.Fatalf("update xattr: %v", err)
			}
			// the import (on demand here if the feed has not done it yet) re-runs the sync function without a new revision
			importer := a
			_ = round
			if _, err := importer.col.GetDocument(importer.ctx, d.id, DocUnmarshalAll); err != nil {
				t.Fatalf("import: %v", err)
			}
			wait()
			// the harness's own sanity: same revision id, new channel in storage (otherwise the clause is vacuous)
			if fr, _, err := importer.bypass.Get(importer.ctx, d.id, d.rev, importer.col.GetCollectionID(), RevCacheDontLoadBackupRev); err != nil || !fr.Channels.Contains(fmt.Sprintf("%s%d", ch, i)) {
				r.rec.Fail("harness", "system-channel-change-not-effective", map[string]any{"doc": d.id, "rev": d.rev}, fmt.Sprintf("after the user-xattr change a fresh load of the SAME revision gives err=%v channels=%v", err, fr.Channels))
			} else {
				channelChanges++
			}
			for _, n := range nodes {
				compare(n, d.id, d.rev, "after user-xattr channel change + feed")
				active(n, d.id, "after user-xattr channel change + feed")
			}
		}
		for _, n := range nodes {
			audit(n, "after user-xattr round")
		}
	}
	r.rec.Extra("system_served_compared", served)
	r.rec.Extra("system_stale", stale)
	r.rec.Extra("system_metadata_only_channel_changes", channelChanges)
	r.rec.Extra("system_size_hypothesis_checked", sizeChecked)
	r.rec.Extra("system_size_hypothesis_mismatches", sizeMismatch)
}

// ---------------------------------------------------------------------------------------------
func TestVerifC16(t *testing.T) {
	rec := vNewRecorder(t, "C16", "C16.C16_Corr")
	defer rec.Finish()
	ctx := base.TestCtx(t)
	r := &c16Runner{t: t, rec: rec, ctx: ctx}
	rnd := vNewRand(vSeed())

	// ---- (a) corpus ----
	k02, k12, k22, k05 := c16Key{0, 2}, c16Key{1, 2}, c16Key{2, 2}, c16Key{0, 5}
	script := func(stream string, cfg c16Cfg, mk func(w *c16World) []c16Op) {
		var ops []c16Op
		r.runCase(stream, cfg, true, func(step int, w *c16World, t *c16Target) *c16Op {
			if step == 0 {
				ops = mk(w)
			}
			if step < len(ops) {
				return &ops[step]
			}
			return nil
		})
	}
	for _, cfg := range []c16Cfg{{variant: "lru", cap: 2, shards: 1}, {variant: "orch", cap: 2, shards: 1}, {variant: "orch", cap: 3, maxb: 150, shards: 1},
		{variant: "sharded", cap: 4, maxb: 400, shards: 2}, {variant: "lru", cap: 0, shards: 1}, {variant: "lru", cap: 1, shards: 1}} {
		// put_resize_drift: Put of a different size onto an accounted value, then Remove
		script("corpus", cfg, func(w *c16World) []c16Op {
			return []c16Op{{kind: "get", key: k02}, {kind: "put", key: k02, content: c16AdvContent(k02, 2), adv: true}, {kind: "remove", key: k02}}
		})
		// failed load, then the write arrives, then loads and evictions
		script("corpus", cfg, func(w *c16World) []c16Op {
			return []c16Op{{kind: "get", key: k05}, {kind: "mutate", doc: 0, mut: 5}, {kind: "get", key: k05}, {kind: "get", key: k12}, {kind: "get", key: k22},
				{kind: "peek", key: k05}, {kind: "getactive", doc: 0}, {kind: "getactive", doc: 3}, {kind: "remove", key: k12}, {kind: "remove", key: k22}}
		})
		// metadata-only channel change: stale until the feed-driven Remove
		script("corpus", cfg, func(w *c16World) []c16Op {
			return []c16Op{{kind: "get", key: k02}, {kind: "mutate", doc: 0, mut: 0}, {kind: "get", key: k02}, {kind: "remove", key: k02}, {kind: "get", key: k02},
				{kind: "mutate", doc: 0, mut: 3}, {kind: "get", key: k02}, {kind: "getactive", doc: 0}, {kind: "remove", key: k02}, {kind: "get", key: k02}}
		})
		// upserts of different sizes replace exactly
		script("corpus", cfg, func(w *c16World) []c16Op {
			return []c16Op{{kind: "upsert", key: k02, content: c16AdvContent(k02, 0), adv: true}, {kind: "upsert", key: k02, content: c16AdvContent(k02, 2), adv: true},
				{kind: "upsert", key: k02, content: w.writeThrough(k02)}, {kind: "upsert", key: k12, content: w.writeThrough(k12)},
				{kind: "upsert", key: k22, content: w.writeThrough(k22)}, {kind: "remove", key: k02}, {kind: "remove", key: k12}, {kind: "remove", key: k22}}
		})
	}

	// ---- (c) random: structured mostly-valid stream and adversarial stream, spread between the
	// exhaustive cases (shard balance); the remainder runs after them ----
	nRandom, nAdv := vBudget(260, 2500), vBudget(180, 1500)
	c16Between = func(idx int) {
		if idx%3 == 0 && nRandom > 0 {
			nRandom--
			c16RandomCase(r, rnd, "random", false)
		} else if idx%3 == 1 && nAdv > 0 {
			nAdv--
			c16RandomCase(r, rnd, "adversarial", true)
		}
	}
	defer func() { c16Between = nil }()

	// ---- (b) bounded-exhaustive ----
	n := 0
	n += c16Exhaustive(r, "exhaustive", c16Cfg{variant: "orch", cap: 2, maxb: 100, shards: 1}, 3, true, true)
	n += c16Exhaustive(r, "exhaustive", c16Cfg{variant: "lru", cap: 1, shards: 1}, 2, true, true)
	n += c16Exhaustive(r, "exhaustive", c16Cfg{variant: "orch", cap: 1, maxb: 0, shards: 1}, 2, true, true)
	n += c16Exhaustive(r, "exhaustive", c16Cfg{variant: "sharded", cap: 2, maxb: 200, shards: 2}, 2, true, true)
	// longer sequences: monitors only (the Go-side reflections of the theorems on the real structures)
	monLen := 4
	if vThorough() {
		monLen = 5
	}
	n += c16Exhaustive(r, "exhaustive-monitored", c16Cfg{variant: "orch", cap: 2, maxb: 100, shards: 1}, monLen, false, true)
	n += c16Exhaustive(r, "exhaustive-monitored", c16Cfg{variant: "lru", cap: 2, shards: 1}, 4, false, true)
	rec.Extra("exhaustive", true)
	rec.Extra("exhaustive_sequences", n)
	rec.Extra("exhaustive_alphabet", len(c16Alphabet(c16NewWorld(ctx))))

	c16Between = nil
	for ; nRandom > 0; nRandom-- {
		c16RandomCase(r, rnd, "random", false)
	}
	for ; nAdv > 0; nAdv-- {
		c16RandomCase(r, rnd, "adversarial", true)
	}

	// ---- (c2) orchestrator WITH delta cache: UpdateDelta / GetWithDelta streams (Coq cases + monitors) ----
	c16DeltaStreams(r, rnd)

	// ---- (d) scheduled overlaps of load / put / remove / evict on the real code (monitors) ----
	c16Scheduled(r)

	// ---- (d2) the same kind of overlaps, parked deterministically, emitted as step-level Coq cases ----
	c16StepSchedules(r, rnd)

	// ---- (e) unscheduled concurrent stress, recount at rest ----
	for i := 0; i < vBudget(4, 12); i++ {
		c16Stress(r, vSeed()*131+uint64(i), []string{"orch", "lru", "sharded"}[i%3])
	}
	for i := 0; i < 2; i++ {
		c16Hammer(r, vSeed()*17+uint64(i), []string{"lru", "orch"}[i%2])
	}

	c16SingleFlightStorm(r, vSeed())

	// ---- (e2) cache coherence across writers: two nodes on one bucket, DocChanged-driven invalidation ----
	c16Coherence(r, rnd)

	// ---- (f) system level: real databases, tiny caches, bypass comparison, user-xattr channel change ----
	c16System(r)
}
