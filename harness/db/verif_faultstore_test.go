//go:build verif

package db

import (
	"context"
	"encoding/binary"
	"errors"
	"runtime"
	"strconv"
	"strings"
	"sync"

	sgbucket "github.com/couchbase/sg-bucket"
	"github.com/couchbase/sync_gateway/base"
)

// vFaultStore decorates a base.DataStore (assigned in-package to DatabaseCollection.dataStore and to
// sequenceAllocator.datastore).  It (a) lets a harness run code between a write's update callback and its
// compare-and-swap write (to force CAS retries with chosen competing writes), (b) injects storage errors
// per operation, (c) records the storage operations of a request and the sequences published as unused.
type vFaultStore struct {
	base.DataStore
	mu sync.Mutex

	// onAttempt is called after the update callback of attempt n (1-based) on key returned cbErr and before
	// the write; returning an error makes the write fail with that error. Not re-entered by nested writes.
	onAttempt func(key string, attempt int, cbErr error) error
	depth     int
	// failOp: consulted for every intercepted storage operation; a non-nil error is returned instead of
	// performing the operation.
	failOp func(op, key string) error
	trace  []string // "op key" for each intercepted operation (when tracing)
	tracing bool
	readFaults bool
	onlyGoroutine uint64 // when non-zero: only operations issued by this goroutine are traced / faulted
	onMark     func(mark string) // trace-only markers (never faulted): end of a WriteUpdateWithXattrs call ("~end key"; with noteAttempts "~fail key" when the call failed)
	// noteAttempts (C11 only; C05 / C14 leave it unset and keep the behaviour above): see WriteUpdateWithXattrs
	noteAttempts bool

	released []uint64 // sequences published as unused through AddRaw of _sync:unusedSeq(s) documents
}

var errVInjected = errors.New("verif: injected storage error")

// vGoID returns the current goroutine's id (parsed from the stack header); used to restrict fault injection and
// tracing to the goroutine that runs the request under test, so that feed / background goroutines using the same
// decorated store neither consume fault targets nor appear in traces.
func vGoID() uint64 {
	var buf [64]byte
	n := runtime.Stack(buf[:], false)
	// "goroutine 123 [running]:..."
	fields := strings.Fields(string(buf[:n]))
	if len(fields) < 2 {
		return 0
	}
	id, _ := strconv.ParseUint(fields[1], 10, 64)
	return id
}

func (f *vFaultStore) note(op, key string) error {
	if f.onlyGoroutine != 0 && vGoID() != f.onlyGoroutine {
		return nil
	}
	f.mu.Lock()
	if f.tracing {
		f.trace = append(f.trace, op+" "+key)
	}
	fo := f.failOp
	f.mu.Unlock()
	if fo != nil {
		return fo(op, key)
	}
	return nil
}

func (f *vFaultStore) WriteUpdateWithXattrs(ctx context.Context, k string, xattrKeys []string, exp uint32, previous *sgbucket.BucketDocument, opts *sgbucket.MutateInOptions, callback sgbucket.WriteUpdateWithXattrsFunc) (uint64, error) {
	if err := f.note("WriteUpdateWithXattrs", k); err != nil {
		return 0, err
	}
	f.mu.Lock()
	hook := f.onAttempt
	nested := f.depth > 0
	na := f.noteAttempts && (f.onlyGoroutine == 0 || vGoID() == f.onlyGoroutine)
	f.mu.Unlock()
	if na {
		// C11: every attempt's compare-and-swap write is an operation of its own ("WriteAttempt key", noted after
		// the attempt's update callback succeeded and before the write); a fault on it makes the write fail after
		// the callback's side effects (reserved sequence, attachment / revision-body documents) have happened.
		// onAttempt (not re-entered by nested writes) runs first, so that a harness can force a CAS retry.
		attempt := 0
		wrapper := func(current []byte, xattrs map[string][]byte, cas uint64) (sgbucket.UpdatedDoc, error) {
			attempt++
			upd, err := callback(current, xattrs, cas)
			if hook != nil && !nested {
				f.mu.Lock()
				f.depth++
				f.mu.Unlock()
				herr := hook(k, attempt, err)
				f.mu.Lock()
				f.depth--
				f.mu.Unlock()
				if err == nil && herr != nil {
					return upd, herr
				}
			}
			if err == nil {
				if nerr := f.note("WriteAttempt", k); nerr != nil {
					return upd, nerr
				}
			}
			return upd, err
		}
		cas, err := f.DataStore.WriteUpdateWithXattrs(ctx, k, xattrKeys, exp, previous, opts, wrapper)
		f.mu.Lock()
		om := f.onMark
		f.mu.Unlock()
		if om != nil {
			if err == nil {
				om("~end " + k)
			} else {
				om("~fail " + k)
			}
		}
		return cas, err
	}
	if hook == nil || nested {
		cas, err := f.DataStore.WriteUpdateWithXattrs(ctx, k, xattrKeys, exp, previous, opts, callback)
		f.mu.Lock()
		om := f.onMark
		f.mu.Unlock()
		if om != nil {
			om("~end " + k)
		}
		return cas, err
	}
	attempt := 0
	wrapper := func(current []byte, xattrs map[string][]byte, cas uint64) (sgbucket.UpdatedDoc, error) {
		attempt++
		upd, err := callback(current, xattrs, cas)
		f.mu.Lock()
		f.depth++
		f.mu.Unlock()
		herr := hook(k, attempt, err)
		f.mu.Lock()
		f.depth--
		f.mu.Unlock()
		if err == nil && herr != nil {
			return upd, herr
		}
		return upd, err
	}
	return f.DataStore.WriteUpdateWithXattrs(ctx, k, xattrKeys, exp, previous, opts, wrapper)
}

func (f *vFaultStore) AddRaw(ctx context.Context, k string, exp uint32, v []byte) (bool, error) {
	if err := f.note("AddRaw", k); err != nil {
		return false, err
	}
	added, err := f.DataStore.AddRaw(ctx, k, exp, v)
	if err == nil && strings.Contains(k, "unusedSeq") {
		f.mu.Lock()
		if len(v) == 8 {
			f.released = append(f.released, binary.LittleEndian.Uint64(v))
		} else if len(v) == 16 {
			from, to := binary.LittleEndian.Uint64(v[:8]), binary.LittleEndian.Uint64(v[8:16])
			for s := from; s <= to && s-from < 100000; s++ {
				f.released = append(f.released, s)
			}
		}
		f.mu.Unlock()
	}
	return added, err
}

func (f *vFaultStore) Add(ctx context.Context, k string, exp uint32, v any) (bool, error) {
	if err := f.note("Add", k); err != nil {
		return false, err
	}
	return f.DataStore.Add(ctx, k, exp, v)
}
func (f *vFaultStore) SetRaw(ctx context.Context, k string, exp uint32, opts *sgbucket.UpsertOptions, v []byte) error {
	if err := f.note("SetRaw", k); err != nil {
		return err
	}
	return f.DataStore.SetRaw(ctx, k, exp, opts, v)
}
func (f *vFaultStore) Set(ctx context.Context, k string, exp uint32, opts *sgbucket.UpsertOptions, v any) error {
	if err := f.note("Set", k); err != nil {
		return err
	}
	return f.DataStore.Set(ctx, k, exp, opts, v)
}
func (f *vFaultStore) Delete(ctx context.Context, k string) error {
	if err := f.note("Delete", k); err != nil {
		return err
	}
	return f.DataStore.Delete(ctx, k)
}
func (f *vFaultStore) WriteCas(ctx context.Context, k string, exp uint32, cas uint64, v any, opt sgbucket.WriteOptions) (uint64, error) {
	if err := f.note("WriteCas", k); err != nil {
		return 0, err
	}
	return f.DataStore.WriteCas(ctx, k, exp, cas, v, opt)
}
func (f *vFaultStore) Update(ctx context.Context, k string, exp uint32, callback sgbucket.UpdateFunc) (uint64, error) {
	if err := f.note("Update", k); err != nil {
		return 0, err
	}
	return f.DataStore.Update(ctx, k, exp, callback)
}
func (f *vFaultStore) Remove(ctx context.Context, k string, cas uint64) (uint64, error) {
	if err := f.note("Remove", k); err != nil {
		return 0, err
	}
	return f.DataStore.Remove(ctx, k, cas)
}
func (f *vFaultStore) Incr(ctx context.Context, k string, amt, def uint64, exp uint32) (uint64, error) {
	if err := f.note("Incr", k); err != nil {
		return 0, err
	}
	return f.DataStore.Incr(ctx, k, amt, def, exp)
}
func (f *vFaultStore) Touch(ctx context.Context, k string, exp uint32) (uint64, error) {
	if err := f.note("Touch", k); err != nil {
		return 0, err
	}
	return f.DataStore.Touch(ctx, k, exp)
}
func (f *vFaultStore) SetXattrs(ctx context.Context, k string, xv map[string][]byte) (uint64, error) {
	if err := f.note("SetXattrs", k); err != nil {
		return 0, err
	}
	return f.DataStore.SetXattrs(ctx, k, xv)
}
func (f *vFaultStore) UpdateXattrs(ctx context.Context, k string, exp uint32, cas uint64, xv map[string][]byte, opts *sgbucket.MutateInOptions) (uint64, error) {
	if err := f.note("UpdateXattrs", k); err != nil {
		return 0, err
	}
	return f.DataStore.UpdateXattrs(ctx, k, exp, cas, xv, opts)
}
func (f *vFaultStore) WriteWithXattrs(ctx context.Context, k string, exp uint32, cas uint64, value []byte, xattrsInput map[string][]byte, xattrsToDelete []string, opts *sgbucket.MutateInOptions) (uint64, error) {
	if err := f.note("WriteWithXattrs", k); err != nil {
		return 0, err
	}
	return f.DataStore.WriteWithXattrs(ctx, k, exp, cas, value, xattrsInput, xattrsToDelete, opts)
}
func (f *vFaultStore) DeleteWithXattrs(ctx context.Context, k string, xattrKeys []string) error {
	if err := f.note("DeleteWithXattrs", k); err != nil {
		return err
	}
	return f.DataStore.DeleteWithXattrs(ctx, k, xattrKeys)
}

// ---- sub-document and special xattr writes (principal invalidation uses SubdocInsert) ----
func (f *vFaultStore) SubdocInsert(ctx context.Context, k string, subdocPath string, cas uint64, value interface{}) error {
	if err := f.note("SubdocInsert", k); err != nil {
		return err
	}
	return f.DataStore.SubdocInsert(ctx, k, subdocPath, cas, value)
}
func (f *vFaultStore) WriteSubDoc(ctx context.Context, k string, subdocPath string, cas uint64, value []byte) (uint64, error) {
	if err := f.note("WriteSubDoc", k); err != nil {
		return 0, err
	}
	return f.DataStore.WriteSubDoc(ctx, k, subdocPath, cas, value)
}
func (f *vFaultStore) DeleteSubDocPaths(ctx context.Context, k string, paths ...string) error {
	if err := f.note("DeleteSubDocPaths", k); err != nil {
		return err
	}
	return f.DataStore.DeleteSubDocPaths(ctx, k, paths...)
}
func (f *vFaultStore) RemoveXattrs(ctx context.Context, k string, xattrKeys []string, cas uint64) error {
	if err := f.note("RemoveXattrs", k); err != nil {
		return err
	}
	return f.DataStore.RemoveXattrs(ctx, k, xattrKeys, cas)
}
func (f *vFaultStore) WriteTombstoneWithXattrs(ctx context.Context, k string, exp uint32, cas uint64, xattrValue map[string][]byte, xattrsToDelete []string, deleteBody bool, opts *sgbucket.MutateInOptions) (uint64, error) {
	if err := f.note("WriteTombstoneWithXattrs", k); err != nil {
		return 0, err
	}
	return f.DataStore.WriteTombstoneWithXattrs(ctx, k, exp, cas, xattrValue, xattrsToDelete, deleteBody, opts)
}
func (f *vFaultStore) WriteResurrectionWithXattrs(ctx context.Context, k string, exp uint32, body []byte, xattrs map[string][]byte, opts *sgbucket.MutateInOptions) (uint64, error) {
	if err := f.note("WriteResurrectionWithXattrs", k); err != nil {
		return 0, err
	}
	return f.DataStore.WriteResurrectionWithXattrs(ctx, k, exp, body, xattrs, opts)
}

func (f *vFaultStore) takeReleased() []uint64 {
	f.mu.Lock()
	defer f.mu.Unlock()
	r := f.released
	f.released = nil
	return r
}
func (f *vFaultStore) startTrace() {
	f.mu.Lock()
	f.trace = nil
	f.tracing = true
	f.mu.Unlock()
}
func (f *vFaultStore) stopTrace() []string {
	f.mu.Lock()
	defer f.mu.Unlock()
	f.tracing = false
	t := f.trace
	f.trace = nil
	return t
}

// ---- reads (intercepted only while readFaults is set: the C05 harness does not want them in its traces) ----
func (f *vFaultStore) noteRead(op, key string) error {
	f.mu.Lock()
	on := f.readFaults
	f.mu.Unlock()
	if !on {
		return nil
	}
	return f.note(op, key)
}
func (f *vFaultStore) Get(ctx context.Context, k string, rv interface{}) (uint64, error) {
	if err := f.noteRead("Get", k); err != nil {
		return 0, err
	}
	return f.DataStore.Get(ctx, k, rv)
}
func (f *vFaultStore) GetRaw(ctx context.Context, k string) ([]byte, uint64, error) {
	if err := f.noteRead("GetRaw", k); err != nil {
		return nil, 0, err
	}
	return f.DataStore.GetRaw(ctx, k)
}
func (f *vFaultStore) GetAndTouchRaw(ctx context.Context, k string, exp uint32) ([]byte, uint64, error) {
	if err := f.noteRead("GetAndTouchRaw", k); err != nil {
		return nil, 0, err
	}
	return f.DataStore.GetAndTouchRaw(ctx, k, exp)
}
func (f *vFaultStore) GetXattrs(ctx context.Context, k string, xattrKeys []string) (map[string][]byte, uint64, error) {
	if err := f.noteRead("GetXattrs", k); err != nil {
		return nil, 0, err
	}
	return f.DataStore.GetXattrs(ctx, k, xattrKeys)
}
func (f *vFaultStore) GetWithXattrs(ctx context.Context, k string, xattrKeys []string) ([]byte, map[string][]byte, uint64, error) {
	if err := f.noteRead("GetWithXattrs", k); err != nil {
		return nil, nil, 0, err
	}
	return f.DataStore.GetWithXattrs(ctx, k, xattrKeys)
}

func (f *vFaultStore) GetSubDocRaw(ctx context.Context, k string, subdocPath string) ([]byte, uint64, error) {
	if err := f.noteRead("GetSubDocRaw", k); err != nil {
		return nil, 0, err
	}
	return f.DataStore.GetSubDocRaw(ctx, k, subdocPath)
}
func (f *vFaultStore) GetExpiry(ctx context.Context, k string) (uint32, error) {
	if err := f.noteRead("GetExpiry", k); err != nil {
		return 0, err
	}
	return f.DataStore.GetExpiry(ctx, k)
}
func (f *vFaultStore) Exists(ctx context.Context, k string) (bool, error) {
	if err := f.noteRead("Exists", k); err != nil {
		return false, err
	}
	return f.DataStore.Exists(ctx, k)
}

// ---- pass-through of the optional interfaces the code type-asserts for ----
func (f *vFaultStore) GetUnderlyingDataStore() base.DataStore { return f.DataStore }

func (f *vFaultStore) views() sgbucket.ViewStore {
	vs, _ := base.GetBaseDataStore(f.DataStore).(sgbucket.ViewStore)
	return vs
}
func (f *vFaultStore) GetDDoc(ctx context.Context, docname string) (sgbucket.DesignDoc, error) {
	return f.views().GetDDoc(ctx, docname)
}
func (f *vFaultStore) GetDDocs(ctx context.Context) (map[string]sgbucket.DesignDoc, error) {
	return f.views().GetDDocs(ctx)
}
func (f *vFaultStore) PutDDoc(ctx context.Context, docname string, value *sgbucket.DesignDoc) error {
	return f.views().PutDDoc(ctx, docname, value)
}
func (f *vFaultStore) DeleteDDoc(ctx context.Context, docname string) error {
	return f.views().DeleteDDoc(ctx, docname)
}
func (f *vFaultStore) View(ctx context.Context, ddoc, name string, params map[string]interface{}) (sgbucket.ViewResult, error) {
	return f.views().View(ctx, ddoc, name, params)
}
func (f *vFaultStore) ViewQuery(ctx context.Context, ddoc, name string, params map[string]interface{}) (sgbucket.QueryResultIterator, error) {
	return f.views().ViewQuery(ctx, ddoc, name, params)
}
