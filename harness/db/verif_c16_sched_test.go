//go:build verif

package db

import (
	"fmt"
	"runtime"
	"sort"
	"strconv"
	"strings"
	"sync"
	"sync/atomic"
	"time"
)

// C16, second harness file.
//   (1) c16DeltaStreams: the orchestrator WITH its delta cache (UpdateDelta / GetWithDelta between the
//       revision-cache calls), compared op by op with RevCacheDelta.v (case CDelta) + monitors.
//   (2) c16StepSchedules: real goroutines parked deterministically (inside the loader, on value.lock, on the
//       cache lock; parking is detected from the goroutine's wait state and stack, never by a timeout), the
//       schedule emitted as the list of atomic steps of the interleaving model (case CSched) + monitors
//       counting loader calls (single flight) and comparing the results of overlapping Gets (sharing).

// =================================================================================================
// (1) delta cache, sequential
// =================================================================================================

// delta key = (from key, to kind); the to-version is the version string of key {from.doc, toKind}
type c16DKey struct {
	from   c16Key
	toKind int
}

func (d c16DKey) num() uint64   { return d.from.num()*10 + uint64(d.toKind) }
func (d c16DKey) toVer() string { return c16Key{d.from.doc, d.toKind}.version() }

var c16DKeyByStrings = func() map[string]uint64 {
	m := map[string]uint64{}
	for doc := 0; doc <= c16NDocs; doc++ {
		for kind := 1; kind <= 5; kind++ {
			for tk := 1; tk <= 5; tk++ {
				d := c16DKey{c16Key{doc, kind}, tk}
				m[d.from.docID()+"|"+d.from.version()+"|"+d.toVer()] = d.num()
			}
		}
	}
	return m
}()

// a delta of a chosen size: totalDeltaBytes = 32*len(RevisionHistory) + len(DeltaBytes), computed here independently
func c16MakeDelta(d c16DKey, hist int, body int) (RevisionDelta, uint64) {
	rd := RevisionDelta{ToRevID: "2-b", ToCV: d.toVer(), DeltaBytes: []byte(strings.Repeat("d", body))}
	for i := 0; i < hist; i++ {
		rd.RevisionHistory = append(rd.RevisionHistory, fmt.Sprintf("%d-h", i+1))
	}
	rd.CalculateDeltaBytes()
	return rd, uint64(32*hist + body)
}

type c16DOp struct {
	kind       string // rev | update | getwith
	op         c16Op  // kind == rev
	dk         c16DKey
	hist, body int
}

func (o c16DOp) String() string {
	switch o.kind {
	case "update":
		return fmt.Sprintf("updatedelta dk%d hist=%d body=%d", o.dk.num(), o.hist, o.body)
	case "getwith":
		return fmt.Sprintf("getwithdelta k%d dk%d", o.dk.from.num(), o.dk.num())
	}
	return o.op.String()
}

type c16DSnap struct {
	revKeys, dKeys []uint64
	revSized       int64
	allSized       bool
	dBytes         int64
	mapN, dmapN    int
}

func c16DeltaSnapshot(t *c16Target) c16DSnap {
	s := c16DSnap{allSized: true}
	l := t.shards[0]
	l.lock.Lock()
	for e := l.lruList.Front(); e != nil; e = e.Next() {
		v := e.Value.(*revCacheValue)
		kn, ok := c16KeyNums[v.itemKey.docID+"|"+v.itemKey.docVersion]
		if !ok {
			kn = 9999
		}
		s.revKeys = append(s.revKeys, kn)
		if v.memState.Load() == memStateSized {
			s.revSized += v.getItemBytes()
		} else {
			s.allSized = false
		}
	}
	s.mapN = len(l.cache)
	l.lock.Unlock()
	d := t.delta
	d.lock.Lock()
	for e := d.lruList.Front(); e != nil; e = e.Next() {
		v := e.Value.(*deltaCacheValue)
		kn, ok := c16DKeyByStrings[v.itemKey.docID+"|"+v.itemKey.fromDocVersion+"|"+v.itemKey.toDocVersion]
		if !ok {
			kn = 99999
		}
		s.dKeys = append(s.dKeys, kn)
		s.dBytes += v.delta.totalDeltaBytes
	}
	s.dmapN = len(d.cache)
	d.lock.Unlock()
	return s
}

func (r *c16Runner) runDeltaCase(stream string, cfg c16Cfg, gen func(step int, w *c16World, t *c16Target) *c16DOp) {
	w := c16NewWorld(r.ctx)
	cfg.variant = "orchd"
	t := c16NewTarget(cfg, w.store)
	var ldt, actt []string
	for _, k := range c16AllKeys() {
		if f := w.fresh[k.num()]; f.ok != nil || f.errK != 404 {
			ldt = append(ldt, "("+cqN(k.num())+", "+f.coqL()+")")
		}
	}
	for d := 0; d <= c16NDocs; d++ {
		actt = append(actt, "("+cqN(uint64(d))+", "+w.active[d]+")")
	}
	var coqOps, coqObs, descr []string
	nontrivial, resized := false, false
	input := func() map[string]any {
		return map[string]any{"config": fmt.Sprintf("%+v delta-cache=on", cfg), "ops": append([]string{}, descr...)}
	}
	observe := func(opCoq, resCoq string, flag bool, delta string) {
		sn := c16DeltaSnapshot(t)
		coqOps = append(coqOps, opCoq)
		coqObs = append(coqObs, fmt.Sprintf("DOb %s %v %s (%d) (%d) (%d) %s %s", resCoq, flag, delta,
			t.items.Value(), t.ditems.Value(), t.mem.Value(), cqNList(sn.revKeys), cqNList(sn.dKeys)))
		// ---- monitors (reflections of the C16_delta_* theorems on the real structures) ----
		if t.ditems.Value() != int64(len(sn.dKeys)) || sn.dmapN != len(sn.dKeys) {
			r.rec.Fail("delta_items_exact", "delta-items-drift", input(), fmt.Sprintf("DeltaCacheNumItems=%d, list %d, map %d", t.ditems.Value(), len(sn.dKeys), sn.dmapN))
		}
		if len(sn.dKeys) > int(t.delta.capacity) {
			r.rec.Fail("delta_items_exact", "delta-capacity-exceeded", input(), fmt.Sprintf("%d deltas cached, capacity %d", len(sn.dKeys), t.delta.capacity))
		}
		if t.items.Value() != int64(len(sn.revKeys)) || sn.mapN != len(sn.revKeys) {
			r.rec.Fail("items_gauge_exact", "items-gauge-drift", input(), fmt.Sprintf("RevisionCacheNumItems=%d, list %d, map %d", t.items.Value(), len(sn.revKeys), sn.mapN))
		}
		if !resized {
			if t.mem.Value() != sn.revSized+sn.dBytes || !sn.allSized {
				r.rec.Fail("delta_combined_gauge_exact", "delta-gauge-drift", input(), fmt.Sprintf("RevisionCacheTotalMemory=%d, revisions hold %d, deltas hold %d, allSized=%v", t.mem.Value(), sn.revSized, sn.dBytes, sn.allSized))
			}
			if t.ctrls[0].capacity > 0 && t.mem.Value() > t.ctrls[0].capacity {
				r.rec.Fail("delta_memory_bound", "delta-over-byte-limit-at-rest", input(), fmt.Sprintf("counter %d, limit %d", t.mem.Value(), t.ctrls[0].capacity))
			}
		}
	}
	for step := 0; ; step++ {
		op := gen(step, w, t)
		if op == nil {
			break
		}
		descr = append(descr, op.String())
		r.rec.Count(stream, "dop:"+op.kind, "", false)
		before, dbefore := t.items.Value(), t.ditems.Value()
		switch op.kind {
		case "update":
			rd, sz := c16MakeDelta(op.dk, op.hist, op.body)
			t.rc.UpdateDelta(r.ctx, op.dk.from.docID(), op.dk.from.version(), op.dk.toVer(), testCollectionID, rd)
			observe("DUpdate "+cqN(op.dk.num())+" "+cqN(sz), "RUnit", false, "None")
		case "getwith":
			rev, err := t.rc.GetWithDelta(r.ctx, op.dk.from.docID(), op.dk.from.version(), op.dk.toVer(), testCollectionID)
			resCoq, _ := c16ResCoq(rev, err, false)
			delta := "None"
			if err == nil && rev.Delta != nil {
				delta = "(Some " + cqN(uint64(rev.Delta.totalDeltaBytes)) + ")"
				if int64(32*len(rev.Delta.RevisionHistory)+len(rev.Delta.DeltaBytes)) != rev.Delta.totalDeltaBytes {
					r.rec.Fail("delta_combined_gauge_exact", "delta-size-not-its-content", input(), "a cached delta carries totalDeltaBytes different from 32*history+body")
				}
			}
			if err != nil {
				nontrivial = true
				r.rec.Err(fmt.Sprintf("getwith:%d", c16Status(err)))
			}
			// GetWithDelta does not return the flag (observable only through the eviction it triggers)
			observe("DGetWith "+cqN(op.dk.from.num())+" "+cqN(op.dk.num()), resCoq, false, delta)
		default:
			o := op.op
			switch o.kind {
			case "get":
				rev, flag, err := t.rc.Get(r.ctx, o.key.docID(), o.key.version(), testCollectionID, RevCacheDontLoadBackupRev)
				resCoq, _ := c16ResCoq(rev, err, false)
				if err != nil {
					nontrivial = true
				}
				observe("DRev (Get "+cqN(o.key.num())+")", resCoq, flag, "None")
			case "put", "upsert":
				if o.kind == "put" {
					if ib, ok := c16CachedBytes(t, o.key); ok && ib != int64(o.content.size) {
						resized = true
					}
					_ = t.rc.Put(r.ctx, o.content.rev, testCollectionID)
					observe("DRev (Put "+cqN(o.key.num())+" "+o.content.coq()+")", "RUnit", false, "None")
				} else {
					_ = t.rc.Upsert(r.ctx, o.content.rev, testCollectionID)
					observe("DRev (Upsert "+cqN(o.key.num())+" "+o.content.coq()+")", "RUnit", false, "None")
				}
			case "remove":
				t.rc.Remove(r.ctx, o.key.docID(), o.key.version(), testCollectionID)
				observe("DRev (Remove "+cqN(o.key.num())+")", "RUnit", false, "None")
			case "peek":
				rev, found := t.rc.Peek(r.ctx, o.key.docID(), o.key.version(), testCollectionID)
				resCoq, _ := c16ResCoq(rev, nil, !found)
				observe("DRev (Peek "+cqN(o.key.num())+")", resCoq, false, "None")
			}
		}
		if t.items.Value() < before || t.ditems.Value() < dbefore {
			nontrivial = true // something was evicted
		}
	}
	coq := fmt.Sprintf("CDelta (mkCfg %d %d true) %s %s %s %s", cfg.cap, cfg.maxb, cqList(ldt), cqList(actt), cqList(coqOps), cqList(coqObs))
	r.rec.Case(stream, "delta-seq", coq, input(), nontrivial)
	r.rec.Size(fmt.Sprintf("len<=%d", ((len(coqOps)+9)/10)*10))
}


func c16DeltaAlphabet(w *c16World) []c16DOp {
	k02, k12, k04 := c16Key{0, 2}, c16Key{1, 2}, c16Key{0, 4}
	d021, d121, d041, d023 := c16DKey{k02, 1}, c16DKey{k12, 1}, c16DKey{k04, 1}, c16DKey{k02, 3}
	ops := []c16DOp{
		{kind: "rev", op: c16Op{kind: "get", key: k02}}, {kind: "rev", op: c16Op{kind: "get", key: k12}},
		{kind: "rev", op: c16Op{kind: "remove", key: k02}},
		{kind: "update", dk: d021, hist: 1, body: 20}, {kind: "update", dk: d021, hist: 0, body: 70}, // same key, other size: not replaced
		{kind: "update", dk: d121, hist: 1, body: 30},
		{kind: "getwith", dk: d021}, {kind: "getwith", dk: d121}, {kind: "getwith", dk: d041},
	}
	if c := w.writeThrough(k12); c != nil {
		ops = append(ops, c16DOp{kind: "rev", op: c16Op{kind: "upsert", key: k12, content: c}})
	}
	if vThorough() {
		ops = append(ops, c16DOp{kind: "update", dk: d023, hist: 2, body: 5})
	}
	return ops
}

func c16DeltaExhaustive(r *c16Runner, stream string, cfg c16Cfg, length int) int {
	alpha := c16DeltaAlphabet(c16NewWorld(r.ctx))
	n := 1
	for i := 0; i < length; i++ {
		n *= len(alpha)
	}
	for idx := 0; idx < n; idx++ {
		seq := make([]int, length)
		x := idx
		for i := 0; i < length; i++ {
			seq[i] = x % len(alpha)
			x /= len(alpha)
		}
		var tail []c16Key
		r.runDeltaCase(stream, cfg, func(step int, w *c16World, t *c16Target) *c16DOp {
			if step < length {
				op := alpha[seq[step]]
				return &op
			}
			if step == length {
				tail = c16Drain(t)
			}
			if j := step - length; j < len(tail) { // removing every revision leaves the deltas' bytes
				return &c16DOp{kind: "rev", op: c16Op{kind: "remove", key: tail[j]}}
			}
			return nil
		})
	}
	return n
}

func c16DeltaRandomCase(r *c16Runner, rnd *vRand, stream string) {
	cfg := c16Cfg{cap: uint32(1 + rnd.Intn(4)), shards: 1}
	switch rnd.Intn(4) {
	case 0:
		cfg.maxb = 0
	case 1:
		cfg.maxb = int64(60 + rnd.Intn(80))
	default:
		cfg.maxb = int64(120 + rnd.Intn(260))
	}
	length := 6 + rnd.Intn(30)
	keys := c16AllKeys()
	var tail []c16Key
	started := -1
	r.runDeltaCase(stream, cfg, func(step int, w *c16World, t *c16Target) *c16DOp {
		if step >= length {
			if started < 0 {
				started, tail = step, c16Drain(t)
			}
			if j := step - started; j < len(tail) {
				return &c16DOp{kind: "rev", op: c16Op{kind: "remove", key: tail[j]}}
			}
			return nil
		}
		pickKey := func() c16Key {
			if rnd.Chance(75) {
				return c16Key{rnd.Intn(2), []int{1, 2, 2, 3}[rnd.Intn(4)]}
			}
			return keys[rnd.Intn(len(keys))]
		}
		pickD := func() c16DKey {
			return c16DKey{pickKey(), 1 + rnd.Intn(3)}
		}
		switch x := rnd.Intn(100); {
		case x < 20:
			return &c16DOp{kind: "rev", op: c16Op{kind: "get", key: pickKey()}}
		case x < 45:
			return &c16DOp{kind: "update", dk: pickD(), hist: rnd.Intn(3), body: 1 + rnd.Intn(90)}
		case x < 68:
			return &c16DOp{kind: "getwith", dk: pickD()}
		case x < 80:
			k := c16Key{rnd.Intn(c16NDocs), 2}
			kind := "put"
			if rnd.Chance(50) {
				kind = "upsert"
			}
			c := w.writeThrough(k)
			if c == nil {
				return &c16DOp{kind: "rev", op: c16Op{kind: "peek", key: k}}
			}
			return &c16DOp{kind: "rev", op: c16Op{kind: kind, key: k, content: c}}
		case x < 92:
			return &c16DOp{kind: "rev", op: c16Op{kind: "remove", key: pickKey()}}
		default:
			return &c16DOp{kind: "rev", op: c16Op{kind: "peek", key: pickKey()}}
		}
	})
}

func c16DeltaStreams(r *c16Runner, rnd *vRand) {
	k02, k12, k22 := c16Key{0, 2}, c16Key{1, 2}, c16Key{2, 2}
	script := func(cfg c16Cfg, ops []c16DOp) {
		r.runDeltaCase("delta-corpus", cfg, func(step int, w *c16World, t *c16Target) *c16DOp {
			if step < len(ops) {
				return &ops[step]
			}
			return nil
		})
	}
	get := func(k c16Key) c16DOp { return c16DOp{kind: "rev", op: c16Op{kind: "get", key: k}} }
	rem := func(k c16Key) c16DOp { return c16DOp{kind: "rev", op: c16Op{kind: "remove", key: k}} }
	upd := func(k c16Key, to, hist, body int) c16DOp {
		return c16DOp{kind: "update", dk: c16DKey{k, to}, hist: hist, body: body}
	}
	gw := func(k c16Key, to int) c16DOp { return c16DOp{kind: "getwith", dk: c16DKey{k, to}} }
	for _, cfg := range []c16Cfg{{cap: 2, maxb: 0}, {cap: 2, maxb: 100}, {cap: 3, maxb: 150}, {cap: 1, maxb: 60}, {cap: 4, maxb: 90}} {
		// round-robin eviction: revision first, then delta, then revision ...
		script(cfg, []c16DOp{get(k02), get(k12), upd(k02, 1, 1, 20), upd(k12, 1, 1, 30), upd(k02, 3, 0, 60), get(k22), gw(k02, 1), gw(k12, 1), rem(k02), rem(k12), rem(k22)})
		// a delta is not replaced by a second UpdateDelta; the delta survives the removal of its revision
		script(cfg, []c16DOp{upd(k02, 1, 0, 10), upd(k02, 1, 2, 40), gw(k02, 1), rem(k02), gw(k02, 1), upd(k12, 1, 1, 1), upd(k22, 1, 0, 33), gw(k22, 1)})
		// failed GetWithDelta; delta number-capacity eviction
		script(cfg, []c16DOp{gw(c16Key{0, 4}, 1), upd(k02, 1, 0, 5), upd(k02, 2, 0, 6), upd(k02, 3, 0, 7), upd(k12, 1, 0, 8), upd(k12, 2, 0, 9), gw(k02, 1), gw(k12, 2)})
	}
	n := c16DeltaExhaustive(r, "delta-exhaustive", c16Cfg{cap: 2, maxb: 100}, 3)
	n += c16DeltaExhaustive(r, "delta-exhaustive", c16Cfg{cap: 1, maxb: 0}, 2)
	r.rec.Extra("delta_exhaustive_sequences", n)
	for i := vBudget(160, 1500); i > 0; i-- {
		c16DeltaRandomCase(r, rnd, "delta-random")
	}
}

// =================================================================================================
// (2) step-level schedules
// =================================================================================================

func c16Goid() uint64 {
	var b [64]byte
	n := runtime.Stack(b[:], false) // "goroutine 18 [running]:\n..."
	f := strings.Fields(string(b[:n]))
	if len(f) < 2 {
		return 0
	}
	id, _ := strconv.ParseUint(f[1], 10, 64)
	return id
}

var c16StackBuf = make([]byte, 1<<23)

// wait state and stack of one goroutine, from the runtime's own dump
func c16GoInfo(goid uint64) (state, stack string, ok bool) {
	n := runtime.Stack(c16StackBuf, true)
	s := string(c16StackBuf[:n])
	hdr := "goroutine " + strconv.FormatUint(goid, 10) + " ["
	i := strings.Index(s, hdr)
	if i < 0 {
		return "", "", false
	}
	rest := s[i+len(hdr):]
	j := strings.Index(rest, "]")
	if j < 0 {
		return "", "", false
	}
	state = rest[:j]
	if k := strings.Index(rest, "\n\n"); k >= 0 {
		rest = rest[:k]
	}
	return state, rest, true
}

func c16Parked(state string) bool {
	for _, p := range []string{"sync.Mutex.Lock", "sync.RWMutex.RLock", "sync.RWMutex.Lock", "semacquire", "chan receive"} {
		if strings.HasPrefix(state, p) {
			return true
		}
	}
	return false
}

// where a parked goroutine of the cache is waiting
func c16Where(stack string) string {
	switch {
	case strings.Contains(stack, "c16sParkInLoader"):
		return "loader"
	case strings.Contains(stack, "(*revCacheValue).store"):
		return "store"
	case strings.Contains(stack, "(*revCacheValue).load"):
		return "load-wait"
	case strings.Contains(stack, "removeValueForFailedLoad"):
		return "unlink"
	}
	return "other"
}

// the backing store call of the held Get parks here: the frame name marks the goroutine as "inside the loader"
func c16sParkInLoader(entered chan<- struct{}, release <-chan struct{}) {
	entered <- struct{}{}
	<-release
}

type c16sThread struct {
	idx        int
	kind       string
	key        c16Key
	content    *c16Content
	dk         c16DKey
	hist, body int
	goid       atomic.Uint64
	done       chan struct{}
	where      string // "" | done | loader | load-wait | store | unlink | stuck
	rev        DocumentRevision
	flag       bool
	err        error
	found      bool
	resDone    bool
	waited     bool // was parked on value.lock of the held value
}

func (th *c16sThread) String() string {
	switch th.kind {
	case "delta":
		return fmt.Sprintf("T%d updatedelta dk%d", th.idx, th.dk.num())
	}
	return fmt.Sprintf("T%d %s k%d", th.idx, th.kind, th.key.num())
}

type c16sVal struct {
	ptr         *revCacheValue
	key         uint64
	shard       int
	mem         int32
	bytes       int64
	loaded, err bool
}

type c16sSnap struct {
	vals   map[uint64]c16sVal
	order  [][]uint64 // per shard: LRU front -> back
	deltas map[uint64]int64
	items  int64
	bytes  int64
	nd     int64
}

type c16sStep struct {
	coq string
	obs *c16sSnap
	thr []int
	lds map[uint64]int
}

type c16sSpec struct {
	variant string
	loadOK  bool
	hold    bool
	pre     []string
	between []string
}

func (s c16sSpec) String() string {
	return fmt.Sprintf("%s: %s; Get(k12) enters the loader; %s; hold-cache-lock=%v; loader returns ok=%v", s.variant,
		strings.Join(s.pre, ", "), strings.Join(s.between, ", "), s.hold, s.loadOK)
}

type c16sRun struct {
	r       *c16Runner
	spec    c16sSpec
	w       *c16World
	t       *c16Target
	steps   []c16sStep
	threads []*c16sThread
	cur     *c16sSnap
	mu      sync.Mutex
	loads   map[string]int
	armed   bool
	entered chan struct{}
	release chan struct{}
	held    *c16sThread
	heldPtr *revCacheValue
	holding bool
	inserts map[uint64]int // placeholders inserted by Gets, per key
	bad     []string
}

func (run *c16sRun) act(format string, a ...any) {
	run.steps = append(run.steps, c16sStep{coq: "SAct (" + fmt.Sprintf(format, a...) + ")"})
}
func (run *c16sRun) raw(format string, a ...any) {
	run.steps = append(run.steps, c16sStep{coq: fmt.Sprintf(format, a...)})
}
func (run *c16sRun) step(th *c16sThread, l string) { run.act("EStep %d %s", th.idx, l) }
func (run *c16sRun) evict(keys []uint64) {
	for _, k := range keys {
		run.act("EEvict %d", k)
	}
}
func (run *c16sRun) res(th *c16sThread) {
	if th.resDone {
		return
	}
	th.resDone = true
	resCoq, _ := c16ResCoq(th.rev, th.err, false)
	run.raw("SRes %d %s %v", th.idx, resCoq, th.flag)
}

// the real structures; every goroutine of the run is finished or parked when this is called
func (run *c16sRun) snap() *c16sSnap {
	s := &c16sSnap{vals: map[uint64]c16sVal{}, deltas: map[uint64]int64{}}
	for i, l := range run.t.shards {
		if !run.holding {
			l.lock.Lock()
		}
		var ord []uint64
		for e := l.lruList.Front(); e != nil; e = e.Next() {
			v := e.Value.(*revCacheValue)
			kn, ok := c16KeyNums[v.itemKey.docID+"|"+v.itemKey.docVersion]
			if !ok {
				kn = 9999
			}
			ord = append(ord, kn)
			s.vals[kn] = c16sVal{ptr: v, key: kn, shard: i, mem: v.memState.Load(), bytes: v.getItemBytes(), loaded: v.bodyBytes != nil, err: v.err != nil}
		}
		if len(l.cache) != l.lruList.Len() {
			run.bad = append(run.bad, fmt.Sprintf("shard %d: map %d entries, list %d", i, len(l.cache), l.lruList.Len()))
		}
		if !run.holding {
			l.lock.Unlock()
		}
		s.order = append(s.order, ord)
	}
	if d := run.t.delta; d != nil {
		d.lock.Lock()
		for e := d.lruList.Front(); e != nil; e = e.Next() {
			v := e.Value.(*deltaCacheValue)
			s.deltas[c16DKeyByStrings[v.itemKey.docID+"|"+v.itemKey.fromDocVersion+"|"+v.itemKey.toDocVersion]] = v.delta.totalDeltaBytes
		}
		d.lock.Unlock()
	}
	s.items, s.bytes, s.nd = run.t.items.Value(), run.t.mem.Value(), run.t.ditems.Value()
	return s
}

func (run *c16sRun) observe() {
	s := run.snap()
	run.cur = s
	thr := make([]int, len(run.threads))
	for i, th := range run.threads {
		switch th.where {
		case "loader":
			thr[i] = 1
		case "load-wait", "store":
			thr[i] = 2
		case "unlink":
			thr[i] = 3
		case "stuck", "other":
			thr[i] = 8
		}
	}
	lds := map[uint64]int{}
	run.mu.Lock()
	for d := 0; d < c16NDocs; d++ {
		if n := run.loads[fmt.Sprintf("d%d", d)]; n > 0 {
			lds[c16Key{d, 2}.num()] = n
		}
	}
	run.mu.Unlock()
	run.steps = append(run.steps, c16sStep{obs: s, thr: thr, lds: lds})
}

func (run *c16sRun) launch(th *c16sThread) {
	th.done = make(chan struct{})
	t, ctx := run.t, run.r.ctx
	go func() {
		th.goid.Store(c16Goid())
		defer close(th.done)
		k := th.key
		switch th.kind {
		case "get":
			th.rev, th.flag, th.err = t.rc.Get(ctx, k.docID(), k.version(), testCollectionID, RevCacheDontLoadBackupRev)
		case "put":
			_ = t.rc.Put(ctx, th.content.rev, testCollectionID)
		case "upsert":
			_ = t.rc.Upsert(ctx, th.content.rev, testCollectionID)
		case "remove":
			t.rc.Remove(ctx, k.docID(), k.version(), testCollectionID)
		case "peek":
			th.rev, th.found = t.rc.Peek(ctx, k.docID(), k.version(), testCollectionID)
		case "delta":
			rd, _ := c16MakeDelta(th.dk, th.hist, th.body)
			t.rc.UpdateDelta(ctx, th.dk.from.docID(), th.dk.from.version(), th.dk.toVer(), testCollectionID, rd)
		}
	}()
}

// wait until the goroutine has finished or is parked (same place on two consecutive looks)
func (run *c16sRun) settle(th *c16sThread) {
	deadline := time.Now().Add(30 * time.Second)
	stable, last := 0, ""
	for {
		select {
		case <-th.done:
			th.where = "done"
			return
		default:
		}
		if id := th.goid.Load(); id != 0 {
			if st, stack, ok := c16GoInfo(id); ok && c16Parked(st) {
				if w := c16Where(stack); w != "other" || time.Now().After(deadline.Add(-25*time.Second)) {
					if w == last {
						stable++
					} else {
						stable, last = 1, w
					}
					if stable >= 2 {
						select {
						case <-th.done:
							th.where = "done"
						default:
							th.where = w
						}
						return
					}
				}
			} else {
				stable, last = 0, ""
			}
		}
		if time.Now().After(deadline) {
			th.where = "stuck"
			return
		}
		time.Sleep(100 * time.Microsecond)
	}
}

// keys cached before and no longer (or under another value) after, other than skip; LRU tail first
func c16sVanished(before, after *c16sSnap, skip map[uint64]bool) []uint64 {
	var out []uint64
	for _, ord := range before.order {
		for i := len(ord) - 1; i >= 0; i-- {
			k := ord[i]
			if skip[k] {
				continue
			}
			if a, ok := after.vals[k]; !ok || a.ptr != before.vals[k].ptr {
				out = append(out, k)
			}
		}
	}
	return out
}

func (run *c16sRun) deltaEvictions(before, after *c16sSnap) {
	var ks []uint64
	for k := range before.deltas {
		if _, ok := after.deltas[k]; !ok {
			ks = append(ks, k)
		}
	}
	sort.Slice(ks, func(i, j int) bool { return ks[i] < ks[j] })
	for _, k := range ks {
		run.act("EDeltaEvict %d", k)
	}
}

// parse "put0", "upsert2", "get1", "delta0b": kind + document (+ variant)
func (run *c16sRun) newThread(name string) *c16sThread {
	th := &c16sThread{idx: len(run.threads)}
	i := strings.IndexAny(name, "0123456789")
	th.kind = name[:i]
	doc := int(name[i] - '0')
	th.key = c16Key{doc, 2}
	if th.kind == "put" || th.kind == "upsert" {
		th.content = run.w.fresh[th.key.num()].ok
	}
	if th.kind == "delta" {
		th.dk, th.hist, th.body = c16DKey{th.key, 1}, 1, 40
		if strings.HasSuffix(name, "b") {
			th.dk, th.hist, th.body = c16DKey{th.key, 3}, 0, 90
		}
	}
	run.threads = append(run.threads, th)
	return th
}

// start one call, let it run until it is finished or parked, emit the atomic steps it took
func (run *c16sRun) doOp(name string, isHeld bool) *c16sThread {
	th := run.newThread(name)
	before := run.cur
	k := th.key.num()
	bv, present := before.vals[k]
	if th.kind == "get" && present && bv.ptr == run.heldPtr && run.heldPtr != nil && run.held.where == "loader" {
		th.waited = true // must wait for the load in flight
	}
	run.launch(th)
	if isHeld {
		<-run.entered
	}
	run.settle(th)
	after := run.snap()
	shard := run.t.shardOf(th.key.docID())
	capN, nBefore := int(run.t.shards[shard].capacity), len(before.order[shard])
	switch th.kind {
	case "remove":
		run.act("ERemove %d", k)
	case "peek":
		resCoq, _ := c16ResCoq(th.rev, nil, !th.found)
		run.raw("SPeekR %d %s", k, resCoq)
	case "delta":
		_, sz := c16MakeDelta(th.dk, th.hist, th.body)
		run.act("EDelta %d %d", th.dk.num(), sz)
		run.evict(c16sVanished(before, after, nil))
		if _, was := before.deltas[th.dk.num()]; !was {
			if _, is := after.deltas[th.dk.num()]; !is { // inserted and evicted again by its own memory eviction
				run.act("EDeltaEvict %d", th.dk.num())
			}
		}
	default:
		inserted := !present || th.kind == "upsert"
		van := c16sVanished(before, after, map[uint64]bool{k: true})
		nNum := 0
		if inserted {
			n := nBefore + 1
			if present {
				n--
			}
			if n > capN {
				nNum = n - capN
			}
		}
		if nNum > len(van) {
			nNum = len(van)
		}
		numEv, memEv := van[:nNum], van[nNum:]
		_, selfCached := after.vals[k]
		switch th.kind {
		case "put":
			run.act("EPut %d %d %s", th.idx, k, th.content.coq())
			run.evict(numEv)
			run.step(th, "LPBytes")
			run.step(th, "LPCas")
			if !present || bv.mem == memStateLoading {
				run.step(th, "LPInc")
			}
			if th.where == "done" {
				run.step(th, "LPStore")
				run.evict(memEv)
				if !selfCached {
					run.evict([]uint64{k})
				}
			}
		case "upsert":
			run.act("EUpsert %d %d %s", th.idx, k, th.content.coq())
			run.evict(numEv)
			run.step(th, "LPBytes")
			run.step(th, "LPCas")
			run.step(th, "LPInc")
			run.step(th, "LPStore")
			run.evict(memEv)
			if !selfCached {
				run.evict([]uint64{k})
			}
		case "get":
			run.act("EGet %d %d", th.idx, k)
			if inserted {
				run.inserts[k]++
			}
			run.evict(numEv)
			switch th.where {
			case "loader":
				run.act("ELoadBegin %d", th.idx)
				run.heldPtr = after.vals[k].ptr
			case "done":
				hit := present && (bv.loaded || bv.err)
				run.act("ELoadBegin %d", th.idx)
				if !hit {
					run.act("ELoadEnd %d", th.idx)
				}
				if th.err != nil {
					run.step(th, "LGFailMark")
					run.step(th, "LGFailUnlink")
				} else if !hit {
					run.step(th, "LGCas")
					if th.flag {
						run.step(th, "LGInc")
					}
				}
				run.res(th)
				run.evict(memEv)
				if th.err == nil && !selfCached {
					run.evict([]uint64{k})
				}
				if th.waited {
					run.bad = append(run.bad, "waits: "+th.String()+" returned while the load of the same value was still in flight")
				}
			}
		}
	}
	if th.where == "done" {
		run.deltaEvictions(before, after)
	}
	if th.where == "stuck" || th.where == "other" {
		run.bad = append(run.bad, "harness: "+th.String()+" neither finished nor parked at a known place")
	}
	run.observe()
	return th
}

// the loader of the held Get returns; everything runs to the end (or, with the cache lock held from outside,
// up to the unlink of removeValueForFailedLoad)
func (run *c16sRun) releaseAll() {
	before := run.cur
	k0 := run.held.key.num()
	var putsParked, getsParked []*c16sThread
	for _, th := range run.threads {
		switch th.where {
		case "store":
			putsParked = append(putsParked, th)
		case "load-wait":
			getsParked = append(getsParked, th)
		}
	}
	if run.spec.hold {
		for _, l := range run.t.shards {
			l.lock.Lock()
		}
		run.holding = true
		run.act("EHold true")
	}
	close(run.release)
	for _, th := range run.threads {
		if th.where != "done" {
			run.settle(th)
		}
	}
	h := run.held
	run.act("ELoadEnd %d", h.idx)
	var unlinkLater []*c16sThread
	if run.spec.loadOK {
		run.step(h, "LGCas")
		if h.flag {
			run.step(h, "LGInc")
		}
		run.res(h)
	} else {
		run.step(h, "LGFailMark")
		unlinkLater = append(unlinkLater, h)
	}
	var okGroup []*c16sThread
	for _, th := range getsParked { // waiting Gets that saw the failed load
		if th.where == "unlink" || (th.where == "done" && th.err != nil) {
			run.act("ELoadBegin %d", th.idx)
			run.step(th, "LGFailMark")
			unlinkLater = append(unlinkLater, th)
		} else {
			okGroup = append(okGroup, th)
		}
	}
	for _, th := range putsParked {
		run.step(th, "LPStore")
	}
	for _, th := range okGroup {
		run.act("ELoadBegin %d", th.idx)
		if th.where == "done" {
			run.res(th)
		}
	}
	if run.holding {
		run.observe() // between Swap(memStateRemoved) and the unlink
		for _, l := range run.t.shards {
			l.lock.Unlock()
		}
		run.holding = false
		run.act("EHold false")
		for _, th := range run.threads {
			if th.where != "done" {
				run.settle(th)
			}
		}
	}
	for _, th := range unlinkLater {
		run.step(th, "LGFailUnlink")
		run.res(th)
	}
	after := run.snap()
	skip := map[uint64]bool{}
	if bv, ok := before.vals[k0]; ok && bv.ptr == run.heldPtr && !run.spec.loadOK {
		skip[k0] = true // left through removeValueForFailedLoad, not through an eviction
	}
	run.evict(c16sVanished(before, after, skip))
	run.deltaEvictions(before, after)
	for _, th := range run.threads {
		if th.where != "done" {
			run.bad = append(run.bad, "harness: "+th.String()+" did not finish after the loader returned ("+th.where+")")
		}
	}
	run.observe()
	// ---- monitors: single flight and sharing, on the real results ----
	putOnHeld := len(putsParked) > 0
	for _, th := range getsParked {
		if th.where != "done" || putOnHeld {
			continue
		}
		a, _ := c16ResCoq(th.rev, th.err, false)
		b, _ := c16ResCoq(h.rev, h.err, false)
		if a != b {
			run.bad = append(run.bad, fmt.Sprintf("shares: %s waited for the load of T0 and returned %s, T0 returned %s", th.String(), a, b))
		}
	}
}

func c16RunStepSchedule(r *c16Runner, spec c16sSpec) {
	w := c16NewWorld(r.ctx)
	k0, k1 := c16Key{1, 2}, c16Key{0, 2} // held key: d1@cv (two channels: the larger revision)
	c0, c1 := w.fresh[k0.num()].ok, w.fresh[k1.num()].ok
	cfg := c16Cfg{variant: spec.variant, cap: 2, shards: 1}
	switch spec.variant {
	case "orch":
		cfg.cap, cfg.maxb = 3, int64(c0.size+c1.size/2)
	case "orchd":
		cfg.cap, cfg.maxb = 3, int64(c0.size+c1.size/2+80)
	case "sharded":
		cfg.cap, cfg.shards, cfg.maxb = 4, 2, int64(2*(c0.size+c1.size/2))
	}
	t := c16NewTarget(cfg, w.store)
	run := &c16sRun{r: r, spec: spec, w: w, t: t, loads: map[string]int{}, inserts: map[uint64]int{},
		entered: make(chan struct{}, 1), release: make(chan struct{})}
	w.store.hook = func(docid string) {
		run.mu.Lock()
		run.loads[docid]++
		park := run.armed && docid == k0.docID()
		if park {
			run.armed = false
		}
		run.mu.Unlock()
		if park {
			c16sParkInLoader(run.entered, run.release)
		}
	}
	run.cur = run.snap()
	// thread 0 of the model is reserved for the held Get; it starts after the preparatory calls
	run.threads = append(run.threads, &c16sThread{idx: 0, kind: "reserved"})
	for _, name := range spec.pre {
		run.doOp(name, false)
	}
	if !spec.loadOK {
		w.store.mu.Lock()
		w.store.docs[k0.docID()].getErr = ErrMissing
		w.store.mu.Unlock()
	}
	run.mu.Lock()
	run.armed = true
	run.mu.Unlock()
	// start the held Get as thread 0
	{
		saved := run.threads
		run.threads = nil
		th := run.newThread(fmt.Sprintf("get%d", k0.doc))
		run.threads = saved
		run.threads[0] = th
		run.held = th
		run.doHeld(th)
	}
	for _, name := range spec.between {
		run.doOp(name, false)
	}
	run.releaseAll()
	// drain: the "emptied" clause at the end of every schedule
	var ks []uint64
	for k := range run.cur.vals {
		ks = append(ks, k)
	}
	sort.Slice(ks, func(i, j int) bool { return ks[i] < ks[j] })
	for _, kn := range ks {
		k := c16Key{int(kn/10) - 1, int(kn % 10)}
		t.rc.Remove(r.ctx, k.docID(), k.version(), testCollectionID)
		run.act("ERemove %d", kn)
	}
	run.observe()
	final := run.cur
	var deltaBytes int64
	for _, b := range final.deltas {
		deltaBytes += b
	}
	if len(final.vals) != 0 || final.items != 0 || final.bytes != deltaBytes {
		run.bad = append(run.bad, fmt.Sprintf("emptied: %d values left, items gauge %d, byte counter %d, deltas hold %d", len(final.vals), final.items, final.bytes, deltaBytes))
	}
	run.mu.Lock()
	for d := 0; d < c16NDocs; d++ {
		kn := c16Key{d, 2}.num()
		if n := run.loads[fmt.Sprintf("d%d", d)]; n > run.inserts[kn] {
			run.bad = append(run.bad, fmt.Sprintf("single flight: %d backing-store loads for k%d, %d placeholders were inserted for it", n, kn, run.inserts[kn]))
		}
	}
	run.mu.Unlock()
	run.finish()
}

// the held Get: like doOp, but it parks inside the loader
func (run *c16sRun) doHeld(th *c16sThread) {
	before := run.cur
	k := th.key.num()
	_, present := before.vals[k]
	run.launch(th)
	if !present {
		<-run.entered
	}
	run.settle(th)
	after := run.snap()
	shard := run.t.shardOf(th.key.docID())
	capN, nBefore := int(run.t.shards[shard].capacity), len(before.order[shard])
	run.act("EGet %d %d", th.idx, k)
	if !present {
		run.inserts[k]++
		van := c16sVanished(before, after, map[uint64]bool{k: true})
		if n := nBefore + 1 - capN; n > 0 && n <= len(van) {
			run.evict(van[:n])
		} else if len(van) > 0 {
			run.evict(van)
		}
	}
	if th.where == "loader" {
		run.act("ELoadBegin %d", th.idx)
		run.heldPtr = after.vals[k].ptr
	} else {
		run.bad = append(run.bad, "harness: the held Get did not park inside the loader ("+th.where+")")
	}
	run.observe()
}

func (run *c16sRun) finish() {
	r, spec := run.r, run.spec
	nthr := len(run.threads)
	var ksz, ldt []string
	for d := 0; d < c16NDocs; d++ {
		k := c16Key{d, 2}
		f := run.w.fresh[k.num()]
		ksz = append(ksz, fmt.Sprintf("(%d, %d)", k.num(), f.ok.size))
		if d == run.held.key.doc && !spec.loadOK {
			ldt = append(ldt, fmt.Sprintf("(%d, LErr 404)", k.num()))
		} else {
			ldt = append(ldt, "("+cqN(k.num())+", "+f.coqL()+")")
		}
	}
	var coq []string
	for _, st := range run.steps {
		if st.obs == nil {
			coq = append(coq, st.coq)
			continue
		}
		s := st.obs
		var keys []uint64
		for k := range s.vals {
			keys = append(keys, k)
		}
		sort.Slice(keys, func(i, j int) bool { return keys[i] < keys[j] })
		var vals []string
		for _, k := range keys {
			v := s.vals[k]
			vals = append(vals, fmt.Sprintf("(%d,%d,%d,%v,%v)", k, v.mem, v.bytes, v.loaded, v.err))
		}
		thr := make([]string, nthr)
		for i := range thr {
			thr[i] = "0"
			if i < len(st.thr) {
				thr[i] = cqI(st.thr[i])
			}
		}
		var lk []uint64
		for k := range st.lds {
			lk = append(lk, k)
		}
		sort.Slice(lk, func(i, j int) bool { return lk[i] < lk[j] })
		var lds []string
		for _, k := range lk {
			lds = append(lds, fmt.Sprintf("(%d,%d)", k, st.lds[k]))
		}
		var dk []uint64
		for k := range s.deltas {
			dk = append(dk, k)
		}
		sort.Slice(dk, func(i, j int) bool { return dk[i] < dk[j] })
		var ds []string
		for _, k := range dk {
			ds = append(ds, fmt.Sprintf("(%d,%d)", k, s.deltas[k]))
		}
		coq = append(coq, fmt.Sprintf("SObs (%d) (%d) %s %s %s (%d) %s", s.items, s.bytes, cqList(vals), "["+strings.Join(thr, ";")+"]", cqList(lds), s.nd, cqList(ds)))
	}
	term := fmt.Sprintf("CSched %d %s %s %s", nthr, cqList(ksz), cqList(ldt), cqList(coq))
	in := map[string]any{"schedule": spec.String(), "steps": coq}
	r.rec.Case("scheduled-steps", "sched:"+spec.variant, term, in, true)
	for _, b := range run.bad {
		mon, sig := "accounting_all_interleavings", "sched-step-gauge-drift"
		switch {
		case strings.HasPrefix(b, "single flight"):
			mon, sig = "single_flight", "loader-called-more-than-once-per-placeholder"
		case strings.HasPrefix(b, "shares"):
			mon, sig = "get_during_load_waits_and_shares", "waiting-get-result-differs"
		case strings.HasPrefix(b, "waits"):
			mon, sig = "get_during_load_waits_and_shares", "waiting-get-did-not-wait"
		case strings.HasPrefix(b, "harness"):
			mon, sig = "harness", "sched-goroutine-not-where-expected"
		case strings.HasPrefix(b, "emptied"):
			mon, sig = "emptied_gauges_zero", "sched-gauge-nonzero-when-empty"
		}
		r.rec.Fail(mon, sig, in, b)
	}
}

func c16StepSchedules(r *c16Runner, rnd *vRand) {
	base8 := []string{"put1", "upsert1", "remove1", "get1", "peek1", "upsert0", "upsert2", "get0"}
	withDelta := append(append([]string{}, base8...), "delta1", "delta0b")
	n := 0
	run := func(spec c16sSpec) {
		c16RunStepSchedule(r, spec)
		n++
	}
	pick := func(alpha []string, k int) []string {
		out := make([]string, k)
		for i := range out {
			out[i] = alpha[rnd.Intn(len(alpha))]
		}
		return out
	}
	pres := func() []string {
		switch rnd.Intn(4) {
		case 0:
			return []string{"get0"}
		case 1:
			return []string{"get0", "get2"}
		}
		return nil
	}
	for _, variant := range []string{"lru", "orch", "sharded", "orchd"} {
		alpha := base8
		if variant == "orchd" {
			alpha = withDelta
		}
		for _, ok := range []bool{true, false} {
			run(c16sSpec{variant: variant, loadOK: ok})
			for _, a := range alpha {
				run(c16sSpec{variant: variant, loadOK: ok, between: []string{a}})
				run(c16sSpec{variant: variant, loadOK: ok, pre: []string{"get0"}, between: []string{a}})
				if variant == "lru" && !ok {
					run(c16sSpec{variant: variant, loadOK: ok, hold: true, between: []string{a}})
				}
				if variant == "lru" || variant == "orch" {
					for _, b := range alpha {
						run(c16sSpec{variant: variant, loadOK: ok, pre: pres(), between: []string{a, b}})
						if variant == "lru" && !ok && (a == "put1" || a == "get1" || b == "put1" || b == "get1") {
							// the failed Get (and every Get that waited for it) parked between Swap(Removed) and the unlink
							run(c16sSpec{variant: variant, loadOK: ok, hold: true, between: []string{a, b}})
						}
					}
				}
			}
			nPairs, nTriples := 0, vBudget(16, 200)
			if variant == "sharded" || variant == "orchd" {
				nPairs = vBudget(24, 200)
			}
			for i := 0; i < nPairs; i++ {
				run(c16sSpec{variant: variant, loadOK: ok, pre: pres(), between: pick(alpha, 2)})
			}
			for i := 0; i < nTriples; i++ {
				run(c16sSpec{variant: variant, loadOK: ok, pre: pres(), between: pick(alpha, 3), hold: variant == "lru" && !ok && rnd.Chance(40)})
			}
		}
	}
	r.rec.Extra("step_schedules", n)
	{
		w := c16NewWorld(r.ctx)
		t := c16NewTarget(c16Cfg{variant: "sharded", cap: 4, shards: 2, maxb: 400}, w.store)
		r.rec.Extra("step_schedule_shard_of_docs", []int{t.shardOf("d0"), t.shardOf("d1"), t.shardOf("d2")})
	}
}

// =================================================================================================
// single-flight storm (monitor only): many goroutines Get one absent key at the same instant; the loader is
// counted and delayed.  Probes the one window the parked schedules cannot reach: two Gets that both passed
// load's read-locked check before either took the write lock (the re-check under the write lock).
// =================================================================================================
func c16SingleFlightStorm(r *c16Runner, seed uint64) {
	w := c16NewWorld(r.ctx)
	t := c16NewTarget(c16Cfg{variant: "lru", cap: 8, shards: 1}, w.store)
	var calls [c16NDocs + 1]atomic.Int64
	w.store.hook = func(docid string) {
		calls[int(docid[1]-'0')].Add(1)
	}
	rounds, nG := vBudget(12000, 120000), 8
	if p := runtime.GOMAXPROCS(0); p < nG {
		nG = p
	}
	if nG < 2 {
		nG = 2
	}
	var gen, finished atomic.Int64
	var stop atomic.Bool
	var curKey atomic.Int64
	res := make([]string, nG)
	var wg sync.WaitGroup
	for g := 0; g < nG; g++ {
		wg.Add(1)
		g := g
		go func() { // persistent workers released by a spin barrier: they reach getValue within nanoseconds of each other
			defer wg.Done()
			seen := int64(0)
			for {
				for spins := 0; gen.Load() == seen; spins++ {
					if stop.Load() {
						return
					}
					if spins%256 == 255 {
						runtime.Gosched()
					}
				}
				seen = gen.Load()
				k := c16Key{int(curKey.Load()), 2}
				rev, _, err := t.rc.Get(r.ctx, k.docID(), k.version(), testCollectionID, RevCacheDontLoadBackupRev)
				res[g], _ = c16ResCoq(rev, err, false)
				finished.Add(1)
			}
		}()
	}
	worst, differing := int64(0), 0
	for round := 0; round < rounds; round++ {
		k := c16Key{round % c16NDocs, 2}
		calls[k.doc].Store(0)
		curKey.Store(int64(k.doc))
		finished.Store(0)
		gen.Add(1)
		for spins := 0; finished.Load() < int64(nG); spins++ {
			if spins%256 == 255 {
				runtime.Gosched()
			}
		}
		if n := calls[k.doc].Load(); n > worst {
			worst = n
		}
		for g := 1; g < nG; g++ {
			if res[g] != res[0] {
				differing++
			}
		}
		t.rc.Remove(r.ctx, k.docID(), k.version(), testCollectionID)
	}
	stop.Store(true)
	wg.Wait()
	r.rec.Count("stress", "single-flight-storm", fmt.Sprintf("%d", seed), true)
	in := map[string]any{"goroutines": nG, "rounds": rounds, "key": "one absent key per round, removed afterwards"}
	if worst > 1 {
		r.rec.Fail("single_flight", "loader-called-more-than-once-per-placeholder", in, fmt.Sprintf("up to %d backing-store loads for one inserted placeholder", worst))
	}
	if differing > 0 {
		r.rec.Fail("get_during_load_waits_and_shares", "waiting-get-result-differs", in, fmt.Sprintf("%d overlapping Gets of one value returned something else than the first", differing))
	}
	snap, _ := t.snapshot()
	if t.items.Value() != int64(snap.n) || t.mem.Value() != snap.sized || snap.n != 0 {
		r.rec.Fail("accounting_all_interleavings", "concurrent-gauge-drift", in, fmt.Sprintf("after the storm: items gauge %d, list %d, bytes gauge %d, cached %d", t.items.Value(), snap.n, t.mem.Value(), snap.sized))
	}
}
