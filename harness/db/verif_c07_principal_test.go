//go:build verif

package db

import (
	"context"
	"fmt"
	"strings"
	"testing"
	"time"

	sgbucket "github.com/couchbase/sg-bucket"
	"github.com/couchbase/sync_gateway/auth"
	"github.com/couchbase/sync_gateway/base"
)

// C07, principal part: the REAL DatabaseContext.UpdatePrincipal on a database whose sequence allocator is a
// fresh, observed one (own counter document, datastore decorator recording the unused-sequence documents).
// Lost CAS races are made real: the decorator around the metadata store lets a competing writer rewrite
// the principal document just before the Save of the attempt (for a principal that does not exist yet the
// CAS mismatch is synthesised).  Each attempt is one op of the model on allocator 0:
//   number obtained and published as unused by the call (lost CAS race; failed Save after the repair)
//                  -> NextDiscard 0 fast
//   number obtained and kept (saved; failed Save before the repair) -> Next 0 fast
// Monitor principal_update_accounted: every number the call obtained is either published as unused or is
// the sequence of the stored principal document read back from the bucket.

type c07Attempt struct {
	seq     uint64
	counter uint64
	lost    bool
}

type c07Meta struct {
	base.DataStore
	ctx      context.Context
	w        *c07World
	failNext int // number of coming principal Saves that lose the CAS race
	attempts []c07Attempt
}

func (m *c07Meta) WriteCas(ctx context.Context, k string, exp uint32, cas uint64, v interface{}, opt sgbucket.WriteOptions) (uint64, error) {
	p, isPrincipal := v.(auth.Principal)
	if !isPrincipal {
		return m.DataStore.WriteCas(ctx, k, exp, cas, v, opt)
	}
	at := c07Attempt{seq: p.Sequence(), counter: m.w.counter()}
	if m.failNext > 0 {
		m.failNext--
		at.lost = true
		m.attempts = append(m.attempts, at)
		if body, _, err := m.DataStore.GetRaw(ctx, k); err == nil {
			// a competing writer gets in first
			if serr := m.DataStore.SetRaw(ctx, k, 0, nil, body); serr != nil {
				m.w.t.Fatalf("c07: competing write: %v", serr)
			}
			return m.DataStore.WriteCas(ctx, k, exp, cas, v, opt)
		}
		return 0, sgbucket.CasMismatchErr{Expected: cas, Actual: cas + 1}
	}
	m.attempts = append(m.attempts, at)
	return m.DataStore.WriteCas(ctx, k, exp, cas, v, opt)
}

type c07PCall struct {
	Name    string   `json:"name"`
	IsUser  bool     `json:"is_user"`
	Chans   []string `json:"admin_channels,omitempty"`
	Roles   []string `json:"admin_roles,omitempty"`
	Disable *bool    `json:"disabled,omitempty"`
	Email   string   `json:"email,omitempty"`
	Lost    int      `json:"lost_cas_races"`
	Fast    bool     `json:"fast"`
}

func c07Principals(t *testing.T, rec *vRecorder, rnd *vRand) {
	nWorlds := vBudget(6, 40)
	for wi := 0; wi < nWorlds; wi++ {
		c07PrincipalWorld(t, rec, rnd, wi, false)
	}
	for wi := 0; wi < vBudget(3, 20); wi++ {
		c07PrincipalWorld(t, rec, rnd, wi, true)
	}
}

func c07PrincipalWorld(t *testing.T, rec *vRecorder, rnd *vRand, wi int, adversarial bool) {
	stream := "principal"
	if adversarial {
		stream = "principal_adversarial"
	}
	db, ctx := setupTestDB(t)
	dbc := db.DatabaseContext
	dbc.AllowEmptyPassword = true
	origMeta := dbc.MetadataStore

	// world around a fresh allocator with its own counter document, installed as the database's allocator
	c07CaseNo++
	w := &c07World{t: t, rec: rec, ctx: ctx, under: origMeta, stats: dbc.DbStats.Database(), n: 1, stream: stream,
		keys: base.NewMetadataKeys(fmt.Sprintf("c07p%d", c07CaseNo))}
	w.armed = make([]bool, 1)
	w.parked = make([]bool, 1)
	w.parkedX = make([]uint64, 1)
	w.stopped = make([]bool, 1)
	w.lastHand = make([]uint64, 1)
	w.parkedCh = []chan struct{}{make(chan struct{})}
	w.resume = []chan struct{}{make(chan struct{})}
	w.done = []chan c07Res{make(chan c07Res, 1)}
	a, err := newSequenceAllocator(ctx, &c07Store{DataStore: origMeta, w: w, id: 0}, dbc.DbStats.Database(), w.keys)
	if err != nil {
		t.Fatalf("c07: allocator: %v", err)
	}
	a.releaseSequenceWait = 24 * time.Hour
	w.al = []*sequenceAllocator{a}
	w.deferAccounting = true
	old := dbc.sequences
	dbc.sequences = a
	old.Stop(ctx)
	meta := &c07Meta{DataStore: origMeta, ctx: ctx, w: w}
	dbc.MetadataStore = meta
	oldFreq := MaxSequenceIncrFrequency
	defer func() {
		MaxSequenceIncrFrequency = oldFreq
		dbc.MetadataStore = origMeta
		// Close stops dbc.sequences: give it one that was not stopped by the case
		spare, serr := newSequenceAllocator(ctx, origMeta, dbc.DbStats.Database(), base.NewMetadataKeys(fmt.Sprintf("c07spare%d", c07CaseNo)))
		if serr == nil {
			dbc.sequences = spare
		}
		db.Close(ctx)
	}()

	names := []string{"r0", "r1", "u0", "u1"}
	chans := []string{"A", "B", "C", "D"}
	var calls []c07PCall
	nCalls := 6 + rnd.Intn(10)
	for ci := 0; ci < nCalls && !w.failed; ci++ {
		name := names[rnd.Intn(len(names))]
		call := c07PCall{Name: name, IsUser: strings.HasPrefix(name, "u"), Fast: rnd.Bool()}
		for _, c := range chans {
			if rnd.Chance(40) {
				call.Chans = append(call.Chans, c)
			}
		}
		if call.IsUser {
			for _, r := range []string{"r0", "r1", "r2"} {
				if rnd.Chance(30) {
					call.Roles = append(call.Roles, r)
				}
			}
			if rnd.Chance(30) {
				d := rnd.Bool()
				call.Disable = &d
			}
			if rnd.Chance(20) {
				call.Email = fmt.Sprintf("%s%d@example.com", name, rnd.Intn(3))
			}
		}
		if adversarial && rnd.Chance(35) {
			// names UpdatePrincipal itself does not check; Save's validate() refuses them
			if call.IsUser && rnd.Bool() {
				call.Roles = append(call.Roles, "bad:role")
			} else {
				call.Chans = append(call.Chans, "bad,channel")
			}
		}
		switch rnd.Intn(8) {
		case 0, 1:
			call.Lost = 1
		case 2:
			call.Lost = 2 + rnd.Intn(3)
		case 3:
			if rnd.Chance(15) {
				call.Lost = auth.PrincipalUpdateMaxCasRetries // every attempt loses: the loop gives up
			}
		}
		calls = append(calls, call)

		cfg := &auth.PrincipalConfig{Name: &call.Name, ExplicitChannels: base.SetFromArray(call.Chans)}
		if call.Chans == nil {
			cfg.ExplicitChannels = base.Set{}
		}
		if call.IsUser {
			cfg.ExplicitRoleNames = base.SetFromArray(call.Roles)
			cfg.Disabled = call.Disable
			if call.Email != "" {
				cfg.Email = &call.Email
			}
		}
		meta.failNext = call.Lost
		meta.attempts = nil
		w.mu.Lock()
		w.writes = nil
		w.mu.Unlock()
		lastBefore, _, _ := w.window(0)
		c07SetFast(call.Fast)
		_, _, uerr := dbc.UpdatePrincipal(ctx, cfg, call.IsUser, true)
		meta.failNext = 0
		lastAfter, _, _ := w.window(0)
		w.mu.Lock()
		writes := w.writes
		w.writes = nil
		w.mu.Unlock()
		ctrAfter := w.counter()

		// the attempts of this call, as ops of the model
		attempts := meta.attempts
		seen := uint64(0)
		for _, at := range attempts {
			if at.seq > seen {
				seen = at.seq
			}
		}
		if lastAfter > lastBefore && lastAfter > seen {
			// a number was obtained but Save never reached the store: the principal was refused inside Save
			attempts = append(attempts, c07Attempt{seq: lastAfter, counter: ctrAfter})
		}
		kind := "saved"
		if uerr != nil {
			kind = "error"
			if base.IsCasMismatch(uerr) {
				kind = "gave_up"
			}
		}
		if len(attempts) == 0 {
			kind = "unchanged"
		}
		rec.Count(stream, "update_principal_"+kind, "", false)
		var handedHere []uint64
		released := map[uint64]bool{}
		for _, at := range attempts {
			// did the call publish this attempt's number as unused?  (lost CAS race; with the repaired
			// code also a Save that failed otherwise) -- that decides which op of the model it is
			var wr []c07Write
			for _, x := range writes {
				if x.key == fmt.Sprintf("%s%d", w.keys.UnusedSeqPrefix(), at.seq) {
					wr = append(wr, x)
					released[at.seq] = true
				}
			}
			o := c07Op{Kind: "next", I: 0, Fast: call.Fast}
			if released[at.seq] {
				o.Kind = "disc"
			}
			if at.lost && !released[at.seq] {
				rec.Fail("principal_update_accounted", "principal-cas-retry-not-released",
					map[string]any{"calls": calls, "failing_call": call},
					fmt.Sprintf("UpdatePrincipal(%s): attempt with number %d lost the CAS race and the number was not published as unused", call.Name, at.seq))
			}
			w.observe(o, &c07Res{seq: at.seq}, at.counter, wr, 0)
			handedHere = append(handedHere, at.seq)
		}
		// documents written by the call that belong to no attempt
		for _, x := range writes {
			lo, _, single, ok := w.decode(x)
			if !(ok && single && released[lo]) {
				w.ops = append(w.ops, c07Op{Kind: "next", I: 0})
				w.fail("principal_update_accounted", "principal-unexpected-release", fmt.Sprintf("call %d: UpdatePrincipal wrote %s", ci, x.key))
				w.ops = w.ops[:len(w.ops)-1]
			}
		}
		// monitor: every number the call obtained is released or carried by the stored principal
		var stored uint64
		authr := dbc.Authenticator(ctx)
		if call.IsUser {
			if u, gerr := authr.GetUser(call.Name); gerr == nil && u != nil {
				stored = u.Sequence()
			}
		} else {
			if r, gerr := authr.GetRole(call.Name); gerr == nil && r != nil {
				stored = r.Sequence()
			}
		}
		for _, h := range handedHere {
			if !released[h] && h != stored {
				sig := "principal-number-leaked"
				if uerr != nil && !base.IsCasMismatch(uerr) {
					sig = "principal-save-rejected"
				}
				rec.Fail("principal_update_accounted", sig,
					map[string]any{"calls": calls, "failing_call": call},
					fmt.Sprintf("UpdatePrincipal(%s) returned %v; number %d was obtained from the allocator but is neither on the stored principal (sequence %d) nor published as unused", call.Name, uerr, h, stored))
			}
		}
		if len(w.ops) > 0 {
			w.accounting(len(w.ops)-1, false)
		}
	}
	w.deferAccounting = false
	rec.Sample(map[string]any{"stream": stream, "calls": len(calls)})
	w.finish(stream)
}
