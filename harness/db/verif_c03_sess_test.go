//go:build verif

package db

import (
	"context"
	"encoding/json"
	"errors"
	"fmt"
	"sort"
	"strings"
	"testing"
	"time"

	"github.com/couchbase/sync_gateway/auth"
	"github.com/couchbase/sync_gateway/channels"
)

// C03, long-lived sessions (model coq/theories/C03/Session.v).
//
// A session is a REAL BlipSyncContext (NewBlipSyncContext, with its userChangeWaiter) whose requests go through the
// real blipHandler.refreshUser, or the state of a continuous changes feed (DatabaseCollectionWithUser + the ChangeWaiter
// of startChangeWaiter) whose loop iterations go through the real checkForUserUpdates (ChangeWaiter.Wait is replaced
// by RefreshUserCount: the harness does not block).  The sessions stay open while the administrator edits users and
// roles (role swaps of equal and of different sizes), deletes roles and writes granting documents; after every
// operation the harness waits until the caching feed has delivered the principal-document notifications (a sentinel
// role is edited and its key count awaited), then a session's next request shows what its user object grants.

type c03sOp struct {
	c03Op
	Sess int  `json:"sess,omitempty"`
	Feed bool `json:"feed,omitempty"`
}

type c03sOut struct {
	Kind   string `json:"kind"` // base | view | err | closed
	Base   c03Out `json:"base"`
	Exists bool   `json:"exists,omitempty"`
	Chans  []int  `json:"chans,omitempty"`
	Roles  []int  `json:"roles,omitempty"`
}

type c03sSession struct {
	feed   bool
	user   int
	bsc    *BlipSyncContext
	bh     *blipHandler
	cancel context.CancelCauseFunc
	col    *DatabaseCollectionWithUser
	w      *ChangeWaiter
	cnt    uint64
	last   string // previous view (for the non-trivial rule)
	failed bool   // a request of this BLIP connection got the reconnect error: the client is expected to reconnect
}

func (s *c03sSession) close() {
	if s.bsc != nil {
		s.bsc.Close()
		s.cancel(errors.New("c03 session closed"))
	}
}

var c03sSentinel int

// wait until every principal-document mutation made so far has been notified to the change listener: ONE raw write of a
// sentinel document whose key is a role key (never loaded as a role), then its key count is awaited -- the caching
// feed delivers the events of the metadata collection in the order of the writes
func (e *c03Env) sDrain() error {
	c03sSentinel++
	dbc := e.db.DatabaseContext
	docID := dbc.MetadataKeys.RoleKey("c03sentinel")
	key := channels.NewID(docID, principalDocCollectionIDForChannelID)
	prev := dbc.mutationListener.CurrentCount([]channels.ID{key})
	if err := dbc.MetadataStore.SetRaw(e.ctx, docID, 0, nil, []byte(fmt.Sprintf(`{"name":"c03sentinel","n":%d}`, c03sSentinel))); err != nil {
		return err
	}
	deadline := time.Now().Add(20 * time.Second)
	for dbc.mutationListener.CurrentCount([]channels.ID{key}) <= prev {
		if time.Now().After(deadline) {
			return fmt.Errorf("the sentinel notification did not arrive")
		}
		time.Sleep(200 * time.Microsecond)
	}
	return nil
}

func (e *c03Env) sView(u auth.User) (c03sOut, error) {
	ts, err := u.InheritedCollectionChannels(e.scope, e.coll)
	if err != nil {
		return c03sOut{Kind: "view"}, err
	}
	chs, ok1 := e.chanIdx(nil, ts)
	ros, ok2 := e.roleIdx(u.RoleNames())
	if !ok1 || !ok2 {
		return c03sOut{Kind: "view", Exists: true, Chans: chs, Roles: ros}, fmt.Errorf("unknown channel or role name in %v / %v", ts, u.RoleNames())
	}
	return c03sOut{Kind: "view", Exists: true, Chans: chs, Roles: ros}, nil
}

func (e *c03Env) sOpen(op c03sOp) (*c03sSession, c03sOut, error) {
	a := e.db.Authenticator(e.ctx)
	name := e.uname(op.Who)
	u, err := a.GetUser(name)
	if err != nil {
		return nil, c03sOut{Kind: "view"}, err
	}
	if u == nil {
		return nil, c03sOut{Kind: "view", Exists: false}, nil
	}
	if err := u.InitializeRoles(); err != nil {
		return nil, c03sOut{Kind: "view"}, err
	}
	// the writes of the authentication itself are notified before the waiter is created
	if err := e.sDrain(); err != nil {
		return nil, c03sOut{Kind: "view"}, err
	}
	u, err = a.GetUser(name)
	if err != nil || u == nil {
		return nil, c03sOut{Kind: "view"}, fmt.Errorf("user vanished while opening a session: %v", err)
	}
	s := &c03sSession{feed: op.Feed, user: op.Who}
	if op.Feed {
		s.col = &DatabaseCollectionWithUser{DatabaseCollection: e.col.DatabaseCollection, user: u}
		if _, err := s.col.user.InheritedCollectionChannels(e.scope, e.coll); err != nil {
			return nil, c03sOut{Kind: "view"}, err
		}
		s.w = s.col.startChangeWaiter(false)
		s.cnt = s.w.CurrentUserCount()
		out, err := e.sView(s.col.user)
		return s, out, err
	}
	userDb, err := GetDatabase(e.db.DatabaseContext, u)
	if err != nil {
		return nil, c03sOut{Kind: "view"}, err
	}
	cctx, cancel := context.WithCancelCause(e.ctx)
	bctx, bc, err := NewSGBlipContext(cctx, "", nil, nil)
	if err != nil {
		cancel(err)
		return nil, c03sOut{Kind: "view"}, err
	}
	bsc, err := NewBlipSyncContext(bctx, bc, userDb, nil, cancel)
	if err != nil {
		cancel(err)
		return nil, c03sOut{Kind: "view"}, err
	}
	s.bsc, s.cancel = bsc, cancel
	s.bh = newBlipHandler(bctx, bsc, bsc.copyContextDatabase(), 1)
	out, err := e.sView(s.bh.db.User())
	return s, out, err
}

// the next request of a BLIP connection (userBlipHandler: refreshUser, then the handler uses bh.db.User()), or the
// next iteration of a continuous feed (checkForUserUpdates, then col.user)
func (e *c03Env) sRequest(s *c03sSession) (c03sOut, bool, error) {
	if s.feed {
		s.w.RefreshUserCount()
		_, cnt, _, err := s.col.checkForUserUpdates(e.ctx, s.cnt, s.w, true)
		if err != nil {
			return c03sOut{Kind: "err"}, true, nil
		}
		s.cnt = cnt
		out, verr := e.sView(s.col.user)
		return out, false, verr
	}
	if err := s.bh.refreshUser(); err != nil {
		return c03sOut{Kind: "err"}, false, nil
	}
	out, verr := e.sView(s.bh.db.User())
	return out, false, verr
}

func c03sOpCoq(op c03sOp) string {
	switch op.Kind {
	case "open":
		return "SOpen " + cqI(op.Sess) + " " + cqI(op.Who) + " " + cqBool(op.Feed)
	case "request":
		return "SRequest " + cqI(op.Sess)
	}
	return "SBase (" + c03OpCoq(op.c03Op) + ")"
}

func c03sOutCoq(o c03sOut) string {
	switch o.Kind {
	case "base":
		return "SO (" + c03OutCoq(o.Base) + ")"
	case "view":
		if !o.Exists {
			return "SView None"
		}
		return "SView (Some (" + c03IntList(o.Chans) + "," + c03IntList(o.Roles) + "))"
	case "err":
		return "SErr"
	}
	return "SClosed"
}

func c03sRun(e *c03Env, rec *vRecorder, ops []c03sOp) ([]c03sOut, *c03Failure, bool) {
	e.histNo++
	tr := c03NewTruth()
	outs := make([]c03sOut, 0, len(ops))
	var fail *c03Failure
	sessions := map[int]*c03sSession{}
	defer func() {
		for _, s := range sessions {
			s.close()
		}
	}()
	unnotified := false // a user was deleted or a role purged: before e7d0448 the deletion of a principal document was not notified
	pickedUp := false
	setFail := func(i int, mon, sig, detail string) {
		if fail == nil {
			fail = &c03Failure{monitor: mon, sig: sig, detail: detail, at: i}
		}
	}
	// the session's user object must grant exactly what a fresh request would get: the specification
	checkView := func(i int, s *c03sSession, out c03sOut) {
		chs, ros := tr.specUser(s.user)
		if chs == nil {
			// the user is gone: the request must have failed (reconnect error); a BLIP connection that already got that
			// error and is used again answers from its old user object (refreshUser does not close it) -- not checked
			if s.failed {
				rec.hist["srequest_after_reconnect_error"]++
				return
			}
			sig := "session-of-missing-user"
			if unnotified {
				sig = "session-stale-after-unnotified-delete"
			}
			setFail(i, "waiter_keys_cover_access_sources", sig, fmt.Sprintf("op %d: open session of user %d still answers (channels %v roles %v) although the user does not exist", i, s.user, out.Chans, out.Roles))
			return
		}
		e1, m1 := c03SameSet(out.Chans, chs)
		e2, m2 := c03SameSet(out.Roles, ros)
		if len(e1)+len(m1)+len(e2)+len(m2) == 0 {
			return
		}
		sig := "session-misses-granted-access"
		if len(e1)+len(e2) > 0 {
			sig = "session-keeps-revoked-access"
		}
		if unnotified {
			sig = "session-stale-after-unnotified-delete"
		}
		kind := "BLIP connection"
		if s.feed {
			kind = "continuous feed"
		}
		setFail(i, "waiter_keys_cover_access_sources", sig, fmt.Sprintf("op %d: open %s of user %d sees channels %v roles %v, a fresh request gets channels %v roles %v", i, kind, s.user, out.Chans, out.Roles, c03Keys(chs), c03Keys(ros)))
	}
	for i, op := range ops {
		var out c03sOut
		var err error
		switch op.Kind {
		case "open":
			if old := sessions[op.Sess]; old != nil {
				old.close()
				delete(sessions, op.Sess)
			}
			var s *c03sSession
			s, out, err = e.sOpen(op)
			if s != nil {
				sessions[op.Sess] = s
				s.last = fmt.Sprint(out.Chans, out.Roles)
				if err == nil {
					checkView(i, s, out)
				}
			}
		case "request":
			s := sessions[op.Sess]
			if s == nil {
				out = c03sOut{Kind: "closed"}
				break
			}
			var closed bool
			out, closed, err = e.sRequest(s)
			if closed {
				s.close()
				delete(sessions, op.Sess)
			}
			if err == nil && out.Kind == "view" {
				if v := fmt.Sprint(out.Chans, out.Roles); v != s.last {
					pickedUp = true
					s.last = v
				}
				checkView(i, s, out)
			}
			if err == nil && out.Kind == "err" {
				s.failed = true
				if chs, _ := tr.specUser(s.user); chs != nil {
					setFail(i, "operation_succeeds", "session-reload-failed", fmt.Sprintf("op %d: the reload of existing user %d failed", i, s.user))
				}
			}
		default:
			var b c03Out
			b, err = e.do(rec, op.c03Op)
			out = c03sOut{Kind: "base", Base: b}
			if op.Kind == "deluser" || (op.Kind == "delrole" && op.Purge) {
				if b.Ok {
					unnotified = true
				}
			}
			if op.Kind == "loaduser" && err == nil {
				chs, ros := tr.specUser(op.Who)
				if (chs != nil) != b.Exists {
					setFail(i, "access_spec", "user-existence", fmt.Sprintf("op %d: user exists=%v, spec %v", i, b.Exists, chs != nil))
				} else if chs != nil {
					e1, m1 := c03SameSet(b.Chans, chs)
					e2, m2 := c03SameSet(b.Roles, ros)
					if len(e1)+len(m1)+len(e2)+len(m2) > 0 {
						setFail(i, "access_spec", "user-channels-extra", fmt.Sprintf("op %d: user %d channels %v roles %v, spec %v %v", i, op.Who, b.Chans, b.Roles, c03Keys(chs), c03Keys(ros)))
					}
				}
			}
			tr.apply(op.c03Op)
		}
		if err != nil {
			setFail(i, "operation_succeeds", "op-error:"+op.Kind, fmt.Sprintf("op %d (%s): %v", i, op.Kind, err))
		}
		outs = append(outs, out)
		if derr := e.sDrain(); derr != nil {
			setFail(i, "operation_succeeds", "op-error:drain", fmt.Sprintf("op %d: %v", i, derr))
		}
		if op.Kind == "request" {
			// The writes of the reload itself (lazy rebuilds of the user and its roles) are notified asynchronously:
			// they reach the waiter either before RefreshUserKeys takes lastUserCount (absorbed) or after it (one more
			// reload at the next request, which rebuilds nothing).  The model takes the first schedule; the harness
			// fixes it by letting the session's waiter absorb them now that they have all arrived.
			if s := sessions[op.Sess]; s != nil {
				if s.feed {
					s.w.RefreshUserCount()
					s.cnt = s.w.CurrentUserCount()
				} else {
					s.bsc.dbUserLock.Lock()
					s.bsc.userChangeWaiter.RefreshUserCount()
					s.bsc.dbUserLock.Unlock()
				}
			}
		}
	}
	return outs, fail, pickedUp
}

func c03sCase(ops []c03sOp, outs []c03sOut) string {
	os_ := make([]string, len(ops))
	for i, op := range ops {
		os_[i] = c03sOpCoq(op)
	}
	us := make([]string, len(outs))
	for i, o := range outs {
		us[i] = c03sOutCoq(o)
	}
	return "SCase " + cqList(os_) + " " + cqList(us)
}

func c03sShrink(e *c03Env, rec *vRecorder, ops []c03sOp, f *c03Failure) ([]c03sOp, *c03Failure) {
	cur := append([]c03sOp{}, ops[:f.at+1]...)
	curF := f
	budget := 60
	for changed := true; changed && budget > 0; {
		changed = false
		for i := len(cur) - 2; i >= 0 && budget > 0; i-- {
			cand := append(append([]c03sOp{}, cur[:i]...), cur[i+1:]...)
			budget--
			_, f2, _ := c03sRun(e, rec, cand)
			if f2 != nil && f2.sig == curF.sig {
				cur = cand[:f2.at+1]
				curF = f2
				changed = true
				if i > len(cur)-1 {
					i = len(cur) - 1
				}
			}
		}
	}
	return cur, curF
}

// non-trivial (sessions): some request of an open session returned a view different from the session's previous
// one, i.e. the session picked up a change of its user's access while it was open
func c03sHistory(e *c03Env, rec *vRecorder, kind string, ops []c03sOp) {
	outs, f, pickedUp := c03sRun(e, rec, ops)
	desc := map[string]any{"ops": ops, "outs": outs, "default_collection": e.isDefault}
	rec.Case("session", kind, c03sCase(ops, outs), desc, pickedUp)
	for i, op := range ops {
		rec.hist["sop_"+op.Kind]++
		if op.Kind == "request" {
			rec.hist["srequest_"+outs[i].Kind]++
		}
	}
	if f != nil {
		input := map[string]any{"ops": ops[:f.at+1], "default_collection": e.isDefault}
		detail := f.detail
		if !c03Shrunk["s:"+f.sig] {
			c03Shrunk["s:"+f.sig] = true
			sops, sf := c03sShrink(e, rec, ops, f)
			input = map[string]any{"ops": sops, "default_collection": e.isDefault, "shrunk_from_ops": len(ops)}
			detail = sf.detail
		}
		rec.Fail(f.monitor, f.sig, input, detail)
	}
}

// ---------- generators ----------
func c03sRandomHistory(rnd *vRand) []c03sOp {
	g := &c03Gen{rnd: rnd, tr: c03NewTruth(), nU: 2, nR: 3, nD: 2}
	n := 14 + rnd.Intn(22)
	var ops []c03sOp
	push := func(op c03sOp) {
		ops = append(ops, op)
		g.tr.apply(op.c03Op)
	}
	for u := 0; u < g.nU; u++ {
		push(c03sOp{c03Op: c03Op{Kind: "setprinc", User: true, Who: u}})
	}
	for r := 0; r < g.nR; r++ {
		if rnd.Chance(70) {
			push(c03sOp{c03Op: c03Op{Kind: "setprinc", Who: r}})
		}
	}
	open := map[int]bool{}
	roleSet := func() []int {
		// mostly sets of one role: a later set of one OTHER role is a swap of equal size
		k := rnd.Intn(100)
		switch {
		case k < 15:
			return []int{}
		case k < 75:
			return []int{rnd.Intn(g.nR)}
		}
		a, b := rnd.Intn(g.nR), rnd.Intn(g.nR)
		if a == b {
			b = (a + 1) % g.nR
		}
		return []int{a, b}
	}
	for len(ops) < n {
		k := rnd.Intn(100)
		switch {
		case k < 12 || len(open) == 0:
			id := rnd.Intn(3)
			push(c03sOp{c03Op: c03Op{Kind: "open", Who: rnd.Intn(g.nU)}, Sess: id, Feed: rnd.Bool()})
			open[id] = true
		case k < 42:
			id := rnd.Intn(3)
			for j := 0; j < 3 && !open[id]; j++ {
				id = (id + 1) % 3
			}
			push(c03sOp{c03Op: c03Op{Kind: "request"}, Sess: id})
		case k < 60: // the user's admin roles
			push(c03sOp{c03Op: c03Op{Kind: "setprinc", User: true, Who: rnd.Intn(g.nU), SetRo: true, Roles: roleSet()}})
		case k < 72: // a role's admin channels
			push(c03sOp{c03Op: c03Op{Kind: "setprinc", Who: rnd.Intn(g.nR), SetCh: true, Chans: g.chanSubset(35)}})
		case k < 90: // a document granting channels to roles / users and roles to users
			op := g.put()
			if op.Body == "live" {
				op.Acc, op.Rol = nil, nil
				for j := rnd.Intn(3); j > 0; j-- {
					op.Acc = append(op.Acc, c03Grant{Role: rnd.Chance(75), To: rnd.Intn(2), V: []int{1 + rnd.Intn(4)}})
					if op.Acc[len(op.Acc)-1].Role {
						op.Acc[len(op.Acc)-1].To = rnd.Intn(g.nR)
					}
				}
				if rnd.Chance(40) {
					op.Rol = []c03Grant{{To: rnd.Intn(g.nU), V: roleSet()}}
					if len(op.Rol[0].V) == 0 {
						op.Rol = nil
					}
				}
			}
			push(c03sOp{c03Op: op})
		case k < 94:
			push(c03sOp{c03Op: c03Op{Kind: "delrole", Who: rnd.Intn(g.nR), Purge: rnd.Chance(25)}})
		case k < 96:
			push(c03sOp{c03Op: c03Op{Kind: "deluser", Who: rnd.Intn(g.nU)}})
		default:
			push(c03sOp{c03Op: c03Op{Kind: "loaduser", Who: rnd.Intn(g.nU)}})
		}
	}
	for id := range []int{0, 1, 2} {
		push(c03sOp{c03Op: c03Op{Kind: "request"}, Sess: id})
	}
	return ops
}

func c03sCorpus() map[string][]c03sOp {
	r := func(g int, d uint64) *c03Rev { return &c03Rev{Gen: g, Dig: d} }
	b := func(op c03Op) c03sOp { return c03sOp{c03Op: op} }
	mkU := func(u int) c03sOp { return b(c03Op{Kind: "setprinc", User: true, Who: u}) }
	mkR := func(x int) c03sOp { return b(c03Op{Kind: "setprinc", Who: x}) }
	roles := func(u int, rs ...int) c03sOp {
		return b(c03Op{Kind: "setprinc", User: true, Who: u, SetRo: true, Roles: append([]int{}, rs...)})
	}
	rchans := func(x int, cs ...int) c03sOp {
		return b(c03Op{Kind: "setprinc", Who: x, SetCh: true, Chans: append([]int{}, cs...)})
	}
	put := func(d int, par, rev *c03Rev, acc, rol []c03Grant) c03sOp {
		return b(c03Op{Kind: "put", Doc: d, Parent: par, Rev: rev, Body: "live", Acc: acc, Rol: rol})
	}
	aR := func(x int, cs ...int) c03Grant { return c03Grant{Role: true, To: x, V: cs} }
	aU := func(u int, cs ...int) c03Grant { return c03Grant{To: u, V: cs} }
	open := func(id, u int, feed bool) c03sOp {
		return c03sOp{c03Op: c03Op{Kind: "open", Who: u}, Sess: id, Feed: feed}
	}
	req := func(id int) c03sOp { return c03sOp{c03Op: c03Op{Kind: "request"}, Sess: id} }
	res := map[string][]c03sOp{}
	for _, feed := range []bool{false, true} {
		k := map[bool]string{false: "blip_", true: "feed_"}[feed]
		// role A -> role B (equal size), then B's access changes: by a document, by the administrator, and back
		res[k+"swap_equal_size_then_new_role_changes"] = []c03sOp{mkU(0), mkR(0), mkR(1), roles(0, 0), open(0, 0, feed), req(0),
			roles(0, 1), req(0), req(0),
			put(0, nil, r(1, 5), []c03Grant{aR(1, 2)}, nil), req(0),
			rchans(1, 3), req(0),
			put(0, r(1, 5), r(2, 5), nil, nil), req(0), rchans(1), req(0)}
		// the swap is made by a document's role() grant
		res[k+"swap_by_document_role_grant"] = []c03sOp{mkU(0), mkR(0), mkR(1), put(0, nil, r(1, 5), nil, []c03Grant{aU(0, 0)}),
			open(0, 0, feed), req(0), put(0, r(1, 5), r(2, 5), nil, []c03Grant{aU(0, 1)}), req(0), req(0),
			rchans(1, 4), req(0), put(1, nil, r(1, 6), []c03Grant{aR(1, 1)}, nil), req(0)}
		// different sizes: 0 -> 1 -> 2 -> 1 -> 0, each followed by a change of a role that is (or is no longer) held
		res[k+"role_sets_of_different_sizes"] = []c03sOp{mkU(0), mkR(0), mkR(1), open(0, 0, feed), req(0),
			roles(0, 0), req(0), rchans(0, 1), req(0),
			roles(0, 0, 1), req(0), rchans(1, 2), req(0),
			roles(0, 1), req(0), rchans(0, 3), rchans(1, 2, 4), req(0),
			roles(0), req(0), rchans(1, 1), req(0)}
		// {A,B} -> {A,C} (equal size, one role kept), then C changes
		res[k+"swap_one_of_two"] = []c03sOp{mkU(0), mkR(0), mkR(1), mkR(2), roles(0, 0, 1), open(0, 0, feed), req(0),
			roles(0, 0, 2), req(0), req(0), rchans(2, 3), req(0), rchans(1, 4), req(0), rchans(0, 1), req(0)}
		// a role that does not exist yet when it is assigned, created later; a role deleted (soft) and re-created
		res[k+"role_created_and_deleted_while_open"] = []c03sOp{mkU(0), roles(0, 0), open(0, 0, feed), req(0),
			mkR(0), req(0), rchans(0, 2), req(0), b(c03Op{Kind: "delrole", Who: 0}), req(0), mkR(0), req(0), rchans(0, 3), req(0)}
		// the DELETION of a principal document notifies its key too (e7d0448): a purged role
		res[k+"role_purged_while_open"] = []c03sOp{mkU(0), mkR(0), rchans(0, 2), roles(0, 0), open(0, 0, feed), req(0),
			b(c03Op{Kind: "delrole", Who: 0, Purge: true}), req(0), b(c03Op{Kind: "loaduser", Who: 0}), req(0)}
		// ... and a deleted user
		res[k+"user_deleted_while_open"] = []c03sOp{mkU(0), b(c03Op{Kind: "setprinc", User: true, Who: 0, SetCh: true, Chans: []int{1}}),
			open(0, 0, feed), req(0), b(c03Op{Kind: "deluser", Who: 0}), req(0), req(0)}
		// the user's own grants change while the session is open; two sessions of the same user
		res[k+"own_grants_and_two_sessions"] = []c03sOp{mkU(0), mkU(1), open(0, 0, feed), open(1, 0, !feed), open(2, 1, feed),
			put(0, nil, r(1, 5), []c03Grant{aU(0, 1)}, nil), req(0), req(1), req(2),
			b(c03Op{Kind: "setprinc", User: true, Who: 0, SetCh: true, Chans: []int{2}}), req(1), req(0),
			put(0, r(1, 5), r(2, 5), nil, nil), req(0), req(1), req(2)}
	}
	return res
}

// the session streams, called from TestVerifC03
func c03sStreams(t *testing.T, rec *vRecorder, rnd *vRand) {
	envs := map[bool]*c03Env{}
	used := map[bool]int{}
	env := func(def bool) *c03Env {
		if e := envs[def]; e != nil && used[def] < 40 {
			used[def]++
			return e
		}
		if e := envs[def]; e != nil {
			e.close()
		}
		e := c03NewEnv(t, def)
		envs[def] = e
		used[def] = 1
		return e
	}
	defer func() {
		for _, e := range envs {
			if e != nil {
				e.close()
			}
		}
	}()
	corpus := c03sCorpus()
	names := make([]string, 0, len(corpus))
	for n := range corpus {
		names = append(names, n)
	}
	// the histories with the deletion of a principal document run last
	last := func(n string) bool { return strings.Contains(n, "purged") || strings.Contains(n, "deleted_while") }
	sort.Slice(names, func(i, j int) bool {
		if last(names[i]) != last(names[j]) {
			return last(names[j])
		}
		return names[i] < names[j]
	})
	for _, n := range names {
		for _, def := range []bool{true, false} {
			c03sHistory(env(def), rec, "s_corpus_"+strings.SplitN(n, "_", 2)[0], corpus[n])
		}
	}
	n := vBudget(60, 600)
	for i := 0; i < n; i++ {
		c03sHistory(env(i%2 == 0), rec, "s_random", c03sRandomHistory(rnd))
	}
	if b, err := json.Marshal(map[string]int{"session": n + 2*len(corpus)}); err == nil {
		rec.Extra("s_histories", string(b))
	}
}
