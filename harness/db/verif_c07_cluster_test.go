//go:build verif

package db

import (
	"context"
	"errors"
	"fmt"
	"math"
	"sort"
	"strconv"
	"strings"
	"testing"
	"time"

	sgbucket "github.com/couchbase/sg-bucket"
	"github.com/couchbase/sync_gateway/base"
)

// C07, cluster part: 2..3 REAL sequenceAllocators ("nodes") over one rosmar datastore, each running its
// calls in its own goroutine, driven by a deterministic scheduler with explicit turns: exactly one node
// goroutine runs at a time; a node's datastore decorator suspends the running call at the program points
// of the Coq model coq/theories/C07/Cluster.v and hands control back to the scheduler:
//   1  nextSequenceGreaterThan, right after getSequence returned           (PGt)
//   2  _fixSyncSeqRollback, before datastore.Get                           (PFixCas)
//   3  _fixSyncSeqRollback, after WriteCas, before _incrementSequence      (PFixIncr)
//   4  nextSequenceGreaterThan after the fix, before its next Incr         (PGtFixed)
// so a step performs at most one operation on the counter document and every interleaving of the steps of
// different nodes can be scheduled.  Ops (= ops of the model):
//   next / disc / gt   start nextSequence / nextSequence+releaseSequence / nextSequenceGreaterThan on node i
//   turn               resume the suspended call of node i
//   idle / stop        releaseUnusedSequences / Stop
//   batch              overwrite sequenceBatchSize with any value of [1, maxBatchSize] (adversarial sizing)
//   crash              drop node i without Stop -- also in the middle of a call (the suspended call is aborted
//                      by failing the storage operation it waits at; the allocator is never used again)
//   env                a direct Incr of the counter document
//   rollback           the counter document is set back to a lower value (or deleted)
// After every step the model must reproduce: number returned / error, unused-sequence documents written,
// counter value, the program point the call is suspended at, and the fields last / max / sequenceBatchSize
// of the acting allocator.

var errC07xCrash = errors.New("c07: node crashed")

type c07xOp struct {
	Kind   string `json:"op"` // next disc gt turn idle stop batch crash env rollback
	I      int    `json:"i"`
	X      uint64 `json:"x,omitempty"`
	Fast   bool   `json:"fast,omitempty"`
	K      uint64 `json:"k,omitempty"` // env: amount; batch: size; rollback: new counter value
	Delete bool   `json:"delete,omitempty"`
}

func (o c07xOp) coq() string {
	i := cqI(o.I)
	f := cqBool(o.Fast)
	switch o.Kind {
	case "next":
		return "XNext " + i + " " + f
	case "disc":
		return "XNextDiscard " + i + " " + f
	case "gt":
		return "XGT " + i + " " + cqN(o.X) + " " + f
	case "turn":
		return "XTurn " + i + " " + f
	case "idle":
		return "XReleaseIdle " + i
	case "stop":
		return "XStop " + i
	case "batch":
		return "XSetBatch " + i + " " + cqN(o.K)
	case "crash":
		return "XCrash " + i
	case "env":
		return "XEnvIncr " + cqN(o.K)
	case "rollback":
		return "XRollback " + cqN(o.K)
	}
	panic("c07x: bad op " + o.Kind)
}

func (o c07xOp) String() string {
	switch o.Kind {
	case "gt":
		return fmt.Sprintf("gt(%d,%d,%v)", o.I, o.X, o.Fast)
	case "env":
		return fmt.Sprintf("env(%d)", o.K)
	case "rollback":
		if o.Delete {
			return "rollback(delete)"
		}
		return fmt.Sprintf("rollback(%d)", o.K)
	case "batch":
		return fmt.Sprintf("batch(%d,%d)", o.I, o.K)
	case "idle", "stop", "crash":
		return fmt.Sprintf("%s(%d)", o.Kind, o.I)
	}
	return fmt.Sprintf("%s(%d,%v)", o.Kind, o.I, o.Fast)
}

type c07xObs struct {
	Hand    *uint64     `json:"hand,omitempty"`
	Err     bool        `json:"err,omitempty"`
	Ranges  [][2]uint64 `json:"ranges,omitempty"`
	Ones    []uint64    `json:"ones,omitempty"`
	Counter uint64      `json:"counter"`
	Park    int         `json:"park,omitempty"`
	Last    uint64      `json:"last"`
	Max     uint64      `json:"max"`
	Batch   uint64      `json:"batch"`
}

func (o c07xObs) coq() string {
	var rs []string
	for _, r := range o.Ranges {
		rs = append(rs, "("+cqN(r[0])+","+cqN(r[1])+")")
	}
	return "XB " + cqOptN(o.Hand) + " " + cqBool(o.Err) + " " + cqList(rs) + " " + cqNList(o.Ones) + " " +
		cqN(o.Counter) + " " + cqI(o.Park) + " " + cqN(o.Last) + " " + cqN(o.Max) + " " + cqN(o.Batch)
}

type c07xNode struct {
	id       int
	al       *sequenceAllocator
	cmd      chan func() c07Res
	done     chan c07Res
	parkedCh chan int
	resume   chan bool
	// touched by the node goroutine while it has the turn, by the scheduler otherwise
	inCall   bool
	phase    int
	parked   int
	floor    uint64
	hasFloor bool
	discard  bool
	stopped  bool
	crashed  bool
	lastHand uint64
}

// datastore decorator of one node
type c07xStore struct {
	base.DataStore
	w *c07xWorld
	n *c07xNode
}

func (s *c07xStore) park(code int) error {
	s.n.parkedCh <- code
	if !<-s.n.resume {
		return errC07xCrash
	}
	return nil
}

func (s *c07xStore) Incr(ctx context.Context, k string, amt, def uint64, exp uint32) (uint64, error) {
	if k != s.w.keys.SyncSeqKey() || !s.n.inCall {
		return s.DataStore.Incr(ctx, k, amt, def, exp)
	}
	if amt == 0 {
		v, err := s.DataStore.Incr(ctx, k, amt, def, exp)
		if err != nil {
			return v, err
		}
		if perr := s.park(1); perr != nil {
			return 0, perr
		}
		return v, nil
	}
	switch s.n.phase {
	case 1:
		s.n.phase = 2
		if perr := s.park(3); perr != nil {
			return 0, perr
		}
	case 2:
		s.n.phase = 0
		if perr := s.park(4); perr != nil {
			return 0, perr
		}
	}
	return s.DataStore.Incr(ctx, k, amt, def, exp)
}

func (s *c07xStore) Get(ctx context.Context, k string, rv interface{}) (uint64, error) {
	if k == s.w.keys.SyncSeqKey() && s.n.inCall {
		if perr := s.park(2); perr != nil {
			return 0, perr
		}
	}
	return s.DataStore.Get(ctx, k, rv)
}

func (s *c07xStore) WriteCas(ctx context.Context, k string, exp uint32, cas uint64, v interface{}, opt sgbucket.WriteOptions) (uint64, error) {
	out, err := s.DataStore.WriteCas(ctx, k, exp, cas, v, opt)
	if k == s.w.keys.SyncSeqKey() && s.n.inCall && err == nil {
		s.n.phase = 1
	}
	return out, err
}

func (s *c07xStore) AddRaw(ctx context.Context, k string, exp uint32, v []byte) (bool, error) {
	added, err := s.DataStore.AddRaw(ctx, k, exp, v)
	s.w.writes = append(s.w.writes, c07Write{key: k, body: append([]byte(nil), v...), added: added, err: err})
	return added, err
}

type c07xWorld struct {
	t      *testing.T
	rec    *vRecorder
	ctx    context.Context
	under  base.DataStore
	keys   *base.MetadataKeys
	nodes  []*c07xNode
	writes []c07Write // only one goroutine runs at a time
	stream string
	dec    *c07World // only for decode()
	// history
	ops     []c07xOp
	obs     []c07xObs
	allKeys []string
	claims  []c07Claim
	// what the theorems' hypotheses say about the run so far
	hw         uint64
	rolledBack bool // a rollback op that really lowered the counter happened
	unsafe     bool // some step took fresh numbers while the counter was below its high-water mark
	nonquiet   bool // the counter went back while a live node was in the middle of a call
	reserved   bool
	released   bool
	failed     bool
}

var c07xCaseNo int

func c07xNewWorld(t *testing.T, rec *vRecorder, ctx context.Context, under base.DataStore, stats *base.DatabaseStats, n int, stream string) *c07xWorld {
	c07xCaseNo++
	w := &c07xWorld{t: t, rec: rec, ctx: ctx, under: under, stream: stream,
		keys: base.NewMetadataKeys(fmt.Sprintf("c07x%d", c07xCaseNo))}
	w.dec = &c07World{t: t, rec: rec, keys: w.keys}
	for i := 0; i < n; i++ {
		nd := &c07xNode{id: i, cmd: make(chan func() c07Res), done: make(chan c07Res), parkedCh: make(chan int), resume: make(chan bool)}
		a, err := newSequenceAllocator(ctx, &c07xStore{DataStore: under, w: w, n: nd}, stats, w.keys)
		if err != nil {
			t.Fatalf("c07x: newSequenceAllocator: %v", err)
		}
		a.releaseSequenceWait = 24 * time.Hour
		nd.al = a
		w.nodes = append(w.nodes, nd)
		go func(nd *c07xNode) {
			for f := range nd.cmd {
				nd.inCall = true
				nd.phase = 0
				r := f()
				nd.inCall = false
				nd.done <- r
			}
		}(nd)
	}
	return w
}

// close ends the node goroutines and the allocators' monitor goroutines without writing anything
func (w *c07xWorld) close() {
	for _, nd := range w.nodes {
		if nd.parked != 0 {
			nd.resume <- false
			<-nd.done
			nd.parked = 0
		}
		close(nd.cmd)
		if !nd.stopped {
			nd.al.mutex.Lock()
			nd.al.last = nd.al.max
			nd.al.mutex.Unlock()
			close(nd.al.terminator)
		}
	}
}

func (w *c07xWorld) counter() uint64 {
	v, err := w.under.Incr(w.ctx, w.keys.SyncSeqKey(), 0, 0, 0)
	if err != nil {
		w.t.Fatalf("c07x: read counter: %v", err)
	}
	return v
}

// the node's goroutine is suspended or between calls: its fields are stable
func (w *c07xWorld) window(i int) (last, max, batch uint64) {
	a := w.nodes[i].al
	return a.last, a.max, a.sequenceBatchSize
}

func (w *c07xWorld) live(i int) bool { return !w.nodes[i].stopped && !w.nodes[i].crashed }

func (w *c07xWorld) valid(o c07xOp) bool {
	switch o.Kind {
	case "env":
		return true
	case "rollback":
		if o.Delete {
			// the Get of a suspended _fixSyncSeqRollback would fail on a missing document: storage failures
			// are outside the model
			for _, nd := range w.nodes {
				if nd.parked == 2 {
					return false
				}
			}
		}
		return true
	}
	if o.I < 0 || o.I >= len(w.nodes) {
		return false
	}
	nd := w.nodes[o.I]
	switch o.Kind {
	case "crash":
		return !nd.crashed
	case "turn":
		return w.live(o.I) && nd.parked != 0
	case "batch":
		return w.live(o.I) && nd.parked == 0 && o.K >= 1 && o.K <= maxBatchSize
	}
	return w.live(o.I) && nd.parked == 0
}

func (w *c07xWorld) input() any {
	var s []string
	for _, o := range w.ops {
		s = append(s, o.String())
	}
	return map[string]any{"nodes": len(w.nodes), "ops": s, "ops_json": w.ops}
}

func (w *c07xWorld) fail(monitor, sig, detail string) {
	w.failed = true
	w.rec.Fail(monitor, sig, w.input(), detail)
}

func (w *c07xWorld) await(nd *c07xNode) *c07Res {
	select {
	case code := <-nd.parkedCh:
		nd.parked = code
		return nil
	case r := <-nd.done:
		nd.parked = 0
		return &r
	}
}

// is [lo,hi] inside the union of the ranges
func c07xCovered(lo, hi uint64, ranges [][2]uint64) bool {
	if lo > hi {
		return true
	}
	rs := append([][2]uint64(nil), ranges...)
	sort.Slice(rs, func(a, b int) bool { return rs[a][0] < rs[b][0] })
	cur := lo
	for _, r := range rs {
		if r[0] <= cur && cur <= r[1] {
			if r[1] >= hi {
				return true
			}
			cur = r[1] + 1
		}
	}
	return false
}

func (w *c07xWorld) claim(lo, hi uint64, what string, monitor string) {
	step := len(w.ops) - 1
	if !w.unsafe {
		for _, c := range w.claims {
			if lo <= c.hi && c.lo <= hi {
				w.fail(monitor, "overlap:"+c07Kind(c.what)+"/"+c07Kind(what),
					fmt.Sprintf("step %d: %s [%d,%d] overlaps %s [%d,%d] of step %d", step, what, lo, hi, c.what, c.lo, c.hi, c.step))
			}
		}
	}
	w.claims = append(w.claims, c07Claim{lo, hi, what, step})
}

// exec runs one op (one step of the scheduler), observes, evaluates the monitors
func (w *c07xWorld) exec(o c07xOp) c07xObs {
	w.writes = nil
	ctrBefore := w.counter()
	hwBefore := w.hw
	if ctrBefore > w.hw {
		// (cannot happen: hw is updated after every step)
		w.hw = ctrBefore
		hwBefore = ctrBefore
	}
	var nd *c07xNode
	var lastB, maxB, batchB uint64
	parkB := 0
	if o.Kind != "env" && o.Kind != "rollback" {
		nd = w.nodes[o.I]
		lastB, maxB, batchB = w.window(o.I)
		parkB = nd.parked
	}
	var res *c07Res
	switch o.Kind {
	case "next", "disc":
		c07SetFast(o.Fast)
		discard := o.Kind == "disc"
		nd.hasFloor, nd.discard = false, discard
		a := nd.al
		nd.cmd <- func() c07Res {
			s, err := a.nextSequence(w.ctx)
			if err == nil && discard {
				if rerr := a.releaseSequence(w.ctx, s); rerr != nil {
					return c07Res{s, fmt.Errorf("releaseSequence: %w", rerr)}
				}
			}
			return c07Res{s, err}
		}
		res = w.await(nd)
	case "gt":
		c07SetFast(o.Fast)
		nd.hasFloor, nd.floor, nd.discard = true, o.X, false
		a, x := nd.al, o.X
		nd.cmd <- func() c07Res {
			s, _, err := a.nextSequenceGreaterThan(w.ctx, x)
			return c07Res{s, err}
		}
		res = w.await(nd)
	case "turn":
		c07SetFast(o.Fast)
		nd.resume <- true
		res = w.await(nd)
	case "idle":
		a := nd.al
		nd.cmd <- func() c07Res { a.releaseUnusedSequences(w.ctx); return c07Res{} }
		w.await(nd)
	case "stop":
		a := nd.al
		nd.cmd <- func() c07Res { a.Stop(w.ctx); return c07Res{} }
		w.await(nd)
		nd.stopped = true
	case "batch":
		nd.al.mutex.Lock()
		nd.al.sequenceBatchSize = o.K
		nd.al.mutex.Unlock()
	case "crash":
		if nd.parked != 0 {
			nd.resume <- false
			<-nd.done
			nd.parked = 0
			// the model keeps the program point of a crashed node; nothing of it is observable any more
		}
		nd.crashed = true
	case "env":
		if o.K > 0 {
			if _, err := w.under.Incr(w.ctx, w.keys.SyncSeqKey(), o.K, o.K, 0); err != nil {
				w.t.Fatalf("c07x: env incr: %v", err)
			}
		}
	case "rollback":
		if o.Delete {
			if ctrBefore > 0 {
				if err := w.under.Delete(w.ctx, w.keys.SyncSeqKey()); err != nil {
					w.t.Fatalf("c07x: delete counter: %v", err)
				}
			}
		} else if o.K < ctrBefore {
			if err := w.under.SetRaw(w.ctx, w.keys.SyncSeqKey(), 0, nil, []byte(strconv.FormatUint(o.K, 10))); err != nil {
				w.t.Fatalf("c07x: set counter: %v", err)
			}
		}
	}
	writes := w.writes
	w.writes = nil
	ctr := w.counter()

	// ---- observation ----
	w.ops = append(w.ops, o)
	step := len(w.ops) - 1
	var ob c07xObs
	ob.Counter = ctr
	if nd != nil {
		ob.Last, ob.Max, ob.Batch = w.window(o.I)
		if !nd.crashed {
			ob.Park = nd.parked
		} else {
			ob.Park = parkB // the model's crashed node stays where it was
		}
	}
	if o.Kind == "rollback" {
		if ctr < ctrBefore {
			w.rolledBack = true
			for i, n2 := range w.nodes {
				if w.live(i) && n2.parked != 0 {
					w.nonquiet = true
				}
			}
		}
	}
	uniqueMon, monoMon, floorMon := "multi_node_unique", "multi_node_monotone_per_node", "greater_than_result"
	if w.rolledBack {
		uniqueMon, monoMon, floorMon = "rollback_unique_if_restored", "rollback_monotone", "rollback_floor"
	}
	var twice []string
	for _, wr := range writes {
		lo, hi, single, ok := w.dec.decode(wr)
		if !ok {
			w.fail("release_doc_key", "release-doc-key", "AddRaw of an unexpected key "+wr.key)
			continue
		}
		if wr.err != nil {
			w.fail("release_error", "release-error", fmt.Sprintf("AddRaw %s: %v", wr.key, wr.err))
			continue
		}
		if !wr.added {
			twice = append(twice, wr.key)
		}
		w.allKeys = append(w.allKeys, wr.key)
		w.released = true
		if single {
			ob.Ones = append(ob.Ones, lo)
		} else {
			ob.Ranges = append(ob.Ranges, [2]uint64{lo, hi})
		}
	}
	// is this step "safe" in the sense of ClusterRollback.v?  (only matters below the high-water mark)
	if ctrBefore < hwBefore {
		fresh := false
		in := func(s uint64) bool { return lastB < s && s <= maxB }
		if o.Kind == "env" && o.K > 0 {
			fresh = true
		}
		if nd != nil {
			for _, r := range ob.Ranges {
				if !(in(r[0]) && in(r[1])) {
					fresh = true
				}
			}
			if res != nil && res.err == nil && !in(res.seq) {
				fresh = true
			}
			if ob.Last < ob.Max && !(lastB <= ob.Last && ob.Max <= maxB) {
				fresh = true
			}
		}
		if fresh {
			w.unsafe = true
		}
	}
	if len(twice) > 0 && !w.unsafe {
		w.fail(uniqueMon, "released-twice", fmt.Sprintf("step %d: unused-sequence documents %v already existed", step, twice))
	}
	for _, r := range ob.Ranges {
		if r[0] > r[1] || r[0] == 0 {
			w.fail(uniqueMon, "empty-range", fmt.Sprintf("step %d: released range [%d,%d]", step, r[0], r[1]))
		} else {
			w.claim(r[0], r[1], "released range", uniqueMon)
		}
	}
	if o.Kind == "env" && o.K > 0 {
		w.claim(ctrBefore+1, ctrBefore+o.K, "foreign reservation", uniqueMon)
	}
	if res != nil {
		if res.err != nil {
			ob.Err = true
			w.rec.Err("error")
			if errors.Is(res.err, base.ErrMaxSequenceReleasedExceeded) {
				// monitor: the step that returns the error changes nothing and writes nothing
				if ob.Last != lastB || ob.Max != maxB || ob.Batch != batchB || len(writes) != 0 ||
					((parkB == 1 || parkB == 4) && ctr != ctrBefore) {
					w.fail("max_release_error_unchanged", "error-changed-state",
						fmt.Sprintf("step %d: window (%d,%d] batch %d counter %d -> window (%d,%d] batch %d counter %d, %d documents written",
							step, lastB, maxB, batchB, ctrBefore, ob.Last, ob.Max, ob.Batch, ctr, len(writes)))
				}
				if !nd.hasFloor {
					w.fail("max_release_error_unchanged", "error-without-floor", fmt.Sprintf("step %d: %v from a call without floor", step, res.err))
				}
			} else {
				w.fail("unexpected_error", "unexpected-error", fmt.Sprintf("step %d: %v", step, res.err))
			}
		} else {
			s := res.seq
			ob.Hand = &s
			w.reserved = true
			w.claim(s, s, fmt.Sprintf("handed by node %d", o.I), uniqueMon)
			for _, one := range ob.Ones {
				if !(nd.discard && one == s) {
					w.fail(uniqueMon, "single-release-of-foreign-number", fmt.Sprintf("step %d: released single %d", step, one))
				}
			}
			if !w.nonquiet {
				if s <= nd.lastHand {
					w.fail(monoMon, "not-increasing", fmt.Sprintf("step %d: node %d returned %d after %d", step, o.I, s, nd.lastHand))
				}
				if nd.hasFloor && nd.floor < math.MaxUint64 && s <= nd.floor {
					w.fail(floorMon, "not-above-floor", fmt.Sprintf("step %d: nextSequenceGreaterThan(%d) returned %d", step, nd.floor, s))
				}
			}
			nd.lastHand = s
			if nd.hasFloor && !w.rolledBack && s > 0 {
				// monitor: everything the call skipped in this step is released in this step, and what the node
				// still holds is above the result
				if maxB > lastB && !c07xCovered(lastB+1, min(maxB, s-1), ob.Ranges) {
					w.fail("greater_than_result", "skipped-not-released", fmt.Sprintf("step %d: result %d, window before (%d,%d], released %v", step, s, lastB, maxB, ob.Ranges))
				}
				if ctr > ctrBefore && !c07xCovered(ctrBefore+1, min(ctr, s-1), ob.Ranges) {
					w.fail("greater_than_result", "skipped-not-released", fmt.Sprintf("step %d: result %d, reserved (%d,%d], released %v", step, s, ctrBefore, ctr, ob.Ranges))
				}
				if ob.Last != s {
					w.fail("greater_than_result", "holds-below-result", fmt.Sprintf("step %d: result %d but last=%d", step, s, ob.Last))
				}
			}
			if !w.rolledBack && s > ctr {
				w.fail("multi_node_accounted", "above-counter", fmt.Sprintf("step %d: returned %d above the counter %d", step, s, ctr))
			}
		}
	} else if len(ob.Ones) > 0 {
		w.fail(uniqueMon, "single-release-of-foreign-number", fmt.Sprintf("step %d: released singles %v", step, ob.Ones))
	}
	if ctr > w.hw {
		w.hw = ctr
	}
	w.obs = append(w.obs, ob)
	if !w.rolledBack {
		w.accounting(step)
	}
	return ob
}

// monitor (runs without rollback): (0, counter] = handed + released + foreign + windows (those of crashed
// nodes included), as a partition; a stopped node holds nothing
func (w *c07xWorld) accounting(step int) {
	if w.failed {
		return
	}
	type iv struct {
		lo, hi uint64
		what   string
	}
	var ivs []iv
	for _, c := range w.claims {
		ivs = append(ivs, iv{c.lo, c.hi, c.what})
	}
	for i, nd := range w.nodes {
		last, max, batch := w.window(i)
		if last > max {
			w.fail("multi_node_accounted", "last-above-max", fmt.Sprintf("step %d: node %d last=%d max=%d", step, i, last, max))
			return
		}
		if batch < 1 || batch > maxBatchSize {
			w.fail("multi_node_accounted", "batch-size", fmt.Sprintf("step %d: node %d batch=%d", step, i, batch))
		}
		if last < max {
			if nd.stopped {
				w.fail("multi_node_accounted", "stopped-holds", fmt.Sprintf("step %d: stopped node %d still holds (%d,%d]", step, i, last, max))
			}
			what := fmt.Sprintf("window of node %d", i)
			if nd.crashed {
				what = fmt.Sprintf("window of crashed node %d", i)
			}
			ivs = append(ivs, iv{last + 1, max, what})
		}
	}
	sort.Slice(ivs, func(a, b int) bool { return ivs[a].lo < ivs[b].lo })
	ctr := w.obs[len(w.obs)-1].Counter
	next := uint64(1)
	for _, v := range ivs {
		if v.lo > next {
			w.fail("multi_node_accounted", "gap", fmt.Sprintf("step %d: numbers [%d,%d] are below the counter %d but neither handed, released nor held", step, next, v.lo-1, ctr))
			return
		}
		if v.lo < next {
			w.fail("multi_node_unique", "overlap:window", fmt.Sprintf("step %d: %s [%d,%d] overlaps a number already disposed of", step, v.what, v.lo, v.hi))
			return
		}
		next = v.hi + 1
	}
	if next != ctr+1 {
		if next <= ctr {
			w.fail("multi_node_accounted", "gap", fmt.Sprintf("step %d: numbers [%d,%d] are below the counter but neither handed, released nor held", step, next, ctr))
		} else {
			w.fail("multi_node_accounted", "above-counter", fmt.Sprintf("step %d: numbers up to %d disposed of but the counter is %d", step, next-1, ctr))
		}
	}
}

// finish lets suspended calls of live nodes run to their end, stops every live node, reads the bucket, emits
// the case
func (w *c07xWorld) finish(kind string) {
	for i, nd := range w.nodes {
		for k := 0; k < 12 && w.live(i) && nd.parked != 0; k++ {
			w.exec(c07xOp{Kind: "turn", I: i, Fast: true})
		}
	}
	for i := range w.nodes {
		if w.live(i) {
			w.exec(c07xOp{Kind: "stop", I: i})
		}
	}
	var dr []string
	var d1 []uint64
	for _, k := range w.allKeys {
		body, _, err := w.under.GetRaw(w.ctx, k)
		if err != nil {
			w.fail("release_doc_missing", "release-doc-missing", fmt.Sprintf("unused-sequence document %s: %v", k, err))
			continue
		}
		lo, hi, single, ok := w.dec.decode(c07Write{key: k, body: body})
		if !ok {
			continue
		}
		if single {
			d1 = append(d1, lo)
		} else {
			dr = append(dr, "("+cqN(lo)+","+cqN(hi)+")")
		}
	}
	w.close()
	var steps []string
	var desc []string
	for i, o := range w.ops {
		steps = append(steps, "("+o.coq()+", "+w.obs[i].coq()+")")
		desc = append(desc, o.String())
		w.rec.Count(w.stream, "xop_"+o.Kind, "", false)
		if w.obs[i].Park >= 2 {
			w.rec.Count(w.stream, fmt.Sprintf("park_%d", w.obs[i].Park), "", false)
		}
	}
	if w.unsafe {
		w.rec.Count(w.stream, "run_unsafe", "", false)
	}
	if w.nonquiet {
		w.rec.Count(w.stream, "run_nonquiet", "", false)
	}
	w.rec.Size(fmt.Sprintf("xlen_%02d", (len(w.ops)/10)*10))
	term := "XRun " + cqList(steps) + " " + cqList(dr) + " " + cqNList(d1)
	if c07Seen[term] {
		w.rec.Count(w.stream, "duplicate_case", "", false)
		return
	}
	c07Seen[term] = true
	w.rec.Case(w.stream, kind, term, map[string]any{"nodes": len(w.nodes), "ops": strings.Join(desc, " "), "obs": w.obs}, w.reserved && w.released)
}

// run a list of ops; ops not executable in the current state are dropped
func (w *c07xWorld) script(ops []c07xOp) {
	for _, o := range ops {
		if w.valid(o) {
			w.exec(o)
		}
	}
}

// run node i's suspended call to its end
func (w *c07xWorld) drain(i int, fast bool) {
	for k := 0; k < 12 && w.live(i) && w.nodes[i].parked != 0; k++ {
		w.exec(c07xOp{Kind: "turn", I: i, Fast: fast})
	}
}

func c07Cluster(t *testing.T, rec *vRecorder, rnd *vRand, ctx context.Context, under base.DataStore, stats *base.DatabaseStats) {
	newWorld := func(n int, stream string) *c07xWorld { return c07xNewWorld(t, rec, ctx, under, stats, n, stream) }
	N := func(i int, f bool) c07xOp { return c07xOp{Kind: "next", I: i, Fast: f} }
	D := func(i int, f bool) c07xOp { return c07xOp{Kind: "disc", I: i, Fast: f} }
	G := func(i int, x uint64, f bool) c07xOp { return c07xOp{Kind: "gt", I: i, X: x, Fast: f} }
	T := func(i int) c07xOp { return c07xOp{Kind: "turn", I: i, Fast: true} }
	RB := func(c uint64) c07xOp { return c07xOp{Kind: "rollback", K: c} }
	ENV := func(k uint64) c07xOp { return c07xOp{Kind: "env", K: k} }
	B := func(i int, b uint64) c07xOp { return c07xOp{Kind: "batch", I: i, K: b} }
	CR := func(i int) c07xOp { return c07xOp{Kind: "crash", I: i} }
	ID := func(i int) c07xOp { return c07xOp{Kind: "idle", I: i} }
	ST := func(i int) c07xOp { return c07xOp{Kind: "stop", I: i} }
	const M = MaxSequencesToRelease

	// ---- (a) corpus ----
	corpus := [][]c07xOp{
		// adversarial batch sizes on three nodes, interleaved
		{B(0, 7), N(0, false), B(1, 3), N(1, false), N(0, false), B(2, 10), N(2, true), B(0, 1), N(0, false), G(1, 12, false), T(1), ID(0), ST(2)},
		// a node crashes holding a window; the others go on; nobody reuses its numbers
		{B(0, 5), N(0, false), N(1, false), CR(0), N(1, true), N(2, false), G(1, 3, true), N(1, true)},
		// crash in the middle of nextSequenceGreaterThan (after the read, window already released)
		{B(0, 4), N(0, false), G(0, 30, false), N(1, false), CR(0), N(1, true), G(1, 30, true), T(1)},
		// another node moves the counter between the read and the increment
		{N(0, false), N(1, true), G(0, 9, false), N(1, true), ENV(2), T(0), N(0, true)},
		// the bound: exactly at it, one above it, with a held window, and decided on a stale read
		{B(0, 4), N(0, false), G(0, 4+M, false), T(0), N(0, false), B(0, 4), N(0, false), G(0, 9+M+1, false), T(0), N(0, false)},
		{B(0, 3), N(0, false), G(0, 3+M+1, false), ENV(5), T(0), G(0, 8+M, false), N(1, false), T(0)},
		// witness of C07_rollback_undetected_duplicate_refuted: node 0 does not notice a rollback that stays at or above its own max
		{N(0, false), N(1, false), N(1, false), RB(1), N(0, false)},
		// witness of C07_rollback_during_fix_refuted: the counter goes back again between the WriteCas and the Incr of the fix
		{N(0, false), N(0, false), N(0, false), RB(0), N(0, false), T(0), RB(0), T(0)},
		// witness of C07_rollback_gt_fix_leaks_batch: the batch reserved by _fixSyncSeqRollback inside nextSequenceGreaterThan is dropped
		{N(0, false), RB(0), G(0, 5, false), T(0), T(0), T(0), T(0), N(0, false)},
		// db/sequence_allocator_test.go TestSingleNodeSyncSeqRollback: detected by _reserveSequenceBatch
		{N(0, true), N(0, true), N(0, true), N(0, true), N(0, true), N(0, true), N(0, true), ID(0), RB(5), N(0, true), T(0), T(0), N(0, true), N(0, true)},
		// ... and by nextSequenceGreaterThan, floor below and above the corrected counter
		{N(0, true), N(0, true), N(0, true), ID(0), RB(1), G(0, 20, true), T(0), T(0), T(0), T(0), N(0, true), RB(2), G(0, 5000, false), T(0), T(0), T(0), T(0)},
		// counter document deleted
		{N(0, false), N(0, true), N(1, false), c07xOp{Kind: "rollback", Delete: true}, N(0, true), T(0), T(0), N(1, true), T(1), T(1), N(0, true)},
		// two nodes notice the same rollback; their fixes interleave
		{B(0, 2), N(0, false), B(1, 2), N(1, false), N(0, false), N(1, false), RB(0), N(0, false), N(1, false), T(0), T(1), T(1), T(0), N(0, true), N(1, true)},
		// rollback, then the bound is exceeded after the fix raised the counter (error returned by the turn of the fix Incr)
		{N(0, false), N(0, false), RB(0), G(0, 600+M+100, false), T(0), T(0), T(0), N(0, false)},
		// crash in the middle of the fix
		{N(0, false), N(0, false), N(1, false), RB(0), N(0, false), T(0), CR(0), N(1, false), T(1), T(1)},
	}
	for _, ops := range corpus {
		w := newWorld(3, "cluster-corpus")
		w.script(ops)
		w.finish("cluster-corpus")
	}

	// ---- (b) bounded exhaustive after a preamble: 2 nodes, both with history, node 0 holding a window ----
	type sym struct {
		kind string
		i    int
		rel  int // gt: 0 max+1, 1 counter+3; rollback: 0 -> 0, 1 -> counter-1, 2 -> min max
		atom bool
	}
	var alpha []sym
	for i := 0; i < 2; i++ {
		alpha = append(alpha, sym{kind: "next", i: i}, sym{kind: "next", i: i, atom: true}, sym{kind: "turn", i: i},
			sym{kind: "gt", i: i, rel: 0}, sym{kind: "gt", i: i, rel: 1, atom: true}, sym{kind: "crash", i: i})
	}
	alpha = append(alpha, sym{kind: "idle", i: 0}, sym{kind: "batch", i: 1}, sym{kind: "rollback", rel: 0}, sym{kind: "rollback", rel: 1}, sym{kind: "rollback", rel: 2}, sym{kind: "env"})
	play := func(w *c07xWorld, s sym) bool {
		o := c07xOp{Kind: s.kind, I: s.i, Fast: true}
		switch s.kind {
		case "gt":
			_, max, _ := w.window(s.i)
			o.X = max + 1
			if s.rel == 1 {
				o.X = w.counter() + 3
			}
		case "batch":
			o.K = 3
		case "env":
			o.K = 2
		case "rollback":
			c := w.counter()
			switch s.rel {
			case 0:
				o.K = 0
			case 1:
				if c == 0 {
					return false
				}
				o.K = c - 1
			case 2:
				_, m0, _ := w.window(0)
				_, m1, _ := w.window(1)
				o.K = min(m0, m1)
			}
			if o.K >= c {
				return false
			}
		}
		if !w.valid(o) {
			return false
		}
		w.exec(o)
		if s.atom {
			w.drain(s.i, true)
		}
		return true
	}
	exhaustive := 0
	depth := 2
	if vThorough() {
		depth = 3
	}
	var enum func(prefix []int, d int)
	enum = func(prefix []int, d int) {
		if len(prefix) > 0 {
			w := newWorld(2, "cluster-exhaustive")
			w.script([]c07xOp{B(0, 3), N(0, false), N(1, false), N(1, true)})
			ok := true
			for _, k := range prefix {
				if !play(w, alpha[k]) {
					ok = false
					break
				}
			}
			if !ok {
				w.close()
				return
			}
			w.finish("cluster-exhaustive")
			exhaustive++
		}
		if d == 0 {
			return
		}
		for k := range alpha {
			enum(append(append([]int(nil), prefix...), k), d-1)
		}
	}
	enum(nil, depth)
	// one level deeper behind every kind of rollback
	for k := range alpha {
		if alpha[k].kind == "rollback" {
			enum([]int{k}, depth)
		}
	}
	rec.Extra("cluster_exhaustive_scope", fmt.Sprintf("after the preamble batch(0,3) next(0) next(1) next(1): all executable sequences of length <= %d over %d symbols, and of length <= %d behind each of the 3 rollbacks: %d sequences", depth, len(alpha), depth+1, exhaustive))

	// ---- (c) random streams ----
	pickFloor := func(w *c07xWorld, i int, bound bool) uint64 {
		last, max, _ := w.window(i)
		ctr := w.counter()
		if bound {
			switch rnd.Intn(6) {
			case 0:
				return ctr + M
			case 1:
				return ctr + M + 1
			case 2:
				return ctr + M - 1
			case 3:
				return ctr + M + uint64(rnd.Intn(8))
			case 4:
				return max + M + 1
			}
			return ctr + M - uint64(rnd.Intn(8))
		}
		switch rnd.Intn(10) {
		case 0:
			if last == 0 {
				return 0
			}
			return last - 1
		case 1:
			return last
		case 2:
			return last + uint64(rnd.Intn(4))
		case 3:
			return max
		case 4:
			return max + 1
		case 5:
			return max + uint64(rnd.Intn(12))
		case 6:
			return ctr
		case 7:
			return ctr + uint64(rnd.Intn(30))
		case 8:
			return uint64(rnd.Intn(int(ctr%100000 + 5)))
		}
		return ctr + 3
	}
	randomCase := func(stream string, length int, rollbacks int, bound bool) {
		n := 2 + rnd.Intn(2)
		w := newWorld(n, stream)
		growth := rnd.Intn(3)
		fast := func() bool {
			switch growth {
			case 0:
				return false
			case 1:
				return true
			}
			return rnd.Bool()
		}
		for len(w.ops) < length {
			anyLive := false
			for i := range w.nodes {
				anyLive = anyLive || w.live(i)
			}
			if !anyLive {
				break
			}
			if rollbacks > 0 && rnd.Chance(rollbacks) {
				// rollback: quiet (first finish the suspended calls) most of the time
				if rnd.Chance(70) {
					for i := range w.nodes {
						w.drain(i, fast())
					}
				}
				c := w.counter()
				if c == 0 {
					continue
				}
				var to uint64
				switch rnd.Intn(5) {
				case 0:
					to = 0
				case 1:
					to = c - 1
				case 2:
					_, m, _ := w.window(rnd.Intn(n))
					to = m
				case 3:
					l, _, _ := w.window(rnd.Intn(n))
					to = l / 2
				default:
					to = uint64(rnd.Intn(int(c%1000000 + 1)))
				}
				o := c07xOp{Kind: "rollback", K: to}
				if to == 0 && rnd.Chance(40) {
					o.Delete = true
				}
				if to < c && w.valid(o) {
					w.exec(o)
				}
				continue
			}
			i := rnd.Intn(n)
			if !w.live(i) {
				continue
			}
			nd := w.nodes[i]
			if nd.parked != 0 {
				switch {
				case rnd.Chance(55):
					w.exec(c07xOp{Kind: "turn", I: i, Fast: fast()})
				case rnd.Chance(4):
					w.exec(CR(i))
				}
				continue
			}
			r := rnd.Intn(100)
			switch {
			case r < 30:
				w.exec(N(i, fast()))
			case r < 36:
				w.exec(D(i, fast()))
			case r < 50: // nextSequenceGreaterThan run to its end
				w.exec(G(i, pickFloor(w, i, bound && rnd.Chance(60)), fast()))
				w.drain(i, fast())
			case r < 66: // ... left suspended: other nodes run in between
				w.exec(G(i, pickFloor(w, i, bound && rnd.Chance(60)), fast()))
			case r < 73:
				w.exec(ID(i))
			case r < 83:
				w.exec(B(i, uint64(1+rnd.Intn(maxBatchSize))))
			case r < 89:
				w.exec(ENV(uint64(rnd.Intn(4))))
			case r < 93:
				if n > 2 || len(w.ops) > length/2 {
					w.exec(CR(i))
				}
			case r < 96:
				if len(w.ops) > length/2 {
					w.exec(ST(i))
				}
			default:
				for k := rnd.Intn(3); k > 0; k-- {
					w.exec(D(i, fast()))
					w.drain(i, fast())
				}
				w.exec(N(i, fast()))
			}
		}
		w.finish(stream)
	}
	for k := vBudget(120, 1200); k > 0; k-- {
		randomCase("cluster-random", 20+rnd.Intn(40), 0, false)
	}
	for k := vBudget(120, 1200); k > 0; k-- {
		randomCase("cluster-rollback", 20+rnd.Intn(40), 6+rnd.Intn(10), false)
	}
	for k := vBudget(40, 400); k > 0; k-- {
		randomCase("cluster-bound", 10+rnd.Intn(25), 0, true)
	}
}
