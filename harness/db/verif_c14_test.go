//go:build verif

package db

import (
	"bytes"
	"context"
	"encoding/base64"
	"fmt"
	"math/big"
	"regexp"
	"sort"
	"strings"
	"testing"

	"github.com/couchbase/go-blip"
	sgbucket "github.com/couchbase/sg-bucket"
	"github.com/couchbase/sync_gateway/base"
)

// C14: attachments stay intact and live exactly as long as a revision needs them.
//
// Drives a REAL collection (db.Put, db.PutExistingRevWithBody, forced CAS retries through the vFaultStore
// decorator) with histories that add / keep (stub) / replace / drop attachments over linear updates,
// conflicting branches, tombstones and resurrections, identical content under two names / two branches /
// two documents, arbitrary binary content.  After EVERY event (lost attempt or finished write) it reads every
// leaf revision's attachments back through the read path (GetRev + GetAttachment, Get1xRevBodyWithHistory,
// getRevision on the stored document) and lists the attachment data documents of the bucket.
// Everything observed is emitted as a Coq case for C14/C14_Corr.v; the monitors below are Go-side
// reflections of the theorems in C14_Properties.v.

const (
	c14SigClobber  = "nonwinning-write-clobbers-winner-attachments" // finding A (see C14_Refuted.v)
	c14SigPromoted = "promoted-leaf-attachment-swept"               // finding B
	// the persisted rev tree and the tree a reader loads from it disagree (C14/RevTreePersist.v: reload_identity)
	c14SigReloadFlagLost  = "revtree-reload-loses-attachment-flag"
	c14SigReloadFlagAdded = "revtree-reload-invents-attachment-flag"
	c14SigReloadPlacement = "revtree-reload-changes-body-placement"
)

type c14Meta struct {
	digest   string
	revpos   int
	ver      int
	hasLen   bool
	length   int
	readable bool
}

type c14Leaf struct {
	rev     string
	deleted bool
	atts    map[string]c14Meta
}

type c14DocObs struct {
	exists  bool
	cur     string
	leaves  []c14Leaf
	nonLeaf []string
	all     map[string]bool
	// non-current leaves as PERSISTED in _sync.history: rev -> (index listed in hasAttachments, body under bodyKeyMap)
	pers map[string][2]bool
}

type c14Obs struct {
	docs  [2]c14DocObs
	store [][2]string // (doc index as string "0"/"1", digest)
}

func (o *c14DocObs) leaf(rev string) *c14Leaf {
	for i := range o.leaves {
		if o.leaves[i].rev == rev {
			return &o.leaves[i]
		}
	}
	return nil
}

// v2 digests referenced by some leaf
func (o *c14DocObs) refs() map[string]bool {
	m := map[string]bool{}
	for _, l := range o.leaves {
		for _, a := range l.atts {
			if a.ver == 2 {
				m[a.digest] = true
			}
		}
	}
	return m
}

func (o *c14Obs) stored(doc int) map[string]bool {
	m := map[string]bool{}
	for _, k := range o.store {
		if k[0] == fmt.Sprint(doc) {
			m[k[1]] = true
		}
	}
	return m
}

type c14Att struct {
	name    int
	isData  bool
	content int    // index into the content pool (isData)
	digest  string // stub
	revpos  int
	v2      bool
	tracked bool // a stub that honestly repeats the parent's entry (or inline data): its digest is what the writer means
}

type c14Op struct {
	push    bool
	doc     int
	parent  string // "" = none
	deleted bool
	atts    []c14Att
	pushRev string
	tag     int
	label   string
	big     bool // the body is larger than MaximumInlineBodySize: stored out of line when the revision does not win
}

type c14Env struct {
	t      *testing.T
	ctx    context.Context
	db     *Database
	col    *DatabaseCollectionWithUser
	fs     *vFaultStore
	ac, sw bool
	caseN  int
	tagN   int
	pool   [][]byte

	// per case
	docIDs   [2]string
	docPref  [2]string
	digID    map[string]uint64
	digData  map[string][]byte
	events   []string
	obsCoq   []string
	descs    []any
	last     c14Obs
	expect   [2]map[string]map[string]string // doc -> rev -> name -> digest the writer meant ("" = untracked)
	atCommit [2]map[string]map[string]bool   // doc -> rev -> digest stored when the revision was committed
	tainted  [2]bool
	lostAtt  [2]bool
	nontriv  bool
	kinds    map[string]bool
	rec      *vRecorder
	caseDesc string
	bigMode  bool     // the case may carry large bodies and is emitted as CHistR (with the persisted view of the leaves)
	bigRevs  []string // revisions written with a large body
	persCoq  []string
}

var c14Names = []string{"a", "b", "c"}

func c14NewEnv(t *testing.T, rec *vRecorder, ac, sw bool, pool [][]byte) *c14Env {
	db, ctx := SetupTestDBWithOptions(t, DatabaseContextOptions{AllowConflicts: base.Ptr(ac)})
	col, ctx := GetSingleDatabaseCollectionWithUser(ctx, t, db)
	// rosmar reports cross-cluster versioning as enabled, which disables the sweep; the flag is what
	// updateAndReturnDoc consults
	db.CachedCCVEnabled.Store(!sw)
	e := &c14Env{t: t, ctx: ctx, db: db, col: col, ac: ac, sw: sw, pool: pool, rec: rec}
	e.fs = &vFaultStore{DataStore: col.dataStore}
	col.dataStore = e.fs
	return e
}

func (e *c14Env) close() { e.db.Close(e.ctx) }

func (e *c14Env) startCase(desc string) {
	e.caseN++
	for i := 0; i < 2; i++ {
		e.docIDs[i] = fmt.Sprintf("c14_%v_%v_%d_%d", e.ac, e.sw, e.caseN, i)
		e.docPref[i] = base.Att2Prefix + sha256Digest([]byte(e.docIDs[i])) + ":"
		e.expect[i] = map[string]map[string]string{}
		e.atCommit[i] = map[string]map[string]bool{}
		e.tainted[i] = false
		e.lostAtt[i] = false
	}
	e.digID = map[string]uint64{}
	e.digData = map[string][]byte{}
	e.events = nil
	e.obsCoq = nil
	e.descs = nil
	e.nontriv = false
	e.kinds = map[string]bool{}
	e.caseDesc = desc
	e.bigMode, e.bigRevs, e.persCoq = false, nil, nil
	e.last = e.observe()
}

func (e *c14Env) dig(d string) uint64 {
	if id, ok := e.digID[d]; ok {
		return id
	}
	id := uint64(len(e.digID) + 1)
	e.digID[d] = id
	return id
}

func (e *c14Env) contentDigest(ci int) string {
	d := Sha1DigestKey(e.pool[ci])
	e.dig(d)
	e.digData[d] = e.pool[ci]
	return d
}

// A revision id is (generation, digest).  The model only compares digests (equality, order), so the Coq case
// carries each digest's RANK among the digests of the case (order-isomorphic renaming, done in finishCase):
// 128-bit literals make Coq's parser the dominant cost otherwise.
func c14Rev(rev string) string {
	if rev == "" {
		return "(0, 0)"
	}
	parts := strings.SplitN(rev, "-", 2)
	var g uint64
	fmt.Sscanf(parts[0], "%d", &g)
	d := "0"
	if len(parts) == 2 {
		d = parts[1]
	}
	return "(" + cqN(g) + ", @" + d + "@)"
}

var c14DigestToken = regexp.MustCompile(`@([0-9a-f]+)@`)

func c14RankDigests(coq string) string {
	seen := map[string]*big.Int{}
	for _, m := range c14DigestToken.FindAllStringSubmatch(coq, -1) {
		if _, ok := seen[m[1]]; !ok {
			v, ok2 := new(big.Int).SetString(m[1], 16)
			if !ok2 {
				v = new(big.Int)
			}
			seen[m[1]] = v
		}
	}
	keys := make([]string, 0, len(seen))
	for k := range seen {
		keys = append(keys, k)
	}
	sort.Slice(keys, func(i, j int) bool {
		if c := seen[keys[i]].Cmp(seen[keys[j]]); c != 0 {
			return c < 0
		}
		return keys[i] < keys[j]
	})
	rank := map[string]int{}
	r := 0
	for i, k := range keys {
		if i == 0 || seen[k].Cmp(seen[keys[i-1]]) != 0 {
			r++
		}
		rank[k] = r
	}
	return c14DigestToken.ReplaceAllStringFunc(coq, func(t string) string {
		return fmt.Sprint(rank[t[1:len(t)-1]])
	})
}

func c14OptRev(rev string) string {
	if rev == "" {
		return "None"
	}
	return "(Some " + c14Rev(rev) + ")"
}

// ---------- observation ----------

func c14Int(v any) (int, bool) {
	i, ok := base.ToInt64(v)
	return int(i), ok
}

func (e *c14Env) listStore(prefix string) []string {
	rss, ok := base.AsRangeScanStore(base.GetBaseDataStore(e.col.dataStore))
	if !ok {
		e.t.Fatalf("data store has no range scan")
	}
	iter, err := rss.Scan(e.ctx, sgbucket.NewRangeScanForPrefix(prefix), sgbucket.ScanOptions{IDsOnly: true})
	if err != nil {
		e.t.Fatalf("scan: %v", err)
	}
	var out []string
	for it := iter.Next(e.ctx); it != nil; it = iter.Next(e.ctx) {
		out = append(out, it.ID)
	}
	if err := iter.Err(); err != nil {
		e.t.Fatalf("scan: %v", err)
	}
	_ = iter.Close(e.ctx)
	sort.Strings(out)
	return out
}

func (e *c14Env) observe() c14Obs {
	var o c14Obs
	e.db.FlushRevisionCacheForTest()
	for di := 0; di < 2; di++ {
		docid := e.docIDs[di]
		d := &o.docs[di]
		d.all = map[string]bool{}
		doc, err := e.col.GetDocument(e.ctx, docid, DocUnmarshalAll)
		if err != nil || doc == nil {
			continue
		}
		d.exists = true
		d.cur = doc.GetRevTreeID()
		e.observePersisted(docid, doc, d)
		leafSet := map[string]bool{}
		for _, l := range doc.History.GetLeaves() {
			leafSet[l] = true
		}
		var ids []string
		for id := range doc.History {
			ids = append(ids, id)
			d.all[id] = true
		}
		sort.Strings(ids)
		for _, id := range ids {
			if !leafSet[id] {
				d.nonLeaf = append(d.nonLeaf, id)
				continue
			}
			lf := c14Leaf{rev: id, deleted: doc.History[id].Deleted, atts: map[string]c14Meta{}}
			// (1) the stored document, as getRevision sees it
			_, attsBucket, _, gerr := e.col.getRevision(e.ctx, doc, id)
			if gerr != nil {
				e.failRec("att_readback", "getrevision-error", e.failInput(), fmt.Sprintf("getRevision(%s,%s): %v", docid, id, gerr))
			}
			// (2) the public read path
			rev, rerr := e.col.GetRev(e.ctx, docid, id, false, nil)
			if rerr != nil {
				e.failRec("att_readback", "getrev-error", e.failInput(), fmt.Sprintf("GetRev(%s,%s): %v", docid, id, rerr))
			}
			if fmt.Sprint(c14Project(attsBucket)) != fmt.Sprint(c14Project(rev.Attachments)) {
				e.failRec("att_readback", "getrev-differs-from-stored-document", e.failInput(),
					fmt.Sprintf("%s rev %s: stored document gives %v, GetRev gives %v", docid, id, c14Project(attsBucket), c14Project(rev.Attachments)))
			}
			allReadable := len(rev.Attachments) > 0
			for name, v := range rev.Attachments {
				mm, ok := v.(map[string]any)
				if !ok {
					continue
				}
				m := c14Meta{}
				m.digest, _ = mm["digest"].(string)
				m.revpos, _ = c14Int(mm["revpos"])
				m.ver, _ = GetAttachmentVersion(mm)
				if l, ok := c14Int(mm["length"]); ok && mm["length"] != nil {
					m.hasLen, m.length = true, l
				}
				// the REST attachment GET: key from version + docid + digest
				data, aerr := e.col.GetAttachment(e.ctx, MakeAttachmentKey(m.ver, docid, m.digest))
				if aerr == nil {
					m.readable = true
					e.checkBytes(docid, id, name, m, data, "GetAttachment")
				} else {
					if !base.IsDocNotFoundError(aerr) {
						e.failRec("att_readback", "attachment-read-error", e.failInput(), fmt.Sprintf("%s/%s/%s: %v", docid, id, name, aerr))
					}
					allReadable = false
				}
				lf.atts[name] = m
			}
			// (3) GET ?attachments=true
			if allReadable {
				body, berr := e.col.Get1xRevBodyWithHistory(e.ctx, docid, id, Get1xRevBodyOptions{AttachmentsSince: []string{}})
				if berr != nil {
					e.failRec("att_readback", "get-with-attachments-error", e.failInput(), fmt.Sprintf("%s rev %s: %v", docid, id, berr))
				} else {
					got := GetBodyAttachments(body)
					for name, m := range lf.atts {
						mm, _ := got[name].(map[string]any)
						data, ok := mm["data"].([]byte)
						if !ok {
							if s, isStr := mm["data"].(string); isStr {
								data, _ = base64.StdEncoding.DecodeString(s)
								ok = true
							}
						}
						if !ok {
							e.failRec("att_readback", "get-with-attachments-no-data", e.failInput(), fmt.Sprintf("%s rev %s att %s: %v", docid, id, name, mm))
							continue
						}
						e.checkBytes(docid, id, name, m, data, "Get1xRevBodyWithHistory")
					}
				}
			}
			d.leaves = append(d.leaves, lf)
		}
	}
	// attachment data documents of this case's documents: the range scan of the key prefix, plus a direct probe
	// of every digest the case has seen (rosmar's scan skips a key that was deleted and added again)
	for di := 0; di < 2; di++ {
		seen := map[string]bool{}
		for _, k := range e.listStore(e.docPref[di]) {
			seen[k[len(e.docPref[di]):]] = true
		}
		var known []string
		for dg := range e.digID {
			known = append(known, dg)
		}
		for _, dg := range known {
			if _, _, err := e.col.dataStore.GetRaw(e.ctx, e.docPref[di]+dg); err == nil {
				seen[dg] = true
			}
			// legacy (version 1) keys are never written by the modelled requests
			if _, _, err := e.col.dataStore.GetRaw(e.ctx, base.AttPrefix+dg); err == nil {
				e.failRec("att_readback", "legacy-attachment-key-written", e.failInput(), "a _sync:att: document exists for "+dg)
			}
		}
		var ds []string
		for dg := range seen {
			ds = append(ds, dg)
		}
		sort.Strings(ds)
		for _, dg := range ds {
			e.dig(dg)
			o.store = append(o.store, [2]string{fmt.Sprint(di), dg})
		}
	}
	return o
}

// observePersisted reads the rev tree as it is stored (_sync.history: parallel index lists) and compares it with the
// tree the document was just loaded with: the per-revision attachment flag and the placement of the body (inline
// in bodymap / out of line under bodyKeyMap) survive the reload, for every revision (reload_identity, unmarshal_flag)
func (e *c14Env) observePersisted(docid string, doc *Document, d *c14DocObs) {
	d.pers = map[string][2]bool{}
	xattrs, _, err := e.col.dataStore.GetXattrs(e.ctx, docid, []string{base.SyncXattrName})
	if err != nil {
		e.failRec("revtree_reload", "persisted-revtree-unreadable", e.failInput(), fmt.Sprintf("%s: %v", docid, err))
		return
	}
	var sd struct {
		History revTreeList `json:"history"`
	}
	if err := base.JSONUnmarshal(xattrs[base.SyncXattrName], &sd); err != nil {
		e.failRec("revtree_reload", "persisted-revtree-unreadable", e.failInput(), fmt.Sprintf("%s: %v", docid, err))
		return
	}
	rep := sd.History
	flag := map[int]bool{}
	for _, i := range rep.HasAttachments {
		flag[i] = true
	}
	leaves := map[string]bool{}
	for _, l := range doc.History.GetLeaves() {
		leaves[l] = true
	}
	for i, id := range rep.Revs {
		_, inl := rep.BodyMap[fmt.Sprint(i)]
		_, ext := rep.BodyKeyMap[fmt.Sprint(i)]
		info := doc.History[id]
		if info == nil {
			e.failRec("revtree_reload", "revtree-reload-loses-revision", e.failInput(), fmt.Sprintf("%s: persisted revision %s is not in the loaded tree", docid, id))
			continue
		}
		switch {
		case flag[i] && !info.HasAttachments:
			e.failRec("revtree_reload", c14SigReloadFlagLost, e.failInput(), fmt.Sprintf("%s rev %s: listed in the stored hasAttachments, flag not set after loading (body inline=%v out-of-line=%v)", docid, id, inl, ext))
		case !flag[i] && info.HasAttachments:
			e.failRec("revtree_reload", c14SigReloadFlagAdded, e.failInput(), fmt.Sprintf("%s rev %s: not listed in the stored hasAttachments, flag set after loading", docid, id))
		}
		if inl != (info.Body != nil && info.BodyKey == "") || ext != (info.BodyKey != "") {
			e.failRec("revtree_reload", c14SigReloadPlacement, e.failInput(), fmt.Sprintf("%s rev %s: stored inline=%v out-of-line=%v, loaded body=%v key=%q", docid, id, inl, ext, info.Body != nil, info.BodyKey))
		}
		if leaves[id] && id != doc.GetRevTreeID() {
			d.pers[id] = [2]bool{flag[i], ext}
		}
	}
}

func (e *c14Env) persToCoq(o *c14Obs) string {
	var docs []string
	for di := 0; di < 2; di++ {
		d := o.docs[di]
		if !d.exists {
			continue
		}
		var ids []string
		for id := range d.pers {
			ids = append(ids, id)
		}
		sort.Strings(ids)
		var ls []string
		for _, id := range ids {
			ls = append(ls, fmt.Sprintf("(%s, %s, %s)", c14Rev(id), cqBool(d.pers[id][0]), cqBool(d.pers[id][1])))
		}
		docs = append(docs, fmt.Sprintf("(%d, %s)", di, cqList(ls)))
	}
	return cqList(docs)
}

func c14Project(a AttachmentsMeta) []string {
	var out []string
	for n, v := range a {
		mm, _ := v.(map[string]any)
		ver, _ := GetAttachmentVersion(mm)
		out = append(out, fmt.Sprintf("%s=%v/%d", n, mm["digest"], ver))
	}
	sort.Strings(out)
	return out
}

// byte identity, digest and length monitors
func (e *c14Env) checkBytes(docid, rev, name string, m c14Meta, data []byte, via string) {
	if Sha1DigestKey(data) != m.digest {
		e.failRec("att_readback", "digest-mismatch", e.failInput(),
			fmt.Sprintf("%s rev %s att %s via %s: advertised %s, content hashes to %s (%d bytes)", docid, rev, name, via, m.digest, Sha1DigestKey(data), len(data)))
	}
	if m.hasLen && m.length != len(data) {
		e.failRec("att_readback", "length-mismatch", e.failInput(),
			fmt.Sprintf("%s rev %s att %s via %s: advertised length %d, got %d bytes", docid, rev, name, via, m.length, len(data)))
	}
	if want, ok := e.digData[m.digest]; ok && !bytes.Equal(want, data) {
		e.failRec("att_readback", "bytes-differ", e.failInput(),
			fmt.Sprintf("%s rev %s att %s via %s: %d bytes read, %d bytes written under that digest", docid, rev, name, via, len(data), len(want)))
	}
}

// at most a few recorded failures per signature: the recorder keeps 50 in all, and the two known findings of
// the unchanged tree fire in many random histories -- they must not crowd out anything else
var c14SigCount = map[string]int{}

func (e *c14Env) failRec(monitor, signature string, input any, detail string) {
	c14SigCount[signature]++
	if c14SigCount[signature] > 4 {
		return
	}
	e.rec.Fail(monitor, signature, input, detail)
}

func (e *c14Env) failInput() any {
	return map[string]any{"allow_conflicts": e.ac, "sweep": e.sw, "case": e.caseDesc, "events": append([]any{}, e.descs...)}
}

func (e *c14Env) obsToCoq(out string, o *c14Obs) string {
	var docs []string
	for di := 0; di < 2; di++ {
		d := o.docs[di]
		if !d.exists {
			continue
		}
		var leaves []string
		for _, l := range d.leaves {
			var names []string
			for n := range l.atts {
				names = append(names, n)
			}
			sort.Strings(names)
			var atts []string
			for _, n := range names {
				m := l.atts[n]
				atts = append(atts, fmt.Sprintf("(%d, %d, %s)", c14NameIdx(n), e.dig(m.digest), cqBool(m.readable)))
			}
			leaves = append(leaves, "("+c14Rev(l.rev)+", "+cqList(atts)+")")
		}
		docs = append(docs, fmt.Sprintf("DO %d %s %s", di, c14OptRev(d.cur), cqList(leaves)))
	}
	var st []string
	for _, k := range o.store {
		st = append(st, fmt.Sprintf("(%s, %d)", k[0], e.dig(k[1])))
	}
	return fmt.Sprintf("OB %s %s %s", out, cqList(docs), cqList(st))
}

func c14NameIdx(n string) int {
	for i, x := range c14Names {
		if x == n {
			return i
		}
	}
	return 99
}

// ---------- running requests ----------

func (e *c14Env) body(op *c14Op) Body {
	b := Body{"tag": op.tag}
	if op.parent != "" && !op.push {
		b[BodyRev] = op.parent
	}
	if op.deleted {
		b[BodyDeleted] = true
	}
	if op.big {
		b["pad"] = strings.Repeat("p", 4*MaximumInlineBodySize)
	}
	if len(op.atts) > 0 {
		atts := map[string]any{}
		for _, a := range op.atts {
			if a.isData {
				atts[c14Names[a.name]] = map[string]any{"data": base64.StdEncoding.EncodeToString(e.pool[a.content])}
			} else {
				m := map[string]any{"stub": true, "digest": a.digest, "revpos": float64(a.revpos)}
				if a.v2 {
					m["ver"] = float64(2)
				}
				atts[c14Names[a.name]] = m
			}
		}
		b[BodyAttachments] = atts
	}
	return b
}

// the revision id db.Put will create on parent at the given attempt (same computation as Put).  Put's callback
// deletes "_deleted" from the request body it captured AFTER hashing it, so from the second invocation on the
// hash no longer covers that property: a retried tombstone gets a different id than an unretried one.
func (e *c14Env) putRev(op *c14Op, parent string, attempt int) string {
	b := e.body(op)
	delete(b, BodyRev)
	delete(b, BodyAttachments)
	if attempt > 1 {
		delete(b, BodyDeleted)
	}
	stripped, _ := StripInternalProperties(b)
	canon, err := base.JSONMarshalCanonical(stripped)
	if err != nil {
		e.t.Fatalf("canonical: %v", err)
	}
	gen := 0
	if parent != "" {
		gen, _ = ParseRevID(e.ctx, parent)
	}
	return CreateRevIDWithBytes(gen+1, parent, canon)
}

func (e *c14Env) opToCoq(op *c14Op, rev string) string {
	var atts []string
	for _, a := range op.atts {
		if a.isData {
			atts = append(atts, fmt.Sprintf("(%d, AData %d)", a.name, e.dig(e.contentDigest(a.content))))
		} else {
			atts = append(atts, fmt.Sprintf("(%d, AStub %d %d %s)", a.name, e.dig(a.digest), a.revpos, cqBool(a.v2)))
		}
	}
	kind := "KPut"
	if op.push {
		kind = "KPush"
	}
	return fmt.Sprintf("(WP %s %d %s %s %s %s)", kind, op.doc, c14Rev(rev), c14OptRev(op.parent), cqBool(op.deleted), cqList(atts))
}

func (e *c14Env) opDesc(op *c14Op, what string, rev string, out string) any {
	var atts []string
	for _, a := range op.atts {
		if a.isData {
			atts = append(atts, fmt.Sprintf("%s=data#%d(%dB)", c14Names[a.name], a.content, len(e.pool[a.content])))
		} else {
			atts = append(atts, fmt.Sprintf("%s=stub(%s,revpos %d,ver2 %v)", c14Names[a.name], a.digest, a.revpos, a.v2))
		}
	}
	api := "Put"
	if op.push {
		api = "PutExistingRevWithBody"
	}
	return map[string]any{"event": what, "api": api, "doc": op.doc, "rev": rev, "parent": op.parent, "deleted": op.deleted, "atts": atts, "outcome": out, "label": op.label, "large_body": op.big}
}

// the revision id a Try/Write event of op carries, given the document as it is now
func (e *c14Env) expectedRev(op *c14Op, attempt int) string {
	if op.push {
		return op.pushRev
	}
	parent := op.parent
	if parent == "" {
		d := e.last.docs[op.doc]
		if d.exists && d.cur != "" {
			if l := d.leaf(d.cur); l != nil && l.deleted {
				parent = d.cur
			}
		}
	}
	return e.putRev(op, parent, attempt)
}

func c14Classify(err error, cancelled bool) string {
	if err == nil {
		if cancelled {
			return "OCancel"
		}
		return "OAck"
	}
	st, _ := base.ErrorAsHTTPStatus(err)
	if st == 409 {
		return "OConflict"
	}
	return "error:" + err.Error()
}

// record one event with the observation taken right after it, and run the monitors
func (e *c14Env) record(kind string, op *c14Op, rev, out string) {
	prev := e.last
	// (described before observing, so that a failure reported while reading back shows the event that caused it)
	e.descs = append(e.descs, e.opDesc(op, kind, rev, out))
	now := e.observe()
	e.events = append(e.events, fmt.Sprintf("%s %s", kind, e.opToCoq(op, rev)))
	e.obsCoq = append(e.obsCoq, e.obsToCoq(out, &now))
	e.persCoq = append(e.persCoq, e.persToCoq(&now))
	for di := range now.docs {
		for _, fx := range now.docs[di].pers {
			if fx[0] && fx[1] {
				e.kinds["flagged-out-of-line-leaf"] = true
			}
		}
	}
	if op.big && kind == "Write" && out == "OAck" {
		e.bigRevs = append(e.bigRevs, rev)
	}
	e.monitors(kind, op, rev, out, &prev, &now)
	e.last = now
}

// run a request to completion; retries[k] (k = 1-based attempt) = competitors to run between attempt k's
// callback and its CAS write
func (e *c14Env) runOp(op *c14Op, competitors func(attempt int) []*c14Op) string {
	e.tagN++
	op.tag = e.tagN
	docid := e.docIDs[op.doc]
	if competitors != nil {
		e.fs.onAttempt = func(key string, n int, cbErr error) error {
			if cbErr != nil || key != docid {
				return nil
			}
			comps := competitors(n)
			if len(comps) == 0 {
				return nil
			}
			// this attempt has run its callback (attachments uploaded); whether it loses the CAS race depends
			// on the competitors -- either way "Try" describes what has happened so far
			e.lostAtt[op.doc] = true
			e.record("Try", op, e.expectedRev(op, n), "OAck")
			if !op.push && op.parent == "" {
				// Put resolves a missing parent (the deleted current revision) in its first callback invocation
				// and keeps that choice (matchRev is captured by the callback): later attempts behave exactly
				// like a request that named the parent
				if d := e.last.docs[op.doc]; d.exists && d.cur != "" {
					if l := d.leaf(d.cur); l != nil && l.deleted {
						op.parent = d.cur
					}
				}
			}
			for _, c := range comps {
				e.runOp(c, nil)
			}
			return nil
		}
	}
	attempts := 0
	if competitors != nil {
		inner := e.fs.onAttempt
		e.fs.onAttempt = func(key string, n int, cbErr error) error {
			if key == docid {
				attempts = n
			}
			return inner(key, n, cbErr)
		}
	}
	var rev string
	var doc *Document
	var err error
	if op.push {
		hist := []string{op.pushRev}
		if op.parent != "" {
			hist = append(hist, op.parent)
		}
		doc, rev, err = e.col.PutExistingRevWithBody(e.ctx, docid, e.body(op), hist, false, ExistingVersionWithUpdateToHLV)
	} else {
		rev, doc, err = e.col.Put(e.ctx, docid, e.body(op))
	}
	e.fs.onAttempt = nil
	out := c14Classify(err, err == nil && doc == nil)
	if strings.HasPrefix(out, "error:") {
		e.failRec("write_outcome", "unexpected-write-error", e.failInput(), fmt.Sprintf("%v: %s", e.opDesc(op, "Write", rev, out), out))
		e.rec.Err("unexpected")
		out = "OUnsupported"
	}
	evRev := rev
	if attempts > 1 && op.deleted && !op.push && out == "OAck" {
		e.rec.Count("quirk", "put-tombstone-retry-changes-revid", rev, false)
	}
	if out != "OAck" || evRev == "" {
		evRev = e.expectedRev(op, attempts)
	} else if !op.push {
		if want := e.expectedRev(op, attempts); want != rev {
			// the id is an input of the model; make sure the harness and the code agree on how it is built
			e.failRec("write_outcome", "revid-differs", e.failInput(), fmt.Sprintf("Put created %s, harness expected %s", rev, want))
		}
	}
	e.rec.Err(out)
	e.record("Write", op, evRev, out)
	return out
}

// the stored shape of a document: winner, leaves, attachment metadata (not whether the data is there)
func c14DocShape(d *c14DocObs) string {
	var b strings.Builder
	fmt.Fprintf(&b, "cur=%s", d.cur)
	for _, l := range d.leaves {
		var names []string
		for n := range l.atts {
			names = append(names, n)
		}
		sort.Strings(names)
		fmt.Fprintf(&b, " %s[del=%v", l.rev, l.deleted)
		for _, n := range names {
			fmt.Fprintf(&b, " %s=%s/%d/%d", n, l.atts[n].digest, l.atts[n].ver, l.atts[n].revpos)
		}
		b.WriteString("]")
	}
	return b.String()
}

// ---------- monitors: Go-side reflections of the theorems ----------

func (e *c14Env) monitors(kind string, op *c14Op, rev, out string, prev, now *c14Obs) {
	// other documents are never touched
	for di := 0; di < 2; di++ {
		if di == op.doc {
			continue
		}
		if c14DocShape(&prev.docs[di]) != c14DocShape(&now.docs[di]) || fmt.Sprint(prev.stored(di)) != fmt.Sprint(now.stored(di)) {
			e.failRec("other_doc_untouched", "other-document-changed", e.failInput(), fmt.Sprintf("event on doc %d changed doc %d", op.doc, di))
		}
	}
	di := op.doc
	pd, nd := prev.docs[di], now.docs[di]
	pst, nst := prev.stored(di), now.stored(di)
	acked := kind == "Write" && out == "OAck"

	// sweep disabled (cross-cluster versioning): nothing is ever deleted
	if !e.sw {
		for g := range pst {
			if !nst[g] {
				e.failRec("sweep_disabled_keeps", "sweep-disabled-deleted", e.failInput(), fmt.Sprintf("doc %d digest %s deleted although the sweep is disabled", di, g))
			}
		}
	}
	// a lost attempt / rejected write changes no document and deletes nothing
	if !acked {
		if c14DocShape(&pd) != c14DocShape(&nd) {
			e.failRec("att_safety", "rejected-write-changed-document", e.failInput(), fmt.Sprintf("%s %s changed doc %d: %s -> %s", kind, out, di, c14DocShape(&pd), c14DocShape(&nd)))
		}
		for g := range pst {
			if !nst[g] {
				e.failRec("att_safety", "rejected-write-deleted-data", e.failInput(), fmt.Sprintf("%s %s deleted %s of doc %d", kind, out, g, di))
			}
		}
		return
	}

	// classification of the event (for the two findings of the unchanged tree)
	newIsCur := nd.cur == rev
	nonWinning := !newIsCur && nd.cur == pd.cur
	promoted := !newIsCur && nd.cur != pd.cur
	sig := func(generic string) string {
		switch {
		case nonWinning:
			return c14SigClobber
		case promoted:
			return c14SigPromoted
		}
		return generic
	}

	// retry_safe: every inline body of the acknowledged write is stored, whatever happened during the retries
	for _, a := range op.atts {
		if a.isData {
			if d := e.contentDigest(a.content); !nst[d] {
				e.failRec("retry_safe", "uploaded-attachment-not-stored", e.failInput(), fmt.Sprintf("doc %d rev %s: inline attachment %s (%s) has no data document after the write", di, rev, c14Names[a.name], d))
			}
		}
	}

	// what the writer of this revision meant
	exp := map[string]string{}
	for _, a := range op.atts {
		switch {
		case a.isData:
			exp[c14Names[a.name]] = e.contentDigest(a.content)
		case a.tracked:
			// "the same as my parent's": inherit what the parent's writer meant (unknown stays unknown)
			exp[c14Names[a.name]] = a.digest
			if pe, ok := e.expect[di][op.parent]; ok {
				if g, has := pe[c14Names[a.name]]; has {
					exp[c14Names[a.name]] = g
				}
			}
		default:
			exp[c14Names[a.name]] = ""
		}
	}
	e.expect[di][rev] = exp
	// which of its attachments a reader of the new revision could fetch right after the commit
	e.atCommit[di][rev] = map[string]bool{}
	if l := nd.leaf(rev); l != nil {
		for n, m := range l.atts {
			if m.readable {
				e.atCommit[di][rev][n] = true
			}
		}
	}

	if e.tainted[di] {
		return
	}
	failed := false
	fail := func(mon, generic, detail string) {
		failed = true
		e.failRec(mon, sig(generic), e.failInput(), detail)
	}

	// written_intact: a leaf keeps the attachments it was written with, and those whose data was stored when
	// it was committed stay readable (att_safety from the writer's point of view)
	for _, l := range nd.leaves {
		ex, ok := e.expect[di][l.rev]
		if !ok {
			continue
		}
		for n, g := range ex {
			if g == "" {
				// a stub that did not repeat the parent's entry (adversarial stream): the writer named data the
				// document may never have had, with a revpos of its own choosing -- nothing is promised for it
				continue
			}
			m, has := l.atts[n]
			if !has {
				fail("written_intact", "leaf-attachment-lost", fmt.Sprintf("doc %d leaf %s was written with attachment %s but a reader no longer gets it", di, l.rev, n))
				continue
			}
			if g != "" && m.digest != g {
				fail("written_intact", "leaf-attachment-changed", fmt.Sprintf("doc %d leaf %s attachment %s: written %s, reader gets %s", di, l.rev, n, g, m.digest))
				continue
			}
			if g != "" && e.atCommit[di][l.rev][n] && !m.readable {
				fail("att_safety", "referenced-attachment-swept", fmt.Sprintf("doc %d leaf %s attachment %s (%s): readable when the revision was committed, the revision is still a leaf, the data is gone", di, l.rev, n, g))
			}
		}
		for n := range l.atts {
			if _, has := ex[n]; !has {
				fail("written_intact", "leaf-attachment-appeared", fmt.Sprintf("doc %d leaf %s was written without attachment %s but a reader gets one", di, l.rev, n))
			}
		}
	}
	// att_safety on the stored metadata: stored before, referenced (ver 2) by a leaf after => stored after
	nrefs, prefs := nd.refs(), pd.refs()
	for g := range nrefs {
		if pst[g] && !nst[g] {
			fail("att_safety", "referenced-attachment-swept", fmt.Sprintf("doc %d digest %s is referenced by a leaf after the write, was stored before it, and is gone", di, g))
		}
	}
	if e.sw {
		// att_cleanup: referenced before, unreferenced after => deleted
		for g := range prefs {
			if !nrefs[g] && nst[g] {
				fail("att_cleanup", "unreferenced-attachment-kept", fmt.Sprintf("doc %d digest %s was referenced by a leaf before the write, by none after it, and its data document is still there", di, g))
			}
		}
		// exact cleanup when no attempt on this document ever lost a race: stored => referenced
		if !e.lostAtt[di] {
			for g := range nst {
				if !nrefs[g] {
					fail("att_cleanup", "unreferenced-attachment-stored", fmt.Sprintf("doc %d digest %s has a data document but no leaf references it", di, g))
				}
			}
		}
	}
	if failed || nonWinning || promoted {
		// after a non-winning write / a promotion the stored metadata no longer says what the writers wrote:
		// later divergences on this document would be consequences, so the writer-side monitors stop here
		// (the model keeps predicting every observable exactly)
		if nonWinning || promoted {
			e.tainted[di] = true
		}
	}
}

func (e *c14Env) finishCase(stream string) {
	coq := c14RankDigests(fmt.Sprintf("CHist %s %s %s %s", cqBool(e.ac), cqBool(e.sw), cqList(e.events), cqList(e.obsCoq)))
	if e.bigMode {
		var bigs []string
		for _, rv := range e.bigRevs {
			bigs = append(bigs, c14Rev(rv))
		}
		coq = c14RankDigests(fmt.Sprintf("CHistR %s %s %s %s %s %s", cqBool(e.ac), cqBool(e.sw), cqList(bigs), cqList(e.events), cqList(e.obsCoq), cqList(e.persCoq)))
	}
	var ks []string
	for k := range e.kinds {
		ks = append(ks, k)
	}
	sort.Strings(ks)
	kind := "hist"
	if e.bigMode {
		kind = "hist-reload"
	}
	if e.ac {
		kind += "-conflicts"
	} else {
		kind += "-linear"
	}
	if !e.sw {
		kind += "-nosweep"
	}
	e.rec.Case(stream, kind, coq, map[string]any{"allow_conflicts": e.ac, "sweep": e.sw, "case": e.caseDesc, "events": e.descs, "large_bodies": e.bigRevs}, e.nontriv)
	e.rec.Size(fmt.Sprintf("events=%d", len(e.events)))
}

// ---------- generators ----------

// attachments for a child of parent (a leaf of the observed document, or "" / a non-leaf: nothing known)
func (e *c14Env) genAtts(r *vRand, d *c14DocObs, parent string, adversarial bool) []c14Att {
	var atts []c14Att
	var pl *c14Leaf
	if parent != "" {
		pl = d.leaf(parent)
	}
	// contents already used by this document (to share a digest between names / branches)
	var used []int
	for ci := range e.pool {
		dg := Sha1DigestKey(e.pool[ci])
		for _, l := range d.leaves {
			for _, m := range l.atts {
				if m.digest == dg {
					used = append(used, ci)
				}
			}
		}
	}
	pick := func() int {
		if len(used) > 0 && r.Chance(35) {
			return used[r.Intn(len(used))]
		}
		return r.Intn(len(e.pool))
	}
	for n := range c14Names {
		if len(atts) >= 2 {
			// at most two attachments per generated revision: the "_attachments" stamped into a superseded
			// winner's body then stays below MaximumInlineBodySize (250 bytes).  Larger non-winning bodies live in
			// "_sync:rb:" documents written with AddRaw by every ATTEMPT (first write wins), which the model
			// does not cover (see props/C14.json, assumptions)
			break
		}
		var pm *c14Meta
		if pl != nil {
			if m, ok := pl.atts[c14Names[n]]; ok {
				pm = &m
			}
		}
		switch {
		case pm != nil:
			x := r.Intn(100)
			switch {
			case x < 45:
				atts = append(atts, c14Att{name: n, digest: pm.digest, revpos: pm.revpos, tracked: true, v2: adversarial && r.Chance(30)})
				e.kinds["keep"] = true
			case x < 70:
				atts = append(atts, c14Att{name: n, isData: true, content: pick()})
				e.kinds["replace"] = true
			default:
				e.kinds["drop"] = true
			}
		case r.Chance(35):
			c := pick()
			atts = append(atts, c14Att{name: n, isData: true, content: c})
			used = append(used, c)
			e.kinds["add"] = true
		case adversarial && r.Chance(15):
			// a stub the parent does not have: some digest (known content or not), arbitrary revpos
			dg := Sha1DigestKey(e.pool[r.Intn(len(e.pool))])
			if r.Chance(30) {
				dg = "sha1-AAAAAAAAAAAAAAAAAAAAAAAAAAA="
			}
			atts = append(atts, c14Att{name: n, digest: dg, revpos: 1 + r.Intn(4), v2: r.Chance(50)})
			e.kinds["foreign-stub"] = true
		}
	}
	return atts
}

func (e *c14Env) genOp(r *vRand, doc int, adversarial bool, noTombstone bool) *c14Op {
	d := &e.last.docs[doc]
	op := &c14Op{doc: doc}
	if !d.exists {
		op.push = e.ac && r.Chance(30)
		op.atts = e.genAtts(r, d, "", adversarial)
		if len(op.atts) == 0 {
			op.atts = []c14Att{{name: 0, isData: true, content: r.Intn(len(e.pool))}}
		}
		if op.push {
			op.pushRev = fmt.Sprintf("1-%032x", new(big.Int).SetUint64(r.U64()))
		}
		op.label = "create"
		return op
	}
	op.push = e.ac && r.Chance(45)
	var live, dead []string
	for _, l := range d.leaves {
		if l.deleted {
			dead = append(dead, l.rev)
		} else {
			live = append(live, l.rev)
		}
	}
	x := r.Intn(100)
	switch {
	case !op.push && x < 10:
		op.parent = "" // create on top of a tombstone, or 409
		op.label = "put-no-parent"
	case x < 15 && len(d.nonLeaf) > 0 && !op.push:
		op.parent = d.nonLeaf[r.Intn(len(d.nonLeaf))]
		op.label = "put-stale-parent"
	case op.push && x < 30 && len(d.nonLeaf) > 0:
		op.parent = d.nonLeaf[r.Intn(len(d.nonLeaf))] // creates a conflicting branch
		op.label = "push-branch"
	case op.push && x < 36:
		op.parent = ""
		op.label = "push-new-root"
	case x < 60 || len(live) == 0:
		op.parent = d.cur
		op.label = "child-of-winner"
	default:
		all := append(append([]string{}, live...), dead...)
		op.parent = all[r.Intn(len(all))]
		op.label = "child-of-leaf"
	}
	op.deleted = r.Chance(22) && !noTombstone
	if op.deleted {
		op.label += "-tombstone"
		e.kinds["tombstone"] = true
	} else {
		op.atts = e.genAtts(r, d, op.parent, adversarial)
	}
	if op.push {
		gen := 0
		if op.parent != "" {
			gen, _ = ParseRevID(e.ctx, op.parent)
		}
		op.pushRev = fmt.Sprintf("%d-%016x%016x", gen+1, r.U64(), r.U64())
		if r.Chance(4) && len(d.all) > 0 {
			// push a revision the document already has: nothing to add
			var ids []string
			for id := range d.all {
				ids = append(ids, id)
			}
			sort.Strings(ids)
			op.pushRev = ids[r.Intn(len(ids))]
			op.parent = ""
			op.label = "push-known-revision"
		}
	}
	if pl := d.leaf(op.parent); pl != nil && pl.deleted && !op.deleted {
		e.kinds["resurrect"] = true
	}
	return op
}

func (e *c14Env) randomCase(r *vRand, adversarial bool, stream string) {
	e.startCase(fmt.Sprintf("random seed=%d", vSeed()))
	n := 3 + r.Intn(8)
	writes := 0
	for writes < n {
		doc := 0
		if r.Chance(30) {
			doc = 1
		}
		op := e.genOp(r, doc, adversarial, false)
		var comps func(int) []*c14Op
		if r.Chance(25) && e.last.docs[doc].exists {
			lost := 1 + r.Intn(2)
			comps = func(attempt int) []*c14Op {
				if attempt > lost || writes >= 10 {
					return nil
				}
				var cs []*c14Op
				k := 1 + r.Intn(2)
				for i := 0; i < k; i++ {
					cd := doc
					if r.Chance(15) {
						cd = 1 - doc
					}
					// Two storage-level facts keep tombstones out of the competitors in two situations (both are
					// properties of the CAS write, C05's subject, not of attachments): (1) the write that makes a
					// tombstoned document live again is an insert, not a CAS write, so a competing update that leaves
					// the document tombstoned would be overwritten; (2) rosmar answers "deleteBody on a tombstone"
					// instead of a CAS mismatch when two tombstoning writes race.
					cur := e.last.docs[cd]
					curDead := false
					if l := cur.leaf(cur.cur); l != nil && l.deleted {
						curDead = true
					}
					c := e.genOp(r, cd, adversarial, cd == doc && (op.deleted || curDead))
					c.label = "competitor:" + c.label
					cs = append(cs, c)
					writes++
				}
				e.kinds["retry"] = true
				return cs
			}
		}
		e.runOp(op, comps)
		writes++
	}
	e.closeCase(stream)
}

// reloadCase: a history whose writes carry bodies on both sides of MaximumInlineBodySize, so that non-winning leaves
// are kept inline in the rev tree or out of line in _sync:rb: documents; every request loads the document from the
// bucket (and the observation after every event loads it again and flushes the revision cache), no forced retries.
// Emitted as CHistR: the model reloads (marshal ; unmarshal) every document before every event and must reproduce,
// besides everything a CHist case carries, the stored attachment flag and body placement of every non-current leaf
func (e *c14Env) reloadCase(r *vRand, stream string) {
	e.startCase(fmt.Sprintf("reload seed=%d", vSeed()))
	e.bigMode = true
	n := 3 + r.Intn(7)
	for i := 0; i < n; i++ {
		doc := 0
		if r.Chance(20) {
			doc = 1
		}
		op := e.genOp(r, doc, false, false)
		if !op.deleted && r.Chance(60) {
			op.big = true
			e.kinds["large-body"] = true
		}
		e.runOp(op, nil)
	}
	e.closeCase(stream)
}

func (e *c14Env) closeCase(stream string) {
	// non-trivial: at least one attachment was kept as a stub or dropped/replaced (the sweep had something to
	// decide) and the case has a conflict, a tombstone, a resurrection or a retry
	e.nontriv = (e.kinds["keep"] || e.kinds["drop"] || e.kinds["replace"]) &&
		(e.kinds["tombstone"] || e.kinds["resurrect"] || e.kinds["retry"] || e.kinds["branch"])
	for _, d := range e.last.docs {
		if len(d.leaves) > 1 {
			e.kinds["branch"] = true
			e.nontriv = e.nontriv || e.kinds["keep"] || e.kinds["drop"] || e.kinds["replace"]
		}
	}
	if e.bigMode {
		// non-trivial (reload): at some point a non-current leaf was stored out of line AND carried the attachment flag
		e.nontriv = e.kinds["flagged-out-of-line-leaf"]
	}
	e.finishCase(stream)
}

// ---------- corpus: written-out histories (the findings, the repository's own test flows, edge contents) ----------

func (e *c14Env) data(name, content int) c14Att { return c14Att{name: name, isData: true, content: content} }
func (e *c14Env) keep(name int, rev string, doc int) c14Att {
	l := e.last.docs[doc].leaf(rev)
	if l == nil {
		e.t.Fatalf("corpus: %s is not a leaf", rev)
	}
	m, ok := l.atts[c14Names[name]]
	if !ok {
		// the writer repeats what it originally wrote even if the stored metadata lost it
		if ex, has := e.expect[doc][rev]; has && ex[c14Names[name]] != "" {
			return c14Att{name: name, digest: ex[c14Names[name]], revpos: 1, tracked: true}
		}
		e.t.Fatalf("corpus: %s has no attachment %s", rev, c14Names[name])
	}
	return c14Att{name: name, digest: m.digest, revpos: m.revpos, tracked: true}
}

func (e *c14Env) put(doc int, parent string, deleted bool, atts ...c14Att) string {
	op := &c14Op{doc: doc, parent: parent, deleted: deleted, atts: atts, label: "corpus"}
	out := e.runOp(op, nil)
	if out != "OAck" {
		return ""
	}
	return e.last.docs[doc].cur
}
func (e *c14Env) push(doc int, rev, parent string, deleted bool, atts ...c14Att) {
	op := &c14Op{doc: doc, push: true, pushRev: rev, parent: parent, deleted: deleted, atts: atts, label: "corpus"}
	e.runOp(op, nil)
}

func c14PushID(gen int, c byte) string { return fmt.Sprintf("%d-%s", gen, strings.Repeat(string(c), 32)) }

func (e *c14Env) corpus() {
	// linear: add, keep, replace, drop, tombstone, resurrect with a stub to swept data
	e.startCase("corpus: linear add/keep/replace/drop/tombstone/resurrect")
	r1 := e.put(0, "", false, e.data(0, 5), e.data(1, 6))
	r2 := e.put(0, r1, false, e.keep(0, r1, 0), e.data(2, 7))
	r3 := e.put(0, r2, false, e.data(0, 8), e.keep(2, r2, 0))
	r4 := e.put(0, r3, true)
	_ = e.put(0, r4, false, c14Att{name: 0, digest: Sha1DigestKey(e.pool[8]), revpos: 3})
	e.kinds["keep"], e.kinds["tombstone"], e.kinds["resurrect"] = true, true, true
	e.closeCase("corpus")

	// identical content under two names and in two documents; edge contents
	e.startCase("corpus: shared digest between names and documents, 0-byte / 1-byte / 64 KiB / all-zero")
	s1 := e.put(0, "", false, e.data(0, 0), e.data(1, 0), e.data(2, 3))
	t1 := e.put(1, "", false, e.data(0, 0), e.data(1, 4))
	s2 := e.put(0, s1, false, e.keep(1, s1, 0), e.keep(2, s1, 0))
	_ = e.put(0, s2, false, e.data(0, 1), e.data(1, 2))
	_ = e.put(1, t1, true)
	e.kinds["keep"], e.kinds["drop"], e.kinds["tombstone"] = true, true, true
	e.closeCase("corpus")

	if !e.ac {
		return
	}
	// the repository's TestAttachmentRemovalWithConflicts flow: two leaves share a digest, the winner drops it
	e.startCase("corpus: two branches share a digest, winner drops it, loser is tombstoned")
	u1 := e.put(0, "", false)
	u2 := e.put(0, u1, false, e.data(0, 5))
	u3 := e.put(0, u2, false, e.keep(0, u2, 0))
	e.push(0, c14PushID(3, 'f'), u2, false, e.keep(0, u3, 0))
	u4 := e.put(0, c14PushID(3, 'f'), false)
	_ = u4
	_ = e.put(0, u3, true)
	e.kinds["keep"], e.kinds["drop"], e.kinds["tombstone"], e.kinds["branch"] = true, true, true, true
	e.closeCase("corpus")

	// the same with the losing leaf's body on either side of the inline limit (out of line: _sync:rb: + bodyKeyMap):
	// the leaf's attachment flag has to survive every reload for the sweep to see the shared digest
	for _, big := range []bool{false, true} {
		e.startCase(fmt.Sprintf("corpus: losing leaf (large body=%v) shares a digest with the winner, the winner drops it, then is tombstoned", big))
		e.bigMode = true
		x1 := e.put(0, "", false)
		x2 := e.put(0, x1, false, e.data(0, 5), e.data(1, 6))
		lose := &c14Op{doc: 0, push: true, pushRev: c14PushID(3, 'a'), parent: x2, atts: []c14Att{e.keep(0, x2, 0), e.keep(1, x2, 0)}, big: big, label: "corpus"}
		e.runOp(lose, nil)
		e.push(0, c14PushID(3, 'b'), x2, false, e.keep(0, c14PushID(3, 'a'), 0))
		e.push(0, c14PushID(4, 'b'), c14PushID(3, 'b'), false)
		other := &c14Op{doc: 1, atts: []c14Att{e.data(0, 5)}, big: big, label: "corpus"}
		e.runOp(other, nil)
		e.push(0, c14PushID(5, 'b'), c14PushID(4, 'b'), false, e.data(2, 7))
		e.kinds["keep"], e.kinds["drop"], e.kinds["branch"] = true, true, true
		e.closeCase("corpus")
	}

	// finding B: tombstoning the winning branch sweeps the surviving branch's attachment
	e.startCase("corpus: tombstone the winning branch, surviving branch is promoted")
	v1 := e.put(0, "", false, e.data(0, 5))
	e.push(0, c14PushID(2, 'a'), v1, false, e.keep(0, v1, 0))
	e.push(0, c14PushID(2, 'f'), v1, false, e.data(1, 6))
	e.push(0, c14PushID(3, 'f'), c14PushID(2, 'f'), true)
	e.push(0, c14PushID(3, 'a'), c14PushID(2, 'a'), false, e.keep(0, c14PushID(2, 'a'), 0))
	e.kinds["keep"], e.kinds["tombstone"], e.kinds["branch"] = true, true, true
	e.closeCase("corpus")

	// finding A: a pushed revision that does not win overwrites the winner's attachment map
	e.startCase("corpus: non-winning pushed revision with its own attachment")
	w1 := e.put(0, "", false, e.data(0, 5))
	e.push(0, c14PushID(2, 'f'), w1, false, e.keep(0, w1, 0))
	e.push(0, c14PushID(2, 'a'), w1, false, e.data(1, 6))
	e.push(0, c14PushID(3, 'a'), c14PushID(2, 'a'), false, c14Att{name: 1, digest: Sha1DigestKey(e.pool[6]), revpos: 2, tracked: true})
	e.push(0, c14PushID(4, 'a'), c14PushID(3, 'a'), true)
	e.kinds["keep"], e.kinds["tombstone"], e.kinds["branch"] = true, true, true
	e.closeCase("corpus")
}

// ---------- bounded-exhaustive: every sequence of abstract operations up to a length, one document ----------

var c14Alphabet = []string{"keep", "replace", "drop", "del", "pushlose", "pushwin", "delother", "noparent"}

func (e *c14Env) abstractOp(name string, step int) *c14Op {
	d := &e.last.docs[0]
	op := &c14Op{doc: 0, label: "exh:" + name}
	cl := d.leaf(d.cur)
	parentOf := func(rev string) string { return "" }
	_ = parentOf
	switch name {
	case "keep", "replace", "drop", "del":
		op.parent = d.cur
		if name == "del" {
			op.deleted = true
			return op
		}
		if cl != nil && name != "drop" {
			first := true
			for n := range c14Names {
				if m, ok := cl.atts[c14Names[n]]; ok {
					if name == "replace" && first {
						op.atts = append(op.atts, e.data(n, 5+(step%4)))
						first = false
					} else {
						op.atts = append(op.atts, c14Att{name: n, digest: m.digest, revpos: m.revpos, tracked: true})
					}
				}
			}
			if name == "replace" && first {
				op.atts = append(op.atts, e.data(0, 5+(step%4)))
			}
		}
		return op
	case "pushlose", "pushwin":
		// a sibling of the current winner (child of the winner's parent; a new root if it has none)
		op.push = true
		gen, _ := ParseRevID(e.ctx, d.cur)
		doc, err := e.col.GetDocument(e.ctx, e.docIDs[0], DocUnmarshalSync)
		if err == nil && doc != nil && doc.History[d.cur] != nil {
			op.parent = doc.History[d.cur].Parent
		}
		c := byte('0')
		if name == "pushwin" {
			c = 'f'
		}
		op.pushRev = fmt.Sprintf("%d-%s%02x", gen, strings.Repeat(string(c), 30), step)
		if name == "pushlose" {
			op.atts = []c14Att{e.data(1, 6)}
		} else if cl != nil {
			// the winning sibling shares the winner's first attachment by stub (same digest on two branches)
			for n := range c14Names {
				if m, ok := cl.atts[c14Names[n]]; ok {
					op.atts = append(op.atts, c14Att{name: n, digest: m.digest, revpos: m.revpos, tracked: false})
					break
				}
			}
		}
		return op
	case "delother":
		for _, l := range d.leaves {
			if !l.deleted && l.rev != d.cur {
				op.push = true
				op.parent = l.rev
				g, _ := ParseRevID(e.ctx, l.rev)
				op.pushRev = fmt.Sprintf("%d-%s%02x", g+1, strings.Repeat("7", 30), step)
				op.deleted = true
				return op
			}
		}
		return nil
	case "noparent":
		op.atts = []c14Att{e.data(0, 5)}
		return op
	}
	return nil
}

func (e *c14Env) exhaustive(maxLen int) int {
	count := 0
	var rec func(seq []string)
	rec = func(seq []string) {
		if len(seq) > 0 {
			e.startCase("exhaustive: create; " + strings.Join(seq, "; "))
			e.put(0, "", false, e.data(0, 5), e.data(1, 5))
			ok := true
			for i, name := range seq {
				op := e.abstractOp(name, i)
				if op == nil {
					ok = false
					break
				}
				e.runOp(op, nil)
			}
			if ok {
				e.kinds["keep"] = true
				e.kinds["branch"] = true
				e.closeCase("exhaustive")
				count++
			}
		}
		if len(seq) == maxLen {
			return
		}
		for _, a := range c14Alphabet {
			rec(append(append([]string{}, seq...), a))
		}
	}
	rec(nil)
	return count
}

// ---------- the replication allow-list ----------

type c14AllowEnv struct {
	t      *testing.T
	rec    *vRecorder
	ctx    context.Context
	db     *Database
	col    *DatabaseCollectionWithUser
	docIDs []string
	digs   []string // digests; digs[len-1] has no data document anywhere
	has    map[[2]int]bool
}

func (a *c14AllowEnv) key(proto CBMobileSubprotocolVersion, doc, dg int) uint64 {
	if proto >= CBMobileReplicationV3 {
		return uint64(doc*100 + dg + 1)
	}
	return uint64(dg + 1)
}

type c14AllowEv struct {
	open bool
	t    int
	doc  int
	digs []int
}

func (a *c14AllowEnv) runCase(stream string, proto CBMobileSubprotocolVersion, evs []c14AllowEv) {
	bsc := &BlipSyncContext{loggingCtx: a.ctx, replicationStats: NewBlipSyncStats(), activeCBMobileSubprotocol: proto}
	bh := &blipHandler{BlipSyncContext: bsc, db: a.db, collection: a.col, loggingCtx: a.ctx}
	type transfer struct {
		doc  int
		meta []AttachmentStorageMeta
		digs []int
	}
	open := map[int][]transfer{}
	var coqEvs, coqObs []string
	var descs []any
	for _, ev := range evs {
		if ev.open {
			var meta []AttachmentStorageMeta
			var keys []uint64
			for i, dg := range ev.digs {
				meta = append(meta, AttachmentStorageMeta{digest: a.digs[dg], name: fmt.Sprintf("n%d", i), version: AttVersion2})
				keys = append(keys, a.key(proto, ev.doc, dg))
			}
			bsc.addAllowedAttachments(a.docIDs[ev.doc], "1-abc", meta, proto)
			open[ev.t] = append(open[ev.t], transfer{ev.doc, meta, ev.digs})
			coqEvs = append(coqEvs, fmt.Sprintf("AOpen %d %s", ev.t, cqNList(keys)))
			descs = append(descs, map[string]any{"open": ev.t, "doc": ev.doc, "digests": ev.digs})
		} else {
			if ts := open[ev.t]; len(ts) > 0 {
				tr := ts[len(ts)-1]
				open[ev.t] = ts[:len(ts)-1]
				bsc.removeAllowedAttachments(a.docIDs[tr.doc], tr.meta, proto)
			}
			coqEvs = append(coqEvs, fmt.Sprintf("AClose %d", ev.t))
			descs = append(descs, map[string]any{"close": ev.t})
		}
		// ask for every (document, digest)
		served := map[uint64]bool{}
		for doc := range a.docIDs {
			for dg := range a.digs {
				props := blip.Properties{"Profile": MessageGetAttachment, GetAttachmentDigest: a.digs[dg], GetAttachmentID: a.docIDs[doc]}
				rq := blip.NewParsedIncomingMessage(nil, blip.RequestType, props, nil)
				err := bh.handleGetAttachment(rq)
				st := 200
				if err != nil {
					st, _ = base.ErrorAsHTTPStatus(err)
				}
				k := a.key(proto, doc, dg)
				if st != 403 {
					served[k] = true
				}
				// allow_list_scoped, Go side: served iff some open transfer references the key
				want := false
				for _, ts := range open {
					for _, tr := range ts {
						for _, g := range tr.digs {
							if a.key(proto, tr.doc, g) == k {
								want = true
							}
						}
					}
				}
				in := map[string]any{"protocol": int(proto), "events": append([]any{}, descs...), "ask_doc": doc, "ask_digest": dg}
				if st != 403 && !want {
					a.rec.Fail("allow_list_scoped", "attachment-served-outside-transfer", in, fmt.Sprintf("getAttachment answered %d with no revision referencing it being sent", st))
				}
				if st == 403 && want {
					a.rec.Fail("allow_list_scoped", "attachment-refused-inside-transfer", in, "getAttachment refused although a revision referencing it is being sent")
				}
				if st == 200 {
					body, _ := rq.Response().Body()
					if Sha1DigestKey(body) != a.digs[dg] {
						a.rec.Fail("att_readback", "digest-mismatch", in, "getAttachment returned bytes that do not hash to the requested digest")
					}
				}
			}
		}
		var ks []uint64
		for k := range served {
			ks = append(ks, k)
		}
		sort.Slice(ks, func(i, j int) bool { return ks[i] < ks[j] })
		coqObs = append(coqObs, cqNList(ks))
	}
	nontriv := false
	opens, closes := 0, 0
	for _, ev := range evs {
		if ev.open {
			opens++
		} else {
			closes++
		}
	}
	nontriv = opens >= 2 && closes >= 1
	a.rec.Case(stream, "allow-list", fmt.Sprintf("CAllow %s %s", cqList(coqEvs), cqList(coqObs)), map[string]any{"protocol": int(proto), "events": descs}, nontriv)
}

func c14AllowList(t *testing.T, rec *vRecorder, r *vRand, pool [][]byte) {
	db, ctx := SetupTestDBWithOptions(t, DatabaseContextOptions{})
	defer db.Close(ctx)
	col, ctx := GetSingleDatabaseCollectionWithUser(ctx, t, db)
	a := &c14AllowEnv{t: t, rec: rec, ctx: ctx, db: db, col: col, docIDs: []string{"c14al0", "c14al1"}, has: map[[2]int]bool{}}
	a.digs = []string{Sha1DigestKey(pool[5]), Sha1DigestKey(pool[6]), "sha1-AAAAAAAAAAAAAAAAAAAAAAAAAAA="}
	enc := func(i int) map[string]any {
		return map[string]any{"data": base64.StdEncoding.EncodeToString(pool[i])}
	}
	if _, _, err := col.Put(ctx, a.docIDs[0], Body{BodyAttachments: map[string]any{"x": enc(5), "y": enc(6)}}); err != nil {
		t.Fatalf("allow-list setup: %v", err)
	}
	if _, _, err := col.Put(ctx, a.docIDs[1], Body{BodyAttachments: map[string]any{"x": enc(5)}}); err != nil {
		t.Fatalf("allow-list setup: %v", err)
	}
	// bounded-exhaustive: every event sequence up to a length over a small alphabet
	alpha := []c14AllowEv{
		{open: true, t: 1, doc: 0, digs: []int{0}},
		{open: true, t: 2, doc: 0, digs: []int{0, 1}},
		{open: true, t: 3, doc: 1, digs: []int{0, 0}},
		{open: false, t: 1}, {open: false, t: 2}, {open: false, t: 3},
	}
	maxLen := c14Len(3, 4)
	var rec2 func(seq []c14AllowEv)
	rec2 = func(seq []c14AllowEv) {
		if len(seq) > 0 {
			a.runCase("exhaustive", CBMobileReplicationV3, seq)
		}
		if len(seq) == maxLen {
			return
		}
		for _, ev := range alpha {
			rec2(append(append([]c14AllowEv{}, seq...), ev))
		}
	}
	rec2(nil)
	// random: longer histories, both protocol generations, repeated transfer ids, closes of unknown transfers
	for i := 0; i < vBudget(60, 400); i++ {
		n := 3 + r.Intn(10)
		var evs []c14AllowEv
		for j := 0; j < n; j++ {
			if r.Chance(55) {
				k := 1 + r.Intn(3)
				var ds []int
				for x := 0; x < k; x++ {
					ds = append(ds, r.Intn(3))
				}
				evs = append(evs, c14AllowEv{open: true, t: 1 + r.Intn(4), doc: r.Intn(2), digs: ds})
			} else {
				evs = append(evs, c14AllowEv{t: 1 + r.Intn(4)})
			}
		}
		proto := CBMobileReplicationV3
		if r.Chance(30) {
			proto = CBMobileReplicationV2
		}
		stream := "random"
		a.runCase(stream, proto, evs)
	}
}

// tier-dependent bound that the failing-input search budget does not multiply
func c14Len(quick, thorough int) int {
	if vThorough() {
		return thorough
	}
	return quick
}

// ---------- entry point ----------

func TestVerifC14(t *testing.T) {
	rec := vNewRecorder(t, "C14", "C14.C14_Corr")
	rec.shardSize = 90
	defer rec.Finish()
	r := vNewRand(vSeed())

	// content pool: 0 bytes, 1 byte (0x00), 1 byte (0xff), 64 KiB random, 64 KiB all-zero, small binary strings
	pool := [][]byte{{}, {0x00}, {0xff}}
	big1 := make([]byte, 64*1024)
	for i := range big1 {
		big1[i] = byte(r.U64())
	}
	pool = append(pool, big1, make([]byte, 64*1024))
	for i := 0; i < 6; i++ {
		b := make([]byte, 3+r.Intn(40))
		for j := range b {
			b[j] = byte(r.U64())
		}
		pool = append(pool, b)
	}

	type cfg struct{ ac, sw bool }
	cfgs := []cfg{{false, true}, {true, true}, {true, false}, {false, false}}
	nExh := 0
	for ci, c := range cfgs {
		e := c14NewEnv(t, rec, c.ac, c.sw, pool)
		e.corpus()
		if c.ac && c.sw {
			nExh = e.exhaustive(c14Len(3, 4))
		}
		n := vBudget(80, 600)
		if c.ac && c.sw {
			n = vBudget(200, 1500)
		}
		if !c.sw {
			n = vBudget(25, 200)
		}
		for i := 0; i < n; i++ {
			e.randomCase(r, false, "random")
		}
		for i := 0; i < n/3; i++ {
			e.randomCase(r, true, "adversarial")
		}
		e.close()
		_ = ci
	}
	rec.Extra("exhaustive", true)
	rec.Extra("exhaustive_scope", fmt.Sprintf("document histories: create + every sequence of <= %d operations over %v (%d cases); allow-list: every sequence of <= %d events over 3 transfers (open/close)", c14Len(3, 4), c14Alphabet, nExh, c14Len(3, 4)))
	c14AllowList(t, rec, r, pool)
	// attachment compaction (harness/db/verif_c14_compact_test.go); last, so that the streams above see the same
	// pseudo-random sequence as before it was added
	c14Compaction(t, rec, r)
	// persistence of the rev tree across reloads with bodies on both sides of the inline limit (CHistR cases); after
	// everything else for the same reason
	for _, c := range []cfg{{true, true}, {true, false}} {
		e := c14NewEnv(t, rec, c.ac, c.sw, pool)
		n := vBudget(200, 1200)
		if !c.sw {
			n = vBudget(30, 200)
		}
		for i := 0; i < n; i++ {
			e.reloadCase(r, "reload")
		}
		e.close()
	}
}
