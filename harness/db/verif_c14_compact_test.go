//go:build verif

package db

import (
	"context"
	"encoding/json"
	"errors"
	"fmt"
	"sort"
	"strings"
	"sync"
	"testing"
	"time"

	sgbucket "github.com/couchbase/sg-bucket"
	"github.com/couchbase/sync_gateway/base"
	"github.com/couchbase/sync_gateway/channels"
)

// C14, attachment compaction (db/attachment_compaction.go driven by AttachmentCompactionManager).
//
// A corpus = 1-4 documents in the format a pre-3.0 Sync Gateway left behind (legacy, version 1 attachment
// metadata in _sync.attachments of the winning revision and in the `_attachments` of non-winning revision bodies,
// which live inline in history.bodymap or out of line in a _sync:rb: document named by history.bodyKeyMap) plus a
// set of _sync:att:<digest> data documents (shared by every document that references the digest; some referenced by
// nobody).  The documents are written raw (as the repository's own compaction tests do) and READ BACK through the
// real read path (GetDocument / getRevision / GetRev / GetAttachment / Get1xRevBodyWithHistory) -- that reading,
// not the generator's intent, defines which leaf references which digest.
// A case = corpus + a list of runs of the real manager (Start, fresh id or resumed, optional dry run) each with
// a fault set (GetRaw of a _sync:rb: key, SetXattrs of a _sync:att: key; base.LeakyBucket callbacks); after every
// run: state, marked / purged counters, the _sync:att: documents that remain, left-over compaction xattrs.
// The Coq case (C14_Corr.CCompact) replays the runs on C14/Compaction.v.

const (
	c14cSigPurged   = "compaction-purged-referenced-attachment"
	c14cSigSameName = "compaction-same-name-leaf-attachment-unmarked"
)

type c14cAtt struct {
	Name int  `json:"name"`
	Dig  int  `json:"dig"` // 1-based index into the content pool
	V2   bool `json:"v2,omitempty"`
}

type c14cLeaf struct {
	Atts    []c14cAtt `json:"atts"`
	Ext     bool      `json:"external,omitempty"` // body stored in a _sync:rb: document
	Deleted bool      `json:"deleted,omitempty"`  // tombstoned branch
	Missing bool      `json:"missing,omitempty"`  // external body document does not exist (any more)
}

type c14cDoc struct {
	Win        []c14cAtt  `json:"win"`
	WinDeleted bool       `json:"win_deleted,omitempty"`
	Others     []c14cLeaf `json:"others,omitempty"`
}

type c14cCorpus struct {
	Docs    []c14cDoc `json:"docs"`
	Present []int     `json:"present"` // digests that have a _sync:att: document
}

type c14cRun struct {
	Reset     bool  `json:"reset"` // fresh compaction id (otherwise: whatever the manager decides -- resume after an error)
	Dry       bool  `json:"dry,omitempty"`
	ReadFail  []int `json:"read_fail,omitempty"`  // external-body slots (global numbering) whose GetRaw fails
	StampFail []int `json:"stamp_fail,omitempty"` // digests whose SetXattrs fails
}

type c14cRunObs struct {
	State    string `json:"state"`
	Marked   int64  `json:"marked"`
	Purged   int64  `json:"purged"`
	Remain   []int  `json:"remain"`
	Stamped  []int  `json:"stamped"` // remaining data documents that still carry a compaction xattr
	Hits     int    `json:"fault_hits"`
	Resumed  bool   `json:"resumed"`
	LastErr  string `json:"last_error,omitempty"`
	Duration string `json:"-"`
}

var c14cNames = []string{"a", "b", "c"}

type c14cEnv struct {
	t   *testing.T
	rec *vRecorder
	db  *Database
	ctx context.Context
	col *DatabaseCollectionWithUser
	ds  base.DataStore

	mu        sync.Mutex
	readFail  map[string]bool
	stampFail map[string]bool
	hits      int

	pool    [][]byte
	digests []string // 1-based: digests[i-1]
	docIDs  []string
	extKeys []string // global numbering of external-body slots -> _sync:rb: key
	lastID  string
}

func c14cPool() [][]byte {
	return [][]byte{
		[]byte(`{"legacy":"one"}`), {0x00}, {}, []byte("legacy attachment \xff\xfe three"), []byte(strings.Repeat("Z", 5000)),
	}
}

func c14cNewEnv(t *testing.T, rec *vRecorder) *c14cEnv {
	e := &c14cEnv{t: t, rec: rec, pool: c14cPool(), readFail: map[string]bool{}, stampFail: map[string]bool{}}
	for _, c := range e.pool {
		e.digests = append(e.digests, Sha1DigestKey(c))
	}
	b := base.GetTestBucket(t).LeakyBucketClone(base.LeakyBucketConfig{
		GetRawCallback: func(key string) error {
			e.mu.Lock()
			defer e.mu.Unlock()
			if e.readFail[key] {
				e.hits++
				return errors.New("verif: injected transient storage error (read of " + key + ")")
			}
			return nil
		},
		SetXattrCallback: func(key string) error {
			e.mu.Lock()
			defer e.mu.Unlock()
			if e.stampFail[key] {
				e.hits++
				return errors.New("verif: injected transient storage error (xattr write on " + key + ")")
			}
			return nil
		},
	})
	t.Cleanup(func() { b.Close(base.TestCtx(t)) })
	db, ctx := SetupTestDBForBucketWithOptions(t, b, DatabaseContextOptions{
		AllowConflicts: base.Ptr(true),
		Scopes:         GetScopesOptionsDefaultCollectionOnly(t),
	})
	e.db, e.ctx = db, ctx
	e.col, e.ctx = GetSingleDatabaseCollectionWithUser(ctx, t, db)
	e.ds = e.col.dataStore
	return e
}

func (e *c14cEnv) close() { e.db.Close(e.ctx) }

func (e *c14cEnv) attMeta(a c14cAtt) map[string]any {
	m := map[string]any{"digest": e.digests[a.Dig-1], "length": len(e.pool[a.Dig-1]), "revpos": 1, "stub": true}
	if a.V2 {
		m["ver"] = 2
	}
	return m
}

func (e *c14cEnv) attMap(atts []c14cAtt) map[string]any {
	m := map[string]any{}
	for _, a := range atts {
		m[c14cNames[a.Name]] = e.attMeta(a)
	}
	return m
}

func c14cRevID(i int) string {
	switch i {
	case 0:
		return "1-" + strings.Repeat("0", 32)
	case 1:
		return "2-" + strings.Repeat("f", 32)
	}
	return fmt.Sprintf("2-%032x", i)
}

// writeCorpus stores the documents raw, in the pre-3.0 layout
func (e *c14cEnv) writeCorpus(caseN int, c *c14cCorpus) {
	e.docIDs, e.extKeys = nil, nil
	for di := range c.Docs {
		d := &c.Docs[di]
		docID := fmt.Sprintf("c14c_%d_%d", caseN, di)
		e.docIDs = append(e.docIDs, docID)
		revs := []string{c14cRevID(0), c14cRevID(1)}
		parents := []int{-1, 0}
		var deleted []int
		bodymap := map[string]string{}
		bodyKeyMap := map[string]string{}
		live := 0
		if d.WinDeleted {
			deleted = append(deleted, 1)
		} else {
			live++
		}
		for li := range d.Others {
			l := &d.Others[li]
			idx := 2 + li
			revs = append(revs, c14cRevID(idx))
			parents = append(parents, 0)
			if l.Deleted {
				deleted = append(deleted, idx)
				bodymap[fmt.Sprint(idx)] = `{"_deleted":true}`
				continue
			}
			live++
			body := map[string]any{"leaf": li}
			if len(l.Atts) > 0 {
				body[BodyAttachments] = e.attMap(l.Atts)
			}
			if l.Ext {
				body["pad"] = strings.Repeat("p", 300)
			}
			raw, _ := json.Marshal(body)
			if l.Ext {
				key := generateRevBodyKey(docID, c14cRevID(idx))
				bodyKeyMap[fmt.Sprint(idx)] = key
				e.extKeys = append(e.extKeys, key)
				if !l.Missing {
					if err := e.ds.SetRaw(e.ctx, key, 0, nil, raw); err != nil {
						e.t.Fatalf("write rev body: %v", err)
					}
				}
			} else {
				bodymap[fmt.Sprint(idx)] = string(raw)
			}
		}
		var flags uint8
		if len(d.Others) > 0 {
			flags |= channels.Branched
		}
		if live >= 2 {
			flags |= channels.Conflict
		}
		if d.WinDeleted {
			flags |= channels.Deleted
		}
		docBody := []byte(fmt.Sprintf(`{"winner":%d}`, di))
		history := map[string]any{"revs": revs, "parents": parents, "channels": make([]any, len(revs))}
		if len(deleted) > 0 {
			history["deleted"] = deleted
		}
		if len(bodymap) > 0 {
			history["bodymap"] = bodymap
		}
		if len(bodyKeyMap) > 0 {
			history["bodyKeyMap"] = bodyKeyMap
		}
		recent := []int{}
		for i := range revs {
			recent = append(recent, caseN*100+di*10+i+1)
		}
		sync := map[string]any{
			"rev": c14cRevID(1), "flags": flags, "sequence": recent[len(recent)-1], "recent_sequences": recent,
			"history": history, "cas": "0x0000000000000000", "time_saved": "2021-10-14T16:38:11.359443+01:00",
		}
		if d.WinDeleted {
			sync["value_crc32c"] = base.DeleteCrc32c
			sync["tombstoned_at"] = 1634225891
		} else {
			sync["value_crc32c"] = base.Crc32cHashString(docBody)
			if len(d.Win) > 0 {
				sync["attachments"] = e.attMap(d.Win)
			}
		}
		syncRaw, _ := json.Marshal(sync)
		xattrs := map[string][]byte{base.SyncXattrName: syncRaw}
		if d.WinDeleted {
			if _, err := e.ds.WriteTombstoneWithXattrs(e.ctx, docID, 0, 0, xattrs, nil, false, nil); err != nil {
				e.t.Fatalf("write tombstone %s: %v", docID, err)
			}
		} else if _, err := e.ds.WriteWithXattrs(e.ctx, docID, 0, 0, docBody, xattrs, nil, nil); err != nil {
			e.t.Fatalf("write %s: %v", docID, err)
		}
		// version 2 data documents (never touched by compaction)
		all := append([]c14cAtt{}, d.Win...)
		for _, l := range d.Others {
			all = append(all, l.Atts...)
		}
		for _, a := range all {
			if a.V2 {
				_, _ = e.ds.AddRaw(e.ctx, MakeAttachmentKey(AttVersion2, docID, e.digests[a.Dig-1]), 0, e.pool[a.Dig-1])
			}
		}
	}
	for _, g := range c.Present {
		if _, err := e.ds.AddRaw(e.ctx, MakeAttachmentKey(AttVersion1, "", e.digests[g-1]), 0, e.pool[g-1]); err != nil {
			e.t.Fatalf("write attachment: %v", err)
		}
	}
}

// what the real read path says: per document, per live leaf, name -> (digest index, version, readable)
type c14cRef struct {
	Doc, Leaf int
	Rev       string
	Name      string
	Dig       int
	Ver       int
	Readable  bool
}

func (e *c14cEnv) digIndex(d string) int {
	for i, x := range e.digests {
		if x == d {
			return i + 1
		}
	}
	return 0
}

func (e *c14cEnv) failInput(c *c14cCorpus, runs []c14cRun, obs []c14cRunObs) any {
	return map[string]any{"corpus": c, "runs": runs, "observed": obs, "digests": e.digests}
}

func (e *c14cEnv) readRefs(c *c14cCorpus, runs []c14cRun, obs []c14cRunObs, stage string) []c14cRef {
	var out []c14cRef
	e.db.FlushRevisionCacheForTest()
	for di, docID := range e.docIDs {
		doc, err := e.col.GetDocument(e.ctx, docID, DocUnmarshalAll)
		if err != nil || doc == nil {
			e.rec.Fail("compaction_readback", "compaction-document-unreadable", e.failInput(c, runs, obs), fmt.Sprintf("%s: GetDocument(%s): %v", stage, docID, err))
			continue
		}
		leaves := doc.History.GetLeaves()
		sort.Strings(leaves)
		for _, rev := range leaves {
			if doc.History[rev].Deleted {
				continue
			}
			li := -1
			for i := 1; i < 2+len(c.Docs[di].Others); i++ {
				if c14cRevID(i) == rev {
					li = i - 1
				}
			}
			_, atts, _, gerr := e.col.getRevision(e.ctx, doc, rev)
			if gerr != nil {
				// a leaf whose body is gone references nothing a reader could get at
				if li >= 1 && c.Docs[di].Others[li-1].Missing {
					continue
				}
				e.rec.Fail("compaction_readback", "compaction-leaf-unreadable", e.failInput(c, runs, obs), fmt.Sprintf("%s: getRevision(%s,%s): %v", stage, docID, rev, gerr))
				continue
			}
			var names []string
			for n := range atts {
				names = append(names, n)
			}
			sort.Strings(names)
			full := true
			for _, n := range names {
				mm, _ := atts[n].(map[string]any)
				dg, _ := mm["digest"].(string)
				ver, _ := GetAttachmentVersion(mm)
				r := c14cRef{Doc: di, Leaf: li, Rev: rev, Name: n, Dig: e.digIndex(dg), Ver: ver}
				data, aerr := e.col.GetAttachment(e.ctx, MakeAttachmentKey(ver, docID, dg))
				if aerr == nil {
					r.Readable = true
					if r.Dig == 0 || string(data) != string(e.pool[r.Dig-1]) || Sha1DigestKey(data) != dg {
						e.rec.Fail("compaction_readback", "compaction-attachment-bytes-differ", e.failInput(c, runs, obs), fmt.Sprintf("%s: %s rev %s att %s: %d bytes read", stage, docID, rev, n, len(data)))
					}
				} else {
					full = false
				}
				out = append(out, r)
			}
			if full && len(names) > 0 {
				body, berr := e.col.Get1xRevBodyWithHistory(e.ctx, docID, rev, Get1xRevBodyOptions{AttachmentsSince: []string{}})
				if berr != nil {
					e.rec.Fail("compaction_readback", "compaction-get-with-attachments-error", e.failInput(c, runs, obs), fmt.Sprintf("%s: %s rev %s: %v", stage, docID, rev, berr))
				} else {
					got := GetBodyAttachments(body)
					for _, n := range names {
						mm, _ := got[n].(map[string]any)
						data, derr := DecodeAttachment(mm["data"])
						want, _ := atts[n].(map[string]any)
						dg, _ := want["digest"].(string)
						if derr != nil || Sha1DigestKey(data) != dg {
							e.rec.Fail("compaction_readback", "compaction-attachment-bytes-differ", e.failInput(c, runs, obs), fmt.Sprintf("%s: GET ?attachments=true of %s rev %s att %s: %v, %d bytes", stage, docID, rev, n, derr, len(data)))
						}
					}
				}
			}
		}
	}
	return out
}

func (e *c14cEnv) listAtts() (remain []int, stamped []int, unknown []string) {
	seen := map[string]bool{}
	if rss, ok := base.AsRangeScanStore(base.GetBaseDataStore(e.ds)); ok {
		iter, err := rss.Scan(e.ctx, sgbucket.NewRangeScanForPrefix(base.AttPrefix), sgbucket.ScanOptions{IDsOnly: true})
		if err == nil {
			for it := iter.Next(e.ctx); it != nil; it = iter.Next(e.ctx) {
				seen[it.ID] = true
			}
			_ = iter.Close(e.ctx)
		}
	}
	for i, dg := range e.digests {
		key := base.AttPrefix + dg
		_, _, err := base.GetBaseDataStore(e.ds).GetRaw(e.ctx, key)
		if err == nil {
			remain = append(remain, i+1)
			xa, _, xerr := e.ds.GetXattrs(e.ctx, key, []string{base.AttachmentCompactionXattrName})
			if xerr == nil && len(xa[base.AttachmentCompactionXattrName]) > 0 {
				stamped = append(stamped, i+1)
			}
		}
		delete(seen, key)
	}
	for k := range seen {
		if _, _, err := base.GetBaseDataStore(e.ds).GetRaw(e.ctx, k); err == nil {
			unknown = append(unknown, k)
		}
	}
	return
}

func (e *c14cEnv) run(r c14cRun) c14cRunObs {
	e.mu.Lock()
	e.readFail, e.stampFail, e.hits = map[string]bool{}, map[string]bool{}, 0
	for _, s := range r.ReadFail {
		e.readFail[e.extKeys[s]] = true
	}
	for _, g := range r.StampFail {
		e.stampFail[base.AttPrefix+e.digests[g-1]] = true
	}
	e.mu.Unlock()
	mgr := e.db.AttachmentCompactionManager
	start := time.Now()
	if err := mgr.Start(e.ctx, AttachmentCompactionOptions{Database: e.db, Reset: r.Reset, DryRun: r.Dry}); err != nil {
		e.t.Fatalf("compaction start: %v", err)
	}
	var st AttachmentManagerResponse
	deadline := time.Now().Add(60 * time.Second)
	for {
		raw, err := mgr.GetStatus(e.ctx)
		if err == nil && base.JSONUnmarshal(raw, &st) == nil && st.State != BackgroundProcessStateRunning && st.State != "" {
			break
		}
		if time.Now().After(deadline) {
			e.t.Fatalf("compaction did not finish: %s", raw)
		}
		time.Sleep(500 * time.Microsecond)
	}
	WaitForBackgroundManagerHeartbeatDocRemoval(e.t, mgr)
	o := c14cRunObs{State: string(st.State), Marked: st.MarkedAttachments, Purged: st.PurgedAttachments, LastErr: st.LastErrorMessage,
		Duration: time.Since(start).String()}
	o.Resumed = e.lastID != "" && st.CompactID == e.lastID
	e.lastID = st.CompactID
	e.mu.Lock()
	o.Hits = e.hits
	e.readFail, e.stampFail = map[string]bool{}, map[string]bool{}
	e.mu.Unlock()
	var unknown []string
	o.Remain, o.Stamped, unknown = e.listAtts()
	if len(unknown) > 0 {
		e.t.Fatalf("unexpected attachment documents %v", unknown)
	}
	return o
}

// ---------- what the mark phase will see: the stored documents, parsed back from the bucket ----------

type c14cStruct struct {
	flag  bool
	win   map[string][2]int // name -> (digest index, version)
	inl   []map[string][2]int
	ext   []int        // global slot numbers
	clash map[int]bool // legacy digests listed under a name that another body of the document uses for a different legacy digest (only used to name the signature of a safety failure)
}

func (e *c14cEnv) parseAtts(v any) map[string][2]int {
	out := map[string][2]int{}
	m, _ := v.(map[string]any)
	for n, x := range m {
		mm, _ := x.(map[string]any)
		dg, _ := mm["digest"].(string)
		ver, _ := GetAttachmentVersion(mm)
		out[n] = [2]int{e.digIndex(dg), ver}
	}
	return out
}

func (e *c14cEnv) structure() (docs []c14cStruct, bodies map[int]map[string][2]int) {
	bodies = map[int]map[string][2]int{}
	for _, docID := range e.docIDs {
		_, xattrs, _, err := base.GetBaseDataStore(e.ds).GetWithXattrs(e.ctx, docID, []string{base.SyncXattrName})
		if err != nil {
			e.t.Fatalf("read back %s: %v", docID, err)
		}
		var sd struct {
			Attachments map[string]any `json:"attachments"`
			Flags       uint8          `json:"flags"`
			History     struct {
				BodyMap    map[string]string `json:"bodymap"`
				BodyKeyMap map[string]string `json:"bodyKeyMap"`
			} `json:"history"`
		}
		if err := json.Unmarshal(xattrs[base.SyncXattrName], &sd); err != nil {
			e.t.Fatalf("parse %s: %v", docID, err)
		}
		st := c14cStruct{flag: sd.Flags&channels.Conflict != 0, win: e.parseAtts(anyMap(sd.Attachments)), clash: map[int]bool{}}
		idx := func(m map[string]string) []string {
			var ks []string
			for k := range m {
				ks = append(ks, k)
			}
			sort.Strings(ks)
			return ks
		}
		for _, k := range idx(sd.History.BodyMap) {
			var b map[string]any
			_ = json.Unmarshal([]byte(sd.History.BodyMap[k]), &b)
			st.inl = append(st.inl, e.parseAtts(b[BodyAttachments]))
		}
		for _, k := range idx(sd.History.BodyKeyMap) {
			key := sd.History.BodyKeyMap[k]
			slot := -1
			for i, x := range e.extKeys {
				if x == key {
					slot = i
				}
			}
			if slot < 0 {
				e.t.Fatalf("unknown body key %s", key)
			}
			st.ext = append(st.ext, slot)
			if raw, _, err := base.GetBaseDataStore(e.ds).GetRaw(e.ctx, key); err == nil {
				var b map[string]any
				_ = json.Unmarshal(raw, &b)
				bodies[slot] = e.parseAtts(b[BodyAttachments])
			}
		}
		// name clashes
		all := append([]map[string][2]int{st.win}, st.inl...)
		for _, s := range st.ext {
			if b, ok := bodies[s]; ok {
				all = append(all, b)
			}
		}
		for i := range all {
			for j := range all {
				for n, x := range all[i] {
					if y, ok := all[j][n]; ok && x[1] == AttVersion1 && y[1] == AttVersion1 && x[0] != y[0] {
						st.clash[x[0]] = true
						st.clash[y[0]] = true
					}
				}
			}
		}
		docs = append(docs, st)
	}
	return
}

func anyMap(m map[string]any) any {
	if m == nil {
		return nil
	}
	return m
}

func c14cNameIdx(n string) int {
	for i, x := range c14cNames {
		if x == n {
			return i
		}
	}
	return 99
}

func c14cMapToCoq(m map[string][2]int) string {
	var names []string
	for n := range m {
		names = append(names, n)
	}
	sort.Strings(names)
	var out []string
	for _, n := range names {
		out = append(out, fmt.Sprintf("(%d, CpAtt %d %s)", c14cNameIdx(n), m[n][0], cqBool(m[n][1] == AttVersion1)))
	}
	return cqList(out)
}

func c14cInts(v []int) string {
	parts := make([]string, len(v))
	for i, x := range v {
		parts[i] = fmt.Sprint(x)
	}
	return "[" + strings.Join(parts, ";") + "]"
}

// ---------- one case ----------

type c14cStamps struct {
	Dig  int   `json:"dig"`
	Runs []int `json:"runs"`
}

func (e *c14cEnv) stamps(idRun map[string]int) []c14cStamps {
	var out []c14cStamps
	for i, dg := range e.digests {
		key := base.AttPrefix + dg
		if _, _, err := base.GetBaseDataStore(e.ds).GetRaw(e.ctx, key); err != nil {
			continue
		}
		st := c14cStamps{Dig: i + 1, Runs: []int{}}
		xa, _, xerr := base.GetBaseDataStore(e.ds).GetXattrs(e.ctx, key, []string{base.AttachmentCompactionXattrName})
		if xerr == nil && len(xa[base.AttachmentCompactionXattrName]) > 0 {
			var x map[string]map[string]any
			_ = json.Unmarshal(xa[base.AttachmentCompactionXattrName], &x)
			for id := range x[CompactionIDKey] {
				if n, ok := idRun[id]; ok {
					st.Runs = append(st.Runs, n)
				} else {
					st.Runs = append(st.Runs, 99)
				}
			}
			sort.Ints(st.Runs)
		}
		out = append(out, st)
	}
	return out
}

var c14cSigCount = map[string]int{}

func (e *c14cEnv) fail(monitor, sig string, input any, detail string) {
	c14cSigCount[sig]++
	if c14cSigCount[sig] > 3 {
		return
	}
	e.rec.Fail(monitor, sig, input, detail)
}

func c14cHas(l []int, x int) bool {
	for _, y := range l {
		if y == x {
			return true
		}
	}
	return false
}

func c14cSame(a, b []int) bool {
	if len(a) != len(b) {
		return false
	}
	for _, x := range a {
		if !c14cHas(b, x) {
			return false
		}
	}
	return true
}

func c14cRunCase(t *testing.T, rec *vRecorder, caseN int, stream string, c c14cCorpus, runs []c14cRun) {
	e := c14cNewEnv(t, rec)
	defer e.close()
	e.writeCorpus(caseN, &c)
	docs, bodies := e.structure()
	var obs []c14cRunObs
	input := func() any { return e.failInput(&c, runs, obs) }

	refs := e.readRefs(&c, runs, obs, "before the first run")
	// self-check: the legacy digests a reader reaches through the leaves of a document are those its stored
	// revision bodies list (what C14/Compaction.v calls referenced)
	for di, st := range docs {
		want := map[int]bool{}
		add := func(m map[string][2]int) {
			for _, x := range m {
				if x[1] == AttVersion1 {
					want[x[0]] = true
				}
			}
		}
		add(st.win)
		for _, m := range st.inl {
			add(m)
		}
		for _, s := range st.ext {
			add(bodies[s])
		}
		got := map[int]bool{}
		for _, r := range refs {
			if r.Doc == di && r.Ver == AttVersion1 {
				got[r.Dig] = true
			}
		}
		if fmt.Sprint(want) != fmt.Sprint(got) {
			e.fail("compaction_selfcheck", "compaction-corpus-selfcheck", input(), fmt.Sprintf("document %d: stored bodies list legacy digests %v, the read path reaches %v", di, want, got))
		}
		if !st.flag && (len(st.inl) > 0 || len(st.ext) > 0) {
			for _, m := range append(append([]map[string][2]int{}, st.inl...), func() []map[string][2]int {
				var o []map[string][2]int
				for _, s := range st.ext {
					o = append(o, bodies[s])
				}
				return o
			}()...) {
				for _, x := range m {
					if x[1] == AttVersion1 {
						e.fail("compaction_selfcheck", "compaction-corpus-flag", input(), fmt.Sprintf("document %d lists a legacy attachment in a non-winning body but carries no Conflict flag", di))
					}
				}
			}
		}
	}

	idRun := map[string]int{}
	var coqRuns []string
	prevCompletedLive := false // previous run completed and was not a dry run
	nontrivial := false
	for ri, r := range runs {
		before, _, _ := e.listAtts()
		o := e.run(r)
		if _, ok := idRun[e.lastID]; !ok {
			idRun[e.lastID] = ri + 1
		}
		resumed := idRun[e.lastID] != ri+1
		o.Resumed = resumed
		obs = append(obs, o)
		completed := o.State == string(BackgroundProcessStateCompleted)
		if !completed && o.State != string(BackgroundProcessStateError) {
			e.fail("compaction_status", "compaction-unexpected-state", input(), "state "+o.State)
		}
		stamps := e.stamps(idRun)
		var rem []string
		for _, s := range stamps {
			rem = append(rem, fmt.Sprintf("(%d, %s)", s.Dig, c14cInts(s.Runs)))
		}
		coqRuns = append(coqRuns, fmt.Sprintf("(CRun %s %s %s %s, CObs %s %d %d %s)", cqBool(r.Reset), cqBool(r.Dry), c14cInts(r.ReadFail), c14cInts(r.StampFail),
			cqBool(completed), o.Marked, o.Purged, cqList(rem)))

		// --- monitors (reflections of the theorems of C14_Properties.v on what the implementation did) ---
		lost := func(g int) bool { return c14cHas(before, g) && !c14cHas(o.Remain, g) }
		// compaction_safety: a legacy attachment a reader reached through a leaf before the run is still there
		for _, ref := range refs {
			if ref.Ver != AttVersion1 || !lost(ref.Dig) {
				continue
			}
			sig := c14cSigPurged
			switch {
			case resumed:
				sig = "compaction-resume-after-failed-mark-purges-referenced"
			case docs[ref.Doc].clash[ref.Dig]:
				sig = c14cSigSameName
			}
			e.fail("compaction_safety", sig, input(), fmt.Sprintf("run %d (%s): _sync:att:%s purged although document %d revision %s references it as %q",
				ri+1, o.State, e.digests[ref.Dig-1], ref.Doc, ref.Rev, ref.Name))
		}
		if !completed && (o.Purged != 0 || !c14cSame(before, o.Remain)) {
			e.fail("compaction_safety", "compaction-failed-run-purged", input(), fmt.Sprintf("run %d ended in state %s but purged %d (before %v, after %v)", ri+1, o.State, o.Purged, before, o.Remain))
		}
		if o.Hits > 0 && !c14cSame(before, o.Remain) {
			e.fail("compaction_safety", "compaction-faulted-run-purged", input(), fmt.Sprintf("run %d hit %d injected storage error(s), ended %s and purged: before %v, after %v", ri+1, o.Hits, o.State, before, o.Remain))
		}
		if r.Dry && !resumed && !c14cSame(before, o.Remain) {
			e.fail("compaction_dry_run", "compaction-dry-run-purged", input(), fmt.Sprintf("run %d (dry): before %v, after %v", ri+1, before, o.Remain))
		}
		// compaction_cleanup: fault-free, completed, real run with a new id: exactly the unreferenced ones are gone
		if completed && !resumed && !r.Dry && len(r.ReadFail)+len(r.StampFail) == 0 {
			for _, g := range before {
				referenced := false
				for _, ref := range refs {
					if ref.Ver == AttVersion1 && ref.Dig == g {
						referenced = true
					}
				}
				if !referenced && c14cHas(o.Remain, g) {
					e.fail("compaction_cleanup", "compaction-unreferenced-attachment-survives", input(), fmt.Sprintf("run %d: _sync:att:%s is referenced by no leaf and survived", ri+1, e.digests[g-1]))
				}
			}
			for _, s := range stamps {
				if c14cHas(s.Runs, ri+1) {
					e.fail("compaction_cleanup", "compaction-xattr-left-behind", input(), fmt.Sprintf("run %d: _sync:att:%s still carries the run's compaction id", ri+1, e.digests[s.Dig-1]))
				}
			}
			if int(o.Purged) != len(before)-len(o.Remain) {
				e.fail("compaction_cleanup", "compaction-purged-count", input(), fmt.Sprintf("run %d reports %d purged, %d documents disappeared", ri+1, o.Purged, len(before)-len(o.Remain)))
			}
		}
		// compaction_idempotent
		if prevCompletedLive && (!c14cSame(before, o.Remain) || (completed && o.Purged != 0)) {
			e.fail("compaction_idempotent", "compaction-not-idempotent", input(), fmt.Sprintf("run %d follows a completed run and purged %d (before %v, after %v)", ri+1, o.Purged, before, o.Remain))
		}
		if len(r.ReadFail)+len(r.StampFail) > 0 || resumed || o.Purged > 0 {
			nontrivial = true
		}
		// (a resumed run keeps the dry-run flag of the run it resumes)
		prevCompletedLive = completed && !runs[idRun[e.lastID]-1].Dry
		// reading back after the run: whatever is still there is byte-identical
		_ = e.readRefs(&c, runs, obs, fmt.Sprintf("after run %d", ri+1))
	}

	var cdocs, cbodies []string
	hasConflictAtt := false
	for _, st := range docs {
		var inl []string
		for _, m := range st.inl {
			inl = append(inl, c14cMapToCoq(m))
			for _, x := range m {
				if x[1] == AttVersion1 {
					hasConflictAtt = true
				}
			}
		}
		cdocs = append(cdocs, fmt.Sprintf("CpDoc %s %s %s %s", cqBool(st.flag), c14cMapToCoq(st.win), cqList(inl), c14cInts(st.ext)))
	}
	var slots []int
	for s := range bodies {
		slots = append(slots, s)
	}
	sort.Ints(slots)
	for _, s := range slots {
		cbodies = append(cbodies, fmt.Sprintf("(%d, %s)", s, c14cMapToCoq(bodies[s])))
		for _, x := range bodies[s] {
			if x[1] == AttVersion1 {
				hasConflictAtt = true
			}
		}
	}
	coq := fmt.Sprintf("CCompact %s %s %s %s", cqList(cdocs), cqList(cbodies), c14cInts(c.Present), cqList(coqRuns))
	rec.Case(stream, "compaction", coq, map[string]any{"corpus": c, "runs": runs, "observed": obs}, nontrivial && hasConflictAtt)
	for _, o := range obs {
		rec.Err("compaction:" + o.State)
	}
}

// ---------- generators ----------

func c14cA(n, d int) c14cAtt { return c14cAtt{Name: n, Dig: d} }

// every single fault of the corpus (fresh id each), then a fault-free run, then one more
func c14cSingleFaultRuns(c *c14cCorpus) []c14cRun {
	var runs []c14cRun
	slot := 0
	for _, d := range c.Docs {
		for _, l := range d.Others {
			if l.Ext && !l.Deleted {
				runs = append(runs, c14cRun{Reset: true, ReadFail: []int{slot}})
				slot++
			}
		}
	}
	for _, g := range c.Present {
		runs = append(runs, c14cRun{Reset: true, StampFail: []int{g}})
	}
	runs = append(runs, c14cRun{Reset: true}, c14cRun{})
	return runs
}

func c14cCorpusCases() []struct {
	name string
	c    c14cCorpus
	runs []c14cRun
} {
	A := c14cA
	type cs = struct {
		name string
		c    c14cCorpus
		runs []c14cRun
	}
	seeded := c14cCorpus{Docs: []c14cDoc{{Win: nil, Others: []c14cLeaf{{Atts: []c14cAtt{A(0, 1)}, Ext: true}}}}, Present: []int{1}}
	mixed := c14cCorpus{Docs: []c14cDoc{
		{Win: []c14cAtt{A(0, 1)}, Others: []c14cLeaf{{Atts: []c14cAtt{A(1, 2)}}, {Atts: []c14cAtt{A(2, 3)}, Ext: true}}},
		{Win: []c14cAtt{A(0, 3)}},
		{WinDeleted: true, Others: []c14cLeaf{{Deleted: true}}},
	}, Present: []int{1, 2, 3, 4}}
	return []cs{
		// the repository's own bodyKeyMap scenario: the only reference to the data is an out-of-line non-winning body
		{"out-of-line-leaf-only-reference", seeded, c14cSingleFaultRuns(&seeded)},
		{"mixed", mixed, c14cSingleFaultRuns(&mixed)},
		{"shared-digest-two-documents", c14cCorpus{Docs: []c14cDoc{
			{Win: []c14cAtt{A(0, 1)}, Others: []c14cLeaf{{Atts: []c14cAtt{A(0, 1), A(1, 2)}, Ext: true}}},
			{Win: []c14cAtt{A(1, 2)}, Others: []c14cLeaf{{Atts: []c14cAtt{A(1, 2)}}}}}, Present: []int{1, 2, 5}},
			[]c14cRun{{Reset: true, ReadFail: []int{0}}, {Reset: true, StampFail: []int{2}}, {Reset: true, Dry: true}, {Reset: true}, {}}},
		{"tombstoned-and-deleted-branch", c14cCorpus{Docs: []c14cDoc{
			{WinDeleted: true, Others: []c14cLeaf{{Deleted: true}}},
			{Win: []c14cAtt{A(0, 2)}, Others: []c14cLeaf{{Deleted: true}, {Atts: []c14cAtt{A(1, 3)}, Ext: true}}}}, Present: []int{1, 2, 3}},
			[]c14cRun{{Reset: true, ReadFail: []int{0}}, {Reset: true}, {Reset: true}}},
		{"missing-body-dangling-v2", c14cCorpus{Docs: []c14cDoc{
			{Win: []c14cAtt{A(0, 1), {Name: 1, Dig: 2, V2: true}}, Others: []c14cLeaf{{Atts: []c14cAtt{A(1, 3)}, Ext: true, Missing: true}}},
			{Win: []c14cAtt{A(0, 4)}}}, Present: []int{1, 2, 3}},
			[]c14cRun{{Reset: true, ReadFail: []int{0}}, {Reset: true}, {Reset: true}}},
		// the same attachment name on several bodies of one document, different content (the defect repaired by commit
		// 360f98e: the mark map was keyed by the name; signature compaction-same-name-leaf-attachment-unmarked)
		{"same-name-winner-and-leaf", c14cCorpus{Docs: []c14cDoc{{Win: []c14cAtt{A(0, 1)}, Others: []c14cLeaf{{Atts: []c14cAtt{A(0, 2)}}}}}, Present: []int{1, 2}},
			[]c14cRun{{Reset: true}}},
		{"same-name-inline-and-out-of-line", c14cCorpus{Docs: []c14cDoc{{Win: nil, Others: []c14cLeaf{{Atts: []c14cAtt{A(1, 1)}}, {Atts: []c14cAtt{A(1, 2)}, Ext: true}}}}, Present: []int{1, 2}},
			[]c14cRun{{Reset: true}}},
		{"same-name-two-inline-leaves", c14cCorpus{Docs: []c14cDoc{{Win: []c14cAtt{A(2, 3)}, Others: []c14cLeaf{{Atts: []c14cAtt{A(0, 1)}}, {Atts: []c14cAtt{A(0, 2)}}}}}, Present: []int{1, 2, 3, 4}},
			[]c14cRun{{Reset: true, StampFail: []int{2}}, {Reset: true}, {}}},
		{"same-name-two-out-of-line-leaves", c14cCorpus{Docs: []c14cDoc{{Win: []c14cAtt{A(0, 3)}, Others: []c14cLeaf{{Atts: []c14cAtt{A(0, 1), A(1, 4)}, Ext: true}, {Atts: []c14cAtt{A(0, 2), A(1, 5)}, Ext: true}}}}, Present: []int{1, 2, 3, 4, 5}},
			[]c14cRun{{Reset: true, ReadFail: []int{1}}, {Reset: true}, {}}},
		// known finding: start again (no reset) after a mark phase that failed
		{"resume-after-failed-read", mixed, []c14cRun{{Reset: true, ReadFail: []int{0}}, {}, {Reset: true}}},
		{"resume-after-failed-stamp", c14cCorpus{Docs: []c14cDoc{{Win: []c14cAtt{A(0, 1)}}, {Win: []c14cAtt{A(0, 2)}}, {Win: []c14cAtt{A(0, 3)}}}, Present: []int{1, 2, 3, 4}},
			[]c14cRun{{Reset: true, StampFail: []int{2}}, {}, {}}},
		{"resume-dry-run", mixed, []c14cRun{{Reset: true, Dry: true, ReadFail: []int{0}}, {}, {Reset: true}}},
	}
}

func c14cShapes() []c14cDoc {
	A := c14cA
	return []c14cDoc{
		{Win: []c14cAtt{A(0, 1)}},
		{Win: []c14cAtt{A(0, 1)}, Others: []c14cLeaf{{Atts: []c14cAtt{A(1, 2)}}}},
		{Win: []c14cAtt{A(0, 1)}, Others: []c14cLeaf{{Atts: []c14cAtt{A(1, 2)}, Ext: true}}},
		{Win: nil, Others: []c14cLeaf{{Atts: []c14cAtt{A(0, 2)}}, {Atts: []c14cAtt{A(1, 3)}, Ext: true}}},
		{Win: []c14cAtt{A(0, 3)}, Others: []c14cLeaf{{Deleted: true}}},
		{WinDeleted: true, Others: []c14cLeaf{{Deleted: true}}},
		{Win: []c14cAtt{A(2, 2)}, Others: []c14cLeaf{{Atts: []c14cAtt{A(2, 2), A(0, 3)}, Ext: true}, {Atts: []c14cAtt{A(1, 1)}, Ext: true}}},
	}
}

func c14cRandomCorpus(r *vRand) c14cCorpus {
	var c c14cCorpus
	nd := 1 + r.Intn(4)
	if nd == 1 && r.Chance(60) {
		nd = 2
	}
	atts := func(max int) []c14cAtt {
		var out []c14cAtt
		n := r.Intn(max + 1)
		used := map[int]bool{}
		for i := 0; i < n; i++ {
			nm := r.Intn(3)
			if used[nm] {
				continue
			}
			used[nm] = true
			out = append(out, c14cAtt{Name: nm, Dig: 1 + r.Intn(5), V2: r.Chance(12)})
		}
		return out
	}
	for i := 0; i < nd; i++ {
		var d c14cDoc
		switch k := r.Intn(10); {
		case k < 2:
			d.Win = atts(2)
		case k < 8:
			d.Win = atts(2)
			no := 1 + r.Intn(2)
			for j := 0; j < no; j++ {
				l := c14cLeaf{Atts: atts(2), Ext: r.Chance(55)}
				if l.Ext && r.Chance(10) {
					l.Missing = true
				}
				if r.Chance(12) {
					l = c14cLeaf{Deleted: true}
				}
				d.Others = append(d.Others, l)
			}
		default:
			d.WinDeleted = true
			for j := 0; j < r.Intn(3); j++ {
				d.Others = append(d.Others, c14cLeaf{Deleted: true})
			}
		}
		// (the same attachment name on several bodies of a document, same storage kind or not, is generated freely: since
		// commit 360f98e the mark map is keyed by the data document id and the outcome does not depend on map order)
		c.Docs = append(c.Docs, d)
	}
	for g := 1; g <= 5; g++ {
		if r.Chance(75) {
			c.Present = append(c.Present, g)
		}
	}
	return c
}

func c14cRandomRuns(r *vRand, c *c14cCorpus) []c14cRun {
	slots := 0
	for _, d := range c.Docs {
		for _, l := range d.Others {
			if l.Ext && !l.Deleted {
				slots++
			}
		}
	}
	n := 1 + r.Intn(4)
	var runs []c14cRun
	for i := 0; i < n; i++ {
		run := c14cRun{Reset: r.Chance(75), Dry: r.Chance(12)}
		if slots > 0 && r.Chance(45) {
			for s := 0; s < slots; s++ {
				if r.Chance(50) {
					run.ReadFail = append(run.ReadFail, s)
				}
			}
		}
		if r.Chance(25) {
			for g := 1; g <= 5; g++ {
				if r.Chance(30) {
					run.StampFail = append(run.StampFail, g)
				}
			}
		}
		runs = append(runs, run)
	}
	return runs
}

// c14Compaction is called by TestVerifC14
func c14Compaction(t *testing.T, rec *vRecorder, r *vRand) {
	caseN := 0
	for _, cs := range c14cCorpusCases() {
		caseN++
		c14cRunCase(t, rec, caseN, "compact-corpus", cs.c, cs.runs)
	}
	// bounded-exhaustive: every ordered pair of document shapes (and every single shape), every single fault
	shapes := c14cShapes()
	nExh := 0
	for i := range shapes {
		for j := -1; j < len(shapes); j++ {
			if j >= 0 && !vThorough() && (i*len(shapes)+j)%2 == 1 {
				continue // quick tier: half of the pairs
			}
			c := c14cCorpus{Docs: []c14cDoc{shapes[i]}, Present: []int{1, 2, 3, 4}}
			if j >= 0 {
				c.Docs = append(c.Docs, shapes[j])
			}
			caseN++
			nExh++
			c14cRunCase(t, rec, caseN, "compact-exhaustive", c, c14cSingleFaultRuns(&c))
		}
	}
	n := vBudget(220, 1500)
	for i := 0; i < n; i++ {
		c := c14cRandomCorpus(r)
		caseN++
		c14cRunCase(t, rec, caseN, "compact-random", c, c14cRandomRuns(r, &c))
	}
	rec.Extra("compaction_exhaustive_scope", fmt.Sprintf("%d corpora: every single document shape and (quick: half of) every ordered pair out of %d shapes, each with every single read fault, every single stamp fault, a fault-free run and one more", nExh, len(shapes)))
}
