//go:build verif

package db

import (
	"context"
	"fmt"
	"sort"
	"strconv"
	"strings"
	"sync"
	"time"

	sgbucket "github.com/couchbase/sg-bucket"
	"github.com/couchbase/sync_gateway/base"
	"github.com/couchbase/sync_gateway/channels"
)

// C01: deduplicated mutations through the REAL changeCache.DocChanged of the system scenarios.
//
// The caching feed of a real server delivers only the latest mutation of a key: rapid updates of one document
// arrive as ONE event, and DocChanged reconstructs the others from _sync.recent_sequences (a removal from a
// channel becomes a removal entry, anything else an unused sequence).  rosmar does not deduplicate, so the harness
// does it the way the server does: a gate in front of DocChanged (mutationListener.OnChangeCallback) can HOLD the
// events of one document while the writer keeps updating it (other documents pass), and on release hands only the
// LAST held event to the real DocChanged.  Every document event handed on is recorded with the sync metadata it
// carries, the cache's next sequence and the recent sequences found in the skipped list; a decorator around the
// change cache's ChannelCache records every entry that reaches AddToCache.  Model: Dedup.v (doc_changed).

type c01DedupEvent struct {
	Doc     uint64
	DocID   string
	Seq     uint64
	Rev     string
	Del     bool
	Recent  []uint64
	Unused  []uint64
	Chans   channels.ChannelMap
	Next    uint64
	Skipped []uint64
	Coll    uint32
	Deduped int // events of the same document dropped in front of this one
}

type c01Delivery struct {
	Coll    uint32
	Seq     uint64
	DocID   string
	Rev     string
	Del     bool
	Chans   channels.ChannelMap
}

type c01RecCache struct {
	ChannelCache
	mu  sync.Mutex
	log []c01Delivery
}

func (rc *c01RecCache) AddToCache(ctx context.Context, change *LogEntry) []channels.ID {
	cm := channels.ChannelMap{}
	for k, v := range change.Channels {
		if v == nil {
			cm[k] = nil
		} else {
			cp := *v
			cm[k] = &cp
		}
	}
	rc.mu.Lock()
	rc.log = append(rc.log, c01Delivery{Coll: change.CollectionID, Seq: change.Sequence, DocID: change.DocID, Rev: change.RevID, Del: change.Flags&channels.Deleted != 0, Chans: cm})
	rc.mu.Unlock()
	return rc.ChannelCache.AddToCache(ctx, change)
}

type c01Gate struct {
	s       *c01Sys
	orig    DocChangedFunc
	mu      sync.Mutex // held / buffered
	held    map[string]bool
	seen    map[string]int // document mutations that have reached the gate, per key
	buf     map[string][]sgbucket.FeedEvent
	callMu  sync.Mutex // serialises every DocChanged call: the snapshots below are exact
	events  []c01DedupEvent
	deletedRebuilt map[uint64]bool // sequences of deduplicated DELETIONS reconstructed as removal entries
}

func c01CopyEvent(ev sgbucket.FeedEvent) sgbucket.FeedEvent {
	ev.Key = append([]byte{}, ev.Key...)
	ev.Value = append([]byte{}, ev.Value...)
	return ev
}

func (g *c01Gate) onEvent(ev sgbucket.FeedEvent, dt DocumentType) {
	if dt == DocTypeDocument {
		g.mu.Lock()
		g.seen[string(ev.Key)]++
		if g.held[string(ev.Key)] {
			g.buf[string(ev.Key)] = append(g.buf[string(ev.Key)], c01CopyEvent(ev))
			g.mu.Unlock()
			return
		}
		g.mu.Unlock()
	}
	g.deliver(ev, dt, 0)
}

func (g *c01Gate) deliver(ev sgbucket.FeedEvent, dt DocumentType, deduped int) {
	g.callMu.Lock()
	defer g.callMu.Unlock()
	if dt == DocTypeDocument && strings.HasPrefix(string(ev.Key), "doc") && ev.DataType&base.MemcachedDataTypeXattr != 0 {
		if _, sd, err := UnmarshalDocumentSyncDataFromFeed(ev.Value, ev.DataType, "", false); err == nil && sd != nil {
			cc := &g.s.db.changeCache
			e := c01DedupEvent{DocID: string(ev.Key), Seq: sd.Sequence, Rev: sd.GetRevTreeID(), Del: sd.Flags&channels.Deleted != 0, Recent: append([]uint64{}, sd.RecentSequences...),
				Unused: append([]uint64{}, sd.UnusedSequences...), Chans: sd.Channels, Next: cc.getNextSequence(), Coll: ev.CollectionID, Deduped: deduped}
			e.Doc, _ = strconv.ParseUint(strings.TrimPrefix(e.DocID, "doc"), 10, 64)
			for _, q := range sd.RecentSequences {
				if cc.WasSkipped(q) {
					e.Skipped = append(e.Skipped, q)
				}
			}
			g.events = append(g.events, e)
			// sequences DocChanged is about to reconstruct as removals made by a DELETION
			cur := e.Seq
			if len(e.Unused) > 0 {
				cur = e.Unused[0]
			}
			for _, q := range e.Recent {
				sk := false
				for _, k := range e.Skipped {
					sk = sk || k == q
				}
				if q < cur && (q >= e.Next || sk) {
					for _, rm := range e.Chans {
						if rm != nil && rm.Seq == q && rm.Deleted {
							g.deletedRebuilt[q] = true
						}
					}
				}
			}
		}
	}
	g.orig(ev, dt)
}

// closes the gate for the document once every mutation written so far has passed it (a feed delivers the mutations
// of one key in order: an older mutation still in flight must not be mistaken for one of the rapid updates)
func (g *c01Gate) hold(docid string, writtenSoFar int) {
	for dl := time.Now().Add(10 * time.Second); time.Now().Before(dl); {
		g.mu.Lock()
		n := g.seen[docid]
		g.mu.Unlock()
		if n >= writtenSoFar {
			break
		}
		time.Sleep(time.Millisecond)
	}
	g.mu.Lock()
	g.held[docid] = true
	g.mu.Unlock()
}

// hands the LAST held event of the document to DocChanged (the others were deduplicated by the "server")
func (g *c01Gate) release(docid string, written int) {
	// every mutation written while the gate was closed must have reached the gate first
	for dl := time.Now().Add(10 * time.Second); time.Now().Before(dl); {
		g.mu.Lock()
		n := len(g.buf[docid])
		g.mu.Unlock()
		if n >= written {
			break
		}
		time.Sleep(time.Millisecond)
	}
	g.mu.Lock()
	evs := g.buf[docid]
	delete(g.buf, docid)
	delete(g.held, docid)
	g.mu.Unlock()
	if len(evs) == 0 {
		return
	}
	if len(evs) > 1 {
		g.s.rec.Err("deduplicated-mutations")
	}
	g.deliver(evs[len(evs)-1], DocTypeDocument, len(evs)-1)
}

func (s *c01Sys) installGate() {
	cc := &s.db.changeCache // a struct field, not a pointer
	s.impl, _ = cc.channelCache.(*channelCacheImpl)
	s.recCache = &c01RecCache{ChannelCache: cc.channelCache}
	cc.channelCache = s.recCache
	s.gate = &c01Gate{s: s, orig: cc.DocChanged, held: map[string]bool{}, seen: map[string]int{}, buf: map[string][]sgbucket.FeedEvent{}, deletedRebuilt: map[uint64]bool{}}
	s.db.mutationListener.OnChangeCallback = s.gate.onEvent
}

// rapid updates of one document whose mutations the feed deduplicates; writes of other documents in between pass
func (s *c01Sys) rapid(r *vRand, docN uint64) {
	docid := fmt.Sprintf("doc%d", docN)
	before := 0
	for _, h := range s.hist {
		if h.Doc == docN {
			before++
		}
	}
	s.gate.hold(docid, before)
	written := 0
	for i, n := 0, 2+r.Intn(2); i < n; i++ {
		h0 := len(s.hist)
		s.write(r, docN)
		if len(s.hist) > h0 {
			written++
		}
		if r.Chance(35) {
			other := 1 + uint64(r.Intn(4))
			if other != docN {
				s.write(r, other)
			}
		}
	}
	s.gate.release(docid, written)
	s.rec.Err("rapid-update")
}

// ---------- monitors + the correspondence case, at the end of a scenario (quiescent) ----------
func (s *c01Sys) chanMapCoq(cm channels.ChannelMap, withRev bool) (string, string) {
	type ent struct {
		id  uint64
		str string
		d   string
	}
	var l []ent
	for name, rm := range cm {
		id := c01ChanID(name)
		switch {
		case rm == nil:
			l = append(l, ent{id, fmt.Sprintf("(%d, None)", id), name})
		case withRev:
			dl := ""
			if rm.Deleted {
				dl = "x"
			}
			l = append(l, ent{id, fmt.Sprintf("(%d, Some (%d, %d, %s))", id, rm.Seq, s.revID(rm.Rev.RevTreeID), cqBool(rm.Deleted)), fmt.Sprintf("%s-@%d%s", name, rm.Seq, dl)})
		default:
			l = append(l, ent{id, fmt.Sprintf("(%d, Some %d)", id, rm.Seq), fmt.Sprintf("%s-@%d", name, rm.Seq)})
		}
	}
	sort.Slice(l, func(i, j int) bool { return l[i].id < l[j].id })
	p, d := make([]string, len(l)), make([]string, len(l))
	for i, e := range l {
		p[i], d[i] = e.str, e.d
	}
	return cqList(p), "[" + strings.Join(d, " ") + "]"
}

type c01DedupDesc struct {
	Cache      string   `json:"cache"`
	Collection uint32   `json:"collection_id"`
	Events     []string `json:"feed_events"`
	Delivered  []string `json:"entries_added_to_the_channel_caches"`
}

func (s *c01Sys) dedupCheck() {
	if s.gate == nil {
		return
	}
	s.db.WaitForPendingChanges(s.t)
	coll := s.col.GetCollectionID()
	s.gate.callMu.Lock()
	events := append([]c01DedupEvent{}, s.gate.events...)
	s.gate.callMu.Unlock()
	s.recCache.mu.Lock()
	log := append([]c01Delivery{}, s.recCache.log...)
	s.recCache.mu.Unlock()

	// first delivery per sequence, ascending
	first := map[uint64]c01Delivery{}
	var seqs []uint64
	for _, d := range log {
		if !strings.HasPrefix(d.DocID, "doc") {
			continue
		}
		if _, ok := first[d.Seq]; !ok {
			first[d.Seq] = d
			seqs = append(seqs, d.Seq)
		}
	}
	sort.Slice(seqs, func(i, j int) bool { return seqs[i] < seqs[j] })
	desc := c01DedupDesc{Cache: s.cfg, Collection: coll}
	var evCoq, obsCoq []string
	nontrivial := false
	for _, e := range events {
		cm, cd := s.chanMapCoq(e.Chans, true)
		evCoq = append(evCoq, fmt.Sprintf("(%d, SD %d %d %s %s %s %s, %d, %s)", e.Doc, e.Seq, s.revID(e.Rev), cqBool(e.Del), cqNList(e.Recent), cqNList(e.Unused), cm, e.Next, cqNList(e.Skipped)))
		desc.Events = append(desc.Events, fmt.Sprintf("%s #%d recent%v unused%v channels%s next=%d skipped%v deduplicated=%d", e.DocID, e.Seq, e.Recent, e.Unused, cd, e.Next, e.Skipped, e.Deduped))
		if e.Deduped > 0 {
			nontrivial = true
		}
	}
	for _, q := range seqs {
		d := first[q]
		n, _ := strconv.ParseUint(strings.TrimPrefix(d.DocID, "doc"), 10, 64)
		cm, cd := s.chanMapCoq(d.Chans, false)
		obsCoq = append(obsCoq, fmt.Sprintf("DE %d %d %d %d %s %s", d.Coll, d.Seq, n, s.revID(d.Rev), cqBool(d.Del), cm))
		desc.Delivered = append(desc.Delivered, fmt.Sprintf("collection %d #%d %s deleted=%v channels%s", d.Coll, d.Seq, d.DocID, d.Del, cd))
	}
	s.rec.Case("system", "feed-events", fmt.Sprintf("CDedup %d %s %s", coll, cqList(evCoq), cqList(obsCoq)), desc, nontrivial)

	// Go-side reflections of C01_dedup_keeps_collection and C01_dedup_delivers_removal
	for _, d := range log {
		if strings.HasPrefix(d.DocID, "doc") && d.Coll != coll {
			s.fail("dedup_reconstruction", "entry-lost-its-collection", desc,
				fmt.Sprintf("the entry #%d of %s reached AddToCache with collection id %d, the document lives in collection %d: it is cached for, and wakes, channels of another collection", d.Seq, d.DocID, d.Coll, coll))
		}
	}
	for _, e := range events {
		cur := e.Seq
		if len(e.Unused) > 0 {
			cur = e.Unused[0]
		}
		for name, rm := range e.Chans {
			if rm == nil || rm.Seq >= cur {
				continue
			}
			listed, skipped := false, false
			for _, q := range e.Recent {
				if q == rm.Seq {
					listed = true
				}
			}
			for _, q := range e.Skipped {
				if q == rm.Seq {
					skipped = true
				}
			}
			if !listed || !(e.Next <= rm.Seq || skipped) {
				continue
			}
			d, ok := first[rm.Seq]
			r2, in := d.Chans[name]
			if !ok || d.DocID != e.DocID || !in || r2 == nil || r2.Seq != rm.Seq || d.Rev != rm.Rev.RevTreeID {
				s.fail("dedup_reconstruction", "deduplicated-removal-not-delivered", desc,
					fmt.Sprintf("%s left channel %q at #%d; that mutation was deduplicated (event #%d, next sequence %d) but no removal entry for it reached the channel caches", e.DocID, name, rm.Seq, e.Seq, e.Next))
			}
		}
	}
}

// cc_inv of every per-channel cache of the REAL database against the write history (system-level instance of
// C01_cache_invariant_all_op_lists at quiescence): ascending, only real entries, complete from validFrom upwards
func (s *c01Sys) systemCacheInv(phase string) {
	if s.impl == nil {
		return
	}
	for id, name := range c01ChanNames {
		sc, ok := s.impl.getActiveChannelCache(s.ctx, channels.NewID(name, s.col.GetCollectionID()))
		if !ok {
			continue
		}
		sc.lock.RLock()
		vf := sc.validFrom
		var logs []c01E
		for _, le := range sc.logs {
			if !strings.HasPrefix(le.DocID, "doc") {
				continue
			}
			n, _ := strconv.ParseUint(strings.TrimPrefix(le.DocID, "doc"), 10, 64)
			logs = append(logs, c01E{Seq: le.Sequence, Doc: n, Rev: s.revID(le.RevID), Rm: le.Flags&channels.Removed != 0})
		}
		sc.lock.RUnlock()
		s.rec.Err("system-cache-inspected")
		truth := c01Latest(s.chanLog(uint64(id)))
		input := map[string]any{"history": s.histDesc(), "cache": s.cfg, "phase": phase, "channel": name, "valid_from": vf, "cached": c01EsString(logs)}
		for i, e := range logs {
			if i > 0 && logs[i-1].Seq >= e.Seq {
				s.fail("system_cc_inv.ascending", "channel-cache", input, "cached entries not strictly ascending")
			}
		}
		for _, e := range truth {
			if e.Seq < vf || e.Seq > s.maxSeq {
				continue
			}
			found := false
			for _, l := range logs {
				if l.Seq == e.Seq && l.Doc == e.Doc && l.Rm == e.Rm {
					found = true
				}
			}
			if !found {
				kind := "entry"
				if e.Rm {
					kind = "removal"
				}
				s.fail("system_cc_inv.complete_above_valid_from", kind, input,
					fmt.Sprintf("channel %q: the %s #%d of doc%d is the document's latest entry in the channel, at or above validFrom %d, every write has been delivered, but the warm cache does not hold it (a cold cache returns it)", name, kind, e.Seq, e.Doc, vf))
			}
		}
	}
}

// A defect this check found and /repo repaired (commit 1bb148f; C01_Refuted.v keeps the witness on the old-code
// instance of the model): the removal entry reconstructed for a deduplicated DELETION lacked the Deleted flag, so a
// row served from a warm cache said {removed} where the channel query -- and the specification -- say {deleted,
// removed}.  Such a row is reported under its own stable signature; the rows are NOT altered, so on a tree without
// the repair the generic monitors and the correspondence fail as well.
func (s *c01Sys) reportRebuiltDeletion(what string, rows []c01Row) []c01Row {
	if s.gate == nil {
		return rows
	}
	for i, r := range rows {
		if r.Del || len(r.Rm) == 0 || r.ID > 100 {
			continue
		}
		s.gate.callMu.Lock()
		rebuilt := s.gate.deletedRebuilt[r.S]
		s.gate.callMu.Unlock()
		histDel := false
		for _, h := range s.hist {
			if h.Seq == r.S && h.Doc == r.ID && h.Del {
				histDel = true
			}
		}
		if rebuilt && histDel {
			s.fail("dedup_reconstruction", "deduplicated-deletion-removal-lacks-deleted-flag", map[string]any{"history": s.histDesc(), "request": what, "cache": s.cfg},
				fmt.Sprintf("row %s: doc%d was DELETED at #%d (leaving the channels %v); that mutation was deduplicated on the feed and the removal entry reconstructed from recent_sequences carries no Deleted flag: the warm cache answers without deleted:true, a cold cache (channel query) with it", r, r.ID, r.S, c01ChanStrings(r.Rm)))
			_ = i
		}
	}
	return rows
}
