//go:build verif

package db

import (
	"fmt"
	"strconv"
	"testing"

	"github.com/couchbase/sync_gateway/base"
)

// C20 correspondence + monitors on the real db.SequenceID.
func c20Tok(s SequenceID) string {
	return "(T " + cqN(s.TriggeredBy) + " " + cqN(s.LowSeq) + " " + cqN(s.Seq) + ")"
}
func c20Desc(s SequenceID) map[string]uint64 {
	return map[string]uint64{"trig": s.TriggeredBy, "low": s.LowSeq, "seq": s.Seq}
}
func c20Form(s SequenceID) int {
	if s.LowSeq != 0 {
		return 2
	}
	if s.TriggeredBy != 0 {
		return 1
	}
	return 0
}

// result of a parse as the model's presult, plus the HTTP status the caller would send
func c20Parse(f func(string) (SequenceID, error), in string) (string, string, int) {
	v, err := f(in)
	if err == nil {
		return "(POk " + c20Tok(v) + ")", "ok", 200
	}
	st, _ := base.ErrorAsHTTPStatus(err)
	if st == 400 {
		return "E400", "400", st
	}
	return "ERaw", "other", st
}

func TestVerifC20(t *testing.T) {
	rec := vNewRecorder(t, "C20", "C20.C20_Corr")
	defer rec.Finish()
	rnd := vNewRand(vSeed())

	// ---- (i) exhaustive small cube: Before table + order-law monitors on the implementation ----
	var cube []SequenceID
	for tr := uint64(0); tr <= 4; tr++ {
		for lo := uint64(0); lo <= 4; lo++ {
			for sq := uint64(0); sq <= 4; sq++ {
				cube = append(cube, SequenceID{TriggeredBy: tr, LowSeq: lo, Seq: sq})
			}
		}
	}
	interesting := []uint64{0, 1, 2, 3, 1<<32 - 1, 1 << 32, 1<<32 + 1, 1 << 63, 1<<64 - 2, 1<<64 - 1}
	pick := func() uint64 {
		switch rnd.Intn(4) {
		case 0:
			return interesting[rnd.Intn(len(interesting))]
		case 1:
			return uint64(rnd.Intn(8))
		case 2:
			return uint64(rnd.Intn(1000))
		}
		return rnd.U64()
	}
	nRand := vBudget(90, 400)
	var rtoks []SequenceID
	for i := 0; i < nRand; i++ {
		s := SequenceID{Seq: pick()}
		if rnd.Chance(60) {
			s.TriggeredBy = pick()
		}
		if rnd.Chance(60) {
			s.LowSeq = pick()
		}
		// concentrate on near-collisions: copy a component from the previous token
		if len(rtoks) > 0 && rnd.Chance(50) {
			p := rtoks[rnd.Intn(len(rtoks))]
			switch rnd.Intn(6) {
			case 0:
				s.TriggeredBy = p.Seq
			case 1:
				s.LowSeq = p.TriggeredBy
			case 2:
				s.Seq = p.LowSeq
			case 3:
				s.LowSeq = p.LowSeq
			case 4:
				s.TriggeredBy = p.TriggeredBy
			case 5:
				s.Seq = p.Seq
			}
		}
		rtoks = append(rtoks, s)
	}
	table := func(stream string, toks []SequenceID, chunk int) {
		// monitors: the order laws evaluated on the implementation's own Before
		n := len(toks)
		bt := make([][]bool, n)
		for i := range toks {
			bt[i] = make([]bool, n)
			for j := range toks {
				bt[i][j] = toks[i].Before(toks[j])
				rec.Count(stream, "before_pair", fmt.Sprintf("%v|%v", toks[i], toks[j]), c20Form(toks[i]) != c20Form(toks[j]))
			}
		}
		for i := 0; i < n; i++ {
			if bt[i][i] {
				rec.Fail("before_irreflexive", "before-law", map[string]any{"a": c20Desc(toks[i])}, "a.Before(a) is true")
			}
			for j := 0; j < n; j++ {
				if bt[i][j] && bt[j][i] {
					rec.Fail("before_asymmetric", "before-law", map[string]any{"a": c20Desc(toks[i]), "b": c20Desc(toks[j])}, "a.Before(b) and b.Before(a)")
				}
				if i != j && toks[i] != toks[j] && !bt[i][j] && !bt[j][i] {
					rec.Fail("before_total", "before-law", map[string]any{"a": c20Desc(toks[i]), "b": c20Desc(toks[j])}, "distinct tokens are unordered")
				}
				if !bt[i][j] {
					continue
				}
				for k := 0; k < n; k++ {
					if bt[j][k] && !bt[i][k] {
						rec.Fail("before_transitive", "before-law", map[string]any{"a": c20Desc(toks[i]), "b": c20Desc(toks[j]), "c": c20Desc(toks[k])}, "a<b, b<c but not a<c")
					}
				}
			}
		}
		// correspondence: tables in chunks (one Coq case per chunk of tokens, all pairs inside the chunk)
		for lo := 0; lo < n; lo += chunk {
			hi := lo + chunk
			if hi > n {
				hi = n
			}
			var tk []string
			var rows []string
			mixed := false
			for i := lo; i < hi; i++ {
				tk = append(tk, c20Tok(toks[i]))
				var bs []string
				for j := lo; j < hi; j++ {
					bs = append(bs, cqBool(bt[i][j]))
					if c20Form(toks[i]) != c20Form(toks[j]) {
						mixed = true
					}
				}
				rows = append(rows, cqList(bs))
			}
			rec.Case(stream, "before_table", "CBeforeTable "+cqList(tk)+" "+cqList(rows), map[string]any{"tokens": hi - lo, "first": c20Desc(toks[lo])}, mixed)
		}
	}
	table("exhaustive", cube, 125)
	table("random", rtoks, 45)
	rec.Extra("before_cube_exhaustive", true)

	// ---- (ii) per-token functions: SafeSequence, String, MarshalJSON and the resume round trip ----
	all := append(append([]SequenceID{}, cube...), rtoks...)
	for idx, s := range all {
		stream := "exhaustive"
		if idx >= len(cube) {
			stream = "random"
		}
		nt := c20Form(s) != 0
		rec.Case(stream, "safe", "CSafe "+c20Tok(s)+" "+cqN(s.SafeSequence()), c20Desc(s), nt)
		str := s.String()
		rec.Case(stream, "print", "CPrint "+c20Tok(s)+" "+cqStr(str), map[string]any{"tok": c20Desc(s), "out": str}, nt)
		mj, _ := s.MarshalJSON()
		rec.Case(stream, "marshal", "CMarshal "+c20Tok(s)+" "+cqBytes(mj), map[string]any{"tok": c20Desc(s), "out": string(mj)}, nt)
		// monitor print_parse_resume on the implementation
		back, err := ParsePlainSequenceID(str)
		if err != nil {
			rec.Fail("print_parse_resume", "emitted-token-rejected", map[string]any{"tok": c20Desc(s), "printed": str}, "emitted token does not parse: "+err.Error())
		} else {
			backfill := s.TriggeredBy > 0 && s.Seq < s.TriggeredBy
			bad := back.SafeSequence() != s.SafeSequence() || back.Seq != s.Seq
			if backfill && back.TriggeredBy != s.TriggeredBy {
				bad = true
			}
			if !backfill && back.TriggeredBy != 0 {
				bad = true
			}
			if bad {
				rec.Fail("print_parse_resume", "resume-position-changed", map[string]any{"tok": c20Desc(s), "printed": str, "parsed": c20Desc(back)}, "parsed token denotes another resume position")
			}
		}
		var un SequenceID
		if err := un.UnmarshalJSON(mj); err != nil || un.String() != str {
			rec.Fail("json_roundtrip", "json-roundtrip", map[string]any{"tok": c20Desc(s), "json": string(mj)}, fmt.Sprintf("unmarshal(marshal) = %v err=%v", un, err))
		}
	}
	// emit_order_preserved monitor on the implementation: rows ordered by the merge loop, stamped, printed, parsed
	emitted := func(s SequenceID) bool { return s.LowSeq == 0 && (s.TriggeredBy == 0 || s.Seq < s.TriggeredBy) }
	var em []SequenceID
	for _, s := range all {
		if emitted(s) {
			em = append(em, s)
		}
	}
	if len(em) > 120 {
		em = em[:120]
	}
	lows := []uint64{0, 1, 2, 3, 4, 5, 1 << 32, 1<<64 - 1}
	for _, L := range lows {
		for _, a := range em {
			for _, b := range em {
				if !a.Before(b) {
					continue
				}
				a2, b2 := a, b
				a2.LowSeq, b2.LowSeq = L, L
				pa, e1 := ParsePlainSequenceID(a2.String())
				pb, e2 := ParsePlainSequenceID(b2.String())
				rec.Count("derived", "emit_order", fmt.Sprintf("%d|%v|%v", L, a, b), L != 0)
				if e1 != nil || e2 != nil || !pa.Before(pb) {
					rec.Fail("emit_order_preserved", "emit-order", map[string]any{"low": L, "a": c20Desc(a), "b": c20Desc(b)}, "response order disagrees with the order of the printed tokens")
				}
			}
		}
	}

	// ---- (iii) parser streams ----
	parseCase := func(stream, in string) {
		coq, kind, st := c20Parse(ParsePlainSequenceID, in)
		rec.Err("parse:" + kind)
		rec.Case(stream, "parse", "CParse "+cqStr(in)+" "+coq, map[string]any{"in": in, "result": kind, "status": st}, kind != "ok" || len(in) > 3)
		if kind == "other" {
			rec.Fail("reject_is_client_error", "malformed-token-non-client-error", map[string]any{"in": in, "status": st}, "malformed token rejected with a non-client error")
		}
		if kind == "ok" {
			// never mis-parsed: re-derive the components independently
			v, _ := ParsePlainSequenceID(in)
			if !c20Denotes(in, v) {
				rec.Fail("parse_sound", "mis-parse", map[string]any{"in": in, "parsed": c20Desc(v)}, "accepted string does not denote the parsed token")
			}
		}
	}
	fixed := []string{"", "0", "7", "007", "x", "1:x", "1:2:x", "1:2:3:4", "5::", "-1", "+1", "1_0", "18446744073709551615",
		"18446744073709551616", "99999999999999999999999", "1: 2", " 1", "1 ", ":", "::", ":::", "1::2", ":1", "1:", "1:2:", ":1:2", "1::", "::1",
		"0:0:0", "1:0:2", "3:2", "2:3", "4:9:7", "1.5", "1e3", "0x10", "１２", "1:\x00", "\"1\"", "1:2:3", "18446744073709551615:18446744073709551615:18446744073709551615",
		"18446744073709551616:1", "1:18446744073709551616", "1::18446744073709551616"}
	for _, s := range fixed {
		parseCase("corpus", s)
	}
	mut := func(s string) string {
		b := []byte(s)
		alphabet := []byte("0123456789::: -+x_.\"e")
		switch rnd.Intn(4) {
		case 0:
			if len(b) > 0 {
				b[rnd.Intn(len(b))] = alphabet[rnd.Intn(len(alphabet))]
			}
		case 1:
			p := rnd.Intn(len(b) + 1)
			b = append(b[:p], append([]byte{alphabet[rnd.Intn(len(alphabet))]}, b[p:]...)...)
		case 2:
			if len(b) > 0 {
				p := rnd.Intn(len(b))
				b = append(b[:p], b[p+1:]...)
			}
		case 3:
			b = append(b, ':')
			b = append(b, []byte(strconv.FormatUint(pick(), 10))...)
		}
		return string(b)
	}
	nStr := vBudget(400, 4000)
	for i := 0; i < nStr; i++ {
		s := all[rnd.Intn(len(all))].String()
		if rnd.Chance(70) {
			s = mut(s)
			if rnd.Chance(30) {
				s = mut(s)
			}
			parseCase("malformed", s)
		} else {
			parseCase("valid", s)
		}
	}
	// JSON unmarshal stream (inputs without backslashes: the model's stated domain)
	for i := 0; i < nStr/2; i++ {
		s := all[rnd.Intn(len(all))]
		mj, _ := s.MarshalJSON()
		in := string(mj)
		if rnd.Chance(50) {
			in = mut(in)
		}
		if rnd.Chance(20) {
			in = "\"" + mut(s.String()) + "\""
		}
		hasBS := false
		for _, c := range []byte(in) {
			if c == '\\' {
				hasBS = true
			}
		}
		if hasBS {
			continue
		}
		f := func(x string) (SequenceID, error) {
			var u SequenceID
			err := u.UnmarshalJSON([]byte(x))
			return u, err
		}
		coq, kind, st := c20Parse(f, in)
		rec.Err("unmarshal:" + kind)
		rec.Case("json", "unmarshal", "CUnmarshal "+cqStr(in)+" "+coq, map[string]any{"in": in, "result": kind, "status": st}, kind != "ok" || (len(in) > 0 && in[0] == '"'))
		if kind == "other" {
			rec.Fail("reject_is_client_error", "malformed-token-non-client-error", map[string]any{"json": in, "status": st}, "malformed JSON token rejected with a non-client error")
		}
	}
}

// c20Denotes: independent reading of a token string (decimal components), used by the parse_sound monitor
func c20Denotes(in string, v SequenceID) bool {
	if in == "" {
		return v == SequenceID{}
	}
	var comps []string
	cur := ""
	for _, c := range in {
		if c == ':' {
			comps = append(comps, cur)
			cur = ""
		} else {
			cur += string(c)
		}
	}
	comps = append(comps, cur)
	val := func(s string, allowEmpty bool) (uint64, bool) {
		if s == "" {
			return 0, allowEmpty
		}
		var x uint64
		for _, c := range s {
			if c < '0' || c > '9' {
				return 0, false
			}
			d := uint64(c - '0')
			if x > (1<<64-1-d)/10 {
				return 0, false
			}
			x = x*10 + d
		}
		return x, true
	}
	switch len(comps) {
	case 1:
		s, ok := val(comps[0], false)
		return ok && v == SequenceID{Seq: s}
	case 2:
		tr, ok1 := val(comps[0], false)
		s, ok2 := val(comps[1], false)
		return ok1 && ok2 && v == SequenceID{TriggeredBy: tr, Seq: s}
	case 3:
		lo, ok1 := val(comps[0], false)
		tr, ok2 := val(comps[1], true)
		s, ok3 := val(comps[2], false)
		return ok1 && ok2 && ok3 && v == SequenceID{LowSeq: lo, TriggeredBy: tr, Seq: s}
	}
	return false
}
