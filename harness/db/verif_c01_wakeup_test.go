//go:build verif

package db

import (
	"context"
	"fmt"
	"sort"
	"sync"
	"testing"
	"time"

	"github.com/couchbase/sync_gateway/base"
	"github.com/couchbase/sync_gateway/channels"
)

// C01, wake-up side.
//
// (a) notified channels (correspondence + monitor): the REAL channelCacheImpl.AddToCache is called with
//     generated entries -- every assignment of {absent, in the channel, leaves it at this sequence, left it
//     earlier} to the channels "*", A, B, C -- for every set of channels that currently have a per-channel
//     cache; the channel ids it returns (the listeners of exactly these are notified) and the caches that
//     received the entry are compared with Notify.v (add_to_cache_all) and with the Go-side reflection of
//     notified_channels_complete: concerned channels + "*", whether or not a cache exists.
//
// (b) parked feeds (monitor only; the wait loop is not modelled): a real database whose MaxNumChannels is so
//     small that "*" and / or named channels are served by bypass caches (or whose caches are dropped /
//     compacted away while the feeds wait); continuous and long-poll feeds (admin, a user with "*", users
//     with named channels) are parked BEFORE the writes; every write must reach every parked feed that can
//     see it, without the feed being re-issued.  Never a failure on timing alone: after a generous timeout a
//     FRESH request of the same requester is made, and only "the fresh request returns the document, the
//     parked feed did not" is reported (signature parked-feed-not-woken).

var c01NChans = []string{"*", "A", "B", "C"}

type c01NotifyCase struct {
	Active   []string `json:"caches"`
	Seq      uint64   `json:"seq"`
	Chans    []string `json:"channels"` // "A" in, "A-" leaves now, "A<" left earlier
	Notified []string `json:"notified"`
}

func c01Notify(t *testing.T, rec *vRecorder, ctx context.Context) {
	id := func(name string) uint64 {
		for i, n := range c01NChans {
			if n == name {
				return uint64(i)
			}
		}
		return 99
	}
	nKinds := 4 // absent, in, leaves at this sequence, left earlier
	total := 1
	for range c01NChans {
		total *= nKinds
	}
	sample := uint64(16*total/vBudget(600, 4096) + 1)
	for mask := 0; mask < 16; mask++ {
		opts := DefaultCacheOptions().ChannelCacheOptions
		impl, err := newChannelCache(ctx, "c01n", opts, testQueryHandlerFactory, channels.NewActiveChannels(&base.SgwIntStat{}), c01CacheStats(t))
		if err != nil {
			t.Fatalf("newChannelCache: %v", err)
		}
		var active []uint64
		var activeNames []string
		caches := map[uint64]*singleChannelCacheImpl{}
		for i, n := range c01NChans {
			if mask&(1<<i) != 0 {
				sc, ok := impl.addChannelCache(ctx, channels.NewID(n, base.DefaultCollectionID))
				if !ok {
					t.Fatalf("cannot create the cache of %s", n)
				}
				caches[uint64(i)] = sc
				active = append(active, uint64(i))
				activeNames = append(activeNames, n)
			}
		}
		seq := uint64(10)
		for code := 0; code < total; code++ {
			seq++
			cm := channels.ChannelMap{}
			var chs []string  // Coq pairs, ascending channel id
			var desc []string
			concerned := map[uint64]bool{}
			removalOf := map[uint64]bool{}
			c := code
			for i, n := range c01NChans {
				k := c % nKinds
				c /= nKinds
				switch k {
				case 1:
					cm[n] = nil
					chs = append(chs, fmt.Sprintf("(%d, None)", i))
					desc = append(desc, n)
					concerned[uint64(i)] = true
				case 2:
					cm[n] = &channels.ChannelRemoval{Seq: seq}
					chs = append(chs, fmt.Sprintf("(%d, Some %d)", i, seq))
					desc = append(desc, n+"-")
					concerned[uint64(i)] = true
					removalOf[uint64(i)] = true
				case 3:
					cm[n] = &channels.ChannelRemoval{Seq: seq - 3}
					chs = append(chs, fmt.Sprintf("(%d, Some %d)", i, seq-3))
					desc = append(desc, n+"<")
				}
			}
			entry := &LogEntry{Sequence: seq, DocID: fmt.Sprintf("n%d", seq), RevID: "1-a", CollectionID: base.DefaultCollectionID,
				TimeReceived: channels.NewFeedTimestampFromNow(), Channels: cm}
			got := impl.AddToCache(ctx, entry)
			gotSet := map[uint64]bool{}
			for _, g := range got {
				gotSet[id(g.Name)] = true
			}
			var notified []uint64
			var notifiedNames []string
			for i, n := range c01NChans {
				if gotSet[uint64(i)] {
					notified = append(notified, uint64(i))
					notifiedNames = append(notifiedNames, n)
				}
			}
			// caches that received the entry, in the model's order: concerned channels ascending, the implicit "*" last
			var adds []string
			addOf := func(i uint64) (bool, bool) {
				sc := caches[i]
				if sc == nil {
					return false, false
				}
				sc.lock.RLock()
				defer sc.lock.RUnlock()
				for _, le := range sc.logs {
					if le.Sequence == seq {
						return true, le.Flags&channels.Removed != 0
					}
				}
				return false, false
			}
			for i := range c01NChans {
				if concerned[uint64(i)] {
					if in, rm := addOf(uint64(i)); in {
						adds = append(adds, fmt.Sprintf("(%d, %s)", i, cqBool(rm)))
					}
				}
			}
			if !concerned[0] {
				if in, rm := addOf(0); in {
					adds = append(adds, fmt.Sprintf("(0, %s)", cqBool(rm)))
				}
			}
			for i := range c01NChans { // a cache of a channel the entry does not concern must not receive it
				if i != 0 && !concerned[uint64(i)] {
					if in, _ := addOf(uint64(i)); in {
						adds = append(adds, fmt.Sprintf("(%d, false)", 90+i))
					}
				}
			}
			nc := c01NotifyCase{Active: activeNames, Seq: seq, Chans: desc, Notified: notifiedNames}
			// monitor: notified_channels_complete
			for i, n := range c01NChans {
				want := i == 0 || concerned[uint64(i)]
				if want && !gotSet[uint64(i)] {
					kind := "named-channel"
					if i == 0 {
						kind = "star"
					}
					cache := "without-cache"
					if caches[uint64(i)] != nil {
						cache = "with-cache"
					}
					sig := "notified_channels_complete/" + kind + "-" + cache + "-not-reported"
					if c01NotifyReported[sig]++; c01NotifyReported[sig] <= 2 {
						rec.Fail("notified_channels_complete", sig, nc,
							fmt.Sprintf("AddToCache did not report channel %q as changed (reported %v): its listeners are not notified", n, notifiedNames))
					}
				}
				if !want && gotSet[uint64(i)] {
					sig := "notified_channels_complete/unconcerned-channel-reported"
					if c01NotifyReported[sig]++; c01NotifyReported[sig] <= 2 {
						rec.Fail("notified_channels_complete", sig, nc,
							fmt.Sprintf("AddToCache reported channel %q, which the entry does not concern", n))
					}
				}
			}
			key := fmt.Sprintf("notify/%d/%d/%d", mask, code, vSeed())
			if sample <= 1 || c01Hash(key)%sample == 0 {
				rec.Case("notify", "add-to-cache", fmt.Sprintf("CNotify %s %d %s %s %s", cqNList(active), seq, cqList(chs), cqNList(notified), cqList(adds)), nc, len(caches) < len(c01NChans))
			} else {
				rec.Count("notify", "add-to-cache-monitored", key, len(caches) < len(c01NChans))
			}
		}
		impl.Stop(ctx)
	}
}

// ---------- (b) parked feeds ----------
type c01Parked struct {
	name       string
	user       int
	chans      []string
	continuous bool
	ch         <-chan *ChangeEntry
	cancel     context.CancelFunc
	mu         sync.Mutex
	got        map[string]bool
	parked     bool
	closed     bool
	failedErr  bool
	done       bool // long-poll feed that has answered
	eff        map[string]bool
	effStar    bool
}

func (p *c01Parked) reader() {
	for e := range p.ch {
		p.mu.Lock()
		switch {
		case e == nil:
			p.parked = true
		case e.Err != nil:
			p.failedErr = true
		default:
			p.got[e.ID] = true
		}
		p.mu.Unlock()
	}
	p.mu.Lock()
	p.closed = true
	p.mu.Unlock()
}

func (p *c01Parked) has(id string) bool {
	p.mu.Lock()
	defer p.mu.Unlock()
	return p.got[id]
}
func (p *c01Parked) isParked() bool {
	p.mu.Lock()
	defer p.mu.Unlock()
	return p.parked
}

func (p *c01Parked) sees(before, after []string) bool {
	if p.effStar {
		return true
	}
	for _, c := range append(append([]string{}, before...), after...) {
		if p.eff[c] {
			return true
		}
	}
	return false
}

type c01WakeInput struct {
	MaxNumChannels int      `json:"max_num_channels"`
	Occupied       []string `json:"channels_holding_the_caches"`
	Evict          string   `json:"while_parked"`
	Feed           string   `json:"parked_feed"`
	NoCacheFor     []string `json:"feed_channels_without_cache_when_parked"`
	Writes         []string `json:"writes"`
	Missing        string   `json:"document_not_delivered"`
}

const c01WakeTimeout = 15 * time.Second

// once a parked feed has been found stuck (verdict by the fresh request), later waits are cut short so
// that a broken wake-up does not cost 15 s per feed and write; the verdict never rests on the timeout alone
var c01WakeStuck int

func c01WakeWait() time.Duration {
	if c01WakeStuck > 0 {
		return 2 * time.Second
	}
	return c01WakeTimeout
}

var c01NotifyReported = map[string]int{}

func c01WakeScenario(t *testing.T, rec *vRecorder, r *vRand, maxNum int, evict string) {
	co := DefaultCacheOptions()
	co.ChannelCacheOptions.MaxNumChannels = maxNum
	co.BroadcastChangesInterval = 5 * time.Millisecond
	co.SkippedSequenceBroadcastInterval = 5 * time.Millisecond
	db, ctx := SetupTestDBWithOptions(t, DatabaseContextOptions{AllowConflicts: base.Ptr(true), CacheOptions: &co,
		Scopes: GetScopesOptionsDefaultCollectionOnly(t)})
	col, ctx := GetSingleDatabaseCollectionWithUser(ctx, t, db)
	col.ChannelMapper = channels.NewChannelMapper(ctx, channels.DocChannelsSyncFunction, db.Options.JavascriptTimeout)
	s := &c01Sys{t: t, rec: rec, db: db, ctx: ctx, col: col, docs: map[uint64]*c01Doc{}, revs: map[string]uint64{}, cfg: fmt.Sprintf("wakeup/max%d/%s", maxNum, evict), failed: map[string]bool{}}
	defer s.close()
	a := db.Authenticator(ctx)
	for i, chs := range [][]string{{"A"}, {"A", "B"}, {"*"}} {
		name := fmt.Sprintf("u%d", i+1)
		set := base.Set{}
		var ids []uint64
		for _, c := range chs {
			set[c] = struct{}{}
			ids = append(ids, c01ChanID(c))
		}
		u, err := a.NewUser(name, "letmein", set)
		if err != nil || a.Save(u) != nil {
			t.Fatalf("cannot create user %s: %v", name, err)
		}
		s.users = append(s.users, &c01User{name: name, id: 101 + uint64(i), chans: ids})
	}
	// documents that exist before the feeds park (one of them will be moved out of its channel later)
	s.put(1, []uint64{2})    // doc1 in A
	s.put(2, []uint64{3})    // doc2 in B
	s.put(3, []uint64{1, 2}) // doc3 in !, A
	s.db.WaitForPendingChanges(t)
	start := s.maxSeq

	// who holds the few per-channel caches: the channels requested first
	var occupied []string
	order := [][]string{{"A"}, {"B"}, {"*"}, {"!"}}
	if r.Bool() {
		order = [][]string{{"*"}, {"A"}, {"B"}, {"!"}}
	}
	for i := 0; i < maxNum && i < len(order); i++ {
		s.run(c01Req{User: -1, Chans: order[i], Since: SequenceID{Seq: start}})
		occupied = append(occupied, order[i][0])
	}
	impl, _ := db.changeCache.getChannelCache().(*channelCacheImpl)
	hasCache := func(name string) bool {
		if impl == nil {
			return false
		}
		_, ok := impl.getActiveChannelCache(ctx, channels.NewID(name, col.GetCollectionID()))
		return ok
	}

	type spec struct {
		user  int
		chans []string
		cont  bool
	}
	specs := []spec{{-1, []string{"*"}, true}, {2, []string{"*"}, r.Bool()}, {0, []string{"*"}, true}, {-1, []string{"A", "B"}, false}, {1, []string{"B"}, true}, {-1, []string{"*"}, false}}
	var feeds []*c01Parked
	for _, sp := range specs {
		fctx, cancel := context.WithCancel(ctx)
		c := s.collectionFor(sp.user)
		set := base.Set{}
		for _, n := range sp.chans {
			set[n] = struct{}{}
		}
		ch, err := c.MultiChangesFeed(fctx, set, ChangesOptions{Since: SequenceID{Seq: start}, Wait: true, Continuous: sp.cont, ChangesCtx: fctx})
		if err != nil || ch == nil {
			cancel()
			t.Fatalf("MultiChangesFeed: %v", err)
		}
		who := "admin"
		if sp.user >= 0 {
			who = s.users[sp.user].name
		}
		mode := "longpoll"
		if sp.cont {
			mode = "continuous"
		}
		p := &c01Parked{name: fmt.Sprintf("%s %v %s since %d", who, sp.chans, mode, start), user: sp.user, chans: sp.chans, continuous: sp.cont,
			ch: ch, cancel: cancel, got: map[string]bool{}, eff: map[string]bool{}}
		// channels the feed effectively listens to
		if sp.user < 0 {
			for _, n := range sp.chans {
				if n == "*" {
					p.effStar = true
				}
				p.eff[n] = true
			}
		} else {
			granted := map[string]bool{"!": true}
			for _, id := range s.users[sp.user].chans {
				granted[c01ChanNames[id]] = true
			}
			for _, n := range sp.chans {
				switch {
				case n == "*" && granted["*"]:
					p.effStar = true
				case n == "*":
					for g := range granted {
						p.eff[g] = true
					}
				case granted[n] || granted["*"]:
					p.eff[n] = true
				}
			}
		}
		go p.reader()
		feeds = append(feeds, p)
	}
	defer func() {
		for _, p := range feeds {
			p.cancel()
		}
	}()
	// wait until every feed has announced that it is waiting
	allParked := func() bool {
		for _, p := range feeds {
			if !p.isParked() {
				return false
			}
		}
		return true
	}
	for dl := time.Now().Add(c01WakeTimeout); time.Now().Before(dl) && !allParked(); {
		time.Sleep(2 * time.Millisecond)
	}
	if !allParked() {
		rec.Err("wakeup-feeds-did-not-park")
		return
	}
	noCache := map[*c01Parked][]string{}
	for _, p := range feeds {
		names := []string{}
		if p.effStar {
			names = append(names, "*")
		}
		for n, ok := range p.eff {
			if ok && n != "*" {
				names = append(names, n)
			}
		}
		sort.Strings(names)
		for _, n := range names {
			if !hasCache(n) {
				noCache[p] = append(noCache[p], n)
			}
		}
		if len(noCache[p]) > 0 {
			rec.Err("wakeup-parked-feed-on-bypassed-channel")
		}
	}
	switch evict {
	case "clear":
		if impl != nil {
			impl.Clear()
		}
	case "compact": // the real compaction loop, told to evict down to nothing (active channels included, as when every channel is active)
		if impl != nil {
			lwm := impl.compactLowWatermark
			impl.compactLowWatermark = 0
			impl.compactChannelCache(ctx)
			impl.compactLowWatermark = lwm
			if impl.channelCaches.Length() == 0 {
				rec.Err("wakeup-caches-compacted-away")
			}
		}
	}

	// the writes, one at a time
	type wr struct {
		doc    uint64
		before []string
		after  []string
	}
	cur := map[uint64][]string{1: {"A"}, 2: {"B"}, 3: {"!", "A"}}
	var plan []wr
	nw := 3 + r.Intn(3)
	next := uint64(10)
	for i := 0; i < nw; i++ {
		switch p := r.Intn(100); {
		case p < 25: // a document with no channel at all: only "*" sees it
			plan = append(plan, wr{doc: next, after: nil})
			next++
		case p < 45: // move an existing document: the channel it leaves must be woken for the removal
			d := uint64(1 + r.Intn(3))
			to := [][]string{{"B"}, {"A"}, {}, {"!"}}[r.Intn(4)]
			plan = append(plan, wr{doc: d, before: cur[d], after: to})
			cur[d] = to
		default:
			var chs []string
			for _, n := range []string{"!", "A", "B"} {
				if r.Chance(40) {
					chs = append(chs, n)
				}
			}
			plan = append(plan, wr{doc: next, after: chs})
			next++
		}
	}
	var wdesc []string
	for _, w := range plan {
		var ids []uint64
		for _, n := range w.after {
			ids = append(ids, c01ChanID(n))
		}
		s.put(w.doc, ids)
		docid := fmt.Sprintf("doc%d", w.doc)
		wdesc = append(wdesc, fmt.Sprintf("#%d %s %v -> %v", s.maxSeq, docid, w.before, w.after))
		for _, p := range feeds {
			if p.done || !p.sees(w.before, w.after) {
				continue
			}
			wait := c01WakeWait()
			dl := time.Now().Add(wait)
			for time.Now().Before(dl) && !p.has(docid) {
				time.Sleep(2 * time.Millisecond)
			}
			delivered := p.has(docid)
			rec.Count("wakeup", "parked-feed-delivery", fmt.Sprintf("%s|%s|%d|%v", s.cfg, p.name, len(wdesc), occupied), len(noCache[p]) > 0 || evict != "none")
			if !delivered {
				// not on timing alone: does a FRESH request of the same requester return the document?
				s.db.WaitForPendingChanges(t)
				fresh, ok := s.run(c01Req{User: p.user, Chans: p.chans, Since: SequenceID{Seq: start}})
				found := false
				for _, row := range fresh {
					if row.ID == w.doc {
						found = true
					}
				}
				if ok && found && !p.has(docid) {
					c01WakeStuck++
					s.fail("eventual_delivery", "parked-feed-not-woken", c01WakeInput{MaxNumChannels: maxNum, Occupied: occupied, Evict: evict, Feed: p.name,
						NoCacheFor: noCache[p], Writes: append([]string{}, wdesc...), Missing: docid},
						fmt.Sprintf("%s written at sequence %d is returned by a fresh request of the same requester but was not delivered to the parked feed within %v", docid, s.maxSeq, wait))
				} else {
					rec.Err("wakeup-timeout-without-fresh-evidence")
				}
				p.done = true // do not wait again for a feed that is stuck
				continue
			}
			if !p.continuous {
				p.done = true // a long-poll request answers once
			}
		}
	}
	rec.Err("wakeup-scenario")
}

func c01Wakeup(t *testing.T, rec *vRecorder) {
	r := vNewRand(vSeed()*911 + 3)
	type v struct {
		maxNum int
		evict  string
	}
	vs := []v{{0, "none"}, {1, "none"}, {2, "none"}, {50000, "clear"}, {50000, "compact"}, {1, "clear"}, {50000, "none"}, {3, "compact"}}
	n := vBudget(8, 40)
	for i := 0; i < n; i++ {
		c01WakeScenario(t, rec, r, vs[i%len(vs)].maxNum, vs[i%len(vs)].evict)
	}
}
