//go:build verif

package db

import (
	"context"
	"fmt"
	"math/big"
	"sort"
	"strings"
	"testing"
	"time"

	"github.com/couchbase/sync_gateway/base"
)

// C05 / C11 / C07(write path): the document write loop on the real code, with forced CAS schedules.

type c05Rev struct {
	gen uint64
	dig *big.Int
}

func c05ParseRev(rev string) c05Rev {
	parts := strings.SplitN(rev, "-", 2)
	var g uint64
	fmt.Sscanf(parts[0], "%d", &g)
	d := new(big.Int)
	if len(parts) == 2 {
		d.SetString(parts[1], 16)
	}
	return c05Rev{g, d}
}
func (r c05Rev) coq() string { return "(" + cqN(r.gen) + ", " + r.dig.String() + ")" }
func c05OptRev(rev string) string {
	if rev == "" {
		return "None"
	}
	return "(Some " + c05ParseRev(rev).coq() + ")"
}

// a writer of a case: parentOf = index of the writer whose committed revision is the parent (-1: no parent
// given, -2: a revision that does not exist)
type c05Writer struct {
	tag       int
	parentOf  int
	push      int // >0: a pushed revision (PutExistingRev) adding this many new revisions on top of parentOf's revision (parentOf<0: a disconnected branch)
	history   []string
	badGen    int // pushed revision whose generations do NOT rise: 1 = first new revision at its parent's generation, 2 = last new revision at its predecessor's generation, 3 = first new revision below its parent's generation
	deleted   bool
	reject    bool
	failAfter bool // fail AddRaw of out-of-line revision bodies while this writer runs
	failWrite bool // fail the storage write at the first attempt with no successful competitor
	// how a pushed revision reaches the write loop: c05ViaBody = db.PutExistingRevWithBody (default options),
	// c05ViaOpts = db.PutExistingRevWithConflictResolution with explicit PutDocOptions (optForce / noconf),
	// c05ViaBlip = a rev message handled by the REAL blipHandler.handleRev of connection kind conn (noconf = the
	// message's noconflicts property): the options are derived by the rev handler
	via      int
	conn     int
	optForce bool
	noconf   bool

	// filled in at run time
	parentRev   string
	outcome     string // ack / conflict / forbidden / failed
	rev         string
	seq         uint64
	unused      []uint64
	failAfterAt []bool // per attempt: did the injected body-persistence fault fire
	tombAt      []bool // per attempt: was the stored document a tombstone when this attempt's callback ran
	attempts    int
	ran         bool
	tracked     bool // ran as a main/sequential writer: fault flags were in force
}

type c05Case struct {
	allowConflicts bool
	writers        []*c05Writer
	setup          []int         // run sequentially to completion first
	main           int           // the writer whose attempts are interleaved (-1: none)
	inject         map[int][]int // attempt -> competitors run to completion between callback and write
	after          []int
}

type c05Env struct {
	t     *testing.T
	ctx   context.Context
	db    *Database
	col   *DatabaseCollectionWithUser
	fs    *vFaultStore // collection data store
	ms    *vFaultStore // allocator metadata store
	docN  int
	allow bool
	conns         map[int]*c05Conn
	resolverCalls int // calls of a connection's conflict resolver (such a case is outside the model)
	// legacy (revtree) revisions pushed over a version-vector connection that the HLV bookkeeping refused, see c05HLVRefusal
	hlvRefusals      int
	hlvRefusalSample string
}

// A revtree revision pushed over a version-vector connection (docUpdateEvent ExistingVersionLegacyRev) records the
// revtree-encoded version of the document's NEW current revision in the HLV; HybridLogicalVector.AddVersion refuses a
// value below the one already recorded for that source, so the write fails with an internal error -- after the
// sequence was reserved -- whenever the new winning revision has a lower generation than an earlier one (e.g. a live
// disconnected branch resurrecting a tombstone of a higher generation).  The HLV is not part of the write-loop
// model: the refusal is an environment fault of the attempt (w_fail_after), like a failing storage operation.
func c05HLVRefusal(err error) bool {
	return err != nil && strings.Contains(err.Error(), "less than the existing value for the same source")
}

const (
	c05ViaBody = iota
	c05ViaOpts
	c05ViaBlip
)

// connection kinds of the BLIP stream
const (
	c05PlainV3 = iota // a client, revtree protocol
	c05PlainV4        // a client, version-vector protocol, pushing revtree ids (legacy revisions)
	c05PeerV3         // the passive side of an inter-Sync-Gateway replication (client type SGR2)
	c05PeerV4
	c05PullV3 // the active side of a pull replication: a revtree conflict resolver is configured
	c05PullV4 // ... revtree and HLV resolvers
	c05ConnKinds
)

var c05ConnNames = []string{"client-v3", "client-v4", "peer-v3", "peer-v4", "pull-v3", "pull-v4"}

func c05ConnV4(kind int) bool   { return kind == c05PlainV4 || kind == c05PeerV4 || kind == c05PullV4 }
func c05ConnPeer(kind int) bool { return kind == c05PeerV3 || kind == c05PeerV4 }
func c05ConnPull(kind int) bool { return kind == c05PullV3 || kind == c05PullV4 }

// Go-side reflection of C05_force_derived_iff, written from the protocol's intent and independent of the code's
// ConflictResolvers.IsEmpty: only a tombstone from a peer gateway / on a resolver connection may skip the conflict check
func c05ForceExpected(w *c05Writer) bool {
	switch w.via {
	case c05ViaOpts:
		return w.optForce
	case c05ViaBlip:
		return w.deleted && (c05ConnPeer(w.conn) || c05ConnPull(w.conn))
	}
	return false
}

// a REAL BlipSyncContext + blipHandler on the environment's database; the collection is the environment's (with
// its fault-injecting data store), set the way collectionBlipHandler does
type c05Conn struct {
	kind   int
	bsc    *BlipSyncContext
	bh     *blipHandler
	cancel context.CancelCauseFunc
}

func (e *c05Env) connOf(kind int) *c05Conn {
	if c, ok := e.conns[kind]; ok {
		return c
	}
	cctx, cancel := context.WithCancelCause(e.ctx)
	bctx, bc, err := NewSGBlipContext(cctx, "", nil, nil)
	if err != nil {
		e.t.Fatalf("blip context: %v", err)
	}
	bsc, err := NewBlipSyncContext(bctx, bc, e.db, nil, cancel)
	if err != nil {
		e.t.Fatalf("blip sync context: %v", err)
	}
	proto := CBMobileReplicationV3
	if c05ConnV4(kind) {
		proto = CBMobileReplicationV4
	}
	if err := bsc.SetActiveCBMobileSubprotocol(proto.SubprotocolString()); err != nil {
		e.t.Fatalf("subprotocol: %v", err)
	}
	if c05ConnPeer(kind) {
		bsc.SetClientType(BLIPClientTypeSGR2)
	}
	if c05ConnPull(kind) {
		// what ActivePullReplicator._connect does with the replication's configured resolver functions
		counting := func(ctx context.Context, conflict Conflict) (Body, error) {
			e.resolverCalls++
			return DefaultConflictResolver(ctx, conflict)
		}
		bsc.conflictResolver.revTreeConflictResolver = NewConflictResolver(counting, nil)
		if bsc.useHLV() {
			bsc.conflictResolver.hlvConflictResolver = NewConflictResolver(counting, nil)
		}
	}
	bh := newBlipHandler(bctx, bsc, bsc.copyContextDatabase(), 1)
	bh.collection = &DatabaseCollectionWithUser{DatabaseCollection: e.col.DatabaseCollection, user: bh.db.User()}
	bh.collectionCtx = newBlipSyncCollectionContext(bctx, e.col.DatabaseCollection)
	bh.loggingCtx = bh.collection.AddCollectionContext(bsc.loggingCtx)
	c := &c05Conn{kind: kind, bsc: bsc, bh: bh, cancel: cancel}
	if e.conns == nil {
		e.conns = map[int]*c05Conn{}
	}
	e.conns[kind] = c
	return c
}

// the rev message a replicator sends for writer w (history newest first), handled by the connection's rev handler
func (e *c05Env) blipPush(kind int, docid string, w *c05Writer) error {
	c := e.connOf(kind)
	rm := NewRevMessage()
	rm.SetID(docid)
	rm.SetRev(w.history[0])
	if len(w.history) > 1 {
		rm.Properties[RevMessageHistory] = strings.Join(w.history[1:], ",")
	}
	if w.deleted {
		rm.Properties[RevMessageDeleted] = "1"
	}
	if w.noconf {
		rm.SetNoConflicts(true)
	}
	b := Body{"tag": w.tag, "pad": strings.Repeat("x", 300), "channels": []string{"c"}}
	if w.reject {
		b["reject"] = true
	}
	raw, err := base.JSONMarshal(b)
	if err != nil {
		e.t.Fatalf("marshal: %v", err)
	}
	rm.SetBody(raw)
	return c.bh.handleRev(rm.Message)
}

func c05NewEnv(t *testing.T, allowConflicts bool) *c05Env {
	db, ctx := SetupTestDBWithOptions(t, DatabaseContextOptions{AllowConflicts: base.Ptr(allowConflicts)})
	col, ctx := GetSingleDatabaseCollectionWithUser(ctx, t, db)
	_, err := col.UpdateSyncFun(ctx, `function(doc){ if (doc.reject) { throw({forbidden: "rejected"}); } channel(doc.channels); }`)
	if err != nil {
		t.Fatalf("sync fn: %v", err)
	}
	e := &c05Env{t: t, ctx: ctx, db: db, col: col, allow: allowConflicts}
	e.fs = &vFaultStore{DataStore: col.dataStore}
	col.dataStore = e.fs
	e.ms = &vFaultStore{DataStore: db.sequences.datastore}
	db.sequences.datastore = e.ms
	db.sequences.releaseSequenceWait = time.Hour // the idle-release timer must not fire during a case
	return e
}

func (e *c05Env) close() {
	for _, c := range e.conns {
		c.bsc.Close()
	}
	e.db.Close(e.ctx)
}

func (e *c05Env) body(w *c05Writer) Body {
	b := Body{"tag": w.tag, "pad": strings.Repeat("x", 300), "channels": []string{"c"}}
	if w.parentRev != "" {
		b[BodyRev] = w.parentRev
	}
	if w.deleted {
		b[BodyDeleted] = true
	}
	if w.reject {
		b["reject"] = true
	}
	return b
}

// the revision id Put would create for writer w on parent parentRev (same computation as db.Put)
func (e *c05Env) revFor(w *c05Writer, parentRev string, retry bool) string {
	b := e.body(w)
	delete(b, BodyRev)
	if retry {
		delete(b, BodyDeleted) // db.Put strips _deleted from the body during the first attempt
	}
	stripped, _ := StripInternalProperties(b)
	canon, err := base.JSONMarshalCanonical(stripped)
	if err != nil {
		e.t.Fatalf("canonical: %v", err)
	}
	gen, _ := ParseRevID(e.ctx, parentRev)
	if parentRev == "" {
		gen = 0
	}
	return CreateRevIDWithBytes(gen+1, parentRev, canon)
}

func c05Classify(err error) string {
	if err == nil {
		return "ack"
	}
	st, _ := base.ErrorAsHTTPStatus(err)
	switch st {
	case 409:
		return "conflict"
	case 403:
		return "forbidden"
	}
	return "failed"
}

// run one writer to completion; hook != nil makes it the interleaved main writer
func (e *c05Env) runWriter(c *c05Case, docid string, wi int, isMain bool) {
	w := c.writers[wi]
	w.ran = true
	w.tracked = isMain
	switch {
	case w.parentOf >= 0:
		p := c.writers[w.parentOf]
		if p.outcome == "ack" {
			w.parentRev = p.rev
		} else {
			w.parentRev = "9-00000000000000000000000000000dead"
		}
	case w.parentOf == -2:
		w.parentRev = "7-000000000000000000000000000000bad"
	}
	attempt := 0
	var curFired bool
	var lastCbErr error
	prevFail := e.fs.failOp
	prevHook := e.fs.onAttempt
	if w.failAfter && isMain {
		e.fs.failOp = func(op, key string) error {
			if op == "AddRaw" && strings.Contains(key, "_sync:rb:") {
				curFired = true
				return errVInjected
			}
			return nil
		}
	}
	// every writer's attempts are tracked; only the main writer gets competitors injected
	e.fs.onAttempt = func(key string, n int, cbErr error) error {
		attempt = n
		lastCbErr = cbErr
		if c05HLVRefusal(cbErr) {
			curFired = true
		}
		w.failAfterAt = append(w.failAfterAt, curFired)
		curFired = false
		if cbErr != nil {
			return nil
		}
		anyAck := false
		if isMain {
			d0, derr := e.col.GetDocument(e.ctx, docid, DocUnmarshalSync)
			w.tombAt = append(w.tombAt, derr == nil && d0 != nil && d0.IsDeleted())
			saveFail := e.fs.failOp
			e.fs.failOp = nil
			for _, ci := range c.inject[n] {
				e.runWriter(c, docid, ci, false)
				if c.writers[ci].outcome == "ack" {
					anyAck = true
				}
			}
			e.fs.failOp = saveFail
		}
		if w.failWrite && !anyAck {
			return errVInjected
		}
		return nil
	}
	if !isMain {
		// nested writers run with depth>0: the hook is not re-entered, so track attempts by a direct call
		e.fs.onAttempt = prevHook
	}
	var rev string
	var doc *Document
	var err error
	if w.push > 0 {
		gen0, _ := ParseRevID(e.ctx, w.parentRev)
		if w.parentRev == "" {
			gen0 = 0
		}
		w.history = nil
		gens := make([]int, w.push+1) // gens[k] = generation of the k-th new revision (oldest = 1)
		for k := 1; k <= w.push; k++ {
			gens[k] = gen0 + k
		}
		switch {
		case w.badGen == 1 && gen0 >= 1:
			for k := 1; k <= w.push; k++ {
				gens[k] = gen0 + k - 1
			}
		case w.badGen == 2 && w.push >= 2:
			gens[w.push] = gens[w.push-1]
		case w.badGen == 3 && gen0 >= 2:
			for k := 1; k <= w.push; k++ {
				gens[k] = gen0 + k - 2
			}
		}
		for k := w.push; k >= 1; k-- {
			w.history = append(w.history, fmt.Sprintf("%d-%032x", gens[k], w.tag*16+k))
		}
		if w.parentRev != "" {
			w.history = append(w.history, w.parentRev)
		}
		b := e.body(w)
		delete(b, BodyRev)
		switch w.via {
		case c05ViaOpts:
			// what PutExistingRevWithBody does with the body, then the write with explicit options
			deleted := b.ExtractDeleted()
			newDoc := &Document{ID: docid, Deleted: deleted}
			newDoc.UpdateBody(b)
			doc, rev, err = e.col.PutExistingRevWithConflictResolution(e.ctx, PutDocOptions{NewDoc: newDoc, RevTreeHistory: w.history,
				NoConflicts: w.noconf, ForceAllowConflictingTombstone: w.optForce, DocUpdateEvent: ExistingVersionWithUpdateToHLV})
		case c05ViaBlip:
			seq0 := uint64(0)
			if d0, derr := e.col.GetDocument(e.ctx, docid, DocUnmarshalSync); derr == nil && d0 != nil {
				seq0 = d0.Sequence
			}
			err = e.blipPush(w.conn, docid, w)
			if c05HLVRefusal(err) {
				if !isMain {
					w.failAfterAt = []bool{true} // a competitor has exactly one attempt (the hook is not re-entered)
				}
				rec0 := fmt.Sprintf("doc=%s connection=%s history=%v deleted=%v error=%v", docid, c05ConnNames[w.conn], w.history, w.deleted, err)
				if e.hlvRefusals == 0 {
					e.hlvRefusalSample = rec0
				}
				e.hlvRefusals++
			}
			if err == nil {
				// the handler only reports success: acknowledged write or cancelled no-op (revision already known)?
				d1, derr := e.col.GetDocument(e.ctx, docid, DocUnmarshalAll)
				cancelled := lastCbErr != nil
				if !isMain {
					cancelled = derr != nil || d1 == nil || d1.Sequence == seq0
				}
				if !cancelled {
					if derr != nil || d1 == nil {
						e.t.Errorf("harness: rev message acknowledged but the document cannot be read: %v", derr)
						err = errVInjected
					} else {
						doc, rev = d1, w.history[0]
					}
				}
			}
		default:
			doc, rev, err = e.col.PutExistingRevWithBody(e.ctx, docid, b, w.history, false, ExistingVersionWithUpdateToHLV)
		}
	} else {
		rev, doc, err = e.col.Put(e.ctx, docid, e.body(w))
	}
	e.fs.failOp = prevFail
	e.fs.onAttempt = prevHook
	w.attempts = attempt
	w.outcome = c05Classify(err)
	if err == nil && doc == nil {
		w.outcome = "xcancel"
	}
	if err == nil && doc != nil {
		w.rev = rev
		w.seq = doc.Sequence
		w.unused = append([]uint64{}, doc.UnusedSequences...)
	}
}

func c05WriterKind(w *c05Writer) string {
	switch {
	case w.push == 0:
		return "rest"
	case w.via == c05ViaOpts:
		return fmt.Sprintf("options(force=%v)", w.optForce)
	case w.via == c05ViaBlip:
		return "blip:" + c05ConnNames[w.conn]
	}
	return "push"
}

func c05Sorted(v []uint64) []uint64 {
	r := append([]uint64{}, v...)
	sort.Slice(r, func(i, j int) bool { return r[i] < r[j] })
	return r
}

func (e *c05Env) runCase(rec *vRecorder, stream string, c *c05Case, desc string) {
	e.docN++
	docid := fmt.Sprintf("c05doc%d", e.docN)
	e.ms.takeReleased()
	base0 := e.db.sequences.last
	resolver0 := e.resolverCalls
	rel := func(v []uint64) []uint64 {
		r := make([]uint64, len(v))
		for i, x := range v {
			r[i] = x - base0
		}
		return r
	}
	var sched []string
	var commitOrder []int
	seqRun := func(wi int) {
		// a sequential writer outside the main writer: run with attempt tracking as its own "main" without competitors
		saved := c.inject
		c.inject = map[int][]int{}
		e.runWriter(c, docid, wi, true)
		c.inject = saved
		sched = append(sched, fmt.Sprintf("Prepare %d", wi), fmt.Sprintf("Write %d", wi))
		if c.writers[wi].outcome == "ack" {
			commitOrder = append(commitOrder, wi)
		}
	}
	for _, wi := range c.setup {
		seqRun(wi)
	}
	if c.main >= 0 {
		e.runWriter(c, docid, c.main, true)
		m := c.writers[c.main]
		att := m.attempts
		if att == 0 {
			att = 1
		}
		for k := 1; k <= att; k++ {
			sched = append(sched, fmt.Sprintf("Prepare %d", c.main))
			for _, ci := range c.inject[k] {
				if c.writers[ci].ran {
					sched = append(sched, fmt.Sprintf("Prepare %d", ci), fmt.Sprintf("Write %d", ci))
					if c.writers[ci].outcome == "ack" {
						commitOrder = append(commitOrder, ci)
					}
				}
			}
			sched = append(sched, fmt.Sprintf("Write %d", c.main))
		}
		if m.outcome == "ack" {
			commitOrder = append(commitOrder, c.main)
		}
	}
	for _, wi := range c.after {
		seqRun(wi)
	}
	last1 := e.db.sequences.last
	released := c05Sorted(rel(e.ms.takeReleased()))
	if e.resolverCalls != resolver0 {
		// a connection's conflict resolver rewrote a conflicting revision: conflict resolution is outside this model
		rec.Err("conflict_resolver_invoked:case-not-comparable")
		return
	}

	// ---- final document ----
	doc, err := e.col.GetDocument(e.ctx, docid, DocUnmarshalAll)
	finSeq, finCur := uint64(0), ""
	var finUnused []uint64
	var treeRows []string
	treeDesc := map[string]string{}
	liveLeaves := 0
	if err == nil && doc != nil {
		finSeq = doc.Sequence - base0
		finCur = doc.GetRevTreeID()
		finUnused = rel(doc.UnusedSequences)
		var ids []string
		for id := range doc.History {
			ids = append(ids, id)
		}
		sort.Strings(ids)
		for _, id := range ids {
			ri := doc.History[id]
			treeRows = append(treeRows, "("+c05ParseRev(id).coq()+", "+c05OptRev(ri.Parent)+", "+cqBool(ri.Deleted)+")")
			treeDesc[id] = ri.Parent
		}
		for _, l := range doc.History.GetLeaves() {
			if !doc.History[l].Deleted {
				liveLeaves++
			}
		}
	}

	// Known finding: a live revision written over a tombstone is an insert, not a compare-and-swap, so it can
	// overwrite a concurrent acknowledged tombstone revision.  Recognise exactly that shape: the main writer
	// committed a live revision at its FIRST attempt although a competitor committed a deleted revision between
	// its callback and its write, and the document was a tombstone when the main writer read it.
	resurrectionRace := false
	if c.main >= 0 {
		m := c.writers[c.main]
		k := m.attempts
		if m.outcome == "ack" && !m.deleted && k >= 1 && k <= len(m.tombAt) && m.tombAt[k-1] {
			for _, ci := range c.inject[k] {
				cw := c.writers[ci]
				if cw.ran && cw.outcome == "ack" {
					// a competitor committed between the callback and the write of the attempt that succeeded
					resurrectionRace = true
				}
			}
		}
	}
	sigOr := func(sig string) string {
		if resurrectionRace {
			return "lost-update-tombstone-resurrection-race"
		}
		return sig
	}
	// ---- monitors (reflections of the theorems, on the implementation's own results) ----
	committed := map[uint64]int{}
	kinds := ""
	for wi, w := range c.writers {
		if !w.ran {
			continue
		}
		kinds += w.outcome[:2]
		if w.outcome == "ack" {
			committed[w.seq-base0]++
			for _, u := range w.unused {
				committed[u-base0]++
			}
			if doc == nil || doc.History[w.rev] == nil {
				rec.Fail("acked_present", sigOr("acked-write-lost"), map[string]any{"case": desc, "writer": wi, "rev": w.rev}, "acknowledged revision is not in the document history")
			}
		}
	}
	// reported success is durable: every acknowledged live leaf revision can be read back
	if doc != nil {
		for wi, w := range c.writers {
			if w.ran && w.outcome == "ack" && doc.History[w.rev] != nil && !doc.History[w.rev].Deleted && doc.History.isLeaf(w.rev) {
				if _, err := e.col.Get1xRevBody(e.ctx, docid, w.rev, false, nil); err != nil {
					rec.Fail("reported_success_durable", sigOr("swallowed-storage-error"), map[string]any{"case": desc, "writer": wi, "rev": w.rev, "error": err.Error()},
						"write was acknowledged but its revision body cannot be read back")
				}
			}
		}
	}
	relCount := map[uint64]int{}
	for _, r := range released {
		relCount[r]++
	}
	for s := uint64(1); s <= last1-base0; s++ {
		n := committed[s] + relCount[s]
		if n == 0 {
			sig := sigOr("sequence-leak")
			rec.Fail("write_path_accounted", sig, map[string]any{"case": desc, "sequence": s, "committed": fmt.Sprint(committed), "released": released, "outcomes": kinds},
				fmt.Sprintf("sequence %d was reserved but is neither on a stored revision nor published as unused", s))
		} else if n > 1 {
			rec.Fail("write_path_unique", "sequence-reused", map[string]any{"case": desc, "sequence": s}, "sequence is carried/released more than once")
		}
	}
	prev := uint64(0)
	parents := map[string]int{}
	for _, wi := range commitOrder {
		w := c.writers[wi]
		if w.seq-base0 <= prev {
			rec.Fail("acked_seq_increasing", sigOr("sequence-not-increasing"), map[string]any{"case": desc, "writer": wi, "seq": w.seq - base0, "previous": prev}, "acknowledged write did not get a sequence above the one it superseded")
		}
		prev = w.seq - base0
		if p, ok := treeDesc[w.rev]; ok && p != "" && w.push == 0 {
			parents[p]++
			if parents[p] > 1 {
				rec.Fail("one_child_per_parent", "two-children-acked", map[string]any{"case": desc, "parent": p}, "two acknowledged Put writes share a parent revision")
			}
		}
	}
	if !c.allowConflicts && liveLeaves > 1 {
		rec.Fail("no_conflict_single_live_leaf", "conflict-created", map[string]any{"case": desc, "live_leaves": liveLeaves}, "conflict-free database ended with several live leaves")
	}

	// ---- linearizability: replay the acknowledged writes one after another in commit order (Go side, from the
	// writers' own requests and results) and compare with the stored tree ----
	type c05Node struct {
		parent  string
		deleted bool
	}
	replay := map[string]c05Node{}
	hasChild := func(t map[string]c05Node, id string) bool {
		for _, n := range t {
			if n.parent == id {
				return true
			}
		}
		return false
	}
	// winningRevision's order: live before deleted, then generation, then digest
	beats := func(a string, an c05Node, b string, bn c05Node) bool {
		if an.deleted != bn.deleted {
			return !an.deleted
		}
		ra, rb := c05ParseRev(a), c05ParseRev(b)
		if ra.gen != rb.gen {
			return ra.gen > rb.gen
		}
		return ra.dig.Cmp(rb.dig) > 0
	}
	winnerOf := func(t map[string]c05Node) string {
		win := ""
		for id, n := range t {
			if hasChild(t, id) {
				continue
			}
			if win == "" || beats(id, n, win, t[win]) {
				win = id
			}
		}
		return win
	}
	addedRevs := 0
	// C05_conflict_free_second_child_only_forced on the implementation's own acknowledgements: in a conflict-free
	// database (or for a write that asked for noconflicts) an acknowledged write gives a parent a second child only
	// if it is a pushed revision entitled to ForceAllowConflictingTombstone (c05ForceExpected: decided from the kind
	// of connection, not from the code) and the document was a tombstone when it was written
	secondChild := func(wi int, w *c05Writer, rev, par string) {
		if par == "" || !hasChild(replay, par) || (c.allowConflicts && !(w.push > 0 && w.via != c05ViaBody && w.noconf)) {
			return
		}
		tomb := false
		if win := winnerOf(replay); win != "" {
			tomb = replay[win].deleted
		}
		if w.push > 0 && c05ForceExpected(w) && tomb {
			rec.Err("second_child_by_forced_tombstone:" + c05WriterKind(w))
			return
		}
		var sibs []string
		for id, n := range replay {
			if n.parent == par {
				sibs = append(sibs, id)
			}
		}
		sort.Strings(sibs)
		rec.Fail("one_child_per_parent_all", sigOr("second-child-without-forced-tombstone"),
			map[string]any{"case": desc, "writer": wi, "kind": c05WriterKind(w), "rev": rev, "parent": par, "children_already_accepted": sibs,
				"deleted": w.deleted, "noconflicts": w.noconf, "document_was_tombstone": tomb, "allow_conflicts": c.allowConflicts},
			"a write that is not a forced tombstone on a deleted document was acknowledged as a second child of its parent")
	}
	for _, wi := range commitOrder {
		w := c.writers[wi]
		if w.push == 0 {
			par := w.parentRev
			if par == "" {
				// a Put without _rev: on an empty tree it creates the root; otherwise its parent is a tombstone
				// it found as the current revision (db.Put remembers that choice across CAS retries, so at commit
				// time the tombstone need not be the current revision any more -- w_matchrev in the model)
				par = treeDesc[w.rev]
				if par == "" && len(replay) > 0 {
					rec.Fail("tree_serial_replay", sigOr("plan-not-on-serial-tree"), map[string]any{"case": desc, "writer": wi, "rev": w.rev}, "Put without parent acknowledged as a new root although the serial tree is not empty")
				}
				if n, ok := replay[par]; par != "" && ok && !n.deleted {
					rec.Fail("tree_serial_replay", sigOr("plan-not-on-serial-tree"), map[string]any{"case": desc, "writer": wi, "rev": w.rev, "parent": par}, "Put without parent acknowledged as the child of a live revision")
				}
			}
			if par != "" {
				if _, ok := replay[par]; !ok || hasChild(replay, par) {
					rec.Fail("tree_serial_replay", sigOr("plan-not-on-serial-tree"), map[string]any{"case": desc, "writer": wi, "rev": w.rev, "parent": par}, "Put acknowledged on a parent that is not a leaf of the tree the earlier commits produced")
				}
			}
			secondChild(wi, w, w.rev, par)
			replay[w.rev] = c05Node{par, w.deleted}
			addedRevs++
		} else {
			known := len(w.history)
			par := ""
			for k, h := range w.history {
				if _, ok := replay[h]; ok {
					known, par = k, h
					break
				}
			}
			if known == 0 {
				rec.Fail("tree_serial_replay", sigOr("plan-not-on-serial-tree"), map[string]any{"case": desc, "writer": wi, "history": w.history}, "push acknowledged although the serial tree already has its revision")
			}
			for k := known - 1; k >= 0; k-- {
				secondChild(wi, w, w.history[k], par)
				replay[w.history[k]] = c05Node{par, k == 0 && w.deleted}
				par = w.history[k]
				addedRevs++
			}
		}
	}
	if doc != nil || len(replay) > 0 {
		same := doc != nil && len(replay) == len(doc.History)
		if same {
			for id, n := range replay {
				ri := doc.History[id]
				if ri == nil || ri.Parent != n.parent || ri.Deleted != n.deleted {
					same = false
				}
			}
		}
		if !same {
			rec.Fail("tree_serial_replay", sigOr("tree-not-serial-replay"), map[string]any{"case": desc, "replayed": fmt.Sprint(replay), "stored": treeRows},
				"the stored revision tree is not what the acknowledged writes add when run one after another in commit order")
		}
	}
	if doc != nil {
		tombstones, roots, leafCount := 0, 0, 0
		stored := map[string]c05Node{}
		for id, ri := range doc.History {
			stored[id] = c05Node{ri.Parent, ri.Deleted}
			if ri.Deleted {
				tombstones++
			}
			if ri.Parent == "" {
				roots++
			} else if c05ParseRev(id).gen <= c05ParseRev(ri.Parent).gen {
				rec.Fail("generation_above_parent", "generation-not-above-parent", map[string]any{"case": desc, "rev": id, "parent": ri.Parent}, "stored revision's generation is not above its parent's")
			}
		}
		leafCount = len(doc.History.GetLeaves())
		// conflict-free mode without tombstones: a single chain whose length is the number of revisions the acknowledged writes added
		if !c.allowConflicts && tombstones == 0 && (roots != 1 || leafCount != 1 || len(doc.History) != addedRevs) {
			rec.Fail("conflict_free_chain", sigOr("conflict-free-not-a-chain"), map[string]any{"case": desc, "roots": roots, "leaves": leafCount, "revisions": len(doc.History), "added_by_acks": addedRevs},
				"conflict-free database without tombstones: the history is not a single chain of the revisions added by acknowledged writes")
		}
		// the stored current revision is the maximal leaf; the stored sequence is the last commit's
		if want := winnerOf(stored); want != finCur {
			rec.Fail("current_is_max_leaf", sigOr("current-not-max-leaf"), map[string]any{"case": desc, "current": finCur, "max_leaf": want}, "stored current revision is not the maximal leaf of the stored tree")
		}
		if len(commitOrder) > 0 {
			if lw := c.writers[commitOrder[len(commitOrder)-1]]; lw.seq-base0 != finSeq {
				rec.Fail("sequence_is_last_commit", sigOr("stored-sequence-not-last-commit"), map[string]any{"case": desc, "stored": finSeq, "last_commit": lw.seq - base0}, "stored sequence is not the last acknowledged write's")
			}
		}
	}

	// ---- Coq case ----
	var ops, outs, tab []string
	seenTab := map[string]bool{}
	addTab := func(w *c05Writer, parent string) {
		key := fmt.Sprintf("%d|%s", w.tag, parent)
		if !seenTab[key] {
			seenTab[key] = true
			tab = append(tab, "(("+cqI(w.tag)+", "+c05OptRev(parent)+"), "+c05ParseRev(e.revFor(w, parent, false)).dig.String()+")")
			if w.deleted {
				tab = append(tab, "(("+cqI(w.tag+1000000)+", "+c05OptRev(parent)+"), "+c05ParseRev(e.revFor(w, parent, true)).dig.String()+")")
			}
		}
	}
	for _, w := range c.writers {
		par := "None"
		if w.parentRev != "" {
			par = "(Some " + c05ParseRev(w.parentRev).coq() + ")"
		}
		if w.push == 0 {
			addTab(w, w.parentRev)
		}
		if w.push == 0 && w.parentRev == "" && doc != nil {
			// a Put without parent resurrects a tombstoned current revision
			for id, ri := range doc.History {
				if ri.Deleted {
					addTab(w, id)
				}
			}
		}
		fa := make([]string, len(w.failAfterAt))
		for i, b := range w.failAfterAt {
			fa[i] = cqBool(b)
		}
		var hist []string
		for _, h := range w.history {
			hist = append(hist, c05ParseRev(h).coq())
		}
		ctor := "W"
		if w.push > 0 && w.via == c05ViaOpts {
			ctor = "WO " + cqBool(w.optForce) + " " + cqBool(w.noconf)
		} else if w.push > 0 && w.via == c05ViaBlip {
			// the connection as built by connOf -- peer gateway? revtree resolver? HLV resolver? -- and the noconflicts property
			ctor = "WB " + cqBool(c05ConnPeer(w.conn)) + " " + cqBool(c05ConnPull(w.conn)) + " " + cqBool(w.conn == c05PullV4) + " " + cqBool(w.noconf)
		}
		ops = append(ops, fmt.Sprintf("%s %d %s %s %s %s %s %s", ctor, w.tag, par, cqList(hist), cqBool(w.deleted), cqBool(w.reject), cqList(fa), cqBool(w.failWrite && (w.tracked || !w.ran))))
		switch {
		case !w.ran:
			outs = append(outs, "None")
		case w.outcome == "ack":
			outs = append(outs, "(Some (OAck "+c05ParseRev(w.rev).coq()+" "+cqN(w.seq-base0)+"))")
			if _, inTree := treeDesc[w.rev]; inTree && w.push == 0 && e.revFor(w, treeDesc[w.rev], false) != w.rev && e.revFor(w, treeDesc[w.rev], true) != w.rev {
				want := e.revFor(w, treeDesc[w.rev], false)
				e.t.Errorf("harness self-check: computed rev %s, implementation created %s", want, w.rev)
			}
		case w.outcome == "conflict":
			outs = append(outs, "(Some OConflict)")
		case w.outcome == "forbidden":
			outs = append(outs, "(Some OForbidden)")
		case w.outcome == "xcancel":
			outs = append(outs, "(Some OCancel)")
		default:
			outs = append(outs, "(Some OFailed)")
		}
	}
	cur := "None"
	if finCur != "" {
		cur = "(Some " + c05ParseRev(finCur).coq() + ")"
	}
	coq := fmt.Sprintf("CWrite %s %s %s [%s] %s (Fin %s %s %s %s %s %s)", cqBool(c.allowConflicts), cqList(tab), cqList(ops), strings.Join(sched, "; "),
		cqList(outs), cqN(finSeq), cqNList(finUnused), cur, cqList(treeRows), cqNList(released), cqN(last1-base0))
	nontrivial := strings.Contains(kinds, "co") || strings.Contains(kinds, "fo") || strings.Contains(kinds, "fa") || (c.main >= 0 && c.writers[c.main].attempts > 1)
	rec.Case(stream, "write_schedule", coq, map[string]any{"desc": desc, "outcomes": kinds, "schedule": sched, "released": released, "final_seq": finSeq}, nontrivial)
	rec.Err("outcomes:" + kinds)
	for _, w := range c.writers {
		if w.ran && w.push > 0 && w.via != c05ViaBody {
			rec.Err("push_via:" + c05WriterKind(w) + ":" + w.outcome)
		}
		if w.ran && w.push > 0 && w.badGen > 0 {
			rec.Err(fmt.Sprintf("bad_generation_push(kind %d):%s", w.badGen, w.outcome))
		}
	}
	if c.main >= 0 {
		rec.Size(fmt.Sprintf("main_attempts=%d", c.writers[c.main].attempts))
	}
}

func TestVerifC05(t *testing.T) {
	rec := vNewRecorder(t, "C05", "C05.C05_Corr")
	defer rec.Finish()
	rnd := vNewRand(vSeed())
	envs := map[bool]*c05Env{true: c05NewEnv(t, true), false: c05NewEnv(t, false)}
	defer envs[true].close()
	defer envs[false].close()

	mkPush := func(tag, ancOf, nNew int, flags string) *c05Writer {
		return &c05Writer{tag: tag, parentOf: ancOf, push: nNew, deleted: strings.Contains(flags, "d"), reject: strings.Contains(flags, "r"),
			failAfter: strings.Contains(flags, "a"), failWrite: strings.Contains(flags, "w")}
	}
	mkBad := func(tag, ancOf, nNew, bad int, flags string) *c05Writer {
		w := mkPush(tag, ancOf, nNew, flags)
		w.badGen = bad
		return w
	}
	mk := func(tag, parentOf int, flags string) *c05Writer {
		return &c05Writer{tag: tag, parentOf: parentOf, deleted: strings.Contains(flags, "d"), reject: strings.Contains(flags, "r"),
			failAfter: strings.Contains(flags, "a"), failWrite: strings.Contains(flags, "w")}
	}
	// ---- corpus: the schedules of DESIGN section 6 items 1, 2, 5 and the basic races ----
	for _, ac := range []bool{true, false} {
		// two creators race
		envs[ac].runCase(rec, "corpus", &c05Case{allowConflicts: ac, writers: []*c05Writer{mk(1, -1, ""), mk(2, -1, "")}, main: 0, inject: map[int][]int{1: {1}}}, "create-race")
		// two children of rev 1 race
		envs[ac].runCase(rec, "corpus", &c05Case{allowConflicts: ac, writers: []*c05Writer{mk(1, -1, ""), mk(2, 0, ""), mk(3, 0, "")}, setup: []int{0}, main: 1, inject: map[int][]int{1: {2}}}, "child-race")
		// rejected after a lost race
		envs[ac].runCase(rec, "corpus", &c05Case{allowConflicts: ac, writers: []*c05Writer{mk(1, -1, ""), mk(2, 0, "r"), mk(3, 0, "")}, setup: []int{0}, main: 1, inject: map[int][]int{1: {2}}}, "reject-after-race")
		// storage write fails
		envs[ac].runCase(rec, "corpus", &c05Case{allowConflicts: ac, writers: []*c05Writer{mk(1, -1, ""), mk(2, 0, "w")}, setup: []int{0}, main: 1}, "write-error")
	}
	// DESIGN section 6 item 1: writer A puts a child of rev 1; attempts 1 and 2 lose the CAS race against pushed
	// root branches; during attempt 2 a child of rev 1 is also added, so attempt 3 gets 409
	envs[true].runCase(rec, "corpus", &c05Case{allowConflicts: true,
		writers: []*c05Writer{mk(1, -1, ""), mk(2, 0, ""), mkPush(3, -1, 1, ""), mkPush(4, -1, 1, ""), mk(5, 0, "")},
		setup:   []int{0}, main: 1, inject: map[int][]int{1: {2}, 2: {3, 4}}}, "item1-cas-cas-409")
	// items 2 / 5: persisting the out-of-line body of a non-winning revision fails after the sequence was assigned
	envs[true].runCase(rec, "corpus", &c05Case{allowConflicts: true,
		writers: []*c05Writer{mk(1, -1, ""), mkPush(2, -1, 1, ""), mk(3, 0, ""), mk(4, 2, ""), mk(5, 1, "a")},
		setup:   []int{0, 1, 2, 3}, main: 4}, "fail-after-assign")
	envs[true].runCase(rec, "corpus", &c05Case{allowConflicts: true,
		writers: []*c05Writer{mk(1, -1, ""), mkPush(2, -1, 1, ""), mk(3, 0, ""), mk(4, 2, ""), mk(5, 1, "a"), mk(6, 3, "")},
		setup:   []int{0, 1, 2, 3}, main: 4, inject: map[int][]int{1: {5}}}, "fail-after-assign-after-race")
	// pushes: known revision, branch in conflict-free mode, tombstone of a branch
	for _, ac := range []bool{true, false} {
		envs[ac].runCase(rec, "corpus", &c05Case{allowConflicts: ac, main: -1,
			writers: []*c05Writer{mk(1, -1, ""), mkPush(2, 0, 2, ""), mkPush(2, 0, 2, ""), mkPush(3, 0, 1, ""), mkPush(4, -1, 2, ""), mkPush(5, 3, 1, "d")},
			setup:   []int{0, 1, 2, 3, 4, 5}}, "push-variants")
	}

	// the known finding's schedule (C05_Refuted.v res_ops), deterministically: a live child of a tombstone is prepared,
	// a deletion of the same tombstone leaf is acknowledged in between, the resurrection write is not CAS-checked
	envs[true].runCase(rec, "corpus", &c05Case{allowConflicts: true,
		writers: []*c05Writer{mkPush(1, -1, 2, "d"), mk(2, 0, ""), mk(3, 0, "d")},
		setup:   []int{0}, main: 1, inject: map[int][]int{1: {2}}}, "tombstone-resurrection-race")

	// RevTree.addRevision's generation check: pushed revisions whose generation is not above their parent's are
	// refused with an error and leave no trace -- alone, after good pushes, and racing with a REST writer that
	// carries a reserved sequence
	for _, ac := range []bool{true, false} {
		envs[ac].runCase(rec, "corpus", &c05Case{allowConflicts: ac, main: -1,
			writers: []*c05Writer{mk(1, -1, ""), mk(2, 0, ""), mkBad(3, 1, 1, 1, ""), mkBad(4, 1, 2, 1, ""), mkBad(5, 1, 2, 2, ""), mkBad(6, 1, 1, 3, ""), mkBad(7, -1, 2, 2, ""), mkBad(8, 0, 1, 1, "d"), mkPush(9, 1, 2, ""), mkBad(10, 8, 1, 1, "")},
			setup:   []int{0, 1, 2, 3, 4, 5, 6, 7, 8, 9}}, "push-generation-not-above-parent")
		envs[ac].runCase(rec, "corpus", &c05Case{allowConflicts: ac,
			writers: []*c05Writer{mk(1, -1, ""), mk(2, 0, ""), mkBad(3, 0, 1, 1, ""), mkBad(4, 0, 2, 2, ""), mk(5, 0, "")},
			setup:   []int{0}, main: 1, inject: map[int][]int{1: {2, 3, 4}}}, "bad-generation-push-inside-race")
		envs[ac].runCase(rec, "corpus", &c05Case{allowConflicts: ac,
			writers: []*c05Writer{mk(1, -1, ""), mkBad(2, 0, 2, 2, ""), mk(3, 0, ""), mkBad(4, 2, 1, 1, "")},
			setup:   []int{0}, main: 1, inject: map[int][]int{1: {2}}, after: []int{3}}, "bad-generation-push-loses-race")
	}

	// the same revision pushed by two writers at once (two replicators): the loser reserved a sequence, lost the
	// CAS race, and finds on retry that the revision is already there (cancelled no-op) -- it must still give
	// the sequence back
	for _, ac := range []bool{true, false} {
		envs[ac].runCase(rec, "corpus", &c05Case{allowConflicts: ac,
			writers: []*c05Writer{mk(1, -1, ""), mkPush(2, 0, 1, ""), mkPush(2, 0, 1, "")},
			setup:   []int{0}, main: 1, inject: map[int][]int{1: {2}}}, "same-push-race")
		envs[ac].runCase(rec, "corpus", &c05Case{allowConflicts: ac,
			writers: []*c05Writer{mk(1, -1, ""), mkPush(2, 0, 2, ""), mkPush(3, 0, 1, ""), mkPush(2, 0, 2, "")},
			setup:   []int{0}, main: 1, inject: map[int][]int{1: {2}, 2: {3}}}, "same-push-race-after-retry")
		envs[ac].runCase(rec, "corpus", &c05Case{allowConflicts: ac,
			writers: []*c05Writer{mkPush(7, -1, 2, ""), mkPush(7, -1, 2, "")},
			main:    0, inject: map[int][]int{1: {1}}}, "same-root-push-race")
	}

	// ---- write options and the BLIP rev handler (C05/RevOptions.v) ----
	// pushed revisions written with explicit PutDocOptions, and rev messages handled by the REAL blipHandler.handleRev
	// of real BlipSyncContexts: clients (revtree / version-vector protocol), the passive side of an inter-gateway
	// replication, the active side of a pull replication (resolvers configured); with and without the noconflicts
	// property; on live and on tombstoned documents
	mkB := func(tag, ancOf, nNew, conn int, flags string) *c05Writer {
		w := mkPush(tag, ancOf, nNew, flags)
		w.via, w.conn, w.noconf = c05ViaBlip, conn, strings.Contains(flags, "n")
		return w
	}
	mkO := func(tag, ancOf, nNew int, force bool, flags string) *c05Writer {
		w := mkPush(tag, ancOf, nNew, flags)
		w.via, w.optForce, w.noconf = c05ViaOpts, force, strings.Contains(flags, "n")
		return w
	}
	seqAll := func(n int) []int {
		r := make([]int, n)
		for i := range r {
			r[i] = i
		}
		return r
	}
	for _, ac := range []bool{false, true} {
		for _, nc := range []string{"", "n"} {
			for k := 0; k < c05ConnKinds; k++ {
				name := func(sc string) string {
					return fmt.Sprintf("blip-%s-%s-ac=%v-noconflicts=%v", c05ConnNames[k], sc, ac, nc != "")
				}
				// two replicators delete the same revision independently: the second tombstone finds the document deleted
				envs[ac].runCase(rec, "blip-corpus", &c05Case{allowConflicts: ac, main: -1, setup: seqAll(3),
					writers: []*c05Writer{mkB(1, -1, 1, k, nc), mkB(2, 0, 1, k, "d"+nc), mkB(3, 0, 1, k, "d"+nc)}}, name("second-tombstone-of-same-parent"))
				// deleted through the REST API first, then a replicator that still holds the revision pushes its own tombstone
				envs[ac].runCase(rec, "blip-corpus", &c05Case{allowConflicts: ac, main: -1, setup: seqAll(3),
					writers: []*c05Writer{mk(1, -1, ""), mk(2, 0, "d"), mkB(3, 0, 1, k, "d"+nc)}}, name("tombstone-after-rest-delete"))
				// tombstone of a revision that is no longer a leaf, document live
				envs[ac].runCase(rec, "blip-corpus", &c05Case{allowConflicts: ac, main: -1, setup: seqAll(3),
					writers: []*c05Writer{mk(1, -1, ""), mk(2, 0, ""), mkB(3, 0, 1, k, "d"+nc)}}, name("tombstone-of-non-leaf-live-document"))
				// live revision branching from a revision of a deleted document
				envs[ac].runCase(rec, "blip-corpus", &c05Case{allowConflicts: ac, main: -1, setup: seqAll(3),
					writers: []*c05Writer{mk(1, -1, ""), mk(2, 0, "d"), mkB(3, 0, 1, k, nc)}}, name("live-branch-on-deleted-document"))
				// tombstone with an unknown history onto a deleted document; then a third tombstone of the first revision
				envs[ac].runCase(rec, "blip-corpus", &c05Case{allowConflicts: ac, main: -1, setup: seqAll(4),
					writers: []*c05Writer{mk(1, -1, ""), mk(2, 0, "d"), mkB(3, -1, 2, k, "d"+nc), mkB(4, 0, 2, k, "d"+nc)}}, name("disconnected-tombstone-on-deleted-document"))
				// a live disconnected branch of a LOWER generation resurrects a tombstoned document (legal, IsIllegalConflict case c);
				// over a version-vector connection the HLV bookkeeping refuses it (c05HLVRefusal)
				envs[ac].runCase(rec, "blip-corpus", &c05Case{allowConflicts: ac, main: -1, setup: seqAll(3),
					writers: []*c05Writer{mkB(1, -1, 2, k, "d"+nc), mkB(2, -1, 1, k, nc), mkB(3, 0, 1, k, nc)}}, name("lower-generation-branch-resurrects-tombstone"))
				// a pushed tombstone races with a REST delete of the same revision (between its callback and its write)
				envs[ac].runCase(rec, "blip-corpus", &c05Case{allowConflicts: ac, setup: []int{0}, main: 1, inject: map[int][]int{1: {2}},
					writers: []*c05Writer{mk(1, -1, ""), mkB(2, 0, 1, k, "d"+nc), mk(3, 0, "d")},
				}, name("tombstone-races-with-rest-delete"))
				// a pushed tombstone loses the race to a pushed tombstone of the same revision from another connection
				envs[ac].runCase(rec, "blip-corpus", &c05Case{allowConflicts: ac, setup: []int{0, 1}, main: 2, inject: map[int][]int{1: {3}},
					writers: []*c05Writer{mk(1, -1, ""), mk(2, 0, ""), mkB(3, 1, 1, k, "d"+nc), mkB(4, 1, 1, (k+1)%c05ConnKinds, "d"+nc), mkB(5, 1, 1, k, "d"+nc)}, after: []int{4},
				}, name("tombstone-loses-race-to-tombstone"))
			}
			// explicit options, also the combinations the rev handler never derives (forced live revision)
			for _, force := range []bool{false, true} {
				name := func(sc string) string {
					return fmt.Sprintf("options-force=%v-%s-ac=%v-noconflicts=%v", force, sc, ac, nc != "")
				}
				envs[ac].runCase(rec, "blip-corpus", &c05Case{allowConflicts: ac, main: -1, setup: seqAll(4),
					writers: []*c05Writer{mkO(1, -1, 1, force, nc), mkO(2, 0, 1, force, "d"+nc), mkO(3, 0, 1, force, "d"+nc), mkO(4, 0, 1, force, nc)}}, name("second-tombstone-then-live-branch"))
				envs[ac].runCase(rec, "blip-corpus", &c05Case{allowConflicts: ac, main: -1, setup: seqAll(4),
					writers: []*c05Writer{mk(1, -1, ""), mk(2, 0, ""), mkO(3, 0, 1, force, "d"+nc), mkO(4, 0, 2, force, nc)}}, name("non-leaf-parent-live-document"))
			}
		}
	}
	// random: mostly pushed revisions over random connections, many tombstones, sequential and racing
	nb := vBudget(160, 1100)
	for i := 0; i < nb; i++ {
		ac := rnd.Chance(30)
		nw := 3 + rnd.Intn(4)
		c := &c05Case{allowConflicts: ac, main: -1, inject: map[int][]int{}}
		for j := 0; j < nw; j++ {
			flags := ""
			if rnd.Chance(45) {
				flags += "d"
			}
			if rnd.Chance(35) {
				flags += "n"
			}
			if rnd.Chance(5) {
				flags += "r"
			}
			par := -1
			if j > 0 && rnd.Chance(85) {
				par = rnd.Intn(j)
			}
			switch {
			case j == 0 || rnd.Chance(25):
				c.writers = append(c.writers, mk(j+1, par, strings.ReplaceAll(flags, "n", "")))
			case rnd.Chance(15):
				c.writers = append(c.writers, mkPush(j+1, par, 1+rnd.Intn(2), strings.ReplaceAll(flags, "n", "")))
			case rnd.Chance(18):
				c.writers = append(c.writers, mkO(j+1, par, 1+rnd.Intn(2), rnd.Bool(), flags))
			default:
				kind := c05PlainV3
				switch r := rnd.Intn(100); {
				case r < 35:
					kind = c05PlainV3
				case r < 50:
					kind = c05PlainV4
				case r < 70:
					kind = c05PeerV3
				case r < 80:
					kind = c05PeerV4
				case r < 92:
					kind = c05PullV3
				default:
					kind = c05PullV4
				}
				n := 1
				if rnd.Chance(20) {
					n = 2
				}
				c.writers = append(c.writers, mkB(j+1, par, n, kind, flags))
			}
		}
		if rnd.Chance(60) {
			c.setup = seqAll(nw)
		} else {
			ns := 1 + rnd.Intn(2)
			if ns > nw-2 {
				ns = nw - 2
			}
			c.setup = seqAll(ns)
			c.main = ns
			att := 1
			for j := ns + 1; j < nw; j++ {
				if rnd.Intn(4) == 0 {
					c.after = append(c.after, j)
				} else {
					c.inject[att] = append(c.inject[att], j)
					if rnd.Chance(50) {
						att++
					}
				}
			}
		}
		envs[ac].runCase(rec, "blip-random", c, fmt.Sprintf("blip-random-%d", i))
	}

	// ---- random schedules ----
	n := vBudget(220, 1500)
	for i := 0; i < n; i++ {
		ac := rnd.Bool()
		nw := 3 + rnd.Intn(5)
		c := &c05Case{allowConflicts: ac, main: -1, inject: map[int][]int{}}
		for j := 0; j < nw; j++ {
			flags := ""
			if rnd.Chance(15) {
				flags += "d"
			}
			if rnd.Chance(12) {
				flags += "r"
			}
			if ac && rnd.Chance(15) {
				flags += "a"
			}
			if rnd.Chance(8) {
				flags += "w"
			}
			par := -1
			if j > 0 {
				switch {
				case rnd.Chance(80):
					par = rnd.Intn(j)
				case rnd.Chance(30):
					par = -2
				}
			}
			if j > 0 && rnd.Chance(12) {
				// a second writer pushing exactly the revision an earlier push writer pushes
				var prev *c05Writer
				for _, pw := range c.writers {
					if pw.push > 0 {
						prev = pw
					}
				}
				if prev != nil {
					c.writers = append(c.writers, mkPush(prev.tag, prev.parentOf, prev.push, flags))
					continue
				}
			}
			if rnd.Chance(30) {
				pw := mkPush(j+1, par, 1+rnd.Intn(2), flags)
				if rnd.Chance(18) {
					pw.badGen = 1 + rnd.Intn(3)
				}
				c.writers = append(c.writers, pw)
			} else {
				c.writers = append(c.writers, mk(j+1, par, flags))
			}
		}
		// partition writers: setup prefix, main, competitors per attempt, after
		ns := rnd.Intn(3)
		if ns > nw-2 {
			ns = nw - 2
		}
		for j := 0; j < ns; j++ {
			c.setup = append(c.setup, j)
		}
		c.main = ns
		rest := []int{}
		for j := ns + 1; j < nw; j++ {
			rest = append(rest, j)
		}
		att := 1
		for _, j := range rest {
			switch rnd.Intn(4) {
			case 0:
				c.after = append(c.after, j)
			default:
				c.inject[att] = append(c.inject[att], j)
				if rnd.Chance(60) {
					att++
				}
			}
		}
		envs[ac].runCase(rec, "random", c, fmt.Sprintf("random-%d", i))
	}

	// ---- version-vector protocol (db.PutExistingCurrentVersion): monitor-only, see verif_c05_hlv_test.go ----
	c05HLVStream(rec, rnd, envs[false])
	for _, ac := range []bool{true, false} {
		if envs[ac].hlvRefusals > 0 {
			rec.Extra(fmt.Sprintf("legacy_rev_refused_by_hlv_monotonicity(allow_conflicts=%v)", ac), map[string]any{"count": envs[ac].hlvRefusals, "first": envs[ac].hlvRefusalSample})
		}
	}
}
