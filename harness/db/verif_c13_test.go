//go:build verif

package db

import (
	"context"
	"encoding/json"
	"fmt"
	"math"
	"os"
	"sort"
	"strconv"
	"strings"
	"testing"

	"github.com/couchbase/sync_gateway/auth"
	"github.com/couchbase/sync_gateway/base"
	"github.com/couchbase/sync_gateway/channels"
)

// C13 -- a pulling client's copy always matches the user's current access.
//
// The harness drives a REAL database (rosmar, default collection, sync function executing channel() / access() /
// role() from document fields) with histories of
//   put     create / update / channel move / resurrect of a document (with channel assignment and grants)
//   del     tombstone
//   uchans  admin channels of the user      uroles  admin roles of the user
//   rchans  create a role / admin channels of a role (re-creates a deleted role)      delrole  soft delete of a role
//   pull    ONE changes request of the user: MultiChangesFeed("*") with Revocations, since = the token of the last row
//           received (through String()/ParsePlainSequenceID as a REST client would), limit 0..3
// and keeps a protocol-following client (the Go mirror of Client.v).  After every pull that caught up (fewer rows than
// the limit) the client's documents are compared with the visible set computed from the ground truth of the history
// and with an admin view of the implementation's own state.  Before every pull a SNAPSHOT of everything the feed reads
// (the loaded user and roles, the per-channel logs, the documents' channel histories and active channels, the cached
// sequence) is taken; the Coq model of the feed (Feed.v) must predict the rows from the snapshot, and the component
// functions are compared one to one on the same snapshots and on synthetic principals written as raw JSON.

const c13SyncFn = `function(doc, oldDoc) {
	if (doc.chans) { channel(doc.chans); }
	if (doc.acc) { for (var i = 0; i < doc.acc.length; i++) { access(doc.acc[i].to, doc.acc[i].v); } }
	if (doc.rol) { for (var i = 0; i < doc.rol.length; i++) { role(doc.rol[i].to, doc.rol[i].v); } }
}`

// channel ids in the Coq model: "*" = 0, then index+1 in this list
var c13ChanNames = []string{"!", "A", "B", "C", "D"}

const c13NDocs = 4
const c13NRoles = 2
const c13MaxU64 = uint64(math.MaxUint64)

func c13ChanID(name string) (uint64, bool) {
	if name == "*" {
		return 0, true
	}
	for i, c := range c13ChanNames {
		if c == name {
			return uint64(i + 1), true
		}
	}
	return 0, false
}
func c13RoleName(i int) string { return fmt.Sprintf("r%d", i) }
func c13DocName(i int) string  { return fmt.Sprintf("d%d", i) }
func c13RoleID(name string) (uint64, bool) {
	if strings.HasPrefix(name, "r") {
		if v, err := strconv.Atoi(name[1:]); err == nil && v >= 1 {
			return uint64(v), true
		}
	}
	return 0, false
}
func c13DocID(name string) (uint64, bool) {
	if strings.HasPrefix(name, "d") {
		if v, err := strconv.Atoi(name[1:]); err == nil && v >= 1 {
			return uint64(v), true
		}
	}
	return 0, false
}

type c13Grant struct {
	Role bool  `json:"to_role,omitempty"` // access(): the grantee is role To (otherwise the user)
	To   int   `json:"to,omitempty"`
	V    []int `json:"v"` // access(): channel indexes (into c13ChanNames); role(): role numbers
}

type c13Op struct {
	Kind  string     `json:"kind"`
	Doc   int        `json:"doc,omitempty"`
	Chans []int      `json:"chans,omitempty"` // put: channel indexes
	Acc   []c13Grant `json:"acc,omitempty"`
	Rol   []c13Grant `json:"rol,omitempty"`
	Who   int        `json:"who,omitempty"` // role number
	Set   []int      `json:"set,omitempty"` // uchans/rchans: channel indexes; uroles: role numbers
	Limit int        `json:"limit,omitempty"`
}

func (o c13Op) String() string {
	b, _ := json.Marshal(o)
	return string(b)
}

// ---------- ground truth of a history (specification side of the monitors) ----------
type c13TDoc struct {
	exists bool
	live   bool
	chans  []int
	acc    []c13Grant
	rol    []c13Grant
	rev    string
}
type c13TRole struct {
	exists  bool
	deleted bool
	ch      map[int]bool
}
type c13Truth struct {
	docs  map[int]*c13TDoc
	uch   map[int]bool
	uro   map[int]bool
	roles map[int]*c13TRole
}

func c13NewTruth() *c13Truth {
	return &c13Truth{docs: map[int]*c13TDoc{}, uch: map[int]bool{}, uro: map[int]bool{}, roles: map[int]*c13TRole{}}
}

func (tr *c13Truth) docGrantsTo(role bool, who int) map[int]bool {
	res := map[int]bool{}
	for _, d := range tr.docs {
		if !d.exists || !d.live {
			continue
		}
		for _, g := range d.acc {
			if g.Role == role && (!role || g.To == who) {
				for _, v := range g.V {
					res[v] = true
				}
			}
		}
	}
	return res
}

func (tr *c13Truth) userRoles() map[int]bool {
	res := map[int]bool{}
	for r := range tr.uro {
		res[r] = true
	}
	for _, d := range tr.docs {
		if !d.exists || !d.live {
			continue
		}
		for _, g := range d.rol {
			for _, v := range g.V {
				res[v] = true
			}
		}
	}
	return res
}

// the user's current channels: explicit + granted by live documents + "!" + the same for every existing role held
func (tr *c13Truth) userChans() map[int]bool {
	res := map[int]bool{0: true}
	for c := range tr.uch {
		res[c] = true
	}
	for c := range tr.docGrantsTo(false, 0) {
		res[c] = true
	}
	for r := range tr.userRoles() {
		ro := tr.roles[r]
		if ro == nil || !ro.exists || ro.deleted {
			continue
		}
		res[0] = true
		for c := range ro.ch {
			res[c] = true
		}
		for c := range tr.docGrantsTo(true, r) {
			res[c] = true
		}
	}
	return res
}

// documents whose current revision the user can see now
func (tr *c13Truth) visible() map[int]string {
	uc := tr.userChans()
	res := map[int]string{}
	for i, d := range tr.docs {
		if !d.exists || !d.live {
			continue
		}
		for _, c := range d.chans {
			if uc[c] {
				res[i] = d.rev
				break
			}
		}
	}
	return res
}

func c13SortedVisible(m map[int]string) []int {
	ks := make([]int, 0, len(m))
	for k := range m {
		ks = append(ks, k)
	}
	sort.Ints(ks)
	return ks
}

func c13SortedKeys(m map[int]bool) []int {
	ks := make([]int, 0, len(m))
	for k, v := range m {
		if v {
			ks = append(ks, k)
		}
	}
	sort.Ints(ks)
	return ks
}

func c13SetOf(v []int) map[int]bool {
	m := map[int]bool{}
	for _, x := range v {
		m[x] = true
	}
	return m
}

// ---------- rows, client (Go mirror of Client.v) ----------
type c13Row struct {
	T     uint64   `json:"t"`
	L     uint64   `json:"l,omitempty"`
	S     uint64   `json:"s"`
	Doc   uint64   `json:"doc"` // 0: principal row
	Rev   uint64   `json:"rev"`
	Rm    []uint64 `json:"rm,omitempty"`
	Del   bool     `json:"del,omitempty"`
	Revk  bool     `json:"revoked,omitempty"`
	AllRm bool     `json:"all_removed,omitempty"`
	Princ bool     `json:"principal,omitempty"`
	RevS  string   `json:"rev_s,omitempty"`
}

type c13Client map[uint64]uint64 // doc -> revision held

func (c c13Client) apply(r c13Row) {
	if r.Princ {
		return
	}
	if r.Revk || r.AllRm || r.Del {
		delete(c, r.Doc)
		return
	}
	c[r.Doc] = r.Rev
}
func (c c13Client) copyOf() c13Client {
	n := c13Client{}
	for k, v := range c {
		n[k] = v
	}
	return n
}
func (c c13Client) coq() string {
	ks := make([]uint64, 0, len(c))
	for k := range c {
		ks = append(ks, k)
	}
	sort.Slice(ks, func(i, j int) bool { return ks[i] < ks[j] })
	parts := make([]string, len(ks))
	for i, k := range ks {
		parts[i] = "(" + cqN(k) + "," + cqN(c[k]) + ")"
	}
	return "[" + strings.Join(parts, ";") + "]"
}

func c13RowCoq(r c13Row) string {
	return fmt.Sprintf("(mkRow %d %d %d %d %s %s %s %s %s)", r.T, r.S, r.Doc, r.Rev, cqNList(r.Rm), cqBool(r.Del), cqBool(r.Revk), cqBool(r.AllRm), cqBool(r.Princ))
}
func c13RowsCoq(rs []c13Row) string {
	parts := make([]string, len(rs))
	for i, r := range rs {
		parts[i] = c13RowCoq(r)
	}
	return cqList(parts)
}

// ---------- snapshot of everything the feed reads ----------
type c13Pair struct{ A, B uint64 }
type c13Hist struct {
	Name    uint64
	Entries []c13Pair
}
type c13RoleSt struct {
	ID      uint64
	Deleted bool
	Chans   []c13Pair
	Hist    []c13Hist
}
type c13UserSt struct {
	Seq      uint64
	Chans    []c13Pair
	Hist     []c13Hist
	Roles    []c13Pair
	RoleHist []c13Hist
}
type c13LogE struct {
	Seq, Doc, Rev uint64
	Rm, Del       bool
}
type c13DocEnt struct{ Name, Start, End uint64 }
type c13DocInfo struct {
	ID     uint64
	Hist   []c13DocEnt
	Active []uint64
	HasAct bool
	Seq    uint64 // current sequence of the document (classification of failures only; not part of the Coq snapshot)
}
type c13Snap struct {
	Cached uint64
	User   c13UserSt
	Roles  []c13RoleSt
	Logs   map[uint64][]c13LogE
	Docs   []c13DocInfo
}

func c13PairsCoq(ps []c13Pair) string {
	parts := make([]string, len(ps))
	for i, p := range ps {
		parts[i] = "(" + cqN(p.A) + "," + cqN(p.B) + ")"
	}
	return "[" + strings.Join(parts, ";") + "]"
}
func c13HistCoq(h []c13Hist) string {
	parts := make([]string, len(h))
	for i, e := range h {
		parts[i] = "(" + cqN(e.Name) + "," + c13PairsCoq(e.Entries) + ")"
	}
	return "[" + strings.Join(parts, ";") + "]"
}
func c13UserCoq(u c13UserSt) string {
	return "(mkUser " + cqN(u.Seq) + " " + c13PairsCoq(u.Chans) + " " + c13HistCoq(u.Hist) + " " + c13PairsCoq(u.Roles) + " " + c13HistCoq(u.RoleHist) + ")"
}
func c13RolesCoq(rs []c13RoleSt) string {
	parts := make([]string, len(rs))
	for i, r := range rs {
		parts[i] = "(mkRole " + cqN(r.ID) + " " + cqBool(r.Deleted) + " " + c13PairsCoq(r.Chans) + " " + c13HistCoq(r.Hist) + ")"
	}
	return cqList(parts)
}
func c13DocEntsCoq(es []c13DocEnt) string {
	parts := make([]string, len(es))
	for i, e := range es {
		parts[i] = fmt.Sprintf("(%d,%d,%d)", e.Name, e.Start, e.End)
	}
	return "[" + strings.Join(parts, ";") + "]"
}
func c13SnapCoq(s *c13Snap) string {
	var logs []string
	ks := make([]uint64, 0, len(s.Logs))
	for k := range s.Logs {
		ks = append(ks, k)
	}
	sort.Slice(ks, func(i, j int) bool { return ks[i] < ks[j] })
	for _, k := range ks {
		es := make([]string, len(s.Logs[k]))
		for i, e := range s.Logs[k] {
			es[i] = fmt.Sprintf("(mkLog %d %d %d %s %s)", e.Seq, e.Doc, e.Rev, cqBool(e.Rm), cqBool(e.Del))
		}
		logs = append(logs, "("+cqN(k)+","+cqList(es)+")")
	}
	docs := make([]string, len(s.Docs))
	for i, d := range s.Docs {
		act := "None"
		if d.HasAct {
			act = "(Some " + cqNList(d.Active) + ")"
		}
		docs[i] = "(mkDoc " + cqN(d.ID) + " " + c13DocEntsCoq(d.Hist) + " " + act + ")"
	}
	return "(mkSnap " + cqN(s.Cached) + " " + c13UserCoq(s.User) + " " + c13RolesCoq(s.Roles) + " " + cqList(logs) + " " + cqList(docs) + ")"
}

func c13TimedSet(ts channels.TimedSet, id func(string) (uint64, bool)) ([]c13Pair, error) {
	var res []c13Pair
	for n, v := range ts {
		k, ok := id(n)
		if !ok {
			return nil, fmt.Errorf("unknown name %q", n)
		}
		res = append(res, c13Pair{k, v.Sequence})
	}
	sort.Slice(res, func(i, j int) bool { return res[i].A < res[j].A })
	return res, nil
}
func c13History(h auth.TimedSetHistory, id func(string) (uint64, bool)) ([]c13Hist, error) {
	var res []c13Hist
	for n, g := range h {
		k, ok := id(n)
		if !ok {
			return nil, fmt.Errorf("unknown name %q", n)
		}
		e := c13Hist{Name: k}
		for _, p := range g.Entries {
			e.Entries = append(e.Entries, c13Pair{p.StartSeq, p.EndSeq})
		}
		res = append(res, e)
	}
	sort.Slice(res, func(i, j int) bool { return res[i].Name < res[j].Name })
	return res, nil
}

// ---------- the real database ----------
type c13Env struct {
	t    *testing.T
	db   *Database
	ctx  context.Context
	col  *DatabaseCollectionWithUser
	revs map[string]uint64
	n    int
	named bool // the database serves one named collection instead of _default._default
}

// named: the database serves ONE NAMED collection (scope.collection of the test bucket) instead of _default._default; the
// principals then keep their grants, histories and invalidation sequences under collection_access.<scope>.<collection>
func c13NewEnv(t *testing.T, named bool) *c13Env {
	co := DefaultCacheOptions()
	opts := DatabaseContextOptions{Scopes: GetScopesOptionsDefaultCollectionOnly(t), CacheOptions: &co,
		ClientPartitionWindow: base.DefaultClientPartitionWindow} // production default (rest config): grant history is kept for 30 days
	if named {
		opts.Scopes = nil // SetupTestDBForBucketWithOptions picks one named collection of the test bucket
	}
	db, ctx := SetupTestDBWithOptions(t, opts)
	db.DatabaseContext.AllowEmptyPassword = true
	col, cctx := GetSingleDatabaseCollectionWithUser(ctx, t, db)
	col.ChannelMapper = channels.NewChannelMapper(cctx, c13SyncFn, db.Options.JavascriptTimeout)
	if named && base.IsDefaultCollection(col.ScopeName, col.Name) {
		t.Fatalf("c13: a named collection was requested but the database serves the default collection")
	}
	return &c13Env{t: t, db: db, ctx: cctx, col: col, revs: map[string]uint64{}, named: named}
}

// the explicit channels of an admin request, for the collection under test
func (e *c13Env) princConfig(name string, set base.Set) *auth.PrincipalConfig {
	cfg := &auth.PrincipalConfig{Name: &name}
	if !e.named {
		cfg.ExplicitChannels = set
		return cfg
	}
	cfg.SetExplicitChannels(e.col.ScopeName, e.col.Name, set.ToArray()...)
	return cfg
}
func (e *c13Env) close() { e.db.Close(e.ctx) }

func (e *c13Env) revID(rev string) uint64 {
	if rev == "" {
		return 0
	}
	if v, ok := e.revs[rev]; ok {
		return v
	}
	v := uint64(len(e.revs) + 1)
	e.revs[rev] = v
	return v
}

func (e *c13Env) grantsJSON(gs []c13Grant, roleGrants bool) []any {
	var res []any
	for _, g := range gs {
		to := "u"
		if g.Role {
			to = channels.RoleAccessPrefix + c13RoleName(g.To)
		}
		vs := []any{}
		for _, v := range g.V {
			if roleGrants {
				vs = append(vs, channels.RoleAccessPrefix+c13RoleName(v))
			} else {
				vs = append(vs, c13ChanNames[v])
			}
		}
		res = append(res, map[string]any{"to": to, "v": vs})
	}
	return res
}

func (e *c13Env) chanSet(idx []int) base.Set {
	set := base.Set{}
	for _, c := range idx {
		set[c13ChanNames[c]] = struct{}{}
	}
	return set
}

// raw persisted state of a principal (before a load rebuilds it)
type c13RawPrinc struct {
	Name            string               `json:"name"`
	Channels        channels.TimedSet    `json:"all_channels"`
	ChannelInvalSeq uint64               `json:"channel_inval_seq"`
	ChannelHistory  auth.TimedSetHistory `json:"channel_history"`
	RolesSince      channels.TimedSet    `json:"rolesSince"`
	RoleInvalSeq    uint64               `json:"role_inval_seq"`
	RoleHistory     auth.TimedSetHistory `json:"role_history"`
	Deleted         bool                 `json:"deleted"`
	Sequence        uint64               `json:"sequence"`
	CollectionAccess map[string]map[string]*struct {
		Channels        channels.TimedSet    `json:"all_channels"`
		ChannelInvalSeq uint64               `json:"channel_inval_seq"`
		ChannelHistory  auth.TimedSetHistory `json:"channel_history"`
	} `json:"collection_access"`
}

func (e *c13Env) rawPrinc(user bool, name string) *c13RawPrinc {
	a := e.db.Authenticator(e.ctx)
	id := a.DocIDForRole(name)
	if user {
		id = a.DocIDForUser(name)
	}
	raw, _, err := e.db.MetadataStore.GetRaw(e.ctx, id)
	if err != nil || raw == nil {
		return nil
	}
	var p c13RawPrinc
	if err := json.Unmarshal(raw, &p); err != nil {
		return nil
	}
	if e.named {
		// the collection under test
		p.Channels, p.ChannelInvalSeq, p.ChannelHistory = nil, 0, nil
		if ca := p.CollectionAccess[e.col.ScopeName][e.col.Name]; ca != nil {
			p.Channels, p.ChannelInvalSeq, p.ChannelHistory = ca.Channels, ca.ChannelInvalSeq, ca.ChannelHistory
		}
	}
	return &p
}

// persisted invalidation sequences: user channels, user roles, then the channels of every live role
func (e *c13Env) invalSeqs() []uint64 {
	var out []uint64
	if u := e.rawPrinc(true, "u"); u != nil {
		out = append(out, u.ChannelInvalSeq, u.RoleInvalSeq)
	} else {
		out = append(out, 0, 0)
	}
	for r := 1; r <= c13NRoles; r++ {
		if p := e.rawPrinc(false, c13RoleName(r)); p != nil && !p.Deleted {
			out = append(out, p.ChannelInvalSeq)
		} else {
			out = append(out, 0)
		}
	}
	return out
}

// run one mutating operation on the real code; tr is consulted for the current revision
func (e *c13Env) do(tr *c13Truth, op c13Op) (rev string, err error) {
	switch op.Kind {
	case "put":
		e.n++
		body := Body{"n": e.n}
		names := []any{}
		for _, c := range op.Chans {
			names = append(names, c13ChanNames[c])
		}
		body["chans"] = names
		if len(op.Acc) > 0 {
			body["acc"] = e.grantsJSON(op.Acc, false)
		}
		if len(op.Rol) > 0 {
			body["rol"] = e.grantsJSON(op.Rol, true)
		}
		if d := tr.docs[op.Doc]; d != nil && d.exists && d.live {
			body[BodyRev] = d.rev
		}
		rev, _, err = e.col.Put(e.ctx, c13DocName(op.Doc), body)
		return rev, err
	case "del":
		d := tr.docs[op.Doc]
		if d == nil || !d.exists || !d.live {
			return "", nil
		}
		rev, _, err = e.col.DeleteDoc(e.ctx, c13DocName(op.Doc), DocVersion{RevTreeID: d.rev})
		return rev, err
	case "uchans":
		name := "u"
		_, _, err = e.db.DatabaseContext.UpdatePrincipal(e.ctx, e.princConfig(name, e.chanSet(op.Set)), true, true)
		return "", err
	case "uroles":
		name := "u"
		set := base.Set{}
		for _, r := range op.Set {
			set[c13RoleName(r)] = struct{}{}
		}
		_, _, err = e.db.DatabaseContext.UpdatePrincipal(e.ctx, &auth.PrincipalConfig{Name: &name, ExplicitRoleNames: set}, true, true)
		return "", err
	case "rchans":
		name := c13RoleName(op.Who)
		_, _, err = e.db.DatabaseContext.UpdatePrincipal(e.ctx, e.princConfig(name, e.chanSet(op.Set)), false, true)
		return "", err
	case "delrole":
		err = e.db.DatabaseContext.DeleteRole(e.ctx, c13RoleName(op.Who), false)
		if err == base.ErrNotFound || base.IsDocNotFoundError(err) {
			return "", nil
		}
		return "", err
	}
	return "", fmt.Errorf("unknown op kind %q", op.Kind)
}

func (tr *c13Truth) apply(op c13Op, rev string) {
	switch op.Kind {
	case "put":
		d := tr.docs[op.Doc]
		if d == nil {
			d = &c13TDoc{}
			tr.docs[op.Doc] = d
		}
		d.exists, d.live, d.chans, d.acc, d.rol, d.rev = true, true, op.Chans, op.Acc, op.Rol, rev
	case "del":
		if d := tr.docs[op.Doc]; d != nil && d.exists && d.live {
			d.live, d.chans, d.acc, d.rol, d.rev = false, nil, nil, nil, rev
		}
	case "uchans":
		tr.uch = c13SetOf(op.Set)
	case "uroles":
		tr.uro = c13SetOf(op.Set)
	case "rchans":
		tr.roles[op.Who] = &c13TRole{exists: true, ch: c13SetOf(op.Set)}
	case "delrole":
		if r := tr.roles[op.Who]; r != nil && r.exists && !r.deleted {
			r.deleted = true
		}
	}
}

func (e *c13Env) projectRow(ce *ChangeEntry) (c13Row, error) {
	r := c13Row{T: ce.Seq.TriggeredBy, L: ce.Seq.LowSeq, S: ce.Seq.Seq, Del: ce.Deleted, Revk: ce.Revoked, AllRm: ce.allRemoved}
	if strings.HasPrefix(ce.ID, "_user/") {
		r.Princ = true
	} else {
		id, ok := c13DocID(ce.ID)
		if !ok {
			return r, fmt.Errorf("unknown document id %q in a changes row", ce.ID)
		}
		r.Doc = id
	}
	if len(ce.Changes) > 0 {
		r.RevS = ce.Changes[0][ChangesVersionTypeRevTreeID]
		r.Rev = e.revID(r.RevS)
	}
	for c := range ce.Removed {
		id, ok := c13ChanID(c)
		if !ok {
			return r, fmt.Errorf("unknown channel %q in a changes row", c)
		}
		r.Rm = append(r.Rm, id)
	}
	sort.Slice(r.Rm, func(i, j int) bool { return r.Rm[i] < r.Rm[j] })
	return r, nil
}

func (e *c13Env) loadRoleSt(a *auth.Authenticator, name string) (*c13RoleSt, error) {
	role, err := a.GetRoleIncDeleted(name)
	if err != nil {
		return nil, err
	}
	if role == nil {
		return nil, nil
	}
	id, _ := c13RoleID(name)
	st := &c13RoleSt{ID: id, Deleted: role.IsDeleted()}
	if st.Chans, err = c13TimedSet(role.CollectionChannels(e.col.ScopeName, e.col.Name), c13ChanID); err != nil {
		return nil, err
	}
	if st.Hist, err = c13History(role.CollectionChannelHistory(e.col.ScopeName, e.col.Name), c13ChanID); err != nil {
		return nil, err
	}
	return st, nil
}

func (e *c13Env) userSt(usr auth.User) (c13UserSt, error) {
	var st c13UserSt
	var err error
	st.Seq = usr.Sequence()
	if st.Chans, err = c13TimedSet(usr.CollectionChannels(e.col.ScopeName, e.col.Name), c13ChanID); err != nil {
		return st, err
	}
	if st.Hist, err = c13History(usr.CollectionChannelHistory(e.col.ScopeName, e.col.Name), c13ChanID); err != nil {
		return st, err
	}
	if st.Roles, err = c13TimedSet(usr.RoleNames(), c13RoleID); err != nil {
		return st, err
	}
	if st.RoleHist, err = c13History(usr.RoleHistory(), c13RoleID); err != nil {
		return st, err
	}
	return st, nil
}

func (e *c13Env) logOf(entries []*LogEntry) ([]c13LogE, error) {
	var res []c13LogE
	for _, le := range entries {
		if le.IsPrincipal {
			continue
		}
		id, ok := c13DocID(le.DocID)
		if !ok {
			return nil, fmt.Errorf("unknown document %q in a channel log", le.DocID)
		}
		res = append(res, c13LogE{Seq: le.Sequence, Doc: id, Rev: e.revID(le.RevID), Rm: le.Flags&channels.Removed != 0, Del: le.Flags&channels.Deleted != 0})
	}
	return res, nil
}

// snapshot takes everything the feed of user usr reads.  mon reports disagreements between the two channel sources.
func (e *c13Env) snapshot(usr auth.User, tr *c13Truth, mon func(monitor, sig, detail string)) (*c13Snap, error) {
	a := e.db.Authenticator(e.ctx)
	s := &c13Snap{Logs: map[uint64][]c13LogE{}}
	s.Cached = e.col.changeCache().getChannelCache().GetHighCacheSequence()
	var err error
	if s.User, err = e.userSt(usr); err != nil {
		return nil, err
	}
	for i := 1; i <= c13NRoles; i++ {
		st, err := e.loadRoleSt(a, c13RoleName(i))
		if err != nil {
			return nil, err
		}
		if st != nil {
			s.Roles = append(s.Roles, *st)
		}
	}
	for i, name := range c13ChanNames {
		chanID := channels.NewID(name, e.col.GetCollectionID())
		scc, err := e.col.changeCache().getChannelCache().getSingleChannelCache(e.ctx, chanID)
		if err != nil {
			return nil, err
		}
		entries, err := scc.GetChanges(e.ctx, ChangesOptions{ChangesCtx: e.ctx})
		if err != nil {
			return nil, err
		}
		log, err := e.logOf(entries)
		if err != nil {
			return nil, err
		}
		byp, err := e.col.changeCache().getChannelCache().getBypassChannelCache(chanID)
		if err != nil {
			return nil, err
		}
		entries2, err := byp.GetChanges(e.ctx, ChangesOptions{ChangesCtx: e.ctx})
		if err != nil {
			return nil, err
		}
		log2, err := e.logOf(entries2)
		if err != nil {
			return nil, err
		}
		if fmt.Sprint(log) != fmt.Sprint(log2) {
			mon("chanlog_agree", "chanlog-cache-vs-query", fmt.Sprintf("channel %s: cache %v, query %v", name, log, log2))
		}
		s.Logs[uint64(i+1)] = log
	}
	for i := 1; i <= c13NDocs; i++ {
		d := tr.docs[i]
		if d == nil || !d.exists {
			continue
		}
		sd, err := e.col.GetDocSyncData(e.ctx, c13DocName(i))
		if err != nil {
			return nil, err
		}
		info := c13DocInfo{ID: uint64(i), Seq: sd.Sequence}
		for _, ent := range append(append([]ChannelSetEntry{}, sd.ChannelSet...), sd.ChannelSetHistory...) {
			id, ok := c13ChanID(ent.Name)
			if !ok {
				return nil, fmt.Errorf("unknown channel %q in a document history", ent.Name)
			}
			info.Hist = append(info.Hist, c13DocEnt{id, ent.Start, ent.End})
		}
		rv, err := e.col.revisionCache.GetActive(e.ctx, c13DocName(i))
		if err == nil {
			info.HasAct = true
			for c := range rv.Channels {
				id, ok := c13ChanID(c)
				if !ok {
					return nil, fmt.Errorf("unknown channel %q on an active revision", c)
				}
				info.Active = append(info.Active, id)
			}
			sort.Slice(info.Active, func(i, j int) bool { return info.Active[i] < info.Active[j] })
		} else if !base.IsDocNotFoundError(err) {
			return nil, err
		}
		s.Docs = append(s.Docs, info)
	}
	return s, nil
}

// one changes request as the user
func (e *c13Env) request(usr auth.User, since SequenceID, limit int) ([]c13Row, error) {
	col := *e.col
	col.user = usr
	ctx, cancel := context.WithCancel(e.ctx)
	defer cancel()
	feed, err := col.MultiChangesFeed(ctx, base.SetOf("*"), ChangesOptions{Since: since, Limit: limit, Revocations: true, ChangesCtx: ctx})
	if err != nil {
		return nil, err
	}
	var rows []c13Row
	if feed == nil {
		return rows, nil
	}
	for ce := range feed {
		if os.Getenv("C13_DEBUG") != "" {
			fmt.Printf("C13DBG entry %v\n", ce)
		}
		if ce == nil {
			continue
		}
		if ce.Err != nil {
			return rows, fmt.Errorf("error entry on the feed: %v", ce.Err)
		}
		r, err := e.projectRow(ce)
		if err != nil {
			return rows, err
		}
		rows = append(rows, r)
	}
	return rows, nil
}

// ---------- one history ----------
type c13Failure struct {
	monitor, sig, detail string
	at                   int
}

type c13PullRec struct {
	At       int      `json:"at"`
	Since    string   `json:"since"`
	Limit    int      `json:"limit"`
	Rows     []c13Row `json:"rows"`
	CaughtUp bool     `json:"caught_up"`
	Client   []uint64 `json:"client_docs"`
	Visible  []int    `json:"visible"`
}

type c13Result struct {
	obs    []string // per pull: (snapshot, rows) as a Coq term
	fails  []c13Failure
	pulls  []c13PullRec
	cases  []c13CoqCase
	nontri bool
	stats  map[string]int
}

type c13CoqCase struct {
	kind string
	coq  string
	desc any
	nt   bool
}

func c13SinceString(s SequenceID) string { return s.String() }

// a history whose first operation has kind "named" runs in a named collection
func c13Named(ops []c13Op) bool { return len(ops) > 0 && ops[0].Kind == "named" }

func c13Run(t *testing.T, ops []c13Op, emit bool) *c13Result {
	named := c13Named(ops)
	e := c13NewEnv(t, named)
	defer e.close()
	res := &c13Result{stats: map[string]int{}}
	tr := c13NewTruth()
	a := e.db.Authenticator(e.ctx)
	fail := func(i int, mon, sig, detail string) {
		for _, f := range res.fails {
			if f.monitor == mon && f.sig == sig {
				return
			}
		}
		res.fails = append(res.fails, c13Failure{monitor: mon, sig: sig, detail: detail, at: i})
	}
	// the user under test exists before anything else (it owns a sequence)
	{
		name := "u"
		if _, _, err := e.db.DatabaseContext.UpdatePrincipal(e.ctx, &auth.PrincipalConfig{Name: &name}, true, true); err != nil {
			fail(-1, "operation_succeeds", "op-error:create-user", err.Error())
			return res
		}
		e.db.WaitForPendingChanges(t)
	}
	client := c13Client{}
	since := SequenceID{}
	var prevHeld map[int]bool
	var prevCached uint64             // cached sequence at the previous pull
	restamped := map[int]bool{}       // channels some rebuild kept but re-stamped with a later sequence (finding restamped-grant-loses-period)
	restampedRoles := map[int]bool{}  // ... and roles of the user re-stamped the same way (RolesSince)
	historyLost := map[int]bool{}     // channels whose history entries a role re-creation dropped (recreate_keeps_history)
	// the signature of a failure about channel c: its own, unless a re-created role forgot the channel's history
	lostSig := func(sig string, c int) string {
		if !historyLost[c] {
			return sig
		}
		if named {
			return "recreated-role-history-lost/named-collection"
		}
		return sig + "/recreated-role-history-lost"
	}
	// root-cause bookkeeping for the end-to-end monitor
	type jump struct{ T, S uint64 }
	var jumps []jump                    // a page ended with a revocation row whose token is printed without its trigger
	skippedRemoval := map[uint64]int{} // document -> request at which a back-fill dropped its removal / tombstone entry
	roleCreated := map[int]int{}       // role -> operation that created (or re-created) it
	cutOff := map[uint64]jump{}        // document -> the page end (revocation row printed without its trigger) that cut its row off
	var heldAtCaughtUp map[int]bool    // the user's channels at the last request that caught up
	var cachedAtCaughtUp uint64        // ... and the cached sequence of that request
	explained := map[uint64]string{}   // document -> root cause already established for a mismatch that persists
	sawRevoked, sawBackfill := false, false
	for i, op := range ops {
		if op.Kind == "named" {
			continue
		}
		if op.Kind != "pull" {
			if op.Kind == "delrole" {
				// load first so that the persisted state is valid and the delete's history update can be observed
				if rawPre := e.rawPrinc(false, c13RoleName(op.Who)); rawPre != nil && rawPre.ChannelInvalSeq != 0 && !rawPre.Deleted {
					if st, _ := e.loadRoleSt(a, c13RoleName(op.Who)); st != nil {
						c13NoteRestamps(restamped, rawPre.Channels, st.Chans)
					}
				}
				pre, _ := e.loadRoleSt(a, c13RoleName(op.Who))
				_, err := e.do(tr, op)
				if err != nil {
					fail(i, "operation_succeeds", "op-error:"+op.Kind, fmt.Sprintf("op %d %s: %v", i, op, err))
				}
				post := e.rawPrinc(false, c13RoleName(op.Who))
				if pre != nil && !pre.Deleted && post != nil && post.Deleted && emit {
					ph, err := c13History(post.ChannelHistory, c13ChanID)
					if err == nil {
						res.cases = append(res.cases, c13CoqCase{kind: "calc_history", nt: len(pre.Chans) > 0,
							coq:  fmt.Sprintf("(CCalc %d %s [] %s %s)", post.Sequence, c13PairsCoq(pre.Chans), c13HistCoq(pre.Hist), c13HistCoq(ph)),
							desc: map[string]any{"what": "DeleteRole", "inval_seq": post.Sequence, "lost": pre.Chans, "before": pre.Hist, "after": ph}})
						c13CheckHistoryRecords(fail, i, post.Sequence, pre.Chans, nil, pre.Hist, ph)
					}
				}
				tr.apply(op, "")
				e.db.WaitForPendingChanges(t)
				continue
			}
			if op.Kind == "rchans" {
				if ro := tr.roles[op.Who]; ro == nil || !ro.exists || ro.deleted {
					roleCreated[op.Who] = i
				}
			}
			var sdBefore *SyncData
			var invBefore []uint64
			if op.Kind == "put" || op.Kind == "del" {
				invBefore = e.invalSeqs()
				if d := tr.docs[op.Doc]; d != nil && d.exists {
					if sd, err := e.col.GetDocSyncData(e.ctx, c13DocName(op.Doc)); err == nil {
						sdBefore = &sd
					}
				}
			}
			// an admin operation loads (and rebuilds) the principal it changes: re-stamps happen there too
			var rawBefore *c13RawPrinc
			switch op.Kind {
			case "uchans", "uroles":
				rawBefore = e.rawPrinc(true, "u")
			case "rchans":
				rawBefore = e.rawPrinc(false, c13RoleName(op.Who))
			}
			rev, err := e.do(tr, op)
			// recreate_keeps_history (Go reflection of C13_recreated_role_keeps_history): a role created again through the
			// admin path (db.UpdatePrincipal -> NewRoleNoChannels) over its soft-deleted predecessor keeps every channel
			// history entry of the predecessor, in the collection under test -- otherwise the channels the old role
			// granted are never reported revoked to the users who still hold the role
			if op.Kind == "rchans" && err == nil && rawBefore != nil && rawBefore.Deleted {
				if rawAfter := e.rawPrinc(false, c13RoleName(op.Who)); rawAfter != nil && !rawAfter.Deleted {
					hb, err1 := c13History(rawBefore.ChannelHistory, c13ChanID)
					ha, err2 := c13History(rawAfter.ChannelHistory, c13ChanID)
					if err1 == nil && err2 == nil {
						for _, b := range hb {
							kept := c13FindHist(ha, b.Name)
							ok := len(kept) >= len(b.Entries)
							for k := 0; ok && k < len(b.Entries); k++ {
								ok = kept[k] == b.Entries[k]
							}
							if !ok && int(b.Name) >= 1 {
								historyLost[int(b.Name)-1] = true
								rsig := "recreated-role-history-lost"
								if named {
									rsig += "/named-collection"
								}
								fail(i, "recreate_keeps_history", rsig, fmt.Sprintf("op %d: role %s was soft-deleted with channel history %v for channel %s; re-created through UpdatePrincipal its history for that channel is %v (collection %s.%s)", i, c13RoleName(op.Who), b.Entries, c13ChanNames[b.Name-1], kept, e.col.ScopeName, e.col.Name))
							}
						}
						if emit {
							res.cases = append(res.cases, c13CoqCase{kind: "recreate_role", nt: len(hb) > 0,
								coq:  fmt.Sprintf("(CRecreate %s %s %s)", cqBool(named), c13HistCoq(hb), c13HistCoq(ha)),
								desc: map[string]any{"named_collection": named, "history_of_deleted_role": hb, "history_after_recreate": ha}})
						}
					}
				}
			}
			if rawBefore != nil && rawBefore.ChannelInvalSeq != 0 && !rawBefore.Deleted {
				var rawAfter *c13RawPrinc
				if op.Kind == "rchans" {
					rawAfter = e.rawPrinc(false, c13RoleName(op.Who))
				} else {
					rawAfter = e.rawPrinc(true, "u")
				}
				if rawAfter != nil {
					if after, terr := c13TimedSet(rawAfter.Channels, c13ChanID); terr == nil {
						c13NoteRestamps(restamped, rawBefore.Channels, after)
					}
				}
			}
			if rawBefore != nil && rawBefore.RoleInvalSeq != 0 && op.Kind != "rchans" {
				if rawAfter := e.rawPrinc(true, "u"); rawAfter != nil {
					if after, terr := c13TimedSet(rawAfter.RolesSince, c13RoleID); terr == nil {
						c13NoteRoleRestamps(restampedRoles, rawBefore.RolesSince, after)
					}
				}
			}
			if err == nil && rev != "" && emit {
				if sdAfter, err2 := e.col.GetDocSyncData(e.ctx, c13DocName(op.Doc)); err2 == nil {
					c13EmitDocHist(res, sdBefore, &sdAfter)
					// the write invalidates the principals whose grants it changed, at its own sequence; the first
					// invalidation since the last rebuild sticks
					for k, post := range e.invalSeqs() {
						if k < len(invBefore) && (invBefore[k] != 0 || post != 0) && (invBefore[k] != 0 || (i+k)%3 == 0 || vThorough()) {
							res.cases = append(res.cases, c13CoqCase{kind: "invalidate", nt: invBefore[k] != 0,
								coq:  fmt.Sprintf("(CInval %d %d %d)", invBefore[k], sdAfter.Sequence, post),
								desc: map[string]any{"inval_before": invBefore[k], "write_seq": sdAfter.Sequence, "inval_after": post}})
						}
					}
				}
			}
			// every sequence reaches the channel caches before the next operation: no skipped sequences (assumption)
			e.db.WaitForPendingChanges(t)
			if err != nil {
				fail(i, "operation_succeeds", "op-error:"+op.Kind, fmt.Sprintf("op %d %s: %v", i, op, err))
				continue
			}
			tr.apply(op, rev)
			if op.Kind == "put" || op.Kind == "del" {
				if d := tr.docs[op.Doc]; d != nil && d.rev != "" {
					e.revID(d.rev)
				}
			}
			continue
		}
		// ---- pull ----
		e.db.WaitForPendingChanges(t)
		rawU := e.rawPrinc(true, "u")
		rawR := map[int]*c13RawPrinc{}
		for r := 1; r <= c13NRoles; r++ {
			rawR[r] = e.rawPrinc(false, c13RoleName(r))
		}
		usr, err := a.GetUser("u")
		if err != nil || usr == nil {
			fail(i, "operation_succeeds", "op-error:get-user", fmt.Sprintf("op %d: GetUser: %v", i, err))
			return res
		}
		snap, err := e.snapshot(usr, tr, func(mon, sig, detail string) { fail(i, mon, sig, detail) })
		if err != nil {
			fail(i, "operation_succeeds", "op-error:snapshot", fmt.Sprintf("op %d: %v", i, err))
			return res
		}
		// rebuilds performed by the loads above: history bookkeeping
		if rawU != nil && rawU.ChannelInvalSeq != 0 {
			c13EmitCalc(res, fail, i, emit, "user channels", rawU.ChannelInvalSeq, rawU.Channels, rawU.ChannelHistory, snap.User.Chans, snap.User.Hist, c13ChanID)
			c13NoteRestamps(restamped, rawU.Channels, snap.User.Chans)
		}
		if rawU != nil && rawU.RoleInvalSeq != 0 {
			c13EmitCalc(res, fail, i, emit, "user roles", rawU.RoleInvalSeq, rawU.RolesSince, rawU.RoleHistory, snap.User.Roles, snap.User.RoleHist, c13RoleID)
			c13NoteRoleRestamps(restampedRoles, rawU.RolesSince, snap.User.Roles)
		}
		for _, rs := range snap.Roles {
			if raw := rawR[int(rs.ID)]; raw != nil && raw.ChannelInvalSeq != 0 && !raw.Deleted {
				c13EmitCalc(res, fail, i, emit, "role channels", raw.ChannelInvalSeq, raw.Channels, raw.ChannelHistory, rs.Chans, rs.Hist, c13ChanID)
				c13NoteRestamps(restamped, raw.Channels, rs.Chans)
			}
		}
		// the specification of the user's access (C03) must agree with what the implementation loaded
		inh, err := usr.InheritedCollectionChannels(e.col.ScopeName, e.col.Name)
		if err != nil {
			fail(i, "operation_succeeds", "op-error:inherited", err.Error())
			return res
		}
		inhP, _ := c13TimedSet(inh, c13ChanID)
		held := tr.userChans()
		{
			got := map[int]bool{}
			for _, p := range inhP {
				got[int(p.A)-1] = true
			}
			if fmt.Sprint(c13SortedKeys(got)) != fmt.Sprint(c13SortedKeys(held)) {
				fail(i, "access_spec", "user-channels-differ", fmt.Sprintf("op %d: loaded channels %v, specification %v", i, c13SortedKeys(got), c13SortedKeys(held)))
			}
		}
		// component observations on the snapshot
		revoked, err := usr.RevokedCollectionChannels(e.col.ScopeName, e.col.Name, since.Seq, since.LowSeq, since.TriggeredBy)
		if err != nil {
			fail(i, "operation_succeeds", "op-error:revoked", err.Error())
			return res
		}
		var revP []c13Pair
		for c, s := range revoked {
			id, _ := c13ChanID(c)
			revP = append(revP, c13Pair{id, s})
		}
		sort.Slice(revP, func(x, y int) bool { return revP[x].A < revP[y].A })
		for _, p := range revP {
			if held[int(p.A)-1] {
				fail(i, "revoked_sound", "revoked-channel-still-held", fmt.Sprintf("op %d: channel %s reported revoked at %d but the user holds it (specification %v)", i, c13ChanNames[p.A-1], p.B, c13SortedKeys(held)))
			}
			for _, q := range inhP {
				if q.A == p.A {
					fail(i, "revoked_sound", "revoked-channel-accessible", fmt.Sprintf("op %d: channel %s reported revoked at %d but is in the inherited channels", i, c13ChanNames[p.A-1], p.B))
				}
			}
		}
		if prevHeld != nil {
			for c := range prevHeld {
				if held[c] {
					continue
				}
				found := false
				for _, p := range revP {
					if int(p.A)-1 == c {
						found = true
					}
				}
				if !found {
					fail(i, "revoked_complete", lostSig("lost-channel-not-reported", c), fmt.Sprintf("op %d: channel %s was held at the previous pull, is not held now, and is not reported by RevokedCollectionChannels(since=%s): %v", i, c13ChanNames[c], since, revP))
				}
			}
		}
		// granted_periods_cover (Go reflection of C13_granted_periods_cover): a channel the user held at the previous pull is,
		// at this pull, covered by a period of CollectionChannelGrantedPeriods that contains the previous pull's cached
		// sequence -- whatever happened to the grant in between.  (A rebuild that re-stamped the kept grant with a later
		// sequence is the recorded finding restamped-grant-loses-period.)
		if prevHeld != nil {
			for c := range prevHeld {
				per, perr := usr.CollectionChannelGrantedPeriods(e.col.ScopeName, e.col.Name, c13ChanNames[c])
				if perr != nil {
					continue
				}
				covered := false
				for _, pp := range per {
					if pp.StartSeq <= prevCached && prevCached < pp.EndSeq {
						covered = true
					}
				}
				if !covered {
					sig := "period-missing-for-held-channel"
					explained := restamped[c]
					for _, rs := range snap.Roles {
						if !restampedRoles[int(rs.ID)] {
							continue
						}
						for _, q := range rs.Chans {
							if int(q.A)-1 == c {
								explained = true
							}
						}
						for _, h := range rs.Hist {
							if int(h.Name)-1 == c {
								explained = true
							}
						}
					}
					if explained {
						sig = "stale-doc/restamped-grant-loses-period"
					} else {
						sig = lostSig(sig, c)
					}
					fail(i, "granted_periods_cover", sig, fmt.Sprintf("op %d: channel %s was held at the previous pull (cached sequence %d) but no period returned by CollectionChannelGrantedPeriods now contains %d: %v", i, c13ChanNames[c], prevCached, prevCached, c13SortPeriods(per)))
				}
			}
		}
		if len(revP) > 0 {
			sawRevoked = true
		}
		if emit {
			res.cases = append(res.cases, c13CoqCase{kind: "inherited", nt: len(snap.Roles) > 0,
				coq:  fmt.Sprintf("(CInherited %s %s %s)", c13UserCoq(snap.User), c13RolesCoq(snap.Roles), c13PairsCoq(inhP)),
				desc: map[string]any{"user": snap.User, "roles": snap.Roles, "inherited": inhP}})
			res.cases = append(res.cases, c13CoqCase{kind: "revoked_channels", nt: len(revP) > 0,
				coq:  fmt.Sprintf("(CRevoked %s %s %d %d %d %s)", c13UserCoq(snap.User), c13RolesCoq(snap.Roles), since.Seq, since.LowSeq, since.TriggeredBy, c13PairsCoq(revP)),
				desc: map[string]any{"user": snap.User, "roles": snap.Roles, "since": since.String(), "revoked": revP}})
			// granted periods and the document test, for every channel and document of the snapshot
			col := *e.col
			col.user = usr
			for ci, cname := range c13ChanNames {
				if !vThorough() && len(revP) == 0 && (i+len(res.pulls))%2 == 1 {
					break // quick tier: half of the requests without revoked channels
				}
				per, err := usr.CollectionChannelGrantedPeriods(e.col.ScopeName, e.col.Name, cname)
				if err != nil {
					fail(i, "operation_succeeds", "op-error:periods", err.Error())
					continue
				}
				pp := c13SortPeriods(per)
				inRevoked := false
				for _, p := range revP {
					if p.A == uint64(ci+1) {
						inRevoked = true
					}
				}
				// channels with one current period or none are sampled; lost / regained / revoked ones always go
				if !inRevoked && len(pp) <= 1 && (i+ci)%5 != 0 && !vThorough() {
					continue
				}
				res.cases = append(res.cases, c13CoqCase{kind: "granted_periods", nt: len(pp) > 1,
					coq:  fmt.Sprintf("(CPeriods %s %s %d %s)", c13UserCoq(snap.User), c13RolesCoq(snap.Roles), ci+1, c13PairsCoq(pp)),
					desc: map[string]any{"user": snap.User, "roles": snap.Roles, "channel": cname, "periods": pp}})
				for _, d := range snap.Docs {
					mentioned := false
					for _, h := range d.Hist {
						if h.Name == uint64(ci+1) {
							mentioned = true
						}
					}
					if !mentioned || len(pp) == 0 {
						continue
					}
					if !inRevoked && (i+ci+int(d.ID))%4 != 0 && !vThorough() {
						continue // the test only matters for revoked channels; a sample of the others
					}
					sd, err := e.col.GetDocSyncData(e.ctx, c13DocName(int(d.ID)))
					if err != nil {
						continue
					}
					svs := []uint64{since.SafeSequence()}
					if since.TriggeredBy != 0 {
						svs = append(svs, since.TriggeredBy, since.TriggeredBy-1)
					}
					for _, sv := range svs {
						was, err := col.wasDocInChannelPriorToRevocation(e.ctx, sd, c13DocName(int(d.ID)), cname, sv)
						if err != nil {
							continue
						}
						res.cases = append(res.cases, c13CoqCase{kind: "was_in_channel", nt: was,
							coq:  fmt.Sprintf("(CWasIn %s %s %s %d %d %s)", c13DocEntsCoq(d.Hist), c13UserCoq(snap.User), c13RolesCoq(snap.Roles), ci+1, sv, cqBool(was)),
							desc: map[string]any{"doc_history": d.Hist, "channel": cname, "since": sv, "result": was}})
					}
				}
			}
		}
		// the request itself
		rows, err := e.request(usr, since, op.Limit)
		if err != nil {
			fail(i, "operation_succeeds", "op-error:pull", fmt.Sprintf("op %d: %v", i, err))
			return res
		}
		res.stats["pulls"]++
		res.stats["rows"] += len(rows)
		// which removal / tombstone entries did a grant-triggered back-fill of this request drop?
		for _, p := range inhP {
			added := p.B
			backfill := added > 1 && since.Before(SequenceID{Seq: added}) && added <= snap.Cached && (since.TriggeredBy == 0 || since.TriggeredBy < added)
			if !backfill {
				continue
			}
			for _, le := range snap.Logs[p.A] {
				// (an entry AT the grant sequence is not dropped, but it only survives if the page is not cut before it
				// and the channel is not lost again before the next page: same root cause, the earlier loss of the
				// channel is never processed because the channel is accessible again)
				if (le.Rm || le.Del) && le.Seq <= added && le.Seq > since.SafeSequence() {
					if _, held := client[le.Doc]; held {
						skippedRemoval[le.Doc] = i
					}
				}
			}
		}
		if op.Limit > 0 && len(rows) == 0 {
			// a page without rows leaves the client at the same position: if the un-limited response from that position
			// is not empty the client will ask again and again and never receive it
			if full, ferr := e.request(usr, since, 0); ferr == nil && len(full) > 0 {
				differs := false
				vnow := tr.visible()
				for d := range client {
					if _, ok := vnow[int(d)]; !ok {
						differs = true
					}
				}
				for d := range vnow {
					if _, ok := client[uint64(d)]; !ok {
						differs = true
					}
				}
				if differs {
					fail(i, "paged_revocation_progress", "paged-revocation-no-progress", fmt.Sprintf("op %d: the request with limit %d from position %s returned no rows (same last_seq) although the un-limited response from the same position has %d rows (%+v) and the client (%v) differs from the visible set (%v): the client resumes from the same position for ever", i, op.Limit, since, len(full), full, client, c13SortedVisible(vnow)))
				}
			}
		}
		if op.Limit > 0 && len(rows) == op.Limit {
			if last := rows[len(rows)-1]; last.T != 0 && last.S >= last.T {
				jumps = append(jumps, jump{last.T, last.S})
				// everything the un-limited response would still have delivered is at risk: the resume token "S" has lost
				// the trigger, rows ordered after T:S but numbered at or below S are skipped, and the rest of a
				// revocation at or below S is abandoned (its end sequence is no longer above the position)
				if full, ferr := e.request(usr, since, 0); ferr == nil && len(full) > len(rows) {
					for _, fr := range full[len(rows):] {
						if !fr.Princ {
							cutOff[fr.Doc] = jump{last.T, last.S}
						}
					}
				}
			}
		}
		before := client.copyOf()
		vis := tr.visible()
		for k, r := range rows {
			if r.L != 0 {
				fail(i, "assumption", "low-sequence-nonzero", fmt.Sprintf("op %d: row %v carries a low sequence (skipped sequences are outside the model)", i, r))
			}
			if k > 0 {
				p := rows[k-1]
				if !(SequenceID{TriggeredBy: p.T, Seq: p.S}).Before(SequenceID{TriggeredBy: r.T, Seq: r.S}) {
					fail(i, "rows_ascending", "rows-not-ascending", fmt.Sprintf("op %d: rows %v then %v", i, p, r))
				}
			}
			if r.Revk {
				res.stats["revoked_rows"]++
				if _, ok := vis[int(r.Doc)]; ok {
					fail(i, "no_revocation_for_visible", "revocation-of-visible-doc", fmt.Sprintf("op %d: revocation row %+v for document d%d which the user can see (channels %v, user channels %v)", i, r, r.Doc, tr.docs[int(r.Doc)].chans, c13SortedKeys(held)))
				}
				// a revoked document can no longer be fetched
				col := *e.col
				col.user = usr
				if _, gerr := col.Get1xRevBody(e.ctx, c13DocName(int(r.Doc)), "", false, nil); gerr == nil {
					fail(i, "revoked_doc_refused", "revoked-doc-fetched", fmt.Sprintf("op %d: document d%d was announced revoked (%+v) but the user can fetch it", i, r.Doc, r))
				} else if st, _ := base.ErrorAsHTTPStatus(gerr); st != 403 && st != 404 {
					fail(i, "revoked_doc_refused", "revoked-doc-fetch-status", fmt.Sprintf("op %d: fetching revoked d%d: unexpected error %v", i, r.Doc, gerr))
				}
			}
			if r.T != 0 && !r.Revk {
				sawBackfill = true
				res.stats["backfill_rows"]++
			}
			client.apply(r)
			if !r.Princ {
				delete(skippedRemoval, r.Doc)
				delete(cutOff, r.Doc)
			}
		}
		if emit {
			res.obs = append(res.obs, "("+c13SnapCoq(snap)+", "+c13RowsCoq(rows)+")")
			res.cases = append(res.cases, c13CoqCase{kind: "feed", nt: len(rows) > 0 && (len(revP) > 0 || since.Seq > 0),
				coq:  fmt.Sprintf("(CPull %s %d %d %d %s)", c13SnapCoq(snap), since.TriggeredBy, since.Seq, op.Limit, c13RowsCoq(rows)),
				desc: map[string]any{"snapshot": snap, "since": since.String(), "limit": op.Limit, "rows": rows}})
			res.cases = append(res.cases, c13CoqCase{kind: "client_apply", nt: len(rows) > 0,
				coq:  fmt.Sprintf("(CClient %s %s %s)", before.coq(), c13RowsCoq(rows), client.coq()),
				desc: map[string]any{"before": before, "rows": rows, "after": client}})
		}
		// resume position: the token of the last row, as a REST client would send it back
		if len(rows) > 0 {
			last := rows[len(rows)-1]
			tok := SequenceID{TriggeredBy: last.T, LowSeq: last.L, Seq: last.S}.String()
			ns, perr := ParsePlainSequenceID(tok)
			if perr != nil {
				fail(i, "operation_succeeds", "op-error:token", fmt.Sprintf("op %d: cannot parse the feed's own token %q: %v", i, tok, perr))
				return res
			}
			since = ns
		}
		caught := op.Limit == 0 || len(rows) < op.Limit
		pr := c13PullRec{At: i, Since: since.String(), Limit: op.Limit, Rows: rows, CaughtUp: caught}
		for d := range client {
			pr.Client = append(pr.Client, d)
		}
		sort.Slice(pr.Client, func(x, y int) bool { return pr.Client[x] < pr.Client[y] })
		for d := range vis {
			pr.Visible = append(pr.Visible, d)
		}
		sort.Ints(pr.Visible)
		res.pulls = append(res.pulls, pr)
		if caught {
			res.stats["caught_up"]++
			// documents whose current revision the user can see now == documents the client holds
			for d, rev := range vis {
				got, ok := client[uint64(d)]
				cause := ""
				for _, sd := range snap.Docs {
					if sd.ID == uint64(d) {
						for _, j := range jumps {
							if j.T <= sd.Seq && sd.Seq <= j.S {
								cause = fmt.Sprintf(" [the row at sequence %d was skipped: a page ended with a revocation row %d:%d whose token is printed as %d]", sd.Seq, j.T, j.S, j.S)
							}
						}
					}
				}
				if j, cut := cutOff[uint64(d)]; cut && cause == "" {
					cause = fmt.Sprintf(" [the row of d%d was cut off by a page that ended with a revocation row %d:%d, whose token is printed as %d: the client resumed past it]", d, j.T, j.S, j.S)
				}
				sigSuffix := ""
				if cause != "" {
					sigSuffix = "/revocation-token-skips-rows"
				}
				if !ok && cause == "" {
					// a role created (or re-created) after documents granted it channels: the grants keep the sequences
					// of the granting documents, at or below the client's position, so nothing is back-filled
					for _, sd := range snap.Docs {
						if sd.ID != uint64(d) {
							continue
						}
						for _, q := range inhP {
							inDoc := false
							for _, c := range sd.Active {
								if c == q.A {
									inDoc = true
								}
							}
							if !inDoc || (heldAtCaughtUp != nil && heldAtCaughtUp[int(q.A)-1]) {
								continue
							}
							for ro, at := range roleCreated {
								for _, rs := range snap.Roles {
									if int(rs.ID) != ro || rs.Deleted {
										continue
									}
									for _, rc := range rs.Chans {
										if rc.A == q.A && sigSuffix == "" {
											sigSuffix = "/role-created-after-grant"
											cause = fmt.Sprintf(" [channel %s reaches the user through role r%d, (re-)created at op %d; the grant is stamped %d (sequence of the granting document / role assignment), not after the client's position, so the channel is not back-filled]", c13ChanNames[q.A-1], ro, at, q.B)
										}
									}
								}
							}
						}
					}
				}
				if _, held := client[uint64(d)]; !held || client[uint64(d)] != e.revID(rev) {
					if sigSuffix == "" {
						sigSuffix = explained[uint64(d)]
					} else {
						explained[uint64(d)] = sigSuffix
					}
				} else {
					delete(explained, uint64(d))
				}
				if !ok {
					fail(i, "client_matches_visible", "visible-doc-missing"+sigSuffix, fmt.Sprintf("op %d: document d%d (channels %v) is visible to the user (channels %v) but the client does not hold it; client %v%s", i, d, tr.docs[d].chans, c13SortedKeys(held), pr.Client, cause))
				} else if got != e.revID(rev) {
					fail(i, "client_matches_visible", "stale-revision"+sigSuffix, fmt.Sprintf("op %d: client holds revision #%d of d%d, current is %s (#%d)%s", i, got, d, rev, e.revID(rev), cause))
				}
			}
			for d := range client {
				if _, ok := vis[int(d)]; !ok {
					td := tr.docs[int(d)]
					why, cause := "", ""
					if at, ok := skippedRemoval[d]; ok {
						why = "/backfill-skips-removal"
						cause = fmt.Sprintf(" [the request at op %d back-filled a re-granted channel; the removal / tombstone entry of d%d, which the client held, lies at or before the grant and was dropped by the back-fill (or, at the grant sequence, cut off and never resumed); the earlier loss of the channel is not treated as a revocation because the channel is accessible again]", at, d)
					}
					// a deleted role that is still among the user's roles is ignored by CollectionChannelGrantedPeriods: no
					// period for its channels, so documents changed after the client's position are not revoked
					for _, sd := range snap.Docs {
						if sd.ID != d {
							continue
						}
						for _, ro := range snap.Roles {
							heldRole := false
							for _, ur := range snap.User.Roles {
								if ur.A == ro.ID {
									heldRole = true
								}
							}
							if !ro.Deleted || !heldRole {
								continue
							}
							for _, h := range ro.Hist {
								for _, de := range sd.Hist {
									if de.Name == h.Name && why == "" {
										why = "/deleted-role-periods-missing"
										cause = fmt.Sprintf(" [channel %s was held through role r%d, which was deleted and is still listed among the user's roles: CollectionChannelGrantedPeriods ignores it, wasDocInChannelPriorToRevocation answers false for d%d (changed at %d, after the client's position)]", c13ChanNames[h.Name-1], ro.ID, d, sd.Seq)
									}
								}
							}
						}
					}
					// a rebuild kept a grant but stamped it with a LATER sequence (its earliest source -- explicit grant or granting
					// document -- went away while another source of the same channel for the same principal persisted):
					// calculateHistory records nothing for a kept grant, so the period before the new stamp is in no history and
					// CollectionChannelGrantedPeriods does not cover the client's position although the user held the channel then
					if why == "" && heldAtCaughtUp != nil {
						for _, sd := range snap.Docs {
							if sd.ID != d {
								continue
							}
							for _, de := range sd.Hist {
								ci := int(de.Name) - 1
								if ci < 0 || ci >= len(c13ChanNames) || why != "" {
									continue
								}
								inThen := de.Start <= cachedAtCaughtUp && (de.End == 0 || de.End > cachedAtCaughtUp)
								if !inThen || !heldAtCaughtUp[ci] || held[ci] {
									continue
								}
								per, perr := usr.CollectionChannelGrantedPeriods(e.col.ScopeName, e.col.Name, c13ChanNames[ci])
								if perr != nil {
									continue
								}
								covered := false
								for _, pp := range per {
									if pp.StartSeq <= cachedAtCaughtUp && cachedAtCaughtUp < pp.EndSeq {
										covered = true
									}
								}
								if !covered && historyLost[ci] {
									// the history entries of the channel were dropped when a deleted role was created again
									why = "/recreated-role-history-lost"
									if named {
										why = "/recreated-role-history-lost/named-collection"
									}
									cause = fmt.Sprintf(" [the user held channel %s at the previous completed pull (cached sequence %d) through a role that was soft-deleted and created again since; the re-created role has lost the deleted role's history of the channel, so the periods CollectionChannelGrantedPeriods returns (%v) do not contain %d and RevokedCollectionChannels does not report the channel]", c13ChanNames[ci], cachedAtCaughtUp, c13SortPeriods(per), cachedAtCaughtUp)
								} else if !covered {
									why = "/restamped-grant-loses-period"
									cause = fmt.Sprintf(" [the user held channel %s at the previous completed pull (cached sequence %d) and d%d was in it; the channel is lost now, but the periods CollectionChannelGrantedPeriods returns for it (%v) do not contain %d: a rebuild re-stamped the kept grant with a later sequence when its earliest source went away, and calculateHistory records nothing for a kept grant]", c13ChanNames[ci], cachedAtCaughtUp, d, c13SortPeriods(per), cachedAtCaughtUp)
								}
							}
						}
					}
					if j, cut := cutOff[d]; cut {
						why = "/revocation-token-skips-rows"
						cause = fmt.Sprintf(" [the row of d%d was cut off by a page that ended with a revocation row %d:%d, whose token is printed as %d: the client resumed past it]", d, j.T, j.S, j.S)
					}
					for _, sd := range snap.Docs {
						if sd.ID == d {
							for _, j := range jumps {
								if j.T <= sd.Seq && sd.Seq <= j.S {
									why = "/revocation-token-skips-rows"
									cause = fmt.Sprintf(" [the row at sequence %d was skipped: a page ended with a revocation row %d:%d whose token is printed as %d]", sd.Seq, j.T, j.S, j.S)
								}
							}
						}
					}
					if why == "" {
						why = explained[d]
					} else {
						explained[d] = why
					}
					sdSig := "stale-doc" + why
					if why == "/recreated-role-history-lost/named-collection" {
						sdSig = "recreated-role-history-lost/named-collection" // one finding, one signature
					}
					fail(i, "client_matches_visible", sdSig, fmt.Sprintf("op %d: client still holds d%d which the user cannot see (document channels %v live=%v, user channels %v): never announced as removed / revoked%s", i, d, td.chans, td.live, c13SortedKeys(held), cause))
				}
			}
			for d := range explained {
				rev, vok := vis[int(d)]
				got, cok := client[d]
				if vok == cok && (!vok || got == e.revID(rev)) {
					delete(explained, d) // the mismatch is gone
				}
			}
			// admin view of the implementation's own state
			for _, d := range snap.Docs {
				canSee := false
				if d.HasAct {
					for _, c := range d.Active {
						for _, q := range inhP {
							if q.A == c {
								canSee = true
							}
						}
					}
				}
				if td := tr.docs[int(d.ID)]; td != nil && !td.live {
					canSee = false
				}
				_, specSee := vis[int(d.ID)]
				if canSee != specSee {
					fail(i, "visible_spec_vs_admin_view", "spec-vs-admin-view", fmt.Sprintf("op %d: d%d: the implementation's own state says visible=%v (active channels %v, inherited %v), the specification says %v", i, d.ID, canSee, d.Active, inhP, specSee))
				}
			}
		}
		prevHeld = held
		prevCached = snap.Cached
		if caught {
			heldAtCaughtUp = held
			cachedAtCaughtUp = snap.Cached
		}
	}
	res.nontri = sawRevoked || sawBackfill
	// every history is also replayed on the whole-system model (Sys.v, sync-function grants included): operations in,
	// snapshot and rows of every pull out
	if emit && len(res.fails) == 0 || emit && c13OnlyPropertyFailures(res.fails) {
		docGrants := false
		var sops []string
		ids := func(v []int, off int) string {
			out := make([]uint64, len(v))
			for k, x := range v {
				out[k] = uint64(x + off)
			}
			return cqNList(out)
		}
		for _, op := range ops {
			switch op.Kind {
			case "put":
				if len(op.Acc) > 0 || len(op.Rol) > 0 {
					docGrants = true
				}
				var acc []string
				for _, g := range op.Acc {
					to := 0 // the user
					if g.Role {
						to = g.To
					}
					acc = append(acc, fmt.Sprintf("(%d, %s)", to, ids(g.V, 1)))
				}
				var rol []int
				for _, g := range op.Rol {
					rol = append(rol, g.V...)
				}
				sops = append(sops, fmt.Sprintf("SPut %d %s %s %s", op.Doc, ids(op.Chans, 1), cqList(acc), ids(rol, 0)))
			case "del":
				sops = append(sops, fmt.Sprintf("SDel %d", op.Doc))
			case "uchans":
				sops = append(sops, "SUChans "+ids(op.Set, 1))
			case "uroles":
				sops = append(sops, "SURoles "+ids(op.Set, 0))
			case "rchans":
				sops = append(sops, fmt.Sprintf("SRChans %d %s", op.Who, ids(op.Set, 1)))
			case "delrole":
				sops = append(sops, fmt.Sprintf("SDelRole %d", op.Who))
			case "pull":
				sops = append(sops, fmt.Sprintf("SPull %d", op.Limit))
			}
		}
		kind := "system"
		if docGrants {
			kind = "system_doc_grants"
		}
		ctor := "CSys"
		if named {
			kind, ctor = "system_named_collection", "CSysN"
		}
		res.cases = append(res.cases, c13CoqCase{kind: kind, nt: res.nontri,
			coq:  "(" + ctor + " " + cqList(sops) + " " + cqList(res.obs) + ")",
			desc: map[string]any{"ops": ops, "pulls": res.pulls}})
	}
	return res
}

// failures of the end-to-end property itself do not make the run unusable for the correspondence
func c13OnlyPropertyFailures(fs []c13Failure) bool {
	for _, f := range fs {
		if f.monitor != "client_matches_visible" {
			return false
		}
	}
	return true
}

func c13DocEnts(es []ChannelSetEntry) []c13DocEnt {
	var out []c13DocEnt
	for _, e := range es {
		id, ok := c13ChanID(e.Name)
		if !ok {
			continue
		}
		out = append(out, c13DocEnt{id, e.Start, e.End})
	}
	return out
}

// updateChannels / updateChannelHistory observed on one write: (active channels before, channels after, new sequence,
// ChannelSet / ChannelSetHistory before and after)
func c13EmitDocHist(res *c13Result, before, after *SyncData) {
	var active, newc []uint64
	var cs, h []c13DocEnt
	if before != nil {
		for c, rm := range before.Channels {
			if rm == nil {
				if id, ok := c13ChanID(c); ok {
					active = append(active, id)
				}
			}
		}
		cs, h = c13DocEnts(before.ChannelSet), c13DocEnts(before.ChannelSetHistory)
	}
	for c, rm := range after.Channels {
		if rm == nil {
			if id, ok := c13ChanID(c); ok {
				newc = append(newc, id)
			}
		}
	}
	sort.Slice(active, func(i, j int) bool { return active[i] < active[j] })
	sort.Slice(newc, func(i, j int) bool { return newc[i] < newc[j] })
	cs2, h2 := c13DocEnts(after.ChannelSet), c13DocEnts(after.ChannelSetHistory)
	res.cases = append(res.cases, c13CoqCase{kind: "doc_history", nt: len(h2) > 0 || fmt.Sprint(active) != fmt.Sprint(newc),
		coq: fmt.Sprintf("(CDocHist %s %s %d %s %s %s %s)", cqNList(active), cqNList(newc), after.Sequence, c13DocEntsCoq(cs), c13DocEntsCoq(h), c13DocEntsCoq(cs2), c13DocEntsCoq(h2)),
		desc: map[string]any{"active_before": active, "channels_after": newc, "seq": after.Sequence, "channel_set_before": cs, "history_before": h, "channel_set_after": cs2, "history_after": h2}})
}

func c13SortPeriods(per []auth.GrantHistorySequencePair) []c13Pair {
	pp := make([]c13Pair, len(per))
	for i, p := range per {
		pp[i] = c13Pair{p.StartSeq, p.EndSeq}
	}
	sort.Slice(pp, func(i, j int) bool {
		if pp[i].A != pp[j].A {
			return pp[i].A < pp[j].A
		}
		return pp[i].B < pp[j].B
	})
	return pp
}

func c13FindHist(h []c13Hist, name uint64) []c13Pair {
	for _, e := range h {
		if e.Name == name {
			return e.Entries
		}
	}
	return nil
}

// a rebuild kept a grant but gave it a later sequence
func c13NoteRestamps(restamped map[int]bool, old channels.TimedSet, new_ []c13Pair) {
	for name, v := range old {
		id, ok := c13ChanID(name)
		if !ok {
			continue
		}
		for _, n := range new_ {
			if n.A == id && n.B > v.Sequence && v.Sequence != 0 {
				restamped[int(id)-1] = true
			}
		}
	}
}

func c13NoteRoleRestamps(restamped map[int]bool, old channels.TimedSet, new_ []c13Pair) {
	for name, v := range old {
		id, ok := c13RoleID(name)
		if !ok {
			continue
		}
		for _, n := range new_ {
			if n.A == id && n.B > v.Sequence && v.Sequence != 0 {
				restamped[int(id)] = true
			}
		}
	}
}

// Go reflection of history_records_periods: every lost grant is appended with [granted_at, invalidation_seq)
func c13CheckHistoryRecords(fail func(int, string, string, string), i int, inval uint64, old, new_ []c13Pair, before, after []c13Hist) {
	for _, g := range old {
		kept := false
		for _, n := range new_ {
			if n.A == g.A {
				kept = true
			}
		}
		b, a := c13FindHist(before, g.A), c13FindHist(after, g.A)
		if kept {
			continue
		}
		if len(a) == 0 || a[len(a)-1] != (c13Pair{g.B, inval}) {
			fail(i, "history_records_periods", "lost-grant-not-recorded", fmt.Sprintf("op %d: grant %d@%d lost at %d: history before %v after %v", i, g.A, g.B, inval, b, a))
		}
	}
}

func c13EmitCalc(res *c13Result, fail func(int, string, string, string), i int, emit bool, what string, inval uint64, oldSet channels.TimedSet, oldHist auth.TimedSetHistory,
	newSet []c13Pair, newHist []c13Hist, id func(string) (uint64, bool)) {
	op, err1 := c13TimedSet(oldSet, id)
	oh, err2 := c13History(oldHist, id)
	if err1 != nil || err2 != nil {
		return
	}
	c13CheckHistoryRecords(fail, i, inval, op, newSet, oh, newHist)
	if emit {
		lost := false
		for _, g := range op {
			kept := false
			for _, n := range newSet {
				if n.A == g.A {
					kept = true
				}
			}
			if !kept {
				lost = true
			}
		}
		res.cases = append(res.cases, c13CoqCase{kind: "calc_history", nt: lost,
			coq:  fmt.Sprintf("(CCalc %d %s %s %s %s)", inval, c13PairsCoq(op), c13PairsCoq(newSet), c13HistCoq(oh), c13HistCoq(newHist)),
			desc: map[string]any{"what": what, "inval_seq": inval, "invalidated": op, "new": newSet, "before": oh, "after": newHist}})
	}
}

// ---------- generators ----------
type c13Gen struct {
	r   *vRand
	adv bool
}

func (g *c13Gen) subset(n, pct int, from int) []int {
	var out []int
	for i := from; i < from+n; i++ {
		if g.r.Chance(pct) {
			out = append(out, i)
		}
	}
	return out
}

func (g *c13Gen) put() c13Op {
	op := c13Op{Kind: "put", Doc: 1 + g.r.Intn(c13NDocs)}
	op.Chans = g.subset(len(c13ChanNames)-1, 35, 1)
	if g.r.Chance(8) {
		op.Chans = append([]int{0}, op.Chans...)
	}
	if g.r.Chance(25) {
		gr := c13Grant{V: g.subset(len(c13ChanNames)-1, 40, 1)}
		if g.r.Chance(40) {
			gr.Role, gr.To = true, 1+g.r.Intn(c13NRoles)
		}
		if len(gr.V) > 0 {
			op.Acc = []c13Grant{gr}
		}
	}
	if g.r.Chance(15) {
		v := g.subset(c13NRoles, 50, 1)
		if len(v) > 0 {
			op.Rol = []c13Grant{{V: v}}
		}
	}
	return op
}

func (g *c13Gen) next() c13Op {
	p := g.r.Intn(100)
	if g.adv {
		// grant churn on few channels, small pages, few documents: loss / re-grant between pulls, paging inside
		// back-fills and revocations
		switch {
		case p < 18:
			op := g.put()
			op.Doc = 1 + g.r.Intn(3)
			op.Acc, op.Rol = nil, nil // admin grants only: these histories are also replayed on the whole-system model
			return op
		case p < 22:
			return c13Op{Kind: "del", Doc: 1 + g.r.Intn(2)}
		case p < 40:
			return c13Op{Kind: "uchans", Set: g.subset(2, 50, 1)}
		case p < 50:
			return c13Op{Kind: "uroles", Set: g.subset(c13NRoles, 50, 1)}
		case p < 62:
			return c13Op{Kind: "rchans", Who: 1 + g.r.Intn(c13NRoles), Set: g.subset(3, 45, 1)}
		case p < 68:
			return c13Op{Kind: "delrole", Who: 1 + g.r.Intn(c13NRoles)}
		default:
			return c13Op{Kind: "pull", Limit: 1 + g.r.Intn(2)}
		}
	}
	switch {
	case p < 30:
		return g.put()
	case p < 37:
		return c13Op{Kind: "del", Doc: 1 + g.r.Intn(c13NDocs)}
	case p < 50:
		return c13Op{Kind: "uchans", Set: g.subset(len(c13ChanNames)-1, 40, 1)}
	case p < 59:
		return c13Op{Kind: "uroles", Set: g.subset(c13NRoles, 50, 1)}
	case p < 70:
		return c13Op{Kind: "rchans", Who: 1 + g.r.Intn(c13NRoles), Set: g.subset(len(c13ChanNames)-1, 40, 1)}
	case p < 74:
		return c13Op{Kind: "delrole", Who: 1 + g.r.Intn(c13NRoles)}
	default:
		lim := 0
		if g.r.Chance(50) {
			lim = 1 + g.r.Intn(3)
		}
		return c13Op{Kind: "pull", Limit: lim}
	}
}

// a role the user keeps holding is soft-deleted and created again through the admin path (UpdatePrincipal ->
// NewRoleNoChannels) between two pulls, with or without its former channels; documents of those channels change, move
// or stay in between; pulls are un-limited or paged
func c13RoleRecreateHistory(r *vRand) []c13Op {
	var ops []c13Op
	sub := func(from, cnt, pct int) []int {
		var out []int
		for i := from; i < from+cnt; i++ {
			if r.Chance(pct) {
				out = append(out, i)
			}
		}
		return out
	}
	first := sub(1, 3, 60)
	if len(first) == 0 {
		first = []int{1}
	}
	ops = append(ops, c13Op{Kind: "rchans", Who: 1, Set: first}, c13Op{Kind: "uroles", Set: []int{1}})
	if r.Chance(30) {
		ops = append(ops, c13Op{Kind: "uchans", Set: sub(1, 3, 30)})
	}
	for d := 1; d <= 3; d++ {
		ch := sub(1, 3, 50)
		if len(ch) == 0 {
			ch = []int{first[0]}
		}
		ops = append(ops, c13Op{Kind: "put", Doc: d, Chans: ch})
	}
	ops = append(ops, c13Op{Kind: "pull"})
	rounds := 1 + r.Intn(2)
	for k := 0; k < rounds; k++ {
		if r.Chance(40) {
			ops = append(ops, c13Op{Kind: "put", Doc: 1 + r.Intn(3), Chans: sub(1, 3, 50)})
		}
		ops = append(ops, c13Op{Kind: "delrole", Who: 1})
		if r.Chance(25) {
			ops = append(ops, c13Op{Kind: "put", Doc: 1 + r.Intn(3), Chans: sub(1, 3, 50)})
		}
		if r.Chance(15) {
			ops = append(ops, c13Op{Kind: "pull", Limit: r.Intn(3)})
		}
		ops = append(ops, c13Op{Kind: "rchans", Who: 1, Set: sub(1, 3, 35)})
		if r.Chance(30) {
			ops = append(ops, c13Op{Kind: "put", Doc: 1 + r.Intn(3), Chans: sub(1, 3, 50)})
		}
		lim := 0
		if r.Chance(30) {
			lim = 1 + r.Intn(2)
		}
		ops = append(ops, c13Op{Kind: "pull", Limit: lim})
		if lim > 0 {
			ops = append(ops, c13Op{Kind: "pull", Limit: lim}, c13Op{Kind: "pull"})
		}
	}
	return ops
}

func c13InNamed(ops []c13Op) []c13Op { return append([]c13Op{{Kind: "named"}}, ops...) }

// histories in the domain of the end-to-end theorem: un-limited pulls, mostly sync-function grants (to the user, to
// roles, role() grants), few channels so that several sources of the same channel overlap, roles deleted and re-created
func c13DocGrantHistory(r *vRand) []c13Op {
	var ops []c13Op
	n := 10 + r.Intn(16)
	sub := func(from, cnt, pct int) []int {
		var out []int
		for i := from; i < from+cnt; i++ {
			if r.Chance(pct) {
				out = append(out, i)
			}
		}
		return out
	}
	for i := 0; i < n; i++ {
		p := r.Intn(100)
		switch {
		case p < 45:
			op := c13Op{Kind: "put", Doc: 1 + r.Intn(3), Chans: sub(1, 2, 50)}
			if r.Chance(60) {
				g := c13Grant{V: sub(1, 2, 60)}
				if r.Chance(45) {
					g.Role, g.To = true, 1+r.Intn(c13NRoles)
				}
				if len(g.V) > 0 {
					op.Acc = []c13Grant{g}
				}
			}
			if r.Chance(25) {
				if v := sub(1, c13NRoles, 50); len(v) > 0 {
					op.Rol = []c13Grant{{V: v}}
				}
			}
			ops = append(ops, op)
		case p < 50:
			ops = append(ops, c13Op{Kind: "del", Doc: 1 + r.Intn(3)})
		case p < 58:
			ops = append(ops, c13Op{Kind: "uchans", Set: sub(1, 2, 40)})
		case p < 64:
			ops = append(ops, c13Op{Kind: "uroles", Set: sub(1, c13NRoles, 50)})
		case p < 72:
			ops = append(ops, c13Op{Kind: "rchans", Who: 1 + r.Intn(c13NRoles), Set: sub(1, 2, 40)})
		case p < 77:
			ops = append(ops, c13Op{Kind: "delrole", Who: 1 + r.Intn(c13NRoles)})
		default:
			ops = append(ops, c13Op{Kind: "pull"})
		}
	}
	return append(ops, c13Op{Kind: "pull"})
}

func c13RandomHistory(r *vRand, adv bool) []c13Op {
	g := &c13Gen{r: r, adv: adv}
	n := 10 + r.Intn(25)
	var ops []c13Op
	for i := 0; i < n; i++ {
		ops = append(ops, g.next())
	}
	// finish with pulls until caught up
	for i := 0; i < 6; i++ {
		ops = append(ops, c13Op{Kind: "pull", Limit: 0})
		if i == 0 {
			break
		}
	}
	return ops
}

func c13Corpus() map[string][]c13Op {
	P := func(d int, ch ...int) c13Op { return c13Op{Kind: "put", Doc: d, Chans: ch} }
	pull := func(l int) c13Op { return c13Op{Kind: "pull", Limit: l} }
	uch := func(ch ...int) c13Op { return c13Op{Kind: "uchans", Set: ch} }
	uro := func(r ...int) c13Op { return c13Op{Kind: "uroles", Set: r} }
	rch := func(r int, ch ...int) c13Op { return c13Op{Kind: "rchans", Who: r, Set: ch} }
	return map[string][]c13Op{
		"grant_backfill":       {P(1, 1), P(2, 2), pull(0), uch(1), pull(0), uch(1, 2), pull(0)},
		"revoke_admin_channel": {uch(1), P(1, 1), P(2, 1, 2), pull(0), uch(), pull(0)},
		"revoke_keeps_visible": {uch(1, 2), P(1, 1, 2), pull(0), uch(2), pull(0)},
		"move_out":             {uch(1), P(1, 1), pull(0), P(1, 2), pull(0)},
		"delete":               {uch(1), P(1, 1), pull(0), {Kind: "del", Doc: 1}, pull(0)},
		"role_grant_revoke":    {rch(1, 1), uro(1), P(1, 1), pull(0), uro(), pull(0)},
		"role_channel_revoke":  {rch(1, 1), uro(1), P(1, 1), pull(0), rch(1), pull(0)},
		"role_delete":          {rch(1, 1), uro(1), P(1, 1), pull(0), {Kind: "delrole", Who: 1}, pull(0)},
		"overlap_two_sources":  {rch(1, 1), uro(1), uch(1), P(1, 1), pull(0), uch(), pull(0), uro(), pull(0)},
		"doc_grant_revoke":     {P(1, 1), {Kind: "put", Doc: 2, Chans: []int{2}, Acc: []c13Grant{{V: []int{1}}}}, pull(0), P(2, 2), pull(0)},
		"doc_role_grant":       {rch(1, 1), P(1, 1), {Kind: "put", Doc: 2, Rol: []c13Grant{{V: []int{1}}}}, pull(0), {Kind: "del", Doc: 2}, pull(0)},
		"paged_backfill":       {P(1, 1), P(2, 1), P(3, 1), uch(1), pull(1), pull(1), pull(1), pull(1)},
		"paged_revocation":     {uch(1), P(1, 1), P(2, 1), P(3, 1), pull(0), uch(), pull(1), pull(1), pull(1), pull(1)},
		"loss_and_regrant":     {uch(1), P(1, 1), pull(0), uch(), uch(1), pull(0)},
		// a revocation, then a grant, then a paged pull: requests resume inside the back-fill (since = trig:seq) after
		// the revocation rows were delivered
		"revoke_then_paged_backfill":  {uch(1), P(1, 1), P(2, 2), P(3, 2), pull(0), uch(), uch(2), pull(1), pull(1), pull(1), pull(1), pull(0)},
		"revoke_grant_same_seq_paged": {uch(1), P(1, 1), P(2, 1), P(3, 2), P(4, 2), pull(0), uch(2), pull(1), pull(1), pull(1), pull(1), pull(1), pull(0)},
		"role_revoke_then_paged_backfill": {rch(1, 1), uro(1), P(1, 1), P(2, 2), P(3, 2), P(4, 2), pull(0), uro(), rch(2, 2), uro(2), pull(2), pull(1), pull(1), pull(0)},
		// a revoked channel whose first entries past the position stay visible through another channel: the revocation feed
		// must keep looking for something to revoke, the examined-but-skipped entries must not use up the page limit
		"paged_revocation_skips_visible":      {uch(2), rch(1, 1), uro(1), P(1, 1, 2), P(2, 1, 2), P(3, 1), pull(0), rch(1), pull(1), pull(1), pull(1), pull(0)},
		"paged_revocation_skips_visible_user": {uch(1, 2), P(1, 1, 2), P(2, 1, 2), P(3, 1), P(4, 1), pull(0), uch(2), pull(1), pull(1), pull(1), pull(1), pull(0)},
		"paged_revocation_skips_visible_2":    {uch(2), rch(1, 1), uro(1), P(1, 1, 2), P(2, 1, 2), P(3, 1, 2), P(4, 1), pull(0), uro(), pull(2), pull(2), pull(2), pull(0)},
		// a role (re-)created after a document granted it a channel
		"role_created_after_doc_grant":   {{Kind: "put", Doc: 3, Acc: []c13Grant{{Role: true, To: 1, V: []int{1}}}}, uro(1), uch(2), P(1, 1), P(2, 2), pull(0), rch(1), pull(0)},
		"role_recreated_after_doc_grant": {rch(1), uro(1), {Kind: "put", Doc: 3, Acc: []c13Grant{{Role: true, To: 1, V: []int{1}}}}, P(1, 1), pull(0), {Kind: "delrole", Who: 1}, pull(0), rch(1), pull(0)},
		// the histories of C13_Refuted.v
		"revocation_token_jump": {uch(1, 4), P(1, 4), pull(0), uch(1), P(2, 1), P(1, 4), pull(1), pull(0)},
		// a held role is deleted after a document of its channel was updated past the client's position
		"role_delete_doc_updated":  {rch(1, 1), uro(1), P(1, 1), pull(0), P(1, 1), {Kind: "delrole", Who: 1}, pull(0)},
		"role_delete_then_update":  {rch(1, 1), uro(1), P(1, 1), pull(0), {Kind: "delrole", Who: 1}, P(1, 1), pull(0)},
		"role_lost_doc_updated":    {rch(1, 1), uro(1), P(1, 1), pull(0), P(1, 1), uro(), pull(0)},
		"role_chan_lost_doc_updated": {rch(1, 1), uro(1), P(1, 1), pull(0), P(1, 1), rch(1), pull(0)},
		"user_chan_lost_doc_updated": {uch(1), P(1, 1), pull(0), P(1, 1), uch(), pull(0)},
		"two_grants_paged":            {P(1, 1), P(2, 1), P(3, 2), P(4, 2), uch(1), pull(1), uch(1, 2), pull(1), pull(1), pull(1), pull(1), pull(0)},
		"regrant_after_move":   {uch(1), P(1, 1), pull(0), uch(), P(1, 2), uch(1), pull(0)},
		// sync-function grants: two documents granting the same channel, a grant to a role the user gets through role(), a
		// granting document deleted, a role's document grant with the role deleted in between
		"two_docs_grant_same_channel": {P(1, 1), {Kind: "put", Doc: 2, Chans: []int{2}, Acc: []c13Grant{{V: []int{1}}}}, {Kind: "put", Doc: 3, Chans: []int{2}, Acc: []c13Grant{{V: []int{1}}}}, pull(0), P(2, 2), pull(0), P(3, 2), pull(0)},
		"doc_role_and_role_channel":   {rch(1), {Kind: "put", Doc: 2, Chans: []int{2}, Acc: []c13Grant{{Role: true, To: 1, V: []int{1}}}, Rol: []c13Grant{{V: []int{1}}}}, P(1, 1), pull(0), P(1, 1), {Kind: "del", Doc: 2}, pull(0)},
		"doc_grant_to_role_role_deleted": {rch(1), uro(1), {Kind: "put", Doc: 2, Chans: []int{2}, Acc: []c13Grant{{Role: true, To: 1, V: []int{1}}}}, P(1, 1), pull(0), P(1, 1), {Kind: "delrole", Who: 1}, pull(0)},
		"doc_grant_moved_between_docs":   {P(1, 1), {Kind: "put", Doc: 2, Chans: []int{2}, Acc: []c13Grant{{V: []int{1}}}}, pull(0), {Kind: "put", Doc: 3, Chans: []int{2}, Acc: []c13Grant{{V: []int{1}}}}, P(2, 2), P(1, 1), pull(0), {Kind: "del", Doc: 3}, pull(0)},
		// channel A from two sources of the same principal (a granting document, then an explicit grant): when the document
		// stops granting, the rebuild keeps A but re-stamps it with the later sequence; the period before is in no history
		// a role the user keeps holding is soft-deleted and created again (admin path) between two pulls
		"role_recreated_between_pulls":  {rch(1, 1), uro(1), P(1, 1), pull(0), {Kind: "delrole", Who: 1}, rch(1), pull(0)},
		"role_recreated_other_channel":  {rch(1, 1), uro(1), P(1, 1), P(2, 2), pull(0), {Kind: "delrole", Who: 1}, rch(1, 2), pull(0)},
		"role_recreated_doc_moved":      {rch(1, 1), uro(1), P(1, 1), pull(0), P(1, 2), {Kind: "delrole", Who: 1}, rch(1), pull(0)},
		"role_recreated_same_channels":  {rch(1, 1), uro(1), P(1, 1), pull(0), {Kind: "delrole", Who: 1}, rch(1, 1), P(1, 2), pull(0), rch(1), pull(0)},
		"role_recreated_twice":          {rch(1, 1, 2), uro(1), P(1, 1), P(2, 2), pull(0), {Kind: "delrole", Who: 1}, rch(1, 2), {Kind: "delrole", Who: 1}, rch(1), pull(0)},
		// the same through the user's ROLE set: role r2 reaches the user from a role() grant of d2 (stamped 2) and from an
		// admin grant (stamped 6); d2 is deleted, the rebuild keeps r2 but re-stamps it 6
		"restamped_role_loses_period": {{Kind: "put", Doc: 2, Chans: []int{2}, Rol: []c13Grant{{V: []int{2}}}}, rch(2, 1), P(1, 1), pull(0), P(1, 2), uro(2), {Kind: "del", Doc: 2}, rch(2), pull(0)},
		"restamped_grant_loses_period": {P(1, 1), {Kind: "put", Doc: 2, Chans: []int{2}, Acc: []c13Grant{{V: []int{1}}}}, pull(0), P(1, 2), uch(1), P(2, 2), uch(), pull(0)},
	}
}


// ---------- synthetic principals: the component functions one to one on generated inputs ----------
// A user and up to three roles are written as raw JSON documents (valid: nothing is rebuilt on load) with arbitrary
// channel / role sets and histories over sequences 0..14, so that entries ending exactly at the check sequence, at
// the trigger, roles that are held again after a loss, deleted and missing roles, the star channel ... all occur.
type c13SynRole struct {
	exists, deleted bool
	chans           map[string]uint64
	hist            map[string][][2]uint64
	inval           uint64
}

func c13HistJSON(h map[string][][2]uint64) map[string]any {
	out := map[string]any{}
	for k, es := range h {
		var ents []string
		for _, e := range es {
			ents = append(ents, fmt.Sprintf("%d-%d", e[0], e[1]))
		}
		out[k] = map[string]any{"updated_at": 4102444800, "entries": ents}
	}
	return out
}

func c13Synthetic(t *testing.T, rec *vRecorder, rnd *vRand, n int) {
	e := c13NewEnv(t, false)
	defer e.close()
	a := e.db.Authenticator(e.ctx)
	chanNames := []string{"*", "!", "A", "B", "C", "D"}
	seqv := func() uint64 { return uint64(rnd.Intn(15)) }
	genSet := func(names []string, pct int) map[string]uint64 {
		m := map[string]uint64{}
		for _, nme := range names {
			if rnd.Chance(pct) {
				m[nme] = seqv()
				if rnd.Chance(80) && m[nme] == 0 {
					m[nme] = 1
				}
			}
		}
		return m
	}
	genHist := func(names []string, pct int) map[string][][2]uint64 {
		h := map[string][][2]uint64{}
		for _, nme := range names {
			if !rnd.Chance(pct) {
				continue
			}
			k := 1 + rnd.Intn(3)
			var es [][2]uint64
			cur := uint64(rnd.Intn(4))
			for j := 0; j < k; j++ {
				st := cur + uint64(rnd.Intn(3))
				en := st + 1 + uint64(rnd.Intn(4))
				if rnd.Chance(6) {
					en = st // empty / inverted period (adversarial)
				}
				es = append(es, [2]uint64{st, en})
				cur = en
			}
			h[nme] = es
		}
		return h
	}
	failOnce := map[string]bool{}
	fail := func(mon, sig string, input any, detail string) {
		if !failOnce[mon+sig] {
			failOnce[mon+sig] = true
			rec.Fail(mon, sig, input, detail)
		}
	}
	for it := 0; it < n; it++ {
		roleNames := []string{"r1", "r2", "r3"}
		chanPct := 30 + rnd.Intn(30)
		if rnd.Chance(90) {
			chanNames[0] = "*"
		}
		names := chanNames[1:]
		if rnd.Chance(12) {
			names = chanNames // the star channel takes part
		}
		roles := map[string]*c13SynRole{}
		for _, rn := range roleNames {
			r := &c13SynRole{exists: rnd.Chance(85)}
			if r.exists {
				r.deleted = rnd.Chance(20)
				r.chans = genSet(names, chanPct)
				r.hist = genHist(names, 35)
				if r.deleted && rnd.Chance(80) {
					r.inval = 1 + seqv()
				}
			}
			roles[rn] = r
			id := a.DocIDForRole(rn)
			if !r.exists {
				_ = e.db.MetadataStore.Delete(e.ctx, id)
				continue
			}
			doc := map[string]any{"name": rn, "all_channels": r.chans, "sequence": 1, "channel_history": c13HistJSON(r.hist)}
			if r.deleted {
				doc["deleted"] = true
			}
			if r.inval != 0 {
				doc["channel_inval_seq"] = r.inval
			}
			raw, _ := json.Marshal(doc)
			if err := e.db.MetadataStore.SetRaw(e.ctx, id, 0, nil, raw); err != nil {
				t.Fatalf("c13 synthetic: SetRaw role: %v", err)
			}
		}
		udoc := map[string]any{"name": "u", "all_channels": genSet(names, chanPct), "sequence": 1 + rnd.Intn(10),
			"channel_history": c13HistJSON(genHist(names, 40)), "rolesSince": genSet(roleNames, 45),
			"role_history": c13HistJSON(genHist(roleNames, 45)), "session_uuid": "c13"}
		raw, _ := json.Marshal(udoc)
		if err := e.db.MetadataStore.SetRaw(e.ctx, a.DocIDForUser("u"), 0, nil, raw); err != nil {
			t.Fatalf("c13 synthetic: SetRaw user: %v", err)
		}
		usr, err := a.GetUser("u")
		if err != nil || usr == nil {
			t.Fatalf("c13 synthetic: GetUser: %v", err)
		}
		ust, err := e.userSt(usr)
		if err != nil {
			t.Fatalf("c13 synthetic: %v", err)
		}
		var rst []c13RoleSt
		for _, rn := range roleNames {
			st, err := e.loadRoleSt(a, rn)
			if err != nil {
				t.Fatalf("c13 synthetic: %v", err)
			}
			if st != nil {
				rst = append(rst, *st)
			}
		}
		desc := map[string]any{"user": ust, "roles": rst}
		inh, err := usr.InheritedCollectionChannels(e.col.ScopeName, e.col.Name)
		if err != nil {
			t.Fatalf("c13 synthetic: %v", err)
		}
		inhP, _ := c13TimedSet(inh, c13ChanID)
		rec.Case("synthetic", "inherited", fmt.Sprintf("(CInherited %s %s %s)", c13UserCoq(ust), c13RolesCoq(rst), c13PairsCoq(inhP)),
			map[string]any{"in": desc, "inherited": inhP}, len(rst) > 0)
		// revoked channels for a handful of resume positions, boundaries included
		for k := 0; k < 4; k++ {
			since, low, trig := seqv(), uint64(0), uint64(0)
			if rnd.Chance(35) {
				trig = 1 + seqv()
			}
			if rnd.Chance(10) {
				low = 1 + seqv()
			}
			revoked, err := usr.RevokedCollectionChannels(e.col.ScopeName, e.col.Name, since, low, trig)
			if err != nil {
				t.Fatalf("c13 synthetic: %v", err)
			}
			var revP []c13Pair
			for c, sq := range revoked {
				id, _ := c13ChanID(c)
				revP = append(revP, c13Pair{id, sq})
				if inh.Contains(c) {
					fail("revoked_sound", "revoked-channel-accessible", map[string]any{"in": desc, "since": since, "low": low, "trig": trig},
						fmt.Sprintf("channel %s reported revoked at %d but is in the inherited channels %v", c, sq, inhP))
				}
			}
			sort.Slice(revP, func(x, y int) bool { return revP[x].A < revP[y].A })
			rec.Case("synthetic", "revoked_channels", fmt.Sprintf("(CRevoked %s %s %d %d %d %s)", c13UserCoq(ust), c13RolesCoq(rst), since, low, trig, c13PairsCoq(revP)),
				map[string]any{"in": desc, "since": since, "low": low, "trig": trig, "revoked": revP}, len(revP) > 0)
		}
		col := *e.col
		col.user = usr
		for _, cname := range []string{names[rnd.Intn(len(names))], names[rnd.Intn(len(names))]} {
			cid, _ := c13ChanID(cname)
			per, err := usr.CollectionChannelGrantedPeriods(e.col.ScopeName, e.col.Name, cname)
			if err != nil {
				t.Fatalf("c13 synthetic: %v", err)
			}
			pp := c13SortPeriods(per)
			rec.Case("synthetic", "granted_periods", fmt.Sprintf("(CPeriods %s %s %d %s)", c13UserCoq(ust), c13RolesCoq(rst), cid, c13PairsCoq(pp)),
				map[string]any{"in": desc, "channel": cname, "periods": pp}, len(pp) > 1)
			// a synthetic document history
			var sd SyncData
			var ents []c13DocEnt
			for _, dn := range names {
				if rnd.Chance(45) {
					st := seqv()
					en := uint64(0)
					if rnd.Chance(50) {
						en = st + 1 + uint64(rnd.Intn(5))
					}
					sd.ChannelSet = append(sd.ChannelSet, ChannelSetEntry{Name: dn, Start: st, End: en})
				}
				if rnd.Chance(25) {
					st := seqv()
					sd.ChannelSetHistory = append(sd.ChannelSetHistory, ChannelSetEntry{Name: dn, Start: st, End: st + 1 + uint64(rnd.Intn(4))})
				}
			}
			ents = append(c13DocEnts(sd.ChannelSet), c13DocEnts(sd.ChannelSetHistory)...)
			for k := 0; k < 3; k++ {
				sv := seqv()
				was, err := col.wasDocInChannelPriorToRevocation(e.ctx, sd, "dx", cname, sv)
				if err != nil {
					t.Fatalf("c13 synthetic: %v", err)
				}
				rec.Case("synthetic", "was_in_channel", fmt.Sprintf("(CWasIn %s %s %s %d %d %s)", c13DocEntsCoq(ents), c13UserCoq(ust), c13RolesCoq(rst), cid, sv, cqBool(was)),
					map[string]any{"in": desc, "doc_history": ents, "channel": cname, "since": sv, "result": was}, was)
			}
		}
	}
}


// paged revocations: documents in A and B first (in sequence order), then documents in A only; the user holds B
// directly and A directly or through a role; after a completed pull A is lost (one of five ways) and the client pulls
// with pages of 1..2 rows until it is caught up.  No sync-function grants: also replayed on the whole-system model.
func c13PagedRevocationHistory(r *vRand) []c13Op {
	var ops []c13Op
	viaRole := r.Chance(60)
	if viaRole {
		ops = append(ops, c13Op{Kind: "uchans", Set: []int{2}}, c13Op{Kind: "rchans", Who: 1, Set: []int{1}}, c13Op{Kind: "uroles", Set: []int{1}})
	} else {
		ops = append(ops, c13Op{Kind: "uchans", Set: []int{1, 2}})
	}
	both := 1 + r.Intn(3)
	doc := 1
	for k := 0; k < both && doc <= c13NDocs; k++ {
		ops = append(ops, c13Op{Kind: "put", Doc: doc, Chans: []int{1, 2}})
		doc++
	}
	for doc <= c13NDocs {
		if r.Chance(75) {
			ops = append(ops, c13Op{Kind: "put", Doc: doc, Chans: []int{1}})
		} else {
			ops = append(ops, c13Op{Kind: "put", Doc: doc, Chans: []int{2}})
		}
		doc++
	}
	ops = append(ops, c13Op{Kind: "pull"})
	if r.Chance(30) {
		ops = append(ops, c13Op{Kind: "put", Doc: 1 + r.Intn(both), Chans: []int{1, 2}}) // an A-and-B document changes after the pull
	}
	if viaRole {
		switch r.Intn(3) {
		case 0:
			ops = append(ops, c13Op{Kind: "rchans", Who: 1})
		case 1:
			ops = append(ops, c13Op{Kind: "uroles"})
		default:
			ops = append(ops, c13Op{Kind: "delrole", Who: 1})
		}
	} else {
		ops = append(ops, c13Op{Kind: "uchans", Set: []int{2}})
	}
	lim := 1 + r.Intn(2)
	for k := 0; k < 5; k++ {
		ops = append(ops, c13Op{Kind: "pull", Limit: lim})
	}
	return append(ops, c13Op{Kind: "pull"})
}

// ---------- bounded-exhaustive histories ----------
// Every sequence of length <= L over the alphabet below (1 user, role r1, document d1, channels A and B), run after a
// fixed prefix that gives the user channel A twice over (directly and through r1), a document in A and a completed pull;
// every history ends with a page-limited pull and pulls until caught up.
func c13Alphabet() []c13Op {
	return []c13Op{
		{Kind: "put", Doc: 1, Chans: []int{1}},
		{Kind: "put", Doc: 1, Chans: []int{2}},
		{Kind: "del", Doc: 1},
		{Kind: "uchans", Set: []int{1}},
		{Kind: "uchans"},
		{Kind: "uroles", Set: []int{1}},
		{Kind: "uroles"},
		{Kind: "rchans", Who: 1, Set: []int{1}},
		{Kind: "rchans", Who: 1},
		{Kind: "delrole", Who: 1},
		{Kind: "put", Doc: 2, Chans: []int{2}, Acc: []c13Grant{{V: []int{1}}}},
		{Kind: "put", Doc: 2, Chans: []int{2}},
		{Kind: "pull", Limit: 0},
		{Kind: "pull", Limit: 1},
	}
}

func c13ExhaustivePrefix(variant int) []c13Op {
	pre := []c13Op{{Kind: "rchans", Who: 1, Set: []int{1}}, {Kind: "put", Doc: 1, Chans: []int{1}}}
	switch variant % 3 {
	case 0:
		pre = append(pre, c13Op{Kind: "uchans", Set: []int{1}})
	case 1:
		pre = append(pre, c13Op{Kind: "uroles", Set: []int{1}})
	default:
		pre = append(pre, c13Op{Kind: "uchans", Set: []int{1}}, c13Op{Kind: "uroles", Set: []int{1}})
	}
	return append(pre, c13Op{Kind: "pull"})
}

// ---------- shrinking: drop operations while the same monitor signature still fails ----------
func c13Shrink(t *testing.T, ops []c13Op, mon, sig string) []c13Op {
	still := func(cand []c13Op) bool {
		res := c13Run(t, cand, false)
		for _, f := range res.fails {
			if f.monitor == mon && f.sig == sig {
				return true
			}
		}
		return false
	}
	cur := append([]c13Op{}, ops...)
	budget := 60
	for changed := true; changed && budget > 0; {
		changed = false
		for i := len(cur) - 1; i >= 0 && budget > 0; i-- {
			cand := append(append([]c13Op{}, cur[:i]...), cur[i+1:]...)
			budget--
			if still(cand) {
				cur = cand
				changed = true
			}
		}
	}
	return cur
}

// ---------- entry point ----------
func TestVerifC13(t *testing.T) {
	rec := vNewRecorder(t, "C13", "C13.C13_Corr")
	rec.shardSize = 1600 // the cases are small terms: loading the model dominates a shard's cost
	defer rec.Finish()
	rnd := vNewRand(vSeed())
	if os.Getenv("C13_DEBUG") != "" {
		base.SetUpTestLogging(t, base.LevelInfo, base.KeyChanges)
	} else {
		base.SetUpTestLogging(t, base.LevelError, base.KeyNone)
	}
	reported := map[string]bool{}
	nHist := map[string]int{}

	history := func(stream, kind string, ops []c13Op, emit bool) {
		res := c13Run(t, ops, emit)
		nHist[stream]++
		for _, c := range res.cases {
			rec.Case(stream, c.kind, c.coq, c.desc, c.nt)
		}
		key, _ := json.Marshal(ops)
		rec.Count(stream, "history", string(key), res.nontri)
		rec.Size(fmt.Sprintf("ops_%02d", (len(ops)/10)*10))
		for _, op := range ops {
			rec.Err("op-" + op.Kind)
		}
		for k, v := range res.stats {
			for j := 0; j < v; j++ {
				rec.Err(k)
			}
		}
		for _, f := range res.fails {
			if reported[f.monitor+"/"+f.sig] {
				continue
			}
			reported[f.monitor+"/"+f.sig] = true
			small := ops
			if f.at >= 0 && !strings.HasPrefix(f.sig, "op-error") && stream != "corpus" { // the scripted scenarios are minimal already
				small = c13Shrink(t, ops[:c13Min(len(ops), f.at+1)], f.monitor, f.sig)
			}
			sres := c13Run(t, small, false)
			detail := f.detail
			for _, sf := range sres.fails {
				if sf.monitor == f.monitor && sf.sig == f.sig {
					detail = sf.detail
				}
			}
			rec.Fail(f.monitor, f.sig, map[string]any{"stream": stream, "ops": small, "pulls": sres.pulls, "original_length": len(ops)}, detail)
		}
	}

	if js := os.Getenv("C13_REPLAY_OPS"); js != "" {
		var ops []c13Op
		if err := json.Unmarshal([]byte(js), &ops); err != nil {
			t.Fatalf("C13_REPLAY_OPS: %v", err)
		}
		res := c13Run(t, ops, false)
		for _, f := range res.fails {
			fmt.Printf("C13REPLAY fail %s %s: %s\n", f.monitor, f.sig, f.detail)
		}
		for _, p := range res.pulls {
			fmt.Printf("C13REPLAY pull@%d limit=%d -> since %s caught=%v rows=%+v client=%v visible=%v\n", p.At, p.Limit, p.Since, p.CaughtUp, p.Rows, p.Client, p.Visible)
		}
		return
	}
	// (i) corpus: one scripted scenario per clause
	corpus := c13Corpus()
	names := make([]string, 0, len(corpus))
	for n := range corpus {
		names = append(names, n)
	}
	sort.Strings(names)
	for _, n := range names {
		if os.Getenv("C13_CORPUS_DEBUG") != "" {
			res := c13Run(t, corpus[n], false)
			for _, f := range res.fails {
				fmt.Printf("C13CORPUS %s: %s %s: %s\n", n, f.monitor, f.sig, f.detail)
			}
			for _, p := range res.pulls {
				fmt.Printf("C13CORPUS %s:    pull@%d limit=%d -> since %s rows=%+v client=%v visible=%v\n", n, p.At, p.Limit, p.Since, p.Rows, p.Client, p.Visible)
			}
			continue
		}
		history("corpus", "corpus_"+n, corpus[n], true)
	}
	// the same scenarios with the database serving a named collection
	if os.Getenv("C13_CORPUS_DEBUG") == "" {
		for _, n := range names {
			history("corpus_named", "corpus_named_"+n, c13InNamed(corpus[n]), true)
		}
	}
	if os.Getenv("C13_CORPUS_DEBUG") != "" {
		return
	}

	// (ii) bounded-exhaustive
	maxLen := 1
	if vThorough() {
		maxLen = 2
	}
	if os.Getenv("VERIF_BUDGET") != "" {
		maxLen = 1 // the failing-input search concentrates on the random streams
	}
	if v := os.Getenv("C13_EXLEN"); v != "" {
		maxLen, _ = strconv.Atoi(v)
	}
	alpha := c13Alphabet()
	nEx := 0
	var seq []c13Op
	var enum func(depth int)
	enum = func(depth int) {
		if depth > 0 {
			for variant := 0; variant < 3; variant++ {
				ops := append(c13ExhaustivePrefix(variant), seq...)
				ops = append(ops, c13Op{Kind: "pull", Limit: 1}, c13Op{Kind: "pull", Limit: 1}, c13Op{Kind: "pull"})
				// the Coq cases of one variant in three are enough in the quick tier; the monitors run on all
				history("exhaustive", "exhaustive", ops, vThorough() || (nEx+variant)%3 == 0)
			}
			nEx++
		}
		if depth == maxLen {
			return
		}
		for _, a := range alpha {
			seq = append(seq, a)
			enum(depth + 1)
			seq = seq[:len(seq)-1]
		}
	}
	enum(0)
	rec.Extra("exhaustive", true)
	rec.Extra("exhaustive_scope", fmt.Sprintf("all %d sequences of length 1..%d over %d operations (1 user, role r1, documents d1 d2, channels A B), after each of 3 prefixes (channel A held directly / through r1 / both; d1 in A; completed pull), followed by two page-limited pulls and a full pull", nEx, maxLen, len(alpha)))

	// (iii) seeded random histories
	nRand := vBudget(24, 400)
	if os.Getenv("VERIF_BUDGET") != "" {
		nRand = vBudget(30, 120) // search rounds: other seeds, a few hundred histories each
	}
	if v := os.Getenv("C13_NRAND"); v != "" {
		nRand, _ = strconv.Atoi(v)
	}
	for i := 0; i < nRand; i++ {
		history("random", "random", c13RandomHistory(rnd, false), true)
	}
	for i := 0; i < nRand/2; i++ {
		history("adversarial", "adversarial", c13RandomHistory(rnd, true), true)
	}
	for i := 0; i < vBudget(8, 80); i++ {
		history("paged_revocation", "paged_revocation", c13PagedRevocationHistory(rnd), true)
	}
	for i := 0; i < nRand/2; i++ {
		history("doc_grants", "doc_grants", c13DocGrantHistory(rnd), true)
	}
	for i := 0; i < vBudget(10, 100); i++ {
		h := c13RoleRecreateHistory(rnd)
		history("role_recreate", "role_recreate", h, true)
		history("role_recreate_named", "role_recreate_named", c13InNamed(h), true)
	}
	for i := 0; i < vBudget(6, 80); i++ {
		history("random_named", "random_named", c13InNamed(c13RandomHistory(rnd, i%2 == 1)), true)
	}

	// (iv) the component functions on synthetic principals
	nSyn := vBudget(90, 1500)
	if v := os.Getenv("C13_NSYN"); v != "" {
		nSyn, _ = strconv.Atoi(v)
	}
	c13Synthetic(t, rec, rnd, nSyn)
	if b, err := json.Marshal(map[string]any{"histories": nHist, "synthetic_principals": nSyn}); err == nil {
		rec.Extra("streams_detail", string(b))
	}
}

func c13Min(a, b int) int {
	if a < b {
		return a
	}
	return b
}
